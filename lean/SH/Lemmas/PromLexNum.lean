/-
  SH.Lemmas.PromLexNum — the lexical layer for durations and numbers (property C28), over SH.Model.PromLex.

  * `natDigits_spec`, `parseDuration_printSeconds`: the digit list `%d` writes reads back to n, and `<n>s` is parsed by the
    model of model.ParseDuration + parser.parseDuration to n seconds for 1 ≤ n ≤ maxSecs.
  * `lex_secs`, `lex_printSeconds`: scanNumber / acceptRemainingDuration cut `<digits>s` as one DURATION token, both in
    lexNumberOrDuration (after `offset`) and in lexDuration (after `[`).
  * `scanNumber_shape`: scanNumber consumes exactly a number of the shapes fmt.Sprint(float64) writes.
  * `lexWord_run`: lexKeywordOrIdentifier takes a word whole (used for `Inf`, `NaN`).
-/
import SH.Model.PromLex
import SH.Model.PromSyntax
set_option linter.unusedSimpArgs false
namespace SH.PromLex.Num
open SH.PromLex

theorem dropWhile_run (p : Nat → Bool) (ds : List Nat) (c : Nat) (rest : List Nat) (hds : ∀ d ∈ ds, p d = true) (hc : p c = false) :
    (ds ++ c :: rest).dropWhile p = c :: rest := by
  induction ds with
  | nil => simp [List.dropWhile, hc]
  | cons d ds ih =>
    have := hds d (by simp)
    simp [List.dropWhile, this, ih (fun x hx => hds x (by simp [hx]))]

theorem takeWhile_run (p : Nat → Bool) (ds : List Nat) (c : Nat) (rest : List Nat) (hds : ∀ d ∈ ds, p d = true) (hc : p c = false) :
    (ds ++ c :: rest).takeWhile p = ds := by
  induction ds with
  | nil => simp [List.takeWhile, hc]
  | cons d ds ih =>
    have := hds d (by simp)
    simp [List.takeWhile, this, ih (fun x hx => hds x (by simp [hx]))]

theorem dropWhile_all (p : Nat → Bool) (ds : List Nat) (hds : ∀ d ∈ ds, p d = true) : ds.dropWhile p = [] := by
  induction ds with
  | nil => rfl
  | cons d ds ih => simp [List.dropWhile, hds d (by simp), ih (fun x hx => hds x (by simp [hx]))]

theorem readNat_snoc (ds : List Nat) (d : Nat) : readNat (ds ++ [d]) = readNat ds * 10 + (d - 48) := by
  simp [readNat, List.foldl_append]

theorem digitsAux_spec : ∀ (f n : Nat), n ≤ f →
    readNat (digitsAux f n) = n ∧ (∀ d ∈ digitsAux f n, isDigitB d = true) ∧ digitsAux f n ≠ [] := by
  intro f
  induction f with
  | zero =>
    intro n hn
    have : n = 0 := by omega
    subst this
    simp [digitsAux, readNat, isDigitB]
  | succ f ih =>
    intro n hn
    unfold digitsAux
    split
    · rename_i hlt
      refine ⟨by simp [readNat], ?_, by simp⟩
      intro d hd; simp at hd; subst hd; simp [isDigitB]; omega
    · rename_i hge
      obtain ⟨h1, h2, h3⟩ := ih (n / 10) (by omega)
      refine ⟨?_, ?_, by simp⟩
      · rw [readNat_snoc, h1]; omega
      · intro d hd
        simp at hd
        rcases hd with hd | rfl
        · exact h2 d hd
        · simp [isDigitB]; omega

theorem natDigits_spec (n : Nat) :
    readNat (natDigits n) = n ∧ (∀ d ∈ natDigits n, isDigitB d = true) ∧ natDigits n ≠ [] :=
  digitsAux_spec n n (Nat.le_refl n)

theorem isDigit_115 : isDigitB 115 = false := by decide

/-- model.ParseDuration on `<digits>s`: the digits' value in nanoseconds, if it is in range -/
theorem parseDurLoop_secs (ds : List Nat) (hds : ∀ d ∈ ds, isDigitB d = true) (hne : ds ≠ [])
    (hv : readNat ds ≤ SH.PromSyntax.maxSecs) (f : Nat) :
    parseDurLoop (f + 2) (ds ++ [115]) 0 0 = some (readNat ds * 1000000000) := by
  obtain ⟨d0, ds', rfl⟩ := List.exists_cons_of_ne_nil hne
  have hd0 := hds d0 (by simp)
  have htw := takeWhile_run isDigitB (d0 :: ds') 115 [] hds isDigit_115
  have hdw := dropWhile_run isDigitB (d0 :: ds') 115 [] hds isDigit_115
  simp only [SH.PromSyntax.maxSecs] at hv
  have h1 : ¬ readNat (d0 :: ds') ≥ 2 ^ 64 := by omega
  have h2 : ¬ readNat (d0 :: ds') > 2 ^ 63 / 1000000000 := by omega
  have h3 : ¬ 0 + readNat (d0 :: ds') * 1000000000 > 2 ^ 63 - 1 := by omega
  rw [show f + 2 = (f + 1) + 1 from rfl]
  unfold parseDurLoop
  simp only [List.cons_append, hd0, Bool.not_true, Bool.false_eq_true, if_false]
  simp only [← List.cons_append, htw, hdw]
  simp [List.takeWhile, List.dropWhile, isDigit_115, unitOf, h1, h2, h3, parseDurLoop]
  omega

theorem printSeconds_ne (n : Nat) : printSeconds n ≠ [48] ∧ printSeconds n ≠ [] := by
  obtain ⟨_, _, hne⟩ := natDigits_spec n
  obtain ⟨d0, ds', h⟩ := List.exists_cons_of_ne_nil hne
  simp [printSeconds, h]

/-- the printed `<n>s` parses back to n seconds, for every n the parser can denote -/
theorem parseDuration_printSeconds (n : Nat) (h1 : 1 ≤ n) (h2 : n ≤ SH.PromSyntax.maxSecs) :
    parseDuration (printSeconds n) = some n := by
  obtain ⟨hr, hd, hne⟩ := natDigits_spec n
  have hl := parseDurLoop_secs (natDigits n) hd hne (by rw [hr]; exact h2) (natDigits n).length
  have hlen : (printSeconds n).length + 1 = (natDigits n).length + 2 := by
    simp only [printSeconds, List.length_append, List.length_cons, List.length_nil]
  have hns : parseDurNs (printSeconds n) = some (n * 1000000000) := by
    simp only [parseDurNs, (printSeconds_ne n).1, (printSeconds_ne n).2, if_false, hlen]
    rw [show printSeconds n = natDigits n ++ [115] from rfl, hl, hr]
  simp only [parseDuration, hns]
  have : n * 1000000000 ≠ 0 := by omega
  simp only [this, if_false]
  congr 1
  simp only [SH.PromSyntax.maxSecs] at h2
  omega

/-! scanning -/

def headDigit : List Nat → Bool
  | c :: _ => isDigitB c
  | [] => false

theorem dropWhile_digits (X T : List Nat) (hX : ∀ d ∈ X, isDigitB d = true) (hT : headDigit T = false) :
    (X ++ T).dropWhile isDigitB = T := by
  cases T with
  | nil => simpa using dropWhile_all isDigitB X hX
  | cons c t => exact dropWhile_run isDigitB X c t hX (by simpa [headDigit] using hT)

theorem scanPrefix_dec (d0 : Nat) (X T : List Nat) (hd0 : isDigitB d0 = true) (hX : ∀ d ∈ X, isDigitB d = true)
    (hT : ∀ c t, T = c :: t → c ≠ 120 ∧ c ≠ 88) :
    ∃ X', (scanPrefix (d0 :: X ++ T)) = (false, X' ++ T) ∧ ∀ d ∈ X', isDigitB d = true := by
  by_cases h48 : d0 = 48
  · subst h48
    cases X with
    | nil =>
      cases T with
      | nil => exact ⟨[], by simp [scanPrefix], by simp⟩
      | cons c t =>
        obtain ⟨h1, h2⟩ := hT c t rfl
        exact ⟨[], by simp [scanPrefix, h1, h2], by simp⟩
    | cons x X' =>
      have hx := hX x (by simp)
      have h1 : x ≠ 120 := by intro h; subst h; simp [isDigitB] at hx
      have h2 : x ≠ 88 := by intro h; subst h; simp [isDigitB] at hx
      exact ⟨x :: X', by simp [scanPrefix, h1, h2], hX⟩
  · refine ⟨d0 :: X, ?_, ?_⟩
    · unfold scanPrefix
      split
      · rename_i heq; simp at heq; exact absurd heq.1 h48
      · rename_i heq; simp at heq; exact absurd heq.1 h48
      · rfl
    · intro d hd; simp at hd; rcases hd with rfl | hd
      · exact hd0
      · exact hX d hd

theorem headAlnum_false_digit (T : List Nat) (h : headAlnum T = false) : headDigit T = false := by
  cases T with
  | nil => rfl
  | cons c t => simp [headAlnum, isAlnumB] at h; simp [headDigit, h.2]

/-- scanNumber stops in front of the unit of `<digits>s` and reports "not a number" -/
theorem scanNumber_secs (ds rest : List Nat) (hds : ∀ d ∈ ds, isDigitB d = true) (hne : ds ≠ []) :
    scanNumber (ds ++ 115 :: rest) = (false, 115 :: rest) := by
  obtain ⟨d0, X, rfl⟩ := List.exists_cons_of_ne_nil hne
  obtain ⟨X', hp, hX'⟩ := scanPrefix_dec d0 X (115 :: rest) (hds d0 (by simp)) (fun d hd => hds d (by simp [hd]))
    (by intro c t h; cases h; decide)
  have hdw := dropWhile_run isDigitB X' 115 rest hX' isDigit_115
  simp only [scanNumber, hp, Bool.false_eq_true, if_false, hdw]
  simp [scanFrac, scanExp, headAlnum, isAlnumB, isAlphaB]

theorem acceptRemDur_s (rest : List Nat) (h : headAlnum rest = false) : acceptRemDur (115 :: rest) = some rest := by
  cases rest with
  | nil => simp [acceptRemDur, isUnit1, remDurLoop]
  | cons c t =>
    have hd := headAlnum_false_digit _ h
    simp only [headAlnum] at h
    simp only [headDigit] at hd
    simp [acceptRemDur, isUnit1, remDurLoop, hd, h]

/-- the lexer cuts `<digits>s` followed by a non-alphanumeric as one DURATION token, after `offset` and after `[` alike -/
theorem lex_secs (ds rest : List Nat) (hds : ∀ d ∈ ds, isDigitB d = true) (hne : ds ≠ []) (h : headAlnum rest = false) :
    lexNumOrDur (ds ++ 115 :: rest) = .dur (ds.length + 1) ∧ lexDurationB (ds ++ 115 :: rest) = .dur (ds.length + 1) := by
  have hs := scanNumber_secs ds rest hds hne
  have ha := acceptRemDur_s rest h
  have hl : (ds ++ 115 :: rest).length - rest.length = ds.length + 1 := by
    simp only [List.length_append, List.length_cons]; omega
  simp only [lexNumOrDur, lexDurationB, hs, ha, hl, Bool.false_eq_true, if_false, and_self]

theorem lex_printSeconds (n : Nat) (rest : List Nat) (h : headAlnum rest = false) :
    lexNumOrDur (printSeconds n ++ rest) = .dur (printSeconds n).length ∧
    lexDurationB (printSeconds n ++ rest) = .dur (printSeconds n).length := by
  obtain ⟨_, hd, hne⟩ := natDigits_spec n
  have := lex_secs (natDigits n) rest hd hne h
  simpa [printSeconds] using this

/-! numbers as fmt.Sprint writes them -/

/-- what may follow a printed number: not an alphanumeric and not a dot -/
def numFollow : List Nat → Bool
  | c :: _ => !isAlnumB c && c != 46
  | [] => true

theorem numFollow_spec (rest : List Nat) (h : numFollow rest = true) :
    headAlnum rest = false ∧ headDigit rest = false ∧ (∀ c t, rest = c :: t → c ≠ 46 ∧ c ≠ 101 ∧ c ≠ 69 ∧ c ≠ 120 ∧ c ≠ 88) := by
  cases rest with
  | nil => simp [headAlnum, headDigit]
  | cons c t =>
    simp only [numFollow, Bool.and_eq_true, Bool.not_eq_true', bne_iff_ne, ne_eq] at h
    have ha := h.1
    refine ⟨by simpa [headAlnum] using ha, ?_, ?_⟩
    · simp [isAlnumB] at ha; simp [headDigit, ha.2]
    · intro c' t' heq; cases heq
      refine ⟨h.2, ?_, ?_, ?_, ?_⟩ <;> (intro hc; subst hc; revert ha; decide)

theorem scanFrac_skip (p : Nat → Bool) (T : List Nat) (h : ∀ c t, T = c :: t → c ≠ 46) : scanFrac p T = T := by
  unfold scanFrac
  split
  · rename_i cs; exact absurd rfl (h 46 cs rfl)
  · rfl

theorem scanExp_skip (T : List Nat) (h : ∀ c t, T = c :: t → c ≠ 101 ∧ c ≠ 69) : scanExp T = T := by
  cases T with
  | nil => rfl
  | cons c t => obtain ⟨h1, h2⟩ := h c t rfl; simp [scanExp, h1, h2]

theorem scanExp_exp (neg : Bool) (e rest : List Nat) (he : ∀ d ∈ e, isDigitB d = true) (hr : headDigit rest = false) :
    scanExp (101 :: (if neg then 45 else 43) :: (e ++ rest)) = rest := by
  cases neg <;> simp [scanExp, scanSign, dropWhile_digits e rest he hr]

/-- scanNumber consumes exactly a printed number -/
theorem scanNumber_shape (sh : NumShape) (hok : sh.ok = true) (rest : List Nat) (hf : numFollow rest = true) :
    scanNumber (sh.render ++ rest) = (true, rest) := by
  obtain ⟨int, frac, exp⟩ := sh
  obtain ⟨ha, hd, hr⟩ := numFollow_spec rest hf
  simp only [NumShape.ok, Bool.and_eq_true, Bool.not_eq_true', List.all_eq_true] at hok
  obtain ⟨⟨⟨hne, hint⟩, hfrac⟩, hexp⟩ := hok
  obtain ⟨d0, X, rfl⟩ := List.exists_cons_of_ne_nil (by intro h; subst h; simp at hne : int ≠ [])
  -- the exponent part
  have hE : ∃ E, expToks exp = E ∧
      scanExp (E ++ rest) = rest ∧ headDigit (E ++ rest) = false ∧
      (∀ c t, E ++ rest = c :: t → c ≠ 46 ∧ c ≠ 120 ∧ c ≠ 88) := by
    cases exp with
    | none =>
      refine ⟨[], rfl, ?_, by simpa using hd, ?_⟩
      · simpa using scanExp_skip rest (fun c t h => ⟨(hr c t h).2.1, (hr c t h).2.2.1⟩)
      · intro c t h; simp at h; exact ⟨(hr c t h).1, (hr c t h).2.2.2.1, (hr c t h).2.2.2.2⟩
    | some ne =>
      obtain ⟨neg, e⟩ := ne
      simp only [Bool.and_eq_true, Bool.not_eq_true', List.all_eq_true] at hexp
      refine ⟨_, rfl, ?_, by simp [expToks, headDigit, isDigitB], ?_⟩
      · simpa [expToks] using scanExp_exp neg e rest hexp.2 hd
      · intro c t h; simp [expToks] at h; obtain ⟨rfl, _⟩ := h; decide
  obtain ⟨E, hEq, hEs, hEd, hEh⟩ := hE
  -- the fraction part
  have hF : ∃ F, fracToks frac = F ∧
      scanExp (scanFrac isDigitB (F ++ (E ++ rest))) = rest ∧ headDigit (F ++ (E ++ rest)) = false ∧
      (∀ c t, F ++ (E ++ rest) = c :: t → c ≠ 120 ∧ c ≠ 88) := by
    cases frac with
    | none =>
      refine ⟨[], rfl, ?_, by simpa using hEd, ?_⟩
      · simp only [List.nil_append]
        rw [scanFrac_skip _ _ (fun c t h => (hEh c t h).1), hEs]
      · intro c t h; simp at h; exact (hEh c t h).2
    | some f =>
      simp only [Bool.and_eq_true, Bool.not_eq_true', List.all_eq_true] at hfrac
      refine ⟨_, rfl, ?_, by simp [fracToks, headDigit, isDigitB], ?_⟩
      · simp only [fracToks, List.cons_append, scanFrac, dropWhile_digits f (E ++ rest) hfrac.2 hEd, hEs]
      · intro c t h; simp [fracToks] at h; obtain ⟨rfl, _⟩ := h; decide
  obtain ⟨F, hFq, hFs, hFd, hFh⟩ := hF
  have hrender : NumShape.render ⟨d0 :: X, frac, exp⟩ ++ rest = d0 :: X ++ (F ++ (E ++ rest)) := by
    simp only [NumShape.render, hFq, hEq, List.append_assoc]
  obtain ⟨X', hp, hX'⟩ := scanPrefix_dec d0 X (F ++ (E ++ rest)) (hint d0 (by simp)) (fun d hd' => hint d (by simp [hd'])) hFh
  rw [hrender]
  simp only [scanNumber, hp, Bool.false_eq_true, if_false, dropWhile_digits X' _ hX' hFd, hFs, ha, Bool.not_false]

/-- `Inf` and `NaN` are words: lexKeywordOrIdentifier takes them whole, and the keyword table makes them NUMBER tokens -/
theorem takeWhile_all (p : Nat → Bool) (ds : List Nat) (hds : ∀ d ∈ ds, p d = true) : ds.takeWhile p = ds := by
  induction ds with
  | nil => rfl
  | cons d ds ih => simp [List.takeWhile, hds d (by simp), ih (fun x hx => hds x (by simp [hx]))]

theorem lexWord_run (w : List Nat) (rest : List Nat) (hw : ∀ c ∈ w, isWordB c = true)
    (hr : ∀ c t, rest = c :: t → isWordB c = false) : lexWord (w ++ rest) = (w, rest) := by
  cases rest with
  | nil => simp [lexWord, dropWhile_all isWordB w hw, takeWhile_all isWordB w hw]
  | cons c t => simp only [lexWord, takeWhile_run isWordB w c t hw (hr c t rfl), dropWhile_run isWordB w c t hw (hr c t rfl)]

/-! the `@` timestamp -/

theorem isDigit_46 : isDigitB 46 = false := by decide

theorem pad3_digits (r : Nat) : ∀ d ∈ pad3Digits r, isDigitB d = true := by
  intro d hd
  simp only [pad3Digits, List.mem_cons, List.mem_nil_iff, or_false] at hd
  rcases hd with rfl | rfl | rfl <;> simp [isDigitB] <;> omega

theorem readNat_pad3 (r : Nat) (h : r < 1000) : readNat (pad3Digits r) = r := by
  simp only [pad3Digits, readNat, List.foldl_cons, List.foldl_nil]
  omega

/-- the printed `%.3f` seconds of k ms convert back to exactly k ms, for every k -/
theorem atMs_printMs (k : Nat) : atMs (printMs k) = some k := by
  obtain ⟨hr, hd, _⟩ := natDigits_spec (k / 1000)
  have htw := takeWhile_run isDigitB (natDigits (k / 1000)) 46 (pad3Digits (k % 1000)) hd isDigit_46
  have hdw := dropWhile_run isDigitB (natDigits (k / 1000)) 46 (pad3Digits (k % 1000)) hd isDigit_46
  have hall : (pad3Digits (k % 1000)).all isDigitB = true := List.all_eq_true.mpr (pad3_digits _)
  have h3 : readNat (pad3Digits (k % 1000)) = k % 1000 := readNat_pad3 _ (Nat.mod_lt _ (by omega))
  simp only [atMs, printMs, htw, hdw, hall, if_true, decMs, hr]
  have : ((pad3Digits (k % 1000) ++ [48, 48, 48]).take 3) = pad3Digits (k % 1000) := by simp [pad3Digits]
  rw [this, h3]
  simp [pad3Digits]
  omega

end SH.PromLex.Num
