import SH.Lemmas.DiskCacheRead2

namespace SH.C09
open SH.DiskCache

/-! ### small step 4: close the reading file -/

theorem idc_zero_none (rs : List ARec) (h : idc rs = 0) : ∀ r ∈ rs, r.id = none := by
  intro r hr
  unfold idc at h
  rw [List.length_eq_zero_iff, List.filter_eq_nil_iff] at h
  have := h r hr
  cases hid : r.id with
  | none => rfl
  | some k => simp [hasId, hid] at this

theorem filter_render_ne (cfg : Cfg) (l : List AFile) (n : Nat) (h : ∀ g ∈ l, g.name ≠ n) :
    (l.map (AFile.render cfg)).filter (fun d => d.name != n) = l.map (AFile.render cfg) := by
  rw [List.filter_eq_self]
  intro d hd
  obtain ⟨g, hg, rfl⟩ := List.mem_map.mp hd
  simp [AFile.render, h g hg]

def Abs.closeA (a : Abs) (f : AFile) (keep : Bool) : Abs :=
  { a with cur := none, pre := if keep then a.pre ++ [f] else a.pre }

theorem Inv.cur_refs {cfg : Cfg} {s : Shard} {a : Abs} (inv : Inv cfg s a) {f : AFile} {j : Nat} (hc : a.cur = some (f, j)) :
    a.refs f = (idc f.recs : Int) + 1 := by
  have hr : a.rname = some f.name := by simp [Abs.rname, hc]
  have hw : a.wname ≠ some f.name := by
    intro h
    unfold Abs.wname at h
    split at h
    · cases hl : a.new.getLast? with
      | none => simp [hl] at h
      | some g =>
        simp [hl] at h
        have hg : g ∈ a.new := List.mem_of_getLast? hl
        exact inv.cur_name_ne hc g (by simp [hg]) h
    · simp at h
  simp [Abs.refs, hr, hw]

theorem inv_close_drop (cfg : Cfg) (s : Shard) (a : Abs) (f : AFile) (o : OFile) (inv : Inv cfg s a)
    (hc : a.cur = some (f, f.recs.length)) (ho : findO s.ofiles f.name = some o) (hz : o.refCount - 1 = 0) :
    Inv cfg (closeReading s f.name) (a.closeA f false) := by
  obtain ⟨hfm, hrd, o', ho', hon, hos, hop, horc⟩ := inv.cur_view hc
  rw [ho] at ho'; cases ho'
  have hrf := inv.cur_refs hc
  have hidc : idc f.recs = 0 := by omega
  have hne := inv.cur_name_ne hc
  have hfilesA : a.files = a.pre ++ (f :: (a.wait ++ a.new)) := by simp [Abs.files, Abs.curL, hc]
  have hfilesA' : (a.closeA f false).files = a.pre ++ (a.wait ++ a.new) := by simp [Abs.files, Abs.curL, Abs.closeA]
  have hfb : fbuckets cfg f = [] := bucketsAt_none cfg _ _ _ (idc_zero_none _ hidc)
  have hb : (a.closeA f false).buckets cfg = a.buckets cfg := by
    simp [Abs.buckets, hfilesA, hfilesA', List.flatMap_append, hfb]
  have hmem' : ∀ g, g ∈ (a.closeA f false).files ↔ g ∈ a.files ∧ g.name ≠ f.name := by
    intro g; rw [hfilesA', hfilesA]
    simp only [List.mem_append, List.mem_cons]
    constructor
    · rintro (h | h)
      · exact ⟨Or.inl h, hne g (by simp [h])⟩
      · exact ⟨Or.inr (Or.inr h), hne g (by simpa using Or.inr h)⟩
    · rintro ⟨h | h | h, hn⟩
      · left; exact h
      · subst h; exact absurd rfl hn
      · right; exact h
  have hrn' : (a.closeA f false).rname = none := rfl
  have hwn' : (a.closeA f false).wname = a.wname := rfl
  have hrn : a.rname = some f.name := by simp [Abs.rname, hc]
  have hrefs : ∀ g, g.name ≠ f.name → (a.closeA f false).refs g = a.refs g := by
    intro g hg
    have : f.name ≠ g.name := fun h => hg h.symm
    simp [Abs.refs, hrn', hwn', hrn, this]
  have hs : closeReading s f.name =
      { s with
        ofiles := s.ofiles.filter (fun g => g.name != f.name)
        total := s.total - o.size
        disk := s.disk.filter (fun g => g.name != f.name)
        reading := none } := by
    simp [closeReading, unref, ho, hz]
  rw [hs]
  refine { disk := ?_, clock := inv.clock, lastID := inv.lastID, names := ?_, namesLt := ?_, wf := ?_, newTl := inv.newTl,
           preRead := inv.preRead, newRead := inv.newRead, waitIds := inv.waitIds, curOk := ?_, idsLe := ?_, idsNodup := ?_,
           known := ?_, ofiles := ?_, reading := rfl, writing := ?_, writingSome := inv.writingSome, waiting := inv.waiting,
           total := ?_, knownSize := ?_, waitingSize := inv.waitingSize, present := ?_ }
  · show List.filter (fun g => g.name != f.name) s.disk = _
    rw [inv.disk, hfilesA, hfilesA', List.map_append, List.map_cons, List.filter_append, List.filter_cons]
    have hfn : ((AFile.render cfg f).name != f.name) = false := by simp [AFile.render]
    rw [hfn]; simp only [Bool.false_eq_true, if_false]
    rw [filter_render_ne cfg a.pre f.name (fun g hg => hne g (by simp [hg]))]
    rw [filter_render_ne cfg (a.wait ++ a.new) f.name (fun g hg => hne g (List.mem_append_right _ hg))]
    simp
  · have := inv.names
    rw [hfilesA, List.map_append, List.map_cons] at this
    rw [hfilesA', List.map_append]
    have h1 := List.pairwise_append.mp this
    rw [List.pairwise_append]
    refine ⟨h1.1, (List.pairwise_cons.mp h1.2.1).2, ?_⟩
    intro x hx y hy
    exact h1.2.2 x hx y (List.mem_cons_of_mem _ hy)
  · intro g hg; exact inv.namesLt g ((hmem' g).mp hg).1
  · intro g hg; exact inv.wf g ((hmem' g).mp hg).1
  · intro g j h; simp [Abs.closeA] at h
  · rw [hb]; exact inv.idsLe
  · rw [hb]; exact inv.idsNodup
  · rw [hb]; exact inv.known
  · intro name
    by_cases hn : name = f.name
    · subst hn
      rw [findO_filter_self]
      intro g hg hgn
      exact absurd hgn ((hmem' g).mp hg).2
    · rw [findO_filter_ne _ _ _ hn]
      have h0 := inv.ofiles name
      split
      · rename_i hnone
        rw [hnone] at h0
        intro g hg hgn
        rw [hrefs g (by rw [hgn]; exact hn)]
        exact h0 g ((hmem' g).mp hg).1 hgn
      · rename_i o2 hsome
        rw [hsome] at h0
        obtain ⟨ho2, g, hg, hgn, hrc, hpos, hsz, _⟩ := h0
        have hgf : g.name ≠ f.name := by rw [hgn]; exact hn
        refine ⟨ho2, g, (hmem' g).mpr ⟨hg, hgf⟩, hgn, by rw [hrefs g hgf]; exact hrc, by rw [hrefs g hgf]; exact hpos, hsz, ?_⟩
        intro j h; simp [Abs.closeA] at h
  · simp [hwn', inv.writing]
  · simp only [inv.total, hfilesA, hfilesA', sizeSum, List.map_append, List.map_cons, List.sum_append, List.sum_cons, hos]
    omega
  · rw [hb]; exact inv.knownSize
  · intro g hg
    have hg0 : g ∈ a.pre ++ a.new := by simpa [Abs.closeA] using hg
    have : g.name ≠ f.name := hne g (by
      simp only [List.mem_append] at hg0 ⊢; rcases hg0 with h1 | h1; exact Or.inl h1; exact Or.inr (Or.inr h1))
    rw [hrefs g this]; exact inv.present g hg0


theorem inv_close_keep (cfg : Cfg) (s : Shard) (a : Abs) (f : AFile) (o : OFile) (inv : Inv cfg s a)
    (hc : a.cur = some (f, f.recs.length)) (ho : findO s.ofiles f.name = some o) (hz : ¬ o.refCount - 1 = 0) :
    Inv cfg (closeReading s f.name) (a.closeA f true) := by
  obtain ⟨hfm, hrd, o', ho', hon, hos, hop, horc⟩ := inv.cur_view hc
  rw [ho] at ho'; cases ho'
  have hrf := inv.cur_refs hc
  have hidc : 0 < idc f.recs := by omega
  have hne := inv.cur_name_ne hc
  have hfilesA : a.files = a.pre ++ (f :: (a.wait ++ a.new)) := by simp [Abs.files, Abs.curL, hc]
  have hfiles : (a.closeA f true).files = a.files := by simp [Abs.files, Abs.curL, Abs.closeA, hc]
  have hb : (a.closeA f true).buckets cfg = a.buckets cfg := by simp [Abs.buckets, hfiles]
  have hrn' : (a.closeA f true).rname = none := rfl
  have hwn' : (a.closeA f true).wname = a.wname := rfl
  have hrn : a.rname = some f.name := by simp [Abs.rname, hc]
  have hrefs : ∀ g, g.name ≠ f.name → (a.closeA f true).refs g = a.refs g := by
    intro g hg
    have : f.name ≠ g.name := fun h => hg h.symm
    simp [Abs.refs, hrn', hwn', hrn, this]
  have hrefsf : (a.closeA f true).refs f = a.refs f - 1 := by
    simp only [Abs.refs, hrn', hwn', hrn]; simp; omega
  have hs : closeReading s f.name =
      { s with
        ofiles := mapO s.ofiles f.name (fun g => { g with refCount := g.refCount - 1 })
        reading := none } := by
    simp [closeReading, unref, ho, hz]
  rw [hs]
  refine { disk := ?_, clock := inv.clock, lastID := inv.lastID, names := ?_, namesLt := ?_, wf := ?_, newTl := inv.newTl,
           preRead := ?_, newRead := inv.newRead, waitIds := inv.waitIds, curOk := ?_, idsLe := ?_, idsNodup := ?_,
           known := ?_, ofiles := ?_, reading := rfl, writing := ?_, writingSome := inv.writingSome, waiting := inv.waiting,
           total := ?_, knownSize := ?_, waitingSize := inv.waitingSize, present := ?_ }
  · rw [hfiles]; exact inv.disk
  · rw [hfiles]; exact inv.names
  · rw [hfiles]; exact inv.namesLt
  · rw [hfiles]; exact inv.wf
  · intro g hg
    simp only [Abs.closeA, if_true, List.mem_append, List.mem_singleton] at hg
    rcases hg with h | h
    · exact inv.preRead g h
    · subst h
      obtain ⟨_, h3, _⟩ := inv.curOk g _ hc
      simpa using h3
  · intro g j h; simp [Abs.closeA] at h
  · rw [hb]; exact inv.idsLe
  · rw [hb]; exact inv.idsNodup
  · rw [hb]; exact inv.known
  · intro name
    by_cases hn : name = f.name
    · subst hn
      rw [findO_mapO s.ofiles f.name (fun g => { g with refCount := g.refCount - 1 }) o (fun _ => rfl) ho]
      refine ⟨hon, f, by rw [hfiles]; exact hfm, rfl, by rw [hrefsf]; simp [horc], by rw [hrefsf]; omega, hos, ?_⟩
      intro j h; simp [Abs.closeA] at h
    · rw [findO_mapO_ne s.ofiles f.name name (fun g => { g with refCount := g.refCount - 1 }) (fun _ => rfl) hn]
      have h0 := inv.ofiles name
      split
      · rename_i hnone
        rw [hnone] at h0
        intro g hg hgn
        rw [hrefs g (by rw [hgn]; exact hn)]
        exact h0 g (by rw [← hfiles]; exact hg) hgn
      · rename_i o2 hsome
        rw [hsome] at h0
        obtain ⟨ho2, g, hg, hgn, hrc, hpos, hsz, _⟩ := h0
        have hgf : g.name ≠ f.name := by rw [hgn]; exact hn
        refine ⟨ho2, g, by rw [hfiles]; exact hg, hgn, by rw [hrefs g hgf]; exact hrc, by rw [hrefs g hgf]; exact hpos, hsz, ?_⟩
        intro j h; simp [Abs.closeA] at h
  · simp [hwn', inv.writing]
  · rw [hfiles]; exact inv.total
  · rw [hb]; exact inv.knownSize
  · intro g hg
    simp only [Abs.closeA, if_true, List.mem_append, List.mem_singleton] at hg
    rcases hg with (h | h) | h
    · have : g.name ≠ f.name := hne g (by simp [h])
      rw [hrefs g this]; exact inv.present g (by simp [h])
    · subst h; rw [hrefsf]; omega
    · have : g.name ≠ f.name := hne g (by simp [h])
      rw [hrefs g this]; exact inv.present g (by simp [h])

end SH.C09
