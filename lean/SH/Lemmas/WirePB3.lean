/-
  SH.Lemmas.WirePB3 — Protobuf round trip, part 3: a whole metric, the batch, parser.parse.
-/
import SH.Lemmas.WirePB2
namespace SH.Wire

theorem pbOpt (v : Variant) (c : Prop) [Decidable c] (k : Nat) (m m' : Metric) (rec t : Bytes)
    (h : ¬ c → ∀ n, pbMetric v (n + 1) m (rec ++ t) = pbMetric v n m' t) :
    pbMetric v (k + (if c then 0 else 1)) m ((if c then [] else rec) ++ t) = pbMetric v k (if c then m else m') t := by
  by_cases hc : c
  · simp [hc]
  · simp only [if_neg hc]; exact h hc k

def pbTagRec (kv : Bytes × Bytes) : Bytes := pbEncLen 2 (pbEncLen 1 kv.1 ++ pbEncLen 2 kv.2)
def pbHistRec (h : Nat × Nat) : Bytes := pbEncLen 7 (pbEncCentroid h)

theorem pbTags_enc (v : Variant) : ∀ (ts : List (Bytes × Bytes)) (m : Metric) (k : Nat) (t : Bytes),
    (∀ kv ∈ ts, kv.1.length < 2 ^ 32 ∧ kv.2.length < 2 ^ 32) →
    pbMetric v (k + ts.length) m (catMap pbTagRec ts ++ t) = pbMetric v k { m with tags := m.tags ++ ts } t := by
  intro ts
  induction ts with
  | nil => intro m k t _; simp [catMap]
  | cons kv ts ih =>
    intro m k t h
    have e : k + (kv :: ts).length = (k + ts.length) + 1 := by simp; omega
    rw [e, catMap_cons, List.append_assoc]
    have := pbRec_tag v (k + ts.length) m kv (catMap pbTagRec ts ++ t) (h kv (by simp)).1 (h kv (by simp)).2
    rw [show pbTagRec kv = pbEncLen 2 (pbEncLen 1 kv.1 ++ pbEncLen 2 kv.2) from rfl, this,
      ih _ k t (fun x hx => h x (by simp [hx]))]
    simp

def histMask : List (Nat × Nat) → Nat → Nat
  | [], mk => mk
  | _ :: hs, mk => histMask hs (setBit mk 3)

theorem pbHist_enc (v : Variant) : ∀ (hs : List (Nat × Nat)) (m : Metric) (k : Nat) (t : Bytes),
    (∀ h ∈ hs, h.1 < 2 ^ 64 ∧ h.2 < 2 ^ 64) →
    pbMetric v (k + hs.length) m (catMap pbHistRec hs ++ t)
      = pbMetric v k { m with hist := m.hist ++ hs, mask := histMask hs m.mask } t := by
  intro hs
  induction hs with
  | nil => intro m k t _; simp [catMap, histMask]
  | cons h hs ih =>
    intro m k t hh
    have e : k + (h :: hs).length = (k + hs.length) + 1 := by simp; omega
    rw [e, catMap_cons, List.append_assoc]
    have := pbRec_hist v (k + hs.length) m h (catMap pbHistRec hs ++ t) (hh h (by simp)).1 (hh h (by simp)).2
    rw [show pbHistRec h = pbEncLen 7 (pbEncCentroid h) from rfl, this,
      ih _ k t (fun x hx => hh x (by simp [hx]))]
    simp [histMask]

/-- the metric the Protobuf decoder builds from the proto3 encoding of `m` -/
def pbP1 (m : Metric) : Metric := if m.name = [] then {} else { ({} : Metric) with name := m.name }
def pbP2 (m : Metric) : Metric := { pbP1 m with tags := (pbP1 m).tags ++ m.tags }
def pbP3 (m : Metric) : Metric :=
  if m.counter = 0 then pbP2 m else { pbP2 m with counter := m.counter, mask := setBit (pbP2 m).mask 0 }
def pbP4 (m : Metric) : Metric :=
  if m.ts = 0 then pbP3 m else { pbP3 m with ts := m.ts, mask := setBit (pbP3 m).mask 4 }
def pbP5 (m : Metric) : Metric :=
  if m.value = [] then pbP4 m else { pbP4 m with value := (pbP4 m).value ++ m.value, mask := setBit (pbP4 m).mask 1 }
def pbP6 (m : Metric) : Metric :=
  if m.unique = [] then pbP5 m else { pbP5 m with unique := (pbP5 m).unique ++ m.unique, mask := setBit (pbP5 m).mask 2 }
def pbDecoded (m : Metric) : Metric :=
  { pbP6 m with hist := (pbP6 m).hist ++ m.hist, mask := histMask m.hist (pbP6 m).mask }

theorem sem_pbDecoded (m : Metric) : sem (pbDecoded m) = sem m := by
  unfold pbDecoded pbP6 pbP5 pbP4 pbP3 pbP2 pbP1 sem
  by_cases h1 : m.name = [] <;> by_cases h2 : m.counter = 0 <;> by_cases h3 : m.ts = 0 <;>
    by_cases h4 : m.value = [] <;> by_cases h5 : m.unique = [] <;>
    simp [h1, h2, h3, h4, h5]

theorem optLen (c : Prop) [Decidable c] (rec : Bytes) (h : 1 ≤ rec.length) :
    (if c then 0 else 1) ≤ (if c then ([] : Bytes) else rec).length := by
  by_cases hc : c
  · simp [hc]
  · simp only [if_neg hc]; exact h

theorem pbMetric_enc (v : Variant) (m : Metric) (w : m.WF) :
    pbMetric v ((pbEncMetric m).length + 1) {} (pbEncMetric m) = .ok (pbDecoded m) := by
  have hd : pbEncMetric m =
      (if m.name = [] then [] else pbEncLen 1 m.name) ++ (catMap pbTagRec m.tags ++
      ((if m.counter = 0 then [] else pbEncTag 3 1 ++ le 8 m.counter) ++
      ((if m.ts = 0 then [] else pbEncTag 4 0 ++ pbEncV m.ts) ++
      ((if m.value = [] then [] else pbEncLen 5 (catMap (le 8) m.value)) ++
      ((if m.unique = [] then [] else pbEncLen 6 (catMap pbEncV m.unique)) ++
      (catMap pbHistRec m.hist ++ [])))))) := by
    unfold pbEncMetric
    simp only [List.append_assoc, List.append_nil]
    rfl
  rw [hd]
  -- enough fuel: one unit per record, and every record is at least one byte long
  have l1 := optLen (m.name = []) (pbEncLen 1 m.name) (by have := pbEncLen_length_ge 1 m.name; omega)
  have l2 := catMap_length_ge pbTagRec 1 m.tags (fun kv _ => by have := pbEncLen_length_ge 2 (pbEncLen 1 kv.1 ++ pbEncLen 2 kv.2); unfold pbTagRec; omega)
  have l3 := optLen (m.counter = 0) (pbEncTag 3 1 ++ le 8 m.counter) (by simp [le_length])
  have l4 := optLen (m.ts = 0) (pbEncTag 4 0 ++ pbEncV m.ts) (by have := pbEncV_length_pos m.ts; simp; omega)
  have l5 := optLen (m.value = []) (pbEncLen 5 (catMap (le 8) m.value)) (by have := pbEncLen_length_ge 5 (catMap (le 8) m.value); omega)
  have l6 := optLen (m.unique = []) (pbEncLen 6 (catMap pbEncV m.unique)) (by have := pbEncLen_length_ge 6 (catMap pbEncV m.unique); omega)
  have l7 := catMap_length_ge pbHistRec 1 m.hist (fun h _ => by have := pbEncLen_length_ge 7 (pbEncCentroid h); unfold pbHistRec; omega)
  obtain ⟨e, he⟩ : ∃ e, ((if m.name = [] then [] else pbEncLen 1 m.name) ++ (catMap pbTagRec m.tags ++
      ((if m.counter = 0 then [] else pbEncTag 3 1 ++ le 8 m.counter) ++
      ((if m.ts = 0 then [] else pbEncTag 4 0 ++ pbEncV m.ts) ++
      ((if m.value = [] then [] else pbEncLen 5 (catMap (le 8) m.value)) ++
      ((if m.unique = [] then [] else pbEncLen 6 (catMap pbEncV m.unique)) ++
      (catMap pbHistRec m.hist ++ []))))))).length + 1 =
      (((((((e + 1) + m.hist.length) + (if m.unique = [] then 0 else 1)) + (if m.value = [] then 0 else 1))
        + (if m.ts = 0 then 0 else 1)) + (if m.counter = 0 then 0 else 1)) + m.tags.length) + (if m.name = [] then 0 else 1) := by
    simp only [List.length_append, List.length_nil]
    refine ⟨(if m.name = [] then ([] : Bytes) else pbEncLen 1 m.name).length + (catMap pbTagRec m.tags).length
      + (if m.counter = 0 then ([] : Bytes) else pbEncTag 3 1 ++ le 8 m.counter).length
      + (if m.ts = 0 then ([] : Bytes) else pbEncTag 4 0 ++ pbEncV m.ts).length
      + (if m.value = [] then ([] : Bytes) else pbEncLen 5 (catMap (le 8) m.value)).length
      + (if m.unique = [] then ([] : Bytes) else pbEncLen 6 (catMap pbEncV m.unique)).length
      + (catMap pbHistRec m.hist).length
      - (m.hist.length + (if m.unique = [] then 0 else 1) + (if m.value = [] then 0 else 1)
        + (if m.ts = 0 then 0 else 1) + (if m.counter = 0 then 0 else 1) + m.tags.length + (if m.name = [] then 0 else 1)), ?_⟩
    omega
  rw [he]
  -- name
  rw [pbOpt v (m.name = []) _ {} { ({} : Metric) with name := m.name } (pbEncLen 1 m.name) _
    (fun _ n => pbRec_name v n {} m.name _ w.name)]
  rw [show (if m.name = [] then ({} : Metric) else { ({} : Metric) with name := m.name }) = pbP1 m from rfl]
  -- tags
  rw [pbTags_enc v m.tags (pbP1 m) _ _ w.tags]
  rw [show ({ pbP1 m with tags := (pbP1 m).tags ++ m.tags } : Metric) = pbP2 m from rfl]
  -- counter
  rw [pbOpt v (m.counter = 0) _ (pbP2 m) { pbP2 m with counter := m.counter, mask := setBit (pbP2 m).mask 0 }
    (pbEncTag 3 1 ++ le 8 m.counter) _ (fun _ n => pbRec_counter v n (pbP2 m) m.counter _ w.counter)]
  rw [show (if m.counter = 0 then pbP2 m else { pbP2 m with counter := m.counter, mask := setBit (pbP2 m).mask 0 }) = pbP3 m from rfl]
  -- ts
  rw [pbOpt v (m.ts = 0) _ (pbP3 m) { pbP3 m with ts := m.ts, mask := setBit (pbP3 m).mask 4 }
    (pbEncTag 4 0 ++ pbEncV m.ts) _ (fun _ n => pbRec_ts v n (pbP3 m) m.ts _ w.ts)]
  rw [show (if m.ts = 0 then pbP3 m else { pbP3 m with ts := m.ts, mask := setBit (pbP3 m).mask 4 }) = pbP4 m from rfl]
  -- value
  rw [pbOpt v (m.value = []) _ (pbP4 m) { pbP4 m with value := (pbP4 m).value ++ m.value, mask := setBit (pbP4 m).mask 1 }
    (pbEncLen 5 (catMap (le 8) m.value)) _ (fun _ n => pbRec_value v n (pbP4 m) m.value _ w.valueLen w.value)]
  rw [show (if m.value = [] then pbP4 m else { pbP4 m with value := (pbP4 m).value ++ m.value, mask := setBit (pbP4 m).mask 1 }) = pbP5 m from rfl]
  -- unique
  rw [pbOpt v (m.unique = []) _ (pbP5 m) { pbP5 m with unique := (pbP5 m).unique ++ m.unique, mask := setBit (pbP5 m).mask 2 }
    (pbEncLen 6 (catMap pbEncV m.unique)) _ (fun _ n => pbRec_unique v n (pbP5 m) m.unique _ w.uniqueLen w.unique)]
  rw [show (if m.unique = [] then pbP5 m else { pbP5 m with unique := (pbP5 m).unique ++ m.unique, mask := setBit (pbP5 m).mask 2 }) = pbP6 m from rfl]
  -- histogram
  rw [pbHist_enc v m.hist (pbP6 m) _ _ w.hist]
  simp only [pbMetric, if_true]
  rfl


/-! ### the batch -/

def pbBatchRec (m : Metric) : Bytes := pbEncLen 13337 (pbEncMetric m)

theorem pbBatch_step (v : Variant) (f : Nat) (acc : List Metric) (m : Metric) (w : m.WF)
    (hsz : (pbEncMetric m).length < 2 ^ 32) (t : Bytes) :
    pbBatch v (f + 1) acc (pbBatchRec m ++ t) = pbBatch v f (acc ++ [pbDecoded m]) t := by
  unfold pbBatchRec
  simp only [pbBatch]
  rw [if_neg (pbEncLen_ne_nil 13337 _ t), pbLen_tag 13337 _ t (by decide) (by decide)]
  simp only [and_self, if_true]
  rw [pbBytes_enc _ t (Nat.lt_trans hsz (by decide))]
  simp only []
  rw [pbMetric_enc v m w]

theorem pbBatch_list (v : Variant) : ∀ (ms : List Metric) (acc : List Metric) (k : Nat) (t : Bytes),
    (∀ m ∈ ms, m.WF ∧ (pbEncMetric m).length < 2 ^ 32) →
    pbBatch v (k + ms.length) acc (catMap pbBatchRec ms ++ t) = pbBatch v k (acc ++ ms.map pbDecoded) t := by
  intro ms
  induction ms with
  | nil => intro acc k t _; simp [catMap]
  | cons m ms ih =>
    intro acc k t h
    have e : k + (m :: ms).length = (k + ms.length) + 1 := by simp; omega
    rw [e, catMap_cons, List.append_assoc, pbBatch_step v _ acc m (h m (by simp)).1 (h m (by simp)).2,
      ih _ k t (fun x hx => h x (by simp [hx]))]
    simp

theorem pbBatch_enc (v : Variant) (ms : List Metric) (h : ∀ m ∈ ms, m.WF ∧ (pbEncMetric m).length < 2 ^ 32) :
    pbBatch v ((pbEncBatch ms).length + 1) [] (pbEncBatch ms) = .ok (ms.map pbDecoded) := by
  have hb : pbEncBatch ms = catMap pbBatchRec ms ++ [] := by rw [List.append_nil]; rfl
  have hl := catMap_length_ge pbBatchRec 1 ms (fun m _ => by have := pbEncLen_length_ge 13337 (pbEncMetric m); unfold pbBatchRec; omega)
  rw [hb]
  have e : (catMap pbBatchRec ms ++ []).length + 1 = (((catMap pbBatchRec ms).length - ms.length) + 1) + ms.length := by
    simp only [List.length_append, List.length_nil]; omega
  rw [e, pbBatch_list v ms [] _ [] h]
  simp [pbBatch]

theorem detect_pbEnc (m : Metric) (ms : List Metric) : detect (pbEncBatch (m :: ms)) = .pb := by
  have e : pbEncTag 13337 2 = [0xca, 0xc1, 0x06] := by decide
  have : pbEncBatch (m :: ms) = 0xca :: ([0xc1, 0x06] ++ pbEncV (pbEncMetric m).length ++ pbEncMetric m
      ++ catMap (fun m => pbEncLen 13337 (pbEncMetric m)) ms) := by
    simp [pbEncBatch, catMap, pbEncLen, e]
  rw [this]
  simp [detect, tlPrefix, mpLooksLikeMap, mpMapHdr, mpBadPrefix]

/-- parser.parse on the Protobuf encoding of a non-empty batch -/
theorem parse_pbEnc (v : Variant) (m : Metric) (ms : List Metric)
    (h : ∀ x ∈ m :: ms, x.WF ∧ (pbEncMetric x).length < 2 ^ 32) :
    parse v (pbEncBatch (m :: ms)) = { fmt := .pb, delivered := (m :: ms).map pbDecoded } := by
  unfold parse
  rw [detect_pbEnc m ms]
  simp only []
  rw [pbBatch_enc v (m :: ms) h]

end SH.Wire
