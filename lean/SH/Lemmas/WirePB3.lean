/-
  SH.Lemmas.WirePB3 — Protobuf round trip, part 3: a whole metric, the batch, parser.parse.
-/
import SH.Lemmas.WirePB2
namespace SH.Wire

theorem pbOpt (v : Variant) (c : Prop) [Decidable c] (k : Nat) (m m' : Metric) (rec t : Bytes)
    (h : ¬ c → ∀ n, pbMetric v (n + 1) m (rec ++ t) = pbMetric v n m' t) :
    pbMetric v (k + (if c then 0 else 1)) m ((if c then [] else rec) ++ t) = pbMetric v k (if c then m else m') t := by
  by_cases hc : c
  · simp [hc]
  · simp only [if_neg hc]; exact h hc k

def pbTagRec (kv : Bytes × Bytes) : Bytes := pbEncLen 2 (pbEncLen 1 kv.1 ++ pbEncLen 2 kv.2)
def pbHistRec (h : Nat × Nat) : Bytes := pbEncLen 7 (pbEncCentroid h)

theorem pbTags_enc (v : Variant) : ∀ (ts : List (Bytes × Bytes)) (m : Metric) (k : Nat) (t : Bytes),
    (∀ kv ∈ ts, kv.1.length < 2 ^ 32 ∧ kv.2.length < 2 ^ 32) →
    pbMetric v (k + ts.length) m (catMap pbTagRec ts ++ t) = pbMetric v k { m with tags := m.tags ++ ts } t := by
  intro ts
  induction ts with
  | nil => intro m k t _; simp [catMap]
  | cons kv ts ih =>
    intro m k t h
    have e : k + (kv :: ts).length = (k + ts.length) + 1 := by simp; omega
    rw [e, catMap_cons, List.append_assoc]
    have := pbRec_tag v (k + ts.length) m kv (catMap pbTagRec ts ++ t) (h kv (by simp)).1 (h kv (by simp)).2
    rw [show pbTagRec kv = pbEncLen 2 (pbEncLen 1 kv.1 ++ pbEncLen 2 kv.2) from rfl, this,
      ih _ k t (fun x hx => h x (by simp [hx]))]
    simp

def histMask : List (Nat × Nat) → Nat → Nat
  | [], mk => mk
  | _ :: hs, mk => histMask hs (setBit mk 3)

theorem pbHist_enc (v : Variant) : ∀ (hs : List (Nat × Nat)) (m : Metric) (k : Nat) (t : Bytes),
    (∀ h ∈ hs, h.1 < 2 ^ 64 ∧ h.2 < 2 ^ 64) →
    pbMetric v (k + hs.length) m (catMap pbHistRec hs ++ t)
      = pbMetric v k { m with hist := m.hist ++ hs, mask := histMask hs m.mask } t := by
  intro hs
  induction hs with
  | nil => intro m k t _; simp [catMap, histMask]
  | cons h hs ih =>
    intro m k t hh
    have e : k + (h :: hs).length = (k + hs.length) + 1 := by simp; omega
    rw [e, catMap_cons, List.append_assoc]
    have := pbRec_hist v (k + hs.length) m h (catMap pbHistRec hs ++ t) (hh h (by simp)).1 (hh h (by simp)).2
    rw [show pbHistRec h = pbEncLen 7 (pbEncCentroid h) from rfl, this,
      ih _ k t (fun x hx => hh x (by simp [hx]))]
    simp [histMask]

/-- the metric the Protobuf decoder builds from the proto3 encoding of `m` -/
def pbP1 (m : Metric) : Metric := if m.name = [] then {} else { ({} : Metric) with name := m.name }
def pbP2 (m : Metric) : Metric := { pbP1 m with tags := (pbP1 m).tags ++ m.tags }
def pbP3 (m : Metric) : Metric :=
  if m.counter = 0 then pbP2 m else { pbP2 m with counter := m.counter, mask := setBit (pbP2 m).mask 0 }
def pbP4 (m : Metric) : Metric :=
  if m.ts = 0 then pbP3 m else { pbP3 m with ts := m.ts, mask := setBit (pbP3 m).mask 4 }
def pbP5 (m : Metric) : Metric :=
  if m.value = [] then pbP4 m else { pbP4 m with value := (pbP4 m).value ++ m.value, mask := setBit (pbP4 m).mask 1 }
def pbP6 (m : Metric) : Metric :=
  if m.unique = [] then pbP5 m else { pbP5 m with unique := (pbP5 m).unique ++ m.unique, mask := setBit (pbP5 m).mask 2 }
def pbDecoded (m : Metric) : Metric :=
  { pbP6 m with hist := (pbP6 m).hist ++ m.hist, mask := histMask m.hist (pbP6 m).mask }

theorem sem_pbDecoded (m : Metric) : sem (pbDecoded m) = sem m := by
  unfold pbDecoded pbP6 pbP5 pbP4 pbP3 pbP2 pbP1 sem
  by_cases h1 : m.name = [] <;> by_cases h2 : m.counter = 0 <;> by_cases h3 : m.ts = 0 <;>
    by_cases h4 : m.value = [] <;> by_cases h5 : m.unique = [] <;>
    simp [h1, h2, h3, h4, h5]

end SH.Wire
