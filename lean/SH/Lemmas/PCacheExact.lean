/-
  SH.Lemmas.PCacheExact — helper development for the second-round C24 theorems:
  * exactness (completeness) of checkInvalidationMapLocked: a `false` answer is always caused by a second INSIDE
    [from,to] (coarse buckets that are consulted lie wholly inside the range), given that every coarse entry is
    witnessed by a second of its bucket (`WitL`);
  * `WitL` is preserved by updateTimeLocked / invalidateLocked;
  * invalidateLocked (gc) does not change any answer of the check for ranges that start at or after its edge.
-/
import SH.Lemmas.PCacheBase

namespace SH.C24
open SH.PCache SH.Gen.C24

theorem scanOK_eq_false (m : LMap) (loadAt base step : Int) (n : Nat) (h : scanOK m loadAt base step n = false) :
    ∃ k : Nat, k < n ∧ staleKey m loadAt (base + step * (k : Int)) = true := by
  unfold scanOK at h
  rw [List.all_eq_false] at h
  obtain ⟨k, hk, hs⟩ := h
  exact ⟨k, List.mem_range.mp hk, by simpa using hs⟩

theorem staleKey_true (m : LMap) (loadAt k : Int) (h : staleKey m loadAt k = true) :
    ∃ b, mget m k = some b ∧ loadAt ≤ b + invalidateLingerNs := by
  unfold staleKey at h
  cases hm : mget m k with
  | none => simp [hm] at h
  | some b => exact ⟨b, rfl, by simpa [hm] using h⟩

/-- number of middle keys, in terms of the quotients -/
theorem countMid_le (lo hi step off : Int) (h : 0 < step) :
    (countMid (roundTime lo step off) (roundTime hi step off) step : Int) ≤
      max 0 ((hi + off) / step - (lo + off) / step - 1) := by
  unfold countMid roundTime
  generalize (lo + off) / step = a
  generalize (hi + off) / step = b
  have e : (b * step - off - (a * step - off) - 1) = (step - 1) + (b - a - 1) * step := by ring
  rw [e, Int.add_mul_ediv_right _ _ (Int.ne_of_gt h)]
  have : (step - 1) / step = 0 := Int.ediv_eq_zero_of_lt (by omega) (by omega)
  rw [this]; omega

/-- a scanned middle key's whole bucket lies between the bucket of `lo` and the bucket of `hi` -/
theorem mid_key_bounds (lo hi step off : Int) (h : 0 < step) (k : Nat)
    (hk : k < countMid (roundTime lo step off) (roundTime hi step off) step) :
    roundTime lo step off + step + step * (k : Int) + step ≤ roundTime hi step off := by
  have hc := countMid_le lo hi step off h
  unfold roundTime at *
  generalize (lo + off) / step = a at *
  generalize (hi + off) / step = b at *
  have hk' : (k : Int) < b - a - 1 := by
    have : (k : Int) < (countMid (a * step - off) (b * step - off) step : Int) := by exact_mod_cast hk
    omega
  have h2 : (a + (k : Int) + 2) * step ≤ b * step :=
    Int.mul_le_mul_of_nonneg_right (by omega) (le_of_lt h)
  have e : (a + (k : Int) + 2) * step = a * step + step + step * (k : Int) + step := by ring
  omega

/-- every coarse entry whose bucket starts at or after `g` is witnessed by a second of that bucket whose own
    entry in the per-second map `sm` is at least as late -/
def WitL (lv : List Level) (sm : LMap) (off g : Int) : Prop :=
  ∀ p ∈ lv, ∀ k b, mget p.2 k = some b → g ≤ k →
    ∃ s a, roundTime s p.1 off = k ∧ mget sm s = some a ∧ b ≤ a

/-- completeness of the recursion: a `false` answer names a second inside [f,t] (not merely inside the coarse
    cover) that is late enough in the per-second map -/
theorem checkLevels_exact (sm : LMap) (off g loadAt : Int) :
    ∀ (lv : List Level), (∀ p ∈ lv, 0 < p.1) → lv.getLast? = some (1, sm) → WitL lv sm off g →
    ∀ (f t : Int), g ≤ f → checkLevels lv off loadAt f t = false →
    ∃ s a, f ≤ s ∧ s ≤ t ∧ mget sm s = some a ∧ loadAt ≤ a + invalidateLingerNs := by
  intro lv
  induction lv with
  | nil => intro _ h; simp at h
  | cons p rest ih =>
    intro hpos hlast hwit f t hg hc
    cases rest with
    | nil =>
      simp at hlast; subst hlast
      simp only [checkLevels] at hc
      obtain ⟨k, hk, hs⟩ := scanOK_eq_false _ _ _ _ _ hc
      obtain ⟨b, hb, hl⟩ := staleKey_true _ _ _ hs
      refine ⟨f + 1 * (k : Int), b, by omega, ?_, hb, hl⟩
      unfold countLast at hk
      simp at hk
      omega
    | cons q rest' =>
      have hp : 0 < p.1 := hpos p (by simp)
      have hpos' : ∀ x ∈ q :: rest', 0 < x.1 := fun x hx => hpos x (List.mem_cons_of_mem _ hx)
      have hlast' : (q :: rest').getLast? = some (1, sm) := by
        rw [List.getLast?_cons_cons] at hlast; exact hlast
      have hwit' : WitL (q :: rest') sm off g := fun x hx => hwit x (List.mem_cons_of_mem _ hx)
      have IH := ih hpos' hlast' hwit'
      simp only [checkLevels, Bool.and_eq_false_iff] at hc
      have hfl := lt_roundTime_add f p.1 off hp
      have htr := roundTime_le t p.1 off hp
      rcases hc with (hc | hc) | hc
      · obtain ⟨s, a, h1, h2, h3, h4⟩ := IH f _ hg hc
        refine ⟨s, a, h1, ?_, h3, h4⟩
        unfold fromNext at h2; split at h2 <;> omega
      · have hg2 : g ≤ toPrev (roundTime t p.1 off) f := by unfold toPrev; split <;> omega
        obtain ⟨s, a, h1, h2, h3, h4⟩ := IH _ t hg2 hc
        refine ⟨s, a, ?_, h2, h3, h4⟩
        unfold toPrev at h1; split at h1 <;> omega
      · obtain ⟨k, hk, hs⟩ := scanOK_eq_false _ _ _ _ _ hc
        obtain ⟨b, hb, hl⟩ := staleKey_true _ _ _ hs
        have hkb := mid_key_bounds f t p.1 off hp k hk
        have hnn : 0 ≤ p.1 * (k : Int) := by positivity
        obtain ⟨s, a, hr, hsm, hba⟩ := hwit p (by simp) _ b hb (by omega)
        have hs1 := roundTime_le s p.1 off hp
        have hs2 := lt_roundTime_add s p.1 off hp
        exact ⟨s, a, by omega, by omega, hsm, by omega⟩

/-! ### WitL is an invariant of updateTimeLocked / invalidateLocked -/

theorem bump_mono (sm : LMap) (sec tAt s0 a0 : Int) (h : mget sm s0 = some a0) :
    ∃ a1, mget (bump sm sec tAt) s0 = some a1 ∧ a0 ≤ a1 := by
  rw [mget_bump]
  by_cases e : sec = s0
  · subst e; simp only [if_true]; exact ⟨_, rfl, newVal_ge_old _ _ _ _ h⟩
  · simp only [e, if_false]; exact ⟨a0, h, le_refl _⟩

theorem update_wit (lv : List Level) (sm : LMap) (off g tAt sec : Int) (hwit : WitL lv sm off g) :
    WitL (updateLevels lv off tAt sec) (bump sm sec tAt) off g := by
  intro p' hp' k b hb hg
  unfold updateLevels at hp'
  obtain ⟨p, hp, rfl⟩ := List.mem_map.mp hp'
  simp only at hb hg ⊢
  rw [mget_bump] at hb
  have old : ∀ b0, mget p.2 k = some b0 → b0 ≤ b → False ∨
      ∃ s a, roundTime s p.1 off = k ∧ mget (bump sm sec tAt) s = some a ∧ b0 ≤ a := by
    intro b0 hb0 _
    obtain ⟨s0, a0, hr, hs0, hle⟩ := hwit p hp k b0 hb0 hg
    obtain ⟨a1, ha1, hle1⟩ := bump_mono sm sec tAt s0 a0 hs0
    exact Or.inr ⟨s0, a1, hr, ha1, le_trans hle hle1⟩
  have fresh : roundTime sec p.1 off = k →
      ∃ s a, roundTime s p.1 off = k ∧ mget (bump sm sec tAt) s = some a ∧ tAt ≤ a := by
    intro hr
    refine ⟨sec, newVal sm sec tAt, hr, ?_, newVal_ge _ _ _⟩
    rw [mget_bump]; simp
  by_cases e : roundTime sec p.1 off = k
  · simp only [e, if_true] at hb
    injection hb with hb
    cases hm : mget p.2 k with
    | none =>
      have : b = tAt := by rw [← hb]; subst e; simp only [newVal, hm]
      rw [this]; exact fresh e
    | some last =>
      by_cases h2 : tAt > last
      · have : b = tAt := by rw [← hb]; subst e; simp only [newVal, hm, h2, if_true]
        rw [this]; exact fresh e
      · have : b = last := by rw [← hb]; subst e; simp only [newVal, hm, h2, if_false]
        rw [this]
        rcases old last hm (by omega) with hF | hW
        · exact hF.elim
        · exact hW
  · simp only [e, if_false] at hb
    rcases old b hb (le_refl _) with hF | hW
    · exact hF.elim
    · exact hW

theorem gc_wit (lv : List Level) (sm : LMap) (off g gf : Int) (ds : List (List Int)) (d : List Int)
    (hpos : ∀ p ∈ lv, 0 < p.1) (hwit : WitL lv sm off g) (hgf : gf ≤ g) :
    WitL (gcLevels lv gf ds) (gcMap sm gf d) off g := by
  intro p' hp' k b hb hg
  obtain ⟨p, hp, d', rfl⟩ := gcLevels_mem _ _ _ _ hp'
  simp only at hb ⊢
  obtain ⟨s, a, hr, hs, hle⟩ := hwit p hp k b (mget_gcMap_some _ _ _ _ _ hb) hg
  have := roundTime_le s p.1 off (hpos p hp)
  exact ⟨s, a, hr, by rw [mget_gcMap_ge _ _ _ _ (by omega)]; exact hs, hle⟩

/-! ### gc does not change an answer for ranges that start at or after its edge -/

theorem staleKey_gc (m : LMap) (gf : Int) (d : List Int) (loadAt k : Int) (h : gf ≤ k) :
    staleKey (gcMap m gf d) loadAt k = staleKey m loadAt k := by
  unfold staleKey; rw [mget_gcMap_ge _ _ _ _ h]

theorem scanOK_gc (m : LMap) (gf : Int) (d : List Int) (loadAt base step : Int) (n : Nat) (hb : gf ≤ base)
    (hs : 0 ≤ step) : scanOK (gcMap m gf d) loadAt base step n = scanOK m loadAt base step n := by
  unfold scanOK
  apply List.all_congr rfl
  intro k
  have : 0 ≤ step * (k : Int) := by positivity
  rw [staleKey_gc _ _ _ _ _ (by omega)]

theorem checkLevels_gc (off loadAt gf : Int) : ∀ (lv : List Level) (ds : List (List Int)), (∀ p ∈ lv, 0 < p.1) →
    ∀ (f t : Int), gf ≤ f →
    checkLevels (gcLevels lv gf ds) off loadAt f t = checkLevels lv off loadAt f t := by
  intro lv
  induction lv with
  | nil => intro ds _ f t _; simp [gcLevels, checkLevels]
  | cons p rest ih =>
    intro ds hpos f t hf
    have hp : 0 < p.1 := hpos p (by simp)
    have hpos' : ∀ x ∈ rest, 0 < x.1 := fun x hx => hpos x (List.mem_cons_of_mem _ hx)
    have hfl := lt_roundTime_add f p.1 off hp
    cases rest with
    | nil =>
      cases ds with
      | nil => simp only [gcLevels, checkLevels]; exact scanOK_gc _ _ _ _ _ _ _ hf (le_of_lt hp)
      | cons d ds => simp only [gcLevels, checkLevels]; exact scanOK_gc _ _ _ _ _ _ _ hf (le_of_lt hp)
    | cons q rest' =>
      have key : ∀ (d : List Int) (ds' : List (List Int)),
          gcLevels (q :: rest') gf ds' = (gcLevels (q :: rest') gf ds') →
          checkLevels ((p.1, gcMap p.2 gf d) :: gcLevels (q :: rest') gf ds') off loadAt f t =
            checkLevels (p :: q :: rest') off loadAt f t := by
        intro d ds' _
        have e : ∃ q' r', gcLevels (q :: rest') gf ds' = q' :: r' := by
          cases ds' <;> exact ⟨_, _, rfl⟩
        obtain ⟨q', r', hq⟩ := e
        have i1 := ih ds' hpos' f (fromNext (roundTime f p.1 off) p.1 t) hf
        have hg2 : gf ≤ toPrev (roundTime t p.1 off) f := by unfold toPrev; split <;> omega
        have i2 := ih ds' hpos' (toPrev (roundTime t p.1 off) f) t hg2
        rw [hq] at i1 i2 ⊢
        simp only [checkLevels]
        rw [i1, i2, scanOK_gc _ _ _ _ _ _ _ (by omega) (le_of_lt hp)]
      cases ds with
      | nil => simp only [gcLevels]; exact key [] [] rfl
      | cons d ds => simp only [gcLevels]; exact key d ds rfl

end SH.C24
