/-
  SH.Lemmas.WireAlloc — allocation tracking for the TL and Protobuf decoders, in the style of `MPR` for MessagePack.

  The instrumented readers below return, next to the result of the model reader, the largest size the Go code passes
  to `make` (TL: element count after CheckLengthSanity, byte count in StringReadBytes) or grows a slice by in one
  step (Protobuf: copied payload bytes, elements of one packed run, single appended elements). Erasure lemmas show that
  their result component IS the model reader that the correspondence ties to the real code; the bounds say that every
  such size is at most the number of bytes of input.
-/
import SH.Lemmas.WireFuel
import SH.Lemmas.WirePBFuel
namespace SH.Wire

/-! ### combinators -/

def pureA {α : Type} (x : R α) : MPR α := ⟨0, x⟩

def bindA {α β : Type} (x : MPR α) (k : α × Bytes → MPR β) : MPR β :=
  match x.res with
  | .error e => ⟨x.alloc, .error e⟩
  | .ok p => ⟨max x.alloc (k p).alloc, (k p).res⟩

theorem bindA_res {α β : Type} (x : MPR α) (k : α × Bytes → MPR β) :
    (bindA x k).res = (match x.res with | .error e => .error e | .ok p => (k p).res) := by
  obtain ⟨a, res⟩ := x
  cases res with
  | error e => rfl
  | ok p => rfl

/-- allocation bounded by the input, and the rest never longer than the input -/
def GoodA {α : Type} (x : MPR α) (b : Bytes) : Prop :=
  x.alloc ≤ b.length ∧ ∀ y r, x.res = .ok (y, r) → r.length ≤ b.length

theorem pureA_good {α : Type} (f : Bytes → R α) (hf : Mono f) (b : Bytes) : GoodA (pureA (f b)) b :=
  ⟨Nat.zero_le _, fun y r h => hf b y r h⟩

theorem bindA_good {α β : Type} (x : MPR α) (k : α × Bytes → MPR β) (b : Bytes) (hx : GoodA x b)
    (hk : ∀ y r, x.res = .ok (y, r) → GoodA (k (y, r)) r) : GoodA (bindA x k) b := by
  obtain ⟨a, res⟩ := x
  cases res with
  | error e => exact ⟨hx.1, by intro y r h; simp [bindA] at h⟩
  | ok p =>
    obtain ⟨y, r⟩ := p
    have h1 := hx.2 y r rfl
    have h2 := hk y r rfl
    refine ⟨?_, ?_⟩
    · have := hx.1; have := h2.1; simp [bindA] at *; omega
    · intro y' r' h; have := h2.2 y' r' h; omega

/-! ### TL -/

/-- StringReadBytes: `make([]byte, l)` happens once `len(r) >= l` is known (before the padding check) -/
def tlStringA (b : Bytes) : MPR Bytes :=
  match b with
  | [] => ⟨0, tlString b⟩
  | b0 :: r =>
    if b0 ≤ 253 then ⟨if r.length < b0 then 0 else b0, tlString b⟩
    else if b0 = 254 then
      ⟨if r.length < 3 ∨ rdLE (r.take 3) ≤ 253 ∨ (r.drop 3).length < rdLE (r.take 3) then 0 else rdLE (r.take 3), tlString b⟩
    else
      ⟨if r.length < 7 ∨ rdLE (r.take 7) ≤ 2 ^ 24 - 1 ∨ (r.drop 7).length < rdLE (r.take 7) then 0 else rdLE (r.take 7), tlString b⟩

theorem tlStringA_res (b : Bytes) : (tlStringA b).res = tlString b := by
  unfold tlStringA
  split
  · rfl
  · split
    · rfl
    · split <;> rfl

theorem tlStringA_good (b : Bytes) : GoodA (tlStringA b) b := by
  refine ⟨?_, fun y r h => ?_⟩
  · unfold tlStringA
    split
    · simp
    · split
      · simp only []; split <;> simp <;> omega
      · split
        · simp only []; split
          · simp
          · rename_i h; simp at h ⊢; omega
        · simp only []; split
          · simp
          · rename_i h; simp at h ⊢; omega
  · rw [tlStringA_res] at h; exact Nat.le_of_lt (tlString_strict _ _ _ h)

def readNA {α : Type} (f : Bytes → MPR α) : Nat → Bytes → MPR (List α)
  | 0, b => ⟨0, .ok ([], b)⟩
  | n + 1, b => bindA (f b) fun p => bindA (readNA f n p.2) fun q => ⟨0, .ok (p.1 :: q.1, q.2)⟩

/-- Builtin*ReadTL1 of a vector: `make([]T, l)` after CheckLengthSanity(w, l, 4) -/
def tlVecA {α : Type} (f : Bytes → MPR α) (b : Bytes) : MPR (List α) :=
  match tlNat b with
  | .error e => ⟨0, .error e⟩
  | .ok (l, r) => if r.length < l * 4 then ⟨0, .error .eof⟩ else bindA ⟨l, .ok ((), r)⟩ fun p => readNA f l p.2

theorem readNA_res {α : Type} (f : Bytes → MPR α) (g : Bytes → R α) (hfg : ∀ b, (f b).res = g b) :
    ∀ n b, (readNA f n b).res = readN g n b := by
  intro n
  induction n with
  | zero => intro b; rfl
  | succ n ih =>
    intro b
    simp only [readNA, readN, bindA_res, hfg, ih]
    cases g b with
    | error e => rfl
    | ok p =>
      obtain ⟨x, r⟩ := p
      simp only []
      cases readN g n r with
      | error e => rfl
      | ok q => rfl

theorem tlVecA_res {α : Type} (f : Bytes → MPR α) (g : Bytes → R α) (hfg : ∀ b, (f b).res = g b) (b : Bytes) :
    (tlVecA f b).res = tlVec g b := by
  unfold tlVecA tlVec
  cases tlNat b with
  | error e => rfl
  | ok p =>
    obtain ⟨l, r⟩ := p
    simp only []
    split
    · rfl
    · rw [bindA_res]; exact readNA_res f g hfg l r

theorem readNA_good {α : Type} (f : Bytes → MPR α) (hf : ∀ b, GoodA (f b) b) : ∀ n b, GoodA (readNA f n b) b := by
  intro n
  induction n with
  | zero => intro b; exact ⟨Nat.zero_le _, by intro y r h; simp [readNA] at h; obtain ⟨_, rfl⟩ := h; exact Nat.le_refl _⟩
  | succ n ih =>
    intro b
    simp only [readNA]
    apply bindA_good _ _ _ (hf b)
    intro y r _
    apply bindA_good _ _ _ (ih r)
    intro ys r' _
    exact ⟨Nat.zero_le _, by intro y' r'' h; simp at h; obtain ⟨_, rfl⟩ := h; exact Nat.le_refl _⟩

theorem tlVecA_good {α : Type} (f : Bytes → MPR α) (hf : ∀ b, GoodA (f b) b) (b : Bytes) : GoodA (tlVecA f b) b := by
  unfold tlVecA
  cases h0 : tlNat b with
  | error e => exact ⟨Nat.zero_le _, by intro y r h; simp at h⟩
  | ok p =>
    obtain ⟨l, r⟩ := p
    have hs := tlNat_strict _ _ _ h0
    simp only []
    split
    · exact ⟨Nat.zero_le _, by intro y r h; simp at h⟩
    · rename_i hl
      have hg : GoodA (bindA (⟨l, .ok ((), r)⟩ : MPR Unit) fun p => readNA f l p.2) r := by
        apply bindA_good
        · exact ⟨by simp; omega, by intro y r' h; simp at h; obtain ⟨_, rfl⟩ := h; exact Nat.le_refl _⟩
        · intro y r' h; simp at h; obtain ⟨_, rfl⟩ := h; exact readNA_good f hf l _
      exact ⟨by have := hg.1; omega, fun y r' h => by have := hg.2 y r' h; omega⟩

def tlTagA (b : Bytes) : MPR (Bytes × Bytes) :=
  bindA (tlStringA b) fun p => bindA (tlStringA p.2) fun q => ⟨0, .ok ((p.1, q.1), q.2)⟩

theorem tlTagA_res (b : Bytes) : (tlTagA b).res = tlTag b := by
  unfold tlTagA tlTag
  simp only [bindA_res, tlStringA_res]
  cases tlString b with
  | error e => rfl
  | ok p =>
    obtain ⟨k, r⟩ := p
    simp only []
    cases tlString r with
    | error e => rfl
    | ok q => rfl

theorem tlTagA_good (b : Bytes) : GoodA (tlTagA b) b := by
  unfold tlTagA
  apply bindA_good _ _ _ (tlStringA_good b)
  intro y r _
  apply bindA_good _ _ _ (tlStringA_good r)
  intro y' r' _
  exact ⟨Nat.zero_le _, by intro a b h; simp at h; obtain ⟨_, rfl⟩ := h; exact Nat.le_refl _⟩

def tlOptA {α : Type} (c : Bool) (f : Bytes → MPR α) (d : α) (b : Bytes) : MPR α :=
  if c then f b else ⟨0, .ok (d, b)⟩

theorem tlOptA_res {α : Type} (c : Bool) (f : Bytes → MPR α) (g : Bytes → R α) (d : α) (hfg : ∀ b, (f b).res = g b) (b : Bytes) :
    (tlOptA c f d b).res = tlOpt c g d b := by
  unfold tlOptA tlOpt; split
  · exact hfg b
  · rfl

theorem tlOptA_good {α : Type} (c : Bool) (f : Bytes → MPR α) (d : α) (hf : ∀ b, GoodA (f b) b) (b : Bytes) :
    GoodA (tlOptA c f d b) b := by
  unfold tlOptA; split
  · exact hf b
  · exact ⟨Nat.zero_le _, by intro y r h; simp at h; obtain ⟨_, rfl⟩ := h; exact Nat.le_refl _⟩

/-- StatshouseMetricBytes.ReadTL1 with its allocations -/
def tlMetricA (b : Bytes) : MPR Metric :=
  bindA (pureA (tlNat b)) fun p1 =>
  bindA (tlStringA p1.2) fun p2 =>
  bindA (tlVecA tlTagA p2.2) fun p3 =>
  bindA (tlOptA (hasBit p1.1 0) (fun b => pureA (tlLong b)) 0 p3.2) fun p4 =>
  bindA (tlOptA (hasBit p1.1 4) (fun b => pureA (tlNat b)) 0 p4.2) fun p5 =>
  bindA (tlOptA (hasBit p1.1 1) (tlVecA (fun b => pureA (tlLong b))) [] p5.2) fun p6 =>
  bindA (tlOptA (hasBit p1.1 2) (tlVecA (fun b => pureA (tlLong b))) [] p6.2) fun p7 =>
  bindA (tlOptA (hasBit p1.1 3) (tlVecA (fun b => pureA (tlPair b))) [] p7.2) fun p8 =>
  ⟨0, .ok ({ mask := p1.1, name := p2.1, tags := p3.1, counter := p4.1, ts := p5.1, value := p6.1, unique := p7.1,
             hist := p8.1 }, p8.2)⟩

theorem pureA_res {α : Type} (x : R α) : (pureA x).res = x := rfl

theorem tlMetricA_res (b : Bytes) : (tlMetricA b).res = tlMetric b := by
  have e1 : ∀ c d b, (tlOptA c (fun b => pureA (tlLong b)) d b).res = tlOpt c tlLong d b :=
    fun c d b => tlOptA_res c (fun b => pureA (tlLong b)) tlLong d (fun _ => rfl) b
  have e2 : ∀ c d b, (tlOptA c (fun b => pureA (tlNat b)) d b).res = tlOpt c tlNat d b :=
    fun c d b => tlOptA_res c (fun b => pureA (tlNat b)) tlNat d (fun _ => rfl) b
  have e3 : ∀ c d b, (tlOptA c (tlVecA fun b => pureA (tlLong b)) d b).res = tlOpt c (tlVec tlLong) d b :=
    fun c d b => tlOptA_res c _ (tlVec tlLong) d (tlVecA_res (fun b => pureA (tlLong b)) tlLong (fun _ => rfl)) b
  have e4 : ∀ c d b, (tlOptA c (tlVecA fun b => pureA (tlPair b)) d b).res = tlOpt c (tlVec tlPair) d b :=
    fun c d b => tlOptA_res c _ (tlVec tlPair) d (tlVecA_res (fun b => pureA (tlPair b)) tlPair (fun _ => rfl)) b
  unfold tlMetricA tlMetric
  simp only [bindA_res, pureA_res, tlStringA_res, tlVecA_res tlTagA tlTag tlTagA_res, e1, e2, e3, e4, bind, Except.bind]
  cases tlNat b with
  | error e => rfl
  | ok p1 =>
    obtain ⟨a1, r1⟩ := p1
    simp only []
    cases tlString r1 with
    | error e => rfl
    | ok p2 =>
      obtain ⟨a2, r2⟩ := p2
      simp only []
      cases tlVec tlTag r2 with
      | error e => rfl
      | ok p3 =>
        obtain ⟨a3, r3⟩ := p3
        simp only []
        cases tlOpt (hasBit a1 0) tlLong 0 r3 with
        | error e => rfl
        | ok p4 =>
          obtain ⟨a4, r4⟩ := p4
          simp only []
          cases tlOpt (hasBit a1 4) tlNat 0 r4 with
          | error e => rfl
          | ok p5 =>
            obtain ⟨a5, r5⟩ := p5
            simp only []
            cases tlOpt (hasBit a1 1) (tlVec tlLong) [] r5 with
            | error e => rfl
            | ok p6 =>
              obtain ⟨a6, r6⟩ := p6
              simp only []
              cases tlOpt (hasBit a1 2) (tlVec tlLong) [] r6 with
              | error e => rfl
              | ok p7 =>
                obtain ⟨a7, r7⟩ := p7
                simp only []
                cases tlOpt (hasBit a1 3) (tlVec tlPair) [] r7 with
                | error e => rfl
                | ok p8 => rfl

theorem doneA_good {α : Type} (y : α) (r : Bytes) : GoodA (⟨0, .ok (y, r)⟩ : MPR α) r :=
  ⟨Nat.zero_le _, by intro a b h; simp at h; obtain ⟨_, rfl⟩ := h; exact Nat.le_refl _⟩

theorem tlMetricA_good (b : Bytes) : GoodA (tlMetricA b) b := by
  unfold tlMetricA
  apply bindA_good _ _ _ (pureA_good tlNat tlNat_strict.mono b); intro _ r1 _
  apply bindA_good _ _ _ (tlStringA_good _); intro _ r2 _
  apply bindA_good _ _ _ (tlVecA_good tlTagA tlTagA_good _); intro _ r3 _
  apply bindA_good _ _ _ (tlOptA_good _ _ _ (fun b => pureA_good tlLong tlLong_strict.mono b) _); intro _ r4 _
  apply bindA_good _ _ _ (tlOptA_good _ _ _ (fun b => pureA_good tlNat tlNat_strict.mono b) _); intro _ r5 _
  apply bindA_good _ _ _ (tlOptA_good _ _ _ (tlVecA_good _ (fun b => pureA_good tlLong tlLong_strict.mono b)) _); intro _ r6 _
  apply bindA_good _ _ _ (tlOptA_good _ _ _ (tlVecA_good _ (fun b => pureA_good tlLong tlLong_strict.mono b)) _); intro _ r7 _
  apply bindA_good _ _ _ (tlOptA_good _ _ _ (tlVecA_good _ (fun b => pureA_good tlPair tlPair_mono b)) _); intro _ r8 _
  exact doneA_good _ _

/-- StatshouseAddMetricsBatchBytes.ReadTL1Boxed with its allocations -/
def tlBatchA (b : Bytes) : MPR (List Metric) :=
  if b.length < 4 then ⟨0, .error .eof⟩
  else if rdLE (b.take 4) ≠ tlBatchTag then ⟨0, .error .tag⟩
  else bindA (pureA (tlNat (b.drop 4))) fun p => tlVecA tlMetricA p.2

theorem tlBatchA_res (b : Bytes) : (tlBatchA b).res = tlBatch b := by
  unfold tlBatchA tlBatch
  split
  · rfl
  · split
    · rfl
    · simp only [bindA_res, pureA_res]
      cases tlNat (b.drop 4) with
      | error e => rfl
      | ok p => exact tlVecA_res tlMetricA tlMetric tlMetricA_res _

theorem tlBatchA_good (b : Bytes) : GoodA (tlBatchA b) b := by
  unfold tlBatchA
  split
  · exact ⟨Nat.zero_le _, by intro y r h; simp at h⟩
  · split
    · exact ⟨Nat.zero_le _, by intro y r h; simp at h⟩
    · have hg : GoodA (bindA (pureA (tlNat (b.drop 4))) fun p => tlVecA tlMetricA p.2) (b.drop 4) := by
        apply bindA_good _ _ _ (pureA_good tlNat tlNat_strict.mono _)
        intro _ r _
        exact tlVecA_good tlMetricA tlMetricA_good r
      have hl : (b.drop 4).length ≤ b.length := by simp
      exact ⟨by have := hg.1; omega, fun y r h => by have := hg.2 y r h; omega⟩

/-! ### Protobuf: protobuf.go never calls make with a decoded length; slices grow by `append` -/

/-- how much one field of a metric makes a slice grow in one step: the copied payload (name, map entry strings, centroid),
    the elements of one packed run, or a single element -/
def pbFieldAlloc (num typ : Nat) (r : Bytes) : Nat :=
  if typ = 2 ∧ (num = 1 ∨ num = 2 ∨ num = 7) then (match pbBytes r with | .ok (d, _) => max 1 d.length | .error _ => 0)
  else if typ = 2 ∧ num = 5 then (match pbBytes r with | .ok (d, _) => d.length / 8 | .error _ => 0)
  else if typ = 2 ∧ num = 6 then (match pbBytes r with | .ok (d, _) => (pbPackedVar (d.length + 1) d).1.length | .error _ => 0)
  else 1

theorem pbPackedVar_length : ∀ (f : Nat) (b : Bytes), (pbPackedVar f b).1.length ≤ b.length := by
  intro f
  induction f with
  | zero => intro b; simp [pbPackedVar]
  | succ f ih =>
    intro b
    simp only [pbPackedVar]
    split
    · simp
    · split
      · simp
      · rename_i x r h0
        have := pbVarint_strict _ _ _ h0
        have := ih r
        simp; omega

theorem pbFieldAlloc_le (num typ : Nat) (r : Bytes) : pbFieldAlloc num typ r ≤ r.length + 1 := by
  unfold pbFieldAlloc
  split
  · split
    · rename_i d r' h; have := pbBytes_payload _ _ _ h; simp; omega
    · omega
  · split
    · split
      · rename_i d r' h; have := pbBytes_payload _ _ _ h
        have : d.length / 8 ≤ d.length := Nat.div_le_self _ _
        omega
      · omega
    · split
      · split
        · rename_i d r' h; have := pbBytes_payload _ _ _ h
          have := pbPackedVar_length (d.length + 1) d
          omega
        · omega
      · omega

/-- protobufUnmarshalStatshouseMetric with the growth steps of its slices -/
def pbMetricA (v : Variant) : Nat → Metric → Bytes → Nat × Except Err Metric
  | 0, _, _ => (0, .error .fuel)
  | f + 1, m, b =>
    if b = [] then (0, .ok m)
    else
      match pbTag b with
      | .error e => (0, .error e)
      | .ok ((num, typ), r) =>
        match pbMetricField v m num typ r with
        | .error e => (pbFieldAlloc num typ r, .error e)
        | .ok (m', r') => (max (pbFieldAlloc num typ r) (pbMetricA v f m' r').1, (pbMetricA v f m' r').2)

theorem pbMetricA_res (v : Variant) : ∀ (f : Nat) (m : Metric) (b : Bytes), (pbMetricA v f m b).2 = pbMetric v f m b := by
  intro f
  induction f with
  | zero => intro m b; rfl
  | succ f ih =>
    intro m b
    simp only [pbMetricA, pbMetric]
    by_cases hb : b = []
    · simp [hb]
    · simp only [hb, if_false]
      cases pbTag b with
      | error e => rfl
      | ok p =>
        obtain ⟨⟨num, typ⟩, r⟩ := p
        simp only []
        cases pbMetricField v m num typ r with
        | error e => rfl
        | ok q => obtain ⟨m', r'⟩ := q; simp only []; exact ih _ _

theorem pbMetricA_le (v : Variant) : ∀ (f : Nat) (m : Metric) (b : Bytes), (pbMetricA v f m b).1 ≤ b.length := by
  intro f
  induction f with
  | zero => intro m b; simp [pbMetricA]
  | succ f ih =>
    intro m b
    simp only [pbMetricA]
    split
    · simp
    · split
      · simp
      · rename_i num typ r h0
        have h0' := pbTag_strict _ _ _ h0
        have ha := pbFieldAlloc_le num typ r
        split
        · simp only []; omega
        · rename_i m' r' h1
          have := pbMetricField_mono _ _ _ _ _ _ _ h1
          have := ih m' r'
          simp only []
          omega

/-- protobufUnmarshalStatshouseAddMetricBatch with the growth steps: one metric appended per record, plus whatever
    decoding that metric grows -/
def pbBatchA (v : Variant) : Nat → List Metric → Bytes → Nat × Except (Err × Bytes) (List Metric)
  | 0, _, b => (0, .error (.fuel, b))
  | f + 1, ms, b =>
    if b = [] then (0, .ok ms)
    else
      match pbTag b with
      | .error e => (0, .error (e, b))
      | .ok ((num, typ), r) =>
        if num = 13337 ∧ typ = 2 then
          match pbBytes r with
          | .error e => (0, .error (e, r))
          | .ok (d, r') =>
            match pbMetric v (d.length + 1) {} d with
            | .error e => (max 1 (pbMetricA v (d.length + 1) {} d).1, .error (e, r'))
            | .ok m => (max (max 1 (pbMetricA v (d.length + 1) {} d).1) (pbBatchA v f (ms ++ [m]) r').1,
                        (pbBatchA v f (ms ++ [m]) r').2)
        else
          match pbSkip num typ r with
          | .error e => (0, .error (e, r))
          | .ok r' => pbBatchA v f ms r'

theorem pbBatchA_res (v : Variant) : ∀ (f : Nat) (ms : List Metric) (b : Bytes), (pbBatchA v f ms b).2 = pbBatch v f ms b := by
  intro f
  induction f with
  | zero => intro ms b; rfl
  | succ f ih =>
    intro ms b
    simp only [pbBatchA, pbBatch]
    by_cases hb : b = []
    · simp [hb]
    · simp only [hb, if_false]
      cases pbTag b with
      | error e => rfl
      | ok p =>
        obtain ⟨⟨num, typ⟩, r⟩ := p
        simp only []
        by_cases hc : num = 13337 ∧ typ = 2
        · simp only [hc, and_self, if_true]
          cases pbBytes r with
          | error e => rfl
          | ok q =>
            obtain ⟨d, r'⟩ := q
            simp only []
            cases pbMetric v (d.length + 1) {} d with
            | error e => rfl
            | ok m => simp only []; exact ih _ _
        · simp only [hc, if_false]
          cases pbSkip num typ r with
          | error e => rfl
          | ok r' => simp only []; exact ih _ _

theorem pbBatchA_le (v : Variant) : ∀ (f : Nat) (ms : List Metric) (b : Bytes), (pbBatchA v f ms b).1 ≤ b.length := by
  intro f
  induction f with
  | zero => intro ms b; simp [pbBatchA]
  | succ f ih =>
    intro ms b
    simp only [pbBatchA]
    split
    · simp
    · split
      · simp
      · rename_i num typ r h0
        have h0' := pbTag_strict _ _ _ h0
        split
        · split
          · simp
          · rename_i d r' hb
            have hp := pbBytes_payload _ _ _ hb
            have hm := pbMetricA_le v (d.length + 1) {} d
            split
            · simp only []; omega
            · rename_i m hm'
              have := ih (ms ++ [m]) r'
              simp only []
              omega
        · split
          · simp
          · rename_i r' hs
            have := pbSkip_mono _ _ _ _ hs
            have := ih ms r'
            omega

end SH.Wire
