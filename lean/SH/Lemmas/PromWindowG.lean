/-
  SH.Lemmas.PromWindowG — the window cursor on ARBITRARY time grids (in particular the two-LOD grids of a query that crosses
  a table boundary), generalising SH.Lemmas.PromWindow: the cursor is monotone, so if `L r` is the left edge the range
  selects for point `r` (characterised by the very test the cursor evaluates, with that point's own bucket width
  `sOf r` = t[r+1] − t[r]), the cursor-driven evaluation returns at every point the function of exactly the points
  L r … r.  `wide_nonstrict` instantiates `L` for the non-strict functions on every grid.
-/
import SH.Lemmas.PromWindow

namespace SH.PromWindowG
open SH.PromEval SH.PromWindow

/-- the test of the left-boundary loop as a function of the bucket width `s` of the current point -/
def wideAt (t : List Int) (w : Int) (strict : Bool) (s : Int) (r l : Nat) : Bool :=
  decide (w ≤ tAt t r - tAt t l + s) || (strict && decide (w < tAt t r - tAt t (l - 1) + s))

theorem wideEnough_eq_wideAt (t : List Int) (wd : Wnd) (r l : Nat) : wideEnough t wd r l = wideAt t wd.w wd.strict wd.s r l := rfl

structure GCtx where
  t : List Int
  w : Int
  strict : Bool
  sOf : Nat → Int           -- bucket width of point r
  L : Nat → Nat             -- left edge of the window of point r; 0 = no complete window right of the guard point
  hw : 0 < w
  hL : ∀ r, L r ≤ r
  hwide : ∀ r l, 1 ≤ l → l ≤ r → r < t.length → wideAt t w strict (sOf r) r l = decide (l ≤ L r)
  hmono : ∀ r, r + 1 < t.length → L r ≤ L (r + 1)
  hstep : ∀ r, 1 ≤ r → r < t.length → tAt t r - tAt t (r - 1) = sOf (r - 1)
  hnarrow : ∀ r, r < t.length → (strict && decide (w < sOf r)) = false

def GGood (c : GCtx) (wd : Wnd) : Prop := wd.w = c.w ∧ wd.strict = c.strict ∧ wd.done = false

theorem searchLeft_walkG (c : GCtx) (v : List Val) (wd : Wnd) (hgd : GGood c wd) (r : Nat) (hs : wd.s = c.sOf r)
    (hr : r < c.t.length) (hL1 : 1 ≤ c.L r) :
    ∀ (d l n : Nat), l = c.L r + d → l ≤ r →
      searchLeft c.t v wd r l n = (c.L r, n + cnt v (c.L r) d, true) := by
  intro d
  induction d with
  | zero =>
    intro l n hl hlr
    obtain ⟨l', rfl⟩ : ∃ l', l = l' + 1 := ⟨l - 1, by omega⟩
    unfold searchLeft
    rw [wideEnough_eq_wideAt, hgd.1, hgd.2.1, hs, c.hwide r (l' + 1) (by omega) hlr hr]
    have hd : decide (l' + 1 ≤ c.L r) = true := by simp; omega
    rw [hd]
    simp only [if_true, cnt, Nat.add_zero]
    rw [hl, Nat.add_zero]
  | succ d ih =>
    intro l n hl hlr
    obtain ⟨l', rfl⟩ : ∃ l', l = l' + 1 := ⟨l - 1, by omega⟩
    unfold searchLeft
    rw [wideEnough_eq_wideAt, hgd.1, hgd.2.1, hs, c.hwide r (l' + 1) (by omega) hlr hr]
    have : ¬ l' + 1 ≤ c.L r := by omega
    simp only [this, decide_false, Bool.false_eq_true, if_false]
    rw [ih l' _ (by omega) (by omega), cnt_succ_right]
    have e : c.L r + d = l' := by omega
    rw [e]
    by_cases hp : isPresent v l' = true <;> simp [hp, b2n] <;> omega

theorem searchLeft_failG (c : GCtx) (v : List Val) (wd : Wnd) (hgd : GGood c wd) (r : Nat) (hs : wd.s = c.sOf r)
    (hr : r < c.t.length) (hL0 : c.L r = 0) :
    ∀ (l n : Nat), l ≤ r → ∃ n', searchLeft c.t v wd r l n = (0, n', false) := by
  intro l
  induction l with
  | zero => intro n _; exact ⟨n, rfl⟩
  | succ l ih =>
    intro n hl
    unfold searchLeft
    rw [wideEnough_eq_wideAt, hgd.1, hgd.2.1, hs, c.hwide r (l + 1) (by omega) hl hr]
    have : ¬ l + 1 ≤ c.L r := by omega
    simp only [this, decide_false, Bool.false_eq_true, if_false]
    exact ih _ (by omega)

/-- the state before the move to point R − 1 -/
def PreG (c : GCtx) (v : List Val) (wd : Wnd) (R : Nat) : Prop :=
  GGood c wd ∧ wd.r = R ∧ 1 ≤ R ∧ wd.s = c.sOf (R - 1) ∧
  (wd.l > R - 1 ∨ (R < c.t.length ∧ wd.l = c.L R ∧ wd.l ≤ R - 1 ∧ 1 ≤ wd.l ∧ wd.n = cnt v wd.l (R - wd.l) + b2n (isPresent v R)))

theorem start_countG (c : GCtx) (v : List Val) (wd : Wnd) (R : Nat) (h : PreG c v wd R) (hRN : R ≤ c.t.length) :
    countStart v wd (R - 1) = cnt v (leftStart wd (R - 1)) (R - leftStart wd (R - 1)) ∧
    c.L (R - 1) ≤ leftStart wd (R - 1) ∧ leftStart wd (R - 1) ≤ R - 1 := by
  obtain ⟨hgd, hr, hR1, hs, hcase⟩ := h
  unfold countStart leftStart
  rcases hcase with hl | ⟨hRlt, hl, hle, hl1, hn⟩
  · simp only [hl, if_true]
    have hns := c.hnarrow (R - 1) (by omega)
    rw [hgd.1, hgd.2.1, hs, hns]
    refine ⟨?_, c.hL _, by omega⟩
    have : R - (R - 1) = 1 := by omega
    rw [this, cnt, cnt]
    by_cases hp : isPresent v (R - 1) = true <;> simp [hp, b2n]
  · have hnl : ¬ wd.l > R - 1 := by omega
    simp only [hnl, if_false]
    have hm := c.hmono (R - 1) (by omega)
    have e : R - 1 + 1 = R := by omega
    rw [e] at hm
    refine ⟨?_, by omega, hle⟩
    rw [hr, hn]
    by_cases hp : isPresent v R = true <;> simp [hp, b2n]

theorem move_okG (c : GCtx) (v : List Val) (wd : Wnd) (R : Nat) (h : PreG c v wd R) (hRN : R ≤ c.t.length) (hL1 : 1 ≤ c.L (R - 1)) :
    ∃ wd', moveOneLeft c.t v wd = some wd' ∧ GGood c wd' ∧ wd'.r = R - 1 ∧ wd'.l = c.L (R - 1) ∧
      wd'.n = cnt v (c.L (R - 1)) (R - c.L (R - 1)) ∧ wd'.s = c.sOf (R - 1 - 1) := by
  have hsc := start_countG c v wd R h hRN
  obtain ⟨hgd, hr, hR1, hs, _⟩ := h
  obtain ⟨hn0, hlo, hhi⟩ := hsc
  have hLle := c.hL (R - 1)
  have hwalk := searchLeft_walkG c v wd hgd (R - 1) hs (by omega) hL1 (leftStart wd (R - 1) - c.L (R - 1))
    (leftStart wd (R - 1)) (countStart v wd (R - 1)) (by omega) hhi
  have hw0 : decide (wd.w ≤ 0) = false := by
    rw [hgd.1]; simp; exact c.hw
  have hsum : countStart v wd (R - 1) + cnt v (c.L (R - 1)) (leftStart wd (R - 1) - c.L (R - 1)) = cnt v (c.L (R - 1)) (R - c.L (R - 1)) := by
    have hadd := cnt_add v (c.L (R - 1)) (leftStart wd (R - 1) - c.L (R - 1)) (R - leftStart wd (R - 1))
    have e : (leftStart wd (R - 1) - c.L (R - 1)) + (R - leftStart wd (R - 1)) = R - c.L (R - 1) := by omega
    have e2 : c.L (R - 1) + (leftStart wd (R - 1) - c.L (R - 1)) = leftStart wd (R - 1) := by omega
    rw [e, e2] at hadd
    rw [hn0, hadd]; omega
  have hstp := c.hstep (R - 1) (by omega) (by omega)
  have hl0 : c.L (R - 1) ≠ 0 := by omega
  refine ⟨{ wd with l := c.L (R - 1), r := R - 1, n := cnt v (c.L (R - 1)) (R - c.L (R - 1)), s := c.sOf (R - 1 - 1) }, ?_, ?_, rfl, rfl, rfl, rfl⟩
  · unfold moveOneLeft
    simp only [hgd.2.2, Bool.false_eq_true, if_false, hr, hw0, Bool.false_and, hwalk, finishMove, hl0, hsum, hstp]
  · exact ⟨hgd.1, hgd.2.1, hgd.2.2⟩

theorem move_noneG (c : GCtx) (v : List Val) (wd : Wnd) (R : Nat) (h : PreG c v wd R) (hRN : R ≤ c.t.length) (hL0 : c.L (R - 1) = 0) :
    moveOneLeft c.t v wd = none := by
  have hsc := start_countG c v wd R h hRN
  obtain ⟨hgd, hr, hR1, hs, _⟩ := h
  obtain ⟨_, _, hhi⟩ := hsc
  obtain ⟨n', hn'⟩ := searchLeft_failG c v wd hgd (R - 1) hs (by omega) hL0 (leftStart wd (R - 1)) (countStart v wd (R - 1)) hhi
  have hw0 : decide (wd.w ≤ 0) = false := by
    rw [hgd.1]; simp; exact c.hw
  unfold moveOneLeft
  simp only [hgd.2.2, Bool.false_eq_true, if_false, hr, hw0, Bool.false_and, hn', finishMove, if_true]

theorem pre_after_setG (c : GCtx) (v : List Val) (wd' : Wnd) (R : Nat) (x : Val) (hgd : GGood c wd') (hr : wd'.r = R - 1)
    (hl : wd'.l = c.L (R - 1)) (hn : wd'.n = cnt v (c.L (R - 1)) (R - c.L (R - 1))) (hs : wd'.s = c.sOf (R - 1 - 1))
    (hL1 : 1 ≤ c.L (R - 1)) (hRv : R ≤ v.length) (hRN : R ≤ c.t.length) :
    PreG c (setRight v wd' x).1 (setRight v wd' x).2 (R - 1) := by
  have hLle := c.hL (R - 1)
  unfold setRight
  refine ⟨⟨hgd.1, hgd.2.1, hgd.2.2⟩, hr, by omega, hs, ?_⟩
  by_cases hk : c.L (R - 1) = R - 1
  · left; show wd'.l > R - 1 - 1; omega
  · right
    refine ⟨by omega, hl, by show wd'.l ≤ R - 1 - 1; omega, by show 1 ≤ wd'.l; omega, ?_⟩
    show (if (!isPresent v wd'.r && !x.isNone) = true then wd'.n + 1
          else if (!!isPresent v wd'.r && x.isNone) = true then wd'.n - 1 else wd'.n)
        = cnt (v.set wd'.r x) wd'.l (R - 1 - wd'.l) + b2n (isPresent (v.set wd'.r x) (R - 1))
    rw [hr, hl, cnt_set_lt v (R - 1) x (c.L (R - 1)) (R - 1 - c.L (R - 1)) (by omega), isPresent_set_self v (R - 1) x (by omega), hn]
    have hsr := cnt_succ_right v (c.L (R - 1)) (R - 1 - c.L (R - 1))
    have e : R - 1 - c.L (R - 1) + 1 = R - c.L (R - 1) := by omega
    have e2 : c.L (R - 1) + (R - 1 - c.L (R - 1)) = R - 1 := by omega
    rw [e, e2] at hsr
    rw [hsr]
    cases x <;> by_cases hp : isPresent v (R - 1) = true <;> simp [hp, b2n]

/-- the definition: the function applied to the points L i … i, the nil value where none of them is present -/
def expAtG (c : GCtx) (fn : List Val → Val) (nilV : Val) (orig : List Val) (i : Nat) : Val :=
  if (present (slice orig (c.L i) i)).length ≠ 0 then fn (slice orig (c.L i) i) else nilV

theorem loop_specG (c : GCtx) (fn : List Val → Val) (nilV : Val) (orig : List Val) :
    ∀ (fuel R : Nat) (v : List Val) (wd : Wnd), PreG c v wd R → R ≤ c.t.length → v.length = c.t.length →
      v.take R = orig.take R → (∀ i, R ≤ i → i < c.t.length → v.getD i none = expAtG c fn nilV orig i) →
      (∀ i, R ≤ i → i < c.t.length → 1 ≤ c.L i) → R + 1 ≤ fuel →
      ∃ Rf, (otLoop c.t fn nilV fuel v wd).2.r = Rf ∧ 1 ≤ Rf ∧ Rf ≤ R ∧ c.L (Rf - 1) = 0 ∧
        (otLoop c.t fn nilV fuel v wd).1.length = c.t.length ∧
        (∀ i, Rf ≤ i → i < c.t.length → 1 ≤ c.L i ∧ (otLoop c.t fn nilV fuel v wd).1.getD i none = expAtG c fn nilV orig i) := by
  intro fuel
  induction fuel with
  | zero => intro R v wd _ _ _ _ _ _ hf; omega
  | succ fuel ih =>
    intro R v wd hpre hRN hvl htake hout hpos hf
    have hR1 : 1 ≤ R := hpre.2.2.1
    by_cases hL0 : c.L (R - 1) = 0
    · rw [otLoop, move_noneG c v wd R hpre hRN hL0]
      exact ⟨R, hpre.2.1, hR1, le_refl _, hL0, hvl, fun i h1 h2 => ⟨hpos i h1 h2, hout i h1 h2⟩⟩
    · have hL1 : 1 ≤ c.L (R - 1) := by omega
      have hLle := c.hL (R - 1)
      obtain ⟨wd', hmv, hgd', hr', hl', hn', hs'⟩ := move_okG c v wd R hpre hRN hL1
      rw [otLoop, hmv]
      have hslice : slice v wd'.l wd'.r = slice orig (c.L (R - 1)) (R - 1) := by
        rw [hl', hr']
        apply slice_eq_of_take
        have : R - 1 + 1 = R := by omega
        rw [this]; exact htake
      have hcnt : wd'.n = (present (slice orig (c.L (R - 1)) (R - 1))).length := by
        rw [hn', ← hslice, slice_count, hl', hr']
        congr 1; omega
      have hout' : (if wd'.n ≠ 0 then fn (slice v wd'.l wd'.r) else nilV) = expAtG c fn nilV orig (R - 1) := by
        unfold expAtG; rw [hslice, hcnt]
      simp only [hout']
      have hpre' := pre_after_setG c v wd' R (expAtG c fn nilV orig (R - 1)) hgd' hr' hl' hn' hs' hL1 (by omega) hRN
      have hset : (setRight v wd' (expAtG c fn nilV orig (R - 1))).1 = v.set (R - 1) (expAtG c fn nilV orig (R - 1)) := by
        unfold setRight; rw [hr']
      obtain ⟨Rf, h1, h2, h3, h4⟩ := ih (R - 1) _ _ hpre' (by omega) (by rw [hset, List.length_set]; exact hvl)
        (by
          rw [hset, List.take_set_of_le (le_refl _)]
          have h1 : v.take (R - 1) = (v.take R).take (R - 1) := by rw [List.take_take]; congr 1; omega
          have h2 : orig.take (R - 1) = (orig.take R).take (R - 1) := by rw [List.take_take]; congr 1; omega
          rw [h1, h2, htake])
        (by
          intro i hi hiN
          rw [hset]
          by_cases hie : i = R - 1
          · subst hie
            rw [List.getD_eq_getElem?_getD, List.getElem?_set_self (by omega)]; rfl
          · rw [List.getD_eq_getElem?_getD, List.getElem?_set_ne (by omega), ← List.getD_eq_getElem?_getD]
            exact hout i (by omega) hiN)
        (by
          intro i hi hiN
          by_cases hie : i = R - 1
          · subst hie; exact hL1
          · exact hpos i (by omega) hiN)
        (by omega)
      exact ⟨Rf, h1, h2, by omega, h4⟩

theorem L_zero_below (c : GCtx) (a b : Nat) (hab : a ≤ b) (hb : b < c.t.length) (h0 : c.L b = 0) : c.L a = 0 := by
  induction b with
  | zero => have : a = 0 := by omega
            subst this; exact h0
  | succ b ih =>
    by_cases hae : a = b + 1
    · subst hae; exact h0
    · have hm := c.hmono b hb
      exact ih (by omega) (by omega) (by omega)

/-- **the cursor-driven evaluation on an arbitrary grid**: point `i` carries the function of the points L i … i (the nil
    value when none is present); it is missing exactly where no complete window exists right of the guard point (L i = 0). -/
theorem overTimeWith_general (c : GCtx) (fn : List Val → Val) (nilV : Val) (orig : List Val) (hN : orig.length = c.t.length)
    (lodStep : Int) (hlod : lodStep = c.sOf (c.t.length - 1))
    (i : Nat) (hi : i < c.t.length) :
    (overTimeWith c.t c.w lodStep c.strict fn nilV orig).getD i none = if c.L i = 0 then none else expAtG c fn nilV orig i := by
  have hN1 : 1 ≤ c.t.length := by omega
  have hpre : PreG c orig (newWindow c.t.length c.w lodStep c.strict) c.t.length := by
    refine ⟨⟨rfl, rfl, ?_⟩, rfl, hN1, hlod, Or.inl ?_⟩
    · show decide (c.t.length = 0) = false
      exact decide_eq_false (by omega)
    · show c.t.length > c.t.length - 1
      omega
  obtain ⟨Rf, hr, hRf1, hRfN', hLf, hlen, hval⟩ := loop_specG c fn nilV orig (orig.length + 1) c.t.length orig _ hpre (le_refl _) hN rfl
    (by intro j h1 h2; omega) (by intro j h1 h2; omega) (by omega)
  unfold overTimeWith
  simp only []
  unfold fillPrefix
  rw [hlen, getD_map_range _ _ i hi, hr]
  by_cases hik : i < Rf
  · have hRfN : Rf - 1 < c.t.length := by
      by_contra hc
      have : Rf = c.t.length + 1 ∨ Rf > c.t.length + 1 := by omega
      omega
    have : c.L i = 0 := L_zero_below c i (Rf - 1) (by omega) (by omega) hLf
    simp [hik, this]
  · have h := hval i (by omega) hi
    have : c.L i ≠ 0 := by omega
    simp only [hik, this, if_false]
    exact h.2

/-- not strict: the monotonicity of the left edge follows from its characterisation — the window of point r, closed at
    t[r] + sOf r = t[r+1], is contained in the window of point r+1 -/
theorem mono_of_wide_nonstrict (t : List Int) (w : Int) (sOf : Nat → Int) (L : Nat → Nat)
    (hL : ∀ r, L r ≤ r)
    (hwide : ∀ r l, 1 ≤ l → l ≤ r → r < t.length → wideAt t w false (sOf r) r l = decide (l ≤ L r))
    (hstep : ∀ r, 1 ≤ r → r < t.length → tAt t r - tAt t (r - 1) = sOf (r - 1))
    (hs : ∀ r, r < t.length → 0 ≤ sOf r) :
    ∀ r, r + 1 < t.length → L r ≤ L (r + 1) := by
  intro r hr
  by_contra hc
  have hl1 : 1 ≤ L r := by omega
  have hlr := hL r
  have h1 := hwide r (L r) hl1 hlr (by omega)
  have h2 := hwide (r + 1) (L r) hl1 (by omega) hr
  simp only [wideAt, Bool.false_and, Bool.or_false, le_refl, decide_true] at h1
  have hn : ¬ L r ≤ L (r + 1) := hc
  simp only [wideAt, Bool.false_and, Bool.or_false, hn, decide_false] at h2
  have hst := hstep (r + 1) (by omega) hr
  have e : r + 1 - 1 = r := by omega
  rw [e] at hst
  have hs1 := hs (r + 1) hr
  have a : w ≤ tAt t r - tAt t (L r) + sOf r := by simpa using h1
  have b : ¬ w ≤ tAt t (r + 1) - tAt t (L r) + sOf (r + 1) := by simpa using h2
  apply b
  linarith

/-! ### the window edge derived from the grid and the range (not strict), for every non-decreasing grid -/

/-- the largest l in 1..n with P l, 0 if there is none -/
def findL (P : Nat → Bool) : Nat → Nat
  | 0 => 0
  | l + 1 => if P (l + 1) then l + 1 else findL P l

theorem findL_le (P : Nat → Bool) (n : Nat) : findL P n ≤ n := by
  induction n with
  | zero => simp [findL]
  | succ n ih => unfold findL; split <;> omega

theorem findL_spec (P : Nat → Bool) (n : Nat) (hanti : ∀ l l', 1 ≤ l → l ≤ l' → l' ≤ n → P l' = true → P l = true) (l : Nat)
    (hl : 1 ≤ l) (hln : l ≤ n) : (l ≤ findL P n) ↔ P l = true := by
  induction n with
  | zero => omega
  | succ n ih =>
    unfold findL
    by_cases hp : P (n + 1) = true
    · simp only [hp, if_true]
      constructor
      · intro _; exact hanti l (n + 1) hl hln (le_refl _) hp
      · intro _; exact hln
    · have hp' : P (n + 1) = false := by simpa using hp
      simp only [hp', Bool.false_eq_true, if_false]
      by_cases he : l = n + 1
      · subst he
        have := findL_le P n
        constructor
        · intro h; omega
        · intro h; exact absurd h hp
      · exact ih (fun a b h1 h2 h3 h4 => hanti a b h1 h2 (by omega) h4) (by omega)

/-- bucket width of point r: the distance to the next point, the finest LOD step for the last one -/
def sOfGrid (t : List Int) (lodStep : Int) (r : Nat) : Int :=
  if r + 1 < t.length then tAt t (r + 1) - tAt t r else lodStep

/-- **the window edge in closed (computable) form**: the largest l ≥ 1 with w ≤ t_r − t_l + (bucket width of r) -/
def Lgrid (t : List Int) (w lodStep : Int) (r : Nat) : Nat :=
  findL (fun l => decide (w ≤ tAt t r - tAt t l + sOfGrid t lodStep r)) r

theorem tAt_mono (t : List Int) (hmono : ∀ i, i + 1 < t.length → tAt t i ≤ tAt t (i + 1)) :
    ∀ a b, a ≤ b → b < t.length → tAt t a ≤ tAt t b := by
  intro a b hab hb
  induction b with
  | zero => have : a = 0 := by omega
            subst this; exact le_refl _
  | succ b ih =>
    by_cases he : a = b + 1
    · subst he; exact le_refl _
    · exact le_trans (ih (by omega) (by omega)) (hmono b hb)

theorem grid_wide (t : List Int) (w lodStep : Int) (hmono : ∀ i, i + 1 < t.length → tAt t i ≤ tAt t (i + 1))
    (r l : Nat) (hl : 1 ≤ l) (hlr : l ≤ r) (hr : r < t.length) :
    wideAt t w false (sOfGrid t lodStep r) r l = decide (l ≤ Lgrid t w lodStep r) := by
  have hspec := findL_spec (fun l => decide (w ≤ tAt t r - tAt t l + sOfGrid t lodStep r)) r
    (by
      intro a b _ hab hbr hb
      simp only [decide_eq_true_eq] at hb ⊢
      have := tAt_mono t hmono a b hab (by omega)
      linarith) l hl hlr
  rw [Bool.eq_iff_iff]
  simp only [wideAt, Bool.false_and, Bool.or_false, decide_eq_true_eq]
  unfold Lgrid
  rw [hspec]
  simp only [decide_eq_true_eq]

theorem grid_step (t : List Int) (lodStep : Int) (r : Nat) (h1 : 1 ≤ r) (hr : r < t.length) :
    tAt t r - tAt t (r - 1) = sOfGrid t lodStep (r - 1) := by
  unfold sOfGrid
  have : r - 1 + 1 < t.length := by omega
  simp only [this, if_true]
  have e : r - 1 + 1 = r := by omega
  rw [e]

theorem grid_width_nonneg (t : List Int) (lodStep : Int) (hlod : 0 ≤ lodStep)
    (hmono : ∀ i, i + 1 < t.length → tAt t i ≤ tAt t (i + 1)) (r : Nat) : 0 ≤ sOfGrid t lodStep r := by
  unfold sOfGrid
  split
  · rename_i h; have := hmono r h; linarith
  · exact hlod

/-- every non-decreasing grid (in particular a coarse LOD followed by a finer one) with a positive range satisfies the
    hypotheses of the general cursor theorem for the functions that are not strict, with L = Lgrid: no per-grid check -/
def gridCtx (t : List Int) (w lodStep : Int) (hw : 0 < w) (hlod : 0 ≤ lodStep)
    (hmono : ∀ i, i + 1 < t.length → tAt t i ≤ tAt t (i + 1)) : GCtx where
  t := t
  w := w
  strict := false
  sOf := sOfGrid t lodStep
  L := Lgrid t w lodStep
  hw := hw
  hL := fun r => findL_le _ r
  hwide := fun r l hl hlr hr => grid_wide t w lodStep hmono r l hl hlr hr
  hmono := mono_of_wide_nonstrict t w (sOfGrid t lodStep) (Lgrid t w lodStep) (fun r => findL_le _ r)
    (fun r l hl hlr hr => grid_wide t w lodStep hmono r l hl hlr hr)
    (fun r h1 hr => grid_step t lodStep r h1 hr)
    (fun r _ => grid_width_nonneg t lodStep hlod hmono r)
  hstep := fun r h1 hr => grid_step t lodStep r h1 hr
  hnarrow := by intro r _; rfl

end SH.PromWindowG
