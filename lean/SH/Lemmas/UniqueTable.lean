/-
  SH.Lemmas.UniqueTable — the concrete open-addressing table (SH.Model.UniqueTable) as a multiset of stored values:
  the moves performed by reinsertImpl, rehash (both loops) and resize (both loop variants) permute the non-empty slots,
  rehash drops exactly the values that are not divisible by 2^skipDegree and keeps itemsCount in step.
-/
import SH.Model.UniqueTable
import SH.Lemmas.UniqueTrie
import Mathlib.Data.Finset.Card
import Mathlib.Data.List.Perm.Basic
import Mathlib.Data.Nat.ModEq
namespace SH.C04
open SH.UTable
open SH.Unique (Params good Sk)

def slots (t : Tb) : List Nat := t.buf.toList
def nz (x : Nat) : Bool := x != 0
/-- the values stored in the table (non-empty slots, in slot order) -/
def items (t : Tb) : List Nat := (slots t).filter nz

theorem get_eq (t : Tb) (i : Nat) : get t i = (slots t).getD i 0 := by
  unfold UTable.get slots
  simp [Array.getD_eq_getD_getElem?]

theorem slots_put (t : Tb) (i v : Nat) : slots (put t i v) = (slots t).set i v := by
  simp [slots, put]

theorem getD_set (l : List Nat) (i v j : Nat) : (l.set i v).getD j 0 = if i = j ∧ i < l.length then v else l.getD j 0 := by
  simp [List.getD, List.getElem?_set]
  split <;> split <;> simp_all

theorem get_put (t : Tb) (i v j : Nat) : get (put t i v) j = if i = j ∧ i < (slots t).length then v else get t j := by
  rw [get_eq, slots_put, getD_set, get_eq]

theorem put_fields (t : Tb) (i v : Nat) : (put t i v).cnt = t.cnt ∧ (put t i v).sd = t.sd ∧ (put t i v).k = t.k ∧
    (put t i v).zero = t.zero ∧ (put t i v).alloc = t.alloc ∧ (slots (put t i v)).length = (slots t).length := by
  simp [put, slots]

theorem getD_lt (l : List Nat) (i : Nat) (h : l.getD i 0 ≠ 0) : i < l.length := by
  by_contra hc
  simp [List.getD, List.getElem?_eq_none (by omega : l.length ≤ i)] at h

/-- emptying a non-empty slot removes exactly its value -/
theorem set_zero_perm : ∀ (l : List Nat) (i : Nat), l.getD i 0 ≠ 0 → (l.filter nz).Perm (l.getD i 0 :: (l.set i 0).filter nz) := by
  intro l
  induction l with
  | nil => intro i h; simp [List.getD] at h
  | cons a l ih =>
    intro i h
    cases i with
    | zero =>
      simp only [List.getD_cons_zero] at h ⊢
      have hn : (a != 0) = true := by simpa using h
      simp [List.set, List.filter, nz, hn]
    | succ i =>
      simp only [List.getD_cons_succ] at h ⊢
      simp only [List.set, List.filter]
      cases hz : nz a
      · simpa using ih i h
      · simp only
        exact ((ih i h).cons a).trans (List.Perm.swap _ _ _)

/-- filling an empty slot adds exactly the new value -/
theorem set_fill_perm : ∀ (l : List Nat) (i b : Nat), i < l.length → l.getD i 0 = 0 → b ≠ 0 →
    ((l.set i b).filter nz).Perm (b :: l.filter nz) := by
  intro l
  induction l with
  | nil => intro i b h; simp at h
  | cons a l ih =>
    intro i b hi h hb
    cases i with
    | zero =>
      simp only [List.getD_cons_zero] at h
      subst h
      have hn : (b != 0) = true := by simpa using hb
      simp [List.set, List.filter, nz, hn]
    | succ i =>
      simp only [List.getD_cons_succ] at h
      simp only [List.set, List.filter]
      cases hz : nz a
      · simpa using ih i b (by simpa using hi) h hb
      · simp only
        exact ((ih i b (by simpa using hi) h hb).cons a).trans (List.Perm.swap _ _ _)

/-! ### probing -/

theorem size_pos (t : Tb) : 0 < size t := Nat.two_pow_pos _
theorem place_lt (P : Params) (t : Tb) (x : Nat) : place P t x < size t := Nat.mod_lt _ (size_pos t)
theorem next_lt (t : Tb) (p : Nat) : next t p < size t := Nat.mod_lt _ (size_pos t)

theorem step_mod (n p d : Nat) : ((p + 1) % n + d) % n = (p + (d + 1)) % n := by
  rw [Nat.add_mod, Nat.mod_mod, ← Nat.add_mod]; congr 1; omega

/-- a successful probe ends on `x` or on an empty slot, after passing only other values -/
theorem probe_some (t : Tb) (x : Nat) : ∀ (f p q : Nat), p < size t → probe t x f p = some q →
    ∃ d < f, q = (p + d) % size t ∧ (get t q = x ∨ get t q = 0) ∧
      ∀ e < d, get t ((p + e) % size t) ≠ x ∧ get t ((p + e) % size t) ≠ 0 := by
  intro f
  induction f with
  | zero => intro p q _ h; simp [probe] at h
  | succ f ih =>
    intro p q hp h
    simp only [probe] at h
    split at h
    · rename_i hh
      simp at h; subst h
      exact ⟨0, by omega, by simp [Nat.mod_eq_of_lt hp], hh, by intro e he; omega⟩
    · rename_i hh
      obtain ⟨d, hd, hq, hv, hpre⟩ := ih (next t p) q (next_lt t p) h
      refine ⟨d + 1, by omega, ?_, hv, ?_⟩
      · rw [hq]; have e1 : next t p = (p + 1) % size t := rfl
        rw [e1]; exact step_mod _ _ _
      · intro e he
        cases e with
        | zero =>
          simp only [Nat.add_zero, Nat.mod_eq_of_lt hp]
          exact ⟨fun c => hh (Or.inl c), fun c => hh (Or.inr c)⟩
        | succ e =>
          have := hpre e (by omega)
          have e1 : next t p = (p + 1) % size t := rfl
          rw [e1, step_mod] at this
          exact this

theorem probe_none (t : Tb) (x : Nat) : ∀ (f p : Nat), p < size t → probe t x f p = none →
    ∀ e < f, get t ((p + e) % size t) ≠ x ∧ get t ((p + e) % size t) ≠ 0 := by
  intro f
  induction f with
  | zero => intro p _ _ e he; omega
  | succ f ih =>
    intro p hp h e he
    simp only [probe] at h
    split at h
    · simp at h
    · rename_i hh
      cases e with
      | zero =>
        simp only [Nat.add_zero, Nat.mod_eq_of_lt hp]
        exact ⟨fun c => hh (Or.inl c), fun c => hh (Or.inr c)⟩
      | succ e =>
        have := ih (next t p) (next_lt t p) h e (by omega)
        have e1 : next t p = (p + 1) % size t := rfl
        rw [e1, step_mod] at this
        exact this

/-- every slot is met within `size` probe steps (wrap-around) -/
theorem cover (n p j : Nat) (hp : p < n) (hj : j < n) : ∃ e < n, (p + e) % n = j := by
  by_cases h : p ≤ j
  · exact ⟨j - p, by omega, by rw [show p + (j - p) = j by omega]; exact Nat.mod_eq_of_lt hj⟩
  · refine ⟨j + n - p, by omega, ?_⟩
    rw [show p + (j + n - p) = j + n by omega, Nat.add_mod_right]; exact Nat.mod_eq_of_lt hj

/-- a probe for an empty slot succeeds as soon as the table has one -/
theorem probe_free (t : Tb) (p j : Nat) (hp : p < size t) (hj : j < size t) (h0 : get t j = 0) :
    ∃ q, probe t 0 (size t) p = some q ∧ q < size t ∧ get t q = 0 := by
  cases hpr : probe t 0 (size t) p with
  | none =>
    obtain ⟨e, he, hej⟩ := cover (size t) p j hp hj
    have := (probe_none t 0 _ p hp hpr e he).2
    rw [hej] at this; exact absurd h0 this
  | some q =>
    obtain ⟨d, _, hq, hv, _⟩ := probe_some t 0 _ p q hp hpr
    exact ⟨q, rfl, by rw [hq]; exact Nat.mod_lt _ (size_pos t), by rcases hv with h | h <;> exact h⟩

/-! ### the moves keep the multiset of stored values -/

/-- table shape: as many slots as sizeDegree says -/
def Shape (t : Tb) : Prop := (slots t).length = size t

theorem items_put_zero (t : Tb) (i : Nat) (h : get t i ≠ 0) : (items t).Perm (get t i :: items (put t i 0)) := by
  unfold items; rw [slots_put, get_eq] at *; exact set_zero_perm _ _ h

theorem items_put_fill (t : Tb) (q b : Nat) (hq : q < (slots t).length) (h : get t q = 0) (hb : b ≠ 0) :
    (items (put t q b)).Perm (b :: items t) := by
  unfold items; rw [slots_put]; rw [get_eq] at h; exact set_fill_perm _ _ _ hq h hb

/-- reinsertImpl stores `x` in a free slot when there is one -/
theorem reinsert_items (P : Params) (t : Tb) (x j : Nat) (hs : Shape t) (hj : j < size t) (h0 : get t j = 0) (hx : x ≠ 0) :
    (items (reinsertImpl P t x)).Perm (x :: items t) ∧ Shape (reinsertImpl P t x) ∧
    (reinsertImpl P t x).cnt = t.cnt ∧ (reinsertImpl P t x).sd = t.sd ∧ (reinsertImpl P t x).k = t.k ∧
    (reinsertImpl P t x).zero = t.zero ∧ (reinsertImpl P t x).alloc = t.alloc ∧
    ∃ q < size t, get t q = 0 ∧ reinsertImpl P t x = put t q x := by
  obtain ⟨q, hq, hlt, hz⟩ := probe_free t (place P t x) j (place_lt P t x) hj h0
  unfold reinsertImpl
  rw [hq]
  have pf := put_fields t q x
  refine ⟨items_put_fill t q x (by rw [hs]; exact hlt) hz hx, ?_, pf.1, pf.2.1, pf.2.2.1, pf.2.2.2.1, pf.2.2.2.2.1, q, hlt, hz, rfl⟩
  unfold Shape size; rw [pf.2.2.2.2.2, pf.2.1]; exact hs

/-- "fields other than the slots" bundle -/
def SameHdr (a b : Tb) : Prop := a.sd = b.sd ∧ a.k = b.k ∧ a.zero = b.zero ∧ a.alloc = b.alloc

theorem good_zero (k : Nat) : good k 0 = true := by simp [good]

/-- itemsCount = occupied slots (+1 for the zero item) -/
def CntOk (t : Tb) : Prop := t.cnt = (items t).length + (if t.zero then 1 else 0)


theorem get_put_self (t : Tb) (i v : Nat) (hi : i < (slots t).length) : get (put t i v) i = v := by
  rw [get_put, if_pos ⟨rfl, hi⟩]

theorem get_put_ne (t : Tb) (i v j : Nat) (h : j ≠ i) : get (put t i v) j = get t j := by
  rw [get_put, if_neg (fun c => h c.1.symm)]

theorem size_congr {a b : Tb} (h : a.sd = b.sd) : size a = size b := by unfold size; rw [h]

theorem rehashStep_zero (P : Params) (t : Tb) (i : Nat) (h : get t i = 0) : rehashStep P t i = t := by
  simp [rehashStep, h]
theorem rehashStep_bad (P : Params) (t : Tb) (i : Nat) (h : get t i ≠ 0) (hg : good t.k (get t i) = false) :
    rehashStep P t i = { put t i 0 with cnt := t.cnt - 1 } := by
  simp [rehashStep, h, hg]
theorem rehashStep_move (P : Params) (t : Tb) (i : Nat) (h : get t i ≠ 0) (hg : good t.k (get t i) = true)
    (hp : i ≠ place P t (get t i)) : rehashStep P t i = reinsertImpl P (put t i 0) (get t i) := by
  simp [rehashStep, h, hg, hp]
theorem rehashStep_stay (P : Params) (t : Tb) (i : Nat) (h : get t i ≠ 0) (hg : good t.k (get t i) = true)
    (hp : i = place P t (get t i)) : rehashStep P t i = t := by
  simp only [rehashStep, h, hg, if_false, Bool.not_true, Bool.false_eq_true]
  rw [if_neg (by simpa using hp)]

theorem rehashLoop2_zero (P : Params) (f i : Nat) (t : Tb) (h : get t i = 0) : rehashLoop2 P (f + 1) i t = t := by
  simp [rehashLoop2, h]
theorem rehashLoop2_move (P : Params) (f i : Nat) (t : Tb) (h : get t i ≠ 0) (hp : i ≠ place P t (get t i)) :
    rehashLoop2 P (f + 1) i t = rehashLoop2 P f (i + 1) (reinsertImpl P (put t i 0) (get t i)) := by
  simp [rehashLoop2, h, hp]
theorem rehashLoop2_stay (P : Params) (f i : Nat) (t : Tb) (h : get t i ≠ 0) (hp : i = place P t (get t i)) :
    rehashLoop2 P (f + 1) i t = rehashLoop2 P f (i + 1) t := by
  simp only [rehashLoop2, h, if_false]
  rw [if_neg (by simpa using hp)]

/-! ### rehash -/

/-- one step of the first rehash loop -/
theorem rehashStep_spec (P : Params) (t : Tb) (i : Nat) (hs : Shape t) (hi : i < size t) (hc : CntOk t)
    (hpre : ∀ j < i, good t.k (get t j) = true) :
    Shape (rehashStep P t i) ∧ SameHdr (rehashStep P t i) t ∧ CntOk (rehashStep P t i) ∧
    ((items (rehashStep P t i)).filter (good t.k)).Perm ((items t).filter (good t.k)) ∧
    (∀ j < i + 1, good t.k (get (rehashStep P t i) j) = true) := by
  have hl : (slots t).length = size t := hs
  by_cases h0 : get t i = 0
  · rw [rehashStep_zero P t i h0]
    refine ⟨hs, ⟨rfl, rfl, rfl, rfl⟩, hc, List.Perm.refl _, ?_⟩
    intro j hj
    by_cases hji : j = i
    · subst hji; rw [h0]; exact good_zero _
    · exact hpre j (by omega)
  · have pf := put_fields t i 0
    have hshape : Shape (put t i 0) := by unfold Shape; rw [pf.2.2.2.2.2, size_congr pf.2.1]; exact hs
    have hperm := items_put_zero t i h0
    have hgi : get (put t i 0) i = 0 := get_put_self t i 0 (by rw [hl]; exact hi)
    by_cases hg : good t.k (get t i) = true
    · by_cases hpl : i ≠ place P t (get t i)
      · rw [rehashStep_move P t i h0 hg hpl]
        have hsz : size (put t i 0) = size t := size_congr pf.2.1
        obtain ⟨rp, rs, rc, rsd, rk, rz, ra, q, hq, hq0, req⟩ :=
          reinsert_items P (put t i 0) (get t i) i hshape (by rw [hsz]; exact hi) hgi h0
        have hitems : (items (reinsertImpl P (put t i 0) (get t i))).Perm (items t) := rp.trans hperm.symm
        refine ⟨rs, ⟨by rw [rsd, pf.2.1], by rw [rk, pf.2.2.1], by rw [rz, pf.2.2.2.1], by rw [ra, pf.2.2.2.2.1]⟩, ?_, ?_, ?_⟩
        · unfold CntOk; rw [rc, pf.1, rz, pf.2.2.2.1, hitems.length_eq]; exact hc
        · exact hitems.filter _
        · intro j hj
          rw [req]
          by_cases hjq : j = q
          · subst hjq; rw [get_put_self _ _ _ (by rw [pf.2.2.2.2.2, hl, ← hsz]; exact hq)]; exact hg
          · rw [get_put_ne _ _ _ _ hjq]
            by_cases hji : j = i
            · subst hji; rw [hgi]; exact good_zero _
            · rw [get_put_ne _ _ _ _ hji]; exact hpre j (by omega)
      · have hpl' : i = place P t (get t i) := by simpa using hpl
        rw [rehashStep_stay P t i h0 hg hpl']
        refine ⟨hs, ⟨rfl, rfl, rfl, rfl⟩, hc, List.Perm.refl _, ?_⟩
        intro j hj
        by_cases hji : j = i
        · subst hji; exact hg
        · exact hpre j (by omega)
    · -- the value is not divisible by 2^skipDegree: dropped, itemsCount--
      have hg' : good t.k (get t i) = false := by simpa using hg
      rw [rehashStep_bad P t i h0 hg']
      refine ⟨?_, ⟨pf.2.1, pf.2.2.1, pf.2.2.2.1, pf.2.2.2.2.1⟩, ?_, ?_, ?_⟩
      · exact hshape
      · unfold CntOk at *
        have hl2 := hperm.length_eq
        simp only [List.length_cons] at hl2
        show t.cnt - 1 = (items (put t i 0)).length + (if (put t i 0).zero = true then 1 else 0)
        rw [pf.2.2.2.1]; omega
      · have := hperm.filter (good t.k)
        simp only [List.filter_cons, hg'] at this
        exact this.symm
      · intro j hj
        show good t.k (get (put t i 0) j) = true
        by_cases hji : j = i
        · subst hji; rw [hgi]; exact good_zero _
        · rw [get_put_ne _ _ _ _ hji]; exact hpre j (by omega)

theorem rehashLoop1_spec (P : Params) : ∀ (f i : Nat) (t : Tb), Shape t → CntOk t → i + f = size t →
    (∀ j < i, good t.k (get t j) = true) →
    Shape (rehashLoop1 P f i t) ∧ SameHdr (rehashLoop1 P f i t) t ∧ CntOk (rehashLoop1 P f i t) ∧
    ((items (rehashLoop1 P f i t)).filter (good t.k)).Perm ((items t).filter (good t.k)) ∧
    (∀ j < size t, good t.k (get (rehashLoop1 P f i t) j) = true) := by
  intro f
  induction f with
  | zero =>
    intro i t hs hc hf hpre
    simp only [rehashLoop1]
    exact ⟨hs, ⟨rfl, rfl, rfl, rfl⟩, hc, List.Perm.refl _, fun j hj => hpre j (by omega)⟩
  | succ f ih =>
    intro i t hs hc hf hpre
    simp only [rehashLoop1]
    obtain ⟨s1, h1, c1, p1, g1⟩ := rehashStep_spec P t i hs (by omega) hc hpre
    have hk : (rehashStep P t i).k = t.k := h1.2.1
    have hsz : size (rehashStep P t i) = size t := size_congr h1.1
    obtain ⟨s2, h2, c2, p2, g2⟩ := ih (i + 1) (rehashStep P t i) s1 c1 (by rw [hsz]; omega) (by rw [hk]; exact g1)
    rw [hk] at p2 g2
    rw [hsz] at g2
    exact ⟨s2, ⟨h2.1.trans h1.1, h2.2.1.trans h1.2.1, h2.2.2.1.trans h1.2.2.1, h2.2.2.2.trans h1.2.2.2⟩, c2, p2.trans p1, g2⟩

/-- the second loop ("process the first collision resolution chain once again") only moves values -/
theorem rehashLoop2_spec (P : Params) : ∀ (f i : Nat) (t : Tb), Shape t → CntOk t →
    Shape (rehashLoop2 P f i t) ∧ SameHdr (rehashLoop2 P f i t) t ∧ CntOk (rehashLoop2 P f i t) ∧
    (items (rehashLoop2 P f i t)).Perm (items t) := by
  intro f
  induction f with
  | zero => intro i t hs hc; simp only [rehashLoop2]; exact ⟨hs, ⟨rfl, rfl, rfl, rfl⟩, hc, List.Perm.refl _⟩
  | succ f ih =>
    intro i t hs hc
    have hl : (slots t).length = size t := hs
    by_cases h0 : get t i = 0
    · rw [rehashLoop2_zero P f i t h0]; exact ⟨hs, ⟨rfl, rfl, rfl, rfl⟩, hc, List.Perm.refl _⟩
    · by_cases hpl : i ≠ place P t (get t i)
      · rw [rehashLoop2_move P f i t h0 hpl]
        have pf := put_fields t i 0
        have hi : i < size t := by
          have := getD_lt (slots t) i (by rw [← get_eq]; exact h0)
          rw [hl] at this; exact this
        have hshape : Shape (put t i 0) := by unfold Shape; rw [pf.2.2.2.2.2, size_congr pf.2.1]; exact hs
        have hperm := items_put_zero t i h0
        have hgi : get (put t i 0) i = 0 := get_put_self t i 0 (by rw [hl]; exact hi)
        have hsz : size (put t i 0) = size t := size_congr pf.2.1
        obtain ⟨rp, rs, rc, rsd, rk, rz, ra, _⟩ :=
          reinsert_items P (put t i 0) (get t i) i hshape (by rw [hsz]; exact hi) hgi h0
        have hitems : (items (reinsertImpl P (put t i 0) (get t i))).Perm (items t) := rp.trans hperm.symm
        have hc' : CntOk (reinsertImpl P (put t i 0) (get t i)) := by
          unfold CntOk; rw [rc, pf.1, rz, pf.2.2.2.1, hitems.length_eq]; exact hc
        obtain ⟨s2, h2, c2, p2⟩ := ih (i + 1) _ rs hc'
        exact ⟨s2, ⟨h2.1.trans (rsd.trans pf.2.1), h2.2.1.trans (rk.trans pf.2.2.1), h2.2.2.1.trans (rz.trans pf.2.2.2.1),
                h2.2.2.2.trans (ra.trans pf.2.2.2.2.1)⟩, c2, p2.trans hitems⟩
      · have hpl' : i = place P t (get t i) := by simpa using hpl
        rw [rehashLoop2_stay P f i t h0 hpl']
        exact ih (i + 1) t hs hc

/-- rehash keeps exactly the stored values divisible by 2^skipDegree (as a multiset) and itemsCount follows -/
theorem rehash_items (P : Params) (t : Tb) (hs : Shape t) (hc : CntOk t) :
    Shape (rehash P t) ∧ SameHdr (rehash P t) t ∧ CntOk (rehash P t) ∧
    (items (rehash P t)).Perm ((items t).filter (good t.k)) := by
  unfold rehash
  obtain ⟨s1, h1, c1, p1, g1⟩ := rehashLoop1_spec P (size t) 0 t hs hc (by omega) (by intro j hj; omega)
  have hsz : size (rehashLoop1 P (size t) 0 t) = size t := size_congr h1.1
  obtain ⟨s2, h2, c2, p2⟩ := rehashLoop2_spec P (size t) 0 _ s1 c1
  refine ⟨s2, ⟨h2.1.trans h1.1, h2.2.1.trans h1.2.1, h2.2.2.1.trans h1.2.2.1, h2.2.2.2.trans h1.2.2.2⟩, c2, ?_⟩
  have hall : (items (rehashLoop1 P (size t) 0 t)).filter (good t.k) = items (rehashLoop1 P (size t) 0 t) := by
    rw [List.filter_eq_self]
    intro a ha
    unfold items at ha
    have ha' := (List.mem_filter.mp ha).1
    obtain ⟨n, hn, hget⟩ := List.mem_iff_getElem.mp ha'
    have := g1 n (by rw [← hsz, ← s1]; exact hn)
    rw [get_eq] at this
    simpa [List.getD, List.getElem?_eq_getElem hn, hget] using this
  rw [hall] at p1
  exact p2.trans p1


/-! ### resize -/

theorem resizeStep_spec (P : Params) (t : Tb) (i : Nat) (hs : Shape t) (hc : CntOk t) :
    Shape (resizeStep P t i) ∧ SameHdr (resizeStep P t i) t ∧ CntOk (resizeStep P t i) ∧
    (items (resizeStep P t i)).Perm (items t) := by
  have hl : (slots t).length = size t := hs
  have triv : Shape t ∧ SameHdr t t ∧ CntOk t ∧ (items t).Perm (items t) := ⟨hs, ⟨rfl, rfl, rfl, rfl⟩, hc, List.Perm.refl _⟩
  unfold resizeStep
  simp only
  split
  · exact triv
  · rename_i h0
    split
    · exact triv
    · rename_i hpl
      split
      · exact triv
      · rename_i q hq
        split
        · exact triv
        · rename_i hne
          -- move the value from slot i to the free slot q
          obtain ⟨d, _, hqd, hv, _⟩ := probe_some t (get t i) _ _ q (place_lt P t _) hq
          have hq0 : get t q = 0 := by rcases hv with h | h; exact absurd h hne; exact h
          have hqlt : q < size t := by rw [hqd]; exact Nat.mod_lt _ (size_pos t)
          have hqi : q ≠ i := by intro c; rw [c] at hq0; exact h0 hq0
          have pf1 := put_fields t q (get t i)
          have pf2 := put_fields (put t q (get t i)) i 0
          have hfill := items_put_fill t q (get t i) (by rw [hl]; exact hqlt) hq0 h0
          have hgi : get (put t q (get t i)) i = get t i := get_put_ne _ _ _ _ (fun c => hqi c.symm)
          have hzero := items_put_zero (put t q (get t i)) i (by rw [hgi]; exact h0)
          rw [hgi] at hzero
          have hperm : (items (put (put t q (get t i)) i 0)).Perm (items t) :=
            (List.Perm.cons_inv (hzero.symm.trans hfill))
          refine ⟨?_, ⟨pf2.2.1.trans pf1.2.1, pf2.2.2.1.trans pf1.2.2.1, pf2.2.2.2.1.trans pf1.2.2.2.1,
                  pf2.2.2.2.2.1.trans pf1.2.2.2.2.1⟩, ?_, hperm⟩
          · unfold Shape; rw [pf2.2.2.2.2.2, pf1.2.2.2.2.2, size_congr (pf2.2.1.trans pf1.2.1)]; exact hs
          · unfold CntOk; rw [pf2.1, pf1.1, pf2.2.2.2.1, pf1.2.2.2.1, hperm.length_eq]; exact hc

/-- the relocation loop of resize, whichever way it is bounded, only moves values -/
theorem resizeLoop_spec (v : ResizeV) (P : Params) (old : Nat) : ∀ (f i : Nat) (t : Tb), Shape t → CntOk t →
    Shape (resizeLoop v P old f i t) ∧ SameHdr (resizeLoop v P old f i t) t ∧ CntOk (resizeLoop v P old f i t) ∧
    (items (resizeLoop v P old f i t)).Perm (items t) := by
  intro f
  induction f with
  | zero => intro i t hs hc; simp only [resizeLoop]; exact ⟨hs, ⟨rfl, rfl, rfl, rfl⟩, hc, List.Perm.refl _⟩
  | succ f ih =>
    intro i t hs hc
    simp only [resizeLoop]
    split
    · obtain ⟨s1, h1, c1, p1⟩ := resizeStep_spec P t i hs hc
      obtain ⟨s2, h2, c2, p2⟩ := ih (i + 1) _ s1 c1
      exact ⟨s2, ⟨h2.1.trans h1.1, h2.2.1.trans h1.2.1, h2.2.2.1.trans h1.2.2.1, h2.2.2.2.trans h1.2.2.2⟩, c2, p2.trans p1⟩
    · exact ⟨hs, ⟨rfl, rfl, rfl, rfl⟩, hc, List.Perm.refl _⟩

theorem filter_append_replicate_zero (l : List Nat) (n : Nat) : (l ++ List.replicate n 0).filter nz = l.filter nz := by
  rw [List.filter_append]
  have : (List.replicate n 0).filter nz = [] := by
    rw [List.filter_eq_nil_iff]; intro a ha; rw [List.eq_of_mem_replicate ha]; simp [nz]
  rw [this, List.append_nil]

/-- resize(newSizeDegree) keeps the stored values (as a multiset) and itemsCount; only sizeDegree changes -/
theorem resize_items (v : ResizeV) (P : Params) (t : Tb) (newSd : Nat) (hs : Shape t) (hc : CntOk t) (hge : t.sd ≤ newSd) :
    Shape (resize v P t newSd) ∧ CntOk (resize v P t newSd) ∧ (items (resize v P t newSd)).Perm (items t) ∧
    (resize v P t newSd).sd = newSd ∧ (resize v P t newSd).k = t.k ∧ (resize v P t newSd).zero = t.zero ∧
    (resize v P t newSd).cnt = t.cnt ∧ (resize v P t newSd).alloc = t.alloc := by
  have hl : (slots t).length = 2 ^ t.sd := hs
  have hbs : t.buf.size = 2 ^ t.sd := by simpa [slots] using hl
  have hpow : 2 ^ t.sd ≤ 2 ^ newSd := Nat.pow_le_pow_right (by omega) hge
  let t1 : Tb := { t with sd := newSd, buf := t.buf ++ Array.replicate (2 ^ newSd - t.buf.size) 0 }
  have hslots : slots t1 = slots t ++ List.replicate (2 ^ newSd - t.buf.size) 0 := by simp [slots, t1]
  have hs1 : Shape t1 := by
    unfold Shape size; rw [hslots, List.length_append, List.length_replicate, hl, hbs]; show _ = 2 ^ newSd; omega
  have hitems : items t1 = items t := by unfold items; rw [hslots]; exact filter_append_replicate_zero _ _
  have hc1 : CntOk t1 := by unfold CntOk; rw [hitems]; exact hc
  obtain ⟨s2, h2, c2, p2⟩ := resizeLoop_spec v P (size t) (2 ^ newSd) 0 t1 hs1 hc1
  have hcnt : (resize v P t newSd).cnt = t.cnt := by
    have a := c2; have b := hc
    unfold CntOk at a b
    show (resizeLoop v P (size t) (2 ^ newSd) 0 t1).cnt = t.cnt
    rw [a, b, h2.2.2.1, p2.length_eq, hitems]
  exact ⟨s2, c2, by rw [← hitems]; exact p2, h2.1, h2.2.1, h2.2.2.1, hcnt, h2.2.2.2⟩


/-! ### well-formed tables: lookups and insertImpl -/

theorem mod_inj (n p d d' : Nat) (hd : d < n) (hd' : d' < n) (h : (p + d) % n = (p + d') % n) : d = d' := by
  have h1 : p + d ≡ p + d' [MOD n] := h
  have h2 : d ≡ d' [MOD n] := Nat.ModEq.add_left_cancel' p h1
  exact Nat.ModEq.eq_of_lt_of_lt h2 hd hd'

/-- number of probe steps from slot `p` to slot `i` (with wrap-around) -/
def cdist (n p i : Nat) : Nat := (i + n - p) % n

theorem cdist_spec (n p i : Nat) (hp : p < n) (hi : i < n) : cdist n p i < n ∧ (p + cdist n p i) % n = i := by
  unfold cdist
  by_cases h : p ≤ i
  · have e : (i + n - p) % n = i - p := by
      rw [show i + n - p = (i - p) + n by omega, Nat.add_mod_right]; exact Nat.mod_eq_of_lt (by omega)
    rw [e]; exact ⟨by omega, by rw [show p + (i - p) = i by omega]; exact Nat.mod_eq_of_lt hi⟩
  · have e : (i + n - p) % n = i + n - p := Nat.mod_eq_of_lt (by omega)
    rw [e]; exact ⟨by omega, by rw [show p + (i + n - p) = i + n by omega, Nat.add_mod_right]; exact Nat.mod_eq_of_lt hi⟩

theorem cdist_add (n p d : Nat) (hp : p < n) (hd : d < n) : cdist n p ((p + d) % n) = d := by
  have hn : 0 < n := by omega
  obtain ⟨a, b⟩ := cdist_spec n p ((p + d) % n) hp (Nat.mod_lt _ hn)
  exact mod_inj n p _ _ a hd b

/-- well-formed table: the right number of slots; no value stored twice; every stored value is reachable from its home
    slot without crossing an empty slot; itemsCount = occupied slots (+1 for the zero item) -/
structure WF (P : Params) (t : Tb) : Prop where
  shape : Shape t
  inj : ∀ i j, i < size t → j < size t → get t i ≠ 0 → get t i = get t j → i = j
  reach : ∀ i < size t, get t i ≠ 0 →
    ∀ e < cdist (size t) (place P t (get t i)) i, get t ((place P t (get t i) + e) % size t) ≠ 0
  cnt : CntOk t

/-- in a well-formed table the probe of insertImpl finds every stored value, at its slot -/
theorem lookup_complete (P : Params) (t : Tb) (h : WF P t) (i : Nat) (hi : i < size t) (hx : get t i ≠ 0) :
    probe t (get t i) (size t) (place P t (get t i)) = some i := by
  have hp := place_lt P t (get t i)
  obtain ⟨hdl, hdi⟩ := cdist_spec (size t) _ i hp hi
  cases hpr : probe t (get t i) (size t) (place P t (get t i)) with
  | none =>
    have := (probe_none t _ _ _ hp hpr _ hdl).1
    rw [hdi] at this; exact absurd rfl this
  | some q =>
    obtain ⟨d, hd, hq, hv, hpre⟩ := probe_some t _ _ _ q hp hpr
    have hdd : d = cdist (size t) (place P t (get t i)) i := by
      rcases Nat.lt_trichotomy d (cdist (size t) (place P t (get t i)) i) with hlt | heq | hgt
      · have hne := h.reach i hi hx d hlt
        rw [← hq] at hne
        have hqx : get t q = get t i := by rcases hv with a | a; exact a; exact absurd a hne
        have hqi : q = i := h.inj q i (by rw [hq]; exact Nat.mod_lt _ (size_pos t)) hi hne hqx
        have e2 : (place P t (get t i) + d) % size t =
            (place P t (get t i) + cdist (size t) (place P t (get t i)) i) % size t := by rw [← hq, hdi]; exact hqi
        exact absurd (mod_inj _ _ _ _ hd hdl e2) (by omega)
      · exact heq
      · have := (hpre _ hgt).1
        rw [hdi] at this; exact absurd rfl this
    rw [hq, hdd, hdi]

/-- lookup soundness: what the probe reports as found is stored -/
theorem lookup_sound (t : Tb) (x p q : Nat) (hp : p < size t) (h : probe t x (size t) p = some q) (hx : get t q = x) :
    q < size t ∧ get t q = x := by
  obtain ⟨d, _, hq, _, _⟩ := probe_some t x _ p q hp h
  exact ⟨by rw [hq]; exact Nat.mod_lt _ (size_pos t), hx⟩

/-- insertImpl of a value that is already stored: nothing changes -/
theorem insertImpl_present (P : Params) (t : Tb) (h : WF P t) (i : Nat) (hi : i < size t) (hx : get t i ≠ 0) :
    insertImpl P t (get t i) = t := by
  unfold insertImpl
  rw [if_neg hx, lookup_complete P t h i hi hx]
  simp

/-- insertImpl of a new non-zero value into a well-formed table with a free slot: the value is stored in a free slot,
    itemsCount++, and the table stays well-formed -/
theorem insertImpl_new (P : Params) (t : Tb) (h : WF P t) (x : Nat) (hx : x ≠ 0)
    (hnew : ∀ i < size t, get t i ≠ x) (j : Nat) (hj : j < size t) (hj0 : get t j = 0) :
    WF P (insertImpl P t x) ∧ (items (insertImpl P t x)).Perm (x :: items t) ∧ SameHdr (insertImpl P t x) t ∧
    (insertImpl P t x).cnt = t.cnt + 1 := by
  have hl : (slots t).length = size t := h.shape
  have hp := place_lt P t x
  unfold insertImpl
  rw [if_neg hx]
  cases hpr : probe t x (size t) (place P t x) with
  | none =>
    obtain ⟨e, he, hej⟩ := cover (size t) _ j hp hj
    have := (probe_none t x _ _ hp hpr e he).2
    rw [hej] at this; exact absurd hj0 this
  | some q =>
    obtain ⟨d, hd, hq, hv, hpre⟩ := probe_some t x _ _ q hp hpr
    have hqlt : q < size t := by rw [hq]; exact Nat.mod_lt _ (size_pos t)
    have hq0 : get t q = 0 := by rcases hv with a | a; exact absurd a (hnew q hqlt); exact a
    have hne : get t q ≠ x := by rw [hq0]; exact fun c => hx c.symm
    simp only [hne, if_false]
    have pf := put_fields t q x
    have hsz : size (put t q x) = size t := size_congr pf.2.1
    have hperm := items_put_fill t q x (by rw [hl]; exact hqlt) hq0 hx
    have hqq : get (put t q x) q = x := get_put_self t q x (by rw [hl]; exact hqlt)
    have hplace : ∀ y, place P (put t q x) y = place P t y := by intro y; unfold place; rw [pf.2.1]
    have injP : ∀ a b, a < size (put t q x) → b < size (put t q x) → get (put t q x) a ≠ 0 →
        get (put t q x) a = get (put t q x) b → a = b := by
      intro a b ha hb hna hab
      rw [hsz] at ha hb
      by_cases haq : a = q <;> by_cases hbq : b = q
      · rw [haq, hbq]
      · subst haq; rw [hqq, get_put_ne _ _ _ _ hbq] at hab; exact absurd hab.symm (hnew b hb)
      · subst hbq; rw [hqq, get_put_ne _ _ _ _ haq] at hab; exact absurd hab (hnew a ha)
      · rw [get_put_ne _ _ _ _ haq] at hna hab; rw [get_put_ne _ _ _ _ hbq] at hab
        exact h.inj a b ha hb hna hab
    have reachP : ∀ a < size (put t q x), get (put t q x) a ≠ 0 →
        ∀ e < cdist (size (put t q x)) (place P (put t q x) (get (put t q x) a)) a,
          get (put t q x) ((place P (put t q x) (get (put t q x) a) + e) % size (put t q x)) ≠ 0 := by
      intro a ha hna e he
      rw [hsz] at ha he ⊢
      rw [hplace] at he ⊢
      by_cases haq : a = q
      · subst haq
        rw [hqq] at he ⊢
        rw [hq, cdist_add _ _ _ hp (by omega)] at he
        by_cases hsame : (place P t x + e) % size t = (place P t x + d) % size t
        · exact absurd (mod_inj _ _ _ _ (by omega) (by omega) hsame) (by omega)
        · rw [get_put_ne _ _ _ _ (by rw [hq]; exact hsame)]; exact (hpre e he).2
      · rw [get_put_ne _ _ _ _ haq] at hna he ⊢
        by_cases hsame : (place P t (get t a) + e) % size t = q
        · rw [hsame, hqq]; exact hx
        · rw [get_put_ne _ _ _ _ hsame]; exact h.reach a ha hna e he
    refine ⟨?_, hperm, ⟨pf.2.1, pf.2.2.1, pf.2.2.2.1, pf.2.2.2.2.1⟩, trivial⟩
    exact { shape := by
              show (slots (put t q x)).length = size (put t q x)
              rw [pf.2.2.2.2.2, hsz]; exact h.shape
            inj := fun a b ha hb hna hab => injP a b ha hb hna hab
            reach := fun a ha hna e he => reachP a ha hna e he
            cnt := by
              have := h.cnt; unfold CntOk at this
              show t.cnt + 1 = (items (put t q x)).length + (if (put t q x).zero = true then 1 else 0)
              rw [hperm.length_eq, pf.2.2.2.1, List.length_cons]; omega }


/-! ### the table as a set, and the refinement relation to SH.Model.Unique -/

theorem mem_items (t : Tb) (x : Nat) : x ∈ items t ↔ x ≠ 0 ∧ ∃ i < (slots t).length, get t i = x := by
  unfold items
  rw [List.mem_filter]
  constructor
  · rintro ⟨hm, hz⟩
    obtain ⟨n, hn, hget⟩ := List.mem_iff_getElem.mp hm
    refine ⟨by simpa [nz] using hz, n, hn, ?_⟩
    rw [get_eq]; simp [List.getD, List.getElem?_eq_getElem hn, hget]
  · rintro ⟨hx, i, hi, hget⟩
    refine ⟨?_, by simpa [nz] using hx⟩
    rw [get_eq] at hget
    have : (slots t)[i] = x := by simpa [List.getD, List.getElem?_eq_getElem hi] using hget
    rw [← this]; exact List.getElem_mem hi

theorem nodup_of_inj : ∀ (l : List Nat),
    (∀ i j, i < l.length → j < l.length → l.getD i 0 ≠ 0 → l.getD i 0 = l.getD j 0 → i = j) → (l.filter nz).Nodup := by
  intro l
  induction l with
  | nil => intro _; simp
  | cons a l ih =>
    intro h
    have hl : (l.filter nz).Nodup := by
      apply ih
      intro i j hi hj hn he
      have := h (i + 1) (j + 1) (by simpa using hi) (by simpa using hj) (by simpa using hn) (by simpa using he)
      omega
    simp only [List.filter]
    cases hz : nz a
    · exact hl
    · simp only
      refine List.nodup_cons.mpr ⟨?_, hl⟩
      intro hm
      obtain ⟨n, hn, hget⟩ := List.mem_iff_getElem.mp (List.mem_filter.mp hm).1
      have ha : a ≠ 0 := by simpa [nz] using hz
      have := h 0 (n + 1) (by simp) (by simpa using hn) (by simpa using ha)
        (by simp [List.getD, List.getElem?_eq_getElem hn, hget])
      omega

theorem wf_nodup (P : Params) (t : Tb) (h : WF P t) : (items t).Nodup := by
  apply nodup_of_inj
  intro i j hi hj hn he
  have hl : (slots t).length = size t := h.shape
  rw [← get_eq] at hn he
  rw [← get_eq] at he
  exact h.inj i j (by rw [← hl]; exact hi) (by rw [← hl]; exact hj) hn he

/-- the set of values the table stands for -/
def tvals (t : Tb) : Finset ℕ := (items t).toFinset ∪ (if t.zero then {0} else ∅)

theorem zero_not_mem_items (t : Tb) : 0 ∉ items t := by
  intro h; exact ((mem_items t 0).mp h).1 rfl

theorem card_tvals (t : Tb) (hn : (items t).Nodup) : (tvals t).card = (items t).length + (if t.zero then 1 else 0) := by
  unfold tvals
  have h0 : (0 : ℕ) ∉ (items t).toFinset := by rw [List.mem_toFinset]; exact zero_not_mem_items t
  split
  · rw [Finset.card_union_of_disjoint (by simpa using h0), List.toFinset_card_of_nodup hn]; simp
  · simp [List.toFinset_card_of_nodup hn]

/-- `s` (set model) is the abstraction of the table `t` -/
structure Refines (P : Params) (t : Tb) (s : Sk) : Prop where
  alloc : s.alloc = t.alloc
  k : s.k = t.k
  sd : s.sd = t.sd
  cnt : s.cnt = t.cnt
  vals : keys P.bits s.items = tvals t
  bound : ∀ x ∈ tvals t, x < 2 ^ P.bits

theorem has_iff_tvals (P : Params) (t : Tb) (s : Sk) (r : Refines P t s) (x : Nat) (hx : x < 2 ^ P.bits) :
    Unique.has P s x = true ↔ x ∈ tvals t := by
  unfold Unique.has; rw [mem_iff _ _ _ hx, r.vals]

/-- insertImpl commutes with the abstraction and keeps the table well-formed (needs one free slot) -/
theorem insertImpl_refines (P : Params) (t : Tb) (s : Sk) (w : WF P t) (r : Refines P t s) (x : Nat) (hx : x < 2 ^ P.bits)
    (j : Nat) (hj : j < size t) (hj0 : get t j = 0) :
    WF P (UTable.insertImpl P t x) ∧ Refines P (UTable.insertImpl P t x) (Unique.insertImpl P s x) := by
  have hl : (slots t).length = size t := w.shape
  by_cases hx0 : x = 0
  · subst hx0
    have hmem : (0 : ℕ) ∈ tvals t ↔ t.zero = true := by
      unfold tvals
      cases hz : t.zero <;> simp [zero_not_mem_items t]
    unfold UTable.insertImpl Unique.insertImpl
    rw [if_pos rfl]
    by_cases hz : t.zero = true
    · rw [if_pos hz, if_pos ((has_iff_tvals P t s r 0 hx).mpr (hmem.mpr hz))]; exact ⟨w, r⟩
    · rw [if_neg hz, if_neg (fun c => hz (hmem.mp ((has_iff_tvals P t s r 0 hx).mp c)))]
      have hz' : t.zero = false := by simpa using hz
      refine ⟨{ shape := w.shape, inj := w.inj, reach := w.reach, cnt := ?_ }, ?_⟩
      · have := w.cnt; unfold CntOk at this ⊢
        show t.cnt + 1 = (items t).length + 1
        rw [this, hz']; simp
      · refine { alloc := r.alloc, k := r.k, sd := r.sd, cnt := by show s.cnt + 1 = t.cnt + 1; rw [r.cnt], vals := ?_, bound := ?_ }
        · show keys P.bits (s.items.insert P.bits 0) = (items t).toFinset ∪ {0}
          rw [keys_insert _ _ _ hx, r.vals]; unfold tvals; rw [hz']; simp [Finset.union_comm]
        · intro y hy
          have : y ∈ (items t).toFinset ∪ {0} := hy
          rcases Finset.mem_union.mp this with h | h
          · exact r.bound y (by unfold tvals; exact Finset.mem_union_left _ h)
          · rw [Finset.mem_singleton.mp h]; exact hx
  · by_cases hst : x ∈ items t
    · -- already stored: both sides are no-ops
      obtain ⟨_, i, hi, hget⟩ := (mem_items t x).mp hst
      have hin : x ∈ tvals t := by unfold tvals; exact Finset.mem_union_left _ (List.mem_toFinset.mpr hst)
      have e1 : UTable.insertImpl P t x = t := by
        rw [← hget]; exact insertImpl_present P t w i (by rw [← hl]; exact hi) (by rw [hget]; exact hx0)
      have e2 : Unique.insertImpl P s x = s := by
        unfold Unique.insertImpl; rw [if_pos ((has_iff_tvals P t s r x hx).mpr hin)]
      rw [e1, e2]; exact ⟨w, r⟩
    · have hnew : ∀ i < size t, get t i ≠ x := by
        intro i hi hc
        exact hst ((mem_items t x).mpr ⟨hx0, i, by rw [hl]; exact hi, hc⟩)
      obtain ⟨w', hperm, hdr, hcnt⟩ := insertImpl_new P t w x hx0 hnew j hj hj0
      have hnin : x ∉ tvals t := by
        unfold tvals
        intro c
        rcases Finset.mem_union.mp c with h | h
        · exact hst (List.mem_toFinset.mp h)
        · split at h
          · exact hx0 (Finset.mem_singleton.mp h)
          · simp at h
      have e2 : Unique.insertImpl P s x = { s with items := s.items.insert P.bits x, cnt := s.cnt + 1 } := by
        unfold Unique.insertImpl; rw [if_neg (fun c => hnin ((has_iff_tvals P t s r x hx).mp c))]
      have htv : tvals (UTable.insertImpl P t x) = insert x (tvals t) := by
        unfold tvals
        rw [hdr.2.2.1]
        ext y
        simp only [Finset.mem_union, List.mem_toFinset, Finset.mem_insert, hperm.mem_iff, List.mem_cons]
        tauto
      refine ⟨w', ?_⟩
      rw [e2]
      exact { alloc := r.alloc.trans hdr.2.2.2.symm, k := r.k.trans hdr.2.1.symm, sd := r.sd.trans hdr.1.symm,
              cnt := by show s.cnt + 1 = _; rw [hcnt, r.cnt],
              vals := by show keys P.bits (s.items.insert P.bits x) = _; rw [keys_insert _ _ _ hx, r.vals, htv],
              bound := by
                intro y hy; rw [htv] at hy
                rcases Finset.mem_insert.mp hy with h | h
                · rw [h]; exact hx
                · exact r.bound y h }


/-! ### the executable check `wfb` decides `WF` -/

theorem findsAll_iff (P : Params) (t : Tb) :
    findsAll P t = true ↔ ∀ i < size t, get t i ≠ 0 → probe t (get t i) (size t) (place P t (get t i)) = some i := by
  unfold findsAll
  rw [List.all_eq_true]
  constructor
  · intro h i hi hn
    have := h i (List.mem_range.mpr hi)
    simpa [hn] using this
  · intro h i hi
    by_cases hn : get t i = 0
    · simp [hn]
    · simp [hn, h i (List.mem_range.mp hi) hn]

theorem wf_of_finds (P : Params) (t : Tb) (hs : Shape t) (hc : CntOk t)
    (hf : ∀ i < size t, get t i ≠ 0 → probe t (get t i) (size t) (place P t (get t i)) = some i) : WF P t := by
  refine { shape := hs, inj := ?_, reach := ?_, cnt := hc }
  · intro i j hi hj hn he
    have a := hf i hi hn
    have b := hf j hj (by rw [← he]; exact hn)
    rw [← he] at b
    rw [a] at b; exact Option.some.inj b
  · intro i hi hn e he
    obtain ⟨d, hd, hq, _, hpre⟩ := probe_some t _ _ _ i (place_lt P t _) (hf i hi hn)
    have : cdist (size t) (place P t (get t i)) i = d := by
      have h2 := cdist_add (size t) (place P t (get t i)) d (place_lt P t _) hd
      rw [← hq] at h2; exact h2
    rw [this] at he
    exact (hpre e he).2

/-- `wfb` (run by the driver after every op, and by `decide` in the witnesses) is exactly `WF` -/
theorem wfb_iff (P : Params) (t : Tb) (ha : t.alloc = true) : wfb P t = true ↔ WF P t := by
  have hsh : (t.buf.size == size t) = true ↔ Shape t := by
    unfold Shape slots; simp
  have hcn : (t.cnt == occupied t + (if t.zero then 1 else 0)) = true ↔ CntOk t := by
    unfold CntOk occupied items slots nz; simp
  unfold wfb
  simp only [ha, Bool.not_true, Bool.false_eq_true, if_false, Bool.and_eq_true]
  rw [hsh, hcn, findsAll_iff]
  constructor
  · rintro ⟨⟨a, b⟩, c⟩; exact wf_of_finds P t a b c
  · intro w; exact ⟨⟨w.shape, w.cnt⟩, fun i hi hn => lookup_complete P t w i hi hn⟩

/-! ### rehash and resize commute with the abstraction (values, counters) -/

theorem good_iff (k y : Nat) : good k y = true ↔ y % 2 ^ k = 0 := by simp [good]

/-- "set-level invariant": slots as sizeDegree says, itemsCount right, no value stored twice -/
structure Tidy (t : Tb) : Prop where
  shape : Shape t
  cnt : CntOk t
  nodup : (items t).Nodup

theorem wf_tidy (P : Params) (t : Tb) (w : WF P t) : Tidy t := ⟨w.shape, w.cnt, wf_nodup P t w⟩

theorem tidy_cnt (t : Tb) (h : Tidy t) : t.cnt = (tvals t).card := by
  rw [card_tvals t h.nodup]; exact h.cnt

/-- rehash (both loops) after setting skipDegree to `k'`: the table keeps exactly the stored values divisible by 2^k',
    itemsCount follows — the same as SH.Unique.rehash does on the set -/
theorem rehash_refines (P : Params) (t : Tb) (s : Sk) (h : Tidy t) (r : Refines P t s) (k' : Nat) :
    Tidy (UTable.rehash P { t with k := k' }) ∧
    Refines P (UTable.rehash P { t with k := k' }) (Unique.rehash P { s with k := k' }) := by
  obtain ⟨s1, h1, c1, p1⟩ := rehash_items P { t with k := k' } h.shape h.cnt
  have hperm : (items (UTable.rehash P { t with k := k' })).Perm ((items t).filter (good k')) := p1
  have hnd : (items (UTable.rehash P { t with k := k' })).Nodup := hperm.nodup_iff.mpr (h.nodup.filter _)
  have tidy' : Tidy (UTable.rehash P { t with k := k' }) := ⟨s1, c1, hnd⟩
  have hz : (UTable.rehash P { t with k := k' }).zero = t.zero := h1.2.2.1
  have htv : tvals (UTable.rehash P { t with k := k' }) = fil k' (tvals t) := by
    ext y
    unfold tvals
    rw [hz, mem_fil]
    simp only [Finset.mem_union, List.mem_toFinset, hperm.mem_iff, List.mem_filter, good_iff]
    constructor
    · rintro (⟨a, b⟩ | c)
      · exact ⟨Or.inl a, b⟩
      · refine ⟨Or.inr c, ?_⟩
        split at c
        · rw [Finset.mem_singleton.mp c]; simp
        · simp at c
    · rintro ⟨a | c, b⟩
      · exact Or.inl ⟨a, b⟩
      · exact Or.inr c
  have habs : keys P.bits (Unique.rehash P { s with k := k' }).items = fil k' (tvals t) := by
    show keys P.bits (s.items.thin P.bits k') = _
    rw [keys_thin, r.vals]
  refine ⟨tidy', { alloc := r.alloc.trans h1.2.2.2.symm, k := h1.2.1.symm, sd := r.sd.trans h1.1.symm, cnt := ?_,
                   vals := by rw [habs, htv], bound := ?_ }⟩
  · show s.cnt - (s.items.size P.bits - (s.items.thin P.bits k').size P.bits) = _
    rw [tidy_cnt _ tidy', htv, size_eq, size_eq, keys_thin, r.vals, r.cnt, tidy_cnt t h]
    have : (fil k' (tvals t)).card ≤ (tvals t).card := Finset.card_le_card (Finset.filter_subset _ _)
    omega
  · intro y hy; rw [htv] at hy; exact r.bound y ((mem_fil _ _ _).mp hy).1

/-- resize (either loop bound) only moves values: same set, same itemsCount, new sizeDegree -/
theorem resize_refines (v : ResizeV) (P : Params) (t : Tb) (s : Sk) (h : Tidy t) (r : Refines P t s) (n : Nat) (hn : t.sd ≤ n) :
    Tidy (resize v P t n) ∧ Refines P (resize v P t n) { s with sd := n } := by
  obtain ⟨s1, c1, p1, esd, ek, ez, ec, ea⟩ := resize_items v P t n h.shape h.cnt hn
  have htv : tvals (resize v P t n) = tvals t := by
    unfold tvals; rw [ez]; ext y; simp only [Finset.mem_union, List.mem_toFinset, p1.mem_iff]
  exact ⟨⟨s1, c1, p1.nodup_iff.mpr h.nodup⟩,
    { alloc := r.alloc.trans ea.symm, k := r.k.trans ek.symm, sd := esd.symm, cnt := r.cnt.trans ec.symm,
      vals := by rw [htv]; exact r.vals, bound := by intro y hy; rw [htv] at hy; exact r.bound y hy }⟩


/-! ### shrinkIfNeed / insertHash at the level of values -/

theorem thinLoop_refines (P : Params) : ∀ (f : Nat) (t : Tb) (s : Sk), Tidy t → Refines P t s →
    Tidy (UTable.thinLoop P f t) ∧ Refines P (UTable.thinLoop P f t) (Unique.thinLoop P f s) := by
  intro f
  induction f with
  | zero => intro t s h r; exact ⟨h, r⟩
  | succ f ih =>
    intro t s h r
    simp only [UTable.thinLoop, Unique.thinLoop]
    by_cases hov : Unique.limit P < t.cnt
    · have hov' : Unique.overLimit P s = true := by simp [Unique.overLimit, r.cnt, hov]
      rw [if_pos hov, if_pos hov', r.k]
      obtain ⟨h', r'⟩ := rehash_refines P t s h r (t.k + 1)
      exact ih _ _ h' r'
    · have hov' : ¬ (Unique.overLimit P s = true) := by simp [Unique.overLimit, r.cnt, hov]
      rw [if_neg hov, if_neg hov']
      exact ⟨h, r⟩

theorem shrinkIfNeed_refines (v : ResizeV) (P : Params) (t : Tb) (s : Sk) (h : Tidy t) (r : Refines P t s) :
    Tidy (UTable.shrinkIfNeed v P t) ∧ Refines P (UTable.shrinkIfNeed v P t) (Unique.shrinkIfNeed P s) := by
  unfold UTable.shrinkIfNeed Unique.shrinkIfNeed
  by_cases hfit : t.cnt ≤ UTable.maxFill t
  · have hfit' : Unique.fits s = true := by
      simp only [Unique.fits, Unique.maxFill, decide_eq_true_eq, r.cnt, r.sd]; exact hfit
    rw [if_pos hfit, if_pos hfit']; exact ⟨h, r⟩
  · have hfit' : ¬ (Unique.fits s = true) := by
      simp only [Unique.fits, Unique.maxFill, decide_eq_true_eq, r.cnt, r.sd]; exact hfit
    rw [if_neg hfit, if_neg hfit']
    by_cases hov : Unique.limit P < t.cnt
    · have hov' : Unique.overLimit P s = true := by simp [Unique.overLimit, r.cnt, hov]
      rw [if_pos hov, if_pos hov']
      exact thinLoop_refines P _ t s h r
    · have hov' : ¬ (Unique.overLimit P s = true) := by simp [Unique.overLimit, r.cnt, hov]
      rw [if_neg hov, if_neg hov', r.sd]
      exact resize_refines v P t s h r (t.sd + 1) (by omega)

/-- one insertHash step from a well-formed table: the table and the set model agree on the stored values, itemsCount,
    skipDegree and sizeDegree afterwards (for either bound of the resize loop) -/
theorem insertHash_refines_values (v : ResizeV) (P : Params) (t : Tb) (s : Sk) (w : WF P t) (r : Refines P t s) (x : Nat)
    (hx : x < 2 ^ P.bits) (j : Nat) (hj : j < size t) (hj0 : get t j = 0) :
    Tidy (UTable.insertHash v P t x) ∧ Refines P (UTable.insertHash v P t x) (Unique.insertHash P s x) := by
  unfold UTable.insertHash Unique.insertHash
  rw [r.k]
  by_cases hg : good t.k x = true
  · rw [if_pos hg, if_pos hg]
    obtain ⟨w', r'⟩ := insertImpl_refines P t s w r x hx j hj hj0
    exact shrinkIfNeed_refines v P _ _ (wf_tidy P _ w') r'
  · rw [if_neg hg, if_neg hg]
    exact ⟨wf_tidy P t w, r⟩


end SH.C04
