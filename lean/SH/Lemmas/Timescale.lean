/-
  SH.Lemmas.Timescale — helper lemmas for C22 (SH/Props/C22.lean) about SH.Model.Timescale:
  mathDiv/roundTime arithmetic, the point-by-point `walk` view of time generation, and the invariant of the
  LOD-selection loops (`inner`, `outer`, `appendLOD`).
-/
import SH.Model.Timescale
namespace SH.C22
open SH.Timescale SH.Gen.C22

/-! ### mathDiv / roundTime -/
theorem mathDiv_fdiv (a b : Int) (hb : b ≠ 0) : mathDiv a b = Int.fdiv a b := by
  unfold mathDiv sameSign
  rw [Int.fdiv_eq_ediv, Int.tdiv_eq_ediv, Int.tmod_eq_emod]
  by_cases hd : b ∣ a
  · have h0 : a % b = 0 := Int.emod_eq_zero_of_dvd hd
    simp [hd, h0]
  · have h0 : a % b ≠ 0 := fun h => hd (Int.dvd_of_emod_eq_zero h)
    have h1 : 0 ≤ a % b := Int.emod_nonneg a hb
    have h2 : a % b < b.natAbs := by
      have := Int.emod_lt a hb; omega
    rcases Int.lt_or_gt_of_ne hb with hneg | hpos
    · have hs : b.sign = -1 := Int.sign_eq_neg_one_of_neg hneg
      by_cases ha : 0 ≤ a
      · have : ¬ (0 ≤ b) := by omega
        simp [hd, ha, this]; omega
      · have : ¬ (0 ≤ b) := by omega
        simp [hd, ha, this, hs]; omega
    · have hs : b.sign = 1 := Int.sign_eq_one_of_pos hpos
      by_cases ha : 0 ≤ a
      · have : (0 ≤ b) := by omega
        simp [hd, ha, this]
      · have : (0 ≤ b) := by omega
        simp [hd, ha, this, hs]; omega

theorem mathDiv_pos (a b : Int) (hb : 0 < b) : mathDiv a b = a / b := by
  rw [mathDiv_fdiv a b (by omega), Int.fdiv_eq_ediv_of_nonneg a (by omega)]

theorem roundTime_aligned (t step off : Int) (hs : 0 < step) : (roundTime t step off + off) % step = 0 := by
  unfold roundTime
  rw [mathDiv_pos _ _ hs]
  have : (t + off) / step * step - off + off = (t + off) / step * step := by omega
  rw [this]
  exact Int.mul_emod_left _ _

theorem roundTime_bracket (t step off : Int) (hs : 0 < step) :
    roundTime t step off ≤ t ∧ t < roundTime t step off + step := by
  unfold roundTime
  rw [mathDiv_pos _ _ hs]
  have h1 := Int.emod_add_mul_ediv (t + off) step
  have h2 := Int.emod_nonneg (t + off) (by omega : step ≠ 0)
  have h3 := Int.emod_lt_of_pos (t + off) hs
  have h4 : step * ((t + off) / step) = (t + off) / step * step := Int.mul_comm _ _
  omega

/-! ### calendar facts, walk -/
/-- facts about Go's calendar primitives that the proofs use -/
structure CalOK (cal : Cal) : Prop where
  next_gt : ∀ t, t < cal.next t
  som_le : ∀ t, cal.som t ≤ t
  som_idem : ∀ t, cal.som (cal.som t) = cal.som t
  next_aligned : ∀ t, cal.som t = t → cal.som (cal.next t) = cal.next t
  /-- the month containing `t` ends after `t` -/
  next_som_gt : ∀ t, t < cal.next (cal.som t)
  /-- the month before a month start steps forward onto it -/
  next_pred : ∀ t, cal.som t = t → cal.next (cal.som (t - 1)) = t

/-- one step per point -/
def expand (lods : List LOD) : List Int := lods.flatMap (fun l => List.replicate l.len l.step)

/-- point-by-point walk: the list of visited points and the point after the last one -/
def walk (cal : Cal) : List Int → Int → List Int × Int
  | [], t => ([], t)
  | s :: ss, t => (t :: (walk cal ss (stepForward cal t s)).1, (walk cal ss (stepForward cal t s)).2)

theorem walk_append (cal : Cal) (xs ys : List Int) (t : Int) :
    walk cal (xs ++ ys) t = ((walk cal xs t).1 ++ (walk cal ys (walk cal xs t).2).1, (walk cal ys (walk cal xs t).2).2) := by
  induction xs generalizing t with
  | nil => simp [walk]
  | cons x xs ih => simp [walk, ih]

theorem genSeg_eq_walk (cal : Cal) (s : Int) (n : Nat) (t : Int) :
    genSeg cal s n t = walk cal (List.replicate n s) t := by
  induction n generalizing t with
  | zero => simp [genSeg, walk]
  | succ n ih => simp [genSeg, walk, List.replicate_succ, ih]

theorem genTime_eq_walk (cal : Cal) (lods : List LOD) (t : Int) :
    genTime cal lods t = walk cal (expand lods) t := by
  induction lods generalizing t with
  | nil => simp [genTime, expand, walk]
  | cons l ls ih =>
    simp only [genTime, expand, List.flatMap_cons, walk_append, genSeg_eq_walk]
    simp only [expand] at ih
    rw [ih]

theorem walk_length (cal : Cal) (ss : List Int) (t : Int) : (walk cal ss t).1.length = ss.length := by
  induction ss generalizing t with
  | nil => simp [walk]
  | cons s ss ih => simp [walk, ih]

theorem walk_zero (cal : Cal) (s : Int) (ss : List Int) (t : Int) : (walk cal (s :: ss) t).1[0]? = some t := by
  simp [walk]

theorem walk_succ (cal : Cal) (s : Int) (ss : List Int) (t : Int) (i : Nat) :
    (walk cal (s :: ss) t).1[i + 1]? = (walk cal ss (stepForward cal t s)).1[i]? := by
  simp [walk]

/-- consecutive points differ by exactly the step of the earlier point -/
theorem walk_chain (cal : Cal) (ss : List Int) (t : Int) (i : Nat) (x y s : Int)
    (hx : (walk cal ss t).1[i]? = some x) (hy : (walk cal ss t).1[i + 1]? = some y) (hs : ss[i]? = some s) :
    y = stepForward cal x s := by
  induction ss generalizing t i with
  | nil => simp at hs
  | cons s0 ss ih =>
    cases i with
    | zero =>
      simp [walk] at hx hs
      subst hx; subst hs
      rw [walk_succ] at hy
      cases ss with
      | nil => simp [walk] at hy
      | cons s1 ss => simp [walk] at hy; exact hy.symm
    | succ i =>
      rw [walk_succ] at hx hy
      simp at hs
      exact ih _ _ hx hy hs

/-- every step moves forward -/
def Fwd (cal : Cal) (s : Int) : Prop := ∀ t, t < stepForward cal t s

theorem fwd_of_pos (cal : Cal) (s : Int) (h : isMonth s = false) (hp : 0 < s) : Fwd cal s := by
  intro t; simp [stepForward, h]; omega

theorem fwd_month (cal : Cal) (hc : CalOK cal) (s : Int) (h : isMonth s = true) : Fwd cal s := by
  intro t; simp [stepForward, h]; exact hc.next_gt t

theorem walk_bounds (cal : Cal) (ss : List Int) (hf : ∀ s ∈ ss, Fwd cal s) (t : Int) :
    t ≤ (walk cal ss t).2 ∧ ∀ x ∈ (walk cal ss t).1, t ≤ x ∧ x < (walk cal ss t).2 := by
  induction ss generalizing t with
  | nil => simp [walk]
  | cons s ss ih =>
    have h1 := hf s (by simp) t
    have ih' := ih (fun s' hs' => hf s' (by simp [hs'])) (stepForward cal t s)
    simp only [walk]
    refine ⟨by omega, ?_⟩
    intro x hx
    simp at hx
    rcases hx with rfl | hx
    · omega
    · have := ih'.2 x hx; omega

theorem walk_increasing (cal : Cal) (ss : List Int) (hf : ∀ s ∈ ss, Fwd cal s) (t : Int) :
    List.Pairwise (· < ·) (walk cal ss t).1 := by
  induction ss generalizing t with
  | nil => simp [walk]
  | cons s ss ih =>
    simp only [walk, List.pairwise_cons]
    refine ⟨?_, ih (fun s' hs' => hf s' (by simp [hs'])) _⟩
    intro x hx
    have h1 := hf s (by simp) t
    have := (walk_bounds cal ss (fun s' hs' => hf s' (by simp [hs'])) (stepForward cal t s)).2 x hx
    omega

/-- "aligned to its step in the configured time zone": multiples of the step after adding the configured UTC offset;
    for the monthly step: the start of a calendar month of the Location -/
def Aligned (cal : Cal) (off t s : Int) : Prop :=
  if isMonth s = true then cal.som t = t else (t + off) % s = 0

/-- the steps of an axis: all monthly, or all non-monthly, positive and each a divisor of all earlier ones -/
def StepsOK (ss : List Int) : Prop :=
  (∀ s ∈ ss, isMonth s = true) ∨ ((∀ s ∈ ss, isMonth s = false ∧ 0 < s) ∧ List.Pairwise (fun a b => b ∣ a) ss)

theorem stepsOK_tail {s : Int} {ss : List Int} (h : StepsOK (s :: ss)) : StepsOK ss := by
  rcases h with h | ⟨h1, h2⟩
  · exact Or.inl (fun x hx => h x (by simp [hx]))
  · exact Or.inr ⟨fun x hx => h1 x (by simp [hx]), (List.pairwise_cons.mp h2).2⟩

theorem walk_aligned (cal : Cal) (hc : CalOK cal) (off : Int) (ss : List Int) (hs : StepsOK ss) (t : Int)
    (ht : ∀ s ∈ ss, Aligned cal off t s) :
    ∀ (i : Nat) (x s : Int), (walk cal ss t).1[i]? = some x → ss[i]? = some s → Aligned cal off x s := by
  induction ss generalizing t with
  | nil => intro i x s _ h; simp at h
  | cons s0 ss ih =>
    intro i x s hx hsi
    cases i with
    | zero =>
      simp [walk] at hx hsi
      subst hx; subst hsi
      exact ht _ (by simp)
    | succ i =>
      rw [walk_succ] at hx
      simp at hsi
      refine ih (stepsOK_tail hs) (stepForward cal t s0) ?_ i x s hx hsi
      intro s' hs'
      have a0 := ht s0 (by simp)
      have a' := ht s' (by simp [hs'])
      rcases hs with hm | ⟨hn, hp⟩
      · have m0 := hm s0 (by simp)
        have m' := hm s' (by simp [hs'])
        simp only [Aligned, m0, m', stepForward, if_true] at *
        exact hc.next_aligned t a0
      · have m0 := (hn s0 (by simp)).1
        have m' := (hn s' (by simp [hs'])).1
        have hd : s' ∣ s0 := (List.pairwise_cons.mp hp).1 s' hs'
        simp only [Aligned, m0, m', stepForward] at *
        simp only [Bool.false_eq_true, if_false] at *
        have : t + s0 + off = (t + off) + s0 := by omega
        rw [this, Int.add_emod, a', Int.emod_eq_zero_of_dvd hd]; simp

/-! ### the LOD selection loops -/
def allSteps (levels : List (Int × List Int)) : List Int := levels.flatMap (·.2)

/-- invariant of `res.LODs` (reversed: head = most recent): steps from the table, non-empty, strictly finer towards the head -/
def RInv (tbl : List Int) (rlods : List LOD) : Prop :=
  (∀ l ∈ rlods, l.step ∈ tbl ∧ 0 < l.len) ∧ List.Pairwise (fun a b => a.step < b.step) rlods

def headStep : List LOD → Int
  | [] => 0
  | l :: _ => l.step

/-- what the inner loop guarantees about the step it settles on, `p` being the step of the previous LOD (0 if none) -/
def Q (tbl : List Int) (p : Int) (lod : LOD) : Prop :=
  lod.step = p ∨ (lod.step ∈ tbl ∧ (p ≤ 0 ∨ lod.step ≤ p))

theorem Q_accept {tbl : List Int} (hpos : ∀ s ∈ tbl, 0 < s) {p : Int} {lod : LOD} {step : Int} (n : Nat)
    (hq : Q tbl p lod) (hs : step ∈ tbl) (hg : grows lod step = false) : Q tbl p ⟨step, n⟩ := by
  right
  refine ⟨hs, ?_⟩
  simp [grows] at hg
  rcases hq with h | ⟨h1, h2⟩
  · by_cases hp : p ≤ 0
    · exact Or.inl hp
    · right; have := hg (by omega); show step ≤ p; omega
  · rcases h2 with h2 | h2
    · exact Or.inl h2
    · right; have h3 := hpos _ h1; have := hg h3; show step ≤ p; omega

theorem inner_Q (cal : Cal) (a : Args) (first : Bool) (start end_ edge : Int) (resLen : Nat)
    {tbl : List Int} (hpos : ∀ s ∈ tbl, 0 < s) (p : Int) (steps : List Int) (hsub : ∀ s ∈ steps, s ∈ tbl) :
    ∀ (lod : LOD) (lodEnd : Int) (lod' : LOD) (e : Int), Q tbl p lod →
      inner cal a first start end_ edge resLen steps lod lodEnd = .done lod' e → Q tbl p lod' := by
  induction steps with
  | nil => intro lod lodEnd lod' e hq h; simp [inner] at h; rw [← h.1]; exact hq
  | cons step rest ih =>
    intro lod lodEnd lod' e hq h
    have ih' := ih (fun s hs => hsub s (by simp [hs]))
    have hstep : step ∈ tbl := hsub step (by simp)
    unfold inner at h
    by_cases hg : grows lod step = true
    · simp only [hg, if_true] at h; exact ih' _ _ _ _ hq h
    · have hg' : grows lod step = false := by simpa using hg
      simp only [hg', Bool.false_eq_true, if_false] at h
      split at h
      · split at h
        · cases h
        · simp [usePrev] at h
          rcases hq with hq | hq
          · left; rw [← h.1]; exact hq
          · right; rw [← h.1]; exact hq
      · split at h
        · simp [useCur] at h
          rw [← h.1]; exact Q_accept hpos _ hq hstep hg'
        · exact ih' _ _ _ _ (Q_accept hpos _ hq hstep hg') h

theorem appendLOD_inv {tbl : List Int} (hpos : ∀ s ∈ tbl, 0 < s) (rlods : List LOD) (lod' : LOD)
    (hI : RInv tbl rlods) (hq : Q tbl (headStep rlods) lod') (hs : 0 < lod'.step) (hl : 0 < lod'.len) :
    RInv tbl (appendLOD rlods lod') ∧ headStep (appendLOD rlods lod') = lod'.step := by
  cases rlods with
  | nil =>
    simp only [appendLOD, headStep, RInv]
    refine ⟨⟨?_, by simp⟩, trivial⟩
    intro l hl'
    simp at hl'; subst hl'
    rcases hq with hq | hq
    · simp [headStep] at hq; omega
    · exact ⟨hq.1, hl⟩
  | cons l ls =>
    have hlm := hI.1 l (by simp)
    have hlpos := hpos _ hlm.1
    simp only [appendLOD]
    by_cases he : (l.step == lod'.step) = true
    · simp only [he, if_true, headStep]
      have he' : l.step = lod'.step := by simpa using he
      refine ⟨⟨?_, ?_⟩, he'⟩
      · intro x hx
        simp at hx
        rcases hx with rfl | hx
        · exact ⟨hlm.1, by show 0 < l.len + lod'.len; omega⟩
        · exact hI.1 x (by simp [hx])
      · have := hI.2
        simp only [List.pairwise_cons] at this ⊢
        exact this
    · have he' : l.step ≠ lod'.step := by simpa using he
      simp only [he, Bool.false_eq_true, if_false, headStep]
      have hlt : lod'.step < l.step := by
        rcases hq with hq | hq
        · simp [headStep] at hq; omega
        · simp [headStep] at hq; omega
      have hin : lod'.step ∈ tbl := by
        rcases hq with hq | hq
        · simp [headStep] at hq; omega
        · exact hq.1
      refine ⟨⟨?_, ?_⟩, trivial⟩
      · intro x hx
        simp at hx
        rcases hx with rfl | hx
        · exact ⟨hin, hl⟩
        · exact hI.1 x (by simpa using hx)
      · refine List.pairwise_cons.mpr ⟨?_, hI.2⟩
        intro b hb
        simp at hb
        rcases hb with rfl | hb
        · exact hlt
        · have := (List.pairwise_cons.mp hI.2).1 b hb; omega

theorem outer_inv (cal : Cal) (a : Args) (end_ : Int) {tbl : List Int} (hpos : ∀ s ∈ tbl, 0 < s)
    (levels : List (Int × List Int)) (hsub : ∀ sw ∈ levels, ∀ s ∈ sw.2, s ∈ tbl) :
    ∀ (start : Int) (resLen : Nat) (rlods : List LOD) (lod : LOD) (r : List LOD),
      RInv tbl rlods → lod.step = headStep rlods →
      outer cal a end_ levels start resLen rlods lod = .ok r → RInv tbl r := by
  induction levels with
  | nil => intro start resLen rlods lod r hI _ h; simp [outer] at h; rw [← h]; exact hI
  | cons sw rest ih =>
    intro start resLen rlods lod r hI hl h
    have ih' := ih (fun sw' h' => hsub sw' (by simp [h']))
    unfold outer at h
    split at h
    · split at h
      · exact ih' _ _ _ _ _ hI hl h
      · split at h
        · cases h
        · rename_i lod' lodEnd hin
          split at h
          · cases h
          · rename_i hbad
            simp [badLOD] at hbad
            have hq : Q tbl (headStep rlods) lod' := by
              refine inner_Q cal a _ _ _ _ _ hpos _ sw.2 (hsub sw (by simp)) _ _ _ _ ?_ hin
              left; exact hl
            have := appendLOD_inv hpos rlods lod' hI hq (by omega) (by omega)
            exact ih' _ _ _ _ _ this.1 this.2.symm h
    · simp at h; rw [← h]; exact hI

/-- the LOD list: steps from the table, every level non-empty, strictly finer toward the present -/
def LodsOK (tbl : List Int) (lods : List LOD) : Prop :=
  (∀ l ∈ lods, l.step ∈ tbl ∧ 0 < l.len) ∧ List.Pairwise (fun a b => b.step < a.step) lods

theorem genLODs_ok (cal : Cal) (a : Args) (lods : List LOD) (h : genLODs cal a = .ok lods) :
    LodsOK (allSteps (levelsFor a)) lods := by
  have hpos : ∀ s ∈ allSteps (levelsFor a), 0 < s := by
    unfold levelsFor; split
    · decide
    · decide
  have hsub : ∀ sw ∈ levelsFor a, ∀ s ∈ sw.2, s ∈ allSteps (levelsFor a) := by
    intro sw hsw s hs
    simp only [allSteps, List.mem_flatMap]
    exact ⟨sw, hsw, hs⟩
  unfold genLODs at h
  cases ho : outer cal a (a.end_ - maxOffset a) (levelsFor a) (a.start - maxOffset a) 0 [] ⟨0, 0⟩ with
  | error e => simp [ho, Except.map] at h
  | ok r =>
    simp [ho, Except.map] at h
    have hr := outer_inv cal a _ hpos (levelsFor a) hsub _ _ _ _ _ (by simp [RInv]) (by simp [headStep]) ho
    subst h
    refine ⟨?_, ?_⟩
    · intro l hl; exact hr.1 l (by simpa using hl)
    · exact List.pairwise_reverse.mpr hr.2
/-! ### shape of the result of a range query -/

def lastStepOf : List LOD → Int
  | [] => 0
  | [l] => l.step
  | _ :: ls => lastStepOf ls

theorem expand_cons (l : LOD) (ls : List LOD) : expand (l :: ls) = List.replicate l.len l.step ++ expand ls := by
  simp [expand]

theorem expand_bumpLast (lods : List LOD) (h : lods ≠ []) :
    expand (bumpLast 1 lods) = expand lods ++ [lastStepOf lods] := by
  induction lods with
  | nil => exact absurd rfl h
  | cons l ls ih =>
    cases ls with
    | nil => simp [bumpLast, expand, lastStepOf, List.replicate_succ']
    | cons l' ls' =>
      have := ih (by simp)
      simp only [bumpLast, lastStepOf, expand_cons] at this ⊢
      rw [this]; simp

theorem walk_snoc (cal : Cal) (ss : List Int) (s t : Int) :
    (walk cal (ss ++ [s]) t).1 = (walk cal ss t).1 ++ [(walk cal ss t).2] := by
  rw [walk_append]; simp [walk]

/-- first generated point: `startOfLOD(Start)` moved back by the left extension points -/
def tstart (cal : Cal) (a : Args) (s0 : Int) : Int :=
  backN cal s0 a.utcOffset (leftExtra a (startOfLOD cal a.start s0 a.utcOffset)) (startOfLOD cal a.start s0 a.utcOffset)

theorem bumpFirst_ne (k : Nat) (lods : List LOD) (h : lods ≠ []) : bumpFirst k lods ≠ [] := by
  cases lods with
  | nil => exact absurd rfl h
  | cons l ls => simp [bumpFirst]

theorem rangeTS_time (cal : Cal) (a : Args) (lods : List LOD) (s0 : Int) (h : lods ≠ []) :
    (rangeTS cal a lods s0).time = (walk cal (expand (rangeTS cal a lods s0).lods) (tstart cal a s0)).1 := by
  unfold rangeTS
  by_cases he : a.extend = true
  · simp only [he, if_true]
    rw [expand_bumpLast _ (bumpFirst_ne _ _ h), walk_snoc, genTime_eq_walk]; rfl
  · simp only [he, Bool.false_eq_true, if_false]
    rw [genTime_eq_walk]; rfl

theorem rangeTS_lods (cal : Cal) (a : Args) (lods : List LOD) (s0 : Int) :
    (rangeTS cal a lods s0).lods = (if a.extend then bumpLast 1 else id)
      (bumpFirst (leftExtra a (startOfLOD cal a.start s0 a.utcOffset)) lods) := by
  unfold rangeTS
  by_cases he : a.extend = true <;> simp [he]

theorem lodsOK_bumpFirst {tbl : List Int} (k : Nat) (lods : List LOD) (h : LodsOK tbl lods) : LodsOK tbl (bumpFirst k lods) := by
  cases lods with
  | nil => exact h
  | cons l ls =>
    simp only [bumpFirst]
    refine ⟨?_, ?_⟩
    · intro x hx
      simp at hx
      rcases hx with rfl | hx
      · have := h.1 l (by simp); exact ⟨this.1, by show 0 < l.len + k; omega⟩
      · exact h.1 x (by simp [hx])
    · have := h.2
      simp only [List.pairwise_cons] at this ⊢
      exact this

theorem lodsOK_bumpLast {tbl : List Int} (k : Nat) (lods : List LOD) (h : LodsOK tbl lods) : LodsOK tbl (bumpLast k lods) := by
  induction lods with
  | nil => exact h
  | cons l ls ih =>
    cases ls with
    | nil =>
      simp only [bumpLast]
      refine ⟨?_, by simp⟩
      intro x hx
      simp at hx; subst hx
      have := h.1 l (by simp); exact ⟨this.1, by show 0 < l.len + k; omega⟩
    | cons l' ls' =>
      have hls : LodsOK tbl (l' :: ls') := ⟨fun x hx => h.1 x (by simp [hx]), (List.pairwise_cons.mp h.2).2⟩
      have ih' := ih hls
      simp only [bumpLast] at ih' ⊢
      refine ⟨?_, ?_⟩
      · intro x hx
        simp only [List.mem_cons] at hx
        rcases hx with rfl | hx
        · exact h.1 x (by simp)
        · exact ih'.1 x hx
      · refine List.pairwise_cons.mpr ⟨?_, ih'.2⟩
        intro b hb
        -- steps of bumpLast are the steps of the original list
        have key : ∀ (ls : List LOD) (b : LOD), b ∈ bumpLast k ls → ∃ b' ∈ ls, b'.step = b.step := by
          intro ls
          induction ls with
          | nil => intro b hb; simp [bumpLast] at hb
          | cons c cs ihc =>
            intro b hb
            cases cs with
            | nil => simp [bumpLast] at hb; subst hb; exact ⟨c, by simp, rfl⟩
            | cons c' cs' =>
              simp only [bumpLast, List.mem_cons] at hb
              rcases hb with rfl | hb
              · exact ⟨b, by simp, rfl⟩
              · obtain ⟨b', hb', e⟩ := ihc b (by simpa [bumpLast] using hb)
                exact ⟨b', by simp [hb'], e⟩
        obtain ⟨b', hb', e⟩ := key _ b hb
        have := (List.pairwise_cons.mp h.2).1 b' hb'
        omega

theorem mem_expand {lods : List LOD} {x : Int} (h : x ∈ expand lods) : ∃ l ∈ lods, x = l.step := by
  simp only [expand, List.mem_flatMap, List.mem_replicate] at h
  obtain ⟨l, hl, _, rfl⟩ := h
  exact ⟨l, hl, rfl⟩

/-- divisibility inside a table: every smaller step divides every larger one -/
def TblDvd (tbl : List Int) : Prop := ∀ a ∈ tbl, ∀ b ∈ tbl, b ≤ a → b ∣ a

theorem expand_pairwise_dvd {tbl : List Int} (hd : TblDvd tbl) (lods : List LOD) (h : LodsOK tbl lods) :
    List.Pairwise (fun a b => b ∣ a) (expand lods) := by
  induction lods with
  | nil => simp [expand]
  | cons l ls ih =>
    have hls : LodsOK tbl ls := ⟨fun x hx => h.1 x (by simp [hx]), (List.pairwise_cons.mp h.2).2⟩
    rw [expand_cons, List.pairwise_append]
    refine ⟨?_, ih hls, ?_⟩
    · rw [List.pairwise_replicate]; right; exact Int.dvd_refl _
    · intro a ha b hb
      rw [List.mem_replicate] at ha
      obtain ⟨l', hl', rfl⟩ := mem_expand hb
      rw [ha.2]
      have := (List.pairwise_cons.mp h.2).1 l' hl'
      exact hd _ (h.1 l (by simp)).1 _ (hls.1 l' hl').1 (by omega)

theorem tblDvd_levels : TblDvd (allSteps lodLevels) := by unfold TblDvd; decide
theorem levels_not_month : ∀ s ∈ allSteps lodLevels, isMonth s = false ∧ 0 < s := by decide
theorem monthly_is_month : ∀ s ∈ allSteps lodLevelsMonthly, isMonth s = true := by decide
theorem levels_in_table : ∀ s ∈ allSteps lodLevels ++ allSteps lodLevelsMonthly, s ∈ tableSteps := by decide

theorem stepsOK_of_lodsOK (a : Args) (lods : List LOD) (h : LodsOK (allSteps (levelsFor a)) lods) : StepsOK (expand lods) := by
  unfold levelsFor at h
  split at h
  · left
    intro s hs
    obtain ⟨l, hl, rfl⟩ := mem_expand hs
    exact monthly_is_month _ (h.1 l hl).1
  · right
    refine ⟨?_, expand_pairwise_dvd tblDvd_levels lods h⟩
    intro s hs
    obtain ⟨l, hl, rfl⟩ := mem_expand hs
    exact levels_not_month _ (h.1 l hl).1

theorem fwd_of_stepsOK (cal : Cal) (hc : CalOK cal) (ss : List Int) (h : StepsOK ss) : ∀ s ∈ ss, Fwd cal s := by
  intro s hs
  rcases h with h | h
  · exact fwd_month cal hc s (h s hs)
  · exact fwd_of_pos cal s (h.1 s hs).1 (h.1 s hs).2

/-- what a successful non-point `getTimescale` is made of -/
theorem getTimescale_range (cal : Cal) (a : Args) (ts : TS) (h : getTimescale cal a = .ok ts)
    (hp : isPoint a = false) (hne : ts.time ≠ []) :
    ∃ lods, genLODs cal a = .ok lods ∧ lods ≠ [] ∧ offsetsOK a (step0Of lods) = true ∧
      ts = rangeTS cal a lods (step0Of lods) ∧ a.start < a.end_ ∧ 0 ≤ a.step := by
  unfold getTimescale at h
  split at h
  · simp at h; subst h; simp [TS.empty] at hne
  · rename_i hdeg
    simp at hdeg
    split at h
    · cases h
    · rename_i lods hl
      split at h
      · simp at h; subst h; simp [TS.empty] at hne
      · rename_i hemp
        split at h
        · cases h
        · rename_i hoff
          simp [hp] at h
          refine ⟨lods, hl, ?_, ?_, h.symm, by omega, by omega⟩
          · intro e; simp [e] at hemp
          · simpa using hoff


/-- common consequences for a successful range-like query -/
theorem range_facts (cal : Cal) (a : Args) (ts : TS) (h : getTimescale cal a = .ok ts)
    (hp : isPoint a = false) (hne : ts.time ≠ []) :
    LodsOK (allSteps (levelsFor a)) ts.lods ∧ ts.lods ≠ [] ∧
    ts.time = (walk cal (expand ts.lods) (tstart cal a (step0Of ts.lods))).1 ∧
    ts.startX = 1 ∧ ts.viewStartX = viewStart a := by
  obtain ⟨lods, hl, hne', _, rfl, _, _⟩ := getTimescale_range cal a ts h hp hne
  have hok := genLODs_ok cal a lods hl
  have hs0 : step0Of (rangeTS cal a lods (step0Of lods)).lods = step0Of lods := by
    rw [rangeTS_lods]
    cases lods with
    | nil => exact absurd rfl hne'
    | cons l ls =>
      by_cases he : a.extend = true
      · simp only [he, if_true, bumpFirst]
        cases ls <;> simp [bumpLast, step0Of]
      · simp [he, bumpFirst, step0Of]
  refine ⟨?_, ?_, ?_, ?_, ?_⟩
  · rw [rangeTS_lods]
    by_cases he : a.extend = true
    · simp only [he, if_true]; exact lodsOK_bumpLast _ _ (lodsOK_bumpFirst _ _ hok)
    · simp only [he, Bool.false_eq_true, if_false, id]; exact lodsOK_bumpFirst _ _ hok
  · rw [rangeTS_lods]
    cases lods with
    | nil => exact absurd rfl hne'
    | cons l ls =>
      by_cases he : a.extend = true
      · simp only [he, if_true, bumpFirst]; cases ls <;> simp [bumpLast]
      · simp [he, bumpFirst]
  · rw [hs0]; exact rangeTS_time cal a lods _ hne'
  · unfold rangeTS; by_cases he : a.extend = true <;> simp [he]
  · unfold rangeTS; by_cases he : a.extend = true <;> simp [he]


theorem backN_is_start (cal : Cal) (s0 off : Int) (k : Nat) (y : Int) :
    ∃ x, backN cal s0 off k (startOfLOD cal y s0 off) = startOfLOD cal x s0 off := by
  induction k generalizing y with
  | zero => exact ⟨y, rfl⟩
  | succ k ih => simp only [backN]; exact ih _

theorem startOfLOD_aligned (cal : Cal) (hc : CalOK cal) (x s0 off : Int) (h : isMonth s0 = true ∨ 0 < s0) :
    Aligned cal off (startOfLOD cal x s0 off) s0 := by
  unfold Aligned startOfLOD
  by_cases hm : isMonth s0 = true
  · simp only [hm, if_true]; exact hc.som_idem x
  · simp only [hm, Bool.false_eq_true, if_false]
    exact roundTime_aligned _ _ _ (by rcases h with h | h; exact absurd h hm; exact h)

theorem aligned_all (cal : Cal) (off t s0 : Int) (ss : List Int) (h : StepsOK (s0 :: ss)) (ha : Aligned cal off t s0) :
    ∀ s ∈ s0 :: ss, Aligned cal off t s := by
  intro s hs
  simp only [List.mem_cons] at hs
  rcases hs with rfl | hs
  · exact ha
  · rcases h with h | ⟨h1, h2⟩
    · have m0 := h s0 (by simp)
      have m := h s (by simp [hs])
      simp only [Aligned, m0, m, if_true] at *
      exact ha
    · have m0 := (h1 s0 (by simp)).1
      have m := (h1 s (by simp [hs])).1
      have hd : s ∣ s0 := (List.pairwise_cons.mp h2).1 s hs
      simp only [Aligned, m0, m, Bool.false_eq_true, if_false] at *
      exact Int.emod_eq_zero_of_dvd (Int.dvd_trans hd (Int.dvd_of_emod_eq_zero ha))

theorem expand_head (lods : List LOD) {tbl : List Int} (h : LodsOK tbl lods) (hne : lods ≠ []) :
    ∃ rest, expand lods = step0Of lods :: rest := by
  cases lods with
  | nil => exact absurd rfl hne
  | cons l ls =>
    have := (h.1 l (by simp)).2
    rw [expand_cons]
    obtain ⟨m, hm⟩ : ∃ m, l.len = m + 1 := ⟨l.len - 1, by omega⟩
    rw [hm, List.replicate_succ]
    exact ⟨_, rfl⟩

theorem step0_ok (a : Args) (lods : List LOD) (h : LodsOK (allSteps (levelsFor a)) lods) (hne : lods ≠ []) :
    isMonth (step0Of lods) = true ∨ 0 < step0Of lods := by
  cases lods with
  | nil => exact absurd rfl hne
  | cons l ls =>
    have hl := (h.1 l (by simp)).1
    simp only [step0Of]
    unfold levelsFor at hl
    split at hl
    · left; exact monthly_is_month _ hl
    · right; exact (levels_not_month _ hl).2


theorem segEnd_eq_walk (cal : Cal) (s : Int) (n : Nat) (t : Int) :
    segEnd cal s n t = (walk cal (List.replicate n s) t).2 := by
  induction n generalizing t with
  | zero => simp [segEnd, walk]
  | succ n ih => simp [segEnd, walk, List.replicate_succ, ih]

theorem lodRanges_steps (cal : Cal) (lods : List LOD) (t : Int) :
    (lodRanges cal lods t).map (·.2.2) = lods.map (·.step) := by
  induction lods generalizing t with
  | nil => simp [lodRanges]
  | cons l ls ih => simp [lodRanges, ih]

theorem lodRanges_head (cal : Cal) (lods : List LOD) (t : Int) (r : Int × Int × Int)
    (h : (lodRanges cal lods t)[0]? = some r) : r.1 = t := by
  cases lods with
  | nil => simp [lodRanges] at h
  | cons l ls => simp [lodRanges] at h; rw [← h]

theorem lodRanges_contiguous (cal : Cal) (lods : List LOD) (t : Int) (j : Nat) (r r' : Int × Int × Int)
    (h : (lodRanges cal lods t)[j]? = some r) (h' : (lodRanges cal lods t)[j + 1]? = some r') : r.2.1 = r'.1 := by
  induction lods generalizing t j with
  | nil => simp [lodRanges] at h
  | cons l ls ih =>
    cases j with
    | zero =>
      simp [lodRanges] at h h'
      rw [← h]
      exact (lodRanges_head cal ls _ r' h').symm
    | succ j =>
      simp only [lodRanges, List.getElem?_cons_succ] at h h'
      exact ih _ _ h h'

/-- each range ends one step after its last point: `ToSec` is `FromSec` stepped `Len` times -/
theorem lodRanges_to (cal : Cal) (lods : List LOD) (t : Int) (j : Nat) (r : Int × Int × Int) (l : LOD)
    (h : (lodRanges cal lods t)[j]? = some r) (hl : lods[j]? = some l) :
    r.2.1 = (walk cal (List.replicate l.len r.2.2) r.1).2 := by
  induction lods generalizing t j with
  | nil => simp at hl
  | cons l0 ls ih =>
    cases j with
    | zero =>
      simp [lodRanges] at h hl
      subst hl; rw [← h]; simp [segEnd_eq_walk]
    | succ j =>
      simp only [lodRanges, List.getElem?_cons_succ] at h hl
      exact ih _ _ h hl

/-- enumerating every range from its `FromSec` by its step, `Len` times, yields exactly the walk over all levels -/
theorem lodRanges_enumerate (cal : Cal) (lods : List LOD) (t : Int) :
    (walk cal (expand lods) t).1 =
      ((lodRanges cal lods t).zip lods).flatMap (fun p => (walk cal (List.replicate p.2.len p.1.2.2) p.1.1).1) := by
  induction lods generalizing t with
  | nil => simp [lodRanges, expand, walk]
  | cons l ls ih =>
    rw [expand_cons, walk_append]
    simp only [lodRanges, List.zip_cons_cons, List.flatMap_cons]
    rw [ih, segEnd_eq_walk]


theorem roundTime_pred (t s off : Int) (hs : 0 < s) (ha : (t + off) % s = 0) : roundTime (t - 1) s off = t - s := by
  have hb := roundTime_bracket (t - 1) s off hs
  have hr := roundTime_aligned (t - 1) s off hs
  generalize roundTime (t - 1) s off = r at hb hr
  have d1 : s ∣ (t + off) := Int.dvd_of_emod_eq_zero ha
  have d2 : s ∣ (r + off) := Int.dvd_of_emod_eq_zero hr
  have d3 : s ∣ (t - r) := by
    have := Int.dvd_sub d1 d2
    have e : t + off - (r + off) = t - r := by omega
    rwa [e] at this
  obtain ⟨k, hk⟩ := d3
  have hk1 : 0 < k := by
    apply Int.lt_of_not_ge
    intro hle
    have := Int.mul_le_mul_of_nonneg_left hle (Int.le_of_lt hs)
    omega
  have hk2 : k ≤ 1 := by
    apply Int.le_of_not_gt
    intro hgt
    have : s * 2 ≤ s * k := Int.mul_le_mul_of_nonneg_left (by omega) (Int.le_of_lt hs)
    omega
  have : k = 1 := by omega
  subst this
  omega

/-- one step back from an aligned point: `startOfLOD(t-1)` is the previous grid point -/
theorem prev_facts (cal : Cal) (hc : CalOK cal) (s0 off t : Int) (h : isMonth s0 = true ∨ 0 < s0)
    (ha : Aligned cal off t s0) :
    startOfLOD cal (t - 1) s0 off < t ∧ stepForward cal (startOfLOD cal (t - 1) s0 off) s0 = t ∧
      Aligned cal off (startOfLOD cal (t - 1) s0 off) s0 := by
  refine ⟨?_, ?_, startOfLOD_aligned cal hc _ _ _ h⟩
  · unfold startOfLOD
    by_cases hm : isMonth s0 = true
    · simp only [hm, if_true]; have := hc.som_le (t - 1); omega
    · simp only [hm, Bool.false_eq_true, if_false]
      have hs : 0 < s0 := by rcases h with h | h; exact absurd h hm; exact h
      have := (roundTime_bracket (t - 1) s0 off hs).1; omega
  · unfold startOfLOD stepForward
    by_cases hm : isMonth s0 = true
    · simp only [hm, if_true]
      simp only [Aligned, hm, if_true] at ha
      exact hc.next_pred t ha
    · simp only [hm, Bool.false_eq_true, if_false]
      have hs : 0 < s0 := by rcases h with h | h; exact absurd h hm; exact h
      simp only [Aligned, hm, Bool.false_eq_true, if_false] at ha
      rw [roundTime_pred t s0 off hs ha]; omega

theorem start_facts (cal : Cal) (hc : CalOK cal) (s0 off x : Int) (h : isMonth s0 = true ∨ 0 < s0) :
    startOfLOD cal x s0 off ≤ x ∧ x < stepForward cal (startOfLOD cal x s0 off) s0 := by
  unfold startOfLOD stepForward
  by_cases hm : isMonth s0 = true
  · simp only [hm, if_true]; exact ⟨hc.som_le x, hc.next_som_gt x⟩
  · simp only [hm, Bool.false_eq_true, if_false]
    have hs : 0 < s0 := by rcases h with h | h; exact absurd h hm; exact h
    exact roundTime_bracket x s0 off hs

theorem walk_head_eq (cal : Cal) (ss : List Int) (u x : Int) (h : (walk cal ss u).1[0]? = some x) : x = u := by
  cases ss with
  | nil => simp [walk] at h
  | cons s ss => simp [walk] at h; exact h.symm

theorem rangeTS_prefix (cal : Cal) (a : Args) (l : LOD) (ls : List LOD) (s0 : Int) (hl : 0 < l.len) :
    ∃ rest, expand (rangeTS cal a (l :: ls) s0).lods =
      List.replicate (leftExtra a (startOfLOD cal a.start s0 a.utcOffset) + 1) l.step ++ rest := by
  rw [rangeTS_lods]
  generalize leftExtra a (startOfLOD cal a.start s0 a.utcOffset) = k
  obtain ⟨m, hm⟩ : ∃ m, l.len = m + 1 := ⟨l.len - 1, by omega⟩
  have e1 : expand (bumpFirst k (l :: ls)) = List.replicate (k + 1) l.step ++ (List.replicate m l.step ++ expand ls) := by
    simp only [bumpFirst, expand_cons, hm]
    rw [← List.append_assoc, List.replicate_append_replicate]
    congr 2; omega
  by_cases he : a.extend = true
  · simp only [he, if_true]
    rw [expand_bumpLast _ (by simp [bumpFirst]), e1]
    exact ⟨_, by rw [List.append_assoc]⟩
  · simp only [he, Bool.false_eq_true, if_false, id]
    exact ⟨_, e1⟩
theorem pointTS_lods (cal : Cal) (a : Args) (lods : List LOD) (s0 : Int) :
    (pointTS cal a lods s0).lods = [] ∨ (pointTS cal a lods s0).lods = lods := by
  unfold pointTS
  dsimp only
  split <;> split <;> simp [TS.empty]

end SH.C22
