import SH.Lemmas.DiskCacheErase2

namespace SH.C09
open SH.DiskCache

/-! ### dropping a file that nobody references any more -/

def Abs.dropA (a : Abs) (n : Nat) : Abs :=
  { a with pre := a.pre.filter (fun f => f.name != n), new := a.new.filter (fun f => f.name != n) }

theorem filter_id_of {α} (l : List α) (p : α → Bool) (h : ∀ x ∈ l, p x = true) : l.filter p = l := by
  rw [List.filter_eq_self]; exact h

theorem Abs.files_drop (a : Abs) (n : Nat) (hc : ∀ f j, a.cur = some (f, j) → f.name ≠ n) (hw : ∀ f ∈ a.wait, f.name ≠ n) :
    (a.dropA n).files = a.files.filter (fun f => f.name != n) := by
  have h1 : a.curL.filter (fun f => f.name != n) = a.curL := by
    apply filter_id_of
    intro f hf
    unfold Abs.curL at hf
    split at hf
    · rename_i g j hcur; simp at hf; subst hf; simpa using hc _ j hcur
    · simp at hf
  have h2 : a.wait.filter (fun f => f.name != n) = a.wait := by
    apply filter_id_of; intro f hf; simp [hw f hf]
  have h3 : (a.dropA n).curL = a.curL := rfl
  simp only [Abs.files, h3, List.filter_append, h1, h2]
  rfl

theorem getLast?_filter {α} (l : List α) (p : α → Bool) (x : α) (h : l.getLast? = some x) (hp : p x = true) :
    (l.filter p).getLast? = some x := by
  rw [List.getLast?_eq_head?_reverse] at h ⊢
  rw [← List.filter_reverse]
  cases hr : l.reverse with
  | nil => rw [hr] at h; simp at h
  | cons y ys =>
    rw [hr] at h; simp at h; subst h
    simp [List.filter_cons, hp]

theorem mapDisk_filter (d : List DFile) (n : Nat) (g : Bytes → Bytes) :
    (mapDisk d n g).filter (fun f => f.name != n) = d.filter (fun f => f.name != n) := by
  induction d with
  | nil => rfl
  | cons x d ih =>
    have e : mapDisk (x :: d) n g = (if x.name == n then { x with bytes := g x.bytes } else x) :: mapDisk d n g := rfl
    rw [e]
    by_cases hx : x.name = n
    · have h1 : (x.name == n) = true := by simp [hx]
      rw [h1]; simp only [if_true, List.filter_cons]
      have h2 : (x.name != n) = false := by simp [hx]
      rw [h2]; simp only [Bool.false_eq_true, if_false]; exact ih
    · have h1 : (x.name == n) = false := by simp [hx]
      rw [h1]; simp only [Bool.false_eq_true, if_false, List.filter_cons]
      have h2 : (x.name != n) = true := by simp [hx]
      rw [h2]; simp only [if_true]; rw [ih]

theorem filter_map_render (cfg : Cfg) (l : List AFile) (n : Nat) :
    (l.map (AFile.render cfg)).filter (fun d => d.name != n) = (l.filter (fun f => f.name != n)).map (AFile.render cfg) := by
  rw [List.filter_map]
  rfl

theorem flatMap_filter_eq (cfg : Cfg) (n k : Nat) : ∀ (l : List AFile),
    (∀ g ∈ l, g.name ≠ n → (fbuckets cfg g).filter (fun b => b.id != k) = fbuckets cfg g) →
    (∀ g ∈ l, g.name = n → (fbuckets cfg g).filter (fun b => b.id != k) = []) →
    (l.filter (fun f => f.name != n)).flatMap (fbuckets cfg) = (l.flatMap (fbuckets cfg)).filter (fun b => b.id != k) := by
  intro l
  induction l with
  | nil => intro _ _; rfl
  | cons g l ih =>
    intro h1 h2
    have ih' := ih (fun x hx => h1 x (by simp [hx])) (fun x hx => h2 x (by simp [hx]))
    by_cases hg : g.name = n
    · simp [List.filter_cons, hg, List.flatMap_cons, List.filter_append, h2 g (by simp) hg, ih']
    · simp [List.filter_cons, hg, List.flatMap_cons, List.filter_append, h1 g (by simp) hg, ih']

theorem sizeSum_filter (cfg : Cfg) (n : Nat) (f : AFile) : ∀ (l : List AFile), f ∈ l → f.name = n →
    (∀ g ∈ l, g.name = n → g = f) → (l.map (·.name)).Nodup →
    sizeSum cfg (l.filter (fun g => g.name != n)) = sizeSum cfg l - f.size cfg := by
  intro l
  induction l with
  | nil => intro h; simp at h
  | cons g l ih =>
    intro hf hn hinj hnd
    rw [List.map_cons, List.nodup_cons] at hnd
    by_cases hg : g.name = n
    · have := hinj g (by simp) hg; subst this
      have : l.filter (fun x => x.name != n) = l := by
        apply filter_id_of
        intro x hx
        have : x.name ≠ g.name := fun e => hnd.1 (List.mem_map.mpr ⟨x, hx, e⟩)
        rw [hg] at this; simp [this]
      simp [List.filter_cons, hg, this, sizeSum]; omega
    · have hfl : f ∈ l := by
        rcases List.mem_cons.mp hf with h | h
        · subst h; exact absurd hn hg
        · exact h
      have := ih hfl hn (fun x hx => hinj x (by simp [hx])) hnd.2
      simp only [sizeSum] at this ⊢
      simp [List.filter_cons, hg, this]; omega


/-- `unref` brought the reference count of file `f` (closed, in `pre` or `new`) to zero: the file leaves the disk.
    Used by EraseBucket (`wclr = false`, `k` = the erased id) and by rotation (`wclr = true`: the writing head let go). -/
theorem inv_drop_core (cfg : Cfg) (s s' : Shard) (a : Abs) (f : AFile) (wclr : Bool) (k : Nat) (inv : Inv cfg s a)
    (hf : f ∈ a.pre ++ a.new)
    (hw : if wclr then a.wname = some f.name else a.wname ≠ some f.name)
    (hBf : ∀ x ∈ fbuckets cfg f, x.id = k)
    (hk : ∀ g ∈ a.files, g ≠ f → ∀ x ∈ fbuckets cfg g, x.id ≠ k)
    (hdisk : s'.disk = s.disk.filter (fun g => g.name != f.name)) (hclock : s'.clock = s.clock) (hlast : s'.lastID = s.lastID)
    (hof : s'.ofiles = s.ofiles.filter (fun g => g.name != f.name))
    (hknown : s'.known = s.known.filter (fun c => c.id != k))
    (hks : s'.knownSize = s.knownSize - ((fbuckets cfg f).map bsize).sum)
    (hrd : s'.reading = s.reading) (hwr : s'.writing = if wclr then none else s.writing)
    (hwait : s'.waiting = s.waiting) (hwsz : s'.waitingSize = s.waitingSize)
    (htotal : s'.total = s.total - f.size cfg) :
    Inv cfg s' ({ a with writing := a.writing && !wclr }.dropA f.name) := by
  let a2 : Abs := ({ a with writing := a.writing && !wclr }.dropA f.name)
  have hfm : f ∈ a.files := by
    simp only [Abs.files, List.mem_append] at hf ⊢
    rcases hf with h | h
    · exact Or.inl h
    · exact Or.inr (Or.inr (Or.inr h))
  have hinj : ∀ g ∈ a.files, g.name = f.name → g = f := fun g hg h => inv.name_inj hg hfm h
  have hcurne : ∀ g j, a.cur = some (g, j) → g.name ≠ f.name := by
    intro g j hc hn
    exact inv.cur_name_ne hc f (by
      simp only [List.mem_append] at hf ⊢; rcases hf with h | h; exact Or.inl h; exact Or.inr (Or.inr h)) hn.symm
  have hwaitne : ∀ g ∈ a.wait, g.name ≠ f.name := by
    intro g hg hn
    have hgf : g ∈ a.files := by simp [Abs.files, hg]
    have := hinj g hgf hn; subst this
    -- g is in wait and in pre ++ new: impossible by distinct names
    have hnd := pairwise_lt_ne inv.names
    simp only [Abs.files, List.map_append] at hnd
    rw [List.nodup_append] at hnd
    obtain ⟨_, h2, h3⟩ := hnd
    rw [List.nodup_append] at h2
    obtain ⟨_, h4, h5⟩ := h2
    rw [List.nodup_append] at h4
    obtain ⟨_, _, h6⟩ := h4
    rcases List.mem_append.mp hf with h | h
    · exact h3 g.name (List.mem_map.mpr ⟨g, h, rfl⟩) g.name (by
        simp only [List.mem_append, List.mem_map]; exact Or.inr (Or.inl ⟨g, hg, rfl⟩)) rfl
    · exact h6 g.name (List.mem_map.mpr ⟨g, hg, rfl⟩) g.name (List.mem_map.mpr ⟨g, h, rfl⟩) rfl
  have hfiles2 : a2.files = a.files.filter (fun g => g.name != f.name) :=
    Abs.files_drop { a with writing := a.writing && !wclr } f.name hcurne hwaitne
  have hmem2 : ∀ g, g ∈ a2.files ↔ g ∈ a.files ∧ g ≠ f := by
    intro g; rw [hfiles2, List.mem_filter]
    constructor
    · rintro ⟨h1, h2⟩; exact ⟨h1, fun e => by subst e; simp at h2⟩
    · rintro ⟨h1, h2⟩; exact ⟨h1, by simp; exact fun e => h2 (hinj g h1 e)⟩
  have hB2 : a2.buckets cfg = (a.buckets cfg).filter (fun b => b.id != k) := by
    unfold Abs.buckets; rw [hfiles2]
    apply flatMap_filter_eq
    · intro g hg hgn
      apply filter_id_of
      intro x hx
      have := hk g hg (fun e => hgn (by rw [e])) x hx
      simp [this]
    · intro g hg hgn
      have := hinj g hg hgn; subst this
      rw [List.filter_eq_nil_iff]
      intro x hx; simp [hBf x hx]
  have hBsplit : ((a.buckets cfg).map bsize).sum = ((a2.buckets cfg).map bsize).sum + ((fbuckets cfg f).map bsize).sum := by
    obtain ⟨L1, L2, hL⟩ := List.append_of_mem hfm
    have h1 : ∀ g ∈ L1 ++ L2, g ≠ f := by
      intro g hg e; subst e
      have hnd := pairwise_lt_ne inv.names
      rw [hL, List.map_append, List.map_cons] at hnd
      have hp := (List.perm_middle (a := g.name) (l₁ := L1.map (·.name)) (l₂ := L2.map (·.name))).nodup_iff.mp hnd
      rw [List.nodup_cons] at hp
      exact hp.1 (by rw [← List.map_append]; exact List.mem_map.mpr ⟨g, hg, rfl⟩)
    have hfl : (a.files.filter (fun g => g.name != f.name)) = L1 ++ L2 := by
      rw [hL, List.filter_append, List.filter_cons]
      have : (f.name != f.name) = false := by simp
      rw [this]; simp only [Bool.false_eq_true, if_false]
      rw [filter_id_of L1, filter_id_of L2]
      · intro x hx; have := h1 x (by simp [hx])
        simp; exact fun e => this (hinj x (by rw [hL]; simp [hx]) e)
      · intro x hx; have := h1 x (by simp [hx])
        simp; exact fun e => this (hinj x (by rw [hL]; simp [hx]) e)
    unfold Abs.buckets; rw [hfiles2, hfl, hL]
    simp only [List.flatMap_append, List.flatMap_cons, List.map_append, List.sum_append]
    omega
  have hrn2 : a2.rname = a.rname := rfl
  have hrefs2 : ∀ g ∈ a.files, g ≠ f → a2.refs g = a.refs g := by
    intro g hg hgf
    have hgn : g.name ≠ f.name := fun e => hgf (hinj g hg e)
    simp only [Abs.refs, hrn2]
    congr 1
    cases wclr with
    | true =>
      simp only [if_true] at hw
      have h1 : a2.wname = none := by simp [a2, Abs.wname, Abs.dropA]
      have : f.name ≠ g.name := fun e => hgn e.symm
      simp [h1, hw, this]
    | false =>
      simp only [Bool.false_eq_true, if_false] at hw
      have h1 : a2.wname = a.wname := by
        simp only [a2, Abs.wname, Abs.dropA, Bool.not_false, Bool.and_true]
        split
        · rename_i hwt
          have hne := inv.writingSome hwt
          cases hl : a.new.getLast? with
          | none => simp [List.getLast?_eq_none_iff] at hl; exact absurd hl hne
          | some x =>
            have hx : x.name ≠ f.name := by
              intro e; apply hw; simp [Abs.wname, hwt, hl, e]
            rw [getLast?_filter a.new _ x hl (by simp [hx])]
        · rfl
      rw [h1]
  refine { disk := ?_, clock := by rw [hclock]; exact inv.clock, lastID := by rw [hlast]; exact inv.lastID, names := ?_,
           namesLt := ?_, wf := ?_, newTl := ?_, preRead := ?_, newRead := ?_, waitIds := inv.waitIds, curOk := inv.curOk,
           idsLe := ?_, idsNodup := ?_, known := ?_, ofiles := ?_, reading := by rw [hrd]; exact inv.reading,
           writing := ?_, writingSome := ?_, waiting := by rw [hwait]; exact inv.waiting, total := ?_, knownSize := ?_,
           waitingSize := by rw [hwsz]; exact inv.waitingSize, present := ?_ }
  · rw [hdisk, inv.disk, hfiles2, filter_map_render]
  · rw [hfiles2]
    exact inv.names.sublist ((List.filter_sublist).map _)
  · intro g hg; exact inv.namesLt g ((hmem2 g).mp hg).1
  · intro g hg; exact inv.wf g ((hmem2 g).mp hg).1
  · intro g hg; exact inv.newTl g (List.mem_filter.mp hg).1
  · intro g hg; exact inv.preRead g (List.mem_filter.mp hg).1
  · intro g hg; exact inv.newRead g (List.mem_filter.mp hg).1
  · rw [hB2]; intro x hx; exact inv.idsLe x (List.mem_filter.mp hx).1
  · rw [hB2]; exact (List.Sublist.map _ List.filter_sublist).nodup inv.idsNodup
  · intro x; rw [hB2, hknown]; simp only [List.mem_filter, inv.known x]
  · intro name
    rw [hof]
    by_cases hn : name = f.name
    · subst hn
      rw [findO_filter_self]
      intro g hg hgn
      exact absurd (hinj g ((hmem2 g).mp hg).1 hgn) ((hmem2 g).mp hg).2
    · rw [findO_filter_ne _ _ _ hn]
      have h0 := inv.ofiles name
      split
      · rename_i hnone
        rw [hnone] at h0
        intro g hg hgn
        obtain ⟨hg1, hg2⟩ := (hmem2 g).mp hg
        rw [hrefs2 g hg1 hg2]; exact h0 g hg1 hgn
      · rename_i o2 hsome
        rw [hsome] at h0
        obtain ⟨ho2, g, hg, hgn, hrc, hpos, hsz, hcur2⟩ := h0
        have hgf : g ≠ f := by intro e; subst e; exact hn hgn.symm
        exact ⟨ho2, g, (hmem2 g).mpr ⟨hg, hgf⟩, hgn, by rw [hrefs2 g hg hgf]; exact hrc, by rw [hrefs2 g hg hgf]; exact hpos, hsz, hcur2⟩
  · rw [hwr]
    cases wclr with
    | true => simp [a2, Abs.wname, Abs.dropA]
    | false =>
      simp only [Bool.false_eq_true, if_false] at hw ⊢
      rw [inv.writing]
      simp only [a2, Abs.wname, Abs.dropA, Bool.not_false, Bool.and_true]
      split
      · rename_i hwt
        have hne := inv.writingSome hwt
        cases hl : a.new.getLast? with
        | none => simp [List.getLast?_eq_none_iff] at hl; exact absurd hl hne
        | some x =>
          have hx : x.name ≠ f.name := by
            intro e; apply hw; simp [Abs.wname, hwt, hl, e]
          rw [getLast?_filter a.new _ x hl (by simp [hx])]
      · rfl
  · intro hwt
    cases wclr with
    | true => simp [a2, Abs.dropA] at hwt
    | false =>
      simp only [a2, Abs.dropA, Bool.not_false, Bool.and_true] at hwt ⊢
      simp only [Bool.false_eq_true, if_false] at hw
      have hne := inv.writingSome hwt
      cases hl : a.new.getLast? with
      | none => simp [List.getLast?_eq_none_iff] at hl; exact absurd hl hne
      | some x =>
        have hx : x.name ≠ f.name := by
          intro e; apply hw; simp [Abs.wname, hwt, hl, e]
        have := getLast?_filter a.new (fun g => g.name != f.name) x hl (by simp [hx])
        intro e; rw [e] at this; simp at this
  · rw [htotal, inv.total, hfiles2]
    rw [sizeSum_filter cfg f.name f a.files hfm rfl hinj (pairwise_lt_ne inv.names)]
  · rw [hks, inv.knownSize, hBsplit]; simp only [a2]; omega
  · intro g hg
    have hg0 : g ∈ a.pre ++ a.new ∧ g.name ≠ f.name := by
      simp only [a2, Abs.dropA, List.mem_append, List.mem_filter] at hg ⊢
      rcases hg with ⟨h1, h2⟩ | ⟨h1, h2⟩
      · exact ⟨Or.inl h1, by simpa using h2⟩
      · exact ⟨Or.inr h1, by simpa using h2⟩
    have hgf : g ∈ a.files := by
      have := hg0.1
      simp only [Abs.files, List.mem_append] at this ⊢
      rcases this with h | h
      · exact Or.inl h
      · exact Or.inr (Or.inr (Or.inr h))
    rw [hrefs2 g hgf (fun e => hg0.2 (by rw [e]))]
    exact inv.present g hg0.1

end SH.C09
