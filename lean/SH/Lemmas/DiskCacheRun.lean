import SH.Lemmas.DiskCacheAppend

namespace SH.C09
open SH.DiskCache

/-! ### PutBucket as a whole -/

theorem live_newA (cfg : Cfg) (a : Abs) : a.newA.live cfg = a.live cfg := by
  simp [Abs.live, Abs.files, Abs.newA, Abs.curL, List.flatMap_append, fLive, liveRecs]

theorem inv_put (cfg : Cfg) (s : Shard) (a : Abs) (inv : Inv cfg s a) (t : Nat) (d : Bytes) (r : Bool)
    (ht : t < 2 ^ 32) (hd : d.length ≤ maxChunkSize) (hcrc : cfg.crc d < 2 ^ 32) :
    ∃ a', Inv cfg (put cfg s t d r).1 a' ∧ a'.live cfg = a.live cfg ++ [(some (a.lastID + 1), t, d)] ∧
      a'.lastID = a.lastID + 1 ∧ (put cfg s t d r).2 = a.lastID + 1 ∧
      ∃ (F0 : List AFile) (f : AFile), a'.files = F0 ++ [f.setRecs (f.recs ++ [⟨magicGood, t, d, some (a.lastID + 1)⟩])] ∧ f.tl = [] := by
  have hnb : tooBig d = false := by simp [tooBig, tooBigLen]; omega
  obtain ⟨a1, inv1, hl1, hi1⟩ := inv_rotate cfg s a inv d.length r
  -- after ensureWriting there is a writing file
  have hens : ∃ a2, Inv cfg (ensureWriting (rotateIfNeeded s d.length r)) a2 ∧ a2.live cfg = a.live cfg ∧ a2.lastID = a.lastID ∧
      ∃ w, (ensureWriting (rotateIfNeeded s d.length r)).writing = some w := by
    cases hw : (rotateIfNeeded s d.length r).writing with
    | none =>
      refine ⟨a1.newA, inv_newfile cfg _ a1 inv1 hw, by rw [live_newA, hl1], hi1, ?_⟩
      simp [ensureWriting, hw]
    | some w =>
      have : ensureWriting (rotateIfNeeded s d.length r) = rotateIfNeeded s d.length r := by simp [ensureWriting, hw]
      rw [this]
      exact ⟨a1, inv1, hl1, hi1, w, hw⟩
  obtain ⟨a2, inv2, hl2, hi2, w, hw⟩ := hens
  obtain ⟨f, _, _, _, _, _, _, o, ho, _, _, _⟩ := inv2.writing_view hw
  obtain ⟨a3, inv3, hl3, hi3, F0, f3, hsh, htl3⟩ := inv_append cfg _ a2 inv2 w o hw ho t d ht hd hcrc
  unfold put
  rw [hnb]
  simp only [Bool.false_eq_true, if_false, hw, ho]
  exact ⟨a3, inv3, by rw [hl3, hl2, hi2], by rw [hi3, hi2], by rw [inv2.lastID, hi2], F0, f3, by rw [hsh, putRec, hi2], htl3⟩


/-! ### restart -/

theorem clearIds_wf (cfg : Cfg) (f : AFile) (h : (∀ r ∈ f.recs, r.WF cfg) ∧ TailStop f.tl) :
    (∀ r ∈ (clearIds f).recs, r.WF cfg) ∧ TailStop (clearIds f).tl := by
  refine ⟨?_, h.2⟩
  intro r hr
  simp only [clearIds, List.mem_map] at hr
  obtain ⟨q, hq, rfl⟩ := hr
  obtain ⟨a1, a2, a3, a4, a5, _⟩ := h.1 q hq
  exact ⟨a1, a2, a3, a4, a5, fun hid => by simp at hid⟩

def clearLive (l : List LiveE) : List LiveE := l.map (fun e => (none, e.2.1, e.2.2))

theorem liveRecs_clear (cfg : Cfg) (rs : List ARec) :
    liveRecs cfg (rs.map (fun r => { r with id := none })) = clearLive (liveRecs cfg rs) := by
  induction rs with
  | nil => rfl
  | cons r rs ih =>
    simp only [liveRecs, clearLive, List.map_cons, List.filter_cons] at ih ⊢
    have : ARec.dead cfg { r with id := none } = ARec.dead cfg r := rfl
    rw [this]
    cases r.dead cfg <;> simp [ih]

theorem inv_restart (cfg : Cfg) (s : Shard) (a : Abs) (inv : Inv cfg s a) :
    ∃ a', Inv cfg (restart s) a' ∧ a'.live cfg = clearLive (a.live cfg) ∧ a'.lastID = 0 := by
  refine ⟨{ wait := a.files.map clearIds, clock := a.clock }, ?_, ?_, rfl⟩
  · apply inv_fresh cfg (a.files.map clearIds) a.clock s
    · rw [List.map_map]; exact inv.names
    · intro f hf; obtain ⟨g, hg, rfl⟩ := List.mem_map.mp hf; exact inv.namesLt g hg
    · intro f hf; obtain ⟨g, hg, rfl⟩ := List.mem_map.mp hf; exact clearIds_wf cfg g (inv.wf g hg)
    · intro f hf r hr
      obtain ⟨g, hg, rfl⟩ := List.mem_map.mp hf
      simp only [clearIds, List.mem_map] at hr
      obtain ⟨q, _, rfl⟩ := hr; rfl
    · rw [inv.disk, List.map_map]
      apply List.map_congr_left
      intro g _; exact (render_clear cfg g).symm
    · exact inv.clock
  · simp only [Abs.live, Abs.files, Abs.curL, List.nil_append, List.append_nil, List.flatMap_map, clearLive]
    rw [List.map_flatMap]
    apply flatMap_congr'
    intro g _
    exact liveRecs_clear cfg g.recs

/-! ### the abstract history: what the cache holds after a history, as a function of the history alone -/

/-- give the first second without an id the id `k` (what ReadNextTailSecond does); `none` if every second has one -/
def assignFirst (k : Nat) : List LiveE → Option (List LiveE)
  | [] => none
  | (none, t, b) :: l => some ((some k, t, b) :: l)
  | (some i, t, b) :: l => (assignFirst k l).map ((some i, t, b) :: ·)

structure AbsH where
  live : List LiveE := []
  lastID : Nat := 0
deriving DecidableEq, Repr

/-- the history-level specification: put appends a second, erase removes the second with that id, get changes nothing,
    readNext hands the next id to the first second not yet handed out, restart forgets the ids -/
def absStep (h : AbsH) : Op → AbsH
  | .put t d _ => { live := h.live ++ [(some (h.lastID + 1), t, d)], lastID := h.lastID + 1 }
  | .get _ _ => h
  | .erase id => { h with live := liveErase id h.live }
  | .readNext =>
    match assignFirst (h.lastID + 1) h.live with
    | some l => { live := l, lastID := h.lastID + 1 }
    | none => h
  | .restart => { live := clearLive h.live, lastID := 0 }

def absRun (h : AbsH) (ops : List Op) : AbsH := ops.foldl absStep h

/-- the puts of a history are well-formed: 32-bit time, body within maxChunkSize -/
def OpOk : Op → Prop
  | .put t d _ => t < 2 ^ 32 ∧ d.length ≤ maxChunkSize
  | _ => True

theorem assignFirst_split (k : Nat) : ∀ (l1 l2 : List LiveE) (t : Nat) (b : Bytes), (∀ e ∈ l1, e.1 ≠ none) →
    assignFirst k (l1 ++ (none, t, b) :: l2) = some (l1 ++ (some k, t, b) :: l2) := by
  intro l1
  induction l1 with
  | nil => intro l2 t b _; rfl
  | cons e l1 ih =>
    intro l2 t b h
    obtain ⟨i, t', b'⟩ := e
    cases i with
    | none => exact absurd rfl (h (none, t', b') (by simp))
    | some i =>
      simp only [List.cons_append, assignFirst]
      rw [ih l2 t b (fun e he => h e (by simp [he]))]
      rfl

theorem assignFirst_none (k : Nat) : ∀ (l : List LiveE), (∀ e ∈ l, e.1 ≠ none) → assignFirst k l = none := by
  intro l
  induction l with
  | nil => intro _; rfl
  | cons e l ih =>
    intro h
    obtain ⟨i, t', b'⟩ := e
    cases i with
    | none => exact absurd rfl (h (none, t', b') (by simp))
    | some i => simp [assignFirst, ih (fun e he => h e (by simp [he]))]

/-- ONE STEP: every operation of the model refines the abstract step -/
theorem step_refines (cfg : Cfg) (hcrc : ∀ b, cfg.crc b < 2 ^ 32) (s : Shard) (a : Abs) (inv : Inv cfg s a) (op : Op) (hop : OpOk op) :
    ∃ a', Inv cfg (step cfg s op) a' ∧ (⟨a'.live cfg, a'.lastID⟩ : AbsH) = absStep ⟨a.live cfg, a.lastID⟩ op := by
  cases op with
  | put t d r =>
    obtain ⟨a', inv', hl, hi, _⟩ := inv_put cfg s a inv t d r hop.1 hop.2 (hcrc d)
    exact ⟨a', inv', by simp [absStep, hl, hi]⟩
  | get id t =>
    refine ⟨a, ?_, rfl⟩
    simp only [step, get_state cfg s a inv id t]; exact inv
  | erase id =>
    obtain ⟨a', inv', hl, hi⟩ := inv_erase cfg s a inv id
    exact ⟨a', inv', by simp [absStep, hl, hi]⟩
  | readNext =>
    obtain ⟨hp, hf⟩ := readNext_spec cfg s a inv
    simp only [step]
    cases hr : (readNext cfg s).2 with
    | fuel => exact absurd hr hf
    | none =>
      rw [hr] at hp
      obtain ⟨a', inv', hl, hi, hall⟩ := hp
      refine ⟨a', inv', ?_⟩
      simp only [absStep, assignFirst_none _ _ hall, hl, hi]
    | got t id =>
      rw [hr] at hp
      obtain ⟨a', l1, b, l2, inv', hid, hi, hsplit, hl1, hl'⟩ := hp
      refine ⟨a', inv', ?_⟩
      simp only [absStep, hsplit, assignFirst_split _ l1 l2 t b hl1, hl', hi, hid]
  | restart =>
    obtain ⟨a', inv', hl, hi⟩ := inv_restart cfg s a inv
    exact ⟨a', inv', by simp [absStep, hl, hi, step]⟩

/-- EVERY HISTORY: the model state after any list of operations satisfies the invariant with an abstract state whose
    live sequence is exactly what the history-level specification computes -/
theorem run_refines (cfg : Cfg) (hcrc : ∀ b, cfg.crc b < 2 ^ 32) : ∀ (ops : List Op) (s : Shard) (a : Abs), Inv cfg s a →
    (∀ op ∈ ops, OpOk op) →
    ∃ a', Inv cfg (run cfg s ops) a' ∧ (⟨a'.live cfg, a'.lastID⟩ : AbsH) = absRun ⟨a.live cfg, a.lastID⟩ ops := by
  intro ops
  induction ops with
  | nil => intro s a inv _; exact ⟨a, inv, rfl⟩
  | cons op ops ih =>
    intro s a inv hok
    obtain ⟨a1, inv1, h1⟩ := step_refines cfg hcrc s a inv op (hok op (by simp))
    obtain ⟨a2, inv2, h2⟩ := ih (step cfg s op) a1 inv1 (fun o ho => hok o (by simp [ho]))
    refine ⟨a2, inv2, ?_⟩
    rw [h2, h1]; rfl

end SH.C09
