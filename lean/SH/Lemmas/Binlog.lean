/-
  SH.Lemmas.Binlog — helper lemmas for Props/C18 (fsbinlog): reader step shape, byte-level encode/decode facts, one-step
  lemmas of the reader on well-formed records, the writer-side definitions (`Ev`, `wnext`, `writeAll`, `NoRotate`, `offsets`).
  Proof files only (may use Mathlib-free core tactics); not linked into the driver.
-/
import SH.Model.Binlog
open SH.Binlog
namespace SH.C18

def Consumed (cfg : Cfg) (s s' : RS) (n : Nat) : Prop :=
  s'.rest = s.rest.drop n ∧ s'.crc = cfg.upd s.crc (s.rest.take n) ∧ s'.pos = s.pos + n ∧ s'.slack = s.slack

@[simp] theorem commit_rest (s : RS) : s.commit.rest = s.rest := by unfold RS.commit; split <;> rfl
@[simp] theorem commit_crc (s : RS) : s.commit.crc = s.crc := by unfold RS.commit; split <;> rfl
@[simp] theorem commit_pos (s : RS) : s.commit.pos = s.pos := by unfold RS.commit; split <;> rfl
@[simp] theorem commit_slack (s : RS) : s.commit.slack = s.slack := by unfold RS.commit; split <;> rfl
@[simp] theorem commit_dk (s : RS) : s.commit.dk = s.dk := by unfold RS.commit; split <;> rfl
@[simp] theorem commit_evs (s : RS) : s.commit.eng.evs = s.eng.evs := by unfold RS.commit; split <;> rfl
@[simp] theorem commit_off (s : RS) : s.commit.eng.off = s.eng.off := by unfold RS.commit; split <;> rfl
@[simp] theorem pre_rest (s : RS) : (preCommit s).rest = s.rest := by unfold preCommit; split <;> simp
@[simp] theorem pre_crc (s : RS) : (preCommit s).crc = s.crc := by unfold preCommit; split <;> simp
@[simp] theorem pre_pos (s : RS) : (preCommit s).pos = s.pos := by unfold preCommit; split <;> simp
@[simp] theorem pre_slack (s : RS) : (preCommit s).slack = s.slack := by unfold preCommit; split <;> simp
@[simp] theorem pre_dk (s : RS) : (preCommit s).dk = s.dk := by unfold preCommit; split <;> simp
@[simp] theorem pre_evs (s : RS) : (preCommit s).eng.evs = s.eng.evs := by unfold preCommit; split <;> simp
@[simp] theorem pre_off (s : RS) : (preCommit s).eng.off = s.eng.off := by unfold preCommit; split <;> simp

theorem skipLev_cont {cfg : Cfg} {s s' : RS} {n : Nat} (h : skipLev cfg s n = .cont s') : Consumed cfg s s' n := by
  simp only [skipLev] at h
  split at h
  · cases h
  · simp only [Step.cont.injEq] at h
    subst h
    exact ⟨rfl, rfl, rfl, rfl⟩

theorem applyStep_cont {cfg : Cfg} {s s' : RS} (h : applyStep cfg s = .cont s') : ∃ n, Consumed cfg s s' n := by
  simp only [applyStep] at h
  repeat' split at h
  all_goals first
    | (simp only [Step.cont.injEq] at h; subst h; exact ⟨_, rfl, rfl, rfl, rfl⟩)
    | (cases h; done)

theorem stepKind_cont {cfg : Cfg} {s s' : RS} {k : Kind} (h : stepKind cfg s k = .cont s') : ∃ n, Consumed cfg s s' n := by
  cases k <;> simp only [stepKind] at h
  · simp only [stepStart] at h; split at h
    · exact ⟨_, skipLev_cont h⟩
    · cases h
  · simp only [stepRotFrom] at h; split at h
    · exact ⟨_, (skipLev_cont h : Consumed cfg { s with ts := _ } s' _)⟩
    · cases h
  · cases h
  · simp only [stepTag] at h; split at h
    · exact ⟨_, skipLev_cont h⟩
    · cases h
  · simp only [stepCrc] at h; split at h
    · split at h
      · cases h
      · exact ⟨_, (skipLev_cont h : Consumed cfg { s with ts := _ } s' _)⟩
    · cases h
  · simp only [stepTimestamp] at h; split at h
    · exact ⟨_, (skipLev_cont h : Consumed cfg { s with ts := _ } s' _)⟩
    · cases h
  · simp only [stepRotTo] at h; split at h
    · split at h <;> cases h
    · cases h
  · cases h
  · cases h
  · cases h
  · exact applyStep_cont h

/-- every continuing step of the reader consumes some `n` bytes: position, rest and running checksum move together -/
theorem readStep_cont {cfg : Cfg} {s s' : RS} (h : readStep cfg s = .cont s') : ∃ n, Consumed cfg s s' n := by
  simp only [readStep] at h
  split at h
  · cases h
  · obtain ⟨n, a, b, c, d⟩ := stepKind_cont h
    exact ⟨n, by simpa using a, by simpa using b, by simpa using c, by simpa using d⟩



theorem atLeast_iff (b : Bytes) (n : Nat) : atLeast b n = true ↔ n ≤ b.length := by
  induction b generalizing n with
  | nil => cases n <;> simp [atLeast]
  | cons a t ih => cases n <;> simp [atLeast, ih]

theorem pad4_ge (x : Nat) : x ≤ pad4 x := by unfold pad4; omega
theorem pad4_lt (x : Nat) : pad4 x < x + 4 := by unfold pad4; omega
theorem pad4_mod (x : Nat) : pad4 x % 4 = 0 := by unfold pad4; omega
theorem pad4_pad4 (x : Nat) : pad4 (pad4 x) = pad4 x := by unfold pad4; omega
theorem pad4_of_mod {x : Nat} (h : x % 4 = 0) : pad4 x = x := by unfold pad4; omega

@[simp] theorem le32_length (x : Nat) : (le32 x).length = 4 := rfl
@[simp] theorem le64_length (x : Nat) : (le64 x).length = 8 := rfl
@[simp] theorem encEvent_length (m : Nat) (b : Bytes) : (encEvent m b).length = 8 + b.length := by
  simp [encEvent]; omega
@[simp] theorem encCrc_length (ts pos : Nat) (c : UInt32) : (encCrc ts pos c).length = 20 := by simp [encCrc]
@[simp] theorem padded_length (x : Bytes) : (padded x).length = pad4 x.length := by
  simp [padded]; have := pad4_ge x.length; omega
theorem padded_of_mod {x : Bytes} (h : x.length % 4 = 0) : padded x = x := by
  simp [padded, pad4_of_mod h]

theorem rd32_le32 (m : Nat) (h : m < 4294967296) (t : Bytes) : rd32 (le32 m ++ t) = m := by
  simp [rd32, le32]; omega

theorem rd32_event (m : Nat) (hm : m < 4294967296) (b R : Bytes) : rd32 (padded (encEvent m b) ++ R) = m := by
  simp only [padded, encEvent, List.append_assoc]; exact rd32_le32 m hm _

theorem rd32_event_len (m : Nat) (b R : Bytes) (hb : b.length < 4294967296) :
    rd32 ((padded (encEvent m b) ++ R).drop 4) = b.length := by
  simp only [padded, encEvent, List.append_assoc]
  have : (le32 m ++ (le32 b.length ++ (b ++ (List.replicate (pad4 (le32 m ++ (le32 b.length ++ b)).length - (le32 m ++ (le32 b.length ++ b)).length) 0 ++ R)))).drop 4
       = le32 b.length ++ (b ++ (List.replicate (pad4 (le32 m ++ (le32 b.length ++ b)).length - (le32 m ++ (le32 b.length ++ b)).length) 0 ++ R)) := by
    simp [le32]
  rw [this]; exact rd32_le32 _ hb _

theorem take_padded (x R : Bytes) : (padded x ++ R).take (pad4 x.length) = padded x := by
  rw [List.take_append_of_le_length (by simp)]; simp [List.take_of_length_le]
theorem drop_padded (x R : Bytes) : (padded x ++ R).drop (pad4 x.length) = R := by
  have : pad4 x.length = (padded x).length := by simp
  rw [this, List.drop_left]
theorem take_unpadded (x R : Bytes) : (padded x ++ R).take x.length = x := by
  simp [padded, List.append_assoc, List.take_left']


def afterEvent (cfg : Cfg) (s : RS) (b R : Bytes) : RS :=
  { s with pos := s.pos + pad4 (8 + b.length), crc := cfg.upd s.crc (padded (encEvent cfg.evMagic b)), rest := R, dk := false,
           eng := { s.eng with off := s.eng.off + pad4 (8 + b.length), evs := (s.eng.off, encEvent cfg.evMagic b) :: s.eng.evs } }

theorem engApply_event (m sl : Nat) (b R : Bytes) (hm : m < 4294967296) (hb : b.length < 4294967296) (hsl : sl ≤ R.length) :
    engApply m sl (padded (encEvent m b) ++ R) = .ok (8 + b.length) := by
  unfold engApply
  rw [rd32_event m hm, rd32_event_len m b R hb]
  have h1 : atLeast (padded (encEvent m b) ++ R) (8 + sl) = true := by
    rw [atLeast_iff]; simp; have := pad4_ge (8 + b.length); omega
  have h2 : atLeast (padded (encEvent m b) ++ R) (8 + b.length + sl) = true := by
    rw [atLeast_iff]; simp; have := pad4_ge (8 + b.length); omega
  simp [h1, h2]

theorem readStep_event (cfg : Cfg) (s : RS) (b R : Bytes) (hm : cfg.evMagic < 4294967296) (hk : kindOf cfg.evMagic = .user)
    (hb : b.length < 4294967296) (hrest : s.rest = padded (encEvent cfg.evMagic b) ++ R) (hdk : s.dk = false)
    (hoff : s.eng.off = s.pos) (hbig : bigTail s = false) (hsl : s.slack ≤ R.length) :
    readStep cfg s = .cont (afterEvent cfg s b R) := by
  have h4 : atLeast s.rest 4 = true := by
    rw [atLeast_iff, hrest]; simp; have := pad4_ge (8 + b.length); omega
  have hrb : atLeast s.rest (pad4 (8 + b.length) + s.slack) = true := by
    rw [atLeast_iff, hrest]; simp; omega
  have hp : pad4 (8 + b.length) ≠ 0 := by have := pad4_ge (8 + b.length); omega
  simp only [readStep, preCommit, hbig, Bool.false_eq_true, if_false, h4, Bool.not_true]
  rw [hrest, rd32_event _ hm, hk]
  simp only [stepKind, applyStep, hdk, Bool.false_eq_true, if_false]
  rw [hrest, engApply_event _ _ _ _ hm hb hsl]
  simp only [hoff]
  have e1 : ¬ (s.pos + ((pad4 (8 + b.length) : Nat) : Int) < s.pos) := by omega
  have e2 : (s.pos + ((pad4 (8 + b.length) : Nat) : Int) - s.pos).toNat = pad4 (8 + b.length) := by omega
  simp only [e1, if_false, e2]
  rw [← hrest, hrb]
  simp only [Bool.not_true, Bool.false_eq_true, if_false, hp]
  simp only [afterEvent, RS.advance, pad4_pad4, hrest, hoff]
  have t1 := take_padded (encEvent cfg.evMagic b) R
  have t2 := drop_padded (encEvent cfg.evMagic b) R
  have t3 := take_unpadded (encEvent cfg.evMagic b) R
  simp only [encEvent_length] at t1 t2 t3
  rw [t1, t2, t3]


theorem rd32_crc_magic (ts p : Nat) (c : UInt32) (R : Bytes) : rd32 (encCrc ts p c ++ R) = magicCrc := by
  simp only [encCrc, List.append_assoc]; exact rd32_le32 _ (by decide) _

theorem rd32_crc_ts (ts p : Nat) (c : UInt32) (R : Bytes) (h : ts < 4294967296) : rd32 ((encCrc ts p c ++ R).drop 4) = ts := by
  simp only [encCrc, List.append_assoc]
  have : (le32 magicCrc ++ (le32 ts ++ (le64 p ++ (le32 c.toNat ++ R)))).drop 4 = le32 ts ++ (le64 p ++ (le32 c.toNat ++ R)) := by
    simp [le32]
  rw [this]; exact rd32_le32 _ h _

theorem rd32_crc_crc (ts p : Nat) (c : UInt32) (R : Bytes) : UInt32.ofNat (rd32 ((encCrc ts p c ++ R).drop 16)) = c := by
  simp only [encCrc, List.append_assoc]
  have : (le32 magicCrc ++ (le32 ts ++ (le64 p ++ (le32 c.toNat ++ R)))).drop 16 = le32 c.toNat ++ R := by
    simp [le32, le64]
  rw [this, rd32_le32 _ (UInt32.toNat_lt c)]
  simp

def afterCrc (cfg : Cfg) (s : RS) (ts p : Nat) (R : Bytes) : RS :=
  { s with pos := s.pos + 20, crc := cfg.upd s.crc (encCrc ts p s.crc), rest := R, dk := false, ts := ts,
           eng := { s.eng with off := s.eng.off + 20 } }

theorem readStep_crcRec (cfg : Cfg) (s : RS) (ts p : Nat) (R : Bytes) (hts : ts < 4294967296)
    (hrest : s.rest = encCrc ts p s.crc ++ R) (hoff : s.eng.off = s.pos) (hbig : bigTail s = false) :
    readStep cfg s = .cont (afterCrc cfg s ts p R) := by
  have h4 : atLeast s.rest 4 = true := by rw [atLeast_iff, hrest]; simp; omega
  have h20 : atLeast s.rest 20 = true := by rw [atLeast_iff, hrest]; simp
  have hk : kindOf (rd32 s.rest) = .crc := by rw [hrest, rd32_crc_magic]; decide
  have hmm : crcMismatch s = false := by
    unfold crcMismatch; rw [hrest, rd32_crc_crc]; simp
  have hts' : rd32 (s.rest.drop 4) = ts := by rw [hrest]; exact rd32_crc_ts _ _ _ _ hts
  simp only [readStep, preCommit, hbig, Bool.false_eq_true, if_false, h4, Bool.not_true, hk, stepKind, stepCrc, h20, if_true, hmm,
    skipLev, hts', hoff, levCrcSize]
  simp only [ne_eq, not_true_eq_false, if_false, afterCrc, RS.advance, hoff]
  have t1 : (s.rest).take 20 = encCrc ts p s.crc := by rw [hrest]; exact List.take_left' (by simp)
  have t2 : (s.rest).drop 20 = R := by rw [hrest]; exact List.drop_left' (by simp)
  rw [t1, t2]; rfl


structure Ev where
  body : Bytes
  asap : Bool
  ts : Nat

def evBytes (cfg : Cfg) (e : Ev) : Bytes := encEvent cfg.evMagic e.body

/-- one accepted `Append`: `putBody` of the model (hash inputs are irrelevant without rotation) -/
def wnext (cfg : Cfg) (w : WS) (e : Ev) : WS := putBody cfg w (evBytes cfg e) e.asap e.ts 0 0

def writeAll (cfg : Cfg) (w : WS) : List Ev → WS
  | [] => w
  | e :: es => writeAll cfg (wnext cfg w e) es

/-- no append of the list takes the `Add Rotate Levs` branch -/
def NoRotate (cfg : Cfg) (w : WS) : List Ev → Prop
  | [] => True
  | e :: es => needRotate cfg (putCrc cfg w (evBytes cfg e) e.ts) = false ∧ NoRotate cfg (wnext cfg w e) es

/-- (offset the writer assigned, framed event): the offset is `offsetGlobal` when the Append was accepted, i.e. the value
    the previous Append returned -/
def offsets (cfg : Cfg) (w : WS) : List Ev → List (Int × Bytes)
  | [] => []
  | e :: es => ((w.offG : Int), evBytes cfg e) :: offsets cfg (wnext cfg w e) es

def crcPart (cfg : Cfg) (w : WS) (e : Ev) : Bytes :=
  let w1 := appendLev cfg w (evBytes cfg e)
  if needCrc cfg w1 then encCrc e.ts w1.offG w1.crc else []

theorem appendLev_buff (cfg : Cfg) (w : WS) (d : Bytes) : (appendLev cfg w d).buff = w.buff ++ padded d := rfl

theorem wnext_fields (cfg : Cfg) (w : WS) (e : Ev) (h : needRotate cfg (putCrc cfg w (evBytes cfg e) e.ts) = false) :
    (wnext cfg w e).buff = w.buff ++ (padded (evBytes cfg e) ++ crcPart cfg w e) ∧
    (wnext cfg w e).offG = w.offG + pad4 (8 + e.body.length) + (crcPart cfg w e).length ∧
    (wnext cfg w e).crc = (if needCrc cfg (appendLev cfg w (evBytes cfg e)) = true
        then cfg.upd (cfg.upd w.crc (padded (evBytes cfg e))) (encCrc e.ts (w.offG + pad4 (8 + e.body.length)) (cfg.upd w.crc (padded (evBytes cfg e))))
        else cfg.upd w.crc (padded (evBytes cfg e))) := by
  have hp : padded (encCrc e.ts (appendLev cfg w (evBytes cfg e)).offG (appendLev cfg w (evBytes cfg e)).crc)
      = encCrc e.ts (appendLev cfg w (evBytes cfg e)).offG (appendLev cfg w (evBytes cfg e)).crc := padded_of_mod (by simp)
  unfold wnext putBody
  simp only [h, Bool.false_eq_true, if_false]
  unfold crcPart
  by_cases hc : needCrc cfg (appendLev cfg w (evBytes cfg e)) = true
  · simp only [putCrc, hc, if_true, addCrc]
    split <;> simp [appendLev, hp, evBytes, List.append_assoc] <;> simp [appendLev, evBytes] at hp <;> simp [hp] <;> decide
  · simp only [putCrc, hc, if_false]
    split <;> simp [appendLev, evBytes]


theorem writeAll_buff (cfg : Cfg) : ∀ (es : List Ev) (w : WS), NoRotate cfg w es →
    ∃ X, (writeAll cfg w es).buff = w.buff ++ X ∧ w.offG ≤ (writeAll cfg w es).offG
  | [], w, _ => ⟨[], by simp [writeAll], by simp [writeAll]⟩
  | e :: es, w, h => by
    obtain ⟨X, hX, hle⟩ := writeAll_buff cfg es (wnext cfg w e) h.2
    obtain ⟨hb, ho, _⟩ := wnext_fields cfg w e h.1
    refine ⟨(padded (evBytes cfg e) ++ crcPart cfg w e) ++ X, ?_, ?_⟩
    · simp only [writeAll]; rw [hX, hb, List.append_assoc]
    · simp only [writeAll]; omega

theorem kindOf_user {m : Nat} (h : m ∉ serviceMagics) : kindOf m = .user := by
  simp only [serviceMagics, List.mem_cons, List.not_mem_nil, or_false, not_or] at h
  obtain ⟨a, b, c, d, e, f, g, i, j, k⟩ := h
  simp [kindOf, a, b, c, d, e, f, g, i, j, k]

theorem readLoop_nil (cfg : Cfg) (fuel : Nat) (s : RS) (h : s.rest = []) :
    readLoop cfg (fuel + 1) s = { s := (preCommit s).commit, rotated := false, err := none } := by
  have h4 : atLeast s.rest 4 = false := by rw [h]; rfl
  simp [readLoop, readStep, h4]

end SH.C18
