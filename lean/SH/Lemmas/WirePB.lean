/-
  SH.Lemmas.WirePB — Protobuf round trip for Props/C13: proto3 encoding (as proto.Marshal produces it) of a batch,
  decoded by the model of protobuf.go, gives back the batch.
-/
import SH.Lemmas.Wire
import Mathlib.Tactic.Ring
namespace SH.Wire

/-! ### varint -/

theorem pbVarintGo_enc : ∀ (f i acc v : Nat) (r : Bytes), i + f = 10 → 1 ≤ f → v * 2 ^ (7 * i) < 2 ^ 64 →
    pbVarintGo i acc (pbEncVarint f v ++ r) = .ok (acc + v * 2 ^ (7 * i), r) := by
  intro f
  induction f with
  | zero => intro i acc v r _ h; omega
  | succ f ih =>
    intro i acc v r hi _ hv
    by_cases h128 : v < 128
    · simp only [pbEncVarint, if_pos h128, List.singleton_append]
      unfold pbVarintGo
      by_cases h9 : i ≥ 9
      · have : i = 9 := by omega
        subst this
        have hv2 : v < 2 := by
          have : v * 9223372036854775808 < 18446744073709551616 := by simpa using hv
          omega
        simp [hv2]
      · simp [h9, h128]
    · simp only [pbEncVarint, if_neg h128, List.cons_append]
      have h9 : ¬ i ≥ 9 := by
        intro h9
        have : i = 9 := by omega
        subst this
        have : v * 9223372036854775808 < 18446744073709551616 := by simpa using hv
        omega
      unfold pbVarintGo
      have hy : ¬ (v % 128 + 128 < 128) := by omega
      simp only [h9, hy, if_false]
      have hpow : 2 ^ (7 * (i + 1)) = 128 * 2 ^ (7 * i) := by
        rw [Nat.mul_add, Nat.pow_add]; simp; ring
      have hv' : v / 128 * 2 ^ (7 * (i + 1)) < 2 ^ 64 := by
        rw [hpow]
        have h1 : v / 128 * 128 ≤ v := Nat.div_mul_le_self v 128
        calc v / 128 * (128 * 2 ^ (7 * i)) = (v / 128 * 128) * 2 ^ (7 * i) := by ring
          _ ≤ v * 2 ^ (7 * i) := Nat.mul_le_mul_right _ h1
          _ < 2 ^ 64 := hv
      rw [ih (i + 1) _ (v / 128) r (by omega) (by omega) hv']
      have hsub : v % 128 + 128 - 128 = v % 128 := by omega
      rw [hsub, hpow]
      have hdm : v = 128 * (v / 128) + v % 128 := (Nat.div_add_mod v 128).symm
      have e : acc + v % 128 * 2 ^ (7 * i) + v / 128 * (128 * 2 ^ (7 * i)) = acc + v * 2 ^ (7 * i) := by
        generalize 2 ^ (7 * i) = P
        conv => rhs; rw [hdm]
        ring
      rw [e]

theorem pbVarint_enc (x : Nat) (r : Bytes) (hx : x < 2 ^ 64) : pbVarint (pbEncV x ++ r) = .ok (x, r) := by
  unfold pbVarint pbEncV
  have := pbVarintGo_enc 10 0 0 x r rfl (by decide) (by simpa using hx)
  simpa using this

theorem pbEncV_length_pos (x : Nat) : 1 ≤ (pbEncV x).length := by
  unfold pbEncV; simp only [pbEncVarint]; split <;> simp

/-! ### primitives -/

theorem pbTag_enc (num typ : Nat) (r : Bytes) (h1 : 1 ≤ num) (h2 : num ≤ 2 ^ 28) (ht : typ < 8) :
    pbTag (pbEncTag num typ ++ r) = .ok ((num, typ), r) := by
  have h2' : num ≤ 268435456 := by simpa using h2
  unfold pbTag pbEncTag
  rw [pbVarint_enc _ _ (by simp; omega)]
  simp only []
  have a : (num * 8 + typ) / 8 = num := by omega
  have b : (num * 8 + typ) % 8 = typ := by omega
  rw [a, b, if_neg (by simp; omega)]

theorem pbBytes_enc (d r : Bytes) (hd : d.length < 2 ^ 64) : pbBytes (pbEncV d.length ++ (d ++ r)) = .ok (d, r) := by
  unfold pbBytes
  rw [pbVarint_enc _ _ hd]
  simp only []
  rw [if_neg (by simp), List.take_left, List.drop_left]

theorem pbFixed64_enc (x : Nat) (r : Bytes) (hx : x < 2 ^ 64) : pbFixed64 (le 8 x ++ r) = .ok (x, r) := by
  unfold pbFixed64
  have hl : ¬ (le 8 x ++ r).length < 8 := by simp [le_length]
  rw [if_neg hl, take_le_append, drop_le_append, rdLE_le_of_lt (by simpa using hx)]

theorem pbEncTag_length_pos (num typ : Nat) : 1 ≤ (pbEncTag num typ).length := pbEncV_length_pos _

theorem pbEncLen_length_ge (num : Nat) (d : Bytes) : 2 ≤ (pbEncLen num d).length := by
  unfold pbEncLen
  have := pbEncTag_length_pos num 2
  have := pbEncV_length_pos d.length
  simp only [List.length_append]; omega

theorem pbEncLen_ne_nil (num : Nat) (d : Bytes) (t : Bytes) : pbEncLen num d ++ t ≠ [] := by
  have := pbEncLen_length_ge num d
  intro h
  have h' := congrArg List.length h
  rw [List.length_append] at h'
  simp only [List.length_nil] at h'
  omega

/-- a length-delimited record read back: tag, then the payload -/
theorem pbLen_tag (num : Nat) (d t : Bytes) (h1 : 1 ≤ num) (h2 : num ≤ 2 ^ 28) :
    pbTag (pbEncLen num d ++ t) = .ok ((num, 2), pbEncV d.length ++ (d ++ t)) := by
  unfold pbEncLen
  simp only [List.append_assoc]
  exact pbTag_enc num 2 _ h1 h2 (by decide)

/-! ### map entry and centroid -/

theorem pbEntry_enc (k v : Bytes) (hk : k.length < 2 ^ 32) (hv : v.length < 2 ^ 32) :
    pbEntry ((pbEncLen 1 k ++ pbEncLen 2 v).length + 1) ([], []) (pbEncLen 1 k ++ pbEncLen 2 v) = .ok (k, v) := by
  obtain ⟨n, hn⟩ : ∃ n, (pbEncLen 1 k ++ pbEncLen 2 v).length + 1 = n + 3 := by
    have := pbEncLen_length_ge 1 k; have := pbEncLen_length_ge 2 v
    exact ⟨(pbEncLen 1 k ++ pbEncLen 2 v).length - 2, by simp only [List.length_append]; omega⟩
  rw [hn]
  have hk64 : k.length < 2 ^ 64 := Nat.lt_trans hk (by decide)
  have hv64 : v.length < 2 ^ 64 := Nat.lt_trans hv (by decide)
  simp only [pbEntry]
  rw [if_neg (pbEncLen_ne_nil 1 k _), pbLen_tag 1 k _ (by decide) (by decide)]
  simp only [and_self, if_true]
  rw [pbBytes_enc k _ hk64]
  simp only []
  have hne : pbEncLen 2 v ≠ [] := by have := pbEncLen_ne_nil 2 v []; simpa using this
  rw [if_neg hne]
  have ht := pbLen_tag 2 v [] (by decide) (by decide)
  rw [List.append_nil] at ht
  rw [ht]
  simp only []
  rw [if_neg (by decide), if_pos (by decide)]
  rw [pbBytes_enc v [] hv64]
  simp

theorem pbF64rec_ne_nil (n x : Nat) (t : Bytes) : pbEncTag n 1 ++ le 8 x ++ t ≠ [] := by
  intro h
  have h' := congrArg List.length h
  simp only [List.length_append, le_length, List.length_nil] at h'
  omega

/-- one fixed64 record of a centroid: `upd` stores it -/
theorem pbCentroid_step1 (f : Nat) (c : Nat × Nat) (x : Nat) (t : Bytes) (hx : x < 2 ^ 64) :
    pbCentroid (f + 1) c (pbEncTag 1 1 ++ le 8 x ++ t) = pbCentroid f (x, c.2) t := by
  simp only [pbCentroid]
  rw [if_neg (pbF64rec_ne_nil 1 x t), List.append_assoc, pbTag_enc 1 1 _ (by decide) (by decide) (by decide)]
  simp only [and_self, if_true]
  rw [pbFixed64_enc x t hx]

theorem pbCentroid_step2 (f : Nat) (c : Nat × Nat) (x : Nat) (t : Bytes) (hx : x < 2 ^ 64) :
    pbCentroid (f + 1) c (pbEncTag 2 1 ++ le 8 x ++ t) = pbCentroid f (c.1, x) t := by
  simp only [pbCentroid]
  rw [if_neg (pbF64rec_ne_nil 2 x t), List.append_assoc, pbTag_enc 2 1 _ (by decide) (by decide) (by decide)]
  simp only []
  rw [if_neg (by decide), if_pos (by decide), pbFixed64_enc x t hx]

def pbEncCentroid (h : Nat × Nat) : Bytes :=
  (if h.1 = 0 then [] else pbEncTag 1 1 ++ le 8 h.1) ++ (if h.2 = 0 then [] else pbEncTag 2 1 ++ le 8 h.2)

theorem pbCentroid_enc (h : Nat × Nat) (h1 : h.1 < 2 ^ 64) (h2 : h.2 < 2 ^ 64) :
    pbCentroid ((pbEncCentroid h).length + 1) (0, 0) (pbEncCentroid h) = .ok h := by
  obtain ⟨a, b⟩ := h
  simp only at h1 h2
  unfold pbEncCentroid
  simp only []
  by_cases ha : a = 0 <;> by_cases hb : b = 0
  · subst ha; subst hb; simp [pbCentroid]
  · subst ha
    simp only [if_true, if_neg hb, List.nil_append]
    have e : (pbEncTag 2 1 ++ le 8 b).length + 1 = ((pbEncTag 2 1).length + 7) + 1 + 1 := by
      simp only [List.length_append, le_length]
    rw [e]
    have := pbCentroid_step2 ((pbEncTag 2 1).length + 7 + 1) (0, 0) b [] h2
    rw [List.append_nil] at this
    rw [this]
    simp [pbCentroid]
  · subst hb
    simp only [if_true, if_neg ha, List.append_nil]
    have e : (pbEncTag 1 1 ++ le 8 a).length + 1 = ((pbEncTag 1 1).length + 7) + 1 + 1 := by
      simp only [List.length_append, le_length]
    rw [e]
    have := pbCentroid_step1 ((pbEncTag 1 1).length + 7 + 1) (0, 0) a [] h1
    rw [List.append_nil] at this
    rw [this]
    simp [pbCentroid]
  · simp only [if_neg ha, if_neg hb]
    have e : (pbEncTag 1 1 ++ le 8 a ++ (pbEncTag 2 1 ++ le 8 b)).length + 1
        = ((pbEncTag 1 1).length + (pbEncTag 2 1).length + 14) + 1 + 1 + 1 := by
      simp only [List.length_append, le_length]; omega
    rw [e, pbCentroid_step1 _ (0, 0) a _ h1]
    have := pbCentroid_step2 ((pbEncTag 1 1).length + (pbEncTag 2 1).length + 14 + 1) (a, 0) b [] h2
    rw [List.append_nil] at this
    rw [this]
    simp [pbCentroid]

/-! ### packed runs -/

theorem pbPackedF64_succ (f : Nat) (b : Bytes) :
    pbPackedF64 (f + 1) b = if b.length < 8 then [] else rdLE (b.take 8) :: pbPackedF64 f (b.drop 8) := rfl

theorem pbPackedF64_enc (xs : List Nat) (hx : ∀ x ∈ xs, x < 2 ^ 64) (k : Nat) :
    pbPackedF64 (k + xs.length) (catMap (le 8) xs) = xs := by
  induction xs with
  | nil => cases k <;> simp [pbPackedF64, catMap]
  | cons x xs ih =>
    have e : k + (x :: xs).length = (k + xs.length) + 1 := by simp; omega
    have hl : ¬ (le 8 x ++ catMap (le 8) xs).length < 8 := by simp [le_length]
    rw [e, catMap_cons, pbPackedF64_succ, if_neg hl, take_le_append, drop_le_append,
      rdLE_le_of_lt (by simpa using hx x (by simp)), ih (fun y hy => hx y (by simp [hy]))]

theorem catMap_le8_length (xs : List Nat) : (catMap (le 8) xs).length = 8 * xs.length := by
  induction xs with
  | nil => rfl
  | cons x xs ih => simp only [catMap, List.length_append, le_length, ih, List.length_cons]; omega

theorem pbPackedVar_succ (f : Nat) (b : Bytes) :
    pbPackedVar (f + 1) b = if b = [] then ([], none) else
      match pbVarint b with
      | .error e => ([], some e)
      | .ok (x, r) => (x :: (pbPackedVar f r).1, (pbPackedVar f r).2) := rfl

theorem pbPackedVar_enc (xs : List Nat) (hx : ∀ x ∈ xs, x < 2 ^ 64) (k : Nat) :
    pbPackedVar (k + xs.length + 1) (catMap pbEncV xs) = (xs, none) := by
  induction xs with
  | nil => rw [pbPackedVar_succ]; simp [catMap]
  | cons x xs ih =>
    have e : k + (x :: xs).length + 1 = (k + xs.length + 1) + 1 := by simp; omega
    have hne : pbEncV x ++ catMap pbEncV xs ≠ [] := by
      intro h
      have h' := congrArg List.length h
      have := pbEncV_length_pos x
      simp only [List.length_append, List.length_nil] at h'; omega
    rw [e, catMap_cons, pbPackedVar_succ, if_neg hne, pbVarint_enc x _ (hx x (by simp))]
    simp only []
    rw [ih (fun y hy => hx y (by simp [hy]))]

/-! ### one record of a metric -/

theorem pbMetric_step (v : Variant) (f : Nat) (m m' : Metric) (num typ : Nat) (b r t : Bytes)
    (hb : b ≠ []) (ht : pbTag b = .ok ((num, typ), r)) (hf : pbMetricField v m num typ r = .ok (m', t)) :
    pbMetric v (f + 1) m b = pbMetric v f m' t := by
  simp only [pbMetric]
  rw [if_neg hb, ht]
  simp only []
  rw [hf]

theorem pbRec_name (v : Variant) (f : Nat) (m : Metric) (s t : Bytes) (hs : s.length < 2 ^ 32) :
    pbMetric v (f + 1) m (pbEncLen 1 s ++ t) = pbMetric v f { m with name := s } t := by
  apply pbMetric_step v f m _ 1 2 _ _ t (pbEncLen_ne_nil 1 s t) (pbLen_tag 1 s t (by decide) (by decide))
  unfold pbMetricField
  rw [if_pos (by decide), pbBytes_enc s t (Nat.lt_trans hs (by decide))]
  rfl

theorem pbRec_tag (v : Variant) (f : Nat) (m : Metric) (kv : Bytes × Bytes) (t : Bytes)
    (hk : kv.1.length < 2 ^ 32) (hv : kv.2.length < 2 ^ 32) :
    pbMetric v (f + 1) m (pbEncLen 2 (pbEncLen 1 kv.1 ++ pbEncLen 2 kv.2) ++ t)
      = pbMetric v f { m with tags := m.tags ++ [kv] } t := by
  have hd : (pbEncLen 1 kv.1 ++ pbEncLen 2 kv.2).length < 2 ^ 64 := by
    have a := pbEncV_length_pos 0
    unfold pbEncLen pbEncTag
    simp only [List.length_append]
    have : ∀ x, (pbEncV x).length ≤ 10 := by
      intro x; unfold pbEncV
      have : ∀ f y, (pbEncVarint f y).length ≤ f := by
        intro f; induction f with
        | zero => intro y; simp [pbEncVarint]
        | succ f ih => intro y; simp only [pbEncVarint]; split <;> simp; have := ih (y / 128); omega
      exact this 10 x
    have h1 := this (1 * 8 + 2); have h2 := this kv.1.length; have h3 := this (2 * 8 + 2); have h4 := this kv.2.length
    have : (2:Nat) ^ 32 = 4294967296 := by decide
    have : (2:Nat) ^ 64 = 18446744073709551616 := by decide
    omega
  apply pbMetric_step v f m _ 2 2 _ _ t (pbEncLen_ne_nil 2 _ t) (pbLen_tag 2 _ t (by decide) (by decide))
  unfold pbMetricField
  rw [if_neg (by decide), if_pos (by decide), pbBytes_enc _ t hd]
  simp only []
  rw [pbEntry_enc kv.1 kv.2 hk hv]

end SH.Wire
