/-
  SH.Lemmas.BinlogWB — `writeBuffer` writes exactly the chunks of the layout (contents, not only byte counts), for Props/C18.
-/
import SH.Lemmas.BinlogAll
import SH.Lemmas.BinlogWriter
open SH.Binlog
namespace SH.C18

/-! ### writeBuffer writes exactly the chunks of the layout -/

/-- bytes a batch of appends puts into the buffer -/
def flat (cfg : Cfg) : WS → List Ap → Bytes
  | _, [] => []
  | w, a :: as => (apA cfg w a ++ (if rotates cfg w a then apRT cfg w a ++ apRF cfg w a else [])) ++ flat cfg (apNext cfg w a) as

/-- rotation positions the batch records, for a buffer that held `base` bytes before -/
def rp (cfg : Cfg) : WS → List Ap → Nat → List Nat
  | _, [], _ => []
  | w, a :: as, base =>
    (if rotates cfg w a then [base + (apA cfg w a).length + 36] else []) ++
      rp cfg (apNext cfg w a) as (base + (apA cfg w a).length + (if rotates cfg w a then 72 else 0))

theorem runAll_buff (cfg : Cfg) : ∀ (as : List Ap) (w : WS),
    (runAll cfg w as).buff = w.buff ++ flat cfg w as ∧ (runAll cfg w as).rotPos = w.rotPos ++ rp cfg w as w.buff.length
  | [], w => by simp [runAll, flat, rp]
  | a :: as, w => by
    obtain ⟨hb, hr⟩ := apNext_buffL cfg w a
    obtain ⟨ib, ir⟩ := runAll_buff cfg as (apNext cfg w a)
    simp only [runAll, flat, rp]
    rw [ib, ir, hb, hr]
    by_cases h : rotates cfg w a = true
    · simp [h, apRT, apRF, List.append_assoc, Nat.add_assoc]
    · have h' : rotates cfg w a = false := by simpa using h
      simp [h', List.append_assoc]


theorem slice_pre (x y z : Bytes) (i : Nat) (hi : i ≤ x.length) :
    slice (x ++ (y ++ z)) i (x.length + y.length) = x.drop i ++ y := by
  unfold slice
  rw [List.drop_append_of_le_length hi, ← List.append_assoc, List.take_append_of_le_length (by simp; omega)]
  rw [List.take_of_length_le (by simp; omega)]

theorem slice_mid (x y z : Bytes) : slice (x ++ (y ++ z)) x.length (x.length + y.length) = y := by
  have := slice_pre x y z x.length (Nat.le_refl _)
  simpa using this

theorem splitC_bytes (cfg : Cfg) : ∀ (as : List Ap) (w : WS) (c c' : Cur), c.bytes = c'.bytes →
    (splitC cfg w as c).1 = (splitC cfg w as c').1 ∧ (splitC cfg w as c).2.bytes = (splitC cfg w as c').2.bytes
  | [], _, _, _, h => ⟨rfl, h⟩
  | a :: as, w, c, c', h => by
    by_cases hr : rotates cfg w a = true
    · simp only [splitC, hr, if_true, h, and_self]
    · have hr' : rotates cfg w a = false := by simpa using hr
      simp only [splitC, hr', Bool.false_eq_true, if_false]
      apply splitC_bytes cfg as
      simp only [Cur.bytes] at h ⊢
      rw [← List.append_assoc, ← List.append_assoc, h]

def mkCur (d : Bytes) : Cur := ⟨d, [], 0, 0⟩

/-- `writeBuffer` on the buffer of a batch: the current file receives the rest of its chunk, every rotation closes a chunk and
    opens the next with its ROTATE_FROM — exactly the chunks `splitC` (hence `layoutC`/`allFiles`) describes -/
theorem writeBuffer_split (cfg : Cfg) : ∀ (as : List Ap) (w : WS) (l : LS) (pfx : Bytes) (prev : Nat), prev ≤ pfx.length →
    (writeBuffer l (pfx ++ flat cfg w as) prev (rp cfg w as pfx.length)).cur.data
      = (splitC cfg w as (mkCur (l.cur.data ++ pfx.drop prev))).2.bytes ∧
    (writeBuffer l (pfx ++ flat cfg w as) prev (rp cfg w as pfx.length)).older.map (·.data)
      = (splitC cfg w as (mkCur (l.cur.data ++ pfx.drop prev))).1.reverse ++ l.older.map (·.data)
  | [], w, l, pfx, prev, _ => by
    simp [flat, rp, writeBuffer, splitC, mkCur, Cur.bytes, FileS.write]
  | a :: as, w, l, pfx, prev, hp => by
    by_cases hr : rotates cfg w a = true
    · -- rotation inside the batch
      have hRT : (apRT cfg w a).length = 36 := by simp [apRT]
      have hRF : (apRF cfg w a).length = 36 := by simp [apRF]
      have hbuf : pfx ++ flat cfg w (a :: as)
          = (pfx ++ (apA cfg w a ++ (apRT cfg w a ++ apRF cfg w a))) ++ flat cfg (apNext cfg w a) as := by
        simp [flat, hr, List.append_assoc]
      have hlen : (pfx ++ (apA cfg w a ++ (apRT cfg w a ++ apRF cfg w a))).length = pfx.length + (apA cfg w a).length + 72 := by
        simp [hRT, hRF]; omega
      have ih := writeBuffer_split cfg as (apNext cfg w a)
        (rotateFS { l with cur := l.cur.write (pfx.drop prev ++ apA cfg w a) } (apRT cfg w a) (apRF cfg w a))
        (pfx ++ (apA cfg w a ++ (apRT cfg w a ++ apRF cfg w a))) (pfx.length + (apA cfg w a).length + 72) (by omega)
      have s1 : slice (pfx ++ flat cfg w (a :: as)) prev (pfx.length + (apA cfg w a).length + 36 - levRotateSize) = pfx.drop prev ++ apA cfg w a := by
        have : pfx ++ flat cfg w (a :: as) = pfx ++ (apA cfg w a ++ ((apRT cfg w a ++ apRF cfg w a) ++ flat cfg (apNext cfg w a) as)) := by
          simp [flat, hr, List.append_assoc]
        rw [this, show pfx.length + (apA cfg w a).length + 36 - levRotateSize = pfx.length + (apA cfg w a).length by simp [levRotateSize]]
        exact slice_pre _ _ _ _ hp
      have s2 : slice (pfx ++ flat cfg w (a :: as)) (pfx.length + (apA cfg w a).length + 36 - levRotateSize) (pfx.length + (apA cfg w a).length + 36)
          = apRT cfg w a := by
        have : pfx ++ flat cfg w (a :: as) = (pfx ++ apA cfg w a) ++ (apRT cfg w a ++ (apRF cfg w a ++ flat cfg (apNext cfg w a) as)) := by
          simp [flat, hr, List.append_assoc]
        rw [this, show pfx.length + (apA cfg w a).length + 36 - levRotateSize = (pfx ++ apA cfg w a).length by simp [levRotateSize],
          show pfx.length + (apA cfg w a).length + 36 = (pfx ++ apA cfg w a).length + (apRT cfg w a).length by simp [hRT, Nat.add_assoc]]
        exact slice_mid _ _ _
      have s3 : slice (pfx ++ flat cfg w (a :: as)) (pfx.length + (apA cfg w a).length + 36) (pfx.length + (apA cfg w a).length + 36 + levRotateSize)
          = apRF cfg w a := by
        have : pfx ++ flat cfg w (a :: as) = (pfx ++ apA cfg w a ++ apRT cfg w a) ++ (apRF cfg w a ++ flat cfg (apNext cfg w a) as) := by
          simp [flat, hr, List.append_assoc]
        rw [this, show pfx.length + (apA cfg w a).length + 36 = (pfx ++ apA cfg w a ++ apRT cfg w a).length by simp [hRT, Nat.add_assoc],
          show (pfx ++ apA cfg w a ++ apRT cfg w a).length + levRotateSize = (pfx ++ apA cfg w a ++ apRT cfg w a).length + (apRF cfg w a).length by simp [hRF, levRotateSize]]
        exact slice_mid _ _ _
      have hdrop : (pfx ++ (apA cfg w a ++ (apRT cfg w a ++ apRF cfg w a))).drop (pfx.length + (apA cfg w a).length + 72) = [] :=
        List.drop_of_length_le (by omega)
      simp only [rp, hr, if_true, List.singleton_append, writeBuffer, s1, s2, s3]
      rw [show pfx.length + (apA cfg w a).length + 36 + levRotateSize = pfx.length + (apA cfg w a).length + 72 by simp [levRotateSize],
        hbuf, ← hlen]
      rw [← hlen] at ih
      rw [List.drop_length] at ih
      obtain ⟨i1, i2⟩ := ih
      have hb := splitC_bytes cfg as (apNext cfg w a)
        (mkCur ((rotateFS { l with cur := l.cur.write (pfx.drop prev ++ apA cfg w a) } (apRT cfg w a) (apRF cfg w a)).cur.data ++ []))
        (rfCur cfg w a) (by simp [mkCur, rfCur, Cur.bytes, rotateFS])
      refine ⟨?_, ?_⟩
      · rw [i1]; simp only [splitC, hr, if_true]; exact hb.2
      · rw [i2]; simp only [splitC, hr, if_true, hb.1]
        simp [rotateFS, FileS.write, FileS.sync, mkCur, Cur.bytes, List.append_assoc]
    · have hr' : rotates cfg w a = false := by simpa using hr
      have hbuf : pfx ++ flat cfg w (a :: as) = (pfx ++ apA cfg w a) ++ flat cfg (apNext cfg w a) as := by
        simp [flat, hr', List.append_assoc]
      have ih := writeBuffer_split cfg as (apNext cfg w a) l (pfx ++ apA cfg w a) prev (by simp; omega)
      simp only [rp, hr', Bool.false_eq_true, if_false, List.nil_append, Nat.add_zero]
      rw [hbuf, show pfx.length + (apA cfg w a).length = (pfx ++ apA cfg w a).length by simp]
      obtain ⟨i1, i2⟩ := ih
      have hb := splitC_bytes cfg as (apNext cfg w a) (mkCur (l.cur.data ++ (pfx ++ apA cfg w a).drop prev))
        { mkCur (l.cur.data ++ pfx.drop prev) with body := (mkCur (l.cur.data ++ pfx.drop prev)).body ++ apA cfg w a }
        (by simp [mkCur, Cur.bytes, List.drop_append_of_le_length hp, List.append_assoc])
      refine ⟨?_, ?_⟩
      · rw [i1]; simp only [splitC, hr', Bool.false_eq_true, if_false]; exact hb.2
      · rw [i2]; simp only [splitC, hr', Bool.false_eq_true, if_false, hb.1]


end SH.C18
