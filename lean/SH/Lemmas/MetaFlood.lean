/-
  SH.Lemmas.MetaFlood — frame lemmas for the flood-limit rows (which operations can touch the row of metric `m`) and the
  clock arithmetic of calcBudget under a non-decreasing clock. Used by SH.Props.C19 (`flood_bound`).
-/
import SH.Model.Meta

namespace SH.MetaFlood
open SH.Meta

/-! ### the row of metric `m` is touched only by reset-flood of `m` and by creations of `m` -/

theorem lookup_filter_ne (m m' : Nat) (h : m' ≠ m) : ∀ fl : List Flood,
    lookupFlood (fl.filter (fun g => g.metric != m')) m = lookupFlood fl m := by
  intro fl
  induction fl with
  | nil => rfl
  | cons x xs ih =>
    unfold lookupFlood at ih ⊢
    by_cases hx : x.metric = m'
    · have h1 : (x.metric != m') = false := by simp [hx]
      have h2 : (x.metric == m) = false := by simp [hx, h]
      rw [List.filter_cons, if_neg (by simp [h1]), List.find?_cons, h2]
      exact ih
    · have h1 : (x.metric != m') = true := by simp [hx]
      rw [List.filter_cons, if_pos h1, List.find?_cons, List.find?_cons]
      cases hm : (x.metric == m) with
      | true => rfl
      | false => exact ih

theorem lookup_setFlood_ne (fl : List Flood) (f : Flood) (m : Nat) (h : f.metric ≠ m) :
    lookupFlood (setFlood fl f) m = lookupFlood fl m := by
  unfold setFlood
  have h2 : (f.metric == m) = false := by simp [h]
  have : lookupFlood (f :: fl.filter (fun g => g.metric != f.metric)) m
      = lookupFlood (fl.filter (fun g => g.metric != f.metric)) m := by
    unfold lookupFlood; rw [List.find?_cons, h2]
  rw [this]
  exact lookup_filter_ne m f.metric h fl

theorem lookup_setFlood_eq (fl : List Flood) (f : Flood) : lookupFlood (setFlood fl f) f.metric = some f := by
  unfold setFlood lookupFlood
  rw [List.find?_cons]
  simp

theorem putMany_frame : ∀ (kvs : List (Nat × Int)) (s : State),
    (putMany s kvs).flood = s.flood ∧ (putMany s kvs).lastCreated = s.lastCreated := by
  intro kvs
  induction kvs with
  | nil => intro s; exact ⟨rfl, rfl⟩
  | cons kv rest ih =>
    intro s
    obtain ⟨k, v⟩ := kv
    simp only [putMany]
    have := ih (putOne s k v)
    simpa [putOne] using this

theorem save_frame (s : State) (a : SaveReq) :
    (save s a).1.flood = s.flood ∧ (save s a).1.lastCreated = s.lastCreated ∧ (save s a).1.mapSeq = s.mapSeq ∧
    (save s a).1.maps = s.maps := by
  unfold save saveV
  split
  · simp
  · split
    · simp
    · unfold saveResolved
      split
      · simp
      · split
        · unfold saveCreate; split <;> simp
        · split
          · simp
          · unfold saveEdit
            split
            · simp
            · split
              · split <;> simp
              · simp

/-- the complete case analysis of get-or-create as far as the mapping/flood bookkeeping is concerned -/
inductive GocShape (c : Cfg) (s : State) (m k now : Nat) : State × MapOut → Prop
  | got (id : Int) (hk : lookupKey s.maps k = some id) : GocShape c s m k now (s, .got id)
  | flood (f : Flood) (hk : lookupKey s.maps k = none) (hf : lookupFlood s.flood m = some f)
      (hh : floodHit c s f (roundTime now c.step) = true) : GocShape c s m k now (s, .flood)
  | created (free : Int) (hk : lookupKey s.maps k = none)
      (hfree : (∃ f, lookupFlood s.flood m = some f ∧ floodHit c s f (roundTime now c.step) = false ∧
                  free = budgetFor c s f (roundTime now c.step)) ∨
               (lookupFlood s.flood m = none ∧ free = c.maxBudget - 1)) :
      GocShape c s m k now
        ({ s with maps := (((s.mapSeq + 1 : Nat) : Int), k) :: s.maps, mapSeq := s.mapSeq + 1,
                  flood := setFlood s.flood { metric := m, last := roundTime now c.step, free := free },
                  lastCreated := ((s.mapSeq + 1 : Nat) : Int) },
         .created ((s.mapSeq + 1 : Nat) : Int))

theorem goc_shape (c : Cfg) (s : State) (m k now : Nat) : GocShape c s m k now (getOrCreate c s m k now) := by
  unfold getOrCreate
  cases hk : lookupKey s.maps k with
  | some id => exact .got id hk
  | none =>
    simp only
    unfold createMapping
    cases hf : lookupFlood s.flood m with
    | some f =>
      dsimp only
      by_cases hh : floodHit c s f (roundTime now c.step) = true
      · simp only [hh, if_true]; exact .flood f hk hf hh
      · simp only [hh]
        exact .created _ hk (Or.inl ⟨f, hf, by simpa using hh, rfl⟩)
    | none => exact .created _ hk (Or.inr ⟨hf, rfl⟩)

/-! ### clock arithmetic -/

theorem u32_of_lt {x : Nat} (h : x < two32) : u32 x = x := Nat.mod_eq_of_lt h

theorem roundTime_eq (now step : Nat) (hn : now < two32) : roundTime now step = step * (now / step) := by
  unfold roundTime
  rw [u32_of_lt hn]
  have := Nat.div_add_mod now step
  omega

theorem roundTime_lt (now step : Nat) (hn : now < two32) : roundTime now step < two32 := by
  unfold roundTime
  rw [u32_of_lt hn]
  omega

/-- a row written by a creation at step index `kl`, read at a time whose step index is not smaller: the code's unsigned
    subtraction measures exactly the number of steps in between -/
theorem measured_steps_clean (step kl now : Nat) (hs : 1 ≤ step) (hn : now < two32) (hk : kl ≤ now / step) :
    subU32 (roundTime now step) (u32 (step * kl)) / step = now / step - kl := by
  have hle : step * kl ≤ step * (now / step) := Nat.mul_le_mul_left _ hk
  have hr : step * (now / step) ≤ now := Nat.mul_div_le now step
  have hlt : step * kl < two32 := by omega
  rw [roundTime_eq now step hn, u32_of_lt hlt]
  unfold subU32
  have h1 : step * (now / step) < two32 := by omega
  rw [u32_of_lt h1, u32_of_lt hlt]
  have h2 : step * (now / step) + two32 - step * kl = two32 + (step * (now / step) - step * kl) := by omega
  rw [h2, Nat.add_mod_left, Nat.mod_eq_of_lt (by omega), ← Nat.mul_sub]
  exact Nat.mul_div_cancel_left _ (by omega)

theorem div_mono {a b : Nat} (step : Nat) (h : a ≤ b) : a / step ≤ b / step := Nat.div_le_div_right h

end SH.MetaFlood
