/-
  SH.Lemmas.SamplerTree — structural lemmas about the partition tree of SH.Model.Sampler used by both C05 and C06:
  the groups produced by the partition functions are well formed (positive weight, size = sum of row sizes, fixed
  budget => denom 1), `sumWeight` is the weight of the groups without fixed budget, partitions at or below the
  metric level consist of rows of one metric and carry its NoSampleAgent flag, partitions above it recurse.
  No Mathlib.
-/
import SH.Lemmas.Sampler

namespace SH.Sampler

/-- total weight / size of the groups that take part in the water filling (fixed-budget groups do not) -/
def nfWeight : List Group → Int
  | [] => 0
  | g :: gs => (if g.fixed then 0 else g.weight) + nfWeight gs

def nfSize : List Group → Int
  | [] => 0
  | g :: gs => (if g.fixed then 0 else g.sumSize) + nfSize gs

theorem nfWeight_nonneg (s : List Group) (hw : ∀ g ∈ s, 0 < g.weight) : 0 ≤ nfWeight s := by
  induction s with
  | nil => simp [nfWeight]
  | cons g gs ih =>
    have := ih (fun x hx => hw x (by simp [hx]))
    have := hw g (by simp)
    simp only [nfWeight]; split <;> omega

theorem nfWeight_mem (s : List Group) (hw : ∀ g ∈ s, 0 < g.weight) (p : Group) (hp : p ∈ s) (hf : p.fixed = false) :
    p.weight ≤ nfWeight s := by
  induction s with
  | nil => simp at hp
  | cons g gs ih =>
    have hn := nfWeight_nonneg gs (fun x hx => hw x (by simp [hx]))
    have hg := hw g (by simp)
    simp only [nfWeight]
    rcases List.mem_cons.1 hp with rfl | hp
    · simp [hf]; omega
    · have := ih (fun x hx => hw x (by simp [hx])) hp
      split <;> omega

theorem fits_assign_iff (B W : Int) (g : Group) (hf : g.fixed = false) :
    fits (assign B W g) = true ↔ W * g.sumSize ≤ B * g.weight := by
  simp [fits, assign, hf]

theorem fits_assign_fixed (B W : Int) (g : Group) (hf : g.fixed = true) (hd : g.denom = 1) :
    fits (assign B W g) = true ↔ g.sumSize ≤ g.budget := by
  simp [fits, assign, hf, hd]

theorem mem_of_mem_runs (key : Item → Int) (l : List Item) (r : List Item) (hr : r ∈ runs key l) : ∀ x ∈ r, x ∈ l := by
  intro x hx
  rw [← runs_flatten key l]
  exact List.mem_flatten.2 ⟨r, hr, hx⟩

theorem hd_mem (l : List Item) (h : l ≠ []) : hd l ∈ l := by
  cases l with
  | nil => exact absurd rfl h
  | cons x xs => simp [hd]

theorem clamp1_pos (w : Int) : 0 < clamp1 w := by unfold clamp1; split <;> omega

theorem sumSizes_nonneg (l : List Item) (h : ∀ it ∈ l, 0 ≤ it.size) : 0 ≤ sumSizes l := by
  induction l with
  | nil => simp [sumSizes]
  | cons x xs ih =>
    have := ih (fun y hy => h y (by simp [hy]))
    have := h x (by simp)
    simp only [sumSizes, List.map_cons, List.sum_cons] at *
    omega

/-- rows with positive metric weight and non-negative size only produce groups with positive weight,
    non-negative size, and `denom = 1` when the budget is fixed -/
theorem partPlain_good (cfg : Cfg) (k : PartKind) (d : Nat) (l : List Item)
    (hw : ∀ it ∈ l, 0 < it.wMetric) (hs : ∀ it ∈ l, 0 ≤ it.size) :
    ∀ p ∈ partPlain cfg k d l, 0 < p.weight ∧ 0 ≤ p.sumSize ∧ p.fixed = false ∧ p.sumSize = sumSizes p.items := by
  intro p hp
  cases k with
  | byBudget => simp [partPlain] at hp
  | byNs =>
    simp only [partPlain, List.mem_map] at hp
    obtain ⟨r, hr, rfl⟩ := hp
    exact ⟨clamp1_pos _, sumSizes_nonneg _ (fun it hit => hs it (mem_of_mem_runs _ _ _ hr it hit)), rfl, rfl⟩
  | byGroup =>
    simp only [partPlain, List.mem_map] at hp
    obtain ⟨r, hr, rfl⟩ := hp
    exact ⟨clamp1_pos _, sumSizes_nonneg _ (fun it hit => hs it (mem_of_mem_runs _ _ _ hr it hit)), rfl, rfl⟩
  | byMetric =>
    simp only [partPlain, List.mem_map] at hp
    obtain ⟨r, hr, rfl⟩ := hp
    exact ⟨hw _ (mem_of_mem_runs _ _ _ hr _ (hd_mem r (runs_ne_nil _ _ r hr))),
      sumSizes_nonneg _ (fun it hit => hs it (mem_of_mem_runs _ _ _ hr it hit)), rfl, rfl⟩
  | byKey =>
    simp only [partPlain, List.mem_map] at hp
    obtain ⟨r, hr, rfl⟩ := hp
    exact ⟨by simp [mkKey], sumSizes_nonneg _ (fun it hit => hs it (mem_of_mem_runs _ _ _ hr it hit)), rfl, rfl⟩

theorem partition_good (cfg : Cfg) (g : Group)
    (hw : ∀ it ∈ g.items, 0 < it.wMetric) (hs : ∀ it ∈ g.items, 0 ≤ it.size) :
    ∀ p ∈ partition cfg g, 0 < p.weight ∧ 0 ≤ p.sumSize ∧ (p.fixed = true → p.denom = 1) ∧ p.sumSize = sumSizes p.items := by
  intro p hp
  unfold partition at hp
  split at hp
  · simp only [partBudget, List.mem_append, List.mem_map] at hp
    rcases hp with ⟨r, hr, rfl⟩ | hp
    · have hr' : r ∈ runs (·.metric) g.items := List.takeWhile_subset _ hr
      exact ⟨by simp [mkFixed], sumSizes_nonneg _ (fun it hit => hs it (mem_of_mem_runs _ _ _ hr' it hit)), fun _ => rfl, rfl⟩
    · have hsub : ∀ it ∈ ((runs (·.metric) g.items).dropWhile hasBudget).flatten, it ∈ g.items := by
        intro it hit
        obtain ⟨r, hr, hir⟩ := List.mem_flatten.1 hit
        exact mem_of_mem_runs _ _ _ (List.dropWhile_subset _ hr) it hir
      have := partPlain_good cfg _ _ _ (fun it hit => hw it (hsub it hit)) (fun it hit => hs it (hsub it hit)) p hp
      exact ⟨this.1, this.2.1, fun h => by simp [this.2.2.1] at h, this.2.2.2⟩
  · have := partPlain_good cfg _ _ _ hw hs p hp
    exact ⟨this.1, this.2.1, fun h => by simp [this.2.2.1] at h, this.2.2.2⟩

theorem nfWeight_perm {a b : List Group} (h : a.Perm b) : nfWeight a = nfWeight b := by
  induction h with
  | nil => rfl
  | cons x _ ih => simp [nfWeight, ih]
  | swap x y l => simp only [nfWeight]; omega
  | trans _ _ ih1 ih2 => exact ih1.trans ih2

theorem nfSize_perm {a b : List Group} (h : a.Perm b) : nfSize a = nfSize b := by
  induction h with
  | nil => rfl
  | cons x _ ih => simp [nfSize, ih]
  | swap x y l => simp only [nfSize]; omega
  | trans _ _ ih1 ih2 => exact ih1.trans ih2

theorem nfWeight_eq_sumWeights (s : List Group) (h : ∀ g ∈ s, g.fixed = false) : nfWeight s = sumWeights s := by
  induction s with
  | nil => rfl
  | cons g gs ih =>
    have := ih (fun x hx => h x (by simp [hx]))
    simp [nfWeight, sumWeights, h g (by simp)] at *
    omega

theorem nfWeight_fixed_append (cfg : Cfg) (l : List (List Item)) (x : List Group) :
    nfWeight (l.map (mkFixed cfg) ++ x) = nfWeight x := by
  induction l with
  | nil => rfl
  | cons r rs ih => simp [nfWeight, mkFixed, ih]

theorem partition_plain (cfg : Cfg) (g : Group) (k : PartKind) (h : kindAt cfg g.depth = k) (hk : k ≠ .byBudget) :
    partition cfg g = partPlain cfg k g.depth g.items ∧ partWeight cfg g = sumWeights (partPlain cfg k g.depth g.items) := by
  unfold partition partWeight
  rw [h]
  cases k <;> simp_all

theorem partition_budget (cfg : Cfg) (g : Group) (h : kindAt cfg g.depth = .byBudget) :
    partition cfg g = partBudget cfg g.depth g.items ∧
    partWeight cfg g = (if ((runs (·.metric) g.items).dropWhile hasBudget).flatten.isEmpty then 1
      else sumWeights (partPlain cfg (kindAfterBudget cfg) (g.depth + 1) ((runs (·.metric) g.items).dropWhile hasBudget).flatten)) := by
  unfold partition partWeight
  rw [h]
  exact ⟨rfl, rfl⟩

/-- `sumWeight` as returned by the partition functions is the total weight of the groups without fixed budget
    (whenever there is such a group) -/
theorem partWeight_eq (cfg : Cfg) (g : Group) (hw : ∀ it ∈ g.items, 0 < it.wMetric) (hs : ∀ it ∈ g.items, 0 ≤ it.size)
    (p : Group) (hp : p ∈ partition cfg g) (hpf : p.fixed = false) : partWeight cfg g = nfWeight (partition cfg g) := by
  by_cases hk : kindAt cfg g.depth = .byBudget
  · obtain ⟨e1, e2⟩ := partition_budget cfg g hk
    rw [e1] at hp ⊢
    rw [e2]
    simp only [partBudget, List.mem_append, List.mem_map] at hp
    rw [partBudget, nfWeight_fixed_append]
    have hsub : ∀ it ∈ ((runs (·.metric) g.items).dropWhile hasBudget).flatten, it ∈ g.items := by
      intro it hit
      obtain ⟨r, hr, hir⟩ := List.mem_flatten.1 hit
      exact mem_of_mem_runs _ _ _ (List.dropWhile_subset _ hr) it hir
    have hgood := partPlain_good cfg (kindAfterBudget cfg) (g.depth + 1) _ (fun it hit => hw it (hsub it hit)) (fun it hit => hs it (hsub it hit))
    rw [nfWeight_eq_sumWeights _ (fun x hx => (hgood x hx).2.2.1)]
    split
    · rename_i hemp
      rcases hp with ⟨r, _, rfl⟩ | hp
      · simp [mkFixed] at hpf
      · rw [List.isEmpty_iff] at hemp
        rw [hemp] at hp
        cases hk2 : kindAfterBudget cfg <;> simp [partPlain, hk2, runs] at hp
    · rfl
  · obtain ⟨e1, e2⟩ := partition_plain cfg g _ rfl hk
    rw [e1, e2]
    have hgood := partPlain_good cfg (kindAt cfg g.depth) g.depth _ hw hs
    rw [nfWeight_eq_sumWeights _ (fun x hx => (hgood x hx).2.2.1)]

theorem sumSizes_append (a b : List Item) : sumSizes (a ++ b) = sumSizes a + sumSizes b := by
  simp [sumSizes]

theorem nfSize_eq (s : List Group) (h : ∀ p ∈ s, p.fixed = false ∧ p.sumSize = sumSizes p.items) :
    nfSize s = sumSizes (gitems s) := by
  induction s with
  | nil => rfl
  | cons g gs ih =>
    have := ih (fun x hx => h x (by simp [hx]))
    have hg := h g (by simp)
    simp only [nfSize, gitems_cons, sumSizes_append, hg.1, this]
    simp [hg.2]

theorem kindAt_pos (cfg : Cfg) (d : Nat) (hd : 1 ≤ d) : kindAt cfg d ≠ .byBudget := by
  cases d with
  | zero => omega
  | succ n =>
    unfold kindAt partList
    cases cfg.sBudgets <;> cases cfg.sNs <;> cases cfg.sGroups <;> (try cases n) <;> simp <;> (rename_i m; cases m <;> simp) <;>
      (rename_i m; cases m <;> simp)

theorem nPart_pos (cfg : Cfg) : 1 ≤ nPart cfg := by
  unfold nPart partList
  simp only [List.length_append, List.length_cons, List.length_nil]
  omega

theorem partition_depth_pos (cfg : Cfg) (g : Group) : ∀ p ∈ partition cfg g, 1 ≤ p.depth := by
  intro p hp
  have plain : ∀ k d l, ∀ p ∈ partPlain cfg k d l, 1 ≤ p.depth := by
    intro k d l p hp
    cases k <;> simp only [partPlain, List.mem_map, List.not_mem_nil] at hp
    all_goals (obtain ⟨r, _, rfl⟩ := hp; simp [mkNs, mkGrp, mkMetric, mkKey])
  unfold partition at hp
  split at hp
  · simp only [partBudget, List.mem_append, List.mem_map] at hp
    rcases hp with ⟨r, _, rfl⟩ | hp
    · exact nPart_pos cfg
    · exact plain _ _ _ p hp
  · exact plain _ _ _ p hp

theorem runs_key_const (key : Item → Int) (l : List Item) : ∀ r ∈ runs key l, ∀ x ∈ r, key x = key (hd r) := by
  induction l with
  | nil => simp [runs]
  | cons a xs ih =>
    simp only [runs]
    split
    · rename_i y ys rest heq
      rw [heq] at ih
      split
      · rename_i hk
        intro r hr x hx
        rcases List.mem_cons.1 hr with rfl | hr
        · rcases List.mem_cons.1 hx with rfl | hx
          · rfl
          · have := ih (y :: ys) (by simp) x hx
            simp only [hd, List.headD_cons] at this ⊢
            rw [this, hk]
        · exact ih r (by simp [hr]) x hx
      · intro r hr x hx
        rcases List.mem_cons.1 hr with rfl | hr
        · simp at hx; subst hx; rfl
        · exact ih r hr x hx
    · rename_i rest heq
      rw [heq] at ih
      intro r hr x hx
      rcases List.mem_cons.1 hr with rfl | hr
      · simp at hx; subst hx; rfl
      · exact ih r (by simp [hr]) x hx
    · intro r hr x hx
      simp at hr; subst hr
      simp at hx; subst hx; rfl

/-- a partition either carries the flag of all its rows (metric level and below) or sits above the metric level,
    never carries the flag and is entered by the sampling loop -/
def FlagOrAbove (cfg : Cfg) (p : Group) : Prop :=
  (∀ x ∈ p.items, x.metric = (hd p.items).metric) ∧ p.noSample = (hd p.items).noSample ∨
  (p.noSample = false ∧ p.depth < nPart cfg)

theorem kindAt_ns_grp_depth (cfg : Cfg) (d : Nat) (h : kindAt cfg d = .byNs ∨ kindAt cfg d = .byGroup) : d + 1 < nPart cfg := by
  rcases cfg with ⟨_, _, _, _, _, sb, sn, sg, _, _, _, _⟩
  rcases d with _ | _ | _ | _ | d <;> cases sb <;> cases sn <;> cases sg <;>
    simp [kindAt, nPart, partList] at h ⊢

theorem partPlain_flag (cfg : Cfg) (k : PartKind) (d : Nat) (l : List Item)
    (hk : k = .byMetric ∨ ((k = .byNs ∨ k = .byGroup) ∧ d + 1 < nPart cfg)) :
    ∀ p ∈ partPlain cfg k d l, FlagOrAbove cfg p := by
  intro p hp
  rcases hk with rfl | ⟨rfl | rfl, hd'⟩
  · simp only [partPlain, List.mem_map] at hp
    obtain ⟨r, hr, rfl⟩ := hp
    exact Or.inl ⟨fun x hx => runs_key_const (·.metric) l r hr x hx, rfl⟩
  · simp only [partPlain, List.mem_map] at hp
    obtain ⟨r, hr, rfl⟩ := hp
    exact Or.inr ⟨rfl, hd'⟩
  · simp only [partPlain, List.mem_map] at hp
    obtain ⟨r, hr, rfl⟩ := hp
    exact Or.inr ⟨rfl, hd'⟩

theorem kindAfterBudget_ok (cfg : Cfg) (h : kindAt cfg 0 = .byBudget) :
    kindAfterBudget cfg = .byMetric ∨ ((kindAfterBudget cfg = .byNs ∨ kindAfterBudget cfg = .byGroup) ∧ 0 + 1 + 1 < nPart cfg) := by
  rcases cfg with ⟨_, _, _, _, _, sb, sn, sg, _, _, _, _⟩
  cases sb <;> cases sn <;> cases sg <;> simp [kindAt, nPart, partList, kindAfterBudget] at h ⊢

theorem kindAt_budget_depth (cfg : Cfg) (d : Nat) (h : kindAt cfg d = .byBudget) : d = 0 := by
  cases d with
  | zero => rfl
  | succ n => exact absurd h (kindAt_pos' cfg (n + 1) (by omega))
where
  kindAt_pos' (cfg : Cfg) (d : Nat) (hd : 1 ≤ d) : kindAt cfg d ≠ .byBudget := by
    cases d with
    | zero => omega
    | succ n =>
      rcases cfg with ⟨_, _, _, _, _, sb, sn, sg, _, _, _, _⟩
      rcases n with _ | _ | _ | n <;> cases sb <;> cases sn <;> cases sg <;> simp [kindAt, partList]

theorem kindAt_key_depth (cfg : Cfg) (d : Nat) (h : d < nPart cfg) : kindAt cfg d ≠ .byKey := by
  rcases cfg with ⟨_, _, _, _, _, sb, sn, sg, _, _, _, _⟩
  rcases d with _ | _ | _ | _ | d <;> cases sb <;> cases sn <;> cases sg <;>
    simp [kindAt, nPart, partList] at h ⊢ <;> omega

theorem partition_flag (cfg : Cfg) (g : Group) (hd' : g.depth < nPart cfg) : ∀ p ∈ partition cfg g, FlagOrAbove cfg p := by
  intro p hp
  unfold partition at hp
  split at hp
  · rename_i hk
    have h0 := kindAt_budget_depth cfg _ hk
    simp only [partBudget, List.mem_append, List.mem_map] at hp
    rcases hp with ⟨r, hr, rfl⟩ | hp
    · exact Or.inl ⟨fun x hx => runs_key_const (·.metric) _ r (List.takeWhile_subset _ hr) x hx, rfl⟩
    · rw [h0] at hp hk
      exact partPlain_flag cfg _ _ _ (kindAfterBudget_ok cfg hk) p hp
  · rename_i k hk
    refine partPlain_flag cfg _ _ _ ?_ p hp
    cases hkk : kindAt cfg g.depth with
    | byBudget => exact absurd hkk (by simpa using hk)
    | byNs => exact Or.inr ⟨Or.inl rfl, kindAt_ns_grp_depth cfg _ (Or.inl hkk)⟩
    | byGroup => exact Or.inr ⟨Or.inr rfl, kindAt_ns_grp_depth cfg _ (Or.inr hkk)⟩
    | byMetric => exact Or.inl rfl
    | byKey => exact absurd hkk (kindAt_key_depth cfg _ hd')

theorem partition_depth_gt (cfg : Cfg) (g : Group) (hd' : g.depth < nPart cfg) : ∀ p ∈ partition cfg g, g.depth + 1 ≤ p.depth := by
  intro p hp
  have plain : ∀ k d l, ∀ p ∈ partPlain cfg k d l, d + 1 ≤ p.depth := by
    intro k d l p hp
    cases k <;> simp only [partPlain, List.mem_map, List.not_mem_nil] at hp
    all_goals (obtain ⟨r, _, rfl⟩ := hp; simp [mkNs, mkGrp, mkMetric, mkKey])
  unfold partition at hp
  split at hp
  · simp only [partBudget, List.mem_append, List.mem_map] at hp
    rcases hp with ⟨r, _, rfl⟩ | hp
    · simp only [mkFixed]; omega
    · have := plain _ _ _ p hp; omega
  · exact plain _ _ _ p hp

theorem rounded_depth (cfg : Cfg) (g : Group) (ds : List Nat) : (rounded cfg g ds).1.depth = g.depth := by
  unfold rounded
  split
  · rfl
  · split <;> rfl

end SH.Sampler
