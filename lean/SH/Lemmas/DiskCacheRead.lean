/-
  SH.Lemmas.DiskCacheRead — the invariant is preserved by every iteration of the ReadNextTailSecond loop.
-/
import SH.Lemmas.DiskCacheInv

namespace SH.C09
open SH.DiskCache

/-! ### lookups in `ofiles` -/

theorem findO_cons_self (o : OFile) (os : List OFile) : findO (o :: os) o.name = some o := by
  simp [findO]

theorem findO_cons_ne (o : OFile) (os : List OFile) (name : Nat) (h : o.name ≠ name) :
    findO (o :: os) name = findO os name := by
  simp [findO, List.find?_cons, h]

theorem findO_filter_ne (os : List OFile) (n name : Nat) (h : name ≠ n) :
    findO (os.filter (fun g => g.name != n)) name = findO os name := by
  induction os with
  | nil => rfl
  | cons o os ih =>
    by_cases ho : o.name = n
    · have : (o.name != n) = false := by simp [ho]
      rw [List.filter_cons, this]
      simp only [Bool.false_eq_true, if_false]
      rw [ih, findO_cons_ne _ _ _ (by omega)]
    · have : (o.name != n) = true := by simp [ho]
      rw [List.filter_cons, this]
      simp only [if_true]
      by_cases h2 : o.name = name
      · subst h2; rw [findO_cons_self, findO_cons_self]
      · rw [findO_cons_ne _ _ _ h2, findO_cons_ne _ _ _ h2, ih]

theorem findO_filter_self (os : List OFile) (n : Nat) :
    findO (os.filter (fun g => g.name != n)) n = none := by
  unfold findO
  rw [List.find?_eq_none]
  intro o ho
  simp at ho
  simp [ho.2]

theorem findO_mapO_ne (os : List OFile) (n name : Nat) (g : OFile → OFile) (hg : ∀ x, (g x).name = x.name) (h : name ≠ n) :
    findO (mapO os n g) name = findO os name := by
  induction os with
  | nil => rfl
  | cons o os ih =>
    unfold mapO at ih ⊢
    rw [List.map_cons]
    by_cases ho : o.name = n
    · have : (o.name == n) = true := by simp [ho]
      simp only [this, if_true]
      have h1 : (g o).name ≠ name := by rw [hg]; omega
      have h2 : o.name ≠ name := by omega
      rw [findO_cons_ne _ _ _ h1, findO_cons_ne _ _ _ h2, ih]
    · have : (o.name == n) = false := by simp [ho]
      simp only [this, Bool.false_eq_true, if_false]
      by_cases h2 : o.name = name
      · subst h2; rw [findO_cons_self, findO_cons_self]
      · rw [findO_cons_ne _ _ _ h2, findO_cons_ne _ _ _ h2, ih]

/-! ### names -/

theorem pairwise_lt_ne {l : List Nat} (h : l.Pairwise (· < ·)) : l.Nodup := by
  exact h.imp (fun hab => Nat.ne_of_lt hab)

theorem nodup_map_inj {α β} (g : α → β) : ∀ (l : List α), (l.map g).Nodup → ∀ x ∈ l, ∀ y ∈ l, g x = g y → x = y := by
  intro l
  induction l with
  | nil => intro _ x hx; simp at hx
  | cons a l ih =>
    intro hnd x hx y hy hxy
    rw [List.map_cons, List.nodup_cons] at hnd
    rcases List.mem_cons.mp hx with h1 | h1 <;> rcases List.mem_cons.mp hy with h2 | h2
    · rw [h1, h2]
    · subst h1; exact absurd (List.mem_map.mpr ⟨y, h2, hxy.symm⟩) hnd.1
    · subst h2; exact absurd (List.mem_map.mpr ⟨x, h1, hxy⟩) hnd.1
    · exact ih hnd.2 x h1 y h2 hxy

theorem Inv.name_inj {cfg : Cfg} {s : Shard} {a : Abs} (inv : Inv cfg s a) {f g : AFile}
    (hf : f ∈ a.files) (hg : g ∈ a.files) (h : f.name = g.name) : f = g := by
  have hnd := pairwise_lt_ne inv.names
  exact nodup_map_inj _ _ hnd f hf g hg h


/-! ### ReadNextTailSecond, small step 1: open the next waiting file -/

def Abs.openA (a : Abs) (f : AFile) (fs : List AFile) : Abs := { a with cur := some (f, 0), wait := fs }

theorem inv_open (cfg : Cfg) (s : Shard) (a : Abs) (f : AFile) (fs : List AFile) (inv : Inv cfg s a)
    (hcur : a.cur = none) (hw : a.wait = f :: fs) :
    Inv cfg (openNext s ⟨f.name, f.size cfg⟩ (fs.map (fun g => ⟨g.name, g.size cfg⟩))) (a.openA f fs) := by
  have hfiles : (a.openA f fs).files = a.files := by
    simp [Abs.openA, Abs.files, Abs.curL, hcur, hw]
  have hb : (a.openA f fs).buckets cfg = a.buckets cfg := by simp [Abs.buckets, hfiles]
  have hfm : f ∈ a.files := by simp [Abs.files, hw]
  have hfw : f ∈ a.wait := by simp [hw]
  have hrn : a.rname = none := by simp [Abs.rname, hcur]
  have hrn' : (a.openA f fs).rname = some f.name := by simp [Abs.rname, Abs.openA]
  have hwn' : (a.openA f fs).wname = a.wname := rfl
  -- the writing file is not the one being opened
  have hwne : a.wname ≠ some f.name := by
    intro h
    unfold Abs.wname at h
    split at h
    · cases hl : a.new.getLast? with
      | none => simp [hl] at h
      | some g =>
        simp [hl] at h
        have hg : g ∈ a.new := List.mem_of_getLast? hl
        have hgf : g ∈ a.files := by simp [Abs.files, hg]
        have : g = f := inv.name_inj hgf hfm h
        subst this
        have hnr := inv.newRead g hg
        have hp := inv.present g (by simp [hg])
        have hz := idc_none _ (inv.waitIds g hfw)
        -- g is both in wait and new: names would repeat
        have hnames := inv.names
        simp only [Abs.files, hw, Abs.curL, hcur] at hnames
        rw [List.map_append, List.map_append, List.map_append] at hnames
        have := (List.pairwise_append.mp hnames).2.1
        simp only [List.map_nil, List.nil_append] at this
        have h3 := (List.pairwise_append.mp this).2.2 g.name (by simp) g.name (List.mem_map.mpr ⟨g, hg, rfl⟩)
        omega
    · simp at h
  have hrefs : ∀ g ∈ a.files, (a.openA f fs).refs g = a.refs g + (if g.name = f.name then 1 else 0) := by
    intro g _
    simp only [Abs.refs, hrn', hwn', hrn]
    by_cases hgn : g.name = f.name
    · simp only [hgn, if_true]; split <;> simp <;> omega
    · have : f.name ≠ g.name := fun h => hgn h.symm
      simp [hgn, this]
  refine { disk := ?_, clock := inv.clock, lastID := inv.lastID, names := ?_, namesLt := ?_, wf := ?_, newTl := inv.newTl,
           preRead := inv.preRead, newRead := inv.newRead, waitIds := ?_, curOk := ?_, idsLe := ?_, idsNodup := ?_, known := ?_,
           ofiles := ?_, reading := ?_, writing := ?_, writingSome := inv.writingSome, waiting := ?_, total := ?_,
           knownSize := ?_, waitingSize := ?_, present := ?_ }
  · rw [hfiles]; exact inv.disk
  · rw [hfiles]; exact inv.names
  · rw [hfiles]; exact inv.namesLt
  · rw [hfiles]; exact inv.wf
  · intro g hg; exact inv.waitIds g (by simp [hw]; right; exact hg)
  · intro g j h
    simp [Abs.openA] at h
    obtain ⟨h1, h2⟩ := h
    subst h1; subst h2
    refine ⟨Nat.zero_le _, by simp, ?_⟩
    simpa using inv.waitIds f hfw
  · rw [hb]; exact inv.idsLe
  · rw [hb]; exact inv.idsNodup
  · rw [hb]; exact inv.known
  · intro name
    simp only [openNext]
    by_cases hn : f.name = name
    · subst hn
      have := findO_cons_self { name := f.name, nextPos := 0, size := f.size cfg, refCount := 1 } s.ofiles
      simp only at this
      rw [this]
      refine ⟨rfl, f, by rw [hfiles]; exact hfm, rfl, ?_, ?_, rfl, ?_⟩
      · rw [hrefs f hfm]
        have h0 := inv.ofiles f.name
        -- before: f was not open
        have hz := idc_none _ (inv.waitIds f hfw)
        simp [Abs.refs, hrn, hz, hwne]
      · rw [hrefs f hfm]
        have hz := idc_none _ (inv.waitIds f hfw)
        simp [Abs.refs, hrn, hz, hwne]
      · intro j h
        simp [Abs.openA] at h
        subst h
        simp [recsLen]
    · have h1 := findO_cons_ne { name := f.name, nextPos := 0, size := f.size cfg, refCount := 1 } s.ofiles name hn
      rw [h1]
      have h0 := inv.ofiles name
      split
      · rename_i hnone
        rw [hnone] at h0
        intro g hg hgn
        rw [hfiles] at hg
        rw [hrefs g hg]
        have : g.name ≠ f.name := by omega
        simp [this, h0 g hg hgn]
      · rename_i o hsome
        rw [hsome] at h0
        obtain ⟨ho, g, hg, hgn, hrc, hpos, hsz, _⟩ := h0
        refine ⟨ho, g, by rw [hfiles]; exact hg, hgn, ?_, ?_, hsz, ?_⟩
        · rw [hrefs g hg]; have : g.name ≠ f.name := by omega
          simp [this, hrc]
        · rw [hrefs g hg]; have : g.name ≠ f.name := by omega
          simp [this, hpos]
        · intro j h
          simp [Abs.openA] at h
          obtain ⟨h1, _⟩ := h
          rw [← h1] at hgn
          exact absurd hgn hn
  · simp [openNext, hrn']
  · simp [openNext, hwn', inv.writing]
  · simp [openNext, Abs.openA]
  · rw [hfiles]; simp [openNext, inv.total]
  · rw [hb]; simp [openNext, inv.knownSize]
  · simp [openNext, Abs.openA, inv.waitingSize, hw, sizeSum]; omega
  · intro g hg
    have hgf : g ∈ a.files := by
      simp [Abs.openA] at hg
      simp [Abs.files]; rcases hg with h | h
      · left; exact h
      · right; right; right; exact h
    rw [hrefs g hgf]
    have := inv.present g (by simpa [Abs.openA] using hg)
    split <;> omega


/-! ### the reading head -/

theorem find?_map_nodup {α β} [DecidableEq β] (g : α → β) : ∀ (l : List α), (l.map g).Nodup → ∀ x ∈ l,
    l.find? (fun y => g y == g x) = some x := by
  intro l
  induction l with
  | nil => intro _ x hx; simp at hx
  | cons a l ih =>
    intro hnd x hx
    rw [List.map_cons, List.nodup_cons] at hnd
    rcases List.mem_cons.mp hx with h1 | h1
    · subst h1; simp
    · have : g a ≠ g x := fun h => hnd.1 (List.mem_map.mpr ⟨x, h1, h.symm⟩)
      rw [List.find?_cons]
      have h2 : (g a == g x) = false := by simp [this]
      rw [h2]
      exact ih hnd.2 x h1

theorem Inv.fileBytes {cfg : Cfg} {s : Shard} {a : Abs} (inv : Inv cfg s a) {f : AFile} (hf : f ∈ a.files) :
    DiskCache.fileBytes s.disk f.name = f.bytes cfg := by
  unfold DiskCache.fileBytes
  rw [inv.disk, List.find?_map]
  have := find?_map_nodup (fun g : AFile => g.name) a.files (pairwise_lt_ne inv.names) f hf
  have e : (fun g : DFile => g.name == f.name) ∘ AFile.render cfg = fun y : AFile => y.name == f.name := by
    funext y; simp [AFile.render]
  rw [e, this]
  simp [AFile.render]

theorem Abs.refs_nonneg (a : Abs) (f : AFile) : 0 ≤ a.refs f := by
  unfold Abs.refs; split <;> split <;> omega

theorem Inv.cur_view {cfg : Cfg} {s : Shard} {a : Abs} (inv : Inv cfg s a) {f : AFile} {j : Nat} (hc : a.cur = some (f, j)) :
    f ∈ a.files ∧ s.reading = some f.name ∧ ∃ o, findO s.ofiles f.name = some o ∧ o.name = f.name ∧ o.size = f.size cfg ∧
      o.nextPos = recsLen (f.recs.take j) ∧ o.refCount = a.refs f := by
  have hfm : f ∈ a.files := by simp [Abs.files, Abs.curL, hc]
  have hr : a.rname = some f.name := by simp [Abs.rname, hc]
  refine ⟨hfm, by rw [inv.reading, hr], ?_⟩
  have h0 := inv.ofiles f.name
  split at h0
  · have := h0 f hfm rfl
    have h1 : 1 ≤ a.refs f := by
      unfold Abs.refs; rw [hr]; simp; split <;> omega
    omega
  · rename_i o ho
    obtain ⟨hn, g, hg, hgn, hrc, _, hsz, hpos⟩ := h0
    have : g = f := inv.name_inj hg hfm hgn
    subst this
    exact ⟨o, ho, hn, hsz, hpos j hc, hrc⟩

theorem bucketsAt_append (cfg : Cfg) (name : Nat) : ∀ (off : Nat) (r1 r2 : List ARec),
    bucketsAt cfg name off (r1 ++ r2) = bucketsAt cfg name off r1 ++ bucketsAt cfg name (off + recsLen r1) r2 := by
  intro off r1
  induction r1 generalizing off with
  | nil => intro r2; simp [bucketsAt, recsLen]
  | cons r r1 ih => intro r2; simp [bucketsAt, recsLen, ih, Nat.add_assoc]

theorem Abs.buckets_cur (cfg : Cfg) (a : Abs) (f : AFile) (j : Nat) (hc : a.cur = some (f, j)) :
    a.buckets cfg = a.pre.flatMap (fbuckets cfg) ++ (fbuckets cfg f ++ (a.wait ++ a.new).flatMap (fbuckets cfg)) := by
  simp [Abs.buckets, Abs.files, Abs.curL, hc, List.flatMap_append]

theorem take_succ_drop {α} (l : List α) (j : Nat) (h : j < l.length) :
    l = l.take j ++ l[j] :: l.drop (j + 1) := by
  rw [← List.drop_eq_getElem_cons h, List.take_append_drop]

end SH.C09
