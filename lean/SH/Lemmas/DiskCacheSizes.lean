import SH.Lemmas.DiskCacheGetLive

namespace SH.C09
open SH.DiskCache

/-- bytes accounted to the known seconds = header + body of every live second that currently has an id -/
def knownBytes (l : List LiveE) : Int :=
  ((l.filter (fun e => e.1.isSome)).map (fun e => ((e.2.2.length + headerSize : Nat) : Int))).sum

theorem bucket_sum_recs (cfg : Cfg) (name : Nat) : ∀ (off : Nat) (rs : List ARec), (∀ r ∈ rs, r.id ≠ none → r.dead cfg = false) →
    ((bucketsAt cfg name off rs).map bsize).sum = knownBytes (liveRecs cfg rs) := by
  intro off rs
  induction rs generalizing off with
  | nil => intro _; rfl
  | cons r rs ih =>
    intro h
    have ih' := ih (off + r.len) (fun q hq => h q (by simp [hq]))
    simp only [bucketsAt, List.map_append, List.sum_append, ih']
    cases hid : r.id with
    | none =>
      cases hd : r.dead cfg <;> simp [bucketOf, hid, knownBytes, liveRecs, List.filter_cons, hd]
    | some k =>
      have hd : r.dead cfg = false := h r (by simp) (by rw [hid]; simp)
      simp [bucketOf, hid, knownBytes, liveRecs, List.filter_cons, hd, bsize]

theorem knownBytes_append (a b : List LiveE) : knownBytes (a ++ b) = knownBytes a + knownBytes b := by
  simp [knownBytes, List.filter_append, List.map_append, List.sum_append]

theorem Inv.knownSize_live {cfg : Cfg} {s : Shard} {a : Abs} (inv : Inv cfg s a) : s.knownSize = knownBytes (a.live cfg) := by
  rw [inv.knownSize]
  unfold Abs.buckets Abs.live
  have key : ∀ l : List AFile, (∀ f ∈ l, ∀ r ∈ f.recs, r.id ≠ none → r.dead cfg = false) →
      ((l.flatMap (fbuckets cfg)).map bsize).sum = knownBytes (l.flatMap (fLive cfg)) := by
    intro l
    induction l with
    | nil => intro _; rfl
    | cons f l ih =>
      intro h
      simp only [List.flatMap_cons, List.map_append, List.sum_append, knownBytes_append]
      rw [ih (fun g hg => h g (by simp [hg]))]
      congr 1
      exact bucket_sum_recs cfg f.name 0 f.recs (h f (by simp))
  exact key a.files (fun f hf r hr => ((inv.wf f hf).1 r hr).2.2.2.2.2)

end SH.C09
