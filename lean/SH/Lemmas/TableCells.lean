/-
  SH.Lemmas.TableCells — the content of the table cells (property C25, "missing values are NaN").

  For the fixed getTableFromLODs: after the handler-whats in `done`, the data of the table row with key `k` is the
  concatenation, over `done`, of `cellBlock`: the storage values of the row with key `k` that the pass of that
  handler-what handed to the row loop, or one NaN per column if the pass handed over no such row.
-/
import SH.Lemmas.Table

namespace SH.C25
open SH.Table

abbrev Todo := List (List Nat × List (Lod × Option (List (List Row))))

/-- the row with key `k` among the rows a pass processed -/
def got (seen : List Row) (k : Key) : Option Row := seen.find? (fun r => r.key == k)

/-- columns of one handler-what in the table row with key `k`: the values of the processed storage row with that
    key, or NaN in every column -/
def cellBlock (cols : List Nat) (proc : List Row) (k : Key) : List (Option Int) :=
  match got proc k with
  | some r => rowVals cols r
  | none => List.replicate cols.length none

def cellsOf (q : Req) (done : Todo) (k : Key) : List (Option Int) :=
  done.flatMap (fun t => cellBlock t.1 (passRows .fixed q t.2 0) k)

theorem got_none_iff (seen : List Row) (k : Key) : got seen k = none ↔ ∀ r ∈ seen, r.key ≠ k := by
  simp [got, List.find?_eq_none]

theorem got_some_key (seen : List Row) (k : Key) (r : Row) (h : got seen k = some r) : r.key = k ∧ r ∈ seen := by
  unfold got at h
  have := List.find?_some h
  exact ⟨by simpa using this, List.mem_of_find?_eq_some h⟩

theorem got_append_single (seen : List Row) (r : Row) (k : Key) :
    got (seen ++ [r]) k = (got seen k).or (if r.key = k then some r else none) := by
  simp only [got, List.find?_append, List.find?_cons, List.find?_nil]
  congr 1
  by_cases h : r.key = k
  · simp [h]
  · have hb : (r.key == k) = false := by simpa using h
    simp [h, hb]

theorem cellsOf_cons (q : Req) (t : List Nat × List (Lod × Option (List (List Row)))) (rest : Todo) (k : Key) :
    cellsOf q (t :: rest) k = cellBlock t.1 (passRows .fixed q t.2 0) k ++ cellsOf q rest k := by
  simp [cellsOf]

theorem cellsOf_snoc (q : Req) (done : Todo) (t : List Nat × List (Lod × Option (List (List Row)))) (k : Key) :
    cellsOf q (done ++ [t]) k = cellsOf q done k ++ cellBlock t.1 (passRows .fixed q t.2 0) k := by
  simp [cellsOf]

/-- a key no earlier pass processed has NaN in all earlier columns -/
theorem cellsOf_absent (q : Req) : ∀ (done : Todo) (k : Key),
    (∀ t ∈ done, ∀ r ∈ passRows .fixed q t.2 0, r.key ≠ k) →
    cellsOf q done k = List.replicate (done.map (fun t => t.1.length)).sum none := by
  intro done
  induction done with
  | nil => intro k _; simp [cellsOf]
  | cons t rest ih =>
    intro k h
    have h1 : got (passRows .fixed q t.2 0) k = none := (got_none_iff _ _).2 (h t (by simp))
    have h2 := ih k (fun t' ht' => h t' (by simp [ht']))
    rw [cellsOf_cons, h2, cellBlock, h1]
    simp [List.replicate_append_replicate]

/-- invariant inside the pass of handler-what `cols`: `seen` = rows handed to the row loop so far -/
def K (q : Req) (done : Todo) (cols : List Nat) (seen : List Row) (out : List ORow) : Prop :=
  (∀ o ∈ out, o.data = cellsOf q done o.key ++ (match got seen o.key with | some r => rowVals cols r | none => []) ∧
      (o.used = true ↔ (got seen o.key).isSome = true)) ∧
  (∀ t ∈ done, ∀ r ∈ passRows .fixed q t.2 0, r.key ∈ keysOf out) ∧
  (∀ r ∈ seen, r.key ∈ keysOf out)

theorem keysOf_addRow_mono (pad : Nat) (cols : List Nat) (out : List ORow) (r : Row) (k : Key)
    (h : k ∈ keysOf out) : k ∈ keysOf (addRow pad cols out r) := by
  rw [keys_addRow]; split
  · exact h
  · simp [h]

theorem keysOf_addRow_self (pad : Nat) (cols : List Nat) (out : List ORow) (r : Row) :
    r.key ∈ keysOf (addRow pad cols out r) := by
  rw [keys_addRow]; split
  · rename_i hk; exact (hasKey_iff _ _).1 hk
  · simp

theorem K_addRow (q : Req) (done : Todo) (cols : List Nat) (seen : List Row) (out : List ORow) (r : Row)
    (h : K q done cols seen out) (hr : got seen r.key = none) :
    K q done cols (seen ++ [r]) (addRow (done.map (fun t => t.1.length)).sum cols out r) := by
  obtain ⟨ha, hb, hc⟩ := h
  refine ⟨?_, ?_, ?_⟩
  · unfold addRow
    split
    · intro o' ho'
      simp only [List.mem_map] at ho'
      obtain ⟨o, ho, rfl⟩ := ho'
      have hao := ha o ho
      by_cases hk : o.key = r.key
      · have hg : got seen o.key = none := hk ▸ hr
        have hu : o.used = false := by
          cases hu : o.used with
          | false => rfl
          | true => have := hao.2.1 hu; simp [hg] at this
        have hd := hao.1
        simp only [hg] at hd
        simp [hk, got_append_single, hr, hd]
      · have hk' : ¬ r.key = o.key := fun e => hk e.symm
        have hb' : (o.key == r.key) = false := by simpa using hk
        simp only [hb', Bool.false_eq_true, if_false, got_append_single, hk', Option.or_none]
        exact hao
    · rename_i hnk
      have hnk' : r.key ∉ keysOf out := by rw [← hasKey_iff]; simpa using hnk
      intro o ho
      simp only [List.mem_append, List.mem_singleton] at ho
      rcases ho with ho | rfl
      · have hao := ha o ho
        have hk' : ¬ r.key = o.key := by
          intro e; apply hnk'; rw [e]; simp only [keysOf, List.mem_map]; exact ⟨o, ho, rfl⟩
        simp only [got_append_single, hk', if_false, Option.or_none]
        exact hao
      · have habs := cellsOf_absent q done r.key (by
          intro t ht r' hr' e
          exact hnk' (e ▸ hb t ht r' hr'))
        simp [got_append_single, hr, habs]
  · intro t ht r' hr'
    exact keysOf_addRow_mono _ _ _ _ _ (hb t ht r' hr')
  · intro r' hr'
    simp only [List.mem_append, List.mem_singleton] at hr'
    rcases hr' with hr' | rfl
    · exact keysOf_addRow_mono _ _ _ _ _ (hc r' hr')
    · exact keysOf_addRow_self _ _ _ _

theorem K_fold (q : Req) (done : Todo) (cols : List Nat) : ∀ (rows seen : List Row) (out : List ORow),
    K q done cols seen out → (rows.map (·.key)).Nodup → (∀ r ∈ rows, got seen r.key = none) →
    K q done cols (seen ++ rows) (rows.foldl (addRow (done.map (fun t => t.1.length)).sum cols) out) := by
  intro rows
  induction rows with
  | nil => intro seen out h _ _; simpa using h
  | cons r rs ih =>
    intro seen out h hnd hdis
    simp only [List.map_cons, List.nodup_cons] at hnd
    simp only [List.foldl_cons]
    have := ih (seen ++ [r]) _ (K_addRow q done cols seen out r h (hdis r (by simp))) hnd.2 (by
      intro x hx
      rw [got_append_single, hdis x (by simp [hx])]
      have : ¬ r.key = x.key := by
        intro e; apply hnd.1; simp only [List.mem_map]; exact ⟨x, hx, e.symm⟩
      simp [this])
    simpa [List.append_assoc] using this

/-- state between two passes -/
def Filled (q : Req) (done : Todo) (out : List ORow) : Prop :=
  (∀ o ∈ out, o.used = false ∧ o.data = cellsOf q done o.key) ∧
  (∀ t ∈ done, ∀ r ∈ passRows .fixed q t.2 0, r.key ∈ keysOf out)

theorem Filled_K (q : Req) (done : Todo) (cols : List Nat) (out : List ORow) (h : Filled q done out) :
    K q done cols [] out := by
  refine ⟨?_, h.2, by simp⟩
  intro o ho
  have := h.1 o ho
  simp [got, this.1, this.2]

theorem K_endPass (q : Req) (done : Todo) (cols : List Nat) (answers : List (Lod × Option (List (List Row))))
    (out : List ORow) (h : K q done cols (passRows .fixed q answers 0) out) :
    Filled q (done ++ [(cols, answers)]) (endPass .fixed cols out) := by
  obtain ⟨ha, hb, hc⟩ := h
  refine ⟨?_, ?_⟩
  · intro o' ho'
    simp only [endPass, List.mem_map] at ho'
    obtain ⟨o, ho, rfl⟩ := ho'
    have hao := ha o ho
    simp only [cellsOf_snoc, cellBlock]
    cases hg : got (passRows .fixed q answers 0) o.key with
    | none =>
      have hu : o.used = false := by
        cases hu : o.used with
        | false => rfl
        | true => have := hao.2.1 hu; simp [hg] at this
      have hd := hao.1
      simp only [hg, List.append_nil] at hd
      simp [hu, padMissing, hd, hg]
    | some r =>
      have hu : o.used = true := hao.2.2 (by simp [hg])
      have hd := hao.1
      simp only [hg] at hd
      simp [hu, hd, hg]
  · intro t ht r hr
    rw [keys_endPass]
    simp only [List.mem_append, List.mem_singleton] at ht
    rcases ht with ht | rfl
    · exact hb t ht r hr
    · exact hc r hr

theorem whatLoop_filled (q : Req) :
    ∀ (todo done : Todo) (out : List ORow) (more : Bool) (res : List ORow × Bool),
      NoRepeat .fixed q todo → Filled q done out →
      whatLoop .fixed q (done.map (·.1)) todo out more = some res →
      Filled q (done ++ todo) res.1 := by
  intro todo
  induction todo with
  | nil => intro done out more res _ h he; simp [whatLoop] at he; subst he; simpa using h
  | cons t rest ih =>
    intro done out more res hn h he
    obtain ⟨cols, answers⟩ := t
    simp only [whatLoop] at he
    split at he
    · simp at he
    · rename_i r hr
      have hfold := lodLoop_eq_fold .fixed q _ cols answers 0 out r hr
      have hpad : padBefore .fixed (done.map (·.1)) = (done.map (fun t => t.1.length)).sum := by
        simp [padBefore, List.map_map, Function.comp_def]
      rw [hpad] at hfold
      have hK := K_fold q done cols (passRows .fixed q answers 0) [] out (Filled_K q done cols out h)
        (hn (cols, answers) (by simp)) (by intro x _; simp [got])
      simp only [List.nil_append] at hK
      rw [← hfold] at hK
      have hF := K_endPass q done cols answers r.1 hK
      have hprev : (done ++ [(cols, answers)]).map (·.1) = done.map (·.1) ++ [cols] := by simp
      have := ih (done ++ [(cols, answers)]) _ _ res (fun t ht => hn t (by simp [ht])) hF (by rw [hprev]; exact he)
      simpa [List.append_assoc] using this

/-- without storage errors and with no window row rejected by the time test, the rows a pass hands to the row loop
    are the first `limit − cnt` window rows over the visited LODs -/
theorem passRows_page (q : Req) : ∀ (answers : List (Lod × Option (List (List Row)))) (cnt : Nat),
    (∀ a ∈ answers, a.2 ≠ none) → (∀ r ∈ candRows q answers, timeSkipped q r = false) →
    passRows .fixed q answers cnt = (candRows q answers).take (q.limit - cnt).toNat := by
  intro answers
  induction answers with
  | nil => intro cnt _ _; simp [passRows, candRows]
  | cons a rest ih =>
    intro cnt hne hts
    obtain ⟨l, ans⟩ := a
    simp only [passRows, candRows] at hts ⊢
    split
    · rename_i hs
      simp only [hs, if_true] at hts
      exact ih cnt (fun a ha => hne a (by simp [ha])) hts
    · rename_i hs
      simp only [hs, Bool.false_eq_true, if_false] at hts
      cases ans with
      | none => exact absurd rfl (hne (l, none) (by simp))
      | some groups =>
        simp only [limitQueries_fixed, Option.getD_some] at hts ⊢
        have hw : ∀ x ∈ windowRows q.win groups, (!timeSkipped q x) = true := by
          intro x hx; simp [hts x (by simp [hx])]
        rw [filter_take_all _ _ _ hw]
        by_cases hm : (q.limit - ↑cnt).toNat < (windowRows q.win groups).length
        · simp only [hm, decide_true, if_true]
          rw [List.take_append_of_le_length (Nat.le_of_lt hm)]
        · simp only [hm, decide_false, Bool.false_eq_true, if_false]
          have hle : (windowRows q.win groups).length ≤ (q.limit - ↑cnt).toNat := Nat.le_of_not_lt hm
          rw [List.take_of_length_le hle, ih _ (fun a ha => hne a (by simp [ha])) (fun r hr => hts r (by simp [hr]))]
          have hn : (q.limit - ↑(cnt + (windowRows q.win groups).length)).toNat
              = (q.limit - ↑cnt).toNat - (windowRows q.win groups).length := by omega
          rw [hn, List.take_append, List.take_of_length_le hle]

/-- a cell block is all-NaN exactly when the pass processed no row with that key (for a handler-what with columns) -/
theorem cellBlock_nan_iff (cols : List Nat) (proc : List Row) (k : Key) (hc : cols ≠ []) :
    cellBlock cols proc k = List.replicate cols.length none ↔ ∀ r ∈ proc, r.key ≠ k := by
  rw [← got_none_iff]
  unfold cellBlock
  cases hg : got proc k with
  | none => simp
  | some r =>
    simp only [reduceCtorEq, iff_false]
    cases cols with
    | nil => exact absurd rfl hc
    | cons f fs => simp [rowVals, List.replicate_succ]

theorem nodup_map_inj {α β} (f : α → β) : ∀ (l : List α), (l.map f).Nodup → ∀ a ∈ l, ∀ b ∈ l, f a = f b → a = b := by
  intro l
  induction l with
  | nil => intro _ a ha; simp at ha
  | cons x xs ih =>
    intro hnd a ha b hb e
    simp only [List.map_cons, List.nodup_cons, List.mem_map, not_exists, not_and] at hnd
    simp only [List.mem_cons] at ha hb
    rcases ha with rfl | ha <;> rcases hb with rfl | hb
    · rfl
    · exact absurd e.symm (hnd.1 b hb)
    · exact absurd e (hnd.1 a ha)
    · exact ih hnd.2 a ha b hb e

/-- otherwise it shows, column by column, the stored value fields of the processed row with that key -/
theorem cellBlock_value (cols : List Nat) (proc : List Row) (k : Key) (r : Row)
    (hnd : (proc.map (·.key)).Nodup) (hr : r ∈ proc) (hk : r.key = k) :
    cellBlock cols proc k = cols.map (fun f => some (r.vals.getD f 0)) := by
  unfold cellBlock
  cases hg : got proc k with
  | none => exact absurd hk ((got_none_iff _ _).1 hg r hr)
  | some r' =>
    obtain ⟨hk', hr'⟩ := got_some_key _ _ _ hg
    have : r' = r := by
      exact nodup_map_inj (fun x : Row => x.key) proc hnd r' hr' r hr (hk'.trans hk.symm)
    simp [this, rowVals]

end SH.C25
