/-
  SH.Lemmas.NormLenC11 — no input length is special to normalisation: the slow path of appendValidStringValue stepped
  rune by rune (slowL_rune), whitespace runs of ANY length (slow_skip_ws, slow_ws_run), what precedes a run
  (slow_prefix_congr), and "the fast path is only a shortcut" (force_eq_slow).  Used by the C11 theorems
  force_ignores_leading_whitespace_length / force_whitespace_run_length.
-/
import SH.Lemmas.NormC11

namespace SH.Norm

/-- fuel irrelevance for slowLoop -/
theorem slowLoop_fuel (T : Tables) (force : Bool) (maxLen : Nat) : ∀ (f g : Nat) (s out : List UInt8) (prev : Bool),
    s.length + 1 ≤ f → s.length + 1 ≤ g →
    slowLoop T force maxLen f s out prev = slowLoop T force maxLen g s out prev := by
  intro f
  induction f with
  | zero => intro g s out prev h; omega
  | succ f ih =>
    intro g s out prev hf hg
    cases g with
    | zero => omega
    | succ g =>
      cases s with
      | nil => simp [slowLoop]
      | cons c rest =>
        simp only [slowLoop]
        simp only [List.length_cons] at hf hg
        have hw := decode_width c rest
        have hd : ((c :: rest).drop (decodeRune (c :: rest)).2).length + 1 ≤ rest.length + 1 := by
          simp only [List.length_drop, List.length_cons]; omega
        split
        · rfl
        · split
          · exact ih g _ out prev (by omega) (by omega)
          · split
            · rfl
            · exact ih g _ _ _ (by omega) (by omega)

/-- the slow path of appendValidStringValue(…, force = true) with exactly enough fuel -/
def slowL (T : Tables) (maxLen : Nat) (s out : List UInt8) (prev : Bool) : Option (List UInt8 × Bool) :=
  slowLoop T true maxLen (s.length + 1) s out prev

theorem slowL_nil (T : Tables) (maxLen : Nat) (out : List UInt8) (prev : Bool) : slowL T maxLen [] out prev = some (out, prev) := by
  simp [slowL, slowLoop]

/-- one step of the slow path on the encoding of a scalar value `r`, whatever follows it -/
theorem slowL_rune (T : Tables) (maxLen : Nat) (r : Nat) (hr : Scalar r) (tail out : List UInt8) (prev : Bool) :
    slowL T maxLen (encodeRune r ++ tail) out prev =
      match classify T r prev with
      | none => slowL T maxLen tail out prev
      | some (w, sp) =>
        if out.length + (encodeRune w).length > maxLen then some (out, prev)
        else slowL T maxLen tail (out ++ encodeRune w) sp := by
  have hd := decode_encode r hr tail
  have hl := encode_length r
  cases he : encodeRune r with
  | nil => rw [he] at hl; simp at hl
  | cons c bs =>
    rw [he] at hd
    have hdrop : (c :: (bs ++ tail)).drop (c :: bs).length = tail := by
      simp
    unfold slowL
    simp only [List.cons_append, List.length_cons, slowLoop] at hd ⊢
    simp only [hd, Bool.not_true, Bool.and_false, Bool.false_eq_true, ↓reduceIte]
    simp only [List.length_cons] at hdrop
    rw [hdrop]
    have hf : ∀ o p, slowLoop T true maxLen ((bs ++ tail).length + 1) tail o p = slowLoop T true maxLen (tail.length + 1) tail o p :=
      fun o p => slowLoop_fuel T true maxLen _ _ tail o p (by simp) (by omega)
    cases classify T r prev with
    | none => simp only [hf]
    | some p =>
      obtain ⟨w, sp⟩ := p
      simp only [hf]


/-- the bytes are the UTF-8 encodings of scalar values, one after another (well-formed UTF-8, rune by rune) -/
inductive Encoded : List UInt8 → List Nat → Prop
  | nil : Encoded [] []
  | cons (r : Nat) (b : List UInt8) (rs : List Nat) : Scalar r → Encoded b rs → Encoded (encodeRune r ++ b) (r :: rs)

/-- whitespace only: the encodings of any number of runes that the table calls spaces -/
def WsOnly (T : Tables) (ws : List UInt8) : Prop := ∃ rs, Encoded ws rs ∧ ∀ r ∈ rs, T.isSpace r = true

theorem encoded_append {a b : List UInt8} {ra rb : List Nat} (ha : Encoded a ra) (hb : Encoded b rb) :
    Encoded (a ++ b) (ra ++ rb) := by
  induction ha with
  | nil => simpa using hb
  | cons r a' rs hr _ ih => rw [List.append_assoc]; exact Encoded.cons r _ _ hr ih

theorem encoded_replicate (r : Nat) (hr : Scalar r) (k : Nat) :
    Encoded (List.flatten (List.replicate k (encodeRune r))) (List.replicate k r) := by
  induction k with
  | zero => exact Encoded.nil
  | succ k ih => simp only [List.replicate_succ, List.flatten_cons]; exact Encoded.cons r _ _ hr ih

theorem wsOnly_nil (T : Tables) : WsOnly T [] := ⟨[], Encoded.nil, by simp⟩

theorem wsOnly_append (T : Tables) {a b : List UInt8} (ha : WsOnly T a) (hb : WsOnly T b) : WsOnly T (a ++ b) := by
  obtain ⟨ra, ea, sa⟩ := ha
  obtain ⟨rb, eb, sb⟩ := hb
  refine ⟨ra ++ rb, encoded_append ea eb, ?_⟩
  intro r hr
  rcases List.mem_append.1 hr with h | h
  · exact sa r h
  · exact sb r h

/-- k copies of one space rune, any k -/
theorem wsOnly_replicate (T : Tables) (r : Nat) (hr : Scalar r) (hs : T.isSpace r = true) (k : Nat) :
    WsOnly T (List.flatten (List.replicate k (encodeRune r))) :=
  ⟨_, encoded_replicate r hr k, by intro x hx; rw [List.eq_of_mem_replicate hx]; exact hs⟩

theorem space_is_space (T : Tables) (hT : T.Sane) : T.isSpace 0x20 = true := by
  rw [hT.space_ascii 0x20 (by omega) (by omega)]; rfl

theorem scalar_space : Scalar 0x20 := by unfold Scalar; omega

theorem flatten_replicate_singleton (x : UInt8) (k : Nat) : (List.replicate k [x]).flatten = List.replicate k x := by
  induction k with
  | zero => rfl
  | succ k ih => simp [List.replicate_succ]

theorem encode_ascii_byte (c : UInt8) (h : c.toNat < 0x80) : encodeRune c.toNat = [c] := by
  rw [encode_ascii c.toNat h]; simp

theorem scalar_ascii (n : Nat) (h : n < 0x80) : Scalar n := by unfold Scalar; omega

/-- k copies of one ASCII whitespace byte (space, tab, newline …), any k -/
theorem wsOnly_replicate_ascii (T : Tables) (c : UInt8) (h : c.toNat < 0x80) (hs : T.isSpace c.toNat = true) (k : Nat) :
    WsOnly T (List.replicate k c) := by
  have := wsOnly_replicate T c.toNat (scalar_ascii _ h) hs k
  rwa [encode_ascii_byte c h, flatten_replicate_singleton] at this

/-- k ASCII spaces, any k -/
theorem wsOnly_spaces (T : Tables) (hT : T.Sane) (k : Nat) : WsOnly T (List.replicate k 0x20) :=
  wsOnly_replicate_ascii T 0x20 (by decide) (space_is_space T hT) k

/-- ASCII text is whole runes -/
theorem encoded_ascii (l : List UInt8) (h : ∀ c ∈ l, c.toNat < 0x80) : Encoded l (l.map (·.toNat)) := by
  induction l with
  | nil => exact Encoded.nil
  | cons c rest ih =>
    have hc := h c (by simp)
    have := Encoded.cons c.toNat rest _ (scalar_ascii _ hc) (ih (fun x hx => h x (by simp [hx])))
    rwa [encode_ascii_byte c hc] at this

/-- with previousSpace set (nothing written yet, or a space written last) whitespace of any length is skipped -/
theorem slow_skip_ws (T : Tables) (maxLen : Nat) (ws : List UInt8) (rs : List Nat) (he : Encoded ws rs)
    (hs : ∀ r ∈ rs, T.isSpace r = true) (s out : List UInt8) :
    slowL T maxLen (ws ++ s) out true = slowL T maxLen s out true := by
  induction he with
  | nil => rfl
  | cons r b rs' hr _ ih =>
    rw [List.append_assoc, slowL_rune T maxLen r hr]
    have : classify T r true = none := by simp [classify, hs r (by simp)]
    rw [this]
    exact ih (fun x hx => hs x (by simp [hx]))

/-- a non-empty whitespace run of any length acts exactly like one ASCII space, in every state of the loop -/
theorem slow_ws_run (T : Tables) (hT : T.Sane) (maxLen : Nat) (ws : List UInt8) (hws : WsOnly T ws) (hne : ws ≠ [])
    (s out : List UInt8) (prev : Bool) :
    slowL T maxLen (ws ++ s) out prev = slowL T maxLen ((0x20 : UInt8) :: s) out prev := by
  obtain ⟨rs, he, hs⟩ := hws
  have h20 : slowL T maxLen ((0x20 : UInt8) :: s) out prev = slowL T maxLen (encodeRune 0x20 ++ s) out prev := by
    rw [encode_space]; rfl
  rw [h20, slowL_rune T maxLen 0x20 scalar_space]
  cases he with
  | nil => exact absurd rfl hne
  | cons r b rs' hr hb =>
    rw [List.append_assoc, slowL_rune T maxLen r hr]
    have hsr : T.isSpace r = true := hs r (by simp)
    have hc : classify T r prev = classify T 0x20 prev := by
      simp [classify, hsr, space_is_space T hT]
    rw [hc]
    have hskip := fun o => slow_skip_ws T maxLen b rs' hb (fun x hx => hs x (by simp [hx])) s o
    cases prev with
    | true =>
      have : classify T 0x20 true = none := by simp [classify, space_is_space T hT]
      rw [this]; exact hskip out
    | false =>
      have : classify T 0x20 false = some (0x20, true) := by simp [classify, space_is_space T hT]
      rw [this]
      simp only
      split
      · rfl
      · exact hskip _

/-- what precedes does not matter as long as it is whole runes: the loop reaches the continuation in the same state
    (or stops before it, the output being full) -/
theorem slow_prefix_congr (T : Tables) (maxLen : Nat) (a : List UInt8) (ra : List Nat) (ha : Encoded a ra)
    (x y : List UInt8) (hxy : ∀ out prev, slowL T maxLen x out prev = slowL T maxLen y out prev) :
    ∀ out prev, slowL T maxLen (a ++ x) out prev = slowL T maxLen (a ++ y) out prev := by
  induction ha with
  | nil => exact hxy
  | cons r b rs hr _ ih =>
    intro out prev
    rw [List.append_assoc, List.append_assoc, slowL_rune T maxLen r hr, slowL_rune T maxLen r hr]
    cases classify T r prev with
    | none => exact ih out prev
    | some p =>
      obtain ⟨w, sp⟩ := p
      simp only
      split
      · rfl
      · exact ih _ _

/-- the fast path is only a shortcut: forcing is the slow path started with nothing written and previousSpace set,
    followed by the trailing-space trim -/
theorem force_eq_slow (T : Tables) (hT : T.Sane) (maxLen : Nat) (s : List UInt8) :
    force T maxLen s = ((slowL T maxLen s [] true).map trimLast).getD [] := by
  unfold force appendValid slowL
  by_cases h0 : s.isEmpty = true
  · have : s = [] := by simpa using h0
    subst this
    simp [slowLoop, trimLast]
  · simp only [h0, Bool.false_eq_true, ↓reduceIte, List.nil_append]
    by_cases h1 : (decide (s.length ≤ maxLen) && fastOk s) = true
    · simp only [h1, ↓reduceIte, Option.getD_some]
      simp only [Bool.and_eq_true, decide_eq_true_eq, fastOk, beq_iff_eq] at h1
      have hv := fast_reaches T s true false h1.2 []
      simp only [List.append_nil, validL_nil, Bool.not_false] at hv
      rw [slow_id T hT true maxLen (s.length + 1) s [] true (Nat.le_refl _) hv (by simpa using h1.1)]
      simp [trimLast]
    · simp only [h1, Bool.false_eq_true, ↓reduceIte]

end SH.Norm
