/-
  SH.Lemmas.BinlogMulti — the file list in its general shape: chunks `D0` closed by earlier writer sessions, the chunk being
  written, the layout of further appends with an arbitrary continuation `k1` of the last chunk (a cut).  Scan/sort/index facts
  for that shape, closure of the invariants under appends and under a writer restart.  For Props/C18 (rounds 4).
-/
import SH.Lemmas.BinlogAll
open SH.Binlog
namespace SH.C18

/-- the current chunk `cur` continued by the layout with continuation `(k1, [])`, then the later chunks -/
def allFilesK (cfg : Cfg) (w : WS) (as : List Ap) (cur k1 : Bytes) : List Bytes :=
  (cur ++ (layoutC cfg w as (k1, [])).1) :: (layoutC cfg w as (k1, [])).2

theorem allFilesK_nil (cfg : Cfg) (w : WS) (as : List Ap) (cur : Bytes) : allFilesK cfg w as cur [] = allFiles cfg w as cur := rfl

theorem allFilesK_append (cfg : Cfg) (k1 : Bytes) : ∀ (pre post : List Ap) (w : WS) (c : Cur),
    allFilesK cfg w (pre ++ post) c.bytes k1 =
      (splitC cfg w pre c).1 ++ allFilesK cfg (runAll cfg w pre) post (splitC cfg w pre c).2.bytes k1
  | [], post, w, c => by simp [splitC, runAll]
  | a :: as, post, w, c => by
    by_cases hr : rotates cfg w a = true
    · have ih := allFilesK_append cfg k1 as post (apNext cfg w a) (rfCur cfg w a)
      simp only [allFilesK, List.cons_append, layoutC, hr, if_true, splitC, runAll] at ih ⊢
      rw [← ih]
      simp [rfCur, Cur.bytes, List.append_assoc]
    · have hr' : rotates cfg w a = false := by simpa using hr
      have ih := allFilesK_append cfg k1 as post (apNext cfg w a) { c with body := c.body ++ apA cfg w a }
      simp only [allFilesK, List.cons_append, layoutC, hr', Bool.false_eq_true, if_false, splitC, runAll] at ih ⊢
      rw [← ih]
      simp [Cur.bytes, List.append_assoc]

theorem layout_laterOK_K (cfg : Cfg) (k1 : Bytes) : ∀ (as : List Ap) (w : WS), (runAll cfg w as).offG < 9223372036854775808 →
    LaterOK cfg w.offG (layoutC cfg w as (k1, [])).2
  | [], _, _ => trivial
  | a :: as, w, hb => by
    have hmono := runAll_mono cfg as (apNext cfg w a)
    obtain ⟨hge, hnx⟩ := apNext_offG_ge cfg w a
    have ih := layout_laterOK_K cfg k1 as (apNext cfg w a) hb
    by_cases hr : rotates cfg w a = true
    · rw [if_pos hr] at hnx
      simp only [layoutC, hr, if_true]
      have hk := rfCur_ok cfg w a (by simp only [runAll] at hb; omega) (layoutC cfg (apNext cfg w a) as (k1, [])).1
      have hg : gh (apRF cfg w a ++ (layoutC cfg (apNext cfg w a) as (k1, [])).1)
          = hdrOf (apRF cfg w a ++ (layoutC cfg (apNext cfg w a) as (k1, [])).1) := by
        have : rd32 (apRF cfg w a ++ (layoutC cfg (apNext cfg w a) as (k1, [])).1) ≠ magicStart := by rw [apRF, rd32_rotFrom]; decide
        simp [gh, this]
      refine ⟨hk.1, hg, _, hk.2.1, ?_, LaterOK_weaken cfg ?_ ih⟩
      · simp only [rfCur]; omega
      · simp only [rfCur]; omega
    · have hr' : rotates cfg w a = false := by simpa using hr
      rw [if_neg hr] at hnx
      simp only [layoutC, hr', Bool.false_eq_true, if_false]
      exact LaterOK_weaken cfg (by omega) ih

/-- chunks closed earlier: they scan, their positions increase and lie in front of position `p` -/
def PreOK (cfg : Cfg) (D0 : List Bytes) (p : Nat) : Prop :=
  (∀ d ∈ D0, scanHeader cfg d = .ok (gh d)) ∧ Inc (D0.map gh) ∧ ∀ h ∈ D0.map gh, h.pos < (p : Int)

theorem preOK_nil (cfg : Cfg) (p : Nat) : PreOK cfg [] p := ⟨by simp, List.Pairwise.nil, by simp⟩

/-- scan + sort of the general file list -/
theorem scan_filesK (cfg : Cfg) (D0 : List Bytes) (w : WS) (as : List Ap) (c : Cur) (k1 : Bytes)
    (hb : (runAll cfg w as).offG < 9223372036854775808) (hp : PreOK cfg D0 c.pos) (ha : Acc cfg w c) (hk : CurOK cfg c) :
    scan cfg (D0 ++ allFilesK cfg w as c.bytes k1) = .ok ((D0 ++ allFilesK cfg w as c.bytes k1).map gh) ∧
    Inc ((D0 ++ allFilesK cfg w as c.bytes k1).map gh) := by
  obtain ⟨i1, _, i3, i4⟩ := laterOK_facts cfg _ _ (layout_laterOK_K cfg k1 as w hb)
  have hfirst := hk (c.body ++ (layoutC cfg w as (k1, [])).1)
  have hfile : c.bytes ++ (layoutC cfg w as (k1, [])).1 = c.hd ++ (c.body ++ (layoutC cfg w as (k1, [])).1) := by
    simp [Cur.bytes, List.append_assoc]
  have hcp : (c.pos : Int) ≤ (w.offG : Int) := by have := ha.1; omega
  have hinc1 : Inc ((allFilesK cfg w as c.bytes k1).map gh) := by
    simp only [allFilesK, List.map_cons, Inc, List.pairwise_cons]
    refine ⟨fun h hh => ?_, i3⟩
    have := i4 h hh
    rw [hfile, hfirst.2.1]; omega
  have hinc : Inc ((D0 ++ allFilesK cfg w as c.bytes k1).map gh) := by
    rw [List.map_append]
    refine List.pairwise_append.mpr ⟨hp.2.1, hinc1, fun a ha' b hb' => ?_⟩
    have h1 := hp.2.2 a ha'
    simp only [allFilesK, List.map_cons, List.mem_cons] at hb'
    rcases hb' with rfl | hb'
    · rw [hfile, hfirst.2.1]; exact h1
    · have := i4 b hb'; omega
  refine ⟨?_, hinc⟩
  have hm := mapM_scan cfg gh (D0 ++ allFilesK cfg w as c.bytes k1) (by
    intro d hd
    rcases List.mem_append.mp hd with hd | hd
    · exact hp.1 d hd
    · simp only [allFilesK, List.mem_cons] at hd
      rcases hd with rfl | hd
      · rw [hfile]; exact hfirst.1
      · exact i1 d hd)
  simp only [scan, hm, sortHdrs_inc _ hinc]

/-- the invariants survive a batch of appends: the chunks it closes join the closed ones -/
theorem splitC_preOK (cfg : Cfg) :
    ∀ (as : List Ap) (w : WS) (c : Cur) (D0 : List Bytes), (runAll cfg w as).offG < 9223372036854775808 → c.pos ≤ w.offG → CurOK cfg c →
      PreOK cfg D0 c.pos → PreOK cfg (D0 ++ (splitC cfg w as c).1) (splitC cfg w as c).2.pos
  | [], _, _, D0, _, _, _, hp => by simpa [splitC] using hp
  | a :: as, w, c, D0, hb, ha, hk, hp => by
    have hmono := runAll_mono cfg as (apNext cfg w a)
    obtain ⟨hge, hnx⟩ := apNext_offG_ge cfg w a
    by_cases hr : rotates cfg w a = true
    · rw [if_pos hr] at hnx
      simp only [splitC, hr, if_true]
      have hnp : (apMid cfg w a).offG + 36 < 9223372036854775808 := by simp only [runAll] at hb; omega
      have hfile : c.bytes ++ apA cfg w a ++ apRT cfg w a = c.hd ++ (c.body ++ apA cfg w a ++ apRT cfg w a) := by
        simp [Cur.bytes, List.append_assoc]
      have hf := hk (c.body ++ apA cfg w a ++ apRT cfg w a)
      have hcp : (c.pos : Int) ≤ (w.offG : Int) := by omega
      have hp' : PreOK cfg (D0 ++ [c.bytes ++ apA cfg w a ++ apRT cfg w a]) (rfCur cfg w a).pos := by
        refine ⟨?_, ?_, ?_⟩
        · intro d hd
          rcases List.mem_append.mp hd with hd | hd
          · exact hp.1 d hd
          · simp only [List.mem_singleton] at hd; subst hd; rw [hfile]; exact hf.1
        · rw [List.map_append]
          refine List.pairwise_append.mpr ⟨hp.2.1, by simp [Inc], fun x hx y hy => ?_⟩
          simp only [List.map_cons, List.map_nil, List.mem_singleton] at hy; subst hy
          rw [hfile, hf.2.1]; exact hp.2.2 x hx
        · intro h hh
          rw [List.map_append] at hh
          rcases List.mem_append.mp hh with hh | hh
          · have := hp.2.2 h hh; simp only [rfCur]; omega
          · simp only [List.map_cons, List.map_nil, List.mem_singleton] at hh; subst hh
            rw [hfile, hf.2.1]; simp only [rfCur]; omega
      have ih := splitC_preOK cfg as (apNext cfg w a) (rfCur cfg w a) (D0 ++ [c.bytes ++ apA cfg w a ++ apRT cfg w a]) hb
        (by simp only [rfCur]; omega) (rfCur_ok cfg w a hnp) hp'
      simpa [List.append_assoc] using ih
    · have hr' : rotates cfg w a = false := by simpa using hr
      rw [if_neg hr] at hnx
      simp only [splitC, hr', Bool.false_eq_true, if_false]
      exact splitC_preOK cfg as (apNext cfg w a) _ D0 hb (by show c.pos ≤ _; omega) (fun x => hk x) hp

end SH.C18
