/-
  SH.Lemmas.NormC11 — loop-level lemmas about SH.Model.Norm for the C11 theorems.
-/
import SH.Lemmas.Utf8C11

namespace SH.Norm

/-- the facts about unicode.IsSpace / unicode.IsPrint the theorems need -/
structure Tables.Sane (T : Tables) : Prop where
  /-- on ASCII, IsPrint is exactly format.bytePrint -/
  print_ascii : ∀ c, c < 128 → T.isPrint c = (decide (0x20 ≤ c) && decide (c ≤ 0x7e))
  /-- among printable ASCII, only 0x20 is a space -/
  space_ascii : ∀ c, 0x20 ≤ c → c ≤ 0x7e → T.isSpace c = decide (c = 0x20)
  /-- the replacement character is printable and not a space -/
  print_fffd : T.isPrint 0xFFFD = true
  space_fffd : T.isSpace 0xFFFD = false

/-- fuel irrelevance for validLoop -/
theorem validLoop_fuel (T : Tables) : ∀ (f g : Nat) (s : List UInt8) (prev : Bool),
    s.length + 1 ≤ f → s.length + 1 ≤ g → validLoop T f s prev = validLoop T g s prev := by
  intro f
  induction f with
  | zero => intro g s prev h; omega
  | succ f ih =>
    intro g s prev hf hg
    cases g with
    | zero => omega
    | succ g =>
      cases s with
      | nil => simp [validLoop]
      | cons c rest =>
        simp only [validLoop]
        simp only [List.length_cons] at hf hg
        have hw := decode_width c rest
        have hd : ((c :: rest).drop (decodeRune (c :: rest)).2).length + 1 ≤ rest.length + 1 := by
          simp only [List.length_drop, List.length_cons]; omega
        rw [ih g rest (isSp c) (by omega) (by omega)]
        rw [ih g ((c :: rest).drop (decodeRune (c :: rest)).2) false (by omega) (by omega)]

/-- validLoop with exactly enough fuel -/
def validL (T : Tables) (s : List UInt8) (prev : Bool) : Bool := validLoop T (s.length + 1) s prev

theorem validL_nil (T : Tables) (prev : Bool) : validL T [] prev = !prev := by simp [validL, validLoop]

theorem validL_cons (T : Tables) (c : UInt8) (rest : List UInt8) (prev : Bool) :
    validL T (c :: rest) prev =
      if bytePrint c then
        if isSp c && prev then false else validL T rest (isSp c)
      else
        if badRune (decodeRune (c :: rest)) then false
        else if T.isSpace (decodeRune (c :: rest)).1 then false
        else if !T.isPrint (decodeRune (c :: rest)).1 then false
        else validL T ((c :: rest).drop (decodeRune (c :: rest)).2) false := by
  have hw := decode_width c rest
  unfold validL
  simp only [List.length_cons, validLoop]
  rw [validLoop_fuel T (rest.length + 1) (rest.length + 1) rest (isSp c) (by omega) (by omega)]
  rw [validLoop_fuel T (rest.length + 1) (((c :: rest).drop (decodeRune (c :: rest)).2).length + 1)
    ((c :: rest).drop (decodeRune (c :: rest)).2) false
    (by simp only [List.length_drop, List.length_cons]; omega) (by omega)]

theorem valid_eq (T : Tables) (maxLen : Nat) (s : List UInt8) :
    valid T maxLen s = (decide (s.length ≤ maxLen) && (s.isEmpty || validL T s true)) := by
  unfold valid validL
  by_cases h : s.length > maxLen
  · have : ¬ s.length ≤ maxLen := by omega
    simp [h, this]
  · have : s.length ≤ maxLen := by omega
    simp only [h, ↓reduceIte, this, decide_true, Bool.true_and]
    cases s <;> simp

theorem toNat_ofNat_small (r : Nat) (h : r < 256) : (UInt8.ofNat r).toNat = r := by
  simp [UInt8.toNat_ofNat', Nat.mod_eq_of_lt h]

theorem encode_length_high (r : Nat) (h : 0x80 ≤ r) : 2 ≤ (encodeRune r).length := by
  unfold encodeRune
  have : ¬ r < 0x80 := by omega
  simp only [this, ↓reduceIte]
  repeat' split
  all_goals simp

theorem validL_space (T : Tables) (tail : List UInt8) : validL T ((0x20 : UInt8) :: tail) false = validL T tail true := by
  rw [validL_cons]
  have h1 : bytePrint (0x20 : UInt8) = true := by decide
  have h2 : isSp (0x20 : UInt8) = true := by decide
  simp [h1, h2]

/-- writing a printable, non-space rune takes the validator from any state to "previous was not a space" -/
theorem validL_emit (T : Tables) (hT : T.Sane) (r : Nat) (hs : Scalar r) (hsp : T.isSpace r = false)
    (hpr : T.isPrint r = true) (tail : List UInt8) (p : Bool) :
    validL T (encodeRune r ++ tail) p = validL T tail false := by
  by_cases hr : r < 0x80
  · rw [encode_ascii r hr]
    have hc : (UInt8.ofNat r).toNat = r := toNat_ofNat_small r (by omega)
    have hp := hT.print_ascii r (by omega)
    rw [hpr] at hp
    have hp' : 0x20 ≤ r ∧ r ≤ 0x7e := by
      simp only [Bool.true_eq, Bool.and_eq_true, decide_eq_true_eq] at hp; exact hp
    have hsa := hT.space_ascii r hp'.1 hp'.2
    rw [hsp] at hsa
    have hne : r ≠ 0x20 := by
      intro h; simp [h] at hsa
    have h1 : bytePrint (UInt8.ofNat r) = true := by simp [bytePrint, hc, hp'.1, hp'.2]
    have h2 : isSp (UInt8.ofNat r) = false := by simp [isSp, hc, hne]
    simp only [List.cons_append, List.nil_append]
    rw [validL_cons]
    simp [h1, h2]
  · have hr' : 0x80 ≤ r := by omega
    obtain ⟨b, bs, he, hb⟩ := encode_first_high r hr'
    have hd := decode_encode r hs tail
    have hl := encode_length_high r hr'
    rw [he] at hd hl ⊢
    simp only [List.cons_append] at hd ⊢
    rw [validL_cons]
    have h1 : bytePrint b = false := by
      simp only [bytePrint, Bool.and_eq_false_iff, decide_eq_false_iff_not]; right; omega
    have h3 : badRune (r, (b :: bs).length) = false := by
      simp only [badRune, Bool.and_eq_false_iff, decide_eq_false_iff_not]; right; omega
    simp only [h1, Bool.false_eq_true, ↓reduceIte, hd, h3, hsp, hpr, Bool.not_true]
    have : (b :: (bs ++ tail)).drop (b :: bs).length = tail := by
      have := List.drop_left (l₁ := b :: bs) (l₂ := tail)
      simp at this ⊢
    rw [this]

/-- the validator, started in state `true` (nothing written yet) and fed `out`, is in state `prev` -/
def Reaches (T : Tables) (out : List UInt8) (prev : Bool) : Prop :=
  ∀ tail, validL T (out ++ tail) true = validL T tail prev

/-- invariant of the slow path: what has been written is a valid prefix, and if the last thing written is a space it
    is a single ASCII space after a valid prefix that did not end in a space -/
structure Inv (T : Tables) (maxLen : Nat) (out : List UInt8) (prev : Bool) : Prop where
  reach : Reaches T out prev
  last : prev = true → out = [] ∨ ∃ out', out = out' ++ [0x20] ∧ Reaches T out' false
  len : out.length ≤ maxLen

theorem inv_init (T : Tables) (maxLen : Nat) : Inv T maxLen [] true :=
  ⟨fun _ => rfl, fun _ => Or.inl rfl, by simp⟩

theorem inv_space (T : Tables) (maxLen : Nat) (out : List UInt8) (h : Inv T maxLen out false)
    (hl : out.length + 1 ≤ maxLen) : Inv T maxLen (out ++ [0x20]) true := by
  refine ⟨?_, fun _ => Or.inr ⟨out, rfl, h.reach⟩, by simpa using hl⟩
  intro tail
  rw [List.append_assoc, h.reach]
  exact validL_space T tail

theorem inv_emit (T : Tables) (hT : T.Sane) (maxLen : Nat) (out : List UInt8) (prev : Bool) (h : Inv T maxLen out prev)
    (r : Nat) (hs : Scalar r) (hsp : T.isSpace r = false) (hpr : T.isPrint r = true)
    (hl : out.length + (encodeRune r).length ≤ maxLen) : Inv T maxLen (out ++ encodeRune r) false := by
  refine ⟨?_, (fun hh => by cases hh), by simpa using hl⟩
  intro tail
  rw [List.append_assoc, h.reach]
  exact validL_emit T hT r hs hsp hpr tail prev

theorem scalar_fffd : Scalar runeError := by unfold Scalar runeError; omega

theorem encode_space : encodeRune 0x20 = [0x20] := by decide

/-- the slow path with `force` never fails and keeps the invariant -/
theorem slow_inv (T : Tables) (hT : T.Sane) (maxLen : Nat) : ∀ (fuel : Nat) (src out : List UInt8) (prev : Bool),
    Inv T maxLen out prev →
    ∃ out' prev', slowLoop T true maxLen fuel src out prev = some (out', prev') ∧ Inv T maxLen out' prev' := by
  intro fuel
  induction fuel with
  | zero => intro src out prev h; exact ⟨out, prev, rfl, h⟩
  | succ f ih =>
    intro src out prev h
    cases src with
    | nil => exact ⟨out, prev, rfl, h⟩
    | cons c rest =>
      simp only [slowLoop, Bool.not_true, Bool.and_false, Bool.false_eq_true, ↓reduceIte]
      have hsc := decode_scalar (c :: rest)
      generalize decodeRune (c :: rest) = d at *
      unfold classify
      by_cases h1 : T.isSpace d.1 = true
      · simp only [h1, ↓reduceIte]
        cases prev with
        | true => simp only [↓reduceIte]; exact ih _ out true h
        | false =>
          simp only [Bool.false_eq_true, ↓reduceIte, encode_space, List.length_cons, List.length_nil]
          by_cases hl : out.length + (0 + 1) > maxLen
          · simp only [hl, ↓reduceIte]; exact ⟨out, false, rfl, h⟩
          · simp only [hl, ↓reduceIte]
            exact ih _ _ true (inv_space T maxLen out h (by omega))
      · have h1' : T.isSpace d.1 = false := by simpa using h1
        simp only [h1', Bool.false_eq_true, ↓reduceIte]
        by_cases h2 : T.isPrint d.1 = true
        · simp only [h2, Bool.not_true, Bool.false_eq_true, ↓reduceIte]
          by_cases hl : out.length + (encodeRune d.1).length > maxLen
          · simp only [hl, ↓reduceIte]; exact ⟨out, prev, rfl, h⟩
          · simp only [hl, ↓reduceIte]
            exact ih _ _ false (inv_emit T hT maxLen out prev h d.1 hsc h1' h2 (by omega))
        · have h2' : T.isPrint d.1 = false := by simpa using h2
          simp only [h2', Bool.not_false, ↓reduceIte]
          by_cases hl : out.length + (encodeRune runeError).length > maxLen
          · simp only [hl, ↓reduceIte]; exact ⟨out, prev, rfl, h⟩
          · simp only [hl, ↓reduceIte]
            exact ih _ _ false (inv_emit T hT maxLen out prev h runeError scalar_fffd hT.space_fffd hT.print_fffd (by omega))

/-- the fast-path scan agrees with the validator -/
theorem fast_reaches (T : Tables) : ∀ (s : List UInt8) (prev p : Bool), fastLoop s prev = some p →
    ∀ tail, validL T (s ++ tail) prev = validL T tail p := by
  intro s
  induction s with
  | nil => intro prev p h tail; simp only [fastLoop, Option.some.injEq] at h; subst h; rfl
  | cons c rest ih =>
    intro prev p h tail
    simp only [fastLoop] at h
    by_cases h1 : bytePrint c = true
    · simp only [h1, Bool.not_true, Bool.false_eq_true, ↓reduceIte] at h
      by_cases h2 : (isSp c && prev) = true
      · simp [h2] at h
      · simp only [h2, Bool.false_eq_true, ↓reduceIte] at h
        rw [List.cons_append, validL_cons]
        simp only [h1, ↓reduceIte, h2, Bool.false_eq_true]
        exact ih _ _ h tail
    · simp [h1] at h

theorem trimLast_valid (T : Tables) (maxLen : Nat) (out : List UInt8) (prev : Bool) (h : Inv T maxLen out prev) :
    valid T maxLen (trimLast (out, prev)) = true := by
  rw [valid_eq]
  unfold trimLast
  cases prev with
  | false =>
    have := h.reach []
    simp only [List.append_nil, validL_nil, Bool.not_false] at this
    simp [this, h.len]
  | true =>
    rcases h.last rfl with h0 | ⟨out', h1, h2⟩
    · subst h0; simp
    · subst h1
      have := h2 []
      simp only [List.append_nil, validL_nil, Bool.not_false] at this
      have hl := h.len
      simp only [List.length_append, List.length_cons, List.length_nil] at hl
      simp [this]
      omega

/-- force: the output is valid (in particular at most maxLen bytes) -/
theorem force_valid_aux (T : Tables) (hT : T.Sane) (maxLen : Nat) (s : List UInt8) :
    valid T maxLen (force T maxLen s) = true := by
  unfold force appendValid
  by_cases h0 : s.isEmpty = true
  · simp [h0, valid]
  · simp only [h0, Bool.false_eq_true, ↓reduceIte, List.nil_append]
    by_cases h1 : (decide (s.length ≤ maxLen) && fastOk s) = true
    · simp only [h1, ↓reduceIte, Option.getD_some]
      simp only [Bool.and_eq_true, decide_eq_true_eq, fastOk, beq_iff_eq] at h1
      rw [valid_eq]
      have := fast_reaches T s true false h1.2 []
      simp only [List.append_nil, validL_nil, Bool.not_false] at this
      simp [this, h1.1]
    · simp only [h1, Bool.false_eq_true, ↓reduceIte]
      obtain ⟨out', prev', he, hi⟩ := slow_inv T hT maxLen (s.length + 1) s [] true (inv_init T maxLen)
      simp only [he, Option.map_some, Option.getD_some]
      exact trimLast_valid T maxLen out' prev' hi

/-- a valid value passes through the slow path unchanged -/
theorem slow_id (T : Tables) (hT : T.Sane) (force : Bool) (maxLen : Nat) : ∀ (fuel : Nat) (s out : List UInt8) (prev : Bool),
    s.length + 1 ≤ fuel → validL T s prev = true → out.length + s.length ≤ maxLen →
    slowLoop T force maxLen fuel s out prev = some (out ++ s, false) := by
  intro fuel
  induction fuel with
  | zero => intro s out prev h; omega
  | succ f ih =>
    intro s out prev hf hv hl
    cases s with
    | nil =>
      simp only [validL_nil, Bool.not_eq_eq_eq_not, Bool.not_true] at hv
      simp [slowLoop, hv]
    | cons c rest =>
      rw [validL_cons] at hv
      simp only [List.length_cons] at hf hl
      have hw := decode_width c rest
      simp only [List.length_cons] at hw
      simp only [slowLoop]
      by_cases h1 : bytePrint c = true
      · simp only [h1, ↓reduceIte] at hv
        have hcp : 0x20 ≤ c.toNat ∧ c.toNat ≤ 0x7e := by
          simpa [bytePrint] using h1
        have hd := decode_ascii c rest (by omega)
        have hb : badRune (c.toNat, 1) = false := by
          have : c.toNat ≠ 65533 := by omega
          simp [badRune, runeError, this]
        have hsa := hT.space_ascii c.toNat hcp.1 hcp.2
        have hpa := hT.print_ascii c.toNat (by omega)
        have henc : encodeRune c.toNat = [c] := by
          rw [encode_ascii c.toNat (by omega)]; simp
        simp only [hd, hb, Bool.false_and, Bool.false_eq_true, ↓reduceIte, List.drop_succ_cons, List.drop_zero]
        unfold classify
        by_cases hs : isSp c = true
        · have hc20 : c.toNat = 0x20 := by simpa [isSp] using hs
          simp only [hs, Bool.true_and] at hv
          cases prev with
          | true => simp at hv
          | false =>
            simp only [Bool.false_eq_true, ↓reduceIte] at hv
            have : T.isSpace c.toNat = true := by rw [hsa]; simp [hc20]
            simp only [this, ↓reduceIte, Bool.false_eq_true, encode_space, List.length_cons, List.length_nil]
            have hlen : ¬ out.length + (0 + 1) > maxLen := by omega
            simp only [hlen, ↓reduceIte]
            have hc : c = 0x20 := by
              apply UInt8.toNat_inj.1; simpa using hc20
            rw [ih rest (out ++ [0x20]) true (by omega) hv (by simp; omega)]
            simp [hc]
        · have hs' : isSp c = false := by simpa using hs
          have hne : c.toNat ≠ 0x20 := by simpa [isSp] using hs'
          simp only [hs', Bool.false_and, Bool.false_eq_true, ↓reduceIte] at hv
          have h2 : T.isSpace c.toNat = false := by rw [hsa]; simp [hne]
          have h3 : T.isPrint c.toNat = true := by rw [hpa]; simp [hcp.1, hcp.2]
          simp only [h2, Bool.false_eq_true, ↓reduceIte, h3, Bool.not_true, henc, List.length_cons, List.length_nil]
          have hlen : ¬ out.length + (0 + 1) > maxLen := by omega
          simp only [hlen, ↓reduceIte]
          rw [ih rest (out ++ [c]) false (by omega) hv (by simp; omega)]
          simp
      · simp only [h1, Bool.false_eq_true, ↓reduceIte] at hv
        have henc := encode_decode c rest
        generalize hdd : decodeRune (c :: rest) = d at *
        by_cases hb : badRune d = true
        · simp [hb] at hv
        · have hb' : badRune d = false := by simpa using hb
          simp only [hb', Bool.false_eq_true, ↓reduceIte] at hv
          by_cases h2 : T.isSpace d.1 = true
          · simp [h2] at hv
          · have h2' : T.isSpace d.1 = false := by simpa using h2
            simp only [h2', Bool.false_eq_true, ↓reduceIte] at hv
            by_cases h3 : T.isPrint d.1 = true
            · simp only [h3, Bool.not_true, Bool.false_eq_true, ↓reduceIte] at hv
              have henc' := henc hb'
              unfold classify
              simp only [hb', Bool.false_and, Bool.false_eq_true, ↓reduceIte, h2', h3, Bool.not_true, henc']
              have htl : ((c :: rest).take d.2).length = d.2 := by
                simp only [List.length_take, List.length_cons]; omega
              have hdl : ((c :: rest).drop d.2).length = rest.length + 1 - d.2 := by
                simp only [List.length_drop, List.length_cons]
              have hlen : ¬ out.length + ((c :: rest).take d.2).length > maxLen := by omega
              simp only [hlen, ↓reduceIte]
              rw [ih ((c :: rest).drop d.2) (out ++ (c :: rest).take d.2) false (by omega) hv
                (by simp only [List.length_append, htl, hdl]; omega)]
              rw [List.append_assoc, List.take_append_drop]
            · simp [h3] at hv

/-- well-formed UTF-8: DecodeRune never answers (RuneError, ≤1) while walking the string (= utf8.Valid) -/
def utf8Ok : Nat → List UInt8 → Bool
  | 0, _ => true
  | _ + 1, [] => true
  | f + 1, c :: rest =>
    if badRune (decodeRune (c :: rest)) then false else utf8Ok f ((c :: rest).drop (decodeRune (c :: rest)).2)

def utf8Valid (s : List UInt8) : Bool := utf8Ok (s.length + 1) s

theorem slow_true_some (T : Tables) (maxLen : Nat) : ∀ (fuel : Nat) (s out : List UInt8) (prev : Bool),
    ∃ o, slowLoop T true maxLen fuel s out prev = some o := by
  intro fuel
  induction fuel with
  | zero => intro s out prev; exact ⟨_, rfl⟩
  | succ f ih =>
    intro s out prev
    cases s with
    | nil => exact ⟨_, rfl⟩
    | cons c rest =>
      simp only [slowLoop, Bool.not_true, Bool.and_false, Bool.false_eq_true, ↓reduceIte]
      cases classify T (decodeRune (c :: rest)).1 prev with
      | none => exact ih _ _ _
      | some p =>
        obtain ⟨r, sp⟩ := p
        simp only
        split
        · exact ⟨_, rfl⟩
        · exact ih _ _ _

/-- whenever the strict loop succeeds, the forcing loop does exactly the same -/
theorem slow_strict_eq_force (T : Tables) (maxLen : Nat) : ∀ (fuel : Nat) (s out : List UInt8) (prev : Bool) o,
    slowLoop T false maxLen fuel s out prev = some o → slowLoop T true maxLen fuel s out prev = some o := by
  intro fuel
  induction fuel with
  | zero => intro s out prev o h; exact h
  | succ f ih =>
    intro s out prev o h
    cases s with
    | nil => exact h
    | cons c rest =>
      simp only [slowLoop, Bool.not_false, Bool.and_true, Bool.not_true, Bool.and_false, Bool.false_eq_true,
        ↓reduceIte] at h ⊢
      by_cases hb : badRune (decodeRune (c :: rest)) = true
      · simp [hb] at h
      · simp only [hb, Bool.false_eq_true, ↓reduceIte] at h
        cases hc : classify T (decodeRune (c :: rest)).1 prev with
        | none => simp only [hc] at h ⊢; exact ih _ _ _ _ h
        | some p =>
          obtain ⟨r, sp⟩ := p
          simp only [hc] at h ⊢
          split
          · rename_i hl; simp only [hl, ↓reduceIte] at h; exact h
          · rename_i hl; simp only [hl, ↓reduceIte] at h; exact ih _ _ _ _ h

/-- on well-formed UTF-8 the strict loop does not fail -/
theorem slow_strict_some (T : Tables) (maxLen : Nat) : ∀ (fuel : Nat) (s out : List UInt8) (prev : Bool),
    utf8Ok fuel s = true → ∃ o, slowLoop T false maxLen fuel s out prev = some o := by
  intro fuel
  induction fuel with
  | zero => intro s out prev _; exact ⟨_, rfl⟩
  | succ f ih =>
    intro s out prev hu
    cases s with
    | nil => exact ⟨_, rfl⟩
    | cons c rest =>
      simp only [utf8Ok] at hu
      by_cases hb : badRune (decodeRune (c :: rest)) = true
      · simp [hb] at hu
      · simp only [hb, Bool.false_eq_true, ↓reduceIte] at hu
        simp only [slowLoop, Bool.not_false, Bool.and_true, hb, Bool.false_eq_true, ↓reduceIte]
        cases classify T (decodeRune (c :: rest)).1 prev with
        | none => exact ih _ _ _ hu
        | some p =>
          obtain ⟨r, sp⟩ := p
          simp only
          split
          · exact ⟨_, rfl⟩
          · exact ih _ _ _ hu

theorem appendValid_force (T : Tables) (maxLen : Nat) (dst s : List UInt8) :
    appendValid T maxLen true dst s = some (dst ++ force T maxLen s) := by
  unfold force appendValid
  by_cases h0 : s.isEmpty = true
  · simp [h0]
  · simp only [h0, Bool.false_eq_true, ↓reduceIte, List.nil_append]
    by_cases h1 : (decide (s.length ≤ maxLen) && fastOk s) = true
    · simp [h1]
    · simp only [h1, Bool.false_eq_true, ↓reduceIte]
      obtain ⟨o, ho⟩ := slow_true_some T maxLen (s.length + 1) s [] true
      simp [ho]

theorem strict_some_eq (T : Tables) (maxLen : Nat) (dst s v : List UInt8) (h : strict T maxLen dst s = some v) :
    v = dst ++ force T maxLen s := by
  have hf := appendValid_force T maxLen dst s
  unfold strict at h
  unfold appendValid at h hf
  by_cases h0 : s.isEmpty = true
  · simp only [h0, ↓reduceIte, Option.some.injEq] at h hf; rw [← h]; exact hf
  · simp only [h0, Bool.false_eq_true, ↓reduceIte] at h hf
    by_cases h1 : (decide (s.length ≤ maxLen) && fastOk s) = true
    · simp only [h1, ↓reduceIte, Option.some.injEq] at h hf; rw [← h]; exact hf
    · simp only [h1, Bool.false_eq_true, ↓reduceIte, Option.map_eq_some_iff] at h hf
      obtain ⟨o, ho, rfl⟩ := h
      obtain ⟨o', ho', he⟩ := hf
      have := slow_strict_eq_force T maxLen _ _ _ _ _ ho
      rw [this] at ho'
      cases ho'
      exact he

theorem strict_of_utf8 (T : Tables) (maxLen : Nat) (dst s : List UInt8) (hu : utf8Valid s = true) :
    strict T maxLen dst s = some (dst ++ force T maxLen s) := by
  have : ∃ v, strict T maxLen dst s = some v := by
    unfold strict appendValid
    by_cases h0 : s.isEmpty = true
    · simp [h0]
    · simp only [h0, Bool.false_eq_true, ↓reduceIte]
      by_cases h1 : (decide (s.length ≤ maxLen) && fastOk s) = true
      · simp [h1]
      · simp only [h1, Bool.false_eq_true, ↓reduceIte]
        obtain ⟨o, ho⟩ := slow_strict_some T maxLen (s.length + 1) s [] true hu
        simp [ho]
  obtain ⟨v, hv⟩ := this
  rw [hv, strict_some_eq T maxLen dst s v hv]

/-- valid values are well-formed UTF-8 -/
theorem valid_utf8_aux (T : Tables) : ∀ (fuel : Nat) (s : List UInt8) (prev : Bool),
    validL T s prev = true → utf8Ok fuel s = true := by
  intro fuel
  induction fuel with
  | zero => intro s prev _; rfl
  | succ f ih =>
    intro s prev hv
    cases s with
    | nil => rfl
    | cons c rest =>
      rw [validL_cons] at hv
      simp only [utf8Ok]
      by_cases h1 : bytePrint c = true
      · simp only [h1, ↓reduceIte] at hv
        have hcp : 0x20 ≤ c.toNat ∧ c.toNat ≤ 0x7e := by simpa [bytePrint] using h1
        have hd := decode_ascii c rest (by omega)
        have hb : badRune (c.toNat, 1) = false := by
          have : c.toNat ≠ 65533 := by omega
          simp [badRune, runeError, this]
        simp only [hd, hb, Bool.false_eq_true, ↓reduceIte, List.drop_succ_cons, List.drop_zero]
        split at hv
        · cases hv
        · exact ih _ _ hv
      · simp only [h1, Bool.false_eq_true, ↓reduceIte] at hv
        by_cases hb : badRune (decodeRune (c :: rest)) = true
        · simp [hb] at hv
        · simp only [hb, Bool.false_eq_true, ↓reduceIte] at hv ⊢
          split at hv
          · cases hv
          · split at hv
            · cases hv
            · exact ih _ _ hv

end SH.Norm
