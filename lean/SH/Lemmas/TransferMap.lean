/-
  SH.Lemmas.TransferMap — the string → int32 mapping glue of handleSendSourceBucket commutes with MergeWithTL2.

  `mapTLValue mp t` (what the handler does to the three host string tags of a TL value before merging it) changes the
  result of merging into a FRESH aggregator value only by mapping the three restored hosts: `mergeTL_map`.
  Core Lean only (generic number type with the model's own type classes).
-/
import SH.Model.Transfer

namespace SH.Transfer

set_option linter.unusedSectionVars false
set_option linter.unusedSimpArgs false

/-- host fields as `MultiValueToTL` writes them: a string host is never accompanied by a non-zero int host -/
def HostPairOk (i : Option Int) (s : Option Str) : Prop := s.isSome = true → i.getD 0 = 0

theorem mapTag_none (mp : Str → Int) : mapTag mp Tag.none = Tag.none := by
  simp [mapTag, Tag.none, mapStr]

theorem mapStr_pos_ne (mp : Str → Int) (s : Str) (h : 0 < mapStr mp s) : s ≠ [] := by
  intro e; subst e; simp [mapStr] at h

theorem both_none_map (mp : Str → Int) (i : Option Int) (s : Option Str) :
    ((mapHostI mp i s).isNone && (mapHostS mp s).isNone) = (i.isNone && s.isNone) := by
  cases s with
  | none => simp [mapHostI, mapHostS]
  | some str => by_cases h : 0 < mapStr mp str <;> simp [mapHostI, mapHostS, h]

theorem tagOf_map (mp : Str → Int) (i : Option Int) (s : Option Str) (ok : HostPairOk i s) :
    tagOf (mapHostI mp i s) (mapHostS mp s) = mapTag mp (tagOf i s) := by
  cases s with
  | none => simp [mapHostI, mapHostS, tagOf, mapTag, mapStr]
  | some str =>
    have hi : i.getD 0 = 0 := ok rfl
    by_cases h : 0 < mapStr mp str
    · simp [mapHostI, mapHostS, tagOf, mapTag, h, hi]
    · simp [mapHostI, mapHostS, tagOf, mapTag, h]

theorem isEmpty_mapTag (mp : Str → Int) (t : Tag) : (mapTag mp t).isEmpty = t.isEmpty := by
  obtain ⟨i, s⟩ := t
  unfold mapTag
  split
  · rename_i h
    obtain ⟨h1, h2⟩ := h
    simp only at h1 h2
    have hne := mapStr_pos_ne mp s h2
    have hm : mapStr mp s ≠ 0 := by omega
    cases s with
    | nil => exact absurd rfl hne
    | cons c cs => simp [Tag.isEmpty, hm]
  · rfl

section
variable {α : Type} [Zero α] [One α] [Add α] [Mul α] [Div α] [LT α] [LE α] [NatCast α]
  [DecidableEq α] [DecidableLT α] [DecidableLE α]

/-- the host fields of a TL value are as MultiValueToTL writes them -/
structure TLHostsOk (t : TLValue α) : Prop where
  max : HostPairOk t.hmaxI t.hmaxS
  min : HostPairOk t.hminI t.hminS
  cnt : HostPairOk t.hcntI t.hcntS

theorem restoreMax_map (mp : Str → Int) (t : TLValue α) (h : Tag) (ok : TLHostsOk t) (hh : mapTag mp h = h) :
    restoreMaxHost (mapTLValue mp t) h = mapTag mp (restoreMaxHost t h) := by
  simp only [restoreMaxHost, mapTLValue, both_none_map, tagOf_map mp _ _ ok.max]
  split <;> simp [hh]

theorem restoreOther_map (var : Variant) (mp : Str → Int) (i : Option Int) (s : Option Str) (hmax h : Tag)
    (ok : HostPairOk i s) (hh : mapTag mp h = h) :
    restoreOther var (mapHostI mp i s) (mapHostS mp s) (mapTag mp hmax) h = mapTag mp (restoreOther var i s hmax h) := by
  simp only [restoreOther, both_none_map, tagOf_map mp _ _ ok, isEmpty_mapTag]
  split
  · rfl
  · split <;> simp [hh]

theorem restoreMin_map (var : Variant) (mp : Str → Int) (t : TLValue α) (h : Tag) (ok : TLHostsOk t) (hh : mapTag mp h = h) :
    restoreMinHost var (mapTLValue mp t) h = mapTag mp (restoreMinHost var t h) := by
  simp only [restoreMinHost, restoreMax_map mp t h ok hh]
  exact restoreOther_map var mp _ _ _ _ ok.min hh

theorem restoreCnt_map (var : Variant) (mp : Str → Int) (t : TLValue α) (h : Tag) (ok : TLHostsOk t) (hh : mapTag mp h = h) :
    restoreCntHost var (mapTLValue mp t) h = mapTag mp (restoreCntHost var t h) := by
  simp only [restoreCntHost, restoreMax_map mp t h ok hh]
  exact restoreOther_map var mp _ _ _ _ ok.cnt hh

/-- the three hosts of a value mapped the way the aggregator maps host strings -/
def mapHostsV (mp : Str → Int) (v : ItemValue α) : ItemValue α :=
  { v with hcnt := mapTag mp v.hcnt, hmin := mapTag mp v.hmin, hmax := mapTag mp v.hmax }

def mapHostsMV (mp : Str → Int) (m : MultiValue α) : MultiValue α := { m with v := mapHostsV mp m.v }

def mapMerged (mp : Str → Int) (r : Merged α) : Merged α := ⟨mapHostsMV mp r.mv, r.err⟩

theorem mapHostsMV_empty (mp : Str → Int) : mapHostsMV mp (MultiValue.empty : MultiValue α) = MultiValue.empty := by
  simp [mapHostsMV, mapHostsV, MultiValue.empty, ItemValue.empty, mapTag_none]

theorem addCounterHost_empty_map (mp : Str → Int) (c : α) (host : Tag) (pick : Bool) (h0 : (0 : α) ≤ 0) :
    addCounterHost (ItemValue.empty : ItemValue α) c (mapTag mp host) pick =
      mapHostsV mp (addCounterHost (ItemValue.empty : ItemValue α) c host pick) := by
  unfold addCounterHost
  by_cases h1 : c ≤ 0
  · simp [h1, mapHostsV, ItemValue.empty, mapTag_none]
  · simp [h1, h0, mapHostsV, ItemValue.empty, mapTag_none]

theorem mergeValueTL_map (var : Variant) (mp : Str → Int) (s : ItemValue α) (t : TLValue α) (c : α) (h : Tag)
    (ok : TLHostsOk t) (hh : mapTag mp h = h) :
    mergeValueTL var (mapHostsV mp s) (mapTLValue mp t) c h = mapHostsV mp (mergeValueTL var s t c h) := by
  have e1 := restoreMax_map mp t h ok hh
  have e2 := restoreMin_map var mp t h ok hh
  simp only [mergeValueTL, e1, e2]
  simp only [mapTLValue, mapHostsV, newMin, newMax]
  congr 1 <;> exact (apply_ite (mapTag mp) _ _ _).symm

theorem mergeDigest_map (mp : Str → Int) (m : MultiValue α) (t : TLValue α) (c : α) :
    mergeDigest (mapHostsMV mp m) (mapTLValue mp t) c = mapMerged mp (mergeDigest m t c) := by
  have e1 : tlCents (mapTLValue mp t) = tlCents t := rfl
  have e2 : (mapTLValue mp t).implicit = t.implicit := rfl
  have e3 : (mapTLValue mp t).min = t.min := rfl
  have e4 : (mapHostsMV mp m).dg = m.dg := rfl
  unfold mergeDigest
  rw [e1, e2, e3, e4]
  split
  · split <;> rfl
  · split
    · rfl
    · split <;> rfl

theorem mergeCounterUq_map (var : Variant) (mp : Str → Int) (t : TLValue α) (h : Tag) (pick : Bool)
    (ok : TLHostsOk t) (hh : mapTag mp h = h) (h0 : (0 : α) ≤ 0) :
    mergeCounterUq var (MultiValue.empty : MultiValue α) (mapTLValue mp t) h pick =
      mapHostsMV mp (mergeCounterUq var MultiValue.empty t h pick) := by
  have e1 : tlCounter (mapTLValue mp t) = tlCounter t := rfl
  have e2 : (mapTLValue mp t).uq = t.uq := rfl
  simp only [mergeCounterUq, e1, e2, restoreCnt_map var mp t h ok hh, MultiValue.empty,
    addCounterHost_empty_map mp _ _ _ h0, mapHostsMV]

/-- **the mapping glue commutes with MergeWithTL2 into a fresh value**: mapping the host strings of the TL value before
    the merge = mapping the three hosts of the merged value -/
theorem mergeTL_map (var : Variant) (mp : Str → Int) (t : TLValue α) (h : Tag) (pick : Bool)
    (ok : TLHostsOk t) (hh : mapTag mp h = h) (h0 : (0 : α) ≤ 0) :
    mergeTL var (MultiValue.empty : MultiValue α) (mapTLValue mp t) h pick =
      mapMerged mp (mergeTL var MultiValue.empty t h pick) := by
  have e1 : tlCounter (mapTLValue mp t) = tlCounter t := rfl
  have e2 : (mapTLValue mp t).vset = t.vset := rfl
  have e3 : valueFieldsErr (mapTLValue mp t) = valueFieldsErr t := rfl
  have e4 := mergeCounterUq_map var mp t h pick ok hh h0
  unfold mergeTL
  rw [e1, e2, e3, e4]
  split
  · simp [mapMerged, mapHostsMV_empty]
  · split
    · simp [mapMerged, mapHostsMV_empty]
    · split
      · rfl
      · split
        · rfl
        · have e5 := mergeValueTL_map var mp (mergeCounterUq var (MultiValue.empty : MultiValue α) t h pick).v t (tlCounter t) h ok hh
          have e6 := mergeDigest_map mp
            { mergeCounterUq var (MultiValue.empty : MultiValue α) t h pick with
              v := mergeValueTL var (mergeCounterUq var (MultiValue.empty : MultiValue α) t h pick).v t (tlCounter t) h } t (tlCounter t)
          rw [← e6]
          simp only [mapHostsMV, e5]

end
end SH.Transfer
