/-
  SH.Lemmas.NormSpecC11 — validStringValue characterised in the words of the property: well-formed UTF-8, length,
  no leading / trailing / doubled space, spaces are ASCII, every rune printable.
-/
import SH.Lemmas.NormC11

namespace SH.Norm

/-- the runes of a byte string; none = malformed UTF-8 (DecodeRune answers (RuneError, ≤1) somewhere) -/
def decodeAll : Nat → List UInt8 → Option (List Nat)
  | 0, _ => none
  | _ + 1, [] => some []
  | f + 1, c :: rest =>
    if badRune (decodeRune (c :: rest)) then none
    else (decodeAll f ((c :: rest).drop (decodeRune (c :: rest)).2)).map ((decodeRune (c :: rest)).1 :: ·)

def runesOf (s : List UInt8) : Option (List Nat) := decodeAll (s.length + 1) s

/-- proof device: the validator's loop replayed on runes -/
def goodR (T : Tables) : List Nat → Bool → Bool
  | [], prev => !prev
  | r :: rest, prev =>
    if r = 0x20 then (!prev && goodR T rest true)
    else (!T.isSpace r && T.isPrint r && goodR T rest false)

/-- a first byte ≥ 0x80 never decodes to an ASCII rune -/
theorem decode_high (c : UInt8) (rest : List UInt8) (h : 0x80 ≤ c.toNat) : 0x80 ≤ (decodeRune (c :: rest)).1 := by
  by_cases hb : badRune (decodeRune (c :: rest)) = true
  · simp only [badRune, Bool.and_eq_true, decide_eq_true_eq] at hb
    rw [hb.1]; unfold runeError; omega
  · have hb' : badRune (decodeRune (c :: rest)) = false := by simpa using hb
    have he := encode_decode c rest hb'
    have hw := decode_width c rest
    by_cases hr : (decodeRune (c :: rest)).1 < 0x80
    · rw [encode_ascii _ hr] at he
      obtain ⟨k, hk⟩ : ∃ k, (decodeRune (c :: rest)).2 = k + 1 := ⟨(decodeRune (c :: rest)).2 - 1, by omega⟩
      rw [hk, List.take_succ_cons] at he
      have h1 : UInt8.ofNat (decodeRune (c :: rest)).1 = c := by
        have := List.cons.inj he
        exact this.1
      have h2 : (UInt8.ofNat (decodeRune (c :: rest)).1).toNat = (decodeRune (c :: rest)).1 :=
        toNat_ofNat_small _ (by omega)
      rw [h1] at h2
      omega
    · omega

/-- the validator accepts exactly the byte strings that decode to a rune list the rune-level loop accepts -/
theorem validLoop_iff (T : Tables) (hT : T.Sane) : ∀ (f : Nat) (s : List UInt8) (prev : Bool),
    validLoop T f s prev = true ↔ ∃ rs, decodeAll f s = some rs ∧ goodR T rs prev = true := by
  intro f
  induction f with
  | zero => intro s prev; simp [validLoop, decodeAll]
  | succ f ih =>
    intro s prev
    cases s with
    | nil => simp [validLoop, decodeAll, goodR]
    | cons c rest =>
      simp only [validLoop, decodeAll]
      by_cases h1 : bytePrint c = true
      · have hcp : 0x20 ≤ c.toNat ∧ c.toNat ≤ 0x7e := by simpa [bytePrint] using h1
        have hd := decode_ascii c rest (by omega)
        have hb : badRune (c.toNat, 1) = false := by
          have : c.toNat ≠ 65533 := by omega
          simp [badRune, runeError, this]
        have hsa := hT.space_ascii c.toNat hcp.1 hcp.2
        have hpa := hT.print_ascii c.toNat (by omega)
        simp only [h1, ↓reduceIte, hd, hb, Bool.false_eq_true, List.drop_succ_cons, List.drop_zero,
          Option.map_eq_some_iff]
        by_cases hs : isSp c = true
        · have hc20 : c.toNat = 0x20 := by simpa [isSp] using hs
          simp only [hs, Bool.true_and]
          cases prev with
          | true =>
            simp only [↓reduceIte, Bool.false_eq_true, false_iff, not_exists, not_and]
            rintro rs ⟨rs', _, rfl⟩
            simp [goodR, hc20]
          | false =>
            simp only [Bool.false_eq_true, ↓reduceIte, ih]
            constructor
            · rintro ⟨rs, h2, h3⟩
              exact ⟨c.toNat :: rs, ⟨rs, h2, rfl⟩, by simp [goodR, hc20, h3]⟩
            · rintro ⟨rs, ⟨rs', h2, rfl⟩, h3⟩
              refine ⟨rs', h2, ?_⟩
              simpa [goodR, hc20] using h3
        · have hs' : isSp c = false := by simpa using hs
          have hne : c.toNat ≠ 0x20 := by simpa [isSp] using hs'
          have h2 : T.isSpace c.toNat = false := by rw [hsa]; simp [hne]
          have h3 : T.isPrint c.toNat = true := by rw [hpa]; simp [hcp.1, hcp.2]
          simp only [hs', Bool.false_and, Bool.false_eq_true, ↓reduceIte, ih]
          constructor
          · rintro ⟨rs, h4, h5⟩
            exact ⟨c.toNat :: rs, ⟨rs, h4, rfl⟩, by simp [goodR, hne, h2, h3, h5]⟩
          · rintro ⟨rs, ⟨rs', h4, rfl⟩, h5⟩
            refine ⟨rs', h4, ?_⟩
            simpa [goodR, hne, h2, h3] using h5
      · simp only [h1, Bool.false_eq_true, ↓reduceIte]
        have hne : (decodeRune (c :: rest)).1 ≠ 0x20 := by
          by_cases hc : c.toNat < 0x80
          · rw [decode_ascii c rest hc]
            simp only [bytePrint, Bool.and_eq_true, decide_eq_true_eq, not_and] at h1
            intro h; simp only at h; omega
          · have := decode_high c rest (by omega); omega
        generalize decodeRune (c :: rest) = d at *
        by_cases hb : badRune d = true
        · simp [hb]
        · simp only [hb, Bool.false_eq_true, ↓reduceIte, Option.map_eq_some_iff]
          by_cases h2 : T.isSpace d.1 = true
          · simp only [h2, ↓reduceIte, Bool.false_eq_true, false_iff, not_exists, not_and]
            rintro rs ⟨rs', _, rfl⟩
            simp [goodR, hne, h2]
          · have h2' : T.isSpace d.1 = false := by simpa using h2
            simp only [h2', Bool.false_eq_true, ↓reduceIte]
            by_cases h3 : T.isPrint d.1 = true
            · simp only [h3, Bool.not_true, Bool.false_eq_true, ↓reduceIte, ih]
              constructor
              · rintro ⟨rs, h4, h5⟩
                exact ⟨d.1 :: rs, ⟨rs, h4, rfl⟩, by simp [goodR, hne, h2', h3, h5]⟩
              · rintro ⟨rs, ⟨rs', h4, rfl⟩, h5⟩
                refine ⟨rs', h4, ?_⟩
                simpa [goodR, hne, h2', h3] using h5
            · have h3' : T.isPrint d.1 = false := by simpa using h3
              simp only [h3', Bool.not_false, ↓reduceIte, Bool.false_eq_true, false_iff, not_exists, not_and]
              rintro rs ⟨rs', _, rfl⟩
              simp [goodR, hne, h2', h3']

/-- "printable, and the only space is the ASCII one" for one rune -/
def RuneOK (T : Tables) (r : Nat) : Prop := T.isPrint r = true ∧ (T.isSpace r = true → r = 0x20)

/-- no two consecutive ASCII spaces -/
def NoDoubleSpace (rs : List Nat) : Prop := ∀ i, rs[i]? = some 0x20 → rs[i + 1]? ≠ some 0x20

theorem noDouble_cons_space (rest : List Nat) :
    NoDoubleSpace (0x20 :: rest) ↔ rest.head? ≠ some 0x20 ∧ NoDoubleSpace rest := by
  unfold NoDoubleSpace
  constructor
  · intro h
    refine ⟨?_, fun i hi => ?_⟩
    · have := h 0 (by simp)
      cases rest <;> simpa using this
    · have := h (i + 1) (by simpa using hi)
      simpa using this
  · rintro ⟨h1, h2⟩ i hi
    cases i with
    | zero => cases rest <;> simpa using h1
    | succ i => have := h2 i (by simpa using hi); simpa using this

theorem noDouble_cons_other (r : Nat) (hr : r ≠ 0x20) (rest : List Nat) :
    NoDoubleSpace (r :: rest) ↔ NoDoubleSpace rest := by
  unfold NoDoubleSpace
  constructor
  · intro h i hi
    have := h (i + 1) (by simpa using hi)
    simpa using this
  · intro h i hi
    cases i with
    | zero => simp at hi; exact absurd hi.symm (by omega)
    | succ i => have := h i (by simpa using hi); simpa using this

/-- the rune-level loop in declarative terms -/
theorem goodR_iff (T : Tables) (hT : T.Sane) : ∀ (rs : List Nat) (prev : Bool),
    goodR T rs prev = true ↔
      (∀ r ∈ rs, RuneOK T r) ∧ (prev = true → rs.head? ≠ some 0x20) ∧ (rs = [] → prev = false) ∧
      rs.getLast? ≠ some 0x20 ∧ NoDoubleSpace rs := by
  have hp20 : T.isPrint 0x20 = true := by rw [hT.print_ascii 0x20 (by omega)]; rfl
  have hs20 : T.isSpace 0x20 = true := by rw [hT.space_ascii 0x20 (by omega) (by omega)]; rfl
  intro rs
  induction rs with
  | nil =>
    intro prev
    cases prev <;> simp [goodR, NoDoubleSpace]
  | cons r rest ih =>
    intro prev
    simp only [goodR]
    by_cases hr : r = 0x20
    · subst hr
      simp only [↓reduceIte, Bool.and_eq_true, Bool.not_eq_eq_eq_not, Bool.not_true, ih, List.mem_cons,
        forall_eq_or_imp, List.head?_cons, ne_eq, not_true_eq_false, imp_false, Bool.not_eq_true, reduceCtorEq,
        false_imp_iff, true_and, noDouble_cons_space]
      have hok : RuneOK T 0x20 := ⟨hp20, fun _ => rfl⟩
      constructor
      · rintro ⟨hprev, hall, hh, hne, hl, hd⟩
        refine ⟨⟨hok, hall⟩, hprev, ?_, hh trivial, hd⟩
        cases rest with
        | nil => exact absurd rfl hne
        | cons a l => simpa [List.getLast?_cons_cons] using hl
      · rintro ⟨⟨_, hall⟩, hprev, hl, hh, hd⟩
        refine ⟨hprev, hall, fun _ => hh, ?_, ?_, hd⟩
        · intro h; subst h; simp at hl
        · cases rest with
          | nil => simp at hl
          | cons a l => simpa [List.getLast?_cons_cons] using hl
    · simp only [hr, ↓reduceIte, Bool.and_eq_true, Bool.not_eq_eq_eq_not, Bool.not_true, ih, List.mem_cons,
        forall_eq_or_imp, List.head?_cons, ne_eq, Option.some.injEq, not_false_eq_true, implies_true, reduceCtorEq,
        false_imp_iff, true_and, noDouble_cons_other r hr, Bool.false_eq_true]
      constructor
      · rintro ⟨⟨hs, hp⟩, hall, hl, hd⟩
        refine ⟨⟨⟨hp, fun h => by rw [hs] at h; cases h⟩, hall⟩, ?_, hd⟩
        cases rest with
        | nil => simpa using hr
        | cons a l => simpa [List.getLast?_cons_cons] using hl
      · rintro ⟨⟨⟨hp, hs⟩, hall⟩, hl, hd⟩
        refine ⟨⟨?_, hp⟩, hall, ?_, hd⟩
        · cases h : T.isSpace r with
          | false => rfl
          | true => exact absurd (hs h) hr
        · cases rest with
          | nil => simp
          | cons a l => simpa [List.getLast?_cons_cons] using hl

theorem decodeAll_cons_ne_nil (f : Nat) (c : UInt8) (rest : List UInt8) (rs : List Nat)
    (h : decodeAll f (c :: rest) = some rs) : rs ≠ [] := by
  cases f with
  | zero => simp [decodeAll] at h
  | succ f =>
    simp only [decodeAll] at h
    split at h
    · cases h
    · simp only [Option.map_eq_some_iff] at h
      obtain ⟨_, _, rfl⟩ := h
      simp

/-- well-formedness in the sense of decodeAll is the utf8Valid of the strict-normalisation theorems -/
theorem decodeAll_utf8Ok : ∀ (f : Nat) (s : List UInt8) (rs : List Nat), decodeAll f s = some rs → utf8Ok f s = true := by
  intro f
  induction f with
  | zero => intro s rs h; rfl
  | succ f ih =>
    intro s rs h
    cases s with
    | nil => rfl
    | cons c rest =>
      simp only [decodeAll] at h
      simp only [utf8Ok]
      split at h
      · cases h
      · rename_i hb
        simp only [Option.map_eq_some_iff] at h
        obtain ⟨rs', h', _⟩ := h
        simp only [hb, Bool.false_eq_true, ↓reduceIte]
        exact ih _ _ h'

end SH.Norm
