/-
  SH.Lemmas.EngineChain — contiguity of the model's binlog (property C17, closed form of restart_catches_up).

  `Chain p l`: the records of `l` are laid out back to back starting at offset `p` (every record has positive length and
  ends exactly `ln` bytes after its predecessor). The model's own writer (`writeOK`, `appendStep`) produces such
  binlogs, deliveries/flushes/crashes keep them; for the real fsbinlog this is its reader/writer contract (C18).
-/
import SH.Lemmas.Engine
namespace SH.Engine

def Chain : Nat → List Rec → Prop
  | _, [] => True
  | p, r :: t => 0 < r.ln ∧ r.eo = p + r.ln ∧ Chain r.eo t

theorem chain_nil (p : Nat) : Chain p [] := trivial

theorem chain_append : ∀ (a b : List Rec) (p : Nat), Chain p (a ++ b) ↔ Chain p a ∧ Chain (p + total a) b := by
  intro a
  induction a with
  | nil => intro b p; simp [Chain, total]
  | cons r t ih =>
    intro b p
    simp only [List.cons_append, Chain, total_cons, ih]
    constructor
    · rintro ⟨h1, h2, h3, h4⟩
      refine ⟨⟨h1, h2, h3⟩, ?_⟩
      rw [h2] at h4; rwa [Nat.add_assoc] at h4
    · rintro ⟨⟨h1, h2, h3⟩, h4⟩
      refine ⟨h1, h2, h3, ?_⟩
      rw [h2, Nat.add_assoc]; exact h4

theorem chain_bounds : ∀ (l : List Rec) (p : Nat), Chain p l → ∀ r ∈ l, p < r.eo ∧ r.eo ≤ p + total l := by
  intro l
  induction l with
  | nil => intro p _ r hr; cases hr
  | cons a t ih =>
    intro p h r hr
    obtain ⟨h1, h2, h3⟩ := h
    simp only [total_cons]
    rcases List.mem_cons.1 hr with rfl | hr
    · omega
    · have := ih _ h3 r hr; omega

theorem chain_upTo_all (l : List Rec) (p c : Nat) (h : Chain p l) (hc : p + total l ≤ c) : upTo c l = l :=
  upTo_eq_self c l (fun r hr => by have := (chain_bounds l p h r hr).2; omega)

theorem chain_upTo_nil (l : List Rec) (p c : Nat) (h : Chain p l) (hc : c ≤ p) : upTo c l = [] :=
  upTo_eq_nil c l (fun r hr => by have := (chain_bounds l p h r hr).1; omega)

theorem above_eq_self (c : Nat) (l : List Rec) (h : ∀ r ∈ l, c < r.eo) : above c l = l := by
  simp only [above, List.filter_eq_self]
  intro r hr; have := h r hr; simp; omega

/-- a contiguous binlog is sorted: the records ending at or before `c` are a prefix, the others the matching suffix -/
theorem chain_split : ∀ (l : List Rec) (p c : Nat), Chain p l →
    upTo c l ++ above c l = l ∧ Chain p (upTo c l) := by
  intro l
  induction l with
  | nil => intro p c _; simp [upTo, above, Chain]
  | cons a t ih =>
    intro p c h
    obtain ⟨h1, h2, h3⟩ := h
    by_cases hc : a.eo ≤ c
    · have e1 : upTo c (a :: t) = a :: upTo c t := by simp [upTo, hc]
      have e2 : above c (a :: t) = above c t := by
        have hn : ¬ c < a.eo := by omega
        simp [above, List.filter_cons, hn]
      obtain ⟨i1, i2⟩ := ih a.eo c h3
      rw [e1, e2]
      exact ⟨by simp [i1], h1, h2, i2⟩
    · have hb := chain_bounds t a.eo h3
      have e1 : upTo c (a :: t) = [] := by
        have : upTo c t = [] := upTo_eq_nil c t (fun r hr => by have := (hb r hr).1; omega)
        simp [upTo, hc] at this ⊢; exact this
      have e2 : above c (a :: t) = a :: t := by
        have : above c t = t := above_eq_self c t (fun r hr => by have := (hb r hr).1; omega)
        have hn : c < a.eo := by omega
        simp only [above] at this ⊢
        rw [List.filter_cons]; simp [this, hn]
      rw [e1, e2]; exact ⟨rfl, trivial⟩

theorem chain_above (l : List Rec) (p c : Nat) (h : Chain p l) : Chain (p + total (upTo c l)) (above c l) := by
  obtain ⟨e, _⟩ := chain_split l p c h
  have := (chain_append (upTo c l) (above c l) p).1 (by rw [e]; exact h)
  exact this.2

theorem mkRecs_chain : ∀ (l : List (Bool × Nat × Nat)) (p : Nat), (∀ x ∈ l, 0 < x.2.2) → Chain p (mkRecs p l) := by
  intro l
  induction l with
  | nil => intro p _; trivial
  | cons a t ih =>
    intro p h
    obtain ⟨e, id, ln⟩ := a
    exact ⟨h (e, id, ln) (List.mem_cons_self ..), rfl, ih _ (fun x hx => h x (List.mem_cons_of_mem _ hx))⟩


/-! ### contiguity invariant of the model's binlog -/

structure ChC (coff toff dbo : Nat) (done rest : List Rec) (len : Nat) (aq : List QItem) : Prop where
  c1 : Chain 0 done
  c2 : total done = dbo
  c3 : Chain dbo (flat aq)
  c4 : Chain (rpos dbo aq) rest
  c5 : total (upTo toff done) = toff      -- the offset row of the write transaction is a record boundary
  c6 : total (upTo coff done) = coff      -- so is the committed one
  c7 : rpos dbo aq + total rest = len     -- the binlog ends where its last record ends

def Ch (s : St) : Prop := ChC s.com.off s.tx.off s.dbo s.done s.rest s.len s.aq

theorem ch_fresh (w r : Bool) (l : List (Bool × Nat × Nat)) (hl : ∀ x ∈ l, 0 < x.2.2) :
    Ch (init w r (mkRecs 0 l) (total (mkRecs 0 l))) := by
  refine ⟨trivial, rfl, trivial, ?_, rfl, rfl, ?_⟩
  · show Chain (rpos 0 []) (mkRecs 0 l)
    simp only [rpos, flat_nil, total_nil]; exact mkRecs_chain l 0 hl
  · show rpos 0 [] + total (mkRecs 0 l) = total (mkRecs 0 l)
    simp [rpos, flat_nil, total_nil]

theorem ch_comTx {s : St} (h : Ch s) : ChC s.tx.off s.tx.off s.dbo s.done s.rest s.len s.aq :=
  ⟨h.c1, h.c2, h.c3, h.c4, h.c5, h.c5, h.c7⟩

theorem upTo_done_all {s : St} (h : Ch s) (c : Nat) (hc : s.dbo ≤ c) : upTo c s.done = s.done :=
  chain_upTo_all s.done 0 c h.c1 (by rw [h.c2]; omega)

theorem ch_flushQ {s : St} (h : Ch s) (hco : s.com.off ≤ s.dbo) : Ch (flushQ s) := by
  obtain ⟨c1, c2, c3, c4, c5, c6, c7⟩ := h
  simp only [Ch, flushQ, foldl_flush, flushed]
  have hch : Chain 0 (s.done ++ flat s.aq) := (chain_append _ _ 0).2 ⟨c1, by rw [Nat.zero_add, c2]; exact c3⟩
  have htot : total (s.done ++ flat s.aq) = s.dbo + total (flat s.aq) := by rw [total_append, c2]
  refine ⟨hch, htot, trivial, ?_, ?_, ?_, ?_⟩
  · show Chain (rpos (s.dbo + total (flat s.aq)) []) s.rest
    simpa [rpos, flat_nil, total_nil] using c4
  · show total (upTo (if s.aq = [] then s.tx.off else s.dbo + total (flat s.aq)) (s.done ++ flat s.aq)) = _
    by_cases he : s.aq = []
    · simp only [he, if_true, flat_nil, List.append_nil]; exact c5
    · simp only [he, if_false]
      rw [chain_upTo_all _ 0 _ hch (by rw [htot]; omega), htot]
  · show total (upTo s.com.off (s.done ++ flat s.aq)) = s.com.off
    rw [upTo_append, chain_upTo_nil _ _ _ c3 hco, List.append_nil]; exact c6
  · show rpos (s.dbo + total (flat s.aq)) [] + total s.rest = s.len
    simpa [rpos, flat_nil, total_nil] using c7

theorem ch_enqueue {s : St} (h : Ch s) (recs rest' : List Rec) (it : QItem) (n : Nat)
    (hsplit : s.rest = recs ++ rest') (hit : itemRecs it = recs) :
    Ch (enqueue { s with rest := rest' } it n) := by
  obtain ⟨c1, c2, c3, c4, c5, c6, c7⟩ := h
  rw [hsplit, chain_append] at c4
  have hflat : flat (s.aq ++ [it]) = flat s.aq ++ recs := by simp [flat_append, flat_cons, flat_nil, hit]
  have hrp : rpos s.dbo (s.aq ++ [it]) = rpos s.dbo s.aq + total recs := by
    simp [rpos, hflat, total_append, Nat.add_assoc]
  refine ⟨c1, c2, ?_, ?_, c5, c6, ?_⟩
  · show Chain s.dbo (flat (s.aq ++ [it]))
    rw [hflat, chain_append]; exact ⟨c3, c4.1⟩
  · show Chain (rpos s.dbo (s.aq ++ [it])) rest'
    rw [hrp]; exact c4.2
  · show rpos s.dbo (s.aq ++ [it]) + total rest' = s.len
    rw [hrp, ← c7, hsplit, total_append]; omega

theorem ch_direct {s : St} (h : Ch s) (recs rest' : List Rec) (haq : s.aq = []) (hsplit : s.rest = recs ++ rest')
    (hco : s.com.off ≤ s.dbo) : Ch (applyDirect { s with rest := rest' } recs) := by
  obtain ⟨c1, c2, c3, c4, c5, c6, c7⟩ := h
  have hrp : rpos s.dbo s.aq = s.dbo := by simp [rpos, haq, flat_nil, total_nil]
  rw [hrp, hsplit, chain_append] at c4
  rw [hrp, hsplit, total_append] at c7
  have hch : Chain 0 (s.done ++ recs) := (chain_append _ _ 0).2 ⟨c1, by rw [Nat.zero_add, c2]; exact c4.1⟩
  have htot : total (s.done ++ recs) = s.dbo + total recs := by rw [total_append, c2]
  have hrp' : rpos (s.dbo + total recs) s.aq = s.dbo + total recs := by simp [rpos, haq, flat_nil, total_nil]
  refine ⟨hch, htot, ?_, ?_, ?_, ?_, ?_⟩
  · show Chain (s.dbo + total recs) (flat s.aq)
    rw [haq]; trivial
  · show Chain (rpos (s.dbo + total recs) s.aq) rest'
    rw [hrp']; exact c4.2
  · show total (upTo (s.dbo + total recs) (s.done ++ recs)) = s.dbo + total recs
    rw [chain_upTo_all _ 0 _ hch (by rw [htot]; omega), htot]
  · show total (upTo s.com.off (s.done ++ recs)) = s.com.off
    rw [upTo_append, chain_upTo_nil _ _ _ c4.1 hco, List.append_nil]; exact c6
  · show rpos (s.dbo + total recs) s.aq + total rest' = s.len
    rw [hrp']; omega

theorem canWrite_empty {s : St} (h : Inv0 s) (hc : s.dbo = s.len) : flat s.aq = [] ∧ s.rest = [] := by
  constructor
  · apply List.eq_nil_iff_forall_not_mem.2
    intro r hr
    have h1 := (h.ql r hr).1
    have h2 := h.ln r (mem_allR.2 (Or.inr (Or.inl hr)))
    omega
  · apply List.eq_nil_iff_forall_not_mem.2
    intro r hr
    have h1 := h.rl r hr
    have h2 := h.ln r (mem_allR.2 (Or.inr (Or.inr hr)))
    simp only [rpos] at h1; omega

theorem newRecs_chain (s : St) (id ln extra : Nat) :
    Chain s.dbo (newRecs s id ln extra) ∧ total (newRecs s id ln extra) = plen ln + extra ∧
    total (upTo (s.dbo + plen ln) (newRecs s id ln extra)) = plen ln := by
  have hp := plen_pos ln
  by_cases he : extra = 0
  · subst he
    simp [newRecs, svcRec, Chain, total, upTo]; omega
  · have : ¬ (s.dbo + plen ln + extra ≤ s.dbo + plen ln) := by omega
    simp [newRecs, svcRec, he, Chain, total, upTo, this]
    omega

theorem ch_writeOK {s : St} (hi : Inv0 s) (h : Ch s) (hc : s.dbo = s.len) (id ln extra : Nat) :
    Ch (writeOK s id ln extra) := by
  obtain ⟨c1, c2, c3, c4, c5, c6, c7⟩ := h
  obtain ⟨hflat, hrest⟩ := canWrite_empty hi hc
  obtain ⟨n1, n2, n3⟩ := newRecs_chain s id ln extra
  have hco : s.com.off ≤ s.dbo := Nat.le_trans hi.i6a hi.i6b
  unfold Ch
  rw [writeOK_done]
  have hch : Chain 0 (s.done ++ newRecs s id ln extra) := (chain_append _ _ 0).2 ⟨c1, by rw [Nat.zero_add, c2]; exact n1⟩
  refine ⟨hch, ?_, ?_, ?_, ?_, ?_, ?_⟩
  · show total (s.done ++ newRecs s id ln extra) = s.dbo + plen ln + extra
    rw [total_append, c2, n2]; omega
  · show Chain (s.dbo + plen ln + extra) (flat s.aq)
    rw [hflat]; trivial
  · show Chain (rpos (s.dbo + plen ln + extra) s.aq) s.rest
    rw [hrest]; trivial
  · show total (upTo (s.dbo + plen ln) (s.done ++ newRecs s id ln extra)) = s.dbo + plen ln
    rw [upTo_append, chain_upTo_all _ 0 _ c1 (by rw [c2]; omega), total_append, c2, n3]
  · show total (upTo s.com.off (s.done ++ newRecs s id ln extra)) = s.com.off
    rw [upTo_append, chain_upTo_nil _ _ _ n1 hco, List.append_nil]; exact c6
  · show rpos (s.dbo + plen ln + extra) s.aq + total s.rest = s.dbo + plen ln + extra
    simp [rpos, hflat, hrest, total_nil]

theorem ch_crash {s : St} (hi : Inv0 s) (h : Ch s) (d : Nat) (hb : s.com.off + total (keptRest s d) = d) :
    Ch (crashStep s d) := by
  obtain ⟨c1, c2, c3, c4, c5, c6, c7⟩ := h
  obtain ⟨e, hpre⟩ := chain_split s.done 0 s.com.off c1
  have hab := chain_above s.done 0 s.com.off c1
  rw [Nat.zero_add, c6] at hab
  have htot : s.com.off + total (above s.com.off s.done) = s.dbo := by
    have := congrArg total e; rw [total_append, c6, c2] at this; exact this
  have hall : Chain s.com.off (above s.com.off s.done ++ flat s.aq ++ s.rest) := by
    rw [List.append_assoc, chain_append, htot, chain_append]
    exact ⟨hab, c3, c4⟩
  have hrp : rpos s.com.off [] = s.com.off := by simp [rpos, flat_nil, total_nil]
  refine ⟨hpre, c6, trivial, ?_, ?_, ?_, ?_⟩
  · show Chain (rpos s.com.off []) (keptRest s d)
    rw [hrp]; exact (chain_split _ _ d hall).2
  · show total (upTo s.com.off (upTo s.com.off s.done)) = s.com.off
    rw [upTo_upTo]; exact c6
  · show total (upTo s.com.off (upTo s.com.off s.done)) = s.com.off
    rw [upTo_upTo]; exact c6
  · show rpos s.com.off [] + total (keptRest s d) = d
    rw [hrp]; exact hb

theorem ch_append {s : St} (h : Ch s) (l : List (Bool × Nat × Nat)) (hl : ∀ x ∈ l, 0 < x.2.2) : Ch (appendStep s l) := by
  obtain ⟨c1, c2, c3, c4, c5, c6, c7⟩ := h
  refine ⟨c1, c2, c3, ?_, c5, c6, ?_⟩
  · show Chain (rpos s.dbo s.aq) (s.rest ++ mkRecs s.len l)
    rw [chain_append, c7]; exact ⟨c4, mkRecs_chain l s.len hl⟩
  · show rpos s.dbo s.aq + total (s.rest ++ mkRecs s.len l) = s.len + total (mkRecs s.len l)
    rw [total_append]; omega


/-! ### every step keeps the binlog contiguous -/

theorem commitStep_ch {s : St} (hi : Inv s) (h : Ch s) (k : Nat) : Ch (commitStep s k) := by
  unfold commitStep
  split
  · exact h
  · split
    · apply ch_flushQ
      · exact ch_comTx h
      · exact hi.1.i6b
    · split
      · exact ch_comTx h
      · exact h

theorem deliverApply_ch {s : St} (hi : Inv s) (h : Ch s) (n : Nat) : Ch (deliverApply s n).1 := by
  unfold deliverApply
  split
  · exact h
  · split
    · exact h
    · have hsplit : s.rest = s.rest.take n ++ s.rest.drop n := (List.take_append_drop n s.rest).symm
      by_cases hq : queueCond s = true
      · simp only [hq, if_true]
        exact ch_enqueue h _ _ _ _ hsplit rfl
      · have hq' : queueCond s = false := by simpa using hq
        simp only [hq', Bool.false_eq_true, if_false]
        exact ch_direct h _ _ (direct_aq_nil hi hq').1 hsplit (Nat.le_trans hi.1.i6a hi.1.i6b)

theorem deliverBuf_ch {s : St} (hi : Inv s) (h : Ch s) (m : Nat) : Ch (deliverBuf s m).1 := by
  unfold deliverBuf
  split
  · exact h
  · split
    · exact h
    · have hsplit : s.rest = s.rest.take (fitCount m s.rest) ++ s.rest.drop (fitCount m s.rest) :=
        (List.take_append_drop _ s.rest).symm
      by_cases hq : queueCond s = true
      · simp only [hq, if_true]
        exact ch_enqueue h _ _ _ _ hsplit rfl
      · have hq' : queueCond s = false := by simpa using hq
        simp only [hq', Bool.false_eq_true, if_false]
        exact ch_direct h _ _ (direct_aq_nil hi hq').1 hsplit (Nat.le_trans hi.1.i6a hi.1.i6b)

theorem deliverSkip_ch {s : St} (hi : Inv s) (h : Ch s) (n : Nat) : Ch (deliverSkip s n).1 := by
  unfold deliverSkip
  by_cases hb : badSkip s n = true
  · simp only [hb, if_true]; exact h
  · simp only [hb]
    by_cases hr : readerOK s 1 = true
    case neg =>
      have : readerOK s 1 = false := by simpa using hr
      simp only [this, Bool.not_false, if_true]; exact h
    case pos =>
      simp only [hr, Bool.not_true]
      cases hrest : s.rest with
        | nil => simp [badSkip, hrest] at hb
        | cons r t =>
          have hev : r.isEv = false := by
            simp [badSkip, hrest] at hb; exact hb.1.1.1.1
          simp only [List.headD_cons, List.drop_succ_cons, List.drop_zero]
          by_cases hq : s.q = true
          · simp only [hq, if_true]
            exact ch_enqueue h [r] t (.skip r) n (by simp [hrest]) rfl
          · have hqf : s.q = false := by simpa using hq
            rw [if_neg hq, skipDirect_eq _ _ hev]
            exact ch_direct h [r] t (hi.1.q0 hqf) (by simp [hrest]) (Nat.le_trans hi.1.i6a hi.1.i6b)

theorem doWrite_ch {s : St} (hi : Inv s) (h : Ch s) (id ln extra : Nat) : Ch (doWrite s id ln extra).1 := by
  unfold doWrite
  by_cases hc : canWrite s = true
  · simp only [hc, Bool.not_true, Bool.false_eq_true, if_false]
    have h1 := ch_writeOK hi.1 h (canWrite_spec hc) id ln extra
    split
    · split
      · exact h1
      · exact h1
    · exact h1
  · have : canWrite s = false := by simpa using hc
    simp only [this, Bool.not_false, if_true]; exact h

theorem doOp_ch {s : St} (hi : Inv s) (h : Ch s) (id ln extra : Nat) (k : Kind) : Ch (doOp s id ln extra k).1 := by
  unfold doOp
  split
  · exact h
  · cases k <;> simp only
    · exact doWrite_ch hi h id ln extra
    all_goals first | exact h | (simp only [doRead]; split; exact h; exact h)

theorem doNow_ch {s : St} (hi : Inv s) (h : Ch s) (id ln extra : Nat) : Ch (doNow s id ln extra).1 := by
  unfold doNow
  split
  · exact h
  · by_cases hc : canWrite s = true
    · simp only [hc, Bool.not_true, Bool.false_eq_true, if_false]
      have hlen := canWrite_spec hc
      have h1 := ch_writeOK hi.1 h hlen id ln extra
      split
      · exact h1
      · have hp : Inv (park (writeOK s id ln extra) id (s.dbo + plen ln) false) := by
          refine ⟨park_inv0 (writeOK_inv0 hi.1 hlen id ln extra) id _ false
            (fun _ => ⟨_, writeOK_rec_mem s id ln extra, rfl, rfl, Nat.le_refl _⟩), ?_⟩
          intro hq
          have := hi.2 hq
          show s.ci < s.dbo + plen ln + extra
          omega
        have hch : Ch (park (writeOK s id ln extra) id (s.dbo + plen ln) false) := h1
        have hcs := commitStep_ch hp hch (s.dbo + plen ln + extra)
        split
        · exact ch_comTx hcs
        · exact hcs
    · have : canWrite s = false := by simpa using hc
      simp only [this, Bool.not_false, if_true]; exact h

theorem txStep_ch {s : St} (h : Ch s) : Ch (txStep s).1 := by
  unfold txStep
  split
  · exact h
  · split
    · exact h
    · split
      · exact ch_comTx h
      · exact h

theorem closeTail_ch {s1 : St} (h1 : Ch s1) :
    Ch (if s1.dbo ≤ s1.ci then ({ s1 with com := s1.tx, closed := true }, "ok") else ({ s1 with closed := true }, "err")).1 := by
  split
  · exact ch_comTx h1
  · exact h1

theorem closeStep_ch {s : St} (hi : Inv s) (h : Ch s) : Ch (closeStep s).1 := by
  unfold closeStep
  split
  · exact h
  · have h1 : Ch (if s.repl then s else commitStep s s.len) := by
      split
      · exact h
      · exact commitStep_ch hi h s.len
    exact closeTail_ch h1

theorem step_ch {s : St} (hi : Inv s) (h : Ch s) (op : Op) : Ch (step s op).1 := by
  cases op with
  | doOp id ln extra k => exact doOp_ch hi h id ln extra k
  | doNow id ln extra => exact doNow_ch hi h id ln extra
  | commit k => simp only [step]; split; exact h; exact commitStep_ch hi h k
  | tx => exact txStep_ch h
  | dApply n => exact deliverApply_ch hi h n
  | dSkip n => exact deliverSkip_ch hi h n
  | dApplyBuf m => exact deliverBuf_ch hi h m
  | view => exact h
  | append l =>
    simp only [step]
    split
    · exact h
    · rename_i hc
      simp only [Bool.or_eq_true, Bool.not_eq_true', not_or, Bool.not_eq_false, List.all_eq_true, decide_eq_true_eq] at hc
      exact ch_append h l hc.2
  | hold b => exact h
  | close => exact closeStep_ch hi h
  | crash d torn =>
    simp only [step]
    split
    · exact h
    · rename_i hc
      have hc' : crashOK s d = true := by simpa using hc
      simp only [crashOK, Bool.and_eq_true, decide_eq_true_eq] at hc'
      have hcr := ch_crash hi.1 h d hc'.2
      split
      · exact hcr
      · exact hcr
  | ready =>
    simp only [step, readyStep]
    split
    · exact ch_flushQ h (Nat.le_trans hi.1.i6a hi.1.i6b)
    · exact h

theorem run_inv_ch : ∀ (ops : List Op) (s : St), Inv s → Ch s → Inv (run s ops) ∧ Ch (run s ops) := by
  intro ops
  induction ops with
  | nil => intro s hi h; exact ⟨hi, h⟩
  | cons op t ih => intro s hi h; exact ih _ (step_inv hi op) (step_ch hi h op)


/-! ### the reader re-delivers a contiguous binlog completely -/

/-- canonical replay: the reader hands over one record per call (an event through Apply, a service record through Skip) -/
def replayOps : List Rec → List Op
  | [] => []
  | r :: t => (if r.isEv then Op.dApply 1 else Op.dSkip r.ln) :: replayOps t

/-- loop invariant of the replay: engine up, binlog `A` of length `L`, offset row = in-memory offset -/
structure Rd (A : List Rec) (L : Nat) (s : St) : Prop where
  inv : Inv s
  ch : Ch s
  off : s.tx.off = s.dbo
  up : s.closed = false ∧ s.ptx = false ∧ s.down = false
  all : allRecs s = A
  len : s.len = L

theorem deliverApply_eq {s : St} {n : Nat} (hb : badApply s n = false) (hr : readerOK s n = true) :
    (deliverApply s n).1 =
      if queueCond s then enqueue { s with rest := s.rest.drop n } (.body (s.rest.take n)) (total (s.rest.take n))
      else applyDirect { s with rest := s.rest.drop n } (s.rest.take n) := by
  unfold deliverApply
  simp only [hb, hr, Bool.false_eq_true, if_false, Bool.not_true]
  split <;> rfl

theorem deliverSkip_eq {s : St} {r : Rec} {t : List Rec} (hrest : s.rest = r :: t) (hb : badSkip s r.ln = false)
    (hr : readerOK s 1 = true) :
    (deliverSkip s r.ln).1 =
      if s.q then enqueue { s with rest := t } (.skip r) r.ln else skipDirect { s with rest := t } r := by
  unfold deliverSkip
  simp only [hb, hr, Bool.false_eq_true, if_false, Bool.not_true, hrest, List.headD_cons, List.drop_succ_cons, List.drop_zero]
  split <;> rfl

theorem readerOK_head {s : St} {r : Rec} {t : List Rec} (h : Ch s) (hrest : s.rest = r :: t) : readerOK s 1 = true := by
  have c4 := h.c4
  have c7 := h.c7
  rw [hrest] at c4 c7
  obtain ⟨h1, h2, h3⟩ := c4
  have hb := chain_bounds t r.eo h3
  simp only [total_cons] at c7
  have hrp : rp s = rpos s.dbo s.aq := rfl
  simp only [readerOK, recsOK, restOK, hrest, List.take_succ_cons, List.take_zero, List.drop_succ_cons, List.drop_zero,
    Bool.and_eq_true, List.all_eq_true, decide_eq_true_eq, total_cons, total_nil, hrp]
  refine ⟨⟨?_, ?_⟩, ?_⟩
  · intro x hx
    rcases List.mem_singleton.1 hx with rfl
    omega
  · intro x hx
    have := (hb x hx).1
    omega
  · omega

theorem replay_one {A : List Rec} {L : Nat} {s : St} {r : Rec} {t : List Rec} (h : Rd A L s) (hrest : s.rest = r :: t) :
    Rd A L (step s (if r.isEv then Op.dApply 1 else Op.dSkip r.ln)).1 ∧
    (step s (if r.isEv then Op.dApply 1 else Op.dSkip r.ln)).1.rest = t := by
  obtain ⟨hi, hc, hoff, ⟨hcl, hptx, hdown⟩, hall, hlen⟩ := h
  have hr := readerOK_head hc hrest
  have hpos : 0 < r.ln := by have := hc.c4; rw [hrest] at this; exact this.1
  have hallr : allRecs s = s.done ++ flat s.aq ++ (r :: t) := by simp [allRecs, hrest]
  by_cases hev : r.isEv = true
  · simp only [hev, if_true]
    have hb : badApply s 1 = false := by
      simp [badApply, hrest, hev, hcl, hptx]
    have hinv := step_inv hi (Op.dApply 1)
    have hch := step_ch hi hc (Op.dApply 1)
    have he := deliverApply_eq hb hr
    simp only [hrest, List.take_succ_cons, List.take_zero, List.drop_succ_cons, List.drop_zero] at he
    show Rd A L (deliverApply s 1).1 ∧ (deliverApply s 1).1.rest = t
    have hinv' : Inv (deliverApply s 1).1 := hinv
    have hch' : Ch (deliverApply s 1).1 := hch
    by_cases hq : queueCond s = true
    · rw [if_pos hq] at he
      rw [he] at hinv' hch' ⊢
      refine ⟨⟨hinv', hch', hoff, ⟨hcl, hptx, hdown⟩, ?_, hlen⟩, rfl⟩
      rw [← hall, hallr]
      simp [allRecs, enqueue, flat_append, flat_cons, flat_nil, itemRecs]
    · rw [if_neg hq] at he
      have hq' : queueCond s = false := by simpa using hq
      have haq := (direct_aq_nil hi hq').1
      rw [he] at hinv' hch' ⊢
      refine ⟨⟨hinv', hch', rfl, ⟨hcl, hptx, hdown⟩, ?_, hlen⟩, rfl⟩
      rw [← hall, hallr]
      simp [allRecs, applyDirect, haq, flat_nil]
  · have hevf : r.isEv = false := by simpa using hev
    simp only [hevf, Bool.false_eq_true, if_false]
    have hb : badSkip s r.ln = false := by
      have : r.ln ≠ 0 := by omega
      simp [badSkip, hrest, hevf, hcl, hptx, this]
    have hinv := step_inv hi (Op.dSkip r.ln)
    have hch := step_ch hi hc (Op.dSkip r.ln)
    have he := deliverSkip_eq hrest hb hr
    show Rd A L (deliverSkip s r.ln).1 ∧ (deliverSkip s r.ln).1.rest = t
    have hinv' : Inv (deliverSkip s r.ln).1 := hinv
    have hch' : Ch (deliverSkip s r.ln).1 := hch
    by_cases hq : s.q = true
    · rw [if_pos hq] at he
      rw [he] at hinv' hch' ⊢
      refine ⟨⟨hinv', hch', hoff, ⟨hcl, hptx, hdown⟩, ?_, hlen⟩, rfl⟩
      rw [← hall, hallr]
      simp [allRecs, enqueue, flat_append, flat_cons, flat_nil, itemRecs]
    · rw [if_neg hq] at he
      have hqf : s.q = false := by simpa using hq
      have haq := hi.1.q0 hqf
      rw [he] at hinv' hch' ⊢
      refine ⟨⟨hinv', hch', rfl, ⟨hcl, hptx, hdown⟩, ?_, hlen⟩, rfl⟩
      rw [← hall, hallr]
      simp [allRecs, skipDirect, haq, flat_nil]

theorem replay_all : ∀ (rest : List Rec) (A : List Rec) (L : Nat) (s : St), Rd A L s → s.rest = rest →
    Rd A L (run s (replayOps rest)) ∧ (run s (replayOps rest)).rest = [] := by
  intro rest
  induction rest with
  | nil => intro A L s h hr; exact ⟨h, hr⟩
  | cons r t ih =>
    intro A L s h hr
    obtain ⟨h1, h2⟩ := replay_one h hr
    exact ih A L _ h1 h2

/-- the final `Commit(len)` of the reader + `ChangeRole(ready)`: whatever is still queued is applied -/
theorem replay_finish {A : List Rec} {L : Nat} {s : St} (h : Rd A L s) (hrest : s.rest = []) :
    let s' := run s [Op.commit L, Op.ready]
    Inv s' ∧ Ch s' ∧ s'.tx.off = s'.dbo ∧ s'.rest = [] ∧ s'.aq = [] ∧ allRecs s' = A ∧ s'.len = L ∧
    s'.closed = false ∧ s'.down = false := by
  obtain ⟨hi, hc, hoff, ⟨hcl, hptx, hdown⟩, hall, hlen⟩ := h
  subst hlen
  have hci : ¬ s.len < s.ci := by have := hi.1.i7b; have := hi.1.dl; omega
  have hdbo : s.dbo ≤ s.len := by have := hi.1.rpl; simp only [rpos] at this; omega
  have hstep : (step s (Op.commit s.len)).1 = commitStep s s.len := by
    simp [step, hcl]
  have hi1 : Inv (commitStep s s.len) := by rw [← hstep]; exact step_inv hi _
  have hc1 : Ch (commitStep s s.len) := by rw [← hstep]; exact step_ch hi hc _
  -- what the commit leaves
  have hfacts : (commitStep s s.len).q = false ∧ (commitStep s s.len).aq = [] ∧ (commitStep s s.len).rest = [] ∧
      (commitStep s s.len).tx.off = (commitStep s s.len).dbo ∧ allRecs (commitStep s s.len) = A ∧
      (commitStep s s.len).len = s.len ∧ (commitStep s s.len).closed = false ∧ (commitStep s s.len).down = false := by
    unfold commitStep
    simp only [hci, if_false]
    by_cases hq : s.q = true
    · have hd : delayedCommit s s.len = true := by simp [delayedCommit, hq, hdbo]
      simp only [hd, if_true, flushQ, foldl_flush, flushed, notify, announce]
      refine ⟨trivial, trivial, hrest, ?_, ?_, trivial, hcl, hdown⟩
      · show (if s.aq = [] then s.tx.off else s.dbo + total (flat s.aq)) = s.dbo + total (flat s.aq)
        by_cases he : s.aq = []
        · simp [he, flat_nil, total_nil, hoff]
        · simp [he]
      · rw [← hall]; simp [allRecs, flat_nil]
    · have hqf : s.q = false := by simpa using hq
      have hd : delayedCommit s s.len = false := by simp [delayedCommit, hqf]
      have hp : parkedCommit s s.len = false := by simp [parkedCommit, hptx]
      simp only [hd, hp, Bool.false_eq_true, if_false, notify, announce]
      exact ⟨hqf, hi.1.q0 hqf, hrest, hoff, hall, trivial, hcl, hdown⟩
  obtain ⟨f1, f2, f3, f4, f5, f6, f7, f8⟩ := hfacts
  have hready : (step (commitStep s s.len) Op.ready).1 = commitStep s s.len := by
    simp [step, readyStep, f1]
  show Inv (run s [Op.commit s.len, Op.ready]) ∧ _
  simp only [run, hstep, hready]
  exact ⟨hi1, hc1, f4, f3, f2, f5, f6, f7, f8⟩

/-- after a kill that keeps the binlog up to `d`, the new process knows exactly the records ending at or before `d` -/
theorem allRecs_crash {s : St} (h : Ch s) (d : Nat) (hd : s.com.off ≤ d) :
    allRecs (crashStep s d) = upTo d (allRecs s) := by
  obtain ⟨e, _⟩ := chain_split s.done 0 s.com.off h.c1
  have h1 : upTo d (upTo s.com.off s.done) = upTo s.com.off s.done :=
    upTo_eq_self d _ (fun r hr => by have := (mem_upTo.1 hr).2; omega)
  show upTo s.com.off s.done ++ flat [] ++ upTo d (above s.com.off s.done ++ flat s.aq ++ s.rest) = upTo d (s.done ++ flat s.aq ++ s.rest)
  conv => rhs; rw [← e]
  simp only [flat_nil, List.append_nil, upTo_append, h1, List.append_assoc]


/-! ### arbitrary chunking: whatever split of the byte stream the reader hands over, nothing is lost or reordered -/

/-- in a contiguous binlog the reader's bookkeeping guard holds for every number of records handed over -/
theorem readerOK_chain {s : St} (hi : Inv0 s) (h : Ch s) (n : Nat) : readerOK s n = true := by
  have c4 := h.c4
  have c7 := h.c7
  have hsplit : s.rest = s.rest.take n ++ s.rest.drop n := (List.take_append_drop n s.rest).symm
  rw [hsplit, chain_append] at c4
  rw [hsplit, total_append] at c7
  have hb1 := chain_bounds _ _ c4.1
  have hb2 := chain_bounds _ _ c4.2
  have hrp : rp s = rpos s.dbo s.aq := rfl
  simp only [readerOK, recsOK, restOK, Bool.and_eq_true, List.all_eq_true, decide_eq_true_eq, hrp]
  refine ⟨⟨?_, ?_⟩, ?_⟩
  · intro x hx; exact hb1 x hx
  · intro x hx; exact (hb2 x hx).1
  · omega

/-- ops the binlog reader may issue while it re-reads: payloads cut anywhere, whole-record payloads, skips of service
    records and its periodic Commit of the position reached -/
def isDelivery : Op → Bool
  | .dApplyBuf _ | .dApply _ | .dSkip _ | .commit _ => true
  | _ => false

theorem allRecs_move (done : List Rec) (aq : List QItem) (rest : List Rec) (n : Nat) :
    done ++ flat (aq ++ [QItem.body (rest.take n)]) ++ rest.drop n = done ++ flat aq ++ rest := by
  simp only [flat_append, flat_cons, flat_nil, itemRecs, List.append_nil, List.append_assoc, List.take_append_drop]

theorem buf_rd {A : List Rec} {L : Nat} {s : St} (h : Rd A L s) (m : Nat) : Rd A L (step s (Op.dApplyBuf m)).1 := by
  obtain ⟨hi, hc, hoff, hup, hall, hlen⟩ := h
  have hinv : Inv (deliverBuf s m).1 := step_inv hi (Op.dApplyBuf m)
  have hch : Ch (deliverBuf s m).1 := step_ch hi hc (Op.dApplyBuf m)
  show Rd A L (deliverBuf s m).1
  unfold deliverBuf at hinv hch ⊢
  by_cases hb : badBuf s m = true
  · simp only [hb, if_true]; exact ⟨hi, hc, hoff, hup, hall, hlen⟩
  · simp only [hb] at hinv hch ⊢
    have hr := readerOK_chain hi.1 hc (fitCount m s.rest)
    simp only [hr, Bool.not_true, Bool.false_eq_true, if_false] at hinv hch ⊢
    by_cases hq : queueCond s = true
    · simp only [hq, if_true] at hinv hch ⊢
      refine ⟨hinv, hch, hoff, hup, ?_, hlen⟩
      rw [← hall]
      exact allRecs_move s.done s.aq s.rest _
    · have hq' : queueCond s = false := by simpa using hq
      simp only [hq', Bool.false_eq_true, if_false] at hinv hch ⊢
      have haq := (direct_aq_nil hi hq').1
      refine ⟨hinv, hch, rfl, hup, ?_, hlen⟩
      rw [← hall]
      simp [allRecs, applyDirect, haq, flat_nil, List.append_assoc, List.take_append_drop]

theorem apply_rd {A : List Rec} {L : Nat} {s : St} (h : Rd A L s) (n : Nat) : Rd A L (step s (Op.dApply n)).1 := by
  obtain ⟨hi, hc, hoff, hup, hall, hlen⟩ := h
  have hinv : Inv (deliverApply s n).1 := step_inv hi (Op.dApply n)
  have hch : Ch (deliverApply s n).1 := step_ch hi hc (Op.dApply n)
  show Rd A L (deliverApply s n).1
  unfold deliverApply at hinv hch ⊢
  by_cases hb : badApply s n = true
  · simp only [hb, if_true]; exact ⟨hi, hc, hoff, hup, hall, hlen⟩
  · simp only [hb] at hinv hch ⊢
    have hr := readerOK_chain hi.1 hc n
    simp only [hr, Bool.not_true, Bool.false_eq_true, if_false] at hinv hch ⊢
    by_cases hq : queueCond s = true
    · simp only [hq, if_true] at hinv hch ⊢
      refine ⟨hinv, hch, hoff, hup, ?_, hlen⟩
      rw [← hall]
      exact allRecs_move s.done s.aq s.rest _
    · have hq' : queueCond s = false := by simpa using hq
      simp only [hq', Bool.false_eq_true, if_false] at hinv hch ⊢
      have haq := (direct_aq_nil hi hq').1
      refine ⟨hinv, hch, rfl, hup, ?_, hlen⟩
      rw [← hall]
      simp [allRecs, applyDirect, haq, flat_nil, List.append_assoc, List.take_append_drop]

theorem skip_rd {A : List Rec} {L : Nat} {s : St} (h : Rd A L s) (n : Nat) : Rd A L (step s (Op.dSkip n)).1 := by
  obtain ⟨hi, hc, hoff, hup, hall, hlen⟩ := h
  show Rd A L (deliverSkip s n).1
  by_cases hb : badSkip s n = true
  · have : (deliverSkip s n).1 = s := by unfold deliverSkip; simp [hb]
    rw [this]; exact ⟨hi, hc, hoff, hup, hall, hlen⟩
  · have hbf : badSkip s n = false := by simpa using hb
    cases hrest : s.rest with
    | nil => simp [badSkip, hrest] at hbf
    | cons r t =>
      have hev : r.isEv = false ∧ r.ln = n := by
        simp [badSkip, hrest] at hbf; exact ⟨hbf.1.1.1.1, hbf.1.1.1.2⟩
      have h1 := replay_one (A := A) (L := L) ⟨hi, hc, hoff, hup, hall, hlen⟩ hrest
      simp only [hev.1, Bool.false_eq_true, if_false, hev.2] at h1
      exact h1.1

theorem commit_rd {A : List Rec} {L : Nat} {s : St} (h : Rd A L s) (k : Nat) : Rd A L (step s (Op.commit k)).1 := by
  obtain ⟨hi, hc, hoff, ⟨hcl, hptx, hdown⟩, hall, hlen⟩ := h
  have hinv := step_inv hi (Op.commit k)
  have hch := step_ch hi hc (Op.commit k)
  simp only [step] at hinv hch ⊢
  split
  · exact ⟨hi, hc, hoff, ⟨hcl, hptx, hdown⟩, hall, hlen⟩
  · rename_i hg
    simp only [hg, Bool.false_eq_true, if_false] at hinv hch
    refine ⟨hinv, hch, ?_, ?_, ?_, ?_⟩
    all_goals (unfold commitStep; split)
    · exact hoff
    · have hp : parkedCommit s k = false := by simp [parkedCommit, hptx]
      split
      · simp only [flushQ, foldl_flush, flushed, notify, announce]
        show (if s.aq = [] then s.tx.off else s.dbo + total (flat s.aq)) = s.dbo + total (flat s.aq)
        by_cases he : s.aq = []
        · simp [he, flat_nil, total_nil, hoff]
        · simp [he]
      · simp only [hp, Bool.false_eq_true, if_false]; exact hoff
    · exact ⟨hcl, hptx, hdown⟩
    · have hp : parkedCommit s k = false := by simp [parkedCommit, hptx]
      split
      · simp only [flushQ, foldl_flush, flushed, notify, announce]; exact ⟨hcl, hptx, hdown⟩
      · simp only [hp, Bool.false_eq_true, if_false]; exact ⟨hcl, hptx, hdown⟩
    · exact hall
    · have hp : parkedCommit s k = false := by simp [parkedCommit, hptx]
      split
      · simp only [flushQ, foldl_flush, flushed, notify, announce]
        rw [← hall]; simp [allRecs, flat_nil]
      · simp only [hp, Bool.false_eq_true, if_false]; exact hall
    · exact hlen
    · have hp : parkedCommit s k = false := by simp [parkedCommit, hptx]
      split
      · simp only [flushQ, foldl_flush, flushed, notify, announce]; exact hlen
      · simp only [hp, Bool.false_eq_true, if_false]; exact hlen

theorem delivery_rd {A : List Rec} {L : Nat} {s : St} (h : Rd A L s) (op : Op) (hop : isDelivery op = true) :
    Rd A L (step s op).1 := by
  cases op with
  | dApplyBuf m => exact buf_rd h m
  | dApply n => exact apply_rd h n
  | dSkip n => exact skip_rd h n
  | commit k => exact commit_rd h k
  | _ => simp [isDelivery] at hop

theorem deliveries_rd : ∀ (del : List Op) (A : List Rec) (L : Nat) (s : St), Rd A L s → del.all isDelivery = true →
    Rd A L (run s del) := by
  intro del
  induction del with
  | nil => intro A L s h _; exact h
  | cons op t ih =>
    intro A L s h hd
    simp only [List.all_cons, Bool.and_eq_true] at hd
    exact ih A L _ (delivery_rd h op hd.1) hd.2

/-- progress: a payload that contains the first undelivered event completely makes the reader advance -/
theorem fitCount_pos (m : Nat) (r : Rec) (t : List Rec) (hev : r.isEv = true) (hm : r.ln ≤ m) : 0 < fitCount m (r :: t) := by
  simp [fitCount, hev, hm]

end SH.Engine
