/-
  SH.Lemmas.Journal — invariants of the journal model (SH.Model.Journal) used by Props/C20:
  E  one entry per entity, ascending versions, state hash = xor of the entry hashes, for add / addAll / applyUpdate / load
  F  a diff is a non-empty gap-free prefix of what the requester lacks
  G  truncation keeps a prefix of complete chunks
  (moved out of Props/C20.lean unchanged; still audited by checks/C20.py)
-/
import SH.Model.Journal

namespace SH.C20
open SH.Journal

/-! ## E. the state hash is the xor of the entry hashes; one entry per entity, ascending -/

def xorAll : List Entry → Nat
  | [] => 0
  | e :: r => e.hash ^^^ xorAll r

theorem xorAll_append (a b : List Entry) : xorAll (a ++ b) = xorAll a ^^^ xorAll b := by
  induction a with
  | nil => simp [xorAll]
  | cons h r ih => simp [xorAll, ih, Nat.xor_assoc]

theorem sameKey_iff (a b : Entry) : sameKey a b = true ↔ a.typ = b.typ ∧ a.id = b.id := by
  simp [sameKey]

theorem sameKey_symm (a b : Entry) : sameKey a b = sameKey b a := by
  by_cases h : sameKey a b = true
  · rw [h]; symm; rw [sameKey_iff] at *; exact ⟨h.1.symm, h.2.symm⟩
  · have h' : sameKey b a ≠ true := by
      intro hb; apply h; rw [sameKey_iff] at *; exact ⟨hb.1.symm, hb.2.symm⟩
    simp at h h'; rw [h, h']

theorem sameKey_false_of (e h b : Entry) (h1 : sameKey e h = true) (h2 : sameKey h b = false) : sameKey e b = false := by
  by_cases hb : sameKey e b = true
  · exfalso
    have : sameKey h b = true := by
      rw [sameKey_iff] at *; exact ⟨h1.1.symm.trans hb.1, h1.2.symm.trans hb.2⟩
    rw [h2] at this; simp at this
  · simpa using hb

def KeysUnique (es : List Entry) : Prop := es.Pairwise (fun a b => sameKey a b = false)

theorem xorAll_filter (e : Entry) : ∀ (es : List Entry), KeysUnique es →
    xorAll (es.filter (fun o => !sameKey e o)) ^^^ oldHash es e = xorAll es := by
  intro es
  induction es with
  | nil => intro _; simp [xorAll, oldHash, findKey]
  | cons h r ih =>
    intro hk
    obtain ⟨hh, hr⟩ := List.pairwise_cons.mp hk
    by_cases hs : sameKey e h = true
    · have hall : ∀ b ∈ r, (!sameKey e b) = true := by
        intro b hb; rw [sameKey_false_of e h b hs (hh b hb)]; rfl
      have hf : r.filter (fun o => !sameKey e o) = r := List.filter_eq_self.mpr hall
      simp [List.filter, hs, hf, oldHash, findKey, List.find?, xorAll, Nat.xor_comm]
    · have hs' : sameKey e h = false := by simpa using hs
      have := ih hr
      simp only [List.filter, hs', Bool.not_false, xorAll, oldHash, findKey, List.find?] at this ⊢
      rw [Nat.xor_assoc, this]

/-- invariant of every reachable journal -/
structure JInv (j : J) : Prop where
  keys : KeysUnique j.entries
  hash : j.hash = xorAll j.entries
  sorted : j.entries.Pairwise (fun a b => a.ver < b.ver)
  bound : ∀ e ∈ j.entries, e.ver ≤ j.cur

theorem jinv_empty (c : Bool) : JInv { compact := c } :=
  ⟨List.Pairwise.nil, rfl, List.Pairwise.nil, by intro e he; simp at he⟩

theorem add_inv (j j' : J) (e : Entry) (hi : JInv j) (h : add j e = some j') :
    JInv j' ∧ j'.cur = e.ver ∧ j.cur < e.ver ∧ j'.compact = j.compact ∧ e ∈ j'.entries := by
  unfold add at h
  split at h
  · simp at h
  · rename_i hold
    have hlt : j.cur < e.ver := by simpa [tooOld] using hold
    injection h with h
    subst h
    refine ⟨⟨?_, ?_, ?_, ?_⟩, rfl, hlt, rfl, by simp⟩
    · refine List.pairwise_append.mpr ⟨hi.keys.filter _, List.pairwise_singleton _ _, ?_⟩
      intro a ha b hb
      simp at hb; subst hb
      have := (List.mem_filter.mp ha).2
      rw [sameKey_symm]; simpa using this
    · simp only
      rw [xorAll_append, hi.hash, ← xorAll_filter e j.entries hi.keys]
      simp [xorAll, Nat.xor_assoc]
    · refine List.pairwise_append.mpr ⟨hi.sorted.filter _, List.pairwise_singleton _ _, ?_⟩
      intro a ha b hb
      simp at hb; subst hb
      have := hi.bound a (List.mem_filter.mp ha).1
      omega
    · intro a ha
      simp only at ha ⊢
      rcases List.mem_append.mp ha with h1 | h1
      · have := hi.bound a (List.mem_filter.mp h1).1; omega
      · simp at h1; subst h1; exact Int.le_refl _

/-- `addEventLocked` in a row: versions must increase strictly (else the Go code panics), and then the invariant,
    the hash equation and "everything added is ≤ currentVersion" hold -/
theorem addAll_inv : ∀ (es : List Entry) (j j' : J), JInv j → addAll j es = some j' →
    JInv j' ∧ j.cur ≤ j'.cur ∧ (∀ e ∈ es, j.cur < e.ver ∧ e.ver ≤ j'.cur) ∧ es.Pairwise (fun a b => a.ver < b.ver) ∧
    j'.compact = j.compact := by
  intro es
  induction es with
  | nil => intro j j' hi h; simp [addAll] at h; subst h; exact ⟨hi, Int.le_refl _, by simp, List.Pairwise.nil, rfl⟩
  | cons e r ih =>
    intro j j' hi h
    simp only [addAll] at h
    split at h
    · rename_i j1 h1
      obtain ⟨i1, c1, l1, k1, _⟩ := add_inv j j1 e hi h1
      obtain ⟨i2, c2, a2, p2, k2⟩ := ih j1 j' i1 h
      refine ⟨i2, by omega, ?_, ?_, k2.trans k1⟩
      · intro x hx
        rcases List.mem_cons.mp hx with rfl | hx
        · exact ⟨l1, by omega⟩
        · have := a2 x hx; exact ⟨by omega, this.2⟩
      · refine List.pairwise_cons.mpr ⟨?_, p2⟩
        intro x hx; have := a2 x hx; omega
    · simp at h

theorem applyUpdate_inv (tab : Nat → Content) (j j' : J) (src applied : List Entry) (lk : Int) (hi : JInv j)
    (h : applyUpdate tab j src lk = some (j', applied)) :
    JInv j' ∧ (∀ e ∈ applied, j.cur < e.ver) ∧ applied.Pairwise (fun a b => a.ver < b.ver) := by
  unfold applyUpdate at h
  split at h
  · injection h with h; injection h with h1 h2; subst h1; subst h2
    exact ⟨hi, by simp, List.Pairwise.nil⟩
  · split at h
    · simp at h
    · rename_i j1 h1
      injection h with h; injection h with h2 h3; subst h2; subst h3
      obtain ⟨i1, _, a1, p1, _⟩ := addAll_inv _ j j1 hi h1
      exact ⟨⟨i1.keys, i1.hash, i1.sorted, i1.bound⟩, fun e he => (a1 e he).1, p1⟩

theorem loadChunks_inv : ∀ (cs : List Chunk) (j j' : J) (bs : List (List Entry)), JInv j →
    loadChunks j cs = some (j', bs) →
    JInv j' ∧ (∀ e ∈ bs.flatten, j.cur < e.ver) ∧ bs.flatten.Pairwise (fun a b => a.ver < b.ver) := by
  intro cs
  induction cs with
  | nil => intro j j' bs hi h; simp [loadChunks] at h; obtain ⟨rfl, rfl⟩ := h; exact ⟨hi, by simp, by simp⟩
  | cons c r ih =>
    intro j j' bs hi h
    simp only [loadChunks] at h
    split at h
    · simp at h
    · rename_i j1 h1
      split at h
      · simp at h
      · rename_i j2 bs2 h2
        injection h with h; injection h with h3 h4; subst h3; subst h4
        obtain ⟨i1, c1, a1, p1, _⟩ := addAll_inv _ j j1 hi h1
        obtain ⟨i2, a2, p2⟩ := ih j1 j2 bs2 i1 h2
        refine ⟨i2, ?_, ?_⟩
        · intro e he
          simp only [List.flatten_cons, List.mem_append] at he
          rcases he with he | he
          · exact (a1 e he).1
          · have := a2 e he; omega
        · simp only [List.flatten_cons]
          refine List.pairwise_append.mpr ⟨p1, p2, ?_⟩
          intro a ha b hb
          have := (a1 a ha).2; have := a2 b hb; omega

theorem load_inv (c : Bool) (f : File) (j : J) (bs : List (List Entry)) (err : Bool)
    (h : load c f = some (j, bs, err)) :
    JInv j ∧ (∀ e ∈ bs.flatten, 0 < e.ver) ∧ bs.flatten.Pairwise (fun a b => a.ver < b.ver) ∧ j.cur ≤ j.lv := by
  unfold load at h
  split at h
  · simp at h
  · rename_i j1 bs1 h1
    injection h with h; injection h with h2 h3; injection h3 with h3 h4; subst h2; subst h3
    obtain ⟨i1, a1, p1⟩ := loadChunks_inv _ _ j1 bs1 (jinv_empty c) h1
    refine ⟨⟨i1.keys, i1.hash, i1.sorted, i1.bound⟩, a1, p1, ?_⟩
    simp only
    split
    · rename_i hok
      unfold headerOk at hok
      unfold headerLv
      split at hok
      · rename_i he; simp [he]; have : j1.cur = 0 := by simpa using hok
        omega
      · rename_i he; simp [he]; simp at hok; omega
    · exact Int.le_refl _

theorem xorAll_perm (a b : List Entry) (h : (a.map (·.hash)).Perm (b.map (·.hash))) : xorAll a = xorAll b := by
  have key : ∀ l : List Entry, xorAll l = (l.map (·.hash)).foldr (· ^^^ ·) 0 := by
    intro l; induction l with
    | nil => rfl
    | cons x r ih => simp [xorAll, ih]
  have perm : ∀ {x y : List Nat}, x.Perm y → x.foldr (· ^^^ ·) 0 = y.foldr (· ^^^ ·) 0 := by
    intro x y hp
    induction hp with
    | nil => rfl
    | cons a _ ih => simp [ih]
    | swap a b l =>
      simp only [List.foldr_cons]
      rw [← Nat.xor_assoc, Nat.xor_comm b a, Nat.xor_assoc]
    | trans _ _ ih1 ih2 => exact ih1.trans ih2
  rw [key, key]
  exact perm h



/-! ## F. a diff is a non-empty gap-free prefix of what the requester lacks -/

theorem takeLim_prefix (mi mb : Nat) : ∀ (l : List Entry) (n b : Nat), takeLim mi mb l n b <+: l := by
  intro l
  induction l with
  | nil => intro n b; simp [takeLim]
  | cons e r ih =>
    intro n b
    simp only [takeLim]
    split
    · exact ⟨r, rfl⟩
    · exact List.prefix_cons_inj e |>.mpr (ih _ _)

theorem takeLim_ne_nil (mi mb : Nat) (l : List Entry) (n b : Nat) (h : l ≠ []) : takeLim mi mb l n b ≠ [] := by
  cases l with
  | nil => exact absurd rfl h
  | cons e r => simp only [takeLim]; split <;> simp

theorem lastVer_mem : ∀ (p : List Entry) (d : Int), p ≠ [] → ∃ x ∈ p, x.ver = lastVer p d := by
  intro p
  induction p with
  | nil => intro d h; exact absurd rfl h
  | cons e r ih =>
    intro d _
    cases r with
    | nil => exact ⟨e, by simp, rfl⟩
    | cons e2 r2 =>
      obtain ⟨x, hx, hv⟩ := ih d (by simp)
      exact ⟨x, List.mem_cons_of_mem _ hx, by simpa [lastVer] using hv⟩

/-- a non-empty prefix of an ascending list contains every element up to its last version -/
theorem prefix_complete (l p : List Entry) (d : Int) (hp : p <+: l) (hne : p ≠ [])
    (hs : l.Pairwise (fun a b => a.ver < b.ver)) : ∀ e ∈ l, e.ver ≤ lastVer p d → e ∈ p := by
  intro e he hle
  obtain ⟨t, rfl⟩ := hp
  rcases List.mem_append.mp he with h | h
  · exact h
  · exfalso
    obtain ⟨x, hx, hv⟩ := lastVer_mem p d hne
    have := (List.pairwise_append.mp hs).2.2 x hx e h
    omega

/-- C20 (diff delivery): whatever the item / byte limits and wherever the response is cut, the delivered events are
    the upstream entries with versions in (from, last delivered] — none is skipped; and a request below the upstream
    version is never answered with nothing. -/
theorem delivery_never_skips (j : J) (hsorted : j.entries.Pairwise (fun a b => a.ver < b.ver))
    (from_ : Int) (mi mb cut : Nat) :
    let evs := (diff j from_ mi mb).take cut
    (evs ≠ [] → ∀ e ∈ j.entries, from_ < e.ver → e.ver ≤ lastVer evs from_ → e ∈ evs) ∧
    (∀ e ∈ evs, e ∈ j.entries ∧ from_ < e.ver) ∧
    ((∃ e ∈ j.entries, from_ < e.ver) → from_ < j.cur → diff j from_ mi mb ≠ []) := by
  intro evs
  have hpre : diff j from_ mi mb <+: j.entries.filter (fun e => decide (from_ < e.ver)) := by
    unfold diff; split
    · exact List.nil_prefix
    · exact takeLim_prefix _ _ _ _ _
  have hpre2 : evs <+: j.entries.filter (fun e => decide (from_ < e.ver)) :=
    (List.take_prefix _ _).trans hpre
  refine ⟨?_, ?_, ?_⟩
  · intro hne e he hlt hle
    exact prefix_complete _ evs from_ hpre2 hne (hsorted.filter _) e (List.mem_filter.mpr ⟨he, by simpa using hlt⟩) hle
  · intro e he
    have := List.mem_filter.mp (hpre2.subset he)
    exact ⟨this.1, by simpa using this.2⟩
  · intro ⟨e, he, hlt⟩ hcur
    unfold diff
    rw [if_neg (by omega)]
    apply takeLim_ne_nil
    intro hnil
    have : e ∈ j.entries.filter (fun e => decide (from_ < e.ver)) := List.mem_filter.mpr ⟨he, by simpa using hlt⟩
    rw [hnil] at this; simp at this

/-! ## G. truncated files -/

theorem keepChunks_prefix : ∀ (cs : List Chunk) (keep : Nat), keepChunks cs keep <+: cs := by
  intro cs
  induction cs with
  | nil => intro k; simp [keepChunks]
  | cons c r ih =>
    intro k
    simp only [keepChunks]
    split
    · exact (List.prefix_cons_inj c).mpr (ih _)
    · exact List.nil_prefix

/-- C20 (truncated reload): whatever the cut offset, the file that is read back consists of a prefix of the chunks that
    were written (complete chunks only), so the reloaded journal is built from a prefix of the saved entry sequence. -/
theorem truncate_keeps_prefix (f : File) (keep : Nat) : (truncate f keep).chunks <+: f.chunks := by
  unfold truncate
  split
  · exact List.prefix_refl _
  · exact keepChunks_prefix _ _


end SH.C20
