/-
  SH.Lemmas.DiskCachePad — GetBucket's result does not depend on what the caller's (reused) scratch pad held before.
-/
import SH.Lemmas.DiskCacheBytes

namespace SH.C09
open SH.DiskCache

theorem resliced_length (pad : Bytes) (n : Nat) : (resliced pad n).length = n := by
  unfold resliced; split
  · simp [List.length_take]; omega
  · simp

/-- a read that fills the whole resliced pad leaves nothing of the pad's previous contents in the result -/
theorem overwrite_resliced (pad body : Bytes) (n : Nat) (h : body.length = n) : overwrite (resliced pad n) body = body := by
  unfold overwrite
  rw [resliced_length, ← h, List.take_length, List.drop_of_length_le (by rw [resliced_length]; omega)]
  simp

theorem readBody_length_le (f : Bytes) (b : Bucket) : (readBody f b).length ≤ b.size := by
  simp [readBody, List.length_take]; omega

/-- C09 "identical bytes" for the reused scratch pad: for EVERY state, id, time and EVERY previous contents of the pad, the code
    as it is (`.asIs`) returns exactly what `get` returns (the bytes on disk as a value) and leaves the same state. -/
theorem getP_eq_get (cfg : Cfg) (s : Shard) (id time : Nat) (pad : Bytes) :
    (getP .asIs cfg s id time pad).1 = (DiskCache.get cfg s id time).1 ∧
    (getP .asIs cfg s id time pad).2.1 = (DiskCache.get cfg s id time).2 := by
  unfold getP DiskCache.get
  cases hfb : findB s.known id with
  | none => simp
  | some b =>
    simp only
    by_cases ht : (b.time != time) = true
    · simp [ht]
    · simp only [ht, if_false]
      have hv : ((GetVariant.asIs == GetVariant.emptyFastPath) && (b.size == 0)) = false := by
        have : (GetVariant.asIs == GetVariant.emptyFastPath) = false := by decide
        simp [this]
      simp only [hv, Bool.false_eq_true, if_false]
      by_cases hl : (readBody (fileBytes s.disk b.file) b).length < b.size
      · simp [hl]
      · simp only [hl, if_false]
        have hle := readBody_length_le (fileBytes s.disk b.file) b
        have heq : (readBody (fileBytes s.disk b.file) b).length = b.size := by omega
        rw [overwrite_resliced pad _ b.size heq]
        split <;> simp

/-- two calls with different pads give the same result -/
theorem getP_pad_independent (cfg : Cfg) (s : Shard) (id time : Nat) (pad1 pad2 : Bytes) :
    (getP .asIs cfg s id time pad1).2.1 = (getP .asIs cfg s id time pad2).2.1 := by
  rw [(getP_eq_get cfg s id time pad1).2, (getP_eq_get cfg s id time pad2).2]

/-- the seeded variant (fast path for an empty body before the pad is resliced) breaks it: a second put with an empty body is
    returned as the previous contents of the pad -/
theorem emptyFastPath_returns_stale_bytes :
    (getP .asIs cfg0 (run cfg0 {} [.put 5 [] false]) 1 5 [7, 7]).2.1 = .ok [] ∧
    (getP .emptyFastPath cfg0 (run cfg0 {} [.put 5 [] false]) 1 5 [7, 7]).2.1 = .ok [7, 7] := by decide

end SH.C09
