/-
  SH.Lemmas.WireMP — MessagePack round trip for Props/C13: the canonical client encoder of SH.Model.Wire,
  decoded by the model of msgpack.go, gives back the batch.
-/
import SH.Lemmas.Wire
namespace SH.Wire

theorem be_length (n v : Nat) : (be n v).length = n := by simp [be, le_length]

theorem rdBE_be (n v : Nat) : rdBE (be n v) = v % 256 ^ n := by simp [rdBE, be, rdLE_le]

theorem rdBE_be_of_lt {n v : Nat} (h : v < 256 ^ n) : rdBE (be n v) = v := by
  rw [rdBE_be, Nat.mod_eq_of_lt h]

theorem take_be_append (n v : Nat) (r : Bytes) : (be n v ++ r).take n = be n v := by
  rw [List.take_append_of_le_length (by simp [be_length])]; simp [List.take_of_length_le, be_length]

theorem drop_be_append (n v : Nat) (r : Bytes) : (be n v ++ r).drop n = r := by
  have := be_length n v
  rw [List.drop_append_of_le_length (by omega)]; simp [List.drop_of_length_le, this]

theorem mpLenPayload_enc (h : Nat) (s r : Bytes) (hs : s.length < 256 ^ h) :
    mpLenPayload h (be h s.length ++ (s ++ r)) = .ok (s, r) := by
  unfold mpLenPayload
  have h1 : ¬ (be h s.length ++ (s ++ r)).length < h := by simp [be_length]
  rw [if_neg h1, take_be_append, drop_be_append, rdBE_be_of_lt hs]
  have h2 : ¬ (s ++ r).length < s.length := by simp
  rw [if_neg h2, List.take_left, List.drop_left]

theorem mpStr_enc (s r : Bytes) (hs : s.length < 2 ^ 32) : mpStr (mpEncStr s ++ r) = .ok (s, r) := by
  unfold mpEncStr
  by_cases h1 : s.length ≤ 31
  · rw [if_pos h1]
    show mpStr ((0xa0 + s.length) :: (s ++ r)) = _
    simp only [mpStr]
    have a : (0xa0 + s.length) / 32 = 5 := by omega
    have b : (0xa0 + s.length) % 32 = s.length := by omega
    have c : ¬ (s ++ r).length < s.length := by simp
    rw [if_pos a, b, if_neg c, List.take_left, List.drop_left]
  · rw [if_neg h1]
    by_cases h2 : s.length ≤ 255
    · rw [if_pos h2]
      show mpStr (0xd9 :: (be 1 s.length ++ (s ++ r))) = _
      simp only [mpStr]
      rw [if_neg (by decide), if_pos trivial]
      exact mpLenPayload_enc 1 s r (by simp; omega)
    · rw [if_neg h2]
      by_cases h3 : s.length ≤ 65535
      · rw [if_pos h3]
        show mpStr (0xda :: (be 2 s.length ++ (s ++ r))) = _
        simp only [mpStr]
        rw [if_neg (by decide), if_neg (by decide), if_pos trivial]
        exact mpLenPayload_enc 2 s r (by simp; omega)
      · rw [if_neg h3]
        show mpStr (0xdb :: (be 4 s.length ++ (s ++ r))) = _
        simp only [mpStr]
        rw [if_neg (by decide), if_neg (by decide), if_neg (by decide), if_pos trivial]
        exact mpLenPayload_enc 4 s r (by simpa using hs)

theorem mpEncStr_length_pos (s : Bytes) : 1 ≤ (mpEncStr s).length := by
  unfold mpEncStr; split <;> (try split) <;> (try split) <;> simp

theorem mpKey_enc (s r : Bytes) (hs : s.length < 2 ^ 32) : mpKey (mpEncStr s ++ r) = .ok (s, r) := by
  unfold mpKey; rw [mpStr_enc s r hs]

/-- AppendMapHeader / AppendArrayHeader read back -/
theorem mpMapHdr_enc (n : Nat) (r : Bytes) (hn : n < 2 ^ 32) : mpMapHdr (mpEncHdr true n ++ r) = .ok (n, r) := by
  unfold mpEncHdr
  by_cases h1 : n ≤ 15
  · rw [if_pos h1]
    show mpMapHdr ((0x80 + n) :: r) = _
    simp only [mpMapHdr]
    have a : (0x80 + n) / 16 = 8 := by omega
    have b : (0x80 + n) % 16 = n := by omega
    rw [if_pos a, b]
  · rw [if_neg h1]
    by_cases h2 : n ≤ 65535
    · rw [if_pos h2]
      show mpMapHdr (0xde :: (be 2 n ++ r)) = _
      simp only [mpMapHdr]
      have c : ¬ (be 2 n ++ r).length < 2 := by simp [be_length]
      rw [if_neg (by decide), if_pos trivial, if_neg c, take_be_append, drop_be_append, rdBE_be_of_lt (by simp; omega)]
    · rw [if_neg h2]
      show mpMapHdr (0xdf :: (be 4 n ++ r)) = _
      simp only [mpMapHdr]
      have c : ¬ (be 4 n ++ r).length < 4 := by simp [be_length]
      rw [if_neg (by decide), if_neg (by decide), if_pos trivial, if_neg c, take_be_append, drop_be_append,
        rdBE_be_of_lt (by simpa using hn)]

theorem mpArrHdr_enc (n : Nat) (r : Bytes) (hn : n < 2 ^ 32) : mpArrHdr (mpEncHdr false n ++ r) = .ok (n, r) := by
  unfold mpEncHdr
  by_cases h1 : n ≤ 15
  · rw [if_pos h1]
    show mpArrHdr ((0x90 + n) :: r) = _
    simp only [mpArrHdr]
    have a : (0x90 + n) / 16 = 9 := by omega
    have b : (0x90 + n) % 16 = n := by omega
    rw [if_pos a, b]
  · rw [if_neg h1]
    by_cases h2 : n ≤ 65535
    · rw [if_pos h2]
      show mpArrHdr (0xdc :: (be 2 n ++ r)) = _
      simp only [mpArrHdr]
      have c : ¬ (be 2 n ++ r).length < 2 := by simp [be_length]
      rw [if_neg (by decide), if_pos trivial, if_neg c, take_be_append, drop_be_append, rdBE_be_of_lt (by simp; omega)]
    · rw [if_neg h2]
      show mpArrHdr (0xdd :: (be 4 n ++ r)) = _
      simp only [mpArrHdr]
      have c : ¬ (be 4 n ++ r).length < 4 := by simp [be_length]
      rw [if_neg (by decide), if_neg (by decide), if_pos trivial, if_neg c, take_be_append, drop_be_append,
        rdBE_be_of_lt (by simpa using hn)]

theorem mpF64_enc (x : Nat) (r : Bytes) (hx : x < 2 ^ 64) : mpF64 (mpEncF64 x ++ r) = .ok (x, r) := by
  show mpF64 (0xcb :: (be 8 x ++ r)) = _
  simp only [mpF64]
  have a : ¬ (0xcb :: (be 8 x ++ r)).length < 9 := by simp [be_length]
  rw [if_neg a, if_neg (by decide), take_be_append, drop_be_append, rdBE_be_of_lt (by simpa using hx)]

theorem mpFixed_enc (n v : Nat) (r : Bytes) (g : Nat → Except Err Nat) (y : Nat) (hv : v < 256 ^ n) (hg : g v = .ok y) :
    mpFixed n (be n v ++ r) g = .ok (y, r) := by
  unfold mpFixed
  have a : ¬ (be n v ++ r).length < n := by simp [be_length]
  rw [if_neg a, take_be_append, drop_be_append, rdBE_be_of_lt hv, hg]

/-- AppendUint32 read back by ReadUint32Bytes -/
theorem mpU32_enc (t : Nat) (r : Bytes) (ht : t < 2 ^ 32) : mpU32 (mpEncUint t ++ r) = .ok (t, r) := by
  have key : mpU64 (mpEncUint t ++ r) = .ok (t, r) := by
    unfold mpEncUint
    by_cases h1 : t ≤ 127
    · rw [if_pos h1]
      show mpU64 (t :: r) = _
      simp only [mpU64]
      rw [if_pos (by omega)]
    · rw [if_neg h1]
      by_cases h2 : t ≤ 255
      · rw [if_pos h2]
        show mpU64 (0xcc :: (be 1 t ++ r)) = _
        simp only [mpU64]
        rw [if_neg (by decide), if_neg (by decide), if_pos trivial]
        exact mpFixed_enc 1 t r _ t (by simp; omega) rfl
      · rw [if_neg h2]
        by_cases h3 : t ≤ 65535
        · rw [if_pos h3]
          show mpU64 (0xcd :: (be 2 t ++ r)) = _
          simp only [mpU64]
          rw [if_neg (by decide), if_neg (by decide), if_neg (by decide), if_neg (by decide), if_pos trivial]
          exact mpFixed_enc 2 t r _ t (by simp; omega) rfl
        · rw [if_neg h3, if_pos (by omega)]
          show mpU64 (0xce :: (be 4 t ++ r)) = _
          simp only [mpU64]
          rw [if_neg (by decide), if_neg (by decide), if_neg (by decide), if_neg (by decide), if_neg (by decide),
            if_neg (by decide), if_pos trivial]
          exact mpFixed_enc 4 t r _ t (by simpa using ht) rfl
  unfold mpU32
  rw [key]
  simp only []
  rw [if_neg (by omega)]

theorem sext1 (v : Nat) : sext 1 v = if v < 128 then v else 18446744073709551616 - 256 + v := rfl
theorem sext2 (v : Nat) : sext 2 v = if v < 32768 then v else 18446744073709551616 - 65536 + v := rfl
theorem sext4 (v : Nat) : sext 4 v = if v < 2147483648 then v else 18446744073709551616 - 4294967296 + v := rfl

/-- AppendInt64 read back by ReadInt64Bytes (values are two's complements in [0, 2^64)) -/
theorem mpI64_enc (x : Nat) (r : Bytes) (hx : x < 2 ^ 64) : mpI64 (mpEncInt x ++ r) = .ok (x, r) := by
  have hx' : x < 18446744073709551616 := by simpa using hx
  unfold mpEncInt
  by_cases hp : x < 2 ^ 63
  · have hp' : x < 9223372036854775808 := by simpa using hp
    rw [if_pos hp]
    by_cases h1 : x ≤ 127
    · rw [if_pos h1]
      show mpI64 (x :: r) = _
      simp only [mpI64]
      rw [if_pos (by omega)]
    · rw [if_neg h1]
      by_cases h2 : x ≤ 32767
      · rw [if_pos h2]
        show mpI64 (0xd1 :: (be 2 x ++ r)) = _
        simp only [mpI64]
        rw [if_neg (by decide), if_neg (by decide), if_neg (by decide), if_neg (by decide), if_pos trivial]
        exact mpFixed_enc 2 x r _ x (by simp; omega) (by simp only [sext2]; rw [if_pos (by omega)])
      · rw [if_neg h2]
        by_cases h3 : x ≤ 2 ^ 31 - 1
        · have h3' : x ≤ 2147483647 := by simpa using h3
          rw [if_pos h3]
          show mpI64 (0xd2 :: (be 4 x ++ r)) = _
          simp only [mpI64]
          rw [if_neg (by decide), if_neg (by decide), if_neg (by decide), if_neg (by decide), if_neg (by decide),
            if_neg (by decide), if_pos trivial]
          exact mpFixed_enc 4 x r _ x (by simp; omega) (by simp only [sext4]; rw [if_pos (by omega)])
        · rw [if_neg h3]
          show mpI64 (0xd3 :: (be 8 x ++ r)) = _
          simp only [mpI64]
          rw [if_neg (by decide), if_neg (by decide), if_neg (by decide), if_neg (by decide), if_neg (by decide),
            if_neg (by decide), if_neg (by decide), if_neg (by decide), if_pos trivial]
          exact mpFixed_enc 8 x r _ x (by simpa using hx) rfl
  · have hp' : ¬ x < 9223372036854775808 := by simpa using hp
    rw [if_neg hp]
    by_cases h1 : x ≥ 2 ^ 64 - 32
    · have h1' : x ≥ 18446744073709551584 := by simpa using h1
      rw [if_pos h1]
      show mpI64 ((x % 256) :: r) = _
      simp only [mpI64]
      rw [if_neg (by omega), if_pos (by omega), sext1, if_neg (by omega)]
      congr 2; omega
    · have h1' : ¬ x ≥ 18446744073709551584 := by simpa using h1
      rw [if_neg h1]
      by_cases h2 : x ≥ 2 ^ 64 - 128
      · have h2' : x ≥ 18446744073709551488 := by simpa using h2
        rw [if_pos h2]
        show mpI64 (0xd0 :: (be 1 (x % 2 ^ 8) ++ r)) = _
        simp only [mpI64]
        rw [if_neg (by decide), if_neg (by decide), if_pos trivial]
        exact mpFixed_enc 1 _ r _ x (by simp; omega) (by simp only [sext1]; rw [if_neg (by omega)]; congr 1; omega)
      · have h2' : ¬ x ≥ 18446744073709551488 := by simpa using h2
        rw [if_neg h2]
        by_cases h3 : x ≥ 2 ^ 64 - 32768
        · have h3' : x ≥ 18446744073709518848 := by simpa using h3
          rw [if_pos h3]
          show mpI64 (0xd1 :: (be 2 (x % 2 ^ 16) ++ r)) = _
          simp only [mpI64]
          rw [if_neg (by decide), if_neg (by decide), if_neg (by decide), if_neg (by decide), if_pos trivial]
          exact mpFixed_enc 2 _ r _ x (by simp; omega) (by simp only [sext2]; rw [if_neg (by omega)]; congr 1; omega)
        · have h3' : ¬ x ≥ 18446744073709518848 := by simpa using h3
          rw [if_neg h3]
          by_cases h4 : x ≥ 2 ^ 64 - 2 ^ 31
          · have h4' : x ≥ 18446744071562067968 := by simpa using h4
            rw [if_pos h4]
            show mpI64 (0xd2 :: (be 4 (x % 2 ^ 32) ++ r)) = _
            simp only [mpI64]
            rw [if_neg (by decide), if_neg (by decide), if_neg (by decide), if_neg (by decide), if_neg (by decide),
              if_neg (by decide), if_pos trivial]
            exact mpFixed_enc 4 _ r _ x (by simp; omega) (by simp only [sext4]; rw [if_neg (by omega)]; congr 1; omega)
          · rw [if_neg h4]
            show mpI64 (0xd3 :: (be 8 x ++ r)) = _
            simp only [mpI64]
            rw [if_neg (by decide), if_neg (by decide), if_neg (by decide), if_neg (by decide), if_neg (by decide),
              if_neg (by decide), if_neg (by decide), if_neg (by decide), if_pos trivial]
            exact mpFixed_enc 8 x r _ x (by simpa using hx) rfl

theorem mpTag_enc (t : Bytes × Bytes) (h1 : t.1.length < 2 ^ 32) (h2 : t.2.length < 2 ^ 32) (r : Bytes) :
    mpTag (mpEncStr t.1 ++ mpEncStr t.2 ++ r) = .ok (t, r) := by
  unfold mpTag
  rw [List.append_assoc, mpStr_enc _ _ h1]
  simp only []
  rw [mpStr_enc _ _ h2]

theorem mpBucket_enc (p : Nat × Nat) (h1 : p.1 < 2 ^ 64) (h2 : p.2 < 2 ^ 64) (r : Bytes) :
    mpBucket (mpEncHdr false 2 ++ mpEncF64 p.1 ++ mpEncF64 p.2 ++ r) = .ok (p, r) := by
  unfold mpBucket
  rw [List.append_assoc, List.append_assoc, mpArrHdr_enc 2 _ (by decide)]
  simp only [ne_eq, not_true_eq_false, if_false]
  rw [mpF64_enc _ _ h1]
  simp only []
  rw [mpF64_enc _ _ h2]

/-- a collection header followed by its `n` items (each at least one byte) passes the length check of the fix -/
theorem mpColl_enc (v : Variant) (isMap : Bool) (n : Nat) (r : Bytes) (hn : n < 2 ^ 32) (hr : n ≤ r.length) :
    mpColl v isMap (mpEncHdr isMap n ++ r) = .ok (n, r) := by
  unfold mpColl
  cases isMap with
  | true =>
    simp only [if_true]
    rw [mpMapHdr_enc n r hn]
    simp [mpCheckLen, hr]
  | false =>
    simp only [Bool.false_eq_true, if_false]
    rw [mpArrHdr_enc n r hn]
    simp [mpCheckLen, hr]

theorem mapR_ok_eq {α β : Type} (x : R α) (f : α → β) (a : α) (r : Bytes) (h : x = .ok (a, r)) : mapR x f = .ok (f a, r) := by
  rw [h]; rfl

/-- a whole collection field: header, then the items -/
theorem mpCollField_enc {α : Type} (v : Variant) (isMap : Bool) (item : Bytes → R α) (enc : α → Bytes) (xs : List α)
    (upd : List α → Metric) (r : Bytes) (hn : xs.length < 2 ^ 32)
    (hi : ∀ x ∈ xs, ∀ r, item (enc x ++ r) = .ok (x, r)) (h1 : ∀ x ∈ xs, 1 ≤ (enc x).length) :
    (mpCollField v isMap item (mpEncHdr isMap xs.length ++ catMap enc xs ++ r) upd).res = .ok (upd xs, r) := by
  unfold mpCollField
  have hl := catMap_length_ge enc 1 xs h1
  rw [List.append_assoc, mpColl_enc v isMap xs.length _ hn (by simp; omega)]
  simp only []
  exact mapR_ok_eq _ _ _ _ (readN_catMap item enc xs hi r)

theorem mpFields_step (v : Variant) (n : Nat) (m m' : Metric) (k b r r' : Bytes)
    (hk : mpKey b = .ok (k, r)) (hf : (mpField v m k r).res = .ok (m', r')) :
    (mpFields v (n + 1) m b).res = (mpFields v n m' r').res := by
  simp only [mpFields]
  rw [hk]
  simp only []
  cases hx : mpField v m k r with
  | mk a res =>
    rw [hx] at hf
    simp only [] at hf
    subst hf
    rfl

theorem mpField_name (v : Variant) (m : Metric) (s r : Bytes) (hs : s.length < 2 ^ 32) :
    (mpField v m kName (mpEncStr s ++ r)).res = .ok ({ m with name := s }, r) := by
  unfold mpField
  rw [if_pos rfl]
  exact mapR_ok_eq _ _ _ _ (mpStr_enc s r hs)

theorem mpField_tags (v : Variant) (m : Metric) (ts : List (Bytes × Bytes)) (r : Bytes) (hn : ts.length < 2 ^ 32)
    (ht : ∀ t ∈ ts, t.1.length < 2 ^ 32 ∧ t.2.length < 2 ^ 32) :
    (mpField v m kTags (mpEncHdr true ts.length ++ catMap (fun t => mpEncStr t.1 ++ mpEncStr t.2) ts ++ r)).res
      = .ok ({ m with tags := ts }, r) := by
  unfold mpField
  rw [if_neg (by decide), if_pos rfl]
  exact mpCollField_enc v true mpTag (fun t => mpEncStr t.1 ++ mpEncStr t.2) ts _ r hn
    (fun t h r => mpTag_enc t (ht t h).1 (ht t h).2 r)
    (fun t _ => by have := mpEncStr_length_pos t.1; simp; omega)

theorem mpField_counter (v : Variant) (m : Metric) (x : Nat) (r : Bytes) (hx : x < 2 ^ 64) :
    (mpField v m kCounter (mpEncF64 x ++ r)).res = .ok ({ m with counter := x, mask := setBit m.mask 0 }, r) := by
  unfold mpField
  rw [if_neg (by decide), if_neg (by decide), if_pos rfl]
  simp only []
  rw [mpF64_enc x r hx]; rfl

theorem mpField_ts (v : Variant) (m : Metric) (x : Nat) (r : Bytes) (hx : x < 2 ^ 32) :
    (mpField v m kTs (mpEncUint x ++ r)).res = .ok ({ m with ts := x, mask := setBit m.mask 4 }, r) := by
  unfold mpField
  rw [if_neg (by decide), if_neg (by decide), if_neg (by decide), if_pos rfl]
  simp only []
  rw [mpU32_enc x r hx]; rfl

theorem mpEncF64_length (x : Nat) : (mpEncF64 x).length = 9 := by simp [mpEncF64, be_length]

theorem mpEncInt_length_pos (x : Nat) : 1 ≤ (mpEncInt x).length := by
  unfold mpEncInt
  repeat' split
  all_goals simp

theorem mpField_value (v : Variant) (m : Metric) (xs : List Nat) (r : Bytes) (hn : xs.length < 2 ^ 32)
    (hx : ∀ x ∈ xs, x < 2 ^ 64) :
    (mpField v m kValue (mpEncHdr false xs.length ++ catMap mpEncF64 xs ++ r)).res
      = .ok ({ m with value := xs, mask := setBit m.mask 1 }, r) := by
  unfold mpField
  rw [if_neg (by decide), if_neg (by decide), if_neg (by decide), if_neg (by decide), if_pos rfl]
  exact mpCollField_enc v false mpF64 mpEncF64 xs _ r hn (fun x h r => mpF64_enc x r (hx x h))
    (fun x _ => by rw [mpEncF64_length]; omega)

theorem mpField_unique (v : Variant) (m : Metric) (xs : List Nat) (r : Bytes) (hn : xs.length < 2 ^ 32)
    (hx : ∀ x ∈ xs, x < 2 ^ 64) :
    (mpField v m kUnique (mpEncHdr false xs.length ++ catMap mpEncInt xs ++ r)).res
      = .ok ({ m with unique := xs, mask := setBit m.mask 2 }, r) := by
  unfold mpField
  rw [if_neg (by decide), if_neg (by decide), if_neg (by decide), if_neg (by decide), if_neg (by decide), if_pos rfl]
  exact mpCollField_enc v false mpI64 mpEncInt xs _ r hn (fun x h r => mpI64_enc x r (hx x h))
    (fun x _ => mpEncInt_length_pos x)

theorem mpField_hist (v : Variant) (m : Metric) (hs : List (Nat × Nat)) (r : Bytes) (hn : hs.length < 2 ^ 32)
    (hx : ∀ h ∈ hs, h.1 < 2 ^ 64 ∧ h.2 < 2 ^ 64) :
    (mpField v m kHistogram (mpEncHdr false hs.length
        ++ catMap (fun h => mpEncHdr false 2 ++ mpEncF64 h.1 ++ mpEncF64 h.2) hs ++ r)).res
      = .ok ({ m with hist := hs, mask := setBit m.mask 3 }, r) := by
  unfold mpField
  rw [if_neg (by decide), if_neg (by decide), if_neg (by decide), if_neg (by decide), if_neg (by decide),
    if_neg (by decide), if_pos rfl]
  exact mpCollField_enc v false mpBucket (fun h => mpEncHdr false 2 ++ mpEncF64 h.1 ++ mpEncF64 h.2) hs _ r hn
    (fun h hh r => mpBucket_enc h (hx h hh).1 (hx h hh).2 r)
    (fun h _ => by simp [mpEncF64_length])

/-- an optional field: present (one more map entry) or absent -/
theorem mpFields_opt (v : Variant) (k : Nat) (c : Bool) (m m' : Metric) (enc r : Bytes)
    (h : c = true → ∀ n, (mpFields v (n + 1) m (enc ++ r)).res = (mpFields v n m' r).res) :
    (mpFields v (k + (if c then 1 else 0)) m ((if c then enc else []) ++ r)).res
      = (mpFields v k (if c then m' else m) r).res := by
  cases c with
  | true => simp only [if_true]; exact h rfl k
  | false => simp

/-! ### one metric -/

def mpD1 (m : Metric) : Metric := { ({} : Metric) with name := m.name }
def mpD2 (m : Metric) : Metric := { mpD1 m with tags := m.tags }
def mpD3 (m : Metric) : Metric :=
  if hasBit m.mask 0 then { mpD2 m with counter := m.counter, mask := setBit (mpD2 m).mask 0 } else mpD2 m
def mpD4 (m : Metric) : Metric :=
  if hasBit m.mask 4 then { mpD3 m with ts := m.ts, mask := setBit (mpD3 m).mask 4 } else mpD3 m
def mpD5 (m : Metric) : Metric :=
  if hasBit m.mask 1 then { mpD4 m with value := m.value, mask := setBit (mpD4 m).mask 1 } else mpD4 m
def mpD6 (m : Metric) : Metric :=
  if hasBit m.mask 2 then { mpD5 m with unique := m.unique, mask := setBit (mpD5 m).mask 2 } else mpD5 m
/-- what the MessagePack decoder makes of the encoding of `m`: the same content, the mask rebuilt from the fields present -/
def mpDecoded (m : Metric) : Metric :=
  if hasBit m.mask 3 then { mpD6 m with hist := m.hist, mask := setBit (mpD6 m).mask 3 } else mpD6 m

theorem b2n_count (c0 c4 c1 c2 c3 : Bool) :
    2 + countTrue [c0, c4, c1, c2, c3] =
      ((((((0 + (if c3 then 1 else 0)) + (if c2 then 1 else 0)) + (if c1 then 1 else 0)) + (if c4 then 1 else 0))
        + (if c0 then 1 else 0)) + 1) + 1 := by
  cases c0 <;> cases c4 <;> cases c1 <;> cases c2 <;> cases c3 <;> rfl

theorem countTrue_le (l : List Bool) : countTrue l ≤ l.length := by
  unfold countTrue; exact List.length_filter_le _ _

theorem mpStep_name (v : Variant) (m : Metric) (w : m.WF) (k : Nat) (t : Bytes) :
    (mpFields v (k + 1) {} (mpEncStr kName ++ (mpEncStr m.name ++ t))).res = (mpFields v k (mpD1 m) t).res :=
  mpFields_step v k {} (mpD1 m) kName _ _ t (mpKey_enc kName _ (by decide)) (mpField_name v {} m.name t w.name)

theorem mpStep_tags (v : Variant) (m : Metric) (w : m.WF) (k : Nat) (t : Bytes) :
    (mpFields v (k + 1) (mpD1 m) (mpEncStr kTags ++ (mpEncHdr true m.tags.length
        ++ (catMap (fun t => mpEncStr t.1 ++ mpEncStr t.2) m.tags ++ t)))).res = (mpFields v k (mpD2 m) t).res :=
  mpFields_step v k (mpD1 m) (mpD2 m) kTags _ _ t (mpKey_enc kTags _ (by decide))
    (by have := mpField_tags v (mpD1 m) m.tags t w.tagsLen w.tags; simp only [List.append_assoc] at this; exact this)

theorem mpStep_counter (v : Variant) (m : Metric) (w : m.WF) (k : Nat) (t : Bytes) :
    (mpFields v (k + (if hasBit m.mask 0 then 1 else 0)) (mpD2 m)
        ((if hasBit m.mask 0 then mpEncStr kCounter ++ mpEncF64 m.counter else []) ++ t)).res
      = (mpFields v k (mpD3 m) t).res := by
  unfold mpD3
  exact mpFields_opt v k (hasBit m.mask 0) (mpD2 m) _ (mpEncStr kCounter ++ mpEncF64 m.counter) t
    (fun _ n => by
      rw [List.append_assoc]
      exact mpFields_step v n _ _ kCounter _ _ t (mpKey_enc kCounter _ (by decide)) (mpField_counter v _ _ t w.counter))

theorem mpStep_ts (v : Variant) (m : Metric) (w : m.WF) (k : Nat) (t : Bytes) :
    (mpFields v (k + (if hasBit m.mask 4 then 1 else 0)) (mpD3 m)
        ((if hasBit m.mask 4 then mpEncStr kTs ++ mpEncUint m.ts else []) ++ t)).res
      = (mpFields v k (mpD4 m) t).res := by
  unfold mpD4
  exact mpFields_opt v k (hasBit m.mask 4) (mpD3 m) _ (mpEncStr kTs ++ mpEncUint m.ts) t
    (fun _ n => by
      rw [List.append_assoc]
      exact mpFields_step v n _ _ kTs _ _ t (mpKey_enc kTs _ (by decide)) (mpField_ts v _ _ t w.ts))

theorem mpStep_value (v : Variant) (m : Metric) (w : m.WF) (k : Nat) (t : Bytes) :
    (mpFields v (k + (if hasBit m.mask 1 then 1 else 0)) (mpD4 m)
        ((if hasBit m.mask 1 then mpEncStr kValue ++ (mpEncHdr false m.value.length ++ catMap mpEncF64 m.value) else []) ++ t)).res
      = (mpFields v k (mpD5 m) t).res := by
  unfold mpD5
  exact mpFields_opt v k (hasBit m.mask 1) (mpD4 m) _ _ t
    (fun _ n => by
      simp only [List.append_assoc]
      exact mpFields_step v n _ _ kValue _ _ t (mpKey_enc kValue _ (by decide))
        (by have := mpField_value v (mpD4 m) m.value t w.valueLen w.value; simp only [List.append_assoc] at this; exact this))

theorem mpStep_unique (v : Variant) (m : Metric) (w : m.WF) (k : Nat) (t : Bytes) :
    (mpFields v (k + (if hasBit m.mask 2 then 1 else 0)) (mpD5 m)
        ((if hasBit m.mask 2 then mpEncStr kUnique ++ (mpEncHdr false m.unique.length ++ catMap mpEncInt m.unique) else []) ++ t)).res
      = (mpFields v k (mpD6 m) t).res := by
  unfold mpD6
  exact mpFields_opt v k (hasBit m.mask 2) (mpD5 m) _ _ t
    (fun _ n => by
      simp only [List.append_assoc]
      exact mpFields_step v n _ _ kUnique _ _ t (mpKey_enc kUnique _ (by decide))
        (by have := mpField_unique v (mpD5 m) m.unique t w.uniqueLen w.unique; simp only [List.append_assoc] at this; exact this))

theorem mpStep_hist (v : Variant) (m : Metric) (w : m.WF) (k : Nat) (t : Bytes) :
    (mpFields v (k + (if hasBit m.mask 3 then 1 else 0)) (mpD6 m)
        ((if hasBit m.mask 3 then mpEncStr kHistogram ++ (mpEncHdr false m.hist.length
            ++ catMap (fun h => mpEncHdr false 2 ++ (mpEncF64 h.1 ++ mpEncF64 h.2)) m.hist) else []) ++ t)).res
      = (mpFields v k (mpDecoded m) t).res := by
  unfold mpDecoded
  exact mpFields_opt v k (hasBit m.mask 3) (mpD6 m) _ _ t
    (fun _ n => by
      simp only [List.append_assoc]
      exact mpFields_step v n _ _ kHistogram _ _ t (mpKey_enc kHistogram _ (by decide))
        (by have := mpField_hist v (mpD6 m) m.hist t w.histLen w.hist; simp only [List.append_assoc] at this; exact this))

theorem mpMetric_enc (v : Variant) (m : Metric) (w : m.WF) (r : Bytes) :
    (mpMetric v (mpEncMetric m ++ r)).res = .ok (mpDecoded m, r) := by
  unfold mpMetric mpEncMetric
  simp only [List.append_assoc]
  have hN : 2 + countTrue [hasBit m.mask 0, hasBit m.mask 4, hasBit m.mask 1, hasBit m.mask 2, hasBit m.mask 3] < 2 ^ 32 := by
    have := countTrue_le [hasBit m.mask 0, hasBit m.mask 4, hasBit m.mask 1, hasBit m.mask 2, hasBit m.mask 3]
    simp at this; omega
  rw [mpMapHdr_enc _ _ hN]
  simp only []
  rw [b2n_count, mpStep_name v m w, mpStep_tags v m w, mpStep_counter v m w, mpStep_ts v m w, mpStep_value v m w,
    mpStep_unique v m w, mpStep_hist v m w]
  rfl

/-- the decoded metric has the content of the original (everything but the TL mask) -/
theorem sem_mpDecoded (m : Metric) (w : m.WF) : sem (mpDecoded m) = sem m := by
  have c0 := w.counter0; have t0 := w.ts0; have v0 := w.value0; have u0 := w.unique0; have h0 := w.hist0
  unfold mpDecoded mpD6 mpD5 mpD4 mpD3 mpD2 mpD1 sem
  cases b0 : hasBit m.mask 0 <;> cases b4 : hasBit m.mask 4 <;> cases b1 : hasBit m.mask 1 <;>
    cases b2 : hasBit m.mask 2 <;> cases b3 : hasBit m.mask 3 <;>
    simp_all

theorem mpEncMetric_length_pos (m : Metric) : 1 ≤ (mpEncMetric m).length := by
  unfold mpEncMetric mpEncHdr
  simp only [List.length_append]
  split <;> (try split) <;> simp <;> omega

/-! ### the batch -/

theorem mpMetrics_enc (v : Variant) (ms : List Metric) (hw : ∀ m ∈ ms, m.WF) (r : Bytes) :
    (mpMetrics v ms.length (catMap mpEncMetric ms ++ r)).res = .ok (ms.map mpDecoded, r) := by
  induction ms with
  | nil => rfl
  | cons m ms ih =>
    simp only [List.length_cons, catMap, List.append_assoc, mpMetrics]
    have h1 := mpMetric_enc v m (hw m (by simp)) (catMap mpEncMetric ms ++ r)
    cases hx : mpMetric v (mpEncMetric m ++ (catMap mpEncMetric ms ++ r)) with
    | mk a res =>
      rw [hx] at h1
      simp only [] at h1
      subst h1
      simp only []
      rw [ih (fun x hx => hw x (by simp [hx]))]
      rfl

theorem mpBatch_enc (v : Variant) (ms : List Metric) (hn : ms.length < 2 ^ 32) (hw : ∀ m ∈ ms, m.WF) (r : Bytes) :
    (mpBatch v (mpEncBatch ms ++ r)).res = .ok (ms.map mpDecoded, r) := by
  unfold mpBatch mpEncBatch
  simp only [List.append_assoc]
  rw [mpMapHdr_enc 1 _ (by decide)]
  simp only [mpBatchFields]
  rw [mpKey_enc kMetrics _ (by decide)]
  simp only [if_true]
  have hl := catMap_length_ge mpEncMetric 1 ms (fun m _ => mpEncMetric_length_pos m)
  rw [mpColl_enc v false ms.length _ hn (by simp; omega)]
  simp only []
  have h1 := mpMetrics_enc v ms hw r
  cases hx : mpMetrics v ms.length (catMap mpEncMetric ms ++ r) with
  | mk a res =>
    rw [hx] at h1
    simp only [] at h1
    subst h1
    rfl

theorem mpr_eta {α : Type} (x : MPR α) : x = ⟨x.alloc, x.res⟩ := by cases x; rfl

theorem detect_mpEnc (ms : List Metric) : detect (mpEncBatch ms) = .msgpack := by
  have : mpEncBatch ms = 0x81 :: (mpEncStr kMetrics ++ mpEncHdr false ms.length ++ catMap mpEncMetric ms) := by
    simp [mpEncBatch, mpEncHdr]
  rw [this]
  simp [detect, tlPrefix, mpLooksLikeMap, mpMapHdr]

/-- parser.parse on the MessagePack encoding of a batch -/
theorem parse_mpEnc (v : Variant) (ms : List Metric) (hn : ms.length < 2 ^ 32) (hw : ∀ m ∈ ms, m.WF) :
    (parse v (mpEncBatch ms)).fmt = .msgpack ∧ (parse v (mpEncBatch ms)).delivered = ms.map mpDecoded ∧
    (parse v (mpEncBatch ms)).err = none ∧ (parse v (mpEncBatch ms)).perr = false := by
  have hd := detect_mpEnc ms
  have hne : mpEncBatch ms ≠ [] := by intro h; rw [h] at hd; exact absurd hd (by decide)
  have hb := mpBatch_enc v ms hn hw []
  rw [List.append_nil] at hb
  have hdec : mpBatch v (mpEncBatch ms) = ⟨(mpBatch v (mpEncBatch ms)).alloc, .ok (ms.map mpDecoded, [])⟩ := by
    rw [← hb]
  obtain ⟨n, hlen⟩ : ∃ n, (mpEncBatch ms).length + 1 = n + 2 := by
    cases h : mpEncBatch ms with
    | nil => exact absurd h hne
    | cons x xs => exact ⟨xs.length, by simp⟩
  unfold parse
  rw [hd]
  simp only []
  rw [hlen, batchLoop_one _ _ _ _ _ n hne hdec]
  exact ⟨rfl, rfl, rfl, rfl⟩

end SH.Wire
