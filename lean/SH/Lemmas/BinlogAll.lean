/-
  SH.Lemmas.BinlogAll — the `readAllFromPosition` wrapper: directory scan + sort, index of the chunk of a position, the split of
  the writer's files at a commit position, and the invariants (position/checksum accounting) that make `seek_resume` applicable.
-/
import SH.Lemmas.BinlogCut
open SH.Binlog
namespace SH.C18

/-! ### scan, sort, index on lists of headers -/

theorem mapM_scan (cfg : Cfg) (g : Bytes → Hdr) : ∀ (l : List Bytes), (∀ d ∈ l, scanHeader cfg d = .ok (g d)) →
    l.mapM (scanHeader cfg) = .ok (l.map g)
  | [], _ => rfl
  | d :: ds, h => by
    have h1 := h d (List.mem_cons_self ..)
    have h2 := mapM_scan cfg g ds (fun x hx => h x (List.mem_cons_of_mem _ hx))
    simp only [List.mapM_cons, h1, h2, List.map_cons]
    rfl

/-- header positions strictly increase along the list -/
def Inc (l : List Hdr) : Prop := l.Pairwise (fun a b => a.pos < b.pos)

theorem sortHdrs_inc : ∀ (l : List Hdr), Inc l → sortHdrs l = l
  | [], _ => rfl
  | h :: hs, hi => by
    have hp := List.pairwise_cons.mp hi
    rw [sortHdrs, sortHdrs_inc hs hp.2]
    cases hs with
    | nil => rfl
    | cons x xs => simp [insertHdr, hp.1 x (List.mem_cons_self ..)]

/-- `getBinlogIndexByPosition`: the files `pre` all start at or before `p`, the next one (if any) starts behind `p` -/
theorem indexByPos_split (p : Int) : ∀ (pre post : List Hdr) (i idx : Nat), pre ≠ [] → (∀ h ∈ pre, h.pos ≤ p) →
    (∀ h ∈ post.head?, p < h.pos) → indexByPos p (pre ++ post) i idx = i + pre.length - 1
  | [], _, _, _, hne, _, _ => absurd rfl hne
  | [h], post, i, idx, _, hle, hgt => by
    have h1 : ¬ (h.pos > p) := by have := hle h (List.mem_cons_self ..); omega
    simp only [List.singleton_append, indexByPos, h1, if_false]
    cases post with
    | nil => simp [indexByPos]
    | cons x xs =>
      have : x.pos > p := hgt x (by simp)
      simp [indexByPos, this]
  | h :: h' :: t, post, i, idx, _, hle, hgt => by
    have h1 : ¬ (h.pos > p) := by have := hle h (List.mem_cons_self ..); omega
    have ih := indexByPos_split p (h' :: t) post (i + 1) i (by simp) (fun x hx => hle x (List.mem_cons_of_mem _ hx)) hgt
    simp only [List.cons_append, indexByPos, h1, if_false] at ih ⊢
    rw [ih]; simp; omega


/-! ### the files the writer produces, split at the end of a prefix of the appends -/

/-- what `scanHeader` makes of the first file (LevStart) -/
def hdrStart (d : Bytes) : Hdr := { pos := 0, crc := 0, ts := 0, curHash := 0, data := d }

/-- the header `ScanForFilesFromPos` assigns to a file -/
def gh (d : Bytes) : Hdr := if rd32 d = magicStart then hdrStart d else hdrOf d

/-- the chunk being written: its header record(s) `hd`, the bytes behind them, and the position/checksum its header announces -/
structure Cur where
  hd : Bytes
  body : Bytes
  pos : Nat
  crc : UInt32

def Cur.bytes (c : Cur) : Bytes := c.hd ++ c.body

/-- whatever follows the header, the file scans to `gh` and announces `pos`/`crc` -/
def CurOK (cfg : Cfg) (c : Cur) : Prop :=
  ∀ x : Bytes, scanHeader cfg (c.hd ++ x) = .ok (gh (c.hd ++ x)) ∧ (gh (c.hd ++ x)).pos = (c.pos : Int) ∧ (gh (c.hd ++ x)).crc = c.crc

/-- position and checksum accounting of the current chunk against the writer state -/
def Acc (cfg : Cfg) (w : WS) (c : Cur) : Prop :=
  c.pos + c.bytes.length = w.offG ∧ cfg.upd c.crc c.bytes = w.crc

def rfCur (cfg : Cfg) (w : WS) (a : Ap) : Cur :=
  { hd := apRF cfg w a, body := [], pos := (apMid cfg w a).offG + 36, crc := cfg.upd (apMid cfg w a).crc (apRT cfg w a) }

/-- completed chunks and the current chunk after the appends `as`, starting in chunk `c` -/
def splitC (cfg : Cfg) : WS → List Ap → Cur → List Bytes × Cur
  | _, [], c => ([], c)
  | w, a :: as, c =>
    if rotates cfg w a then
      ((c.bytes ++ apA cfg w a ++ apRT cfg w a) :: (splitC cfg (apNext cfg w a) as (rfCur cfg w a)).1,
       (splitC cfg (apNext cfg w a) as (rfCur cfg w a)).2)
    else splitC cfg (apNext cfg w a) as { c with body := c.body ++ apA cfg w a }

/-- all files: the current chunk `cur` continued by the layout, then the later chunks -/
def allFiles (cfg : Cfg) (w : WS) (as : List Ap) (cur : Bytes) : List Bytes :=
  (cur ++ (layoutC cfg w as ([], [])).1) :: (layoutC cfg w as ([], [])).2

theorem allFiles_append (cfg : Cfg) : ∀ (pre post : List Ap) (w : WS) (c : Cur),
    allFiles cfg w (pre ++ post) c.bytes =
      (splitC cfg w pre c).1 ++ allFiles cfg (runAll cfg w pre) post (splitC cfg w pre c).2.bytes
  | [], post, w, c => by simp [splitC, runAll]
  | a :: as, post, w, c => by
    by_cases hr : rotates cfg w a = true
    · have ih := allFiles_append cfg as post (apNext cfg w a) (rfCur cfg w a)
      simp only [allFiles, List.cons_append, layoutC, hr, if_true, splitC, runAll] at ih ⊢
      rw [← ih]
      simp [rfCur, Cur.bytes, List.append_assoc]
    · have hr' : rotates cfg w a = false := by simpa using hr
      have ih := allFiles_append cfg as post (apNext cfg w a) { c with body := c.body ++ apA cfg w a }
      simp only [allFiles, List.cons_append, layoutC, hr', Bool.false_eq_true, if_false, splitC, runAll] at ih ⊢
      rw [← ih]
      simp [Cur.bytes, List.append_assoc]


/-! ### accounting invariants -/

theorem apMid_crc_apA (cfg : Cfg) (hupd : ∀ c a b, cfg.upd (cfg.upd c a) b = cfg.upd c (a ++ b)) (w : WS) (a : Ap) :
    (apMid cfg w a).crc = cfg.upd w.crc (apA cfg w a) := by
  obtain ⟨_, _, fc, fp⟩ := apMid_fields cfg w a
  rw [fc]; simp only [apA, fp]
  split
  · rw [hupd]
  · simp

theorem rfCur_ok (cfg : Cfg) (w : WS) (a : Ap) (hnp : (apMid cfg w a).offG + 36 < 9223372036854775808) : CurOK cfg (rfCur cfg w a) := by
  intro x
  have hg : gh (apRF cfg w a ++ x) = hdrOf (apRF cfg w a ++ x) := by
    have : rd32 (apRF cfg w a ++ x) ≠ magicStart := by rw [apRF, rd32_rotFrom]; decide
    simp [gh, this]
  obtain ⟨hp, hc, _⟩ := hdrOf_rotFrom a.ts ((apMid cfg w a).offG + 36) (cfg.upd (apMid cfg w a).crc (apRT cfg w a)) (apCur cfg w a) a.h2 x hnp
  refine ⟨?_, ?_, ?_⟩
  · show scanHeader cfg (apRF cfg w a ++ x) = .ok (gh (apRF cfg w a ++ x))
    rw [hg]; exact scanHeader_rotFrom cfg _ _ _ _ _ x
  · show (gh (apRF cfg w a ++ x)).pos = (((apMid cfg w a).offG + 36 : Nat) : Int)
    rw [hg]; exact hp
  · show (gh (apRF cfg w a ++ x)).crc = cfg.upd (apMid cfg w a).crc (apRT cfg w a)
    rw [hg]; exact hc

theorem rfCur_acc (cfg : Cfg) (w : WS) (a : Ap) (hr : rotates cfg w a = true) : Acc cfg (apNext cfg w a) (rfCur cfg w a) := by
  obtain ⟨_, hnx⟩ := apNext_offG_ge cfg w a
  have hcrc := (apNext_fields cfg w a).2
  rw [if_pos hr] at hnx hcrc
  refine ⟨?_, ?_⟩
  · simp only [rfCur, Cur.bytes, List.append_nil, apRF, encRotFrom_length]; omega
  · simp only [rfCur, Cur.bytes, List.append_nil]; exact hcrc.symm

theorem splitC_inv (cfg : Cfg) (hupd : ∀ c a b, cfg.upd (cfg.upd c a) b = cfg.upd c (a ++ b)) :
    ∀ (as : List Ap) (w : WS) (c : Cur), (runAll cfg w as).offG < 9223372036854775808 → Acc cfg w c → CurOK cfg c →
      Acc cfg (runAll cfg w as) (splitC cfg w as c).2 ∧ CurOK cfg (splitC cfg w as c).2
  | [], _, _, _, ha, hk => ⟨ha, hk⟩
  | a :: as, w, c, hb, ha, hk => by
    have hmono := runAll_mono cfg as (apNext cfg w a)
    obtain ⟨hge, hnx⟩ := apNext_offG_ge cfg w a
    by_cases hr : rotates cfg w a = true
    · rw [if_pos hr] at hnx
      simp only [splitC, hr, if_true, runAll]
      exact splitC_inv cfg hupd as _ _ hb (rfCur_acc cfg w a hr) (rfCur_ok cfg w a (by simp only [runAll] at hb; omega))
    · have hr' : rotates cfg w a = false := by simpa using hr
      rw [if_neg hr] at hnx
      have hcrc := (apNext_fields cfg w a).2
      rw [if_neg hr] at hcrc
      simp only [splitC, hr', Bool.false_eq_true, if_false, runAll]
      refine splitC_inv cfg hupd as _ _ hb ⟨?_, ?_⟩ (fun x => ?_)
      · have := (apMid_fields cfg w a).1
        have := ha.1
        simp only [Cur.bytes, List.length_append] at *; omega
      · rw [hcrc, apMid_crc_apA cfg hupd, ← ha.2]
        simp only [Cur.bytes]; rw [hupd, List.append_assoc]
      · exact hk x

/-- the later chunks of a layout scan to `hdrOf`, their positions increase and lie behind `lb` -/
def LaterOK (cfg : Cfg) : Nat → List Bytes → Prop
  | _, [] => True
  | lb, d :: ds => scanHeader cfg d = .ok (gh d) ∧ gh d = hdrOf d ∧ ∃ np : Nat, (gh d).pos = (np : Int) ∧ lb < np ∧ LaterOK cfg np ds

theorem LaterOK_weaken (cfg : Cfg) {lb lb' : Nat} (h : lb ≤ lb') : ∀ {l : List Bytes}, LaterOK cfg lb' l → LaterOK cfg lb l
  | [], _ => trivial
  | _ :: _, ⟨a, g, np, b, c, d⟩ => ⟨a, g, np, b, by omega, d⟩

theorem layout_laterOK (cfg : Cfg) : ∀ (as : List Ap) (w : WS), (runAll cfg w as).offG < 9223372036854775808 →
    LaterOK cfg w.offG (layoutC cfg w as ([], [])).2
  | [], _, _ => trivial
  | a :: as, w, hb => by
    have hmono := runAll_mono cfg as (apNext cfg w a)
    obtain ⟨hge, hnx⟩ := apNext_offG_ge cfg w a
    have ih := layout_laterOK cfg as (apNext cfg w a) hb
    by_cases hr : rotates cfg w a = true
    · rw [if_pos hr] at hnx
      simp only [layoutC, hr, if_true]
      have hk := rfCur_ok cfg w a (by simp only [runAll] at hb; omega) (layoutC cfg (apNext cfg w a) as ([], [])).1
      have hg : gh (apRF cfg w a ++ (layoutC cfg (apNext cfg w a) as ([], [])).1)
          = hdrOf (apRF cfg w a ++ (layoutC cfg (apNext cfg w a) as ([], [])).1) := by
        have : rd32 (apRF cfg w a ++ (layoutC cfg (apNext cfg w a) as ([], [])).1) ≠ magicStart := by rw [apRF, rd32_rotFrom]; decide
        simp [gh, this]
      refine ⟨hk.1, hg, _, hk.2.1, ?_, LaterOK_weaken cfg ?_ ih⟩
      · simp only [rfCur]; omega
      · simp only [rfCur]; omega
    · have hr' : rotates cfg w a = false := by simpa using hr
      rw [if_neg hr] at hnx
      simp only [layoutC, hr', Bool.false_eq_true, if_false]
      exact LaterOK_weaken cfg (by omega) ih


theorem gh_data (d : Bytes) : (gh d).data = d := by unfold gh; split <;> rfl

theorem laterOK_facts (cfg : Cfg) : ∀ (l : List Bytes) (lb : Nat), LaterOK cfg lb l →
    (∀ d ∈ l, scanHeader cfg d = .ok (gh d)) ∧ l.map gh = l.map hdrOf ∧ Inc (l.map gh) ∧ (∀ h ∈ l.map gh, (lb : Int) < h.pos)
  | [], _, _ => ⟨by simp, rfl, List.Pairwise.nil, by simp⟩
  | d :: ds, lb, ⟨a, g, np, b, c, r⟩ => by
    obtain ⟨i1, i2, i3, i4⟩ := laterOK_facts cfg ds np r
    refine ⟨?_, ?_, ?_, ?_⟩
    · intro x hx; rcases List.mem_cons.mp hx with rfl | hx
      · exact a
      · exact i1 x hx
    · simp [g, i2]
    · simp only [List.map_cons, Inc, List.pairwise_cons]
      exact ⟨fun h hh => by have := i4 h hh; omega, i3⟩
    · intro h hh
      simp only [List.map_cons, List.mem_cons] at hh
      rcases hh with rfl | hh
      · omega
      · have := i4 h hh; omega

/-- the scanned, sorted header list of the writer's files is `map gh`, and it is increasing -/
theorem scan_allFiles (cfg : Cfg) (w : WS) (as : List Ap) (c : Cur) (hb : (runAll cfg w as).offG < 9223372036854775808)
    (ha : Acc cfg w c) (hk : CurOK cfg c) :
    scan cfg (allFiles cfg w as c.bytes) = .ok ((allFiles cfg w as c.bytes).map gh) ∧ Inc ((allFiles cfg w as c.bytes).map gh) := by
  obtain ⟨i1, _, i3, i4⟩ := laterOK_facts cfg _ _ (layout_laterOK cfg as w hb)
  have hfirst := hk (c.body ++ (layoutC cfg w as ([], [])).1)
  have hfile : c.bytes ++ (layoutC cfg w as ([], [])).1 = c.hd ++ (c.body ++ (layoutC cfg w as ([], [])).1) := by
    simp [Cur.bytes, List.append_assoc]
  have hinc : Inc ((allFiles cfg w as c.bytes).map gh) := by
    simp only [allFiles, List.map_cons, Inc, List.pairwise_cons]
    refine ⟨fun h hh => ?_, i3⟩
    have := i4 h hh
    rw [hfile, hfirst.2.1]
    have := ha.1
    omega
  refine ⟨?_, hinc⟩
  have hm := mapM_scan cfg gh (allFiles cfg w as c.bytes) (by
    intro d hd
    simp only [allFiles, List.mem_cons] at hd
    rcases hd with rfl | hd
    · rw [hfile]; exact hfirst.1
    · exact i1 d hd)
  simp only [scan, hm, sortHdrs_inc _ hinc]


/-! ### the head of the first file: LevStart and the tag record -/

/-- a record that is only skipped (`Engine.Skip`): LevStart (24 bytes) or the tag (20 bytes) -/
theorem step_skipRec (cfg : Cfg) (s : RS) (p : Nat) (c : UInt32) (rec R : Bytes) (n : Nat) (hn : rec.length = n) (hn4 : n % 4 = 0)
    (hstep : readStep cfg s = skipLev cfg (preCommit s) n) (h : At s p c (rec ++ R)) :
    ∃ s', readStep cfg s = .cont s' ∧ At s' (p + n) (cfg.upd c rec) R ∧ s'.eng.evs = s.eng.evs := by
  have hp := h.pre
  have hoffeq : (preCommit s).eng.off + (n : Int) = (preCommit s).pos + (n : Int) := by rw [hp.hoff, hp.hpos]
  have t1 : (preCommit s).rest.take n = rec := by rw [hp.hrest]; exact List.take_left' hn
  have t2 : (preCommit s).rest.drop n = R := by rw [hp.hrest]; exact List.drop_left' hn
  rw [hstep]
  simp only [skipLev, ne_eq, hoffeq, not_true_eq_false, if_false]
  refine ⟨_, rfl, ⟨?_, ?_, ?_, ?_, rfl, ?_⟩, ?_⟩
  · simp [RS.advance, h.hpos]
  · simp only [RS.advance, t1, hp.hcrc]
  · simp only [RS.advance, t2]
  · simp [RS.advance, h.hpos]
  · simp only [RS.advance, pre_slack, h.hslack, List.length_append, hn]; omega
  · simp [RS.advance]

theorem step_start (cfg : Cfg) (s : RS) (p : Nat) (c : UInt32) (x R : Bytes) (hx : x.length = 20)
    (h : At s p c ((le32 magicStart ++ x) ++ R)) :
    ∃ s', readStep cfg s = .cont s' ∧ At s' (p + 24) (cfg.upd c (le32 magicStart ++ x)) R ∧ s'.eng.evs = s.eng.evs := by
  have hp := h.pre
  have hl : (le32 magicStart ++ x).length = 24 := by simp [hx]
  have h4 : atLeast (preCommit s).rest 4 = true := by rw [atLeast_iff, hp.hrest]; simp <;> omega
  have h24 : atLeast (preCommit s).rest 24 = true := by rw [atLeast_iff, hp.hrest]; simp; omega
  have hk : kindOf (rd32 (preCommit s).rest) = .start := by
    rw [hp.hrest, List.append_assoc, rd32_le32 _ (by decide)]; decide
  exact step_skipRec cfg s p c _ R 24 hl (by decide)
    (by simp only [readStep, h4, Bool.not_true, Bool.false_eq_true, if_false, hk, stepKind, stepStart, h24, if_true]) h

theorem step_tag (cfg : Cfg) (s : RS) (p : Nat) (c : UInt32) (x R : Bytes) (hx : x.length = 16)
    (h : At s p c ((le32 magicTag ++ x) ++ R)) :
    ∃ s', readStep cfg s = .cont s' ∧ At s' (p + 20) (cfg.upd c (le32 magicTag ++ x)) R ∧ s'.eng.evs = s.eng.evs := by
  have hp := h.pre
  have hl : (le32 magicTag ++ x).length = 20 := by simp [hx]
  have h4 : atLeast (preCommit s).rest 4 = true := by rw [atLeast_iff, hp.hrest]; simp <;> omega
  have h20 : atLeast (preCommit s).rest 20 = true := by rw [atLeast_iff, hp.hrest]; simp; omega
  have hk : kindOf (rd32 (preCommit s).rest) = .tag := by
    rw [hp.hrest, List.append_assoc, rd32_le32 _ (by decide)]; decide
  exact step_skipRec cfg s p c _ R 20 hl (by decide)
    (by simp only [readStep, h4, Bool.not_true, Bool.false_eq_true, if_false, hk, stepKind, stepTag, h20, if_true]) h

/-- the head of the first file as `CreateEmptyFsBinlog` writes it: LevStart (schema id, 16 more bytes) and the 16-byte tag -/
def initBytes (cfg : Cfg) (sy ty : Bytes) : Bytes := (le32 magicStart ++ (le32 cfg.schema ++ sy)) ++ (le32 magicTag ++ ty)

def initCur (cfg : Cfg) (sy ty : Bytes) : Cur := { hd := initBytes cfg sy ty, body := [], pos := 0, crc := 0 }

theorem initCur_ok (cfg : Cfg) (sy ty : Bytes) (hs : cfg.schema < 4294967296) (hsy : sy.length = 16) : CurOK cfg (initCur cfg sy ty) := by
  intro x
  have hm : rd32 (initBytes cfg sy ty ++ x) = magicStart := by
    simp only [initBytes, List.append_assoc]; exact rd32_le32 _ (by decide) _
  have hsch : rd32 ((initBytes cfg sy ty ++ x).drop 4) = cfg.schema := by
    have : (initBytes cfg sy ty ++ x).drop 4 = le32 cfg.schema ++ (sy ++ (le32 magicTag ++ ty ++ x)) := by
      simp [initBytes, le32]
    rw [this]; exact rd32_le32 _ hs _
  have h4 : atLeast (initBytes cfg sy ty ++ x) 4 = true := by rw [atLeast_iff]; simp [initBytes] <;> omega
  have h24 : atLeast (initBytes cfg sy ty ++ x) 24 = true := by rw [atLeast_iff]; simp [initBytes, hsy]; omega
  have hne : (initBytes cfg sy ty ++ x).isEmpty = false := by simp [initBytes, le32]
  have hg : gh (initBytes cfg sy ty ++ x) = hdrStart (initBytes cfg sy ty ++ x) := by simp [gh, hm]
  refine ⟨?_, ?_, ?_⟩
  · show scanHeader cfg (initBytes cfg sy ty ++ x) = .ok (gh (initBytes cfg sy ty ++ x))
    rw [hg]; simp [scanHeader, hne, h4, hm, h24, hsch, hdrStart]
  · show (gh (initBytes cfg sy ty ++ x)).pos = ((0 : Nat) : Int)
    rw [hg]; rfl
  · show (gh (initBytes cfg sy ty ++ x)).crc = 0
    rw [hg]; rfl


/-- tie between the layout and the writer model's buffer: one append puts exactly the layout's bytes into `buffEx.buff`
    (event, crc record, and — when it rotates — ROTATE_TO and ROTATE_FROM, with the rotation position recorded between them) -/
theorem apNext_buffL (cfg : Cfg) (w : WS) (a : Ap) :
    (apNext cfg w a).buff = w.buff ++ apA cfg w a ++ (if rotates cfg w a then apRT cfg w a ++ apRF cfg w a else []) ∧
    (apNext cfg w a).rotPos = w.rotPos ++ (if rotates cfg w a then [(w.buff ++ apA cfg w a ++ apRT cfg w a).length] else []) := by
  have hb := (apMid_fields cfg w a).2.1
  by_cases hr : rotates cfg w a = true
  · have hr' : needRotate cfg (putCrc cfg w (encEvent cfg.evMagic a.body) a.ts) = true := hr
    have hrp : (apMid cfg w a).rotPos = w.rotPos := by
      simp only [apMid, putCrc]; split <;> simp [addCrc, appendLev]
    simp only [apNext, putBody, hr', if_true, hr]
    have e : (addRotate cfg (putCrc cfg w (encEvent cfg.evMagic a.body) a.ts) a.ts a.h1 a.h2).buff
        = w.buff ++ apA cfg w a ++ (apRT cfg w a ++ apRF cfg w a) ∧
        (addRotate cfg (putCrc cfg w (encEvent cfg.evMagic a.body) a.ts) a.ts a.h1 a.h2).rotPos
        = w.rotPos ++ [(w.buff ++ apA cfg w a ++ apRT cfg w a).length] := by
      have hb' : (putCrc cfg w (encEvent cfg.evMagic a.body) a.ts).buff = w.buff ++ apA cfg w a := hb
      have hrp' : (putCrc cfg w (encEvent cfg.evMagic a.body) a.ts).rotPos = w.rotPos := hrp
      constructor
      · simp only [addRotate, appendLev, levRotateSize, padded_rotTo, padded_rotFrom, hb', List.append_assoc]
        rfl
      · simp only [addRotate, appendLev, levRotateSize, padded_rotTo, padded_rotFrom, hb', hrp']
        rfl
    split <;> simp [e.1, e.2]
  · have hr' : needRotate cfg (putCrc cfg w (encEvent cfg.evMagic a.body) a.ts) = false := by simpa [rotates, apMid] using hr
    have hr2 : rotates cfg w a = false := by simpa using hr
    have hrp : (apMid cfg w a).rotPos = w.rotPos := by
      simp only [apMid, putCrc]; split <;> simp [addCrc, appendLev]
    have hb' : (putCrc cfg w (encEvent cfg.evMagic a.body) a.ts).buff = w.buff ++ apA cfg w a := hb
    have hrp' : (putCrc cfg w (encEvent cfg.evMagic a.body) a.ts).rotPos = w.rotPos := hrp
    simp only [apNext, putBody, hr', hr2, Bool.false_eq_true, if_false]
    split <;> simp [hb', hrp']


end SH.C18
