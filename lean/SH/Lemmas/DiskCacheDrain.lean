import SH.Lemmas.DiskCacheLoop

namespace SH.C09
open SH.DiskCache

/-! ### fuel sufficiency of `readFuel` -/

theorem length_le_recsLen (rs : List ARec) : rs.length ≤ recsLen rs := by
  induction rs with
  | nil => simp [recsLen]
  | cons r rs ih => have := ARec.len_pos r; simp [recsLen]; omega

theorem AFile.len_le_size (cfg : Cfg) (f : AFile) : f.recs.length ≤ f.size cfg := by
  have := length_le_recsLen f.recs
  simp [AFile.size, AFile.bytes, encRecs_length]; omega

theorem wait_mu_le (cfg : Cfg) (l : List AFile) :
    (l.map (fun f => f.recs.length + 2)).sum ≤
      2 * (l.map (fun f => (⟨f.name, f.size cfg⟩ : WFile))).length + ((l.map (fun f => (⟨f.name, f.size cfg⟩ : WFile))).map (·.size)).sum := by
  induction l with
  | nil => simp
  | cons f l ih =>
    have := AFile.len_le_size cfg f
    simp only [List.map_cons, List.sum_cons, List.length_cons] at ih ⊢
    omega

theorem mu_le_readFuel (cfg : Cfg) (s : Shard) (a : Abs) (inv : Inv cfg s a) : a.mu ≤ readFuel s := by
  unfold Abs.mu readFuel
  have hw := wait_mu_le cfg a.wait
  rw [← inv.waiting] at hw
  cases hc : a.cur with
  | none => simp only; omega
  | some fj =>
    obtain ⟨f, j⟩ := fj
    obtain ⟨_, hrd, o, ho, _, hos, _, _⟩ := inv.cur_view hc
    simp only [hrd, ho, hos]
    have := AFile.len_le_size cfg f
    omega

/-- one call of ReadNextTailSecond on a state satisfying the invariant: never runs out of fuel, and
    either reports the end (nothing unread is left) or hands out the FIRST unread second of the live sequence -/
theorem readNext_spec (cfg : Cfg) (s : Shard) (a : Abs) (inv : Inv cfg s a) :
    ReadPost cfg a (readNext cfg s).1 (readNext cfg s).2 ∧ (readNext cfg s).2 ≠ .fuel := by
  obtain ⟨h1, h2⟩ := readLoop_spec cfg (readFuel s) s a inv
  exact ⟨h1, h2 (mu_le_readFuel cfg s a inv)⟩


/-! ### draining after a restart -/

def stamp : Nat → List LiveE → List LiveE
  | _, [] => []
  | k, (_, t, b) :: l => (some (k + 1), t, b) :: stamp (k + 1) l

def outs : Nat → List LiveE → List (Nat × Nat)
  | _, [] => []
  | k, (_, t, _) :: l => (t, k + 1) :: outs (k + 1) l

theorem first_none_unique : ∀ (l1 m1 l2 m2 : List LiveE) (x y : LiveE),
    l1 ++ x :: l2 = m1 ++ y :: m2 → (∀ e ∈ l1, e.1 ≠ none) → (∀ e ∈ m1, e.1 ≠ none) → x.1 = none → y.1 = none →
    l1 = m1 ∧ x = y ∧ l2 = m2 := by
  intro l1
  induction l1 with
  | nil =>
    intro m1 l2 m2 x y h _ hm hx _
    cases m1 with
    | nil => simp at h; exact ⟨rfl, h.1, h.2⟩
    | cons z m1 =>
      simp at h
      exact absurd (h.1 ▸ hx) (hm z (by simp))
  | cons z l1 ih =>
    intro m1 l2 m2 x y h hl hm hx hy
    cases m1 with
    | nil =>
      simp at h
      exact absurd (h.1 ▸ hy) (hl z (by simp))
    | cons w m1 =>
      simp at h
      obtain ⟨h1, h2, h3⟩ := ih m1 l2 m2 x y h.2 (fun e he => hl e (by simp [he])) (fun e he => hm e (by simp [he])) hx hy
      exact ⟨by rw [h.1, h1], h2, h3⟩

theorem drain_succ (cfg : Cfg) (n : Nat) (s : Shard) :
    drain cfg (n + 1) s =
      match readNext cfg s with
      | (s', .got t id) => ((drain cfg n s').1, (t, id) :: (drain cfg n s').2)
      | (s', _) => (s', []) := by
  rw [drain]
  split <;> simp_all

theorem drain_spec (cfg : Cfg) : ∀ (todo done : List LiveE) (n : Nat) (s : Shard) (a : Abs), Inv cfg s a →
    a.live cfg = done ++ todo → (∀ e ∈ done, e.1 ≠ none) → (∀ e ∈ todo, e.1 = none) → todo.length < n →
    (drain cfg n s).2 = outs a.lastID todo ∧
      ∃ a', Inv cfg (drain cfg n s).1 a' ∧ a'.live cfg = done ++ stamp a.lastID todo ∧ a'.lastID = a.lastID + todo.length := by
  intro todo
  induction todo with
  | nil =>
    intro done n s a inv hl hd _ hn
    obtain ⟨m, rfl⟩ : ∃ m, n = m + 1 := ⟨n - 1, by simp at hn; omega⟩
    obtain ⟨hp, hf⟩ := readNext_spec cfg s a inv
    rw [drain_succ]
    cases hr : readNext cfg s with
    | mk s' r =>
      rw [hr] at hp hf
      cases r with
      | fuel => exact absurd rfl hf
      | none =>
        simp only [ReadPost] at hp
        obtain ⟨a', inv', hl', hi', _⟩ := hp
        exact ⟨rfl, a', inv', by rw [hl', hl]; simp [stamp], by simp [hi']⟩
      | got t id =>
        simp only [ReadPost] at hp
        obtain ⟨a', l1, b, l2, _, _, _, hsplit, _, _⟩ := hp
        rw [hl, List.append_nil] at hsplit
        have := hd (none, t, b) (by rw [hsplit]; simp)
        simp at this
  | cons e rest ih =>
    intro done n s a inv hl hd ht hn
    obtain ⟨m, rfl⟩ : ∃ m, n = m + 1 := ⟨n - 1, by simp at hn; omega⟩
    obtain ⟨hp, hf⟩ := readNext_spec cfg s a inv
    rw [drain_succ]
    have he : e.1 = none := ht e (by simp)
    cases hr : readNext cfg s with
    | mk s' r =>
      rw [hr] at hp hf
      cases r with
      | fuel => exact absurd rfl hf
      | none =>
        simp only [ReadPost] at hp
        obtain ⟨_, _, _, _, hall⟩ := hp
        exact absurd he (hall e (by rw [hl]; simp))
      | got t id =>
        simp only [ReadPost] at hp
        obtain ⟨a', l1, b, l2, inv', hid, hi', hsplit, hl1, hl'⟩ := hp
        rw [hl] at hsplit
        obtain ⟨e1, e2, e3⟩ := first_none_unique done l1 rest l2 e (none, t, b) hsplit hd hl1 he rfl
        subst e1; subst e3
        have hl'' : a'.live cfg = (done ++ [(some id, t, b)]) ++ rest := by rw [hl']; simp
        obtain ⟨h1, a'', inv'', h2, h3⟩ := ih (done ++ [(some id, t, b)]) m s' a' inv' hl''
          (by intro x hx; rcases List.mem_append.mp hx with h | h
              · exact hd x h
              · simp at h; subst h; simp)
          (fun x hx => ht x (by simp [hx])) (by simp at hn; omega)
        simp only
        refine ⟨?_, a'', inv'', ?_, ?_⟩
        · rw [h1, e2, hi', hid]; simp [outs]
        · rw [h2, e2, hi', hid]; simp [stamp]
        · rw [h3, hi']; simp; omega

end SH.C09
