/-
  SH.Lemmas.DiskCacheLimits — (1) every body size PutBucket accepts is a size ReadNextTailSecond accepts (the two size checks
  agree at the boundary maxChunkSize); (2) size accounting when a waiting tail file vanishes before the tail reader opens it.
-/
import SH.Lemmas.DiskCacheTornErase

namespace SH.C09
open SH.DiskCache

/-! ### (1) the size limits of writer and reader -/

/-- writer: `len(data) > maxPut` is rejected -/
def acceptsP (maxPut n : Nat) : Bool := !(n > maxPut)
/-- reader: `chunkSize > maxRead` (or, seeded variant `strict`, `chunkSize >= maxRead`), or a chunk that does not fit the file, is rejected -/
def readerOkP (strict : Bool) (maxRead n size pos : Nat) : Bool :=
  !((if strict then decide (n ≥ maxRead) else decide (n > maxRead)) || decide (pos + headerSize + n > size))

/-- the model's two predicates are these with the constants of the code (`gen_constants_match` ties the constants) -/
theorem tooBigLen_eq (n : Nat) : tooBigLen n = !acceptsP maxChunkSize n := by simp [tooBigLen, acceptsP]
theorem badChunk_eq (h : Hdr) (size pos : Nat) : badChunk h size pos = !readerOkP false maxChunkSize h.size size pos := by
  simp [badChunk, readerOkP]

/-- for ANY limits with `maxPut ≤ maxRead`: a size the writer accepts is a size the reader accepts, whenever the chunk lies in the file -/
theorem accepted_size_readable_P (maxPut maxRead n size pos : Nat) (hle : maxPut ≤ maxRead) (ha : acceptsP maxPut n = true)
    (hfit : pos + headerSize + n ≤ size) : readerOkP false maxRead n size pos = true := by
  simp [acceptsP, readerOkP] at ha ⊢
  omega

/-- C09 `accepted_size_readable`: for ALL sizes, a body PutBucket does not reject (`tooBigLen n = false`) has a header that
    ReadNextTailSecond does not reject (`badChunk = false`) wherever the record lies completely inside its file — in particular
    for n = maxChunkSize, the body that fills a file to exactly fileRotateSize. -/
theorem accepted_size_readable (n size pos : Nat) (h : Hdr) (hn : tooBigLen n = false) (hs : h.size = n)
    (hfit : pos + headerSize + n ≤ size) : badChunk h size pos = false := by
  rw [badChunk_eq, hs, accepted_size_readable_P maxChunkSize maxChunkSize n size pos (Nat.le_refl _) (by
    rw [tooBigLen_eq] at hn; simpa using hn) hfit]
  rfl

/-- the boundary itself: a body of exactly maxChunkSize is accepted, goes into an empty file without rotating it, fills it to
    exactly fileRotateSize and is accepted by the reader there; one byte more is rejected by the writer.
    With the seeded reader (`>=`) the accepted body is rejected after a restart. -/
theorem max_chunk_boundary :
    tooBigLen maxChunkSize = false ∧ tooBigLen (maxChunkSize + 1) = true ∧
    rotates { name := 0, nextPos := 0, size := 0, refCount := 1 } maxChunkSize false = false ∧
    headerSize + maxChunkSize = fileRotateSize ∧
    badChunk ⟨magicGood, 0, maxChunkSize, 0⟩ fileRotateSize 0 = false ∧
    readerOkP true maxChunkSize maxChunkSize fileRotateSize 0 = false ∧
    readerOkP true maxChunkSize (maxChunkSize - 1) fileRotateSize 0 = true := by decide

/-! ### (2) a waiting tail file vanishes between the start-up scan and the tail read -/

/-- sizes still accounted in `total` for waiting files that are no longer in the directory -/
def ghost (s : Shard) : Int :=
  ((s.waiting.filter (fun w => !hasFile s.disk w.name)).map (fun w => (w.size : Int))).sum

/-- the accounting equation: reported total = bytes on disk + files the tail reader has not yet found missing -/
def Acct (s : Shard) : Prop := s.total = sumSizes s.disk + ghost s

theorem hasFile_render (cfg : Cfg) (L : List AFile) (n : Nat) :
    hasFile (L.map (AFile.render cfg)) n = L.any (fun f => f.name == n) := by
  simp [hasFile, List.any_map, Function.comp_def, AFile.render]

/-- every reachable state (invariant `Inv`) satisfies the equation with no ghost at all: total = bytes on disk -/
theorem acct_of_inv (cfg : Cfg) (s : Shard) (a : Abs) (inv : Inv cfg s a) : Acct s ∧ ghost s = 0 := by
  have hg : ghost s = 0 := by
    unfold ghost
    have : s.waiting.filter (fun w => !hasFile s.disk w.name) = [] := by
      rw [List.filter_eq_nil_iff]
      intro w hw
      rw [inv.waiting] at hw
      obtain ⟨f, hf, rfl⟩ := List.mem_map.mp hw
      rw [inv.disk, hasFile_render]
      simp only [Bool.not_eq_true', Bool.not_eq_false, List.any_eq_true]
      exact ⟨f, by simp [Abs.files, hf], by simp⟩
    rw [this]; rfl
  refine ⟨?_, hg⟩
  unfold Acct
  rw [hg, inv.total, inv.disk, sumSizes_render]; simp

/-- the loop iteration that finds a waiting file missing (`os.OpenFile` fails) keeps the equation — because it subtracts the
    file's size from `total` — and removes that ghost -/
theorem acct_skipMissing (s : Shard) (w : WFile) (ws : List WFile) (h : Acct s) (hw : s.waiting = w :: ws)
    (hm : hasFile s.disk w.name = false) : Acct (skipMissing s w ws) ∧ ghost (skipMissing s w ws) = ghost s - w.size := by
  have hg : ghost s = w.size + ghost (skipMissing s w ws) := by
    unfold ghost
    rw [hw, List.filter_cons]
    simp [hm, skipMissing]
  unfold Acct at h ⊢
  have hd : (skipMissing s w ws).disk = s.disk := rfl
  have ht : (skipMissing s w ws).total = s.total - w.size := rfl
  rw [hd, ht]
  constructor <;> omega

theorem sum_filter_split {α} (l : List α) (p : α → Bool) (g : α → Int) :
    (l.map g).sum = ((l.filter p).map g).sum + ((l.filter (fun x => !p x)).map g).sum := by
  induction l with
  | nil => rfl
  | cons x l ih =>
    cases hp : p x <;> simp [List.filter_cons, hp, ih] <;> omega

/-- a file that is still waiting vanishes from the directory: the equation holds with exactly that file as the ghost, so once the
    tail reader has reached it (`acct_skipMissing`) total is again the bytes on disk -/
theorem acct_vanish (cfg : Cfg) (s : Shard) (a : Abs) (inv : Inv cfg s a) (f : AFile) (hf : f ∈ a.wait) :
    Acct { s with disk := s.disk.filter (fun g => g.name != f.name) } ∧
    ghost { s with disk := s.disk.filter (fun g => g.name != f.name) } = f.size cfg := by
  have hff : f ∈ a.files := by simp [Abs.files, hf]
  have hinj : ∀ g ∈ a.files, g.name = f.name → g = f := fun g hg h => inv.name_inj hg hff h
  have hnd := pairwise_lt_ne inv.names
  have hdisk' : s.disk.filter (fun g => g.name != f.name) = (a.files.filter (fun g => g.name != f.name)).map (AFile.render cfg) := by
    rw [inv.disk, filter_map_render]
  have hsum : sumSizes (s.disk.filter (fun g => g.name != f.name)) = sumSizes s.disk - f.size cfg := by
    rw [hdisk', sumSizes_render, sizeSum_filter cfg f.name f a.files hff rfl hinj hnd, inv.disk, sumSizes_render]
  have hwnd : (a.wait.map (·.name)).Nodup := by
    have : List.Sublist (a.wait.map (·.name)) (a.files.map (·.name)) := by
      apply List.Sublist.map
      simp only [Abs.files]
      exact ((List.sublist_append_left _ _).trans (List.sublist_append_right _ _)).trans (List.sublist_append_right _ _)
    exact this.nodup hnd
  have hg : ghost { s with disk := s.disk.filter (fun g => g.name != f.name) } = f.size cfg := by
    unfold ghost
    simp only
    rw [hdisk', inv.waiting, List.filter_map, List.map_map]
    have hpred : ∀ g ∈ a.wait, ((fun w : WFile => !hasFile ((a.files.filter (fun g => g.name != f.name)).map (AFile.render cfg)) w.name) ∘
        (fun g : AFile => (⟨g.name, g.size cfg⟩ : WFile))) g = !(g.name != f.name) := by
      intro g hg
      simp only [Function.comp, hasFile_render]
      by_cases hgn : g.name = f.name
      · have : (List.filter (fun g => g.name != f.name) a.files).any (fun x => x.name == g.name) = false := by
          rw [List.any_eq_false]
          intro x hx
          have := (List.mem_filter.mp hx).2
          simp [hgn] at this ⊢; exact this
        simp [this, hgn]
      · have : (List.filter (fun g => g.name != f.name) a.files).any (fun x => x.name == g.name) = true := by
          rw [List.any_eq_true]
          exact ⟨g, List.mem_filter.mpr ⟨by simp [Abs.files, hg], by simp [hgn]⟩, by simp⟩
        simp [this, hgn]
    rw [List.filter_congr hpred]
    have hsplit := sum_filter_split a.wait (fun g => g.name != f.name) (fun g => (g.size cfg : Int))
    have hrest := sizeSum_filter cfg f.name f a.wait hf rfl (fun g hg h => hinj g (by simp [Abs.files, hg]) h) hwnd
    simp only [sizeSum] at hrest
    simp only [Function.comp_def]
    omega
  refine ⟨?_, hg⟩
  unfold Acct
  rw [hg]
  show s.total = _
  rw [hsum, inv.total, inv.disk, sumSizes_render]; omega

/-- concrete run: put one second, restart, the file vanishes, the tail reader runs: the code as it is reports total 0 = bytes on
    disk; without the `totalFileSize -= tailFile.size` of the open-error branch (seeded variant) it would keep reporting 21. -/
theorem vanish_then_read_accounts :
    (readNext cfg0 (vanish (restart (run cfg0 {} [.put 5 [1] false])) 0)).1.total = 0 ∧
    sumSizes (readNext cfg0 (vanish (restart (run cfg0 {} [.put 5 [1] false])) 0)).1.disk = 0 ∧
    (vanish (restart (run cfg0 {} [.put 5 [1] false])) 0).total = 21 ∧
    ghost (vanish (restart (run cfg0 {} [.put 5 [1] false])) 0) = 21 := by decide

end SH.C09
