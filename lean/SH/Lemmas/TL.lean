/-
  SH.Lemmas.TL — round-trip lemmas for the primitives of the TL1 codec (SH.Model.TL): 4-byte little endian naturals,
  fixed-width fields, strings (three length forms, padding), and the vector read loop. Used by SH.Props.C14.
-/
import SH.Model.TL
namespace SH.C14
open SH.TL

theorem readNat_le32 (n : Nat) (h : n < 4294967296) (r : Bytes) : readNat (le32 n ++ r) = some (n, r) := by
  simp only [le32, List.cons_append, List.nil_append, readNat, UInt8.toNat_ofNat']
  congr 2
  omega

theorem takeN_append (a r : Bytes) : takeN a.length (a ++ r) = some (a, r) := by
  induction a with
  | nil => simp [takeN]
  | cons x a ih => simp [takeN, ih]

theorem padW_eq (p : Nat) : padW p = padLen p := by
  unfold padW padLen
  have h : p % 4 = 0 ∨ p % 4 = 1 ∨ p % 4 = 2 ∨ p % 4 = 3 := by omega
  rcases h with h | h | h | h <;> simp [h]

theorem allZero_replicate (k : Nat) : allZero (List.replicate k 0) = true := by
  induction k with
  | zero => rfl
  | succ k ih => simp [allZero, List.replicate_succ] 

theorem takeStr_ok (b r : Bytes) (p : Nat) :
    takeStr b.length p (b ++ List.replicate (padW p) 0 ++ r) = some (b, r) := by
  unfold takeStr
  rw [List.append_assoc, takeN_append, padW_eq]
  simp only []
  have := takeN_append (List.replicate (padLen p) 0) r
  rw [List.length_replicate] at this
  rw [this]
  simp [allZero_replicate]

theorem isTiny_iff (l : Nat) : isTiny l = true ↔ l ≤ 253 := by
  unfold isTiny tinyStringLen; exact decide_eq_true_iff
theorem isMedium_iff (l : Nat) : isMedium l = true ↔ l ≤ 16777215 := by
  unfold isMedium maxMediumStringLen; exact decide_eq_true_iff

theorem decStr_encStr (b r : Bytes) (h : b.length ≤ maxHugeStringLen) : decStr (encStr b ++ r) = some (b, r) := by
  by_cases h1 : isTiny b.length = true
  · have hh : strHeader b.length = [UInt8.ofNat b.length] := by simp [strHeader, h1]
    have hp : strP b.length = b.length + 1 := by simp [strP, h1]
    have h1' : b.length ≤ 253 := (isTiny_iff _).1 h1
    have e : (UInt8.ofNat b.length).toNat = b.length := by
      rw [UInt8.toNat_ofNat']; omega
    rw [encStr, hh, hp]
    simp only [List.cons_append, List.nil_append, decStr, e, tinyStringLen, h1', if_true]
    exact takeStr_ok b r (b.length + 1)
  · have h1' : ¬ b.length ≤ 253 := fun x => h1 ((isTiny_iff _).2 x)
    have hp : strP b.length = b.length := by simp [strP, h1]
    by_cases h2 : isMedium b.length = true
    · have h2' : b.length ≤ 16777215 := (isMedium_iff _).1 h2
      have hh : strHeader b.length = [254, UInt8.ofNat (b.length % 256), UInt8.ofNat (b.length / 256 % 256),
          UInt8.ofNat (b.length / 65536 % 256)] := by simp [strHeader, h1, h2]
      have e : (UInt8.ofNat (b.length % 256)).toNat + (UInt8.ofNat (b.length / 256 % 256)).toNat * 256
            + (UInt8.ofNat (b.length / 65536 % 256)).toNat * 65536 = b.length := by
        simp only [UInt8.toNat_ofNat']; omega
      have c1 : ¬ (254 : UInt8).toNat ≤ tinyStringLen := by decide
      rw [encStr, hh, hp]
      simp only [List.cons_append, List.nil_append, decStr, c1, if_false, e, h1]
      exact takeStr_ok b r b.length
    · have h2' : ¬ b.length ≤ 16777215 := fun x => h2 ((isMedium_iff _).2 x)
      have h3 : b.length ≤ 72057594037927935 := h
      have hh : strHeader b.length = [255, UInt8.ofNat (b.length % 256), UInt8.ofNat (b.length / 256 % 256),
          UInt8.ofNat (b.length / 65536 % 256), UInt8.ofNat (b.length / 16777216 % 256),
          UInt8.ofNat (b.length / 4294967296 % 256), UInt8.ofNat (b.length / 1099511627776 % 256),
          UInt8.ofNat (b.length / 281474976710656 % 256)] := by simp [strHeader, h1, h2]
      have e : (UInt8.ofNat (b.length % 256)).toNat + (UInt8.ofNat (b.length / 256 % 256)).toNat * 256
            + (UInt8.ofNat (b.length / 65536 % 256)).toNat * 65536
            + (UInt8.ofNat (b.length / 16777216 % 256)).toNat * 16777216
            + (UInt8.ofNat (b.length / 4294967296 % 256)).toNat * 4294967296
            + (UInt8.ofNat (b.length / 1099511627776 % 256)).toNat * 1099511627776
            + (UInt8.ofNat (b.length / 281474976710656 % 256)).toNat * 281474976710656 = b.length := by
        simp only [UInt8.toNat_ofNat']; omega
      have c1 : ¬ (255 : UInt8).toNat ≤ tinyStringLen := by decide
      have c2 : ¬ (255 : UInt8).toNat = 254 := by decide
      rw [encStr, hh, hp]
      simp only [List.cons_append, List.nil_append, decStr, c1, c2, if_false, e, h2]
      exact takeStr_ok b r b.length

theorem Vals.ind {P : Vals → Prop} (hnil : P .nil) (hcons : ∀ v vs, P vs → P (.cons v vs)) : ∀ vs, P vs
  | .nil => hnil
  | .cons v vs => hcons v vs (Vals.ind hnil hcons vs)

theorem decN_encVals (f : Val → Bytes) (g : Bytes → Option (Val × Bytes)) (p : Val → Bool)
    (hfg : ∀ v r, p v = true → g (f v ++ r) = some (v, r)) :
    ∀ vs r, allVals p vs = true → decN g vs.length (encVals f vs ++ r) = some (vs, r) := by
  intro vs
  induction vs using Vals.ind with
  | hnil => intro r _; simp [Vals.length, encVals, decN]
  | hcons v vs ih =>
    intro r h
    simp only [allVals, Bool.and_eq_true] at h
    simp only [Vals.length, encVals, decN, List.append_assoc, hfg v _ h.1, ih r h.2]

end SH.C14
