/-
  SH.Lemmas.DeliveryRace — the operation `tickRace` (an inserter delayed between its oldestTime snapshot and its pop of
  historic buckets, while the ticker advances the window and a historic request arrives) preserves the invariant `SInv`.
-/
import SH.Lemmas.Delivery
namespace SH.Delivery
open SH.Gen.C01

/-- a bucket whose contributors are all known request tags of state s and have their rows in it -/
def GoodB (s : State) (y : Bucket) : Prop := (∀ p ∈ y.reqs, p ∈ ridTags s) ∧ BI y

theorem goodB_of_agg {s : State} {g : Agg} (h : SInv s []) (hg : g ∈ s.aggs) : ∀ y ∈ g.recent ++ g.historic, GoodB s y := by
  intro y hy
  refine ⟨fun p hp => ?_, fun p hp => h.bucket g hg y hy p hp⟩
  simp only [ridTags, parked, List.mem_append, List.mem_flatMap]
  exact Or.inr ⟨g, hg, y, by simpa using hy, hp⟩

theorem goodB_empty {s : State} {y : Bucket} (h : y.reqs = []) : GoodB s y :=
  ⟨fun p hp => by rw [h] at hp; simp at hp, fun p hp => by rw [h] at hp; simp at hp⟩

theorem fromFirstOurs_mem {k : Nat} {l : List Bucket} {x : Bucket} (h : x ∈ fromFirstOurs k l) : x ∈ l := by
  induction l with
  | nil => simp [fromFirstOurs] at h
  | cons b bs ih =>
    unfold fromFirstOurs at h
    split at h
    · exact h
    · exact List.mem_cons_of_mem _ (ih h)

theorem takeHistoric_stale_old' (fuel : Nat) (h : List Bucket) (oldest w rc hc : Nat) (s : Bucket)
    (hs : s ∈ (takeHistoric fuel h oldest w rc hc).stale) : w ≤ oldest ∧ s.time < oldest - w := by
  induction fuel generalizing h hc with
  | zero => simp [takeHistoric] at hs
  | succ n ih =>
    unfold takeHistoric at hs
    dsimp only at hs
    have hst : ∀ x ∈ h.filter (isStale oldest w), w ≤ oldest ∧ x.time < oldest - w := by
      intro x hx
      have := (List.mem_filter.mp hx).2
      simpa [isStale] using this
    split at hs
    · exact hst s hs
    · split at hs
      · exact hst s hs
      · simp only [List.mem_append] at hs
        rcases hs with hs | hs
        · exact hst s hs
        · exact ih _ _ hs

theorem insertOneW_facts (will : Bool) (b : Bucket) (h : List Bucket) (oldest w : Nat) (ok : Bool) (hb : BI b) (hh : ∀ x ∈ h, BI x) :
    (∀ x ∈ (insertOneW will b h oldest w ok).historic, x ∈ h) ∧
    (∀ a ∈ (insertOneW will b h oldest w ok).resps, ∃ x ∈ b :: h, (a.rid, a.sec) ∈ x.reqs) ∧
    (∀ a ∈ (insertOneW will b h oldest w ok).resps, a.discard = true → a.err = false →
        a.why = .stale ∨ (ok = true ∧ a.sec ∈ (insertOneW will b h oldest w ok).body)) := by
  unfold insertOneW
  generalize hbatch : (if (!will) = true then ({ historic := h, taken := [], stale := [] } : Batch)
      else takeHistoric maxHistoricBatch h oldest w b.joined 0) = batch
  have hsub : (∀ x ∈ batch.historic, x ∈ h) ∧ (∀ x ∈ batch.taken, x ∈ h) ∧ (∀ x ∈ batch.stale, x ∈ h) := by
    rw [← hbatch]; split
    · simp
    · exact takeHistoric_sub _ _ _ _ _ _
  dsimp only
  refine ⟨hsub.1, ?_, ?_⟩
  · intro a ha
    simp only [List.mem_append, List.mem_flatten, List.mem_map] at ha
    rcases ha with ⟨l, ⟨x, hx, rfl⟩, ha⟩ | ⟨l, ⟨x, hx, rfl⟩, ha⟩
    · exact ⟨x, List.mem_cons_of_mem _ (hsub.2.2 x hx), by
        simp only [answersOf, List.mem_map] at ha; obtain ⟨p, hp, rfl⟩ := ha; exact hp⟩
    · refine ⟨x, ?_, by simp only [answersOf, List.mem_map] at ha; obtain ⟨p, hp, rfl⟩ := ha; exact hp⟩
      simp only [List.mem_cons] at hx ⊢
      rcases hx with rfl | hx
      · exact Or.inl rfl
      · exact Or.inr (hsub.2.1 x hx)
  · intro a ha hd he
    simp only [List.mem_append, List.mem_flatten, List.mem_map] at ha
    rcases ha with ⟨l, ⟨x, hx, rfl⟩, ha⟩ | ⟨l, ⟨x, hx, rfl⟩, ha⟩
    · left; simp only [answersOf, List.mem_map] at ha; obtain ⟨p, hp, rfl⟩ := ha; rfl
    · right
      simp only [answersOf, List.mem_map] at ha; obtain ⟨p, hp, rfl⟩ := ha
      simp only at hd
      refine ⟨hd, ?_⟩
      have hbi : BI x := by
        simp only [List.mem_cons] at hx
        rcases hx with rfl | hx
        · exact hb
        · exact hh x (hsub.2.1 x hx)
      simp only [List.mem_flatten, List.mem_map]
      exact ⟨x.secs, ⟨x, hx, rfl⟩, hbi p hp⟩

/-- the delayed inserter classes as stale only buckets older than ITS snapshot minus the window — never one newer than
the snapshot, whatever happened to the window in the meantime -/
theorem insertOneW_stale_older (will : Bool) (b : Bucket) (h : List Bucket) (snap w : Nat) (ok : Bool) (a : Resp)
    (ha : a ∈ (insertOneW will b h snap w ok).resps) (hs : a.why = .stale) :
    ∃ x ∈ h, (a.rid, a.sec) ∈ x.reqs ∧ w ≤ snap ∧ x.time < snap - w := by
  unfold insertOneW at ha
  dsimp only at ha
  simp only [List.mem_append, List.mem_flatten, List.mem_map] at ha
  rcases ha with ⟨l, ⟨x, hx, rfl⟩, ha⟩ | ⟨l, ⟨x, hx, rfl⟩, ha⟩
  · simp only [answersOf, List.mem_map] at ha; obtain ⟨p, hp, rfl⟩ := ha
    split at hx
    · simp at hx
    · exact ⟨x, (takeHistoric_sub _ _ _ _ _ _).2.2 x hx, hp, takeHistoric_stale_old' _ _ _ _ _ _ x hx⟩
  · simp only [answersOf, List.mem_map] at ha; obtain ⟨p, hp, rfl⟩ := ha
    simp only at hs
    split at hs <;> simp at hs

theorem tickOne_facts (will : Bool) (oldest w : Nat) (ok : Bool) (b : Bucket) (acc : TickAcc) (hb : BI b) (hh : ∀ x ∈ acc.historic, BI x) :
    (∀ x ∈ (tickOne will oldest w ok b acc).historic, x ∈ acc.historic) ∧
    (∀ a ∈ (tickOne will oldest w ok b acc).resps, a ∈ acc.resps ∨ ∃ x ∈ b :: acc.historic, (a.rid, a.sec) ∈ x.reqs) ∧
    (∀ a ∈ (tickOne will oldest w ok b acc).resps, a ∈ acc.resps ∨ (a.discard = true → a.err = false →
        a.sec ∈ (tickOne will oldest w ok b acc).inserted ∨ a.sec ∈ (tickOne will oldest w ok b acc).rejected)) ∧
    (∀ t ∈ acc.inserted, t ∈ (tickOne will oldest w ok b acc).inserted) ∧
    (∀ t ∈ acc.rejected, t ∈ (tickOne will oldest w ok b acc).rejected) := by
  have fo := insertOneW_facts will b acc.historic oldest w ok hb hh
  unfold tickOne
  dsimp only
  generalize insertOneW will b acc.historic oldest w ok = o at fo ⊢
  refine ⟨fo.1, ?_, ?_, ?_, ?_⟩
  · intro a ha
    simp only [List.mem_append] at ha
    rcases ha with ha | ha
    · exact Or.inl ha
    · exact Or.inr (fo.2.1 a ha)
  · intro a ha
    simp only [List.mem_append] at ha
    rcases ha with ha | ha
    · exact Or.inl ha
    · right; intro hd he
      rcases fo.2.2 a ha hd he with hs | ⟨hok, hbody⟩
      · right; simp only [List.mem_append, List.mem_map, List.mem_filter]
        exact Or.inr ⟨a, ⟨ha, by simp [hs]⟩, rfl⟩
      · left; simp [hok, hbody]
  · intro t ht; split <;> simp [ht]
  · intro t ht; simp [ht]

structure ArriveOk (s s3 : State) : Prop where
  ag : s3.ag = s.ag
  next : s3.nextRid = s.nextRid
  flushed : s3.flushed = s.flushed
  inserted : s3.inserted = s.inserted
  rejected : ∀ t ∈ s.rejected, t ∈ s3.rejected
  reqs : ∀ q ∈ s3.reqs, q ∈ s.reqs
  resps : ∀ a ∈ s3.resps, a ∈ s.resps ∨ ((a.rid, a.sec) ∈ ridTags s ∧ (a.discard = true → a.err = false → a.sec ∈ s3.rejected))
  aggs : ∀ g' ∈ s3.aggs, ∀ y ∈ g'.recent ++ g'.historic, GoodB s y
  sw : s3.shortWindow = s.shortWindow ∧ s3.aggWindow = s.aggWindow

theorem goodB_join {s : State} {l' l : List Bucket} {rid sec : Nat} (hj : JoinOk l' l rid sec) (hl : ∀ y ∈ l, GoodB s y)
    (hq : (rid, sec) ∈ ridTags s) : ∀ y ∈ l', GoodB s y := by
  intro y hy
  refine ⟨fun p hp => ?_, (hj y hy).2 (fun b hb => (hl b hb).2)⟩
  rcases (hj y hy).1 p hp with rfl | ⟨b, hb, hpb⟩
  · exact hq
  · exact (hl b hb).1 p hpb

/-- the request handled while the inserter is delayed -/
theorem raceArrive_ok {s : State} {r : Nat} {g2 : Agg} {rid : Nat} (h : SInv s [])
    (hg2 : ∀ y ∈ g2.recent ++ g2.historic, GoodB s y) :
    ArriveOk s (raceArrive (setAgg s r g2) r g2 rid).1 := by
  have hold : ∀ g' ∈ (setAgg s r g2).aggs, ∀ y ∈ g'.recent ++ g'.historic, GoodB s y := by
    intro g' hg'
    rcases List.mem_or_eq_of_mem_set hg' with hg'' | rfl
    · exact goodB_of_agg h hg''
    · exact hg2
  have base : ArriveOk s (setAgg s r g2) :=
    ⟨rfl, rfl, rfl, rfl, fun _ ht => ht, fun _ hq => hq, fun _ ha => Or.inl ha, hold, ⟨rfl, rfl⟩⟩
  unfold raceArrive
  cases hr : findReq (setAgg s r g2) rid with
  | none => exact base
  | some q =>
    have hq : q ∈ s.reqs ∧ q.rid = rid := by
      unfold findReq at hr; exact ⟨List.mem_of_find?_eq_some hr, by simpa using List.find?_some hr⟩
    have hqt : (q.rid, q.sec) ∈ ridTags s := by
      simp only [ridTags, List.mem_append, List.mem_map]; exact Or.inl (Or.inl (Or.inr ⟨q, hq.1, rfl⟩))
    simp only
    split
    · rename_i hcond
      have hrep : q.replica = r := by
        simp only [Bool.and_eq_true, beq_iff_eq] at hcond; exact hcond.1
      have hdrop : ∀ q' ∈ (dropReq (setAgg s r g2) rid).reqs, q' ∈ s.reqs := by
        intro q' hq'; simp only [dropReq, setAgg, List.mem_filter] at hq'; exact hq'.1
      unfold recvHandle
      split
      · split
        · -- immediate answer
          rename_i d why _
          refine ⟨rfl, rfl, rfl, rfl, ?_, hdrop, ?_, hold, ⟨rfl, rfl⟩⟩
          · intro t ht; simp only [dropReq, setAgg]; split <;> simp [ht]
          · intro a ha
            simp only [dropReq, setAgg, List.mem_append, List.mem_singleton] at ha
            rcases ha with ha | rfl
            · exact Or.inl ha
            · right; refine ⟨hqt, ?_⟩
              intro hd _; simp only at hd; subst hd; simp [dropReq, setAgg]
        · -- joins a recent bucket
          refine ⟨rfl, rfl, rfl, rfl, fun _ ht => ht, hdrop, fun _ ha => Or.inl ha, ?_, ⟨rfl, rfl⟩⟩
          intro g' hg'
          rcases List.mem_or_eq_of_mem_set hg' with hg'' | rfl
          · exact hold g' hg''
          · intro y hy
            simp only [List.mem_append] at hy
            rcases hy with hy | hy
            · exact goodB_join (joinOk_modify _ _ _ _) (fun b hb => hg2 b (by simp [hb])) hqt y hy
            · exact hg2 y (by simp [hy])
        · -- joins a historic bucket
          refine ⟨rfl, rfl, rfl, rfl, fun _ ht => ht, hdrop, fun _ ha => Or.inl ha, ?_, ⟨rfl, rfl⟩⟩
          intro g' hg'
          rcases List.mem_or_eq_of_mem_set hg' with hg'' | rfl
          · exact hold g' hg''
          · intro y hy
            simp only [List.mem_append] at hy
            rcases hy with hy | hy
            · exact hg2 y (by simp [hy])
            · exact goodB_join (joinOk_parkHistoric _ _ _) (fun b hb => hg2 b (by simp [hb])) hqt y hy
      · exact ⟨rfl, rfl, rfl, rfl, fun _ ht => ht, hdrop, fun _ ha => Or.inl ha, hold, ⟨rfl, rfl⟩⟩
    · exact base

/-- facts about an accumulator of inserter iterations relative to its source buckets -/
structure AccOk (s : State) (src : List Bucket) (h0 : List Bucket) (acc : TickAcc) : Prop where
  hist : ∀ x ∈ acc.historic, x ∈ h0
  tags : ∀ a ∈ acc.resps, ∃ x ∈ src ++ h0, (a.rid, a.sec) ∈ x.reqs
  just : ∀ a ∈ acc.resps, a.discard = true → a.err = false → a.sec ∈ acc.inserted ∨ a.sec ∈ acc.rejected

theorem accOk_ticks {s : State} {k oldest w : Nat} {ok : Bool} {src0 l h0 : List Bucket} {acc : TickAcc}
    (ha : AccOk s src0 h0 acc) (hl : ∀ x ∈ l, BI x) (hh : ∀ x ∈ h0, BI x) :
    AccOk s (src0 ++ l) h0 (tickBuckets k oldest w ok l acc) := by
  have tf := tickBuckets_facts k oldest w ok l acc hl (fun x hx => hh x (ha.hist x hx))
  obtain ⟨t1, t2, t3, t4, t5⟩ := tf
  refine ⟨fun x hx => ha.hist x (t1 x hx), ?_, ?_⟩
  · intro a haa
    rcases t2 a haa with h1 | ⟨x, hx, hp⟩
    · obtain ⟨x, hx, hp⟩ := ha.tags a h1
      exact ⟨x, by simp only [List.mem_append] at hx ⊢; rcases hx with hx | hx <;> simp [hx], hp⟩
    · refine ⟨x, ?_, hp⟩
      simp only [List.mem_append] at hx ⊢
      rcases hx with hx | hx
      · exact Or.inl (Or.inr hx)
      · exact Or.inr (ha.hist x hx)
  · intro a haa hd he
    rcases t3 a haa with h1 | h1
    · rcases ha.just a h1 hd he with h2 | h2
      · exact Or.inl (t4 _ h2)
      · exact Or.inr (t5 _ h2)
    · exact h1 hd he

theorem accOk_one {s : State} {will : Bool} {oldest w : Nat} {ok : Bool} {b : Bucket} {h0 : List Bucket}
    (hb : BI b) (hh : ∀ x ∈ h0, BI x) :
    AccOk s [b] h0 (tickOne will oldest w ok b { historic := h0, resps := [], inserted := [], rejected := [], evs := [] }) := by
  have tf := tickOne_facts will oldest w ok b { historic := h0, resps := [], inserted := [], rejected := [], evs := [] } hb hh
  obtain ⟨t1, t2, t3, _, _⟩ := tf
  simp only [List.not_mem_nil, false_or] at t2 t3
  refine ⟨t1, ?_, t3⟩
  intro a ha
  obtain ⟨x, hx, hp⟩ := t2 a ha
  exact ⟨x, by simpa using hx, hp⟩

theorem sinv_tickRace {s : State} (r now1 now2 rid : Nat) (ok : Bool) (h : SInv s []) :
    SInv (step s (.tickRace r now1 now2 rid ok)).1 [] := by
  simp only [step, stepTickRace]
  cases hg : s.aggs[r]? with
  | none => exact h
  | some g =>
    simp only
    split
    · exact h
    · have hgm : g ∈ s.aggs := List.mem_of_getElem? hg
      have hgG := goodB_of_agg h hgm
      -- the two advances: every bucket that comes out is an old bucket of g.recent or has no contributors
      have hadv1 : ∀ x, x ∈ (advance g.recent now1 s.shortWindow).1 ∨ x ∈ (advance g.recent now1 s.shortWindow).2 → GoodB s x := by
        intro x hx
        rcases advance_mem hx with h1 | h1
        · exact hgG x (by simp [h1])
        · exact goodB_empty h1
      generalize advance g.recent now1 s.shortWindow = adv1 at hadv1 ⊢
      have hadv2 : ∀ x, x ∈ (advance adv1.2 now2 s.shortWindow).1 ∨ x ∈ (advance adv1.2 now2 s.shortWindow).2 → GoodB s x := by
        intro x hx
        rcases advance_mem hx with h1 | h1
        · exact hadv1 x (Or.inr h1)
        · exact goodB_empty h1
      generalize advance adv1.2 now2 s.shortWindow = adv2 at hadv2 ⊢
      have hg2 : ∀ y ∈ ({ g with recent := adv2.2 } : Agg).recent ++ ({ g with recent := adv2.2 } : Agg).historic, GoodB s y := by
        intro y hy
        simp only [List.mem_append] at hy
        rcases hy with hy | hy
        · exact hadv2 y (Or.inr hy)
        · exact hgG y (by simp [hy])
      have ar := raceArrive_ok (r := r) (rid := rid) h hg2
      generalize (raceArrive (setAgg s r { g with recent := adv2.2 }) r { g with recent := adv2.2 } rid) = a at ar ⊢
      cases hg3 : a.1.aggs[r]? with
      | none => exact h
      | some g3 =>
        simp only
        have hg3m : g3 ∈ a.1.aggs := List.mem_of_getElem? hg3
        have hg3G := ar.aggs g3 hg3m
        have hBIh : ∀ x ∈ g3.historic, BI x := fun x hx => (hg3G x (by simp [hx])).2
        -- the accumulator of all inserter iterations
        have hacc : ∃ src, (∀ x ∈ src, GoodB s x) ∧ AccOk s src g3.historic
            (raceAcc r (!(g.historic.isEmpty || insertHistoricWhen == 0)) (headTime adv1.2) (headTime adv2.2) s.aggWindow ok
              adv1.1 adv2.1 g3.historic) := by
          unfold raceAcc
          have hsrc1 : ∀ x ∈ fromFirstOurs r adv1.1, GoodB s x := fun x hx => hadv1 x (Or.inl (fromFirstOurs_mem hx))
          have h0 : AccOk s [] g3.historic { historic := g3.historic, resps := [], inserted := [], rejected := [], evs := [] } :=
            ⟨fun x hx => hx, fun a ha => by simp at ha, fun a ha => by simp at ha⟩
          cases hff : fromFirstOurs r adv1.1 with
          | nil =>
            exact ⟨[] ++ adv2.1, fun x hx => hadv2 x (Or.inl (by simpa using hx)),
              accOk_ticks h0 (fun x hx => (hadv2 x (Or.inl hx)).2) hBIh⟩
          | cons b rest =>
            rw [hff] at hsrc1
            refine ⟨[b] ++ (rest ++ adv2.1), ?_, accOk_ticks (accOk_one (hsrc1 b (by simp)).2 hBIh) ?_ hBIh⟩
            · intro x hx
              simp only [List.mem_append, List.mem_singleton] at hx
              rcases hx with rfl | hx | hx
              · exact hsrc1 x (by simp)
              · exact hsrc1 x (by simp [hx])
              · exact hadv2 x (Or.inl hx)
            · intro x hx
              simp only [List.mem_append] at hx
              rcases hx with hx | hx
              · exact (hsrc1 x (by simp [hx])).2
              · exact (hadv2 x (Or.inl hx)).2
        obtain ⟨src, hsrc, hok⟩ := hacc
        generalize (raceAcc r (!(g.historic.isEmpty || insertHistoricWhen == 0)) (headTime adv1.2) (headTime adv2.2) s.aggWindow ok
              adv1.1 adv2.1 g3.historic) = acc at hok ⊢
        have hsrcG : ∀ x ∈ src ++ g3.historic, GoodB s x := by
          intro x hx
          simp only [List.mem_append] at hx
          rcases hx with hx | hx
          · exact hsrc x hx
          · exact hg3G x (by simp [hx])
        refine h.step (fun t ht => ?_) (fun hA => by rw [show (setAgg a.1 r { g3 with historic := acc.historic }).ag = s.ag from ar.ag]; exact Keeps.refl hA)
          (by show s.nextRid ≤ a.1.nextRid; rw [ar.next]; exact Nat.le_refl _) ⟨0, ?_⟩ ?_ ?_ (fun t ht => Or.inl (by have : t ∈ a.1.flushed := ht; rw [ar.flushed] at this; exact this))
        · -- P grows
          simp only [P, setAgg, List.mem_append] at ht ⊢
          rcases ht with ht | ht
          · exact Or.inl (Or.inl (by rw [ar.inserted]; exact ht))
          · exact Or.inr (Or.inl (ar.rejected t ht))
        · -- request tags
          intro p hp; left
          simp only [ridTags, List.mem_append] at hp
          rcases hp with ((hp | hp) | hp) | hp
          · have : p ∈ a.1.ag.flights.map (fun f => (f.rid, f.cbd.sec)) := hp
            rw [ar.ag] at this
            simp only [ridTags, List.mem_append]; exact Or.inl (Or.inl (Or.inl this))
          · have : p ∈ a.1.reqs.map (fun q => (q.rid, q.sec)) := hp
            simp only [List.mem_map] at this
            obtain ⟨q, hq, rfl⟩ := this
            simp only [ridTags, List.mem_append, List.mem_map]; exact Or.inl (Or.inl (Or.inr ⟨q, ar.reqs q hq, rfl⟩))
          · have : p ∈ (a.1.resps ++ acc.resps).map (fun a => (a.rid, a.sec)) := hp
            simp only [List.map_append, List.mem_append, List.mem_map] at this
            rcases this with ⟨x, hx, rfl⟩ | ⟨x, hx, rfl⟩
            · rcases ar.resps x hx with h1 | h1
              · simp only [ridTags, List.mem_append, List.mem_map]; exact Or.inl (Or.inr ⟨x, h1, rfl⟩)
              · exact h1.1
            · obtain ⟨y, hy, hpy⟩ := hok.tags x hx
              exact (hsrcG y hy).1 _ hpy
          · have hp' : p ∈ parked (setAgg a.1 r { g3 with historic := acc.historic }) := hp
            rcases mem_parked_setAgg hp' with hp' | hp'
            · simp only [parked, List.mem_flatMap] at hp'
              obtain ⟨g', hg', y, hy, hpy⟩ := hp'
              exact (ar.aggs g' hg' y hy).1 p hpy
            · simp only [List.mem_flatMap, List.mem_append] at hp'
              obtain ⟨y, hy, hpy⟩ := hp'
              rcases hy with hy | hy
              · exact (hg3G y (by simp [hy])).1 p hpy
              · exact (hg3G y (by simp [hok.hist y hy])).1 p hpy
        · -- answers on the wire are justified
          intro x hx
          have hx' : x ∈ a.1.resps ++ acc.resps := hx
          simp only [List.mem_append] at hx'
          rcases hx' with hx' | hx'
          · rcases ar.resps x hx' with h1 | h1
            · exact Or.inl h1
            · right; intro hd he
              simp only [P, setAgg, List.mem_append]
              exact Or.inr (Or.inl (h1.2 hd he))
          · right; intro hd he
            simp only [P, setAgg, List.mem_append]
            rcases hok.just x hx' hd he with h1 | h1
            · exact Or.inl (Or.inr h1)
            · exact Or.inr (Or.inr h1)
        · -- buckets
          intro g' hg'
          have hg'' : g' ∈ (a.1.aggs.set r { g3 with historic := acc.historic }) := hg'
          rcases List.mem_or_eq_of_mem_set hg'' with h1 | rfl
          · exact fun y hy => (ar.aggs g' h1 y hy).2
          · intro y hy
            simp only [List.mem_append] at hy
            rcases hy with hy | hy
            · exact (hg3G y (by simp [hy])).2
            · exact (hg3G y (by simp [hok.hist y hy])).2

theorem raceArrive_frame (S : State) (r : Nat) (g : Agg) (rid : Nat) :
    (raceArrive S r g rid).1.ag = S.ag ∧ (raceArrive S r g rid).1.flushed = S.flushed := by
  unfold raceArrive
  split
  · exact ⟨rfl, rfl⟩
  · split
    · unfold recvHandle; (repeat' split) <;> exact ⟨rfl, rfl⟩
    · exact ⟨rfl, rfl⟩

theorem tickRace_frame (s : State) (r now1 now2 rid : Nat) (ok : Bool) :
    (step s (.tickRace r now1 now2 rid ok)).1.ag = s.ag ∧ (step s (.tickRace r now1 now2 rid ok)).1.flushed = s.flushed := by
  simp only [step, stepTickRace]
  split
  · exact ⟨rfl, rfl⟩
  · split
    · exact ⟨rfl, rfl⟩
    · split
      · exact ⟨rfl, rfl⟩
      · exact raceArrive_frame _ _ _ _

end SH.Delivery
