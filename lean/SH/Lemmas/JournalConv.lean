/-
  SH.Lemmas.JournalConv — one hop of the metadata chain: an upstream journal `U` that only grows (events with
  increasing versions are added: the source, or any journal that is not rolled back) and a replica `R` (compact or not)
  with its journal file, under ANY schedule of
      upAdd      a new upstream event
      deliver    diff with any item / byte limits, cut anywhere, transported, applied with `applyUpdate`
      save       `Save()`
      restart    truncate the file at any byte offset, `load` into a fresh journal
  The invariant `Conv` ("R holds, for every upstream entry up to R's loaderVersion, the stored form of exactly that
  content; R holds nothing the upstream does not know") is preserved by every op (`stepW_inv`), hence by every
  schedule (`runW_inv`); when R's loaderVersion reaches the upstream version the two journals hold the same entities
  with contents related by `storedAs` (transport, then compaction for compact replicas) (`synced_contents`).
-/
import SH.Lemmas.Journal

namespace SH.C20
open SH.Journal

/-! ### membership after add / addAll -/

theorem mem_add (j j' : J) (e x : Entry) (h : add j e = some j') :
    x ∈ j'.entries ↔ (x = e ∨ (x ∈ j.entries ∧ sameKey e x = false)) := by
  unfold add at h
  split at h
  · simp at h
  · injection h with h; subst h
    simp only [List.mem_append, List.mem_filter, List.mem_singleton]
    constructor
    · rintro (⟨a, b⟩ | a)
      · right; exact ⟨a, by simpa using b⟩
      · left; exact a
    · rintro (a | ⟨a, b⟩)
      · right; exact a
      · left; exact ⟨a, by simp [b]⟩

theorem mem_addAll : ∀ (es : List Entry) (j j' : J) (x : Entry), addAll j es = some j' →
    (x ∈ j'.entries → x ∈ es ∨ x ∈ j.entries) ∧
    (x ∈ j.entries → (∀ e ∈ es, sameKey e x = false) → x ∈ j'.entries) ∧
    (x ∈ es → es.Pairwise (fun a b => sameKey b a = false) → x ∈ j'.entries) := by
  intro es
  induction es with
  | nil => intro j j' x h; simp [addAll] at h; subst h; simp
  | cons e r ih =>
    intro j j' x h
    simp only [addAll] at h
    split at h
    · rename_i j1 h1
      obtain ⟨i1, i2, i3⟩ := ih j1 j' x h
      have hm := mem_add j j1 e x h1
      refine ⟨?_, ?_, ?_⟩
      · intro hx
        rcases i1 hx with a | a
        · left; exact List.mem_cons_of_mem _ a
        · rcases hm.mp a with rfl | ⟨b, _⟩
          · left; simp
          · right; exact b
      · intro hx hall
        exact i2 (hm.mpr (Or.inr ⟨hx, hall e (by simp)⟩)) (fun e' he' => hall e' (List.mem_cons_of_mem _ he'))
      · intro hx hp
        obtain ⟨hp1, hp2⟩ := List.pairwise_cons.mp hp
        rcases List.mem_cons.mp hx with rfl | hx
        · exact i2 (hm.mpr (Or.inl rfl)) (fun e' he' => hp1 e' he')
        · exact i3 hx hp2
    · simp at h

/-! ### tables, well-formed entries -/

/-- what a replica stores for upstream content `k`: the transported content, compacted when the replica is compact -/
def storedAs (tab : Nat → Content) (c : Bool) (k : Nat) : Option Nat :=
  if c then (tab (tab k).t).c else some (tab k).t

/-- properties of the observed functions (transport `t`, compaction `c`) the convergence argument relies on:
    they keep the entity (type, id); whether compaction discards depends on the entity only; sizes are positive.
    One more assumption is built into the *type* of `tab` rather than being a field: `t` and `c` are FUNCTIONS of the
    content — compacting / transporting the same event always gives the same event. `synced_same_hash` and
    `replicas_same_hash` depend on it (two replicas store `storedAs tab c k` for the same `k`). It is a fact about the Go
    code (e.g. `compactJournalEvent` must serialise the `tags_draft` map in a fixed order), checked by cmd/verif-c20 on the
    real functions for every generated content (oracles `compaction-not-deterministic`, `transport-not-deterministic`,
    `stored-content-unpredicted`), together with the fields below (`table-assumption-violated`). -/
structure TabOK (tab : Nat → Content) (c : Bool) : Prop where
  key : ∀ k f, storedAs tab c k = some f → (tab f).typ = (tab k).typ ∧ (tab f).id = (tab k).id
  tkey : ∀ k, (tab (tab k).t).typ = (tab k).typ ∧ (tab (tab k).t).id = (tab k).id
  drop : ∀ k k', (tab k).typ = (tab k').typ → (tab k).id = (tab k').id →
    (storedAs tab c k = none ↔ storedAs tab c k' = none)
  sz : ∀ k, 0 < (tab k).sz

/-- entries are built by `mkEntry` (true of everything the model ever stores) -/
def WF (tab : Nat → Content) (es : List Entry) : Prop := ∀ e ∈ es, e = mkEntry tab e.ver e.k

theorem wf_key (tab : Nat → Content) (e : Entry) (h : e = mkEntry tab e.ver e.k) :
    e.typ = (tab e.k).typ ∧ e.id = (tab e.k).id ∧ e.sz = (tab e.k).sz ∧ e.hash = (tab e.k).hash := by
  rw [h]; simp [mkEntry]

theorem sameKey_trans (a b c : Entry) (h1 : sameKey a b = true) (h2 : sameKey b c = true) : sameKey a c = true := by
  rw [sameKey_iff] at *; exact ⟨h1.1.trans h2.1, h1.2.trans h2.2⟩

theorem sameKey_refl (a : Entry) : sameKey a a = true := by rw [sameKey_iff]; exact ⟨rfl, rfl⟩

/-- in a journal with one entry per entity, two entries of the same entity are the same entry -/
theorem unique_of_sameKey (es : List Entry) (hk : KeysUnique es) (a b : Entry) (ha : a ∈ es) (hb : b ∈ es)
    (h : sameKey a b = true) : a = b := by
  induction es with
  | nil => simp at ha
  | cons x r ih =>
    obtain ⟨hx, hr⟩ := List.pairwise_cons.mp hk
    rcases List.mem_cons.mp ha with rfl | ha' <;> rcases List.mem_cons.mp hb with rfl | hb'
    · rfl
    · have := hx b hb'; rw [h] at this; simp at this
    · have := hx a ha'; rw [sameKey_symm, h] at this; simp at this
    · exact ih hr ha' hb'


/-! ### the journal invariant, extended -/

/-- `JInv` plus: versions are positive and currentVersion is the version of some entry (0 for the empty journal) -/
structure JX (j : J) : Prop where
  inv : JInv j
  pos : ∀ e ∈ j.entries, 0 < e.ver
  last : (j.entries = [] ∧ j.cur = 0) ∨ (∃ e ∈ j.entries, e.ver = j.cur)

theorem JX.cur_nonneg {j : J} (h : JX j) : 0 ≤ j.cur := by
  rcases h.last with ⟨_, h0⟩ | ⟨e, he, hv⟩
  · omega
  · have := h.pos e he; omega

theorem jx_empty (c : Bool) : JX { compact := c } :=
  ⟨jinv_empty c, by intro e he; simp at he, Or.inl ⟨rfl, rfl⟩⟩

theorem add_jx (j j' : J) (e : Entry) (hi : JX j) (h : add j e = some j') : JX j' := by
  obtain ⟨i1, c1, l1, _, m1⟩ := add_inv j j' e hi.inv h
  refine ⟨i1, ?_, Or.inr ⟨e, m1, c1.symm⟩⟩
  intro x hx
  rcases (mem_add j j' e x h).mp hx with rfl | ⟨a, _⟩
  · have := hi.cur_nonneg; omega
  · exact hi.pos x a

theorem addAll_jx : ∀ (es : List Entry) (j j' : J), JX j → addAll j es = some j' → JX j' := by
  intro es
  induction es with
  | nil => intro j j' hi h; simp [addAll] at h; subst h; exact hi
  | cons e r ih =>
    intro j j' hi h
    simp only [addAll] at h
    split at h
    · rename_i j1 h1; exact ih j1 j' (add_jx j j1 e hi h1) h
    · simp at h

/-- fields other than entries/hash/cur do not matter for JX -/
theorem jx_congr (j j' : J) (h : JX j) (he : j'.entries = j.entries) (hh : j'.hash = j.hash) (hc : j'.cur = j.cur) : JX j' :=
  ⟨⟨by rw [he]; exact h.inv.keys, by rw [hh, he]; exact h.inv.hash, by rw [he]; exact h.inv.sorted,
    by rw [he, hc]; exact h.inv.bound⟩, by rw [he]; exact h.pos, by rw [he, hc]; exact h.last⟩

/-! ### the convergence invariant of one hop -/

structure Conv (tab : Nat → Content) (R U : J) : Prop where
  /-- complete up to loaderVersion: every upstream entry up to R's loaderVersion is held in its stored form (with a
      version that is not newer — compaction keeps the old version when the stored form did not change) -/
  c1 : ∀ u ∈ U.entries, u.ver ≤ R.lv → ∀ f, storedAs tab R.compact u.k = some f →
        ∃ r ∈ R.entries, sameKey r u = true ∧ r.k = f ∧ r.ver ≤ u.ver ∧ (R.compact = false → r.ver = u.ver)
  /-- nothing invented: every entry of R belongs to an entity the upstream holds and does not discard -/
  c2 : ∀ r ∈ R.entries, ∃ u ∈ U.entries, sameKey r u = true ∧ storedAs tab R.compact u.k ≠ none
  c3 : R.cur ≤ R.lv ∧ R.lv ≤ U.cur
  wfR : WF tab R.entries
  wfU : WF tab U.entries

theorem conv_empty (tab : Nat → Content) (c : Bool) (U : J) (hU : JX U) (hw : WF tab U.entries) :
    Conv tab { compact := c } U :=
  ⟨by intro u hu hle; have := hU.pos u hu; simp at hle; omega, by intro r hr; simp at hr,
   ⟨Int.le_refl _, hU.cur_nonneg⟩, by intro e he; simp at he, hw⟩

/-- a new upstream event (version above everything so far) does not disturb the replica's invariant -/
theorem conv_upAdd (tab : Nat → Content) (R U U' : J) (v : Int) (k : Nat) (hT : TabOK tab R.compact)
    (hc : Conv tab R U) (h : add U (mkEntry tab v k) = some U') (hU : JX U) : Conv tab R U' := by
  obtain ⟨_, c1, l1, _, _⟩ := add_inv U U' _ hU.inv h
  have hm := fun x => mem_add U U' (mkEntry tab v k) x h
  refine ⟨?_, ?_, ⟨hc.c3.1, ?_⟩, hc.wfR, ?_⟩
  · intro u hu hle f hf
    rcases (hm u).mp hu with rfl | ⟨a, _⟩
    · exfalso; have := hc.c3.2; omega
    · exact hc.c1 u a hle f hf
  · intro r hr
    obtain ⟨u, hu, hs, hn⟩ := hc.c2 r hr
    by_cases hk : sameKey (mkEntry tab v k) u = true
    · refine ⟨mkEntry tab v k, (hm _).mpr (Or.inl rfl), ?_, ?_⟩
      · rw [sameKey_symm] at hk; exact sameKey_trans _ _ _ hs hk
      · intro hnone
        apply hn
        have hw := wf_key tab u (hc.wfU u hu)
        rw [sameKey_iff] at hk
        have e1 : (tab k).typ = (tab u.k).typ := by rw [← hw.1]; exact hk.1
        have e2 : (tab k).id = (tab u.k).id := by rw [← hw.2.1]; exact hk.2
        exact (hT.drop k u.k e1 e2).mp hnone
    · exact ⟨u, (hm u).mpr (Or.inr ⟨hu, by simpa using hk⟩), hs, hn⟩
  · have := hc.c3.2; rw [c1]; simp [mkEntry] at l1 ⊢; omega
  · intro x hx
    rcases (hm x).mp hx with rfl | ⟨a, _⟩
    · rfl
    · exact hc.wfU x a

/-! ### delivery -/

theorem lastVer_default : ∀ (p : List Entry) (d d' : Int), p ≠ [] → lastVer p d = lastVer p d' := by
  intro p
  induction p with
  | nil => intro d d' h; exact absurd rfl h
  | cons e r ih =>
    intro d d' _
    cases r with
    | nil => rfl
    | cons e2 r2 => simp only [lastVer]; exact ih d d' (by simp)

theorem lastVer_transport (tab : Nat → Content) : ∀ (q : List Entry) (d : Int),
    lastVer (transport tab q) d = lastVer q d := by
  intro q
  induction q with
  | nil => intro d; rfl
  | cons e r ih =>
    intro d
    cases r with
    | nil => simp [transport, lastVer, mkEntry]
    | cons e2 r2 =>
      have := ih d
      simp only [transport, List.map_cons, lastVer] at this ⊢
      exact this

theorem lastVer_max : ∀ (q : List Entry) (d : Int), q.Pairwise (fun a b => a.ver < b.ver) →
    ∀ u ∈ q, u.ver ≤ lastVer q d := by
  intro q
  induction q with
  | nil => intro d _ u hu; simp at hu
  | cons e r ih =>
    intro d hp u hu
    obtain ⟨h1, h2⟩ := List.pairwise_cons.mp hp
    cases r with
    | nil => simp at hu; subst hu; simp [lastVer]
    | cons e2 r2 =>
      simp only [lastVer]
      rcases List.mem_cons.mp hu with rfl | hu'
      · have a := h1 e2 (by simp)
        have b := ih d h2 e2 (by simp)
        omega
      · exact ih d h2 u hu'

/-- everything `applyUpdate` keeps comes from a delivered upstream entry and is its stored form -/
theorem kept_sound (tab : Nat → Content) (R : J) (q : List Entry) (x : Entry)
    (hx : x ∈ keptOf tab R (transport tab q)) :
    ∃ u ∈ q, ∃ f, storedAs tab R.compact u.k = some f ∧ x = mkEntry tab u.ver f := by
  unfold keptOf at hx
  split at hx
  · rename_i hc
    simp only [compactFilter, List.mem_filterMap] at hx
    obtain ⟨t, ht, hco⟩ := hx
    simp only [transport, List.mem_map] at ht
    obtain ⟨u, hu, rfl⟩ := ht
    unfold compactOne at hco
    split at hco
    · simp at hco
    · rename_i f hf
      have hst : storedAs tab R.compact u.k = some f := by simp [storedAs, hc]; simpa [mkEntry] using hf
      refine ⟨u, hu, f, hst, ?_⟩
      simp only [mkEntry] at hco ⊢
      split at hco
      · rename_i old _
        by_cases hk : old.k = f
        · simp [hk] at hco
        · simp [hk] at hco; exact hco.symm
      · injection hco with hco; exact hco.symm
  · rename_i hc
    simp only [transport, List.mem_map] at hx
    obtain ⟨u, hu, rfl⟩ := hx
    exact ⟨u, hu, (tab u.k).t, by simp [storedAs, hc], rfl⟩

/-- every delivered entry that is not discarded is either kept in its stored form or skipped because the replica
    already holds exactly that stored form for the entity -/
theorem kept_complete (tab : Nat → Content) (R : J) (q : List Entry) (u : Entry) (hu : u ∈ q) (f : Nat)
    (hf : storedAs tab R.compact u.k = some f) :
    mkEntry tab u.ver f ∈ keptOf tab R (transport tab q) ∨
    (R.compact = true ∧ ∃ old ∈ R.entries, sameKey (mkEntry tab u.ver f) old = true ∧ old.k = f) := by
  unfold keptOf
  split
  · rename_i hc
    have hf' : (tab (tab u.k).t).c = some f := by simpa [storedAs, hc] using hf
    have ht : mkEntry tab u.ver (tab u.k).t ∈ transport tab q := by
      simp only [transport, List.mem_map]; exact ⟨u, hu, rfl⟩
    cases hfk : findKey R.entries (mkEntry tab u.ver f) with
    | none =>
      left
      simp only [compactFilter, List.mem_filterMap]
      refine ⟨_, ht, ?_⟩
      simp [compactOne, mkEntry, hf'] at hfk ⊢
      simp [hfk]
    | some old =>
      have hmem : old ∈ R.entries := List.mem_of_find?_eq_some hfk
      have hsk : sameKey (mkEntry tab u.ver f) old = true := List.find?_some hfk
      by_cases hk : old.k = f
      · right; exact ⟨hc, old, hmem, hsk, hk⟩
      · left
        simp only [compactFilter, List.mem_filterMap]
        refine ⟨_, ht, ?_⟩
        simp [compactOne, mkEntry, hf'] at hfk ⊢
        simp [hfk, hk]
  · rename_i hc
    left
    have : f = (tab u.k).t := by simpa [storedAs, hc] using hf.symm
    subst this
    simp only [transport, List.mem_map]; exact ⟨u, hu, rfl⟩


theorem diff_sublist (j : J) (from_ : Int) (mi mb : Nat) : (diff j from_ mi mb).Sublist j.entries := by
  unfold diff
  split
  · exact List.nil_sublist _
  · exact (takeLim_prefix _ _ _ _ _).sublist.trans List.filter_sublist

/-- a kept entry belongs to the entity of the upstream entry it comes from -/
theorem stored_sameKey (tab : Nat → Content) (c : Bool) (hT : TabOK tab c) (u : Entry) (hu : u = mkEntry tab u.ver u.k)
    (f : Nat) (hf : storedAs tab c u.k = some f) (v : Int) : sameKey (mkEntry tab v f) u = true := by
  have hw := wf_key tab u hu
  have hk := hT.key u.k f hf
  rw [sameKey_iff]
  simp only [mkEntry]
  exact ⟨hk.1.trans hw.1.symm, hk.2.trans hw.2.1.symm⟩

/-- C20 (one delivery, any limits, any cut, compact or not): the convergence invariant is preserved and the replica's
    loaderVersion moves to the last delivered version. -/
theorem conv_deliver (tab : Nat → Content) (R R' U : J) (applied : List Entry) (mi mb cut : Nat)
    (hT : TabOK tab R.compact) (hc : Conv tab R U) (hR : JX R) (hU : JX U)
    (h : applyUpdate tab R ((transport tab (diff U R.lv mi mb)).take cut) U.cur = some (R', applied)) :
    Conv tab R' U ∧ JX R' ∧ R'.compact = R.compact := by
  have hq : (transport tab (diff U R.lv mi mb)).take cut = transport tab ((diff U R.lv mi mb).take cut) := by
    simp [transport, List.map_take]
  rw [hq] at h
  generalize hqd : (diff U R.lv mi mb).take cut = q at h
  have hdel := delivery_never_skips U hU.inv.sorted R.lv mi mb cut
  simp only [hqd] at hdel
  obtain ⟨D1, D2, _⟩ := hdel
  have hqsub : q.Sublist U.entries := by rw [← hqd]; exact (List.take_sublist _ _).trans (diff_sublist _ _ _ _)
  have hqsorted : q.Pairwise (fun a b => a.ver < b.ver) := hU.inv.sorted.sublist hqsub
  by_cases hne : q = []
  · subst hne
    simp [applyUpdate, transport] at h
    obtain ⟨rfl, _⟩ := h
    exact ⟨hc, hR, rfl⟩
  · have hsrc : (transport tab q).isEmpty = false := by
      cases q with
      | nil => exact absurd rfl hne
      | cons a b => simp [transport]
    unfold applyUpdate at h
    rw [hsrc] at h
    simp only [Bool.false_eq_true, if_false] at h
    split at h
    · simp at h
    · rename_i j1 h1
      injection h with h; injection h with h2 _; subst h2
      obtain ⟨_, hcur1, hall1, hsorted1, hcomp1⟩ := addAll_inv _ R j1 hR.inv h1
      have hjx1 : JX j1 := addAll_jx _ R j1 hR h1
      -- the new loaderVersion
      have hL : lastVer (transport tab q) 0 = lastVer q R.lv := by
        rw [lastVer_transport]; exact lastVer_default q 0 R.lv hne
      -- facts about kept entries
      have ksound := fun x hx => kept_sound tab R q x hx
      have kkey : ∀ x ∈ keptOf tab R (transport tab q), ∃ u ∈ q, sameKey x u = true ∧ x.ver = u.ver ∧
          ∃ f, storedAs tab R.compact u.k = some f ∧ x = mkEntry tab u.ver f := by
        intro x hx
        obtain ⟨u, hu, f, hf, rfl⟩ := ksound x hx
        exact ⟨u, hu, stored_sameKey tab _ hT u (hc.wfU u (D2 u hu).1) f hf u.ver, rfl, f, hf, rfl⟩
      have kdistinct : (keptOf tab R (transport tab q)).Pairwise (fun a b => sameKey b a = false) := by
        refine hsorted1.imp_of_mem ?_
        intro a b ha hb hlt
        obtain ⟨ua, hua, ka, va, _⟩ := kkey a ha
        obtain ⟨ub, hub, kb, vb, _⟩ := kkey b hb
        by_cases hs : sameKey b a = true
        · exfalso
          have h3 : sameKey ub ua = true := by
            have := sameKey_trans _ _ _ (by rw [sameKey_symm]; exact kb) (sameKey_trans _ _ _ hs ka)
            exact this
          have := unique_of_sameKey U.entries hU.inv.keys ub ua (D2 ub hub).1 (D2 ua hua).1 h3
          rw [this] at vb; omega
        · simpa using hs
      have hmem := fun x => mem_addAll _ R j1 x h1
      have hmax := lastVer_max q R.lv hqsorted
      refine ⟨⟨?_, ?_, ⟨?_, ?_⟩, ?_, hc.wfU⟩, ?_, hcomp1⟩
      · -- c1
        intro u hu hle f hf
        simp only [hL] at hle
        simp only [hcomp1] at hf
        by_cases hold : u.ver ≤ R.lv
        · obtain ⟨r, hr, hs, hk, hv, hv2⟩ := hc.c1 u hu hold f hf
          refine ⟨r, (hmem r).2.1 hr ?_, hs, hk, hv, by simp only [hcomp1]; exact hv2⟩
          intro e he
          obtain ⟨u', hu', ke, _, _⟩ := kkey e he
          by_cases hse : sameKey e r = true
          · exfalso
            have h3 : sameKey u' u = true :=
              sameKey_trans _ _ _ (by rw [sameKey_symm]; exact ke) (sameKey_trans _ _ _ hse hs)
            have := unique_of_sameKey U.entries hU.inv.keys u' u (D2 u' hu').1 hu h3
            have := (D2 u' hu').2
            subst_vars; omega
          · simpa using hse
        · have huq : u ∈ q := D1 hne u hu (by omega) hle
          by_cases hk : mkEntry tab u.ver f ∈ keptOf tab R (transport tab q)
          · exact ⟨_, (hmem _).2.2 hk kdistinct, stored_sameKey tab _ hT u (hc.wfU u hu) f hf u.ver, rfl, Int.le_refl _,
              fun _ => rfl⟩
          · rcases kept_complete tab R q u huq f hf with hin | ⟨hcomp, old, hold', hso, hko⟩
            · exact absurd hin hk
            · have hso' : sameKey old u = true :=
                sameKey_trans _ _ _ (by rw [sameKey_symm]; exact hso) (stored_sameKey tab _ hT u (hc.wfU u hu) f hf u.ver)
              refine ⟨old, (hmem old).2.1 hold' ?_, hso', hko, ?_, by simp only [hcomp1, hcomp]; intro h; cases h⟩
              · intro e he
                obtain ⟨u', hu', ke, _, f', hf', rfl⟩ := kkey e he
                by_cases hse : sameKey (mkEntry tab u'.ver f') old = true
                · exfalso
                  have h3 : sameKey u' u = true :=
                    sameKey_trans _ _ _ (by rw [sameKey_symm]; exact ke) (sameKey_trans _ _ _ hse hso')
                  have heq := unique_of_sameKey U.entries hU.inv.keys u' u (D2 u' hu').1 hu h3
                  subst heq
                  rw [hf] at hf'; injection hf' with hf'; subst hf'
                  exact hk he
                · simpa using hse
              · have := hR.inv.bound old hold'; have := hc.c3.1; omega
      · -- c2
        intro r hr
        rcases (hmem r).1 hr with hk | hold
        · obtain ⟨u, hu, ks, _, f, hf, _⟩ := kkey r hk
          exact ⟨u, (D2 u hu).1, ks, by simp only [hcomp1]; rw [hf]; simp⟩
        · obtain ⟨u, hu, hs, hn⟩ := hc.c2 r hold
          exact ⟨u, hu, hs, by simp only [hcomp1]; exact hn⟩
      · -- cur ≤ lv
        simp only [hL]
        obtain ⟨x, hxq⟩ := List.exists_mem_of_ne_nil q hne
        have hx1 := hmax x hxq
        have hx2 := (D2 x hxq).2
        rcases hjx1.last with ⟨_, h0⟩ | ⟨e, he, hv⟩
        · have := hR.cur_nonneg; have := hc.c3.1; omega
        · rcases (hmem e).1 he with hk | hold
          · obtain ⟨u, hu, _, hvu, _⟩ := kkey e hk
            have := hmax u hu; omega
          · have := hR.inv.bound e hold; have := hc.c3.1; omega
      · -- lv ≤ upstream version
        simp only [hL]
        obtain ⟨x, hx, hv⟩ := lastVer_mem q R.lv hne
        have := hU.inv.bound x (D2 x hx).1; omega
      · -- well-formed
        intro x hx
        rcases (hmem x).1 hx with hk | hold
        · obtain ⟨u, _, f, _, rfl⟩ := ksound x hk; rfl
        · exact hc.wfR x hold
      · exact jx_congr j1 _ hjx1 rfl rfl rfl


/-! ### save, truncation, reload -/

theorem packChunks_flatten : ∀ (es : List Entry) (body : Nat) (acc : List Entry), (body = 0 → acc = []) →
    (∀ e ∈ es, 0 < e.sz) → ((packChunks es body acc).map (·.evs)).flatten = acc.reverse ++ es := by
  intro es
  induction es with
  | nil =>
    intro body acc h0 _
    simp only [packChunks]
    split
    · rename_i hb; simp [h0 hb]
    · simp
  | cons e r ih =>
    intro body acc _ hsz
    simp only [packChunks]
    split
    · have := ih 0 [] (fun _ => rfl) (fun x hx => hsz x (List.mem_cons_of_mem _ hx))
      simp [this]
    · have hpos := hsz e (by simp)
      have := ih (body + e.sz) (e :: acc) (by intro hb; omega) (fun x hx => hsz x (List.mem_cons_of_mem _ hx))
      simp [this]

theorem flatten_prefix (p l : List Chunk) (h : p <+: l) :
    (p.map (·.evs)).flatten <+: (l.map (·.evs)).flatten := by
  obtain ⟨t, rfl⟩ := h
  simp

/-- in an ascending list, a prefix that contains `e` contains everything not above `e` -/
theorem prefix_mem_le (l p : List Entry) (hp : p <+: l) (hs : l.Pairwise (fun a b => a.ver < b.ver))
    (e : Entry) (he : e ∈ p) (x : Entry) (hx : x ∈ l) (hle : x.ver ≤ e.ver) : x ∈ p := by
  obtain ⟨t, rfl⟩ := hp
  rcases List.mem_append.mp hx with h | h
  · exact h
  · exfalso
    have := (List.pairwise_append.mp hs).2.2 e he x h
    omega

theorem addAll_compact : ∀ (es : List Entry) (j j' : J), addAll j es = some j' → j'.compact = j.compact := by
  intro es
  induction es with
  | nil => intro j j' h; simp [addAll] at h; subst h; rfl
  | cons e r ih =>
    intro j j' h
    simp only [addAll] at h
    split at h
    · rename_i j1 h1
      have : j1.compact = j.compact := by
        unfold add at h1; split at h1
        · simp at h1
        · injection h1 with h1; subst h1; rfl
      exact (ih j1 j' h).trans this
    · simp at h

theorem mem_loadChunks : ∀ (cs : List Chunk) (j j' : J) (bs : List (List Entry)) (x : Entry),
    loadChunks j cs = some (j', bs) →
    (x ∈ j'.entries → x ∈ (cs.map (·.evs)).flatten ∨ x ∈ j.entries) ∧
    (x ∈ j.entries → (∀ e ∈ (cs.map (·.evs)).flatten, sameKey e x = false) → x ∈ j'.entries) ∧
    (x ∈ (cs.map (·.evs)).flatten → ((cs.map (·.evs)).flatten).Pairwise (fun a b => sameKey b a = false) →
        x ∈ j'.entries) ∧
    j'.compact = j.compact ∧ (JX j → JX j') := by
  intro cs
  induction cs with
  | nil => intro j j' bs x h; simp [loadChunks] at h; obtain ⟨rfl, rfl⟩ := h; simp
  | cons c r ih =>
    intro j j' bs x h
    simp only [loadChunks] at h
    split at h
    · simp at h
    · rename_i j1 h1
      split at h
      · simp at h
      · rename_i j2 bs2 h2
        injection h with h; injection h with h3 _; subst h3
        obtain ⟨a1, a2, a3⟩ := mem_addAll c.evs j j1 x h1
        obtain ⟨b1, b2, b3, b4, b5⟩ := ih j1 j2 bs2 x h2
        have hc1 := addAll_compact c.evs j j1 h1
        simp only [List.map_cons, List.flatten_cons, List.mem_append]
        refine ⟨?_, ?_, ?_, b4.trans hc1, fun hj => b5 (addAll_jx _ j j1 hj h1)⟩
        · intro hx
          rcases b1 hx with h | h
          · left; right; exact h
          · rcases a1 h with h | h
            · left; left; exact h
            · right; exact h
        · intro hx hall
          exact b2 (a2 hx (fun e he => hall e (Or.inl he))) (fun e he => hall e (Or.inr he))
        · intro hx hp
          obtain ⟨p1, p2, p3⟩ := List.pairwise_append.mp hp
          rcases hx with hx | hx
          · exact b2 (a3 hx p1) (fun e he => p3 x hx e he)
          · exact b3 hx p2

/-- the loaderVersion chosen by `load` -/
theorem load_lv_cases (f : File) (cur : Int) :
    ((if headerOk f cur then headerLv f else cur) = cur) ∨
    (f.chunks ≠ [] ∧ f.cur = cur ∧ cur ≤ f.lv ∧ (if headerOk f cur then headerLv f else cur) = f.lv) ∨
    (f.chunks = [] ∧ cur = 0) := by
  by_cases hok : headerOk f cur = true
  · rw [if_pos hok]
    unfold headerOk at hok
    unfold headerLv
    cases hcs : f.chunks with
    | nil => right; right; simp [hcs] at hok; exact ⟨rfl, hok⟩
    | cons a b =>
      right; left
      simp [hcs] at hok
      exact ⟨by simp, hok.1, hok.2, by simp⟩
  · rw [if_neg hok]; left; trivial

/-- the journal file holds (a prefix of) a snapshot of a journal that satisfied the invariant -/
def FileOK (tab : Nat → Content) (f : File) (c : Bool) (U : J) : Prop :=
  ∃ Rs : J, JX Rs ∧ Conv tab Rs U ∧ Rs.compact = c ∧ (f.chunks.map (·.evs)).flatten <+: Rs.entries ∧
    f.lv = Rs.lv ∧ f.cur = Rs.cur

theorem fileok_empty (tab : Nat → Content) (c : Bool) (U : J) (hU : JX U) (hw : WF tab U.entries) :
    FileOK tab {} c U :=
  ⟨{ compact := c }, jx_empty c, conv_empty tab c U hU hw, rfl, by simp, rfl, rfl⟩

theorem fileok_save (tab : Nat → Content) (hsz : ∀ k, 0 < (tab k).sz) (R U : J) (hR : JX R) (hc : Conv tab R U) :
    FileOK tab (saveFile R) R.compact U := by
  refine ⟨R, hR, hc, rfl, ?_, rfl, rfl⟩
  have : ∀ e ∈ R.entries, 0 < e.sz := by
    intro e he; rw [(wf_key tab e (hc.wfR e he)).2.2.1]; exact hsz _
  have := packChunks_flatten R.entries headerBytes [] (by simp [headerBytes]) this
  simp only [saveFile]
  rw [this]; simp

theorem fileok_truncate (tab : Nat → Content) (f : File) (c : Bool) (U : J) (keep : Nat) (h : FileOK tab f c U) :
    FileOK tab (truncate f keep) c U := by
  obtain ⟨Rs, a, b, d, e, g1, g2⟩ := h
  refine ⟨Rs, a, b, d, (flatten_prefix _ _ (truncate_keeps_prefix f keep)).trans e, ?_, ?_⟩
  · unfold truncate; split <;> exact g1
  · unfold truncate; split <;> exact g2

theorem fileok_upAdd (tab : Nat → Content) (f : File) (c : Bool) (U U' : J) (v : Int) (k : Nat) (hT : TabOK tab c)
    (hU : JX U) (h : FileOK tab f c U) (ha : add U (mkEntry tab v k) = some U') : FileOK tab f c U' := by
  obtain ⟨Rs, a, b, d, e, g1, g2⟩ := h
  exact ⟨Rs, a, conv_upAdd tab Rs U U' v k (by rw [d]; exact hT) b ha hU, d, e, g1, g2⟩

/-- C20 (restart from a possibly truncated file): the reloaded journal satisfies the convergence invariant again, with
    a loaderVersion that is not above what the file's journal had received. -/
theorem conv_load (tab : Nat → Content) (f : File) (c : Bool) (U R' : J) (bs : List (List Entry)) (err : Bool)
    (hf : FileOK tab f c U) (hl : load c f = some (R', bs, err)) :
    Conv tab R' U ∧ JX R' ∧ R'.compact = c := by
  obtain ⟨Rs, hRs, hconv, hcomp, hpre, hlv, hcur⟩ := hf
  unfold load at hl
  split at hl
  · simp at hl
  · rename_i j bs1 h1
    injection hl with hl; injection hl with h2 _; subst h2
    have hm := fun x => mem_loadChunks f.chunks { compact := c } j bs1 x h1
    have hjx : JX j := (hm (mkEntry tab 0 0)).2.2.2.2 (jx_empty c)
    have hjc : j.compact = c := (hm (mkEntry tab 0 0)).2.2.2.1
    have hkeys : ((f.chunks.map (·.evs)).flatten).Pairwise (fun a b => sameKey b a = false) := by
      refine (hRs.inv.keys.sublist hpre.sublist).imp ?_
      intro a b hab; rw [sameKey_symm]; exact hab
    have hin : ∀ x, x ∈ j.entries ↔ x ∈ (f.chunks.map (·.evs)).flatten := by
      intro x
      constructor
      · intro hx; rcases (hm x).1 hx with h | h
        · exact h
        · simp at h
      · intro hx; exact (hm x).2.2.1 hx hkeys
    -- everything of the snapshot up to the reloaded currentVersion was read back
    have hP : ∀ r ∈ Rs.entries, r.ver ≤ j.cur → r ∈ j.entries := by
      intro r hr hle
      rcases hjx.last with ⟨_, h0⟩ | ⟨e, he, hv⟩
      · have := hRs.pos r hr; omega
      · exact (hin r).mpr (prefix_mem_le _ _ hpre hRs.inv.sorted e ((hin e).mp he) r hr (by omega))
    have hcurle : j.cur ≤ Rs.cur := by
      rcases hjx.last with ⟨_, h0⟩ | ⟨e, he, hv⟩
      · have := hRs.cur_nonneg; omega
      · have := hRs.inv.bound e (hpre.subset ((hin e).mp he)); omega
    have hsub : ∀ x ∈ j.entries, x ∈ Rs.entries := fun x hx => hpre.subset ((hin x).mp hx)
    -- the three ways `load` picks the loaderVersion
    have key : ∀ lv : Int, (lv = j.cur ∨ (f.cur = j.cur ∧ j.cur ≤ f.lv ∧ lv = f.lv) ∨ (j.cur = 0 ∧ lv = 0)) →
        Conv tab { j with lv := lv, lk := j.cur, saved := 0 } U := by
      intro lv hcases
      have hle : lv ≤ Rs.lv ∧ j.cur ≤ lv ∧ (∀ r ∈ Rs.entries, r.ver ≤ lv → r ∈ j.entries) := by
        rcases hcases with rfl | ⟨a, b, rfl⟩ | ⟨a, rfl⟩
        · exact ⟨by have := hconv.c3.1; omega, Int.le_refl _, hP⟩
        · refine ⟨by omega, b, ?_⟩
          intro r hr _
          exact hP r hr (by have := hRs.inv.bound r hr; omega)
        · refine ⟨by have := hRs.cur_nonneg; have := hconv.c3.1; omega, by omega, ?_⟩
          intro r hr hle; have := hRs.pos r hr; omega
      refine ⟨?_, ?_, ⟨hle.2.1, by have := hconv.c3.2; simp only; omega⟩, fun x hx => hconv.wfR x (hsub x hx), hconv.wfU⟩
      · intro u hu hlu g hg
        simp only at hlu hg
        rw [hjc, ← hcomp] at hg
        obtain ⟨r, hr, hs, hk, hv, hv2⟩ := hconv.c1 u hu (by omega) g hg
        exact ⟨r, hle.2.2 r hr (by omega), hs, hk, hv, by simp only; rw [hjc, ← hcomp]; exact hv2⟩
      · intro r hr
        obtain ⟨u, hu, hs, hn⟩ := hconv.c2 r (hsub r hr)
        exact ⟨u, hu, hs, by simp only; rw [hjc, ← hcomp]; exact hn⟩
    refine ⟨?_, jx_congr j _ hjx rfl rfl rfl, hjc⟩
    apply key
    rcases load_lv_cases f j.cur with h | ⟨_, a, b, d⟩ | ⟨a, b⟩
    · left; exact h
    · right; left; exact ⟨a, b, d⟩
    · rcases load_lv_cases f j.cur with h | ⟨hne, _⟩ | _
      · left; exact h
      · exact absurd a hne
      · by_cases hok : headerOk f j.cur = true
        · right; right; refine ⟨b, ?_⟩; rw [if_pos hok]; simp [headerLv, a]
        · left; rw [if_neg hok]


/-! ### the whole hop: every schedule -/

inductive Op
  | upAdd (ver : Int) (k : Nat)              -- a new upstream event (content `k` at version `ver`)
  | deliver (items bytes cut : Nat)          -- diff with limits, cut, transport, applyUpdate
  | save                                     -- Save()
  | restart (keep : Nat)                     -- file = file[:keep]; load into a fresh journal
deriving DecidableEq, Repr

structure W where
  U : J := {}
  R : J := {}
  file : File := {}
deriving DecidableEq, Repr

/-- one op on (upstream, replica, replica's file); `none` = the Go code panics -/
def stepW (tab : Nat → Content) (w : W) : Op → Option W
  | .upAdd v k =>
    match add w.U (mkEntry tab v k) with
    | some U' => some { w with U := U' }
    | none => none
  | .deliver i b c =>
    match applyUpdate tab w.R ((transport tab (diff w.U w.R.lv i b)).take c) w.U.cur with
    | some p => some { w with R := p.1 }
    | none => none
  | .save => some { w with R := (save w.R w.file).1, file := (save w.R w.file).2.1 }
  | .restart keep =>
    match load w.R.compact (truncate w.file keep) with
    | some p => some { w with R := p.1, file := truncate w.file keep }
    | none => none

def runW (tab : Nat → Content) : W → List Op → Option W
  | w, [] => some w
  | w, op :: r =>
    match stepW tab w op with
    | some w' => runW tab w' r
    | none => none

structure WInv (tab : Nat → Content) (w : W) : Prop where
  jU : JX w.U
  jR : JX w.R
  conv : Conv tab w.R w.U
  file : FileOK tab w.file w.R.compact w.U

theorem winv_init (tab : Nat → Content) (c : Bool) : WInv tab { R := { compact := c } } :=
  ⟨jx_empty false, jx_empty c, conv_empty tab c _ (jx_empty false) (by intro e he; simp at he),
   fileok_empty tab c _ (jx_empty false) (by intro e he; simp at he)⟩

theorem stepW_inv (tab : Nat → Content) (w w' : W) (op : Op) (hT : TabOK tab w.R.compact) (hi : WInv tab w)
    (h : stepW tab w op = some w') : WInv tab w' ∧ w'.R.compact = w.R.compact := by
  cases op with
  | upAdd v k =>
    simp only [stepW] at h
    split at h
    · rename_i U' hU'
      injection h with h; subst h
      exact ⟨⟨add_jx _ _ _ hi.jU hU', hi.jR, conv_upAdd tab _ _ _ v k hT hi.conv hU' hi.jU,
        fileok_upAdd tab _ _ _ _ v k hT hi.jU hi.file hU'⟩, rfl⟩
    · simp at h
  | deliver i b c =>
    simp only [stepW] at h
    split at h
    · rename_i p hp
      injection h with h; subst h
      obtain ⟨a1, a2, a3⟩ := conv_deliver tab w.R p.1 w.U p.2 i b c hT hi.conv hi.jR hi.jU hp
      exact ⟨⟨hi.jU, a2, a1, by simp only [a3]; exact hi.file⟩, a3⟩
    · simp at h
  | save =>
    simp only [stepW] at h
    injection h with h; subst h
    unfold save
    split
    · exact ⟨hi, rfl⟩
    · refine ⟨⟨hi.jU, jx_congr _ _ hi.jR rfl rfl rfl, ⟨hi.conv.c1, hi.conv.c2, hi.conv.c3, hi.conv.wfR, hi.conv.wfU⟩, ?_⟩, rfl⟩
      exact fileok_save tab hT.sz w.R w.U hi.jR hi.conv
  | restart keep =>
    simp only [stepW] at h
    split at h
    · rename_i p hp
      injection h with h; subst h
      have hf := fileok_truncate tab w.file w.R.compact w.U keep hi.file
      obtain ⟨a1, a2, a3⟩ := conv_load tab _ _ w.U p.1 p.2.1 p.2.2 hf hp
      exact ⟨⟨hi.jU, a2, a1, by simp only [a3]; exact hf⟩, a3⟩
    · simp at h

theorem runW_inv (tab : Nat → Content) : ∀ (ops : List Op) (w w' : W), TabOK tab w.R.compact → WInv tab w →
    runW tab w ops = some w' → WInv tab w' ∧ w'.R.compact = w.R.compact := by
  intro ops
  induction ops with
  | nil => intro w w' _ hi h; simp [runW] at h; subst h; exact ⟨hi, rfl⟩
  | cons op r ih =>
    intro w w' hT hi h
    simp only [runW] at h
    split at h
    · rename_i w1 h1
      obtain ⟨i1, c1⟩ := stepW_inv tab w w1 op hT hi h1
      obtain ⟨i2, c2⟩ := ih w1 w' (by rw [c1]; exact hT) i1 h
      exact ⟨i2, c2.trans c1⟩
    · simp at h

/-- when the replica's loaderVersion has reached the upstream version, both hold the same entities and the replica's
    content of each is the stored form of the upstream's; for a non-compact replica also the versions are equal -/
theorem synced_contents (tab : Nat → Content) (R U : J) (hc : Conv tab R U) (hR : JX R) (hUj : JX U)
    (hs : U.cur ≤ R.lv) :
    (∀ u ∈ U.entries, ∀ f, storedAs tab R.compact u.k = some f →
        ∃ r ∈ R.entries, sameKey r u = true ∧ r.k = f ∧ r.ver ≤ u.ver ∧ (R.compact = false → r.ver = u.ver)) ∧
    (∀ r ∈ R.entries, ∃ u ∈ U.entries, sameKey r u = true ∧ storedAs tab R.compact u.k = some r.k) := by
  have hbound := hUj.inv.bound
  have first : ∀ u ∈ U.entries, ∀ f, storedAs tab R.compact u.k = some f →
      ∃ r ∈ R.entries, sameKey r u = true ∧ r.k = f ∧ r.ver ≤ u.ver ∧ (R.compact = false → r.ver = u.ver) := by
    intro u hu f hf
    exact hc.c1 u hu (Int.le_trans (hbound u hu) hs) f hf
  refine ⟨first, ?_⟩
  intro r hr
  obtain ⟨u, hu, hsk, hn⟩ := hc.c2 r hr
  cases hf : storedAs tab R.compact u.k with
  | none => exact absurd hf hn
  | some f =>
    obtain ⟨r', hr', hs', hk', _⟩ := first u hu f hf
    have : r = r' := unique_of_sameKey R.entries hR.inv.keys r r' hr hr'
      (sameKey_trans _ _ _ hsk (by rw [sameKey_symm]; exact hs'))
    exact ⟨u, hu, hsk, by rw [this, hk']; exact hf⟩


/-! ### equal contents ⇒ equal hashes, without mentioning order or versions -/

theorem xorAll_match : ∀ (l1 l2 : List Entry), KeysUnique l1 → KeysUnique l2 →
    (∀ x ∈ l1, ∃ y ∈ l2, sameKey x y = true ∧ x.hash = y.hash) →
    (∀ y ∈ l2, ∃ x ∈ l1, sameKey x y = true ∧ x.hash = y.hash) → xorAll l1 = xorAll l2 := by
  intro l1
  induction l1 with
  | nil =>
    intro l2 _ _ _ h2
    cases l2 with
    | nil => rfl
    | cons y r => obtain ⟨x, hx, _⟩ := h2 y (by simp); simp at hx
  | cons x t ih =>
    intro l2 hk1 hk2 h1 h2
    obtain ⟨hxt, hkt⟩ := List.pairwise_cons.mp hk1
    obtain ⟨y, hy, hsxy, hhash⟩ := h1 x (by simp)
    obtain ⟨a, b, rfl⟩ := List.append_of_mem hy
    obtain ⟨_, hkyb, hcross⟩ := List.pairwise_append.mp hk2
    obtain ⟨hyb, _⟩ := List.pairwise_cons.mp hkyb
    have hay : ∀ z ∈ a, sameKey z y = false := fun z hz => hcross z hz y (by simp)
    have hsub : (a ++ b).Sublist (a ++ y :: b) := List.Sublist.append (List.Sublist.refl a) (List.sublist_cons_self y b)
    have := ih (a ++ b) hkt (hk2.sublist hsub) ?_ ?_
    · simp only [xorAll, xorAll_append] at this ⊢
      rw [this, hhash, ← Nat.xor_assoc, Nat.xor_comm y.hash (xorAll a), Nat.xor_assoc]
    · intro x' hx'
      obtain ⟨y', hy', hs', hh'⟩ := h1 x' (List.mem_cons_of_mem _ hx')
      refine ⟨y', ?_, hs', hh'⟩
      simp only [List.mem_append, List.mem_cons] at hy' ⊢
      rcases hy' with h | rfl | h
      · exact Or.inl h
      · exfalso
        have : sameKey x x' = true := sameKey_trans _ _ _ hsxy (by rw [sameKey_symm]; exact hs')
        rw [hxt x' hx'] at this; simp at this
      · exact Or.inr h
    · intro y' hy'
      obtain ⟨x', hx', hs', hh'⟩ := h2 y' (by
        simp only [List.mem_append, List.mem_cons] at hy' ⊢
        rcases hy' with h | h
        · exact Or.inl h
        · exact Or.inr (Or.inr h))
      rcases List.mem_cons.mp hx' with rfl | hx''
      · exfalso
        have hyy : sameKey y y' = true := sameKey_trans _ _ _ (by rw [sameKey_symm]; exact hsxy) hs'
        rcases List.mem_append.mp hy' with h | h
        · have := hay y' h; rw [sameKey_symm, hyy] at this; simp at this
        · have := hyb y' h; rw [hyy] at this; simp at this
      · exact ⟨x', hx'', hs', hh'⟩

/-- two replicas of the same kind that have both caught up with the same upstream journal hold the same contents,
    hence the same state hash (whatever order and versions their own histories produced) -/
theorem synced_same_hash (tab : Nat → Content) (R1 R2 U : J) (hc1 : Conv tab R1 U) (hc2 : Conv tab R2 U)
    (h1 : JX R1) (h2 : JX R2) (hU : JX U) (hk : R1.compact = R2.compact)
    (s1 : U.cur ≤ R1.lv) (s2 : U.cur ≤ R2.lv) : R1.hash = R2.hash := by
  rw [h1.inv.hash, h2.inv.hash]
  obtain ⟨a1, b1⟩ := synced_contents tab R1 U hc1 h1 hU s1
  obtain ⟨a2, b2⟩ := synced_contents tab R2 U hc2 h2 hU s2
  have half : ∀ (Ra Rb : J), WF tab Ra.entries → WF tab Rb.entries → Ra.compact = Rb.compact →
      (∀ r ∈ Ra.entries, ∃ u ∈ U.entries, sameKey r u = true ∧ storedAs tab Ra.compact u.k = some r.k) →
      (∀ u ∈ U.entries, ∀ f, storedAs tab Rb.compact u.k = some f →
        ∃ r ∈ Rb.entries, sameKey r u = true ∧ r.k = f ∧ r.ver ≤ u.ver ∧ (Rb.compact = false → r.ver = u.ver)) →
      ∀ x ∈ Ra.entries, ∃ y ∈ Rb.entries, sameKey x y = true ∧ x.hash = y.hash := by
    intro Ra Rb wa wb hkk hb ha x hx
    obtain ⟨u, hu, hs, hst⟩ := hb x hx
    rw [hkk] at hst
    obtain ⟨y, hy, hsy, hky, _⟩ := ha u hu x.k hst
    refine ⟨y, hy, sameKey_trans _ _ _ hs (by rw [sameKey_symm]; exact hsy), ?_⟩
    rw [(wf_key tab x (wa x hx)).2.2.2, (wf_key tab y (wb y hy)).2.2.2, hky]
  apply xorAll_match _ _ h1.inv.keys h2.inv.keys
  · exact half R1 R2 hc1.wfR hc2.wfR hk b1 a2
  · intro y hy
    obtain ⟨x, hx, hs, hh⟩ := half R2 R1 hc2.wfR hc1.wfR hk.symm b2 a1 y hy
    exact ⟨x, hx, by rw [sameKey_symm]; exact hs, hh.symm⟩

end SH.C20
