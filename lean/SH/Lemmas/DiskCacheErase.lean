import SH.Lemmas.DiskCacheGet

namespace SH.C09
open SH.DiskCache

/-! ### EraseBucket: abstract effect -/

def ARec.erased (r : ARec) : ARec := { r with magic := magicDeleted, id := none }
def eraseRec (k : Nat) (r : ARec) : ARec := if r.id = some k then r.erased else r
def eraseF (k : Nat) (f : AFile) : AFile := f.setRecs (f.recs.map (eraseRec k))

def Abs.eraseA (a : Abs) (k : Nat) : Abs :=
  { a with pre := a.pre.map (eraseF k), cur := a.cur.map (fun p => (eraseF k p.1, p.2)),
           wait := a.wait.map (eraseF k), new := a.new.map (eraseF k) }

theorem eraseRec_len (k : Nat) (r : ARec) : (eraseRec k r).len = r.len := by
  unfold eraseRec; split <;> simp [ARec.erased, ARec.len]

theorem recsLen_erase (k : Nat) (rs : List ARec) : recsLen (rs.map (eraseRec k)) = recsLen rs := by
  induction rs with
  | nil => rfl
  | cons r rs ih => simp [recsLen, ih, eraseRec_len]

theorem eraseRec_id_of_ne (k : Nat) (r : ARec) (h : r.id ≠ some k) : eraseRec k r = r := by
  simp [eraseRec, h]

theorem map_eraseRec_id (k : Nat) (rs : List ARec) (h : ∀ r ∈ rs, r.id ≠ some k) : rs.map (eraseRec k) = rs := by
  induction rs with
  | nil => rfl
  | cons r rs ih =>
    simp [eraseRec_id_of_ne k r (h r (by simp)), ih (fun q hq => h q (by simp [hq]))]

theorem bucketsAt_erase (cfg : Cfg) (name k : Nat) : ∀ (off : Nat) (rs : List ARec),
    bucketsAt cfg name off (rs.map (eraseRec k)) = (bucketsAt cfg name off rs).filter (fun b => b.id != k) := by
  intro off rs
  induction rs generalizing off with
  | nil => rfl
  | cons r rs ih =>
    simp only [List.map_cons, bucketsAt, List.filter_append, eraseRec_len, ih]
    congr 1
    unfold eraseRec
    cases hid : r.id with
    | none => simp [bucketOf, hid]
    | some j =>
      by_cases hj : j = k
      · subst hj; simp [bucketOf, hid, ARec.erased]
      · have : ¬ (some j = some k) := by simp [hj]
        simp [bucketOf, hid, this, hj]

theorem idc_eq_len (cfg : Cfg) (name : Nat) : ∀ (off : Nat) (rs : List ARec), idc rs = (bucketsAt cfg name off rs).length := by
  intro off rs
  induction rs generalizing off with
  | nil => rfl
  | cons r rs ih =>
    simp only [bucketsAt, List.length_append, ← ih]
    cases hid : r.id with
    | none => simp [idc, List.filter_cons, hasId, hid, bucketOf]
    | some j => simp [idc, List.filter_cons, hasId, hid, bucketOf]; omega

theorem Abs.files_erase (a : Abs) (k : Nat) : (a.eraseA k).files = a.files.map (eraseF k) := by
  cases hc : a.cur with
  | none => simp [Abs.files, Abs.curL, Abs.eraseA, hc]
  | some p => simp [Abs.files, Abs.curL, Abs.eraseA, hc]

theorem Abs.buckets_erase (cfg : Cfg) (a : Abs) (k : Nat) :
    (a.eraseA k).buckets cfg = (a.buckets cfg).filter (fun b => b.id != k) := by
  unfold Abs.buckets
  rw [Abs.files_erase, List.flatMap_map, List.filter_flatMap]
  congr 1
  funext f
  simp [fbuckets, eraseF, AFile.setRecs, bucketsAt_erase]

theorem erased_enc (cfg : Cfg) (pre rest : Bytes) (r : ARec) :
    writeAt (pre ++ (r.enc cfg ++ rest)) pre.length (le 4 magicDeleted) = pre ++ (r.erased.enc cfg ++ rest) := by
  unfold writeAt
  have h0 : pre.length - (pre ++ (r.enc cfg ++ rest)).length = 0 := by simp
  simp only [h0, List.replicate_zero, List.append_nil, le_length]
  rw [List.take_left, ← List.drop_drop, List.drop_left]
  have e : (r.enc cfg ++ rest).drop 4 = (le 4 r.time ++ (le 8 r.body.length ++ le 4 (cfg.crc r.body))) ++ r.body ++ rest := by
    have : r.enc cfg ++ rest = le 4 r.magic ++ ((le 4 r.time ++ (le 8 r.body.length ++ le 4 (cfg.crc r.body))) ++ r.body ++ rest) := by
      simp [ARec.enc, encHeader]
    rw [this, drop_le_append]
  rw [e]
  simp [ARec.enc, encHeader, ARec.erased]

theorem sum_filter_remove (l : List Bucket) (b : Bucket) (hnd : (l.map (·.id)).Nodup) (hb : b ∈ l) :
    ((l.filter (fun x => x.id != b.id)).map bsize).sum = (l.map bsize).sum - bsize b := by
  induction l with
  | nil => simp at hb
  | cons x l ih =>
    rw [List.map_cons, List.nodup_cons] at hnd
    rcases List.mem_cons.mp hb with h | h
    · subst h
      have : l.filter (fun x => x.id != b.id) = l := by
        rw [List.filter_eq_self]
        intro y hy
        have : y.id ≠ b.id := fun e => hnd.1 (List.mem_map.mpr ⟨y, hy, e⟩)
        simp [this]
      simp [List.filter_cons, this]; omega
    · have hx : x.id ≠ b.id := fun e => hnd.1 (List.mem_map.mpr ⟨b, h, e.symm⟩)
      simp [List.filter_cons, hx, ih hnd.2 h]
      omega

theorem len_filter_remove (l : List Bucket) (b : Bucket) (hnd : (l.map (·.id)).Nodup) (hb : b ∈ l) :
    (l.filter (fun x => x.id != b.id)).length + 1 = l.length := by
  induction l with
  | nil => simp at hb
  | cons x l ih =>
    rw [List.map_cons, List.nodup_cons] at hnd
    rcases List.mem_cons.mp hb with h | h
    · subst h
      have : l.filter (fun x => x.id != b.id) = l := by
        rw [List.filter_eq_self]
        intro y hy
        have : y.id ≠ b.id := fun e => hnd.1 (List.mem_map.mpr ⟨y, hy, e⟩)
        simp [this]
      simp [List.filter_cons, this]
    · have hx : x.id ≠ b.id := fun e => hnd.1 (List.mem_map.mpr ⟨b, h, e.symm⟩)
      simp [List.filter_cons, hx]
      exact ih hnd.2 h

theorem filter_none_of (l : List Bucket) (k : Nat) (h : ∀ x ∈ l, x.id ≠ k) : l.filter (fun x => x.id != k) = l := by
  rw [List.filter_eq_self]
  intro y hy
  simp [h y hy]


theorem prefix_eq_of_recsLen : ∀ (p1 r1 p2 r2 : List ARec) (q r : ARec),
    p1 ++ q :: p2 = r1 ++ r :: r2 → recsLen p1 = recsLen r1 → p1 = r1 := by
  intro p1
  induction p1 with
  | nil =>
    intro r1 p2 r2 q r _ hl
    cases r1 with
    | nil => rfl
    | cons x r1 => have := ARec.len_pos x; simp [recsLen] at hl; omega
  | cons y p1 ih =>
    intro r1 p2 r2 q r h hl
    cases r1 with
    | nil => have := ARec.len_pos y; simp [recsLen] at hl; omega
    | cons x r1 =>
      simp at h
      obtain ⟨h1, h2⟩ := h
      subst h1
      simp [recsLen] at hl
      rw [ih r1 p2 r2 q r h2 hl]

/-- where the bucket `b` lives, and that its id occurs nowhere else -/
theorem Inv.erase_ctx {cfg : Cfg} {s : Shard} {a : Abs} (inv : Inv cfg s a) {b : Bucket} (hb : b ∈ a.buckets cfg) :
    ∃ f ∈ a.files, ∃ r1 r r2, f.recs = r1 ++ r :: r2 ∧ r.id = some b.id ∧
      b = ⟨b.id, f.name, recsLen r1, r.time, r.body.length, cfg.crc r.body⟩ ∧
      (∀ q ∈ r1 ++ r2, q.id ≠ some b.id) ∧ (∀ g ∈ a.files, g ≠ f → ∀ q ∈ g.recs, q.id ≠ some b.id) := by
  obtain ⟨f, hf, r1, r, r2, h1, h2, h3⟩ := inv.bucket_view hb
  have key : ∀ g ∈ a.files, ∀ p1 q p2, g.recs = p1 ++ q :: p2 → q.id = some b.id → g = f ∧ p1 = r1 := by
    intro g hg p1 q p2 hrec hq
    have hb' : (⟨b.id, g.name, 0 + recsLen p1, q.time, q.body.length, cfg.crc q.body⟩ : Bucket) ∈ a.buckets cfg := by
      apply List.mem_flatMap.mpr
      refine ⟨g, hg, ?_⟩
      unfold fbuckets; rw [hrec]
      exact bucketsAt_mem cfg g.name 0 p1 p2 q b.id hq
    have := nodup_map_inj (fun x : Bucket => x.id) _ inv.idsNodup _ hb' b hb rfl
    rw [h3] at this
    simp only [Bucket.mk.injEq, Nat.zero_add] at this
    obtain ⟨_, hn, hp, _⟩ := this
    have hgf : g = f := inv.name_inj hg hf hn
    subst hgf
    rw [h1] at hrec
    exact ⟨rfl, prefix_eq_of_recsLen p1 r1 p2 r2 q r hrec.symm hp⟩
  refine ⟨f, hf, r1, r, r2, h1, h2, h3, ?_, ?_⟩
  · intro q hq hqid
    rcases List.mem_append.mp hq with h | h
    · obtain ⟨p1, p2, hp⟩ := List.append_of_mem h
      have := (key f hf p1 q (p2 ++ r :: r2) (by rw [h1, hp]; simp) hqid).2
      have hl : recsLen r1 = recsLen p1 + (q.len + recsLen p2) := by rw [hp, recsLen_append]; simp [recsLen]
      rw [this] at hl
      have := ARec.len_pos q
      omega
    · obtain ⟨p1, p2, hp⟩ := List.append_of_mem h
      have := (key f hf (r1 ++ r :: p1) q p2 (by rw [h1, hp]; simp) hqid).2
      have hl : recsLen (r1 ++ r :: p1) = recsLen r1 + (r.len + recsLen p1) := by rw [recsLen_append]; simp [recsLen]
      rw [this] at hl
      have := ARec.len_pos r
      omega
  · intro g hg hgf q hq hqid
    obtain ⟨p1, p2, hp⟩ := List.append_of_mem hq
    exact hgf (key g hg p1 q p2 hp hqid).1

end SH.C09
