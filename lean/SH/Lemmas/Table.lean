/-
  SH.Lemmas.Table — helper lemmas for property C25 (model SH.Model.Table): closed form of the fixed limitQueries,
  membership/window invariants, key-list invariants of the loops, order lemmas for queryTableRows.Less, column
  alignment, the page across the LOD split, duplicate-free storage answers. Headline theorems: SH/Props/C25.lean.
-/
import SH.Model.Table

namespace SH.C25
open SH.Table

/-! ## limitQueries: the window and the limit are respected, has-more is exact -/

theorem scanRows_fixed (w : Win) : ∀ (g : List Row) (n : Nat),
    scanRows .fixed w n g =
      ((g.filter (inRange w)).take n, decide (n < (g.filter (inRange w)).length), n - (g.filter (inRange w)).length) := by
  intro g
  induction g with
  | nil => intro n; simp [scanRows]
  | cons r rs ih =>
    intro n
    by_cases h : inRange w r = true
    · cases n with
      | zero => simp [scanRows, limitFirst, h]
      | succ m =>
        simp only [scanRows, limitFirst, h, List.filter_cons]
        simp [ih m]
    · simp only [Bool.not_eq_true] at h
      simp [scanRows, limitFirst, h, ih n]

theorem scanGroups_fixed (w : Win) : ∀ (gs : List (List Row)) (n : Nat),
    scanGroups .fixed w n gs =
      ((gs.flatten.filter (inRange w)).take n, decide (n < (gs.flatten.filter (inRange w)).length)) := by
  intro gs
  induction gs with
  | nil => intro n; simp [scanGroups]
  | cons g gs ih =>
    intro n
    simp only [scanGroups, skipsGroups, Bool.false_and, scanRows_fixed, ih, List.flatten_cons, List.filter_append,
      List.length_append]
    by_cases h : n < (g.filter (inRange w)).length
    · simp [h, List.take_append_of_le_length (Nat.le_of_lt h)]
      omega
    · simp [h]
      have h' : (g.filter (inRange w)).length ≤ n := Nat.le_of_not_lt h
      rw [List.take_append]
      simp [List.take_of_length_le h']
      omega

/-- the rows of one storage answer that lie in the requested window, in visiting order -/
def windowRows (w : Win) (groups : List (List Row)) : List Row := (dir w.fromEnd groups).flatten.filter (inRange w)

theorem limitQueries_fixed (w : Win) (groups : List (List Row)) (limit : Int) :
    limitQueries .fixed w groups limit =
      ((windowRows w groups).take limit.toNat, decide (limit.toNat < (windowRows w groups).length)) := by
  simp [limitQueries, scanGroups_fixed, windowRows]


/-! ## every variant: limitQueries only returns rows of the answer that lie in the window -/

theorem scanRows_mem (v : Variant) (w : Win) : ∀ (g : List Row) (n : Nat) (r : Row),
    r ∈ (scanRows v w n g).1 → r ∈ g ∧ inRange w r = true := by
  intro g
  induction g with
  | nil => intro n r h; simp [scanRows] at h
  | cons x xs ih =>
    intro n r h
    simp only [scanRows] at h
    by_cases hl : limitFirst v = true <;> by_cases hn : n = 0 <;> by_cases hx : inRange w x = true <;>
      simp [hl, hn, hx] at h
    all_goals first
      | (rcases h with h | h
         · subst h; exact ⟨by simp, hx⟩
         · have := ih _ _ h; exact ⟨by simp [this.1], this.2⟩)
      | (have := ih _ _ h; exact ⟨by simp [this.1], this.2⟩)

theorem scanGroups_mem (v : Variant) (w : Win) : ∀ (gs : List (List Row)) (n : Nat) (r : Row),
    r ∈ (scanGroups v w n gs).1 → (∃ g ∈ gs, r ∈ g) ∧ inRange w r = true := by
  intro gs
  induction gs with
  | nil => intro n r h; simp [scanGroups] at h
  | cons g gs ih =>
    intro n r h
    simp only [scanGroups] at h
    split at h
    · have := ih _ _ h
      obtain ⟨⟨g', hg', hr⟩, hin⟩ := this
      exact ⟨⟨g', by simp [hg'], hr⟩, hin⟩
    · split at h
      · have := scanRows_mem v w g n r h
        exact ⟨⟨g, by simp, this.1⟩, this.2⟩
      · simp only [List.mem_append] at h
        rcases h with h | h
        · have := scanRows_mem v w g n r h
          exact ⟨⟨g, by simp, this.1⟩, this.2⟩
        · obtain ⟨⟨g', hg', hr⟩, hin⟩ := ih _ _ h
          exact ⟨⟨g', by simp [hg'], hr⟩, hin⟩

theorem mem_dir {α} (fe : Bool) (l : List α) (x : α) : x ∈ dir fe l ↔ x ∈ l := by
  unfold dir; split <;> simp

theorem limitQueries_mem (v : Variant) (w : Win) (groups : List (List Row)) (limit : Int) (r : Row)
    (h : r ∈ (limitQueries v w groups limit).1) : (∃ g ∈ groups, r ∈ g) ∧ inRange w r = true := by
  unfold limitQueries at h
  cases v with
  | fixed =>
    obtain ⟨⟨g, hg, hr⟩, hin⟩ := scanGroups_mem _ _ _ _ _ h
    exact ⟨⟨g, (mem_dir _ _ _).1 hg, hr⟩, hin⟩
  | old =>
    simp only at h
    split at h
    · simp at h
    · obtain ⟨⟨g, hg, hr⟩, hin⟩ := scanGroups_mem _ _ _ _ _ h
      exact ⟨⟨g, (mem_dir _ _ _).1 hg, hr⟩, hin⟩


/-! ## getTableFromLODs: invariants of the key list -/

def keysOf (out : List ORow) : List Key := out.map (·.key)

theorem hasKey_iff (out : List ORow) (k : Key) : hasKey out k = true ↔ k ∈ keysOf out := by
  simp [hasKey, keysOf, List.any_eq_true]

theorem keys_addRow (pad : Nat) (cols : List Nat) (out : List ORow) (r : Row) :
    keysOf (addRow pad cols out r) = if hasKey out r.key then keysOf out else keysOf out ++ [r.key] := by
  unfold addRow
  split
  · simp only [keysOf, List.map_map]
    apply List.map_congr_left
    intro o _
    simp only [Function.comp]
    split <;> rfl
  · simp [keysOf]

theorem keys_endPass (v : Variant) (cols : List Nat) (out : List ORow) : keysOf (endPass v cols out) = keysOf out := by
  simp only [keysOf, endPass, List.map_map]
  apply List.map_congr_left
  intro o _
  simp only [Function.comp]
  split <;> rfl

/-- an invariant of the key list that every accepted storage row preserves is an invariant of the LOD loop -/
theorem lodLoop_keys (P : List Key → Prop) (v : Variant) (q : Req) (pad : Nat) (cols : List Nat)
    (hadd : ∀ ks (r : Row), P ks → inRange q.win r = true → timeSkipped q r = false → r.key ∉ ks → P (ks ++ [r.key])) :
    ∀ (answers : List (Lod × Option (List (List Row)))) (cnt : Nat) (out : List ORow) (res : List ORow × Bool),
      P (keysOf out) → lodLoop v q pad cols answers cnt out = some res → P (keysOf res.1) := by
  have hfold : ∀ (rows : List Row) (out : List ORow), (∀ r ∈ rows, inRange q.win r = true ∧ timeSkipped q r = false) →
      P (keysOf out) → P (keysOf (rows.foldl (addRow pad cols) out)) := by
    intro rows
    induction rows with
    | nil => intro out _ h; simpa using h
    | cons r rs ih =>
      intro out hr h
      simp only [List.foldl_cons]
      apply ih
      · intro x hx; exact hr x (by simp [hx])
      · rw [keys_addRow]
        split
        · exact h
        · rename_i hk
          have := hr r (by simp)
          exact hadd _ _ h this.1 this.2 (by rw [← hasKey_iff]; simpa using hk)
  intro answers
  induction answers with
  | nil => intro cnt out res h he; simp [lodLoop] at he; subst he; exact h
  | cons a rest ih =>
    intro cnt out res h he
    obtain ⟨l, ans⟩ := a
    simp only [lodLoop] at he
    split at he
    · exact ih _ _ _ h he
    · cases ans with
      | none => simp at he
      | some groups =>
        simp only at he
        have hrows : ∀ r ∈ List.filter (fun r => !timeSkipped q r) (limitQueries v q.win groups (q.limit - ↑cnt)).1,
            inRange q.win r = true ∧ timeSkipped q r = false := by
          intro r hr
          simp only [List.mem_filter, Bool.not_eq_true'] at hr
          exact ⟨((limitQueries_mem v q.win groups _ r hr.1).2), hr.2⟩
        split at he
        · simp at he; subst he; exact hfold _ _ hrows h
        · exact ih _ _ _ (hfold _ _ hrows h) he

theorem whatLoop_keys (P : List Key → Prop) (v : Variant) (q : Req)
    (hadd : ∀ ks (r : Row), P ks → inRange q.win r = true → timeSkipped q r = false → r.key ∉ ks → P (ks ++ [r.key])) :
    ∀ (todo : List (List Nat × List (Lod × Option (List (List Row))))) (prev : List (List Nat)) (out : List ORow) (more : Bool)
      (res : List ORow × Bool), P (keysOf out) → whatLoop v q prev todo out more = some res → P (keysOf res.1) := by
  intro todo
  induction todo with
  | nil => intro prev out more res h he; simp [whatLoop] at he; subst he; exact h
  | cons t rest ih =>
    intro prev out more res h he
    obtain ⟨cols, answers⟩ := t
    simp only [whatLoop] at he
    split at he
    · simp at he
    · rename_i r hr
      apply ih _ _ _ _ _ he
      rw [keys_endPass]
      exact lodLoop_keys P v q _ cols hadd answers 0 out r h hr

theorem insertRow_perm (q : Req) (x : ORow) : ∀ l : List ORow, (insertRow q x l).Perm (x :: l) := by
  intro l
  induction l with
  | nil => simp [insertRow]
  | cons y ys ih =>
    simp only [insertRow]
    split
    · exact List.Perm.refl _
    · exact (List.Perm.cons y ih).trans (List.Perm.swap x y ys)

theorem sortRows_perm (q : Req) : ∀ l : List ORow, (sortRows q l).Perm l := by
  intro l
  induction l with
  | nil => simp [sortRows]
  | cons x xs ih =>
    simp only [sortRows]
    exact (insertRow_perm q x _).trans (List.Perm.cons x ih)

theorem lessThan_time_ne (l : Marker) (k : Key) (orEq fe : Bool) (h : l.time ≠ k.time) :
    lessThan l k orEq fe = if fe then decide (l.time > k.time) else decide (l.time < k.time) := by
  simp [lessThan, h]

theorem afterFrom_time (w : Win) (k : Key) (h : afterFrom w k = true) :
    w.frm.time = 0 ∨ (if w.fromEnd then k.time ≤ w.frm.time else w.frm.time ≤ k.time) := by
  simp only [afterFrom, Bool.or_eq_true, beq_iff_eq] at h
  rcases h with h | h
  · exact Or.inl h
  · right
    by_cases e : w.frm.time = k.time
    · cases w.fromEnd <;> simp <;> omega
    · rw [lessThan_time_ne _ _ _ _ e] at h
      cases hf : w.fromEnd <;> simp [hf] at h ⊢ <;> omega

theorem beforeTo_time (w : Win) (k : Key) (h : beforeTo w k = true) :
    w.to.time = 0 ∨ (if w.fromEnd then w.to.time ≤ k.time else k.time ≤ w.to.time) := by
  simp only [beforeTo, Bool.or_eq_true, beq_iff_eq, Bool.not_eq_true'] at h
  rcases h with h | h
  · exact Or.inl h
  · right
    by_cases e : w.to.time = k.time
    · cases w.fromEnd <;> simp <;> omega
    · rw [lessThan_time_ne _ _ _ _ e] at h
      cases hf : w.fromEnd <;> simp [hf] at h ⊢ <;> omega

/-- the time test of the row loop never rejects a row that limitQueries accepted (row times are not negative) -/
theorem inRange_not_timeSkipped (q : Req) (r : Row) (h : inRange q.win r = true) (ht : 0 ≤ r.key.time) :
    timeSkipped q r = false := by
  simp only [inRange, Bool.and_eq_true] at h
  have h1 := afterFrom_time _ _ h.1
  have h2 := beforeTo_time _ _ h.2
  simp only [timeSkipped, aboveTo, fromTime, toTime]
  by_cases hf : q.win.fromEnd = true
  · simp [hf] at h1 h2 ⊢; omega
  · simp [hf] at h1 h2 ⊢; omega


/-! ## order lemmas for queryTableRows.Less -/

/-- tags-then-skey part of `less` -/
def tl (l1 : List Int) (s1 : Nat) (l2 : List Int) (s2 : Nat) : Bool :=
  match tagsLess l1 l2 with
  | some x => x
  | none => decide (s1 < s2)

theorem tl_nil (s1 s2 : Nat) : tl [] s1 [] s2 = true ↔ s1 < s2 := by simp [tl, tagsLess]

theorem tl_cons (x y : Int) (l1 l2 : List Int) (s1 s2 : Nat) :
    tl (x :: l1) s1 (y :: l2) s2 = true ↔ x < y ∨ (x = y ∧ tl l1 s1 l2 s2 = true) := by
  simp only [tl, tagsLess]
  by_cases h : x = y
  · subst h; simp
  · simp [h]

theorem tl_asymm : ∀ (l1 l2 : List Int) (s1 s2 : Nat), l1.length = l2.length →
    tl l1 s1 l2 s2 = true → ¬ tl l2 s2 l1 s1 = true := by
  intro l1
  induction l1 with
  | nil =>
    intro l2 s1 s2 hl h
    cases l2 with
    | nil => simp only [tl_nil] at *; omega
    | cons => simp at hl
  | cons x l1 ih =>
    intro l2 s1 s2 hl h
    cases l2 with
    | nil => simp at hl
    | cons y l2 =>
      simp only [tl_cons] at *
      have hl' : l1.length = l2.length := by simpa using hl
      rcases h with h | ⟨h1, h2⟩
      · rintro (g | ⟨g1, _⟩) <;> omega
      · rintro (g | ⟨_, g2⟩)
        · omega
        · exact ih _ _ _ hl' h2 g2

theorem tl_negtrans : ∀ (l1 l2 l3 : List Int) (s1 s2 s3 : Nat), l1.length = l2.length → l2.length = l3.length →
    tl l1 s1 l3 s3 = true → tl l1 s1 l2 s2 = true ∨ tl l2 s2 l3 s3 = true := by
  intro l1
  induction l1 with
  | nil =>
    intro l2 l3 s1 s2 s3 h12 h23 h
    cases l2 with
    | nil =>
      cases l3 with
      | nil => simp only [tl_nil] at *; omega
      | cons => simp at h23
    | cons => simp at h12
  | cons x l1 ih =>
    intro l2 l3 s1 s2 s3 h12 h23 h
    cases l2 with
    | nil => simp at h12
    | cons y l2 =>
      cases l3 with
      | nil => simp at h23
      | cons z l3 =>
        simp only [tl_cons] at *
        have h12' : l1.length = l2.length := by simpa using h12
        have h23' : l2.length = l3.length := by simpa using h23
        rcases h with h | ⟨h1, h2⟩
        · by_cases hxy : x < y
          · exact Or.inl (Or.inl hxy)
          · by_cases hyz : y < z
            · exact Or.inr (Or.inl hyz)
            · omega
        · by_cases hxy : x < y
          · exact Or.inl (Or.inl hxy)
          · by_cases hyx : y < x
            · exact Or.inr (Or.inl (by omega))
            · have e : x = y := by omega
              rcases ih l2 l3 s1 s2 s3 h12' h23' h2 with g | g
              · exact Or.inl (Or.inr ⟨e, g⟩)
              · exact Or.inr (Or.inr ⟨by omega, g⟩)

theorem less_iff (a b : RowRepr) : less a b = true ↔
    (a.time < b.time ∨ (a.time = b.time ∧ (a.tags.length < b.tags.length ∨
      (a.tags.length = b.tags.length ∧ tl a.tags a.skey b.tags b.skey = true)))) := by
  simp only [less]
  by_cases ht : a.time = b.time
  · by_cases hl : a.tags.length = b.tags.length
    · simp [ht, hl, tl]
      cases tagsLess a.tags b.tags <;> rfl
    · simp [ht, hl]
  · simp [ht]

theorem less_asymm (a b : RowRepr) (h : less a b = true) : ¬ less b a = true := by
  simp only [less_iff] at *
  rcases h with h | ⟨h1, h | ⟨h2, h3⟩⟩
  · rintro (g | ⟨g1, _⟩) <;> omega
  · rintro (g | ⟨_, g | ⟨g2, _⟩⟩) <;> omega
  · rintro (g | ⟨_, g | ⟨_, g3⟩⟩)
    · omega
    · omega
    · exact tl_asymm _ _ _ _ h2 h3 g3

theorem less_negtrans (a b c : RowRepr) (h : less a c = true) : less a b = true ∨ less b c = true := by
  simp only [less_iff] at *
  by_cases t1 : a.time < b.time
  · exact Or.inl (Or.inl t1)
  by_cases t2 : b.time < c.time
  · exact Or.inr (Or.inl t2)
  rcases h with h | ⟨h1, h⟩
  · omega
  have e1 : a.time = b.time := by omega
  have e2 : b.time = c.time := by omega
  by_cases l1 : a.tags.length < b.tags.length
  · exact Or.inl (Or.inr ⟨e1, Or.inl l1⟩)
  by_cases l2 : b.tags.length < c.tags.length
  · exact Or.inr (Or.inr ⟨e2, Or.inl l2⟩)
  rcases h with h | ⟨h2, h3⟩
  · omega
  have f1 : a.tags.length = b.tags.length := by omega
  have f2 : b.tags.length = c.tags.length := by omega
  rcases tl_negtrans _ _ _ a.skey b.skey c.skey f1 f2 h3 with g | g
  · exact Or.inl (Or.inr ⟨e1, Or.inr ⟨f1, g⟩⟩)
  · exact Or.inr (Or.inr ⟨e2, Or.inr ⟨f2, g⟩⟩)

/-! ## column alignment -/

/-- ghost: the storage rows that one pass of the LOD loop hands to the row loop body, in order -/
def passRows (v : Variant) (q : Req) : List (Lod × Option (List (List Row))) → Nat → List Row
  | [], _ => []
  | (l, ans) :: rest, cnt =>
    if lodSkipped q l then passRows v q rest cnt
    else match ans with
      | none => []
      | some groups =>
        let lq := limitQueries v q.win groups (q.limit - cnt)
        let rows := lq.1.filter (fun r => !timeSkipped q r)
        if lq.2 then rows else rows ++ passRows v q rest (cnt + rows.length)

theorem lodLoop_eq_fold (v : Variant) (q : Req) (pad : Nat) (cols : List Nat) :
    ∀ (answers : List (Lod × Option (List (List Row)))) (cnt : Nat) (out : List ORow) (res : List ORow × Bool),
      lodLoop v q pad cols answers cnt out = some res →
      res.1 = (passRows v q answers cnt).foldl (addRow pad cols) out := by
  intro answers
  induction answers with
  | nil => intro cnt out res he; simp [lodLoop] at he; subst he; simp [passRows]
  | cons a rest ih =>
    intro cnt out res he
    obtain ⟨l, ans⟩ := a
    simp only [lodLoop] at he
    simp only [passRows]
    split at he
    · rename_i hs; simp only [hs, if_true]; exact ih _ _ _ he
    · rename_i hs
      simp only [hs]
      cases ans with
      | none => simp at he
      | some groups =>
        simp only at he ⊢
        split at he
        · rename_i hm; simp at he; subst he; simp [hm]
        · rename_i hm
          simp only [hm]
          rw [ih _ _ _ he]
          simp [List.foldl_append]

/-- alignment invariant inside a pass: `n` columns before this handler-what, `c` columns of this one -/
def J (n c : Nat) (seen : List Key) (out : List ORow) : Prop :=
  ∀ o ∈ out, (o.used = true → o.key ∈ seen) ∧ o.data.length = n + (if o.used then c else 0)

theorem J_addRow (n : Nat) (cols : List Nat) (seen : List Key) (out : List ORow) (r : Row)
    (h : J n cols.length seen out) (hr : r.key ∉ seen) : J n cols.length (r.key :: seen) (addRow n cols out r) := by
  unfold addRow
  split
  · intro o' ho'
    simp only [List.mem_map] at ho'
    obtain ⟨o, ho, rfl⟩ := ho'
    have := h o ho
    by_cases hk : (o.key == r.key) = true
    · have hk' : o.key = r.key := by simpa using hk
      have hu : o.used = false := by
        cases hu : o.used with
        | false => rfl
        | true => exact absurd (hk' ▸ this.1 hu) hr
      simp [hk', rowVals, this.2, hu]
    · simp only [hk]
      refine ⟨fun hu => List.mem_cons_of_mem _ (this.1 hu), this.2⟩
  · intro o ho
    simp only [List.mem_append, List.mem_singleton] at ho
    rcases ho with ho | rfl
    · have := h o ho
      exact ⟨fun hu => List.mem_cons_of_mem _ (this.1 hu), this.2⟩
    · simp [rowVals]

theorem J_fold (n : Nat) (cols : List Nat) : ∀ (rows : List Row) (seen : List Key) (out : List ORow),
    J n cols.length seen out → (rows.map (·.key)).Nodup → (∀ r ∈ rows, r.key ∉ seen) →
    ∃ seen', J n cols.length seen' (rows.foldl (addRow n cols) out) := by
  intro rows
  induction rows with
  | nil => intro seen out h _ _; exact ⟨seen, by simpa using h⟩
  | cons r rs ih =>
    intro seen out h hnd hdis
    simp only [List.map_cons, List.nodup_cons] at hnd
    simp only [List.foldl_cons]
    apply ih (r.key :: seen) _ (J_addRow n cols seen out r h (hdis r (by simp))) hnd.2
    intro x hx
    simp only [List.mem_cons, not_or]
    refine ⟨?_, hdis x (by simp [hx])⟩
    intro e
    exact hnd.1 (by simp only [List.mem_map]; exact ⟨x, hx, e⟩)

/-- all rows have `n` columns and nobody is marked used (state between two passes) -/
def Aligned (n : Nat) (out : List ORow) : Prop := ∀ o ∈ out, o.used = false ∧ o.data.length = n

theorem endPass_aligned (n : Nat) (cols : List Nat) (seen : List Key) (out : List ORow)
    (h : J n cols.length seen out) : Aligned (n + cols.length) (endPass .fixed cols out) := by
  intro o' ho'
  simp only [endPass, List.mem_map] at ho'
  obtain ⟨o, ho, rfl⟩ := ho'
  have := (h o ho).2
  cases hu : o.used <;> simp [hu, padMissing] at this ⊢ <;> omega

theorem sum_append_single (prev : List (List Nat)) (cols : List Nat) :
    ((prev ++ [cols]).map List.length).sum = (prev.map List.length).sum + cols.length := by
  simp

/-- no key is handed to the row loop twice within one pass -/
def NoRepeat (v : Variant) (q : Req) (todo : List (List Nat × List (Lod × Option (List (List Row))))) : Prop :=
  ∀ t ∈ todo, ((passRows v q t.2 0).map (·.key)).Nodup

theorem whatLoop_aligned (q : Req) :
    ∀ (todo : List (List Nat × List (Lod × Option (List (List Row))))) (prev : List (List Nat)) (out : List ORow) (more : Bool)
      (res : List ORow × Bool), NoRepeat .fixed q todo → Aligned (prev.map List.length).sum out →
      whatLoop .fixed q prev todo out more = some res →
      Aligned ((prev ++ todo.map (·.1)).map List.length).sum res.1 := by
  intro todo
  induction todo with
  | nil => intro prev out more res _ h he; simp [whatLoop] at he; subst he; simpa using h
  | cons t rest ih =>
    intro prev out more res hn h he
    obtain ⟨cols, answers⟩ := t
    simp only [whatLoop] at he
    split at he
    · simp at he
    · rename_i r hr
      have hfold := lodLoop_eq_fold .fixed q _ cols answers 0 out r hr
      have hJ0 : J (prev.map List.length).sum cols.length [] out := by
        intro o ho
        have := h o ho
        simp [this.1, this.2]
      obtain ⟨seen', hJ⟩ := J_fold (prev.map List.length).sum cols (passRows .fixed q answers 0) [] out hJ0
        (hn (cols, answers) (by simp)) (by simp)
      have hal := endPass_aligned _ cols seen' _ hJ
      rw [← sum_append_single] at hal
      have := ih (prev ++ [cols]) _ _ res (fun t ht => hn t (by simp [ht])) (by
        simp only [padBefore] at hfold
        rw [hfold]; exact hal) he
      simpa [List.append_assoc] using this

/-! ## the page across the LOD split -/

/-- the window rows of all LODs that are not skipped, in visiting order (an error answer contributes nothing) -/
def candRows (q : Req) : List (Lod × Option (List (List Row))) → List Row
  | [] => []
  | (l, ans) :: rest =>
    if lodSkipped q l then candRows q rest
    else windowRows q.win (ans.getD []) ++ candRows q rest

theorem filter_take_all {α} (p : α → Bool) (l : List α) (n : Nat) (h : ∀ x ∈ l, p x = true) :
    (l.take n).filter p = l.take n := by
  apply List.filter_eq_self.2
  intro x hx
  exact h x (List.mem_of_mem_take hx)

theorem lodLoop_page (q : Req) (pad : Nat) (cols : List Nat) :
    ∀ (answers : List (Lod × Option (List (List Row)))) (cnt : Nat) (out : List ORow) (res : List ORow × Bool),
      (∀ r ∈ candRows q answers, timeSkipped q r = false) →
      lodLoop .fixed q pad cols answers cnt out = some res →
      res.1 = ((candRows q answers).take (q.limit - cnt).toNat).foldl (addRow pad cols) out ∧
      res.2 = decide ((q.limit - cnt).toNat < (candRows q answers).length) := by
  intro answers
  induction answers with
  | nil => intro cnt out res _ he; simp [lodLoop] at he; subst he; simp [candRows]
  | cons a rest ih =>
    intro cnt out res hts he
    obtain ⟨l, ans⟩ := a
    simp only [lodLoop] at he
    simp only [candRows] at hts ⊢
    split at he
    · rename_i hs; simp only [hs, if_true] at hts ⊢; exact ih _ _ _ hts he
    · rename_i hs
      simp only [hs, Bool.false_eq_true, if_false] at hts ⊢
      cases ans with
      | none => simp at he
      | some groups =>
        simp only [limitQueries_fixed, Option.getD_some] at he hts ⊢
        have hw : ∀ x ∈ windowRows q.win groups, (!timeSkipped q x) = true := by
          intro x hx; simp [hts x (by simp [hx])]
        rw [filter_take_all _ _ _ hw] at he
        by_cases hm : (q.limit - ↑cnt).toNat < (windowRows q.win groups).length
        · simp only [hm, decide_true, if_true] at he
          simp only [Option.some.injEq] at he; subst he
          simp only [List.length_append]
          refine ⟨?_, ?_⟩
          · rw [List.take_append_of_le_length (Nat.le_of_lt hm)]
          · simp; omega
        · simp only [hm, decide_false] at he
          have hle : (windowRows q.win groups).length ≤ (q.limit - ↑cnt).toNat := Nat.le_of_not_lt hm
          have hrest := ih _ _ _ (fun r hr => hts r (by simp [hr])) he
          rw [List.take_of_length_le hle] at hrest
          have hn : (q.limit - ↑(cnt + (windowRows q.win groups).length)).toNat
              = (q.limit - ↑cnt).toNat - (windowRows q.win groups).length := by
            omega
          rw [hn] at hrest
          refine ⟨?_, ?_⟩
          · rw [hrest.1, List.take_append, List.take_of_length_le hle, List.foldl_append]
          · rw [hrest.2]; simp only [List.length_append]
            by_cases hx : (q.limit - ↑cnt).toNat - (windowRows q.win groups).length < (candRows q rest).length
            · simp; omega
            · simp; omega

theorem candRows_inRange (q : Req) : ∀ (answers : List (Lod × Option (List (List Row)))) (r : Row),
    r ∈ candRows q answers → inRange q.win r = true := by
  intro answers
  induction answers with
  | nil => intro r h; simp [candRows] at h
  | cons a rest ih =>
    intro r h
    obtain ⟨l, ans⟩ := a
    simp only [candRows] at h
    split at h
    · exact ih r h
    · simp only [List.mem_append] at h
      rcases h with h | h
      · simp only [windowRows, List.mem_filter] at h; exact h.2
      · exact ih r h

/-! ## duplicate-free storage answers -/

/-- all rows of the storage answers of one requested function (errors contribute nothing) -/
def storedRows : List (Lod × Option (List (List Row))) → List Row
  | [] => []
  | (_, ans) :: rest => (ans.getD []).flatten ++ storedRows rest

def storedRowsDir (fe : Bool) : List (Lod × Option (List (List Row))) → List Row
  | [] => []
  | (_, ans) :: rest => (dir fe (ans.getD [])).flatten ++ storedRowsDir fe rest

theorem storedRowsDir_perm (fe : Bool) : ∀ answers, (storedRowsDir fe answers).Perm (storedRows answers) := by
  intro answers
  induction answers with
  | nil => simp [storedRowsDir, storedRows]
  | cons a rest ih =>
    obtain ⟨l, ans⟩ := a
    simp only [storedRowsDir, storedRows]
    refine List.Perm.append ?_ ih
    unfold dir
    split
    · exact (List.reverse_perm _).flatten
    · exact List.Perm.refl _

theorem passRows_sublist (q : Req) : ∀ (answers : List (Lod × Option (List (List Row)))) (cnt : Nat),
    (passRows .fixed q answers cnt).Sublist (storedRowsDir q.win.fromEnd answers) := by
  intro answers
  induction answers with
  | nil => intro cnt; simp [passRows, storedRowsDir]
  | cons a rest ih =>
    intro cnt
    obtain ⟨l, ans⟩ := a
    simp only [passRows, storedRowsDir]
    split
    · exact (ih cnt).trans (List.sublist_append_right _ _)
    · cases ans with
      | none => simp
      | some groups =>
        simp only [limitQueries_fixed, Option.getD_some]
        have hrows : (List.filter (fun r => !timeSkipped q r)
            (List.take (q.limit - ↑cnt).toNat (windowRows q.win groups))).Sublist (dir q.win.fromEnd groups).flatten :=
          List.filter_sublist.trans ((List.take_sublist _ _).trans List.filter_sublist)
        split
        · exact hrows.trans (List.sublist_append_left _ _)
        · exact List.Sublist.append hrows (ih _)

/-- storage answers without duplicate keys (per requested function, over all its LODs) never hand a key to the
    row loop twice -/
theorem noRepeat_of_nodup (q : Req) (todo : List (List Nat × List (Lod × Option (List (List Row)))))
    (h : ∀ t ∈ todo, ((storedRows t.2).map (·.key)).Nodup) : NoRepeat .fixed q todo := by
  intro t ht
  have h1 := ((storedRowsDir_perm q.win.fromEnd t.2).map (fun r : Row => r.key)).nodup_iff.2 (h t ht)
  exact List.Nodup.sublist ((passRows_sublist q t.2 0).map _) h1

end SH.C25
