import SH.Lemmas.DiskCacheRead

namespace SH.C09
open SH.DiskCache

/-! ### small step 2: skip an erased record -/

def Abs.skipA (a : Abs) (f : AFile) (j : Nat) : Abs := { a with cur := some (f, j + 1) }

theorem mem_take_succ {α} (l : List α) (j : Nat) (h : j < l.length) (x : α) :
    x ∈ l.take (j + 1) ↔ x ∈ l.take j ∨ x = l[j] := by
  rw [List.take_succ_eq_append_getElem h, List.mem_append, List.mem_singleton]

theorem recsLen_take_succ (l : List ARec) (j : Nat) (h : j < l.length) :
    recsLen (l.take (j + 1)) = recsLen (l.take j) + l[j].len := by
  rw [List.take_succ_eq_append_getElem h, recsLen_append]
  simp [recsLen]

theorem inv_skip (cfg : Cfg) (s : Shard) (a : Abs) (f : AFile) (j : Nat) (inv : Inv cfg s a)
    (hc : a.cur = some (f, j)) (hj : j < f.recs.length) (hd : unread cfg f.recs[j] = false) :
    Inv cfg (setNextPos s f.name (recsLen (f.recs.take (j + 1)))) (a.skipA f j) := by
  have hfiles : (a.skipA f j).files = a.files := by simp [Abs.skipA, Abs.files, Abs.curL, hc]
  have hb : (a.skipA f j).buckets cfg = a.buckets cfg := by simp [Abs.buckets, hfiles]
  have hrn : (a.skipA f j).rname = a.rname := by simp [Abs.rname, Abs.skipA, hc]
  have hwn : (a.skipA f j).wname = a.wname := rfl
  have hrefs : ∀ g, (a.skipA f j).refs g = a.refs g := by intro g; simp only [Abs.refs, hrn, hwn]
  obtain ⟨hfm, hrd, o, ho, hon, hos, hop, horc⟩ := inv.cur_view hc
  refine { disk := ?_, clock := inv.clock, lastID := inv.lastID, names := ?_, namesLt := ?_, wf := ?_, newTl := inv.newTl,
           preRead := inv.preRead, newRead := inv.newRead, waitIds := inv.waitIds, curOk := ?_, idsLe := ?_, idsNodup := ?_,
           known := ?_, ofiles := ?_, reading := ?_, writing := ?_, writingSome := inv.writingSome, waiting := inv.waiting,
           total := ?_, knownSize := ?_, waitingSize := inv.waitingSize, present := ?_ }
  · rw [hfiles]; exact inv.disk
  · rw [hfiles]; exact inv.names
  · rw [hfiles]; exact inv.namesLt
  · rw [hfiles]; exact inv.wf
  · intro g k h
    simp [Abs.skipA] at h
    obtain ⟨h1, h2⟩ := h
    subst h1; subst h2
    obtain ⟨_, h3, h4⟩ := inv.curOk f j hc
    refine ⟨hj, ?_, ?_⟩
    · intro r hr
      rcases (mem_take_succ _ _ hj r).mp hr with h | h
      · exact h3 r h
      · rw [h]; exact hd
    · intro r hr
      apply h4 r
      rw [List.drop_eq_getElem_cons hj]
      exact List.mem_cons_of_mem _ hr
  · rw [hb]; exact inv.idsLe
  · rw [hb]; exact inv.idsNodup
  · rw [hb]; exact inv.known
  · intro name
    simp only [setNextPos]
    by_cases hn : name = f.name
    · subst hn
      rw [findO_mapO s.ofiles f.name (fun g => { g with nextPos := recsLen (f.recs.take (j + 1)) }) o (fun _ => rfl) ho]
      refine ⟨hon, f, by rw [hfiles]; exact hfm, rfl, by rw [hrefs]; exact horc, ?_, hos, ?_⟩
      · rw [hrefs]
        have h0 := inv.ofiles f.name
        rw [ho] at h0
        obtain ⟨_, g, hg, hgn, _, hpos, _, _⟩ := h0
        have : g = f := inv.name_inj hg hfm hgn
        subst this; exact hpos
      · intro k h
        simp [Abs.skipA] at h
        subst h; rfl
    · rw [findO_mapO_ne s.ofiles f.name name (fun g => { g with nextPos := recsLen (f.recs.take (j + 1)) }) (fun _ => rfl) hn]
      have h0 := inv.ofiles name
      split
      · rename_i hnone
        rw [hnone] at h0
        intro g hg hgn
        rw [hfiles] at hg
        rw [hrefs]; exact h0 g hg hgn
      · rename_i o' hsome
        rw [hsome] at h0
        obtain ⟨ho', g, hg, hgn, hrc, hpos, hsz, _⟩ := h0
        refine ⟨ho', g, by rw [hfiles]; exact hg, hgn, by rw [hrefs]; exact hrc, by rw [hrefs]; exact hpos, hsz, ?_⟩
        intro k h
        simp [Abs.skipA] at h
        obtain ⟨h1, _⟩ := h
        rw [← h1] at hgn
        exact absurd hgn.symm hn
  · simp [setNextPos, hrn, inv.reading]
  · simp [setNextPos, hwn, inv.writing]
  · rw [hfiles]; simp [setNextPos, inv.total]
  · rw [hb]; simp [setNextPos, inv.knownSize]
  · intro g hg
    rw [hrefs]; exact inv.present g (by simpa [Abs.skipA] using hg)


/-! ### small step 3: hand out a good record -/

theorem take_len_succ {α} (r1 r2 : List α) (x : α) : (r1 ++ x :: r2).take (r1.length + 1) = r1 ++ [x] := by
  induction r1 with
  | nil => simp
  | cons y r1 ih => simpa using ih

theorem drop_len_succ {α} (r1 r2 : List α) (x : α) : (r1 ++ x :: r2).drop (r1.length + 1) = r2 := by
  induction r1 with
  | nil => simp
  | cons y r1 ih => simpa using ih

theorem nodup_insert_mid (X M Y : List Bucket) (nb : Bucket)
    (h : ((X ++ (M ++ Y)).map (·.id)).Nodup) (hk : ∀ b ∈ X ++ (M ++ Y), b.id ≠ nb.id) :
    ((X ++ ((M ++ [nb]) ++ Y)).map (·.id)).Nodup := by
  have hp : List.Perm (X ++ ((M ++ [nb]) ++ Y)) (nb :: (X ++ (M ++ Y))) := by
    have e1 : X ++ ((M ++ [nb]) ++ Y) = (X ++ M) ++ nb :: Y := by simp
    have e2 : X ++ (M ++ Y) = (X ++ M) ++ Y := by simp
    rw [e1, e2]; exact List.perm_middle
  rw [(hp.map _).nodup_iff, List.map_cons, List.nodup_cons]
  refine ⟨?_, h⟩
  intro hin
  obtain ⟨b, hb, hbk⟩ := List.mem_map.mp hin
  exact hk b hb hbk

theorem Inv.cur_name_ne {cfg : Cfg} {s : Shard} {a : Abs} (inv : Inv cfg s a) {f : AFile} {j : Nat} (hc : a.cur = some (f, j)) :
    ∀ g ∈ a.pre ++ (a.wait ++ a.new), g.name ≠ f.name := by
  have hnd := pairwise_lt_ne inv.names
  have hfiles : a.files = a.pre ++ (f :: (a.wait ++ a.new)) := by simp [Abs.files, Abs.curL, hc]
  rw [hfiles, List.map_append, List.map_cons, List.nodup_append] at hnd
  obtain ⟨_, h2, h3⟩ := hnd
  rw [List.nodup_cons] at h2
  intro g hg
  rcases List.mem_append.mp hg with h | h
  · exact h3 g.name (List.mem_map.mpr ⟨g, h, rfl⟩) f.name (by simp)
  · intro hgn
    exact h2.1 (by rw [← hgn]; exact List.mem_map.mpr ⟨g, h, rfl⟩)

def ARec.withId (r : ARec) (k : Nat) : ARec := { r with id := some k }
def AFile.setRecs (f : AFile) (rs : List ARec) : AFile := { f with recs := rs }

def Abs.goodA (a : Abs) (f : AFile) (r1 : List ARec) (r : ARec) (r2 : List ARec) : Abs :=
  { a with cur := some (f.setRecs (r1 ++ r.withId (a.lastID + 1) :: r2), r1.length + 1), lastID := a.lastID + 1 }

theorem encRecs_withId (cfg : Cfg) (r1 r2 : List ARec) (r : ARec) (k : Nat) :
    encRecs cfg (r1 ++ r.withId k :: r2) = encRecs cfg (r1 ++ r :: r2) := by
  simp [encRecs_append, encRecs, ARec.enc, ARec.withId]

theorem idc_append (a b : List ARec) : idc (a ++ b) = idc a + idc b := by simp [idc]

theorem unread_true {cfg : Cfg} {r : ARec} (h : unread cfg r = true) : r.dead cfg = false ∧ r.id = none := by
  simp [unread, hasId] at h
  exact ⟨h.1, h.2⟩

theorem inv_good (cfg : Cfg) (s : Shard) (a : Abs) (f : AFile) (r1 r2 : List ARec) (r : ARec) (o : OFile) (inv : Inv cfg s a)
    (hc : a.cur = some (f, r1.length)) (hrec : f.recs = r1 ++ r :: r2) (hu : unread cfg r = true)
    (ho : findO s.ofiles f.name = some o) :
    Inv cfg (register s o (r.hdr cfg) (recsLen r1 + r.len)) (a.goodA f r1 r r2) := by
  obtain ⟨hdead, hidn⟩ := unread_true hu
  obtain ⟨hfm, hrd, o', ho', hon, hos, hop, horc⟩ := inv.cur_view hc
  rw [ho] at ho'; cases ho'
  have htk : f.recs.take r1.length = r1 := by rw [hrec]; simp
  have hdr : f.recs.drop r1.length = r :: r2 := by rw [hrec]; simp
  rw [htk] at hop
  obtain ⟨_, hread1, hnone2⟩ := inv.curOk f r1.length hc
  rw [htk] at hread1; rw [hdr] at hnone2
  let k := a.lastID + 1
  let f' := f.setRecs (r1 ++ r.withId k :: r2)
  have hf'n : f'.name = f.name := rfl
  have hbytes : f'.bytes cfg = f.bytes cfg := by
    simp only [f', AFile.bytes, AFile.setRecs, hrec, encRecs_withId]
  have hrender : f'.render cfg = f.render cfg := by simp [AFile.render, hbytes, hf'n]
  have hsize : f'.size cfg = f.size cfg := by simp [AFile.size, hbytes]
  have hfilesA : a.files = a.pre ++ (f :: (a.wait ++ a.new)) := by simp [Abs.files, Abs.curL, hc]
  have hfilesA' : (a.goodA f r1 r r2).files = a.pre ++ (f' :: (a.wait ++ a.new)) := by
    simp [Abs.files, Abs.curL, Abs.goodA, f', k]
  have hne := inv.cur_name_ne hc
  have hmem' : ∀ g, g ∈ (a.goodA f r1 r r2).files ↔ g = f' ∨ (g ∈ a.files ∧ g ≠ f) := by
    intro g
    rw [hfilesA', hfilesA]
    simp only [List.mem_append, List.mem_cons]
    constructor
    · rintro (h | h | h)
      · right; exact ⟨Or.inl h, fun hgf => hne g (by simp [h]) (by rw [hgf])⟩
      · left; exact h
      · right; exact ⟨Or.inr (Or.inr h), fun hgf => hne g (by simpa using Or.inr h) (by rw [hgf])⟩
    · rintro (h | ⟨h | h | h, hne⟩)
      · right; left; exact h
      · left; exact h
      · exact absurd h hne
      · right; right; exact h
  have hM2 : ∀ off, bucketsAt cfg f.name off r2 = [] := fun off =>
    bucketsAt_none cfg _ _ _ (fun q hq => hnone2 q (by simp [hq]))
  let nb : Bucket := ⟨k, f.name, recsLen r1, r.time, r.body.length, cfg.crc r.body⟩
  have hfb : fbuckets cfg f = bucketsAt cfg f.name 0 r1 := by
    simp [fbuckets, hrec, bucketsAt_append, bucketsAt, bucketOf, hidn, hM2]
  have hfb' : fbuckets cfg f' = bucketsAt cfg f.name 0 r1 ++ [nb] := by
    simp [fbuckets, f', AFile.setRecs, bucketsAt_append, bucketsAt, bucketOf, ARec.withId, hM2, nb]
  have hB : a.buckets cfg = a.pre.flatMap (fbuckets cfg) ++ (bucketsAt cfg f.name 0 r1 ++ (a.wait ++ a.new).flatMap (fbuckets cfg)) := by
    rw [Abs.buckets_cur cfg a f _ hc, hfb]
  have hB' : (a.goodA f r1 r r2).buckets cfg =
      a.pre.flatMap (fbuckets cfg) ++ ((bucketsAt cfg f.name 0 r1 ++ [nb]) ++ (a.wait ++ a.new).flatMap (fbuckets cfg)) := by
    rw [Abs.buckets_cur cfg (a.goodA f r1 r r2) f' (r1.length + 1) rfl, hfb']
    rfl
  have hmemB : ∀ b, b ∈ (a.goodA f r1 r r2).buckets cfg ↔ b = nb ∨ b ∈ a.buckets cfg := by
    intro b; rw [hB', hB]; simp only [List.mem_append, List.mem_singleton]
    constructor
    · rintro (h | (h | h) | h)
      · right; left; exact h
      · right; right; left; exact h
      · left; exact h
      · right; right; right; exact h
    · rintro (h | h | h | h)
      · right; left; right; exact h
      · left; exact h
      · right; left; left; exact h
      · right; right; exact h
  have hrn : (a.goodA f r1 r r2).rname = a.rname := by simp [Abs.rname, Abs.goodA, hc, AFile.setRecs]
  have hwn : (a.goodA f r1 r r2).wname = a.wname := rfl
  have hrefs : ∀ g, g ≠ f' → (a.goodA f r1 r r2).refs g = a.refs g := by intro g _; simp only [Abs.refs, hrn, hwn]
  have hidc : idc f'.recs = idc f.recs + 1 := by
    simp only [f', AFile.setRecs, hrec, idc_append]
    simp [idc, List.filter_cons, hasId, ARec.withId, hidn]; omega
  have hrefs' : (a.goodA f r1 r r2).refs f' = a.refs f + 1 := by
    simp only [Abs.refs, hrn, hwn, hidc, hf'n]; push_cast; omega
  refine { disk := ?_, clock := inv.clock, lastID := ?_, names := ?_, namesLt := ?_, wf := ?_, newTl := inv.newTl,
           preRead := inv.preRead, newRead := inv.newRead, waitIds := inv.waitIds, curOk := ?_, idsLe := ?_, idsNodup := ?_,
           known := ?_, ofiles := ?_, reading := ?_, writing := ?_, writingSome := inv.writingSome, waiting := inv.waiting,
           total := ?_, knownSize := ?_, waitingSize := inv.waitingSize, present := ?_ }
  · rw [hfilesA']; simp only [register, inv.disk, hfilesA, List.map_append, List.map_cons, hrender]
  · simp [register, Abs.goodA, inv.lastID]
  · rw [hfilesA']; have := inv.names; rw [hfilesA] at this; simpa [hf'n] using this
  · intro g hg
    rcases (hmem' g).mp hg with h | ⟨h, _⟩
    · subst h; exact inv.namesLt f hfm
    · exact inv.namesLt g h
  · intro g hg
    rcases (hmem' g).mp hg with h | ⟨h, _⟩
    · subst h
      obtain ⟨hw1, hw2⟩ := inv.wf f hfm
      refine ⟨?_, hw2⟩
      intro q hq
      simp only [f', AFile.setRecs, List.mem_append, List.mem_cons] at hq
      rcases hq with h | h | h
      · exact hw1 q (by rw [hrec]; simp [h])
      · subst h
        obtain ⟨a1, a2, a3, a4, a5, _⟩ := hw1 r (by rw [hrec]; simp)
        exact ⟨a1, a2, a3, a4, a5, fun _ => hdead⟩
      · exact hw1 q (by rw [hrec]; simp [h])
    · exact inv.wf g h
  · intro g j h
    simp only [Abs.goodA, Option.some.injEq, Prod.mk.injEq] at h
    obtain ⟨h1, h2⟩ := h
    subst h1; subst h2
    refine ⟨by simp [AFile.setRecs], ?_, ?_⟩
    · intro q hq
      simp only [AFile.setRecs, take_len_succ, List.mem_append, List.mem_singleton] at hq
      rcases hq with h | h
      · exact hread1 q h
      · subst h; simp [unread, hasId, ARec.withId]
    · intro q hq
      simp only [AFile.setRecs, drop_len_succ] at hq
      exact hnone2 q (by simp [hq])
  · intro b hb
    rcases (hmemB b).mp hb with h | h
    · subst h; simp [Abs.goodA, nb, k]
    · have := inv.idsLe b h; simp [Abs.goodA]; omega
  · have hnd := inv.idsNodup
    rw [hB] at hnd; rw [hB']
    apply nodup_insert_mid _ _ _ _ hnd
    intro b hb
    have := inv.idsLe b (by rw [hB]; exact hb)
    simp only [nb, k]; omega
  · intro b
    simp only [register, List.mem_cons]
    rw [hmemB, ← inv.known, inv.lastID, hon, hop]
    rfl
  · intro name
    simp only [register, hon]
    by_cases hn : name = f.name
    · subst hn
      rw [findO_mapO s.ofiles f.name (fun g => { g with refCount := g.refCount + 1, nextPos := recsLen r1 + r.len }) o (fun _ => rfl) ho]
      refine ⟨hon, f', by rw [hfilesA']; simp, rfl, ?_, ?_, ?_, ?_⟩
      · rw [hrefs']; simp [horc]
      · rw [hrefs']; have := Abs.refs_nonneg a f; omega
      · rw [hsize]; exact hos
      · intro j h
        simp only [Abs.goodA, Option.some.injEq, Prod.mk.injEq] at h
        rw [← h.2]
        simp only [f', AFile.setRecs, take_len_succ, recsLen_append, recsLen, ARec.len, ARec.withId]; omega
    · rw [findO_mapO_ne s.ofiles f.name name (fun g => { g with refCount := g.refCount + 1, nextPos := recsLen r1 + r.len }) (fun _ => rfl) hn]
      have h0 := inv.ofiles name
      split
      · rename_i hnone
        rw [hnone] at h0
        intro g hg hgn
        rcases (hmem' g).mp hg with h | ⟨h, _⟩
        · subst h; exact absurd hgn.symm hn
        · rw [hrefs g (by intro h2; subst h2; exact hn hgn.symm)]; exact h0 g h hgn
      · rename_i o2 hsome
        rw [hsome] at h0
        obtain ⟨ho2, g, hg, hgn, hrc, hpos, hsz, _⟩ := h0
        have hgf : g ≠ f := by intro h; subst h; exact hn hgn.symm
        have hgf' : g ≠ f' := by intro h; subst h; exact hn hgn.symm
        refine ⟨ho2, g, (hmem' g).mpr (Or.inr ⟨hg, hgf⟩), hgn, by rw [hrefs g hgf']; exact hrc, by rw [hrefs g hgf']; exact hpos, hsz, ?_⟩
        intro j h
        simp only [Abs.goodA, Option.some.injEq, Prod.mk.injEq] at h
        exact absurd h.1.symm hgf'
  · simp [register, hrn, inv.reading]
  · simp [register, hwn, inv.writing]
  · rw [hfilesA']; simp only [register, inv.total, hfilesA, sizeSum, List.map_append, List.map_cons, hsize]
  · rw [hB']; simp only [register, inv.knownSize, hB, List.map_append, List.sum_append, List.map_cons, List.map_nil, List.sum_cons, List.sum_nil]
    simp [bsize, nb, ARec.hdr]; omega
  · intro g hg
    have hg0 : g ∈ a.pre ++ a.new := by simpa [Abs.goodA] using hg
    have hgf' : g ≠ f' := by
      intro h
      have := hne g (by simp only [List.mem_append] at hg0 ⊢; rcases hg0 with h1 | h1; exact Or.inl h1; exact Or.inr (Or.inr h1))
      rw [h] at this; exact this rfl
    rw [hrefs g hgf']; exact inv.present g hg0

end SH.C09
