/-
  SH.Lemmas.DiskCacheAbs — abstract records/files for the refinement proof of C09 (history level):
  a file on disk is `encRecs` of a list of abstract records (+ a tail at which the scan stops).
-/
import SH.Lemmas.DiskCacheBytes

namespace SH.C09
open SH.DiskCache

/-! ## abstract records / files -/

structure ARec where
  magic : Nat
  time : Nat
  body : Bytes
  id : Option Nat
deriving DecidableEq, Repr

def ARec.enc (cfg : Cfg) (r : ARec) : Bytes := encHeader r.magic r.time r.body.length (cfg.crc r.body) ++ r.body
def ARec.len (r : ARec) : Nat := headerSize + r.body.length
def ARec.dead (cfg : Cfg) (r : ARec) : Bool := isDeletedMagic cfg r.magic
def ARec.hdr (cfg : Cfg) (r : ARec) : Hdr := ⟨r.magic, r.time, r.body.length, cfg.crc r.body⟩

def ARec.WF (cfg : Cfg) (r : ARec) : Prop :=
  r.magic < 2 ^ 32 ∧ r.time < 2 ^ 32 ∧ r.body.length ≤ maxChunkSize ∧ cfg.crc r.body < 2 ^ 32 ∧
  (r.dead cfg = false → r.magic = magicGood) ∧ (r.id ≠ none → r.dead cfg = false)

def encRecs (cfg : Cfg) : List ARec → Bytes
  | [] => []
  | r :: rs => r.enc cfg ++ encRecs cfg rs

def recsLen : List ARec → Nat
  | [] => 0
  | r :: rs => r.len + recsLen rs

theorem ARec.enc_length (cfg : Cfg) (r : ARec) : (r.enc cfg).length = r.len := by
  simp [ARec.enc, ARec.len, encHeader_length, headerSize]

theorem encRecs_length (cfg : Cfg) (rs : List ARec) : (encRecs cfg rs).length = recsLen rs := by
  induction rs with
  | nil => rfl
  | cons r rs ih => simp [encRecs, recsLen, ih, ARec.enc_length]

theorem encRecs_append (cfg : Cfg) (a b : List ARec) : encRecs cfg (a ++ b) = encRecs cfg a ++ encRecs cfg b := by
  induction a with
  | nil => rfl
  | cons r a ih => simp [encRecs, ih]

theorem recsLen_append (a b : List ARec) : recsLen (a ++ b) = recsLen a + recsLen b := by
  induction a with
  | nil => simp [recsLen]
  | cons r a ih => simp [recsLen, ih]; omega

theorem ARec.len_pos (r : ARec) : 0 < r.len := by simp [ARec.len, headerSize]; omega

/-- a tail after the last record at which the scan stops: nothing, or a strict non-empty prefix of some record -/
def TailStop (tl : Bytes) : Prop :=
  tl = [] ∨ ∃ m t c k, ∃ body : Bytes, m < 2 ^ 32 ∧ t < 2 ^ 32 ∧ c < 2 ^ 32 ∧ body.length ≤ maxChunkSize ∧
    0 < k ∧ k < headerSize + body.length ∧ tl = (encHeader m t body.length c ++ body).take k

/-- one loop iteration at the boundary of record `r` -/
theorem look_boundary (cfg : Cfg) (r1 r2 : List ARec) (r : ARec) (tl : Bytes) (hw : r.WF cfg) :
    look cfg (encRecs cfg (r1 ++ r :: r2) ++ tl) (encRecs cfg (r1 ++ r :: r2) ++ tl).length (recsLen r1) =
      if r.dead cfg then .skip (recsLen r1 + r.len) else .good (r.hdr cfg) (recsLen r1 + r.len) := by
  obtain ⟨hm, ht, hb, hc, hg, _⟩ := hw
  have e : encRecs cfg (r1 ++ r :: r2) ++ tl =
      encRecs cfg r1 ++ (encHeader r.magic r.time r.body.length (cfg.crc r.body) ++ (r.body ++ (encRecs cfg r2 ++ tl))) := by
    simp [encRecs_append, encRecs, ARec.enc]
  have hl := encRecs_length cfg r1
  have h := look_at_magic cfg (encRecs cfg r1) r.body (encRecs cfg r2 ++ tl) r.magic r.time (cfg.crc r.body)
    (encRecs cfg (r1 ++ r :: r2) ++ tl).length hm ht hc hb (by
      rw [e]; simp [encHeader_length, headerSize])
  rw [hl] at h
  rw [← e] at h
  rw [h]
  cases hd : r.dead cfg
  · have : r.magic = magicGood := hg hd
    have hd' : isDeletedMagic cfg r.magic = false := hd
    simp [this, isDeleted_good, ARec.hdr, ARec.len, Nat.add_assoc]
  · have hd' : isDeletedMagic cfg r.magic = true := hd
    simp [hd', ARec.len, Nat.add_assoc]

/-- at the end of the records: either the file ends there or the scan stops on the tail -/
theorem look_end (cfg : Cfg) (rs : List ARec) (tl : Bytes) (ht : TailStop tl) :
    recsLen rs ≥ (encRecs cfg rs ++ tl).length ∨
      look cfg (encRecs cfg rs ++ tl) (encRecs cfg rs ++ tl).length (recsLen rs) = .stop := by
  rcases ht with h | ⟨m, t, c, k, body, hm, ht, hc, hb, hk0, hk, he⟩
  · left; subst h; simp [encRecs_length]
  · right
    have hs64 : body.length < 2 ^ 64 := by
      have : maxChunkSize < 2 ^ 64 := by decide
      omega
    have hl := encRecs_length cfg rs
    subst he
    unfold look
    by_cases h20 : k < headerSize
    · have : readHdr (encRecs cfg rs ++ (encHeader m t body.length c ++ body).take k) (recsLen rs) = none := by
        unfold readHdr parseHdr
        rw [← hl, List.drop_left]
        rw [if_pos (by simp [List.length_take]; omega)]
      rw [this]
    · have hk20 : headerSize ≤ k := by omega
      have e : (encHeader m t body.length c ++ body).take k = encHeader m t body.length c ++ body.take (k - headerSize) := by
        rw [List.take_append, encHeader_length]
        rw [List.take_of_length_le (by simp [encHeader_length, headerSize] at hk20 ⊢; omega)]
        rfl
      rw [e, ← hl, readHdr_at (encRecs cfg rs) _ _ _ _ _ hm ht hs64 hc]
      have hbad : badChunk ⟨m, t, body.length, c⟩
          (encRecs cfg rs ++ (encHeader m t body.length c ++ body.take (k - headerSize))).length (encRecs cfg rs).length = true := by
        simp [badChunk, encHeader_length, List.length_take, headerSize] at hk hk20 ⊢
        omega
      simp only [hbad, if_true]

end SH.C09
