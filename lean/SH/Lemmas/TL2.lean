/-
  SH.Lemmas.TL2 — lemmas for the TL2 codec (SH.Model.TL2): the size codec and strings, presence bits, the block/trim
  layout of object bodies against the slot reader (`decSlot_step`), well-typedness `wt2`, and the round trip of every
  descriptor of the modelled fragment (`rt2_all`, by the mutual recursor); used by SH.Props.C14.
-/
import SH.Lemmas.TL
import SH.Model.TL2
namespace SH.C14
open SH.TL

theorem tl2Tiny_iff (l : Nat) : tl2Tiny l = true ↔ l < 254 := by
  unfold tl2Tiny mediumStringMarker; exact decide_eq_true_iff
theorem tl2Medium_iff (l : Nat) : tl2Medium l = true ↔ l < 65790 := by
  unfold tl2Medium mediumStringMarker; exact decide_eq_true_iff

/-- TL2ParseSize (TL2WriteSize n ++ rest) = (n, rest) for every size an `int` can hold -/
theorem tl2_size_rt (n : Nat) (hn : n ≤ maxInt) (r : Bytes) :
    tl2ParseSize (tl2WriteSize n ++ r) = some (n, r) := by
  unfold maxInt at hn
  by_cases h1 : tl2Tiny n = true
  · have h1' : n < 254 := (tl2Tiny_iff n).1 h1
    have hh : tl2WriteSize n = [UInt8.ofNat n] := by simp [tl2WriteSize, h1]
    have e : (UInt8.ofNat n).toNat = n := by rw [UInt8.toNat_ofNat']; omega
    rw [hh]
    simp only [List.cons_append, List.nil_append, tl2ParseSize, e, mediumStringMarker, h1', if_true]
  · have h1' : ¬ n < 254 := fun x => h1 ((tl2Tiny_iff n).2 x)
    by_cases h2 : tl2Medium n = true
    · have h2' : n < 65790 := (tl2Medium_iff n).1 h2
      have hh : tl2WriteSize n = [254, UInt8.ofNat ((n - 254) % 256), UInt8.ofNat ((n - 254) / 256 % 256)] := by
        simp [tl2WriteSize, h1, h2]
      have e : 254 + ((UInt8.ofNat ((n - 254) % 256)).toNat + (UInt8.ofNat ((n - 254) / 256 % 256)).toNat * 256) = n := by
        simp only [UInt8.toNat_ofNat']; omega
      have c1 : ¬ (254 : UInt8).toNat < 254 := by decide
      have c2 : (254 : UInt8).toNat = 254 := by decide
      rw [hh]
      simp only [List.cons_append, List.nil_append, tl2ParseSize, mediumStringMarker, c2, if_true, e]
      simp
    · have h2' : ¬ n < 65790 := fun x => h2 ((tl2Medium_iff n).2 x)
      have hh : tl2WriteSize n = 255 :: le64 n := by simp [tl2WriteSize, h1, h2]
      have e : (UInt8.ofNat (n % 256)).toNat + (UInt8.ofNat (n / 256 % 256)).toNat * 256
            + (UInt8.ofNat (n / 65536 % 256)).toNat * 65536 + (UInt8.ofNat (n / 16777216 % 256)).toNat * 16777216
            + (UInt8.ofNat (n / 4294967296 % 256)).toNat * 4294967296
            + (UInt8.ofNat (n / 1099511627776 % 256)).toNat * 1099511627776
            + (UInt8.ofNat (n / 281474976710656 % 256)).toNat * 281474976710656
            + (UInt8.ofNat (n / 72057594037927936 % 256)).toNat * 72057594037927936 = n := by
        simp only [UInt8.toNat_ofNat']; omega
      have c1 : ¬ (255 : UInt8).toNat < 254 := by decide
      have c2 : ¬ (255 : UInt8).toNat = 254 := by decide
      have c3 : ¬ n > 9223372036854775807 := by omega
      rw [hh]
      simp only [le64, List.cons_append, List.nil_append, tl2ParseSize, mediumStringMarker, maxInt, c1, c2, if_false, e, c3]

/-- TL2CalculateSize is the number of bytes TL2WriteSize / TL2PutSize produce -/
theorem tl2_size_len (n : Nat) : (tl2WriteSize n).length = tl2CalculateSize n := by
  unfold tl2WriteSize tl2CalculateSize
  by_cases h1 : tl2Tiny n = true
  · simp [h1]
  · by_cases h2 : tl2Medium n = true <;> simp [h1, h2, le64]

/-- StringReadTL2 (StringWriteTL2 b ++ rest) = (b, rest) -/
theorem tl2_string_rt (b r : Bytes) (hn : b.length ≤ maxInt) :
    tl2ReadStr (tl2WriteStr b ++ r) = some (b, r) := by
  unfold tl2ReadStr tl2WriteStr
  rw [List.append_assoc, tl2_size_rt _ hn]
  exact takeN_append b r


theorem testBit_bitsToNat : ∀ (l : List Bool) (i : Nat), (bitsToNat l).testBit i = l.getD i false
  | [], i => by simp [bitsToNat]
  | b :: bs, 0 => by
    cases b <;> simp [bitsToNat, Nat.testBit_zero] <;> omega
  | b :: bs, i + 1 => by
    have ih := testBit_bitsToNat bs i
    have h : ((if b then 1 else 0) + 2 * bitsToNat bs) / 2 = bitsToNat bs := by cases b <;> simp <;> omega
    simp only [bitsToNat, Nat.testBit_succ, h, ih, List.getD_cons_succ]

theorem bitsToNat_lt : ∀ (l : List Bool), bitsToNat l < 2 ^ l.length
  | [] => by simp [bitsToNat]
  | b :: bs => by
    have ih := bitsToNat_lt bs
    cases b <;> simp [bitsToNat, Nat.pow_succ] <;> omega

theorem blockByte_toNat (l : List Bool) : (UInt8.ofNat (bitsToNat (l.take 8))).toNat = bitsToNat (l.take 8) := by
  rw [UInt8.toNat_ofNat']
  have h := bitsToNat_lt (l.take 8)
  have h2 : (l.take 8).length ≤ 8 := by simp [List.length_take]; omega
  have h3 : 2 ^ (l.take 8).length ≤ 2 ^ 8 := Nat.pow_le_pow_right (by decide) h2
  omega

/-- the block byte in force agrees with the presence flags of the slots that remain in the current block -/
def blkInv (k blk : Nat) (pres : List Bool) : Prop :=
  k % 8 ≠ 0 → ∀ j, k % 8 + j < 8 → blk.testBit (k % 8 + j) = pres.getD j false

theorem layout_none : ∀ (k : Nat) (es : List (Bool × Bytes)), es.any (·.1) = false → layout k es = []
  | _, [], _ => rfl
  | k, (p, b) :: rest, h => by simp [layout, h]


theorem getD_take (l : List Bool) (n i : Nat) (h : i < n) : (l.take n).getD i false = l.getD i false := by
  simp [List.getD, h]

theorem getD_of_any_false : ∀ (es : List (Bool × Bytes)) (j : Nat), es.any (·.1) = false → (es.map (·.1)).getD j false = false
  | [], j, _ => by simp
  | (p, b) :: rest, 0, h => by simp at h; simp [h.1]
  | (p, b) :: rest, j + 1, h => by
    simp at h
    have := getD_of_any_false rest j (by simpa using h.2)
    simpa using this

theorem blkInv_next (k blk : Nat) (p : Bool) (pres : List Bool) (hk : k % 8 ≠ 0) (h : blkInv k blk (p :: pres)) :
    blkInv (k + 1) blk pres := by
  intro h1 j hj
  have e : (k + 1) % 8 = k % 8 + 1 := by omega
  rw [e] at hj ⊢
  have := h hk (j + 1) (by omega)
  simpa [Nat.add_assoc, Nat.add_comm 1 j] using this

theorem blkInv_fresh (k : Nat) (p : Bool) (pres : List Bool) (hk : k % 8 = 0) :
    blkInv (k + 1) (bitsToNat ((p :: pres).take 8)) pres := by
  intro _ j hj
  have e : (k + 1) % 8 = 1 := by omega
  rw [e] at hj ⊢
  rw [testBit_bitsToNat, getD_take _ _ _ hj]
  simp [Nat.add_comm 1 j]

theorem decSlot_step (rd : Bytes → Option (Val × Bytes)) (dv : Val) (cont : Nat → Bytes → Option Vals) (k blk : Nat)
    (p : Bool) (b : Bytes) (v : Val) (es : List (Bool × Bytes)) (vs : Vals)
    (hinv : blkInv k blk (p :: es.map (·.1)))
    (hrd : p = true → ∀ rest, rd (b ++ rest) = some (v, rest))
    (hdv : p = false → v = dv)
    (hcont : ∀ blk', blkInv (k + 1) blk' (es.map (·.1)) → cont blk' (layout (k + 1) es) = some vs) :
    decSlot rd dv cont k blk (layout k ((p, b) :: es)) = some (.cons v vs) := by
  by_cases hany : ((p, b) :: es).any (·.1) = true
  · -- something is present at or after this slot
    have hl : layout k ((p, b) :: es) =
        (if k % 8 = 0 then [UInt8.ofNat (bitsToNat ((p :: es.map (·.1)).take 8))] else [])
          ++ (if p then b else []) ++ layout (k + 1) es := by
      simp only [layout, hany, if_true, List.map_take, List.map_cons]
    rw [hl]
    by_cases hk : k % 8 = 0
    · have hb := blockByte_toNat (p :: es.map (·.1))
      have hbit : slotSet k (bitsToNat ((p :: es.map (·.1)).take 8)) = p := by
        unfold slotSet
        rw [hk, testBit_bitsToNat, getD_take _ _ _ (by decide)]
        rfl
      have hc := hcont _ (blkInv_fresh k p (es.map (·.1)) hk)
      generalize bitsToNat ((p :: es.map (·.1)).take 8) = B at hb hbit hc ⊢
      cases p with
      | true =>
        simp only [decSlot, nextBlock, hk, if_true, List.cons_append, List.nil_append, hb, hbit, List.append_assoc,
          hrd rfl, hc]
      | false =>
        have hd := hdv rfl
        subst hd
        simp only [decSlot, nextBlock, hk, if_true, List.cons_append, List.nil_append, hb, hbit, hc,
          Bool.false_eq_true, if_false]
    · have hbit : slotSet k blk = p := by
        unfold slotSet
        have := hinv hk 0 (by omega)
        simpa using this
      have hc := hcont blk (blkInv_next k blk p _ hk hinv)
      cases p with
      | true =>
        simp only [decSlot, nextBlock, hk, if_false, List.nil_append, hbit, if_true, List.append_assoc, hrd rfl, hc]
      | false =>
        have hd := hdv rfl
        subst hd
        simp only [decSlot, nextBlock, hk, if_false, List.nil_append, hbit, hc, Bool.false_eq_true]
  · -- nothing present from here on: the body has already ended
    have hany' : ((p, b) :: es).any (·.1) = false := by simpa using hany
    have hp : p = false := by simp at hany'; exact hany'.1
    have hes : es.any (·.1) = false := by simp at hany'; simpa using hany'.2
    subst hp
    rw [layout_none _ _ hany']
    have hl : layout (k + 1) es = [] := layout_none _ _ hes
    by_cases hk : k % 8 = 0
    · have hinv' : blkInv (k + 1) 0 (es.map (·.1)) := by
        intro _ j _
        rw [Nat.zero_testBit, getD_of_any_false es j hes]
      have hc := hcont 0 hinv'
      rw [hl] at hc
      simp only [decSlot, nextBlock, hk, if_true, slotSet, Nat.zero_testBit, hc, hdv rfl]
      simp
    · have hbit : slotSet k blk = false := by
        unfold slotSet
        have := hinv hk 0 (by omega)
        simpa using this
      have hc := hcont blk (blkInv_next k blk false _ hk hinv)
      rw [hl] at hc
      simp only [decSlot, nextBlock, hk, if_false, hbit, hc, hdv rfl]
      simp

/-! ### the TL2 round trip, by induction on descriptors -/

mutual
/-- the values the TL2 codec round-trips: TL1's well-typed values restricted to the modelled fragment, with every body
    short enough for its size prefix -/
def wt2 : Desc → Val → Bool
  | .nat, .nat n => n < 4294967296
  | .fixed w, .raw b => b.length == w && (w == 4 || w == 8)
  | .str, .str b => b.length ≤ maxInt
  | .boxed _ t, v => wt2 t v
  | .union alts, .alt i v => i < altCount alts && i ≤ maxInt && v == .recd .nil
  | .struct _ fs, .recd vs => wt2Fs fs vs && (layout 0 ((false, []) :: encFs fs vs)).length ≤ maxInt
  | .vec t, .list vs =>
    allVals (wt2 t) vs && vs.length ≤ maxInt && (tl2WriteSize vs.length ++ encVals (encE t) vs).length ≤ maxInt
  | _, _ => false
def wt2Fs : Flds → Vals → Bool
  | .nil, .nil => true
  | .natF rest, .cons (.nat n) vs => n < 4294967296 && wt2Fs rest vs
  | .fld t rest, .cons v vs => wt2 t v && wt2Fs rest vs
  | .opt _ _ t rest, .cons v vs => (v.isNone || (if isEmptyCtor t then v == .recd .nil else wt2 t v)) && wt2Fs rest vs
  | _, _ => false
end

/-- the four facts carried through the induction for one descriptor -/
structure RT2 (d : Desc) : Prop where
  elem : ∀ v r, wt2 d v = true → headIsBool d = false → decE d (encE d v ++ r) = some (v, r)
  fdef : ∀ v, wt2 d v = true → encF d v = [] → v = defaultV d
  fld : ∀ v r, wt2 d v = true → encF d v ≠ [] → decE d (encF d v ++ r) = some (v, r)
  ne : ∀ v, wt2 d v = true → headIsBool d = false → encE d v ≠ []

theorem rt2_nat : RT2 .nat := by
  refine ⟨?_, ?_, ?_, ?_⟩
  · intro v r h _
    cases v <;> simp [wt2] at h
    simp [encE, decE, readNat_le32 _ h]
  · intro v h he
    cases v <;> simp [wt2] at h
    rename_i n
    by_cases hn : n = 0
    · subst hn; rfl
    · simp [encF, hn, le32] at he
  · intro v r h he
    cases v <;> simp [wt2] at h
    rename_i n
    by_cases hn : n = 0
    · simp [encF, hn] at he
    · simp [encF, hn, decE, readNat_le32 _ h]
  · intro v h _
    cases v <;> simp [wt2] at h
    simp [encE, le32]

theorem allZero_replicate' : ∀ (b : Bytes), allZero b = true → b = List.replicate b.length 0
  | [], _ => rfl
  | x :: xs, h => by
    simp [allZero] at h
    have := allZero_replicate' xs (by simpa [allZero] using h.2)
    simp [List.replicate_succ, h.1]
    exact this

theorem wt2_fixed (w : Nat) (v : Val) (h : wt2 (.fixed w) v = true) : ∃ b, v = .raw b ∧ b.length = w ∧ (w = 4 ∨ w = 8) := by
  cases v <;> simp [wt2] at h
  exact ⟨_, rfl, h.1, h.2⟩

theorem rt2_fixed (w : Nat) : RT2 (.fixed w) := by
  refine ⟨?_, ?_, ?_, ?_⟩
  · intro v r h _
    obtain ⟨b, rfl, hw, _⟩ := wt2_fixed w v h
    rw [encE, decE, ← hw, takeN_append]
  · intro v h he
    obtain ⟨b, rfl, hw, hw2⟩ := wt2_fixed w v h
    by_cases hz : allZero b = true
    · have := allZero_replicate' b hz
      rw [defaultV, ← hw, ← this]
    · simp only [encF, hz] at he
      subst he
      rcases hw2 with h4 | h8 <;> simp_all
  · intro v r h he
    obtain ⟨b, rfl, hw, _⟩ := wt2_fixed w v h
    by_cases hz : allZero b = true
    · simp [encF, hz] at he
    · have hz' : allZero b = false := by simpa using hz
      simp only [encF, hz', Bool.false_eq_true, if_false, decE]
      rw [← hw, takeN_append]
  · intro v h _
    obtain ⟨b, rfl, hw, hw2⟩ := wt2_fixed w v h
    simp only [encE]
    intro hb
    subst hb
    rcases hw2 with h4 | h8 <;> simp_all

theorem tl2WriteSize_ne (n : Nat) : tl2WriteSize n ≠ [] := by
  have := tl2_size_len n
  intro h
  rw [h] at this
  unfold tl2CalculateSize at this
  split at this <;> try split at this
  all_goals simp at this

theorem rt2_str : RT2 .str := by
  refine ⟨?_, ?_, ?_, ?_⟩
  · intro v r h _
    cases v <;> simp [wt2] at h
    simp [encE, decE, tl2_string_rt _ _ h]
  · intro v h he
    cases v <;> simp [wt2] at h
    rename_i b
    cases b with
    | nil => rfl
    | cons x xs =>
      simp [encF, tl2WriteStr] at he
  · intro v r h he
    cases v <;> simp [wt2] at h
    rename_i b
    cases b with
    | nil => simp [encF] at he
    | cons x xs => simp [encF, decE, tl2_string_rt _ _ h]
  · intro v h _
    cases v <;> simp [wt2] at h
    simp only [encE, tl2WriteStr]
    intro hh
    have := tl2WriteSize_ne _ (List.append_eq_nil_iff.1 hh).1
    exact this


theorem rt2_boxed (tag : Nat) (t : Desc) (ih : RT2 t) : RT2 (.boxed tag t) := by
  refine ⟨?_, ?_, ?_, ?_⟩
  · intro v r h hb
    simp only [wt2] at h
    simp only [headIsBool] at hb
    simp only [encE, decE]
    exact ih.elem v r h hb
  · intro v h he
    simp only [wt2] at h
    simp only [encF] at he
    simp only [defaultV]
    exact ih.fdef v h he
  · intro v r h he
    simp only [wt2] at h
    simp only [encF] at he ⊢
    simp only [decE]
    exact ih.fld v r h he
  · intro v h hb
    simp only [wt2] at h
    simp only [headIsBool] at hb
    simp only [encE]
    exact ih.ne v h hb

theorem parse_tiny (n : Nat) (hn : n < 254) (r : Bytes) : tl2ParseSize (UInt8.ofNat n :: r) = some (n, r) := by
  have h := tl2_size_rt n (by unfold maxInt; omega) r
  have hh : tl2WriteSize n = [UInt8.ofNat n] := by
    have : tl2Tiny n = true := (tl2Tiny_iff n).2 hn
    simp [tl2WriteSize, this]
  rw [hh] at h
  exact h

theorem calc_le (i : Nat) : 1 ≤ tl2CalculateSize i ∧ tl2CalculateSize i ≤ 9 := by
  unfold tl2CalculateSize
  split <;> try split
  all_goals omega

theorem dec_enumBytes (alts : Alts) (hb : isBoolAlts alts = false) (i : Nat) (hi : i < altCount alts) (hm : i ≤ maxInt)
    (hz : i ≠ 0) (r : Bytes) :
    decE (.union alts) (enumBytes i ++ r) = some (.alt i (.recd .nil), r) := by
  have hc := calc_le i
  have hlen : (1 :: tl2WriteSize i : Bytes).length = 1 + tl2CalculateSize i := by
    simp [tl2_size_len]; omega
  have hp := parse_tiny (1 + tl2CalculateSize i) (by omega) ((1 :: tl2WriteSize i) ++ r)
  have ht := takeN_append (1 :: tl2WriteSize i) r
  rw [hlen] at ht
  have hs := tl2_size_rt i hm []
  rw [List.append_nil] at hs
  have hne : ¬ (1 + tl2CalculateSize i = 0) := by omega
  have hge : ¬ i ≥ altCount alts := by omega
  have hbit : (1 : UInt8).toNat.testBit 0 = true := by decide
  simp only [enumBytes, List.cons_append] at hp ht ⊢
  simp only [decE, hb, Bool.false_eq_true, if_false, hp, hne, ht, decEnumBody, hbit, if_true, hs, hge]

theorem altCount_bool (alts : Alts) (h : isBoolAlts alts = true) : altCount alts = 2 := by
  match alts, h with
  | .cons _ _ (.cons _ _ .nil), _ => rfl

theorem wt2_union (alts : Alts) (v : Val) (h : wt2 (.union alts) v = true) :
    ∃ i, v = .alt i (.recd .nil) ∧ i < altCount alts ∧ i ≤ maxInt := by
  cases v <;> simp [wt2] at h
  rename_i i w
  obtain ⟨⟨h1, h2⟩, h3⟩ := h
  subst h3
  exact ⟨i, rfl, h1, h2⟩

theorem parse_zero (r : Bytes) : tl2ParseSize (0 :: r) = some (0, r) := parse_tiny 0 (by decide) r

theorem rt2_union (alts : Alts) : RT2 (.union alts) := by
  refine ⟨?_, ?_, ?_, ?_⟩
  · intro v r h hb
    obtain ⟨i, rfl, hi, hm⟩ := wt2_union alts v h
    simp only [headIsBool] at hb
    by_cases hz : i = 0
    · subst hz
      simp only [encE, if_true, List.cons_append, List.nil_append, decE, hb, Bool.false_eq_true, if_false, parse_zero]
    · simp only [encE, hz, if_false]
      exact dec_enumBytes alts hb i hi hm hz r
  · intro v h he
    obtain ⟨i, rfl, hi, hm⟩ := wt2_union alts v h
    by_cases hb : isBoolAlts alts = true
    · have h2 := altCount_bool alts hb
      by_cases h1 : i = 1
      · simp [encF, hb, h1] at he
      · have : i = 0 := by omega
        subst this; rfl
    · have hb' : isBoolAlts alts = false := by simpa using hb
      by_cases hz : i = 0
      · subst hz; rfl
      · simp [encF, hb', hz, enumBytes] at he
  · intro v r h he
    obtain ⟨i, rfl, hi, hm⟩ := wt2_union alts v h
    by_cases hb : isBoolAlts alts = true
    · by_cases h1 : i = 1
      · subst h1
        simp only [encF, hb, if_true, List.cons_append, List.nil_append, decE]
        rfl
      · simp [encF, hb, h1] at he
    · have hb' : isBoolAlts alts = false := by simpa using hb
      by_cases hz : i = 0
      · simp [encF, hb', hz] at he
      · simp only [encF, hb', Bool.false_eq_true, if_false, hz]
        exact dec_enumBytes alts hb' i hi hm hz r
  · intro v h _
    obtain ⟨i, rfl, hi, hm⟩ := wt2_union alts v h
    simp only [encE, enumBytes]
    split <;> simp


/-- the two facts carried through the induction for one field list -/
structure RT2F (fs : Flds) : Prop where
  dec : ∀ k vs blk, wt2Fs fs vs = true → blkInv k blk ((encFs fs vs).map (·.1)) →
    decFs fs k blk (layout k (encFs fs vs)) = some vs
  dflt : ∀ vs, wt2Fs fs vs = true → (encFs fs vs).any (·.1) = false → vs = defaultFs fs

theorem rt2f_nil : RT2F .nil := by
  refine ⟨?_, ?_⟩
  · intro k vs blk h _
    cases vs <;> simp [wt2Fs] at h
    simp [encFs, layout, decFs]
  · intro vs h _
    cases vs <;> simp [wt2Fs] at h
    rfl

theorem wt2_natF (rest : Flds) (vs : Vals) (h : wt2Fs (.natF rest) vs = true) :
    ∃ n vs', vs = .cons (.nat n) vs' ∧ n < 4294967296 ∧ wt2Fs rest vs' = true := by
  cases vs with
  | nil => simp [wt2Fs] at h
  | cons v vs' =>
    cases v <;> simp [wt2Fs] at h
    exact ⟨_, _, rfl, h.1, h.2⟩

theorem readNatV_le32 (n : Nat) (h : n < 4294967296) (r : Bytes) : readNatV (le32 n ++ r) = some (.nat n, r) := by
  simp [readNatV, readNat_le32 _ h]

theorem rt2f_natF (rest : Flds) (ih : RT2F rest) : RT2F (.natF rest) := by
  refine ⟨?_, ?_⟩
  · intro k vs blk h hinv
    obtain ⟨n, vs', rfl, hn, hr⟩ := wt2_natF rest vs h
    simp only [encFs, List.map_cons] at hinv ⊢
    simp only [decFs]
    exact decSlot_step readNatV (.nat 0) _ k blk (n != 0) (le32 n) (.nat n) (encFs rest vs') vs' hinv
      (fun _ r => readNatV_le32 n hn r)
      (fun hp => by simp at hp; rw [hp])
      (fun blk' hb => ih.dec (k + 1) vs' blk' hr hb)
  · intro vs h hany
    obtain ⟨n, vs', rfl, hn, hr⟩ := wt2_natF rest vs h
    simp only [encFs, List.any_cons, Bool.or_eq_false_iff] at hany
    have h0 : n = 0 := by simpa using hany.1
    rw [defaultFs, ← ih.dflt vs' hr hany.2, h0]

theorem rt2f_fld (t : Desc) (rest : Flds) (iht : RT2 t) (ih : RT2F rest) : RT2F (.fld t rest) := by
  refine ⟨?_, ?_⟩
  · intro k vs blk h hinv
    cases vs with
    | nil => simp [wt2Fs] at h
    | cons v vs' =>
      simp only [wt2Fs, Bool.and_eq_true] at h
      simp only [encFs, List.map_cons] at hinv ⊢
      simp only [decFs]
      exact decSlot_step (decE t) (defaultV t) _ k blk (!(encF t v).isEmpty) (encF t v) v (encFs rest vs') vs' hinv
        (fun hp r => iht.fld v r h.1 (by intro he; simp [he] at hp))
        (fun hp => iht.fdef v h.1 (by simpa using hp))
        (fun blk' hb => ih.dec (k + 1) vs' blk' h.2 hb)
  · intro vs h hany
    cases vs with
    | nil => simp [wt2Fs] at h
    | cons v vs' =>
      simp only [wt2Fs, Bool.and_eq_true] at h
      simp only [encFs, List.any_cons, Bool.or_eq_false_iff] at hany
      rw [defaultFs, ← ih.dflt vs' h.2 hany.2, ← iht.fdef v h.1 (by simpa using hany.1)]

theorem rt2f_opt (m : NatE) (bit : Nat) (t : Desc) (rest : Flds) (iht : RT2 t) (hnb : headIsBool t = false)
    (ih : RT2F rest) : RT2F (.opt m bit t rest) := by
  refine ⟨?_, ?_⟩
  · intro k vs blk h hinv
    cases vs with
    | nil => simp [wt2Fs] at h
    | cons v vs' =>
      simp only [wt2Fs, Bool.and_eq_true, Bool.or_eq_true] at h
      simp only [decFs]
      by_cases hv : v.isNone = true
      · have hvn : v = .none := by cases v <;> simp [Val.isNone] at hv; rfl
        subst hvn
        simp only [encFs, Val.isNone, if_true, List.map_cons] at hinv ⊢
        exact decSlot_step _ .none _ k blk false [] .none (encFs rest vs') vs' hinv
          (fun hp => by simp at hp) (fun _ => rfl) (fun blk' hb => ih.dec (k + 1) vs' blk' h.2 hb)
      · have hv' : v.isNone = false := by simpa using hv
        have hw := h.1.resolve_left hv
        by_cases he : isEmptyCtor t = true
        · simp only [he, if_true, beq_iff_eq] at hw
          subst hw
          simp only [encFs, Val.isNone, Bool.false_eq_true, if_false, he, if_true, List.map_cons] at hinv ⊢
          exact decSlot_step readNothing .none _ k blk true [] (.recd .nil) (encFs rest vs') vs' hinv
            (fun _ r => rfl) (fun hp => by simp at hp) (fun blk' hb => ih.dec (k + 1) vs' blk' h.2 hb)
        · have he' : isEmptyCtor t = false := by simpa using he
          simp only [he', Bool.false_eq_true, if_false] at hw
          simp only [encFs, hv', Bool.false_eq_true, if_false, he', List.map_cons] at hinv ⊢
          exact decSlot_step (decE t) .none _ k blk true (encE t v) v (encFs rest vs') vs' hinv
            (fun _ r => iht.elem v r hw hnb) (fun hp => by simp at hp) (fun blk' hb => ih.dec (k + 1) vs' blk' h.2 hb)
  · intro vs h hany
    cases vs with
    | nil => simp [wt2Fs] at h
    | cons v vs' =>
      simp only [wt2Fs, Bool.and_eq_true] at h
      by_cases hv : v.isNone = true
      · have hvn : v = .none := by cases v <;> simp [Val.isNone] at hv; rfl
        subst hvn
        simp only [encFs, Val.isNone, if_true, List.any_cons, Bool.or_eq_false_iff] at hany
        rw [defaultFs, ← ih.dflt vs' h.2 hany.2]
      · have hv' : v.isNone = false := by simpa using hv
        simp [encFs, hv'] at hany


theorem encVals_len (f : Val → Bytes) (p : Val → Bool) (hf : ∀ v, p v = true → f v ≠ []) :
    ∀ vs, allVals p vs = true → vs.length ≤ (encVals f vs).length := by
  intro vs
  induction vs using Vals.ind with
  | hnil => intro _; simp [Vals.length]
  | hcons v vs ih =>
    intro h
    simp only [allVals, Bool.and_eq_true] at h
    have h1 := hf v h.1
    have h2 := ih h.2
    have : 1 ≤ (f v).length := by
      cases hfv : f v with
      | nil => exact absurd hfv h1
      | cons _ _ => simp
    simp only [Vals.length, encVals, List.length_append]
    omega

theorem wrapBody_ne (oe : Bool) (B : Bytes) (h : B ≠ []) : wrapBody oe B = tl2WriteSize B.length ++ B := by
  cases B with
  | nil => exact absurd rfl h
  | cons _ _ => simp [wrapBody]

theorem wt2_vec (t : Desc) (v : Val) (h : wt2 (.vec t) v = true) :
    ∃ vs, v = .list vs ∧ allVals (wt2 t) vs = true ∧ vs.length ≤ maxInt ∧
      (tl2WriteSize vs.length ++ encVals (encE t) vs).length ≤ maxInt := by
  cases v <;> simp [wt2] at h
  exact ⟨_, rfl, h.1.1, by simpa using h.1.2, by simpa using h.2⟩

theorem isNil_iff (vs : Vals) : isNil vs = true ↔ vs = .nil := by
  cases vs <;> simp [isNil]

/-- a non-empty vector: size, count, elements -/
theorem dec_vecBody (t : Desc) (ih : RT2 t) (hnb : headIsBool t = false) (vs : Vals) (hne : vs ≠ .nil)
    (hall : allVals (wt2 t) vs = true) (hlen : vs.length ≤ maxInt)
    (hB : (tl2WriteSize vs.length ++ encVals (encE t) vs).length ≤ maxInt) (r : Bytes) :
    decE (.vec t) (tl2WriteSize (tl2WriteSize vs.length ++ encVals (encE t) vs).length
      ++ (tl2WriteSize vs.length ++ encVals (encE t) vs) ++ r) = some (.list vs, r) := by
  generalize hBd : tl2WriteSize vs.length ++ encVals (encE t) vs = B at hB ⊢
  have hp := tl2_size_rt B.length hB (B ++ r)
  have ht := takeN_append B r
  have hBne : ¬ B.length = 0 := by
    intro h0
    have : B = [] := List.eq_nil_of_length_eq_zero h0
    rw [← hBd] at this
    exact tl2WriteSize_ne _ (List.append_eq_nil_iff.1 this).1
  have hc := tl2_size_rt vs.length hlen (encVals (encE t) vs)
  rw [hBd] at hc
  have hle := encVals_len (encE t) (wt2 t) (fun v hv => ih.ne v hv hnb) vs hall
  have hgt : ¬ vs.length > (encVals (encE t) vs).length := by omega
  have hd := decN_encVals (encE t) (decE t) (wt2 t) (fun v r hv => ih.elem v r hv hnb) vs [] hall
  rw [List.append_nil] at hd
  rw [List.append_assoc]
  simp only [decE, hp, ht, hBne, if_false, hc, hgt, hd]

theorem rt2_vec (t : Desc) (ih : RT2 t) (hnb : headIsBool t = false) : RT2 (.vec t) := by
  refine ⟨?_, ?_, ?_, ?_⟩
  · intro v r h _
    obtain ⟨vs, rfl, hall, hlen, hB⟩ := wt2_vec t v h
    by_cases hn : isNil vs = true
    · have := (isNil_iff vs).1 hn
      subst this
      simp only [encE, isNil, if_true, List.cons_append, List.nil_append, decE, parse_zero, takeN]
    · have hne : vs ≠ .nil := fun e => hn ((isNil_iff vs).2 e)
      have hBne : tl2WriteSize vs.length ++ encVals (encE t) vs ≠ [] := fun e =>
        tl2WriteSize_ne _ (List.append_eq_nil_iff.1 e).1
      simp only [encE, hn, Bool.false_eq_true, if_false, wrapBody_ne _ _ hBne]
      exact dec_vecBody t ih hnb vs hne hall hlen hB r
  · intro v h he
    obtain ⟨vs, rfl, hall, hlen, hB⟩ := wt2_vec t v h
    by_cases hn : isNil vs = true
    · have := (isNil_iff vs).1 hn
      subst this; rfl
    · have hBne : tl2WriteSize vs.length ++ encVals (encE t) vs ≠ [] := fun e =>
        tl2WriteSize_ne _ (List.append_eq_nil_iff.1 e).1
      simp only [encF, hn, Bool.false_eq_true, if_false, wrapBody_ne _ _ hBne] at he
      exact absurd (List.append_eq_nil_iff.1 he).2 hBne
  · intro v r h he
    obtain ⟨vs, rfl, hall, hlen, hB⟩ := wt2_vec t v h
    by_cases hn : isNil vs = true
    · simp [encF, hn] at he
    · have hne : vs ≠ .nil := fun e => hn ((isNil_iff vs).2 e)
      have hBne : tl2WriteSize vs.length ++ encVals (encE t) vs ≠ [] := fun e =>
        tl2WriteSize_ne _ (List.append_eq_nil_iff.1 e).1
      simp only [encF, hn, Bool.false_eq_true, if_false, wrapBody_ne _ _ hBne]
      exact dec_vecBody t ih hnb vs hne hall hlen hB r
  · intro v h _
    obtain ⟨vs, rfl, hall, hlen, hB⟩ := wt2_vec t v h
    by_cases hn : isNil vs = true
    · simp [encE, hn]
    · have hBne : tl2WriteSize vs.length ++ encVals (encE t) vs ≠ [] := fun e =>
        tl2WriteSize_ne _ (List.append_eq_nil_iff.1 e).1
      simp only [encE, hn, Bool.false_eq_true, if_false, wrapBody_ne _ _ hBne]
      intro e
      exact hBne (List.append_eq_nil_iff.1 e).2


theorem layout0_none (es : List (Bool × Bytes)) (h : es.any (·.1) = false) : layout 0 ((false, []) :: es) = [] := by
  apply layout_none
  simpa using h

theorem layout0_some (es : List (Bool × Bytes)) (h : es.any (·.1) = true) :
    layout 0 ((false, []) :: es) =
      UInt8.ofNat (bitsToNat ((false :: es.map (·.1)).take 8)) :: layout 1 es := by
  have hany : ((false, ([] : Bytes)) :: es).any (·.1) = true := by simpa using h
  simp only [layout, hany, if_true, List.map_take, List.map_cons]
  simp

theorem wt2_struct (args : List NatE) (fs : Flds) (v : Val) (h : wt2 (.struct args fs) v = true) :
    ∃ vs, v = .recd vs ∧ wt2Fs fs vs = true ∧ (layout 0 ((false, []) :: encFs fs vs)).length ≤ maxInt := by
  cases v <;> simp [wt2] at h
  exact ⟨_, rfl, h.1, by simpa using h.2⟩

/-- a non-empty object body: size, block byte with a clear constructor bit, the slots -/
theorem dec_objBody (args : List NatE) (fs : Flds) (ih : RT2F fs) (vs : Vals) (hw : wt2Fs fs vs = true)
    (hany : (encFs fs vs).any (·.1) = true)
    (hB : (layout 0 ((false, []) :: encFs fs vs)).length ≤ maxInt) (r : Bytes) :
    decE (.struct args fs) (tl2WriteSize (layout 0 ((false, []) :: encFs fs vs)).length
      ++ layout 0 ((false, []) :: encFs fs vs) ++ r) = some (.recd vs, r) := by
  have hl := layout0_some (encFs fs vs) hany
  have hb := blockByte_toNat (false :: (encFs fs vs).map (·.1))
  have hbit : (bitsToNat ((false :: (encFs fs vs).map (·.1)).take 8)).testBit 0 = false := by
    rw [testBit_bitsToNat, getD_take _ _ _ (by decide)]; rfl
  have hd := ih.dec 1 vs _ hw (blkInv_fresh 0 false ((encFs fs vs).map (·.1)) rfl)
  generalize bitsToNat ((false :: (encFs fs vs).map (·.1)).take 8) = B0 at hl hb hbit hd
  generalize hBd : layout 0 ((false, []) :: encFs fs vs) = B at hB hl ⊢
  have hp := tl2_size_rt B.length hB (B ++ r)
  have ht := takeN_append B r
  have hBne : ¬ B.length = 0 := by rw [hl]; simp
  rw [List.append_assoc]
  simp only [decE, hp, hBne, if_false, ht]
  rw [hl]
  simp only [hb, hbit, Bool.false_eq_true, if_false, hd]

theorem rt2_struct (args : List NatE) (fs : Flds) (ih : RT2F fs) : RT2 (.struct args fs) := by
  refine ⟨?_, ?_, ?_, ?_⟩
  · intro v r h _
    obtain ⟨vs, rfl, hw, hB⟩ := wt2_struct args fs v h
    by_cases hany : (encFs fs vs).any (·.1) = true
    · have hne : layout 0 ((false, []) :: encFs fs vs) ≠ [] := by rw [layout0_some _ hany]; simp
      simp only [encE, wrapBody_ne _ _ hne]
      exact dec_objBody args fs ih vs hw hany hB r
    · have hany' : (encFs fs vs).any (·.1) = false := by simpa using hany
      have hd := ih.dflt vs hw hany'
      simp only [encE, layout0_none _ hany', wrapBody, List.isEmpty_nil, if_true, Bool.false_eq_true, if_false,
        List.cons_append, List.nil_append, decE, parse_zero, ← hd]
  · intro v h he
    obtain ⟨vs, rfl, hw, hB⟩ := wt2_struct args fs v h
    by_cases hany : (encFs fs vs).any (·.1) = true
    · have hne : layout 0 ((false, []) :: encFs fs vs) ≠ [] := by rw [layout0_some _ hany]; simp
      simp only [encF, wrapBody_ne _ _ hne] at he
      exact absurd (List.append_eq_nil_iff.1 he).2 hne
    · have hany' : (encFs fs vs).any (·.1) = false := by simpa using hany
      rw [defaultV, ← ih.dflt vs hw hany']
  · intro v r h he
    obtain ⟨vs, rfl, hw, hB⟩ := wt2_struct args fs v h
    by_cases hany : (encFs fs vs).any (·.1) = true
    · have hne : layout 0 ((false, []) :: encFs fs vs) ≠ [] := by rw [layout0_some _ hany]; simp
      simp only [encF, wrapBody_ne _ _ hne]
      exact dec_objBody args fs ih vs hw hany hB r
    · have hany' : (encFs fs vs).any (·.1) = false := by simpa using hany
      simp [encF, layout0_none _ hany', wrapBody] at he
  · intro v h _
    obtain ⟨vs, rfl, hw, hB⟩ := wt2_struct args fs v h
    simp only [encE, wrapBody]
    split
    · simp
    · intro e
      exact tl2WriteSize_ne _ (List.append_eq_nil_iff.1 e).1

/-- everything at once, by the mutual recursor of Desc / Flds / Alts -/
theorem rt2_all (d : Desc) : tl2Supported d = true → RT2 d :=
  Desc.rec (motive_1 := fun d => tl2Supported d = true → RT2 d)
    (motive_2 := fun fs => tl2SupportedFs fs = true → RT2F fs) (motive_3 := fun _ => True)
    (fun _ => rt2_nat) (fun w _ => rt2_fixed w) (fun _ => rt2_str)
    (fun t ih h => by
      simp only [tl2Supported, Bool.and_eq_true, Bool.not_eq_true'] at h
      exact rt2_vec t (ih h.1) h.2)
    (fun n t _ h => by simp [tl2Supported] at h)
    (fun args fs ih h => by
      simp only [tl2Supported] at h
      exact rt2_struct args fs (ih h))
    (fun tag t ih h => by
      simp only [tl2Supported] at h
      exact rt2_boxed tag t (ih h))
    (fun alts _ _ => rt2_union alts)
    (fun _ => rt2f_nil)
    (fun rest ih h => by
      simp only [tl2SupportedFs] at h
      exact rt2f_natF rest (ih h))
    (fun t rest iht ih h => by
      simp only [tl2SupportedFs, Bool.and_eq_true] at h
      exact rt2f_fld t rest (iht h.1) (ih h.2))
    (fun m bit t rest iht ih h => by
      simp only [tl2SupportedFs, Bool.and_eq_true, Bool.not_eq_true'] at h
      exact rt2f_opt m bit t rest (iht h.1.1) h.1.2 (ih h.2))
    trivial (fun _ _ _ _ _ => trivial) d


end SH.C14
