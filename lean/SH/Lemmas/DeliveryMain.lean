/-
  SH.Lemmas.DeliveryMain — the induction over operation lists (every op preserves `SInv`), monotonicity of the ghost lists,
  and the erase-trace lemma, on top of the per-operation lemmas of SH.Lemmas.Delivery / SH.Lemmas.DeliveryRace.
-/
import SH.Lemmas.Delivery
import SH.Lemmas.DeliveryRace
import SH.Lemmas.DeliveryEraser
namespace SH.Delivery
open SH.Gen.C01

/-- every operation of the model preserves the invariant -/
theorem sinv_step {s : State} (op : Op) (h : SInv s []) : SInv (step s op).1 [] := by
  cases op with
  | overflow t => exact sinv_overflow t h
  | recent t => exact sinv_recent t h
  | recv rid => exact sinv_recv rid h
  | tick r now ok => exact sinv_tick r now ok h
  | resp rid => exact sinv_resp rid h
  | drop rid => exact sinv_drop rid h
  | pop now => exact sinv_pop now h
  | alive r b => exact sinv_alive r b h
  | down r => exact sinv_down r h
  | up r now => exact sinv_up r now h
  | agentRestart c => exact sinv_agentRestart c h
  | ballast k => exact sinv_ballast k h
  | diskOk b => exact sinv_diskOk b h
  | bad r => exact sinv_bad r h
  | tickRace r n1 n2 rid ok => exact sinv_tickRace r n1 n2 rid ok h
  | erase now over => exact sinv_erase now over h

theorem sinv_init (disk saveFirst : Bool) (agentNow window shortWindow aggNow : Nat) :
    SInv (init disk saveFirst agentNow window shortWindow aggNow) [] := by
  have hnew : ∀ b ∈ (advance [] aggNow shortWindow).2, b.reqs = [] := by
    intro b hb
    rcases advance_mem (recent := []) (Or.inr hb) with h | h
    · simp at h
    · exact h
  have hb : ∀ g ∈ (init disk saveFirst agentNow window shortWindow aggNow).aggs, ∀ b ∈ g.recent ++ g.historic, b.reqs = [] := by
    intro g hg b hb
    simp only [init, List.mem_map] at hg
    obtain ⟨_, _, rfl⟩ := hg
    exact hnew b (by simpa using hb)
  have htags : ridTags (init disk saveFirst agentNow window shortWindow aggNow) = [] := by
    have : parked (init disk saveFirst agentNow window shortWindow aggNow) = [] := by
      simp only [parked, List.flatMap_eq_nil_iff]
      intro g hg b hb'
      exact hb g hg b hb'
    simp only [ridTags, this]; simp [init, initAgent]
  refine ⟨⟨?_, ?_, ?_, ?_, ?_, ?_⟩, ?_, ?_, ?_, ?_, ?_⟩
  · simp [init, initAgent]
  · simp [init, initAgent, cbds]
  · simp [init, initAgent]
  · simp [init, initAgent, cbds]
  · simp [init, initAgent, cbds]
  · simp [init, initAgent, cbds]
  · rw [htags]; simp
  · rw [htags]; simp
  · simp [init]
  · intro g hg b hb' p hp; rw [hb g hg b hb'] at hp; simp at hp
  · simp [init]

theorem sinv_run {s : State} (h : SInv s []) (ops : List Op) : SInv (run s ops) [] := by
  induction ops generalizing s with
  | nil => exact h
  | cons o os ih => exact ih (sinv_step o h)

theorem stepHistoricAttempt_flushed (s : State) (a : Agent) (c : Cbd) : (stepHistoricAttempt s a c).1.flushed = s.flushed := by
  unfold stepHistoricAttempt; split <;> rfl

theorem agentContinue_flushed (s : State) (f : Flight) (e d : Bool) : (agentContinue s f e d).1.flushed = s.flushed := by
  unfold agentContinue
  (repeat' split) <;> first | rfl | exact stepHistoricAttempt_flushed _ _ _

theorem failFlights_flushed (fs : List Flight) (s : State) : (failFlights fs s).1.flushed = s.flushed := by
  induction fs generalizing s with
  | nil => rfl
  | cons f fs ih =>
    unfold failFlights
    split
    · exact ih s
    · simp only; rw [ih, agentContinue_flushed]

theorem recentSend_flushed (s : State) (a : Agent) (c : Cbd) (t : Nat) : (recentSend s a c t).1.flushed = s.flushed := by
  unfold recentSend; (repeat' split) <;> rfl

/-- the ghost list of flushed seconds only grows -/
theorem flushed_step (s : State) (op : Op) : ∀ t ∈ s.flushed, t ∈ (step s op).1.flushed := by
  intro t ht
  cases op with
  | overflow u => simp [step, addFlushed, ht]
  | recent u =>
    simp only [step, stepRecent]
    split <;> (rw [recentSend_flushed]; simp [addFlushed, ht])
  | recv rid =>
    simp only [step, stepRecv]
    split
    · exact ht
    · have hr : ∀ s' : State, s'.flushed = s.flushed → t ∈ (recvRefused s' rid).1.flushed := by
        intro s' hs'; unfold recvRefused; split
        · rw [hs']; exact ht
        · simp only; rw [agentContinue_flushed, hs']; exact ht
      split
      · exact hr _ rfl
      · split
        · exact hr _ rfl
        · unfold recvHandle; (repeat' split) <;> exact ht
  | tick r now ok => simp only [step, stepTick]; (repeat' split) <;> exact ht
  | resp rid => simp only [step, stepResp]; (repeat' split) <;> first | exact ht | (rw [agentContinue_flushed]; exact ht)
  | drop rid => simp only [step, stepDrop]; (repeat' split) <;> first | exact ht | (rw [agentContinue_flushed]; exact ht)
  | pop now => simp only [step, stepPop]; (repeat' split) <;> first | exact ht | (simp only; rw [stepHistoricAttempt_flushed]; exact ht)
  | alive r b => exact ht
  | down r => simp only [step, stepDown]; split <;> first | exact ht | (rw [failFlights_flushed]; exact ht)
  | up r now => simp only [step, stepUp]; (repeat' split) <;> exact ht
  | agentRestart c => simp only [step, stepAgentRestart]; exact ht
  | ballast k => exact ht
  | diskOk b => exact ht
  | bad r => simp only [step, stepBad]; (repeat' split) <;> exact ht
  | tickRace r n1 n2 rid ok => rw [(tickRace_frame s r n1 n2 rid ok).2]; exact ht
  | erase now over => exact ht

/-! ### which operations can make a disk record disappear -/

theorem diskPut_recs_mem {a : Agent} {c : Cbd} {r : Rec} (h : r ∈ a.recs) : r ∈ (diskPut a c).1.recs := by
  unfold diskPut; split <;> simp [h]

theorem appendHist_recs (a : Agent) (c : Cbd) : (appendHist a c).recs = a.recs := by
  unfold appendHist; (repeat' split) <;> rfl

theorem appendHist_dropped_mono {a : Agent} {c : Cbd} {t : Nat} (h : t ∈ a.dropped) : t ∈ (appendHist a c).dropped := by
  unfold appendHist; (repeat' split) <;> simp [h]

theorem toHistoric_recs_mem {a : Agent} {c : Cbd} {r : Rec} (h : r ∈ a.recs) : r ∈ (toHistoric a c).recs := by
  unfold toHistoric; rw [appendHist_recs]; exact diskPut_recs_mem h

theorem toHistoric_dropped_mono {a : Agent} {c : Cbd} {t : Nat} (h : t ∈ a.dropped) : t ∈ (toHistoric a c).dropped := by
  unfold toHistoric; apply appendHist_dropped_mono; rw [(diskPut_frame a c).2.2.1]; exact h

theorem readNext_recs_mem {a : Agent} {r : Rec} (h : r ∈ a.recs) (hid : r.id ≠ 0) : r ∈ (readNext a).recs := by
  unfold readNext
  split
  · exact h
  · cases hu : assignFirstUnread (a.lastId + 1) a.recs with
    | none => exact h
    | some p =>
      obtain ⟨s, rs⟩ := p
      obtain ⟨pre, r0, post, hl, h0, _, rfl⟩ := assignFirstUnread_spec hu
      simp only
      rw [hl] at h
      simp only [List.mem_append, List.mem_cons] at h ⊢
      rcases h with h | rfl | h
      · exact Or.inl h
      · exact absurd h0 hid
      · exact Or.inr (Or.inr h)

theorem readNext_dropped (a : Agent) : (readNext a).dropped = a.dropped := by
  unfold readNext; (repeat' split) <;> rfl

theorem pop_recs_mem {a : Agent} {now : Nat} {r : Rec} (h : r ∈ a.recs) (hid : r.id ≠ 0) : r ∈ (pop a now).1.recs := by
  unfold pop
  split
  · exact h
  · dsimp only
    split
    · exact h
    · split
      · exact h
      · exact readNext_recs_mem h hid

theorem pop_dropped (a : Agent) (now : Nat) : (pop a now).1.dropped = a.dropped := by
  unfold pop
  split
  · rfl
  · dsimp only
    split
    · rfl
    · split
      · rfl
      · rw [readNext_dropped]

theorem diskErase_recs_mem {a : Agent} {x : Nat} {r : Rec} (h : r ∈ a.recs) (hne : r.id ≠ x) : r ∈ (diskErase a x).recs := by
  unfold diskErase; split
  · exact h
  · simp only [List.mem_filter]; exact ⟨h, by simpa using hne⟩

theorem diskErase_dropped (a : Agent) (x : Nat) : (diskErase a x).dropped = a.dropped := by
  unfold diskErase; split <;> rfl

/-- sendHistoric's loop head removes a record only in its out-of-window branch, and then records the drop -/
theorem historicAttempt_recs_mem {a : Agent} {c : Cbd} {rid : Nat} {r : Rec} (h : r ∈ a.recs) :
    r ∈ (historicAttempt a c rid).1.recs ∨ (r.id = c.id ∧ c.sec ∈ (historicAttempt a c rid).1.dropped) := by
  unfold historicAttempt
  split
  · by_cases he : r.id = c.id
    · right; exact ⟨he, by simp⟩
    · left
      have := diskErase_recs_mem (a := a) h he
      unfold diskErase at this ⊢; split <;> simp_all
  · left; (repeat' split) <;> exact h

theorem historicAttempt_dropped_mono {a : Agent} {c : Cbd} {rid : Nat} {t : Nat} (h : t ∈ a.dropped) :
    t ∈ (historicAttempt a c rid).1.dropped := by
  unfold historicAttempt
  split
  · simp [h]
  · (repeat' split) <;> exact h

theorem stepHistoricAttempt_ag (s : State) (a : Agent) (c : Cbd) :
    (stepHistoricAttempt s a c).1.ag.recs = (historicAttempt a c s.nextRid).1.recs ∧
    (stepHistoricAttempt s a c).1.ag.dropped = (historicAttempt a c s.nextRid).1.dropped := by
  unfold stepHistoricAttempt
  split <;> rename_i h <;> simp [launch, h]

theorem removeFlight_recs (a : Agent) (rid : Nat) : (removeFlight a rid).recs = a.recs ∧ (removeFlight a rid).dropped = a.dropped := ⟨rfl, rfl⟩

/-- the sender's continuation removes a record only (a) on an answer with discard, or (b) when its own second left the
historic window (recorded in `dropped`); in both cases the record is the sender's own (same disk id) -/
theorem agentContinue_recs_mem {s : State} {f : Flight} {err discard : Bool} {r : Rec} (h : r ∈ s.ag.recs) :
    r ∈ (agentContinue s f err discard).1.ag.recs ∨
    (r.id = f.cbd.id ∧ ((!err && discard) = true ∨ f.cbd.sec ∈ (agentContinue s f err discard).1.ag.dropped)) := by
  unfold agentContinue
  have hrm : r ∈ (removeFlight s.ag f.rid).recs := h
  by_cases hh : f.historic = true
  · simp only [hh, if_true]
    by_cases ha : (!err && discard) = true
    · simp only [ha, if_true]
      by_cases he : r.id = f.cbd.id
      · exact Or.inr ⟨he, Or.inl trivial⟩
      · exact Or.inl (diskErase_recs_mem hrm he)
    · simp only [ha, Bool.false_eq_true, if_false]
      rw [(stepHistoricAttempt_ag _ _ _).1, (stepHistoricAttempt_ag _ _ _).2]
      rcases historicAttempt_recs_mem (c := f.cbd) (rid := s.nextRid) hrm with h1 | ⟨h1, h2⟩
      · exact Or.inl h1
      · exact Or.inr ⟨h1, Or.inr h2⟩
  · simp only [hh, Bool.false_eq_true, if_false]
    have hrm2 : r ∈ (if f.spare = true then removeFlight s.ag f.rid else recordSend (removeFlight s.ag f.rid) f.replica (!err)).recs := by
      split
      · exact hrm
      · rw [(recordSend_frame _ _ _).1]; exact hrm
    by_cases ha : (!err && discard) = true
    · simp only [ha, if_true]
      by_cases he : r.id = f.cbd.id
      · exact Or.inr ⟨he, Or.inl trivial⟩
      · exact Or.inl (diskErase_recs_mem hrm2 he)
    · simp only [ha, Bool.false_eq_true, if_false]
      exact Or.inl (toHistoric_recs_mem hrm2)

theorem agentContinue_dropped_mono {s : State} {f : Flight} {err discard : Bool} {t : Nat} (h : t ∈ s.ag.dropped) :
    t ∈ (agentContinue s f err discard).1.ag.dropped := by
  unfold agentContinue
  have hrm : t ∈ (removeFlight s.ag f.rid).dropped := h
  by_cases hh : f.historic = true
  · simp only [hh, if_true]
    split
    · simp only; rw [diskErase_dropped]; exact hrm
    · rw [(stepHistoricAttempt_ag _ _ _).2]; exact historicAttempt_dropped_mono hrm
  · simp only [hh, Bool.false_eq_true, if_false]
    have hrm2 : t ∈ (if f.spare = true then removeFlight s.ag f.rid else recordSend (removeFlight s.ag f.rid) f.replica (!err)).dropped := by
      split
      · exact hrm
      · rw [(recordSend_frame _ _ _).2.2.2.2.1]; exact hrm
    split
    · simp only; rw [diskErase_dropped]; exact hrm2
    · exact toHistoric_dropped_mono hrm2

/-- operation `op` in state `s` delivers, to the sender blocked on request `rid`, an answer that tells it to discard
second `sec` — and that sender's request carried `sec` -/
def AckDelivered (s : State) (op : Op) (sec : Nat) : Prop :=
  ∃ rid a f, op = .resp rid ∧ a ∈ s.resps ∧ a.rid = rid ∧ a.discard = true ∧ a.err = false ∧ a.sec = sec ∧
    f ∈ s.ag.flights ∧ f.rid = rid ∧ f.cbd.sec = sec

theorem recentSend_recs_mem {s : State} {a : Agent} {c : Cbd} {t : Nat} {r : Rec} (h : r ∈ a.recs) :
    r ∈ (recentSend s a c t).1.ag.recs := by
  unfold recentSend
  split
  · exact toHistoric_recs_mem h
  · split
    · exact toHistoric_recs_mem h
    · exact h

/-- after a connection error / timeout the sender never erases anything but, possibly, its own out-of-window second -/
theorem agentContinue_err_keeps {s : State} {f : Flight} {r : Rec} (h : SInv s []) (hf : f ∈ s.ag.flights)
    (hr : r ∈ s.ag.recs) (hid : r.id ≠ 0) :
    r ∈ (agentContinue s f true false).1.ag.recs ∨ r.sec ∈ (agentContinue s f true false).1.ag.dropped := by
  rcases agentContinue_recs_mem (f := f) (err := true) (discard := false) hr with h1 | ⟨he, h2⟩
  · exact Or.inl h1
  · right
    rcases h2 with h2 | h2
    · simp at h2
    · have := h.ag.cbdRec f.cbd (by simp only [mem_cbds]; exact Or.inr (Or.inr ⟨f, hf, rfl⟩)) r hr he (by rw [← he]; exact hid)
      rw [this]; exact h2

theorem failFlights_keeps {fs : List Flight} {s : State} {r : Rec} (h : SInv s []) (hr : r ∈ s.ag.recs) (hid : r.id ≠ 0) :
    r ∈ (failFlights fs s).1.ag.recs ∨ r.sec ∈ (failFlights fs s).1.ag.dropped := by
  induction fs generalizing s with
  | nil => exact Or.inl hr
  | cons f fs ih =>
    unfold failFlights
    cases hf : findFlight s.ag f.rid with
    | none => exact ih h hr
    | some f' =>
      simp only
      have hf' := (find?_flight hf).1
      have h1 := sinv_agentContinue (err := true) (discard := false) h hf' (by simp)
      rcases agentContinue_err_keeps h hf' hr hid with h2 | h2
      · rcases ih h1 h2 with h3 | h3
        · exact Or.inl h3
        · exact Or.inr h3
      · right
        have mono : ∀ (l : List Flight) (s' : State) (t : Nat), t ∈ s'.ag.dropped → t ∈ (failFlights l s').1.ag.dropped := by
          intro l
          induction l with
          | nil => intro s' t ht; exact ht
          | cons g gs ihg =>
            intro s' t ht
            unfold failFlights
            split
            · exact ihg s' t ht
            · exact ihg _ t (agentContinue_dropped_mono ht)
        exact mono fs _ _ h2

/-- the eraser removes a disk record only together with recording its second as a deliberate drop -/
theorem eraserStep_recs_mem {P : Nat → Prop} {a : Agent} {now : Nat} {over : Bool} {r : Rec} (h : AInv P a [])
    (hr : r ∈ a.recs) (hid : r.id ≠ 0) :
    r ∈ (eraserStep a now over).recs ∨ r.sec ∈ (eraserStep a now over).dropped := by
  unfold eraserStep
  cases hp : pop a now with
  | mk a' oc =>
    cases oc with
    | none => exact Or.inl hr
    | some c =>
      simp only
      have hr' : r ∈ a'.recs := by have := pop_recs_mem (now := now) hr hid; rw [hp] at this; exact this
      have hk := keeps_pop h hp
      have drop : ∀ o, r ∈ ({ diskErase a' c.id with dropped := a'.dropped ++ [c.sec], oow := o } : Agent).recs ∨
          r.sec ∈ ({ diskErase a' c.id with dropped := a'.dropped ++ [c.sec], oow := o } : Agent).dropped := by
        intro o
        by_cases he : r.id = c.id
        · right
          have := hk.1.cbdRec c (by simp [mem_cbds]) r hr' he (by rw [← he]; exact hid)
          simp [this]
        · left
          have := diskErase_recs_mem (a := a') hr' he
          unfold diskErase at this ⊢; split <;> simp_all
      split
      · exact drop _
      · split
        · exact drop _
        · left; rw [appendHist_recs]; exact hr'

/-- **which operations make a disk record of the agent disappear.** In a reachable state, for every operation other than a
process restart (which re-reads the same records under new ids), a record that is no longer on disk afterwards was erased
because an answer with discard was delivered to the sender whose request carried that second, or because the second left
the agent's historic window (deliberate drop, recorded). Lost answers, errors, timeouts, replica failures, clock jumps,
memory pressure never erase anything. -/
theorem erase_step {s : State} (h : SInv s []) (op : Op) (hop : ∀ c, op ≠ .agentRestart c) {r : Rec}
    (hr : r ∈ s.ag.recs) (hid : r.id ≠ 0) :
    r ∈ (step s op).1.ag.recs ∨ AckDelivered s op r.sec ∨ r.sec ∈ (step s op).1.ag.dropped := by
  have lift : ∀ {s' : State}, (r ∈ s'.ag.recs ∨ r.sec ∈ s'.ag.dropped) →
      (r ∈ s'.ag.recs ∨ AckDelivered s op r.sec ∨ r.sec ∈ s'.ag.dropped) := by
    intro s' h'; rcases h' with h' | h'
    · exact Or.inl h'
    · exact Or.inr (Or.inr h')
  cases op with
  | overflow t => exact Or.inl (toHistoric_recs_mem hr)
  | recent t =>
    simp only [step, stepRecent]
    split
    · exact Or.inl (recentSend_recs_mem (diskPut_recs_mem hr))
    · exact Or.inl (recentSend_recs_mem hr)
  | recv rid =>
    simp only [step, stepRecv]
    split
    · exact Or.inl hr
    · have h1 : SInv (dropReq s rid) [] :=
        h.shrink rfl rfl rfl rfl rfl (by intro p hp; simp only [dropReq] at hp; tag_solve) (fun a ha => ha) h.bucket
      have href : r ∈ (recvRefused (dropReq s rid) rid).1.ag.recs ∨ r.sec ∈ (recvRefused (dropReq s rid) rid).1.ag.dropped := by
        unfold recvRefused
        cases hf : findFlight (dropReq s rid).ag rid with
        | none => exact Or.inl hr
        | some f => exact agentContinue_err_keeps h1 (find?_flight hf).1 hr hid
      split
      · exact lift href
      · split
        · exact lift href
        · unfold recvHandle; (repeat' split) <;> exact Or.inl hr
  | tick r' now ok => simp only [step, stepTick]; (repeat' split) <;> exact Or.inl hr
  | resp rid =>
    simp only [step, stepResp]
    cases hres : findResp s rid with
    | none => exact Or.inl hr
    | some a =>
      simp only
      have ha : a ∈ s.resps ∧ a.rid = rid := by
        unfold findResp at hres; exact ⟨List.mem_of_find?_eq_some hres, by simpa using List.find?_some hres⟩
      cases hf : findFlight s.ag rid with
      | none => exact Or.inl hr
      | some f =>
        simp only
        have hff := find?_flight hf
        have hsec : a.sec = f.cbd.sec :=
          h.ridFun (a.rid, a.sec) (by simp only [ridTags, List.mem_append, List.mem_map]; exact Or.inl (Or.inr ⟨a, ha.1, rfl⟩))
            (f.rid, f.cbd.sec) (by simp only [ridTags, List.mem_append, List.mem_map]; exact Or.inl (Or.inl (Or.inl ⟨f, hff.1, rfl⟩)))
            (by simp [ha.2, hff.2])
        rcases agentContinue_recs_mem (s := { s with resps := s.resps.filter (fun x => x.rid != rid) }) (f := f)
            (err := a.err) (discard := a.discard) hr with h1 | ⟨he, h2⟩
        · exact Or.inl h1
        · have hrs : r.sec = f.cbd.sec :=
            h.ag.cbdRec f.cbd (by simp only [mem_cbds]; exact Or.inr (Or.inr ⟨f, hff.1, rfl⟩)) r hr he (by rw [← he]; exact hid)
          rcases h2 with h2 | h2
          · right; left
            simp only [Bool.and_eq_true, Bool.not_eq_true'] at h2
            exact ⟨rid, a, f, rfl, ha.1, ha.2, h2.2, h2.1, by rw [hsec, hrs], hff.1, hff.2, hrs.symm⟩
          · right; right; rw [hrs]; exact h2
  | drop rid =>
    simp only [step, stepDrop]
    cases hf : findFlight s.ag rid with
    | none => exact Or.inl hr
    | some f =>
      simp only
      have h1 : SInv { s with resps := s.resps.filter (fun x => x.rid != rid), aggs := s.aggs.map (unpark · rid) } [] := by
        have := sinv_drop rid h
        simp only [step, stepDrop, hf] at this
        -- re-derive the intermediate invariant the same way sinv_drop does
        refine h.shrink rfl rfl rfl rfl rfl ?_ (by intro b hb; exact (List.mem_filter.mp hb).1) (bucket_unpark h.bucket)
        intro p hp
        simp only [ridTags, parked, List.mem_append] at hp ⊢
        rcases hp with ((hp | hp) | hp) | hp
        · exact Or.inl (Or.inl (Or.inl hp))
        · exact Or.inl (Or.inl (Or.inr hp))
        · refine Or.inl (Or.inr ?_); simp only [List.mem_map, List.mem_filter] at hp ⊢; obtain ⟨a, ha, rfl⟩ := hp; exact ⟨a, ha.1, rfl⟩
        · exact Or.inr (parked_unpark hp)
      exact lift (agentContinue_err_keeps h1 (find?_flight hf).1 hr hid)
  | pop now =>
    simp only [step, stepPop]
    cases hp : pop s.ag now with
    | mk a' oc =>
      cases oc with
      | none => exact Or.inl hr
      | some c =>
        simp only
        have hr' : r ∈ a'.recs := by have := pop_recs_mem (now := now) hr hid; rw [hp] at this; exact this
        have hk := keeps_pop h.ag hp
        rw [(stepHistoricAttempt_ag _ _ _).1, (stepHistoricAttempt_ag _ _ _).2]
        rcases historicAttempt_recs_mem (c := c) (rid := s.nextRid) hr' with h1 | ⟨he, h2⟩
        · exact Or.inl h1
        · right; right
          have := hk.1.cbdRec c (by simp [mem_cbds]) r hr' he (by rw [← he]; exact hid)
          rw [this]; exact h2
  | alive r' b => exact Or.inl hr
  | down r' =>
    simp only [step, stepDown]
    split
    · exact Or.inl hr
    · refine lift (failFlights_keeps ?_ hr hid)
      refine h.shrink rfl rfl rfl rfl rfl ?_ (fun a ha => ha) (bucket_setAgg (g := { up := false, recent := [], historic := [] }) h.bucket (by simp))
      intro p hp
      rcases tags_setAgg hp with hp | hp
      · exact hp
      · simp at hp
  | up r' now => simp only [step, stepUp]; (repeat' split) <;> exact Or.inl hr
  | agentRestart c => exact absurd rfl (hop c)
  | ballast k => exact Or.inl hr
  | diskOk b => exact Or.inl hr
  | bad r' => simp only [step, stepBad]; (repeat' split) <;> exact Or.inl hr
  | tickRace r' n1 n2 rid ok => left; rw [(tickRace_frame s r' n1 n2 rid ok).1]; exact hr
  | erase now over => exact lift (eraserStep_recs_mem h.ag hr hid)

theorem readNext_secs {a : Agent} {r : Rec} (h : r ∈ a.recs) : ∃ r' ∈ (readNext a).recs, r'.sec = r.sec := by
  unfold readNext
  split
  · exact ⟨r, h, rfl⟩
  · cases hu : assignFirstUnread (a.lastId + 1) a.recs with
    | none => exact ⟨r, h, rfl⟩
    | some p =>
      obtain ⟨s, rs⟩ := p
      obtain ⟨pre, r0, post, hl, _, _, rfl⟩ := assignFirstUnread_spec hu
      simp only
      rw [hl] at h
      simp only [List.mem_append, List.mem_cons] at h
      rcases h with h | rfl | h
      · exact ⟨r, by simp [h], rfl⟩
      · exact ⟨{ r with id := a.lastId + 1 }, by simp, rfl⟩
      · exact ⟨r, by simp [h], rfl⟩

theorem readN_secs (n : Nat) {a : Agent} {r : Rec} (h : r ∈ a.recs) : ∃ r' ∈ (readN n a).recs, r'.sec = r.sec := by
  induction n generalizing a r with
  | zero => exact ⟨r, h, rfl⟩
  | succ n ih =>
    unfold readN
    obtain ⟨r1, h1, e1⟩ := readNext_secs h
    obtain ⟨r2, h2, e2⟩ := ih h1
    exact ⟨r2, h2, e2.trans e1⟩

/-- a process restart (graceful or crash) erases nothing: every record is read back (under a new id) -/
theorem restart_keeps_records (s : State) (crash : Bool) {r : Rec} (hr : r ∈ s.ag.recs) :
    ∃ r' ∈ (step s (.agentRestart crash)).1.ag.recs, r'.sec = r.sec := by
  simp only [step, stepAgentRestart]
  have key : ∀ (a : Agent) (r0 : Rec), r0 ∈ a.recs → ∃ r' ∈ (readN startupReads a).recs, r'.sec = r0.sec :=
    fun a r0 h0 => readN_secs startupReads h0
  have hb : r ∈ (if crash = true then s.ag else flushFlights s.ag.flights s.ag).recs := by
    split
    · exact hr
    · exact (flushFlights_facts s.ag.flights s.ag).1 r hr
  exact key _ ⟨r.sec, 0⟩ (mem_resetIds hb)

end SH.Delivery
