/-
  SH.Lemmas.DiskCacheInv — the refinement invariant between the DiskCache model state and the abstract
  layout (files = lists of abstract records with their current ids), and its establishment by `restart`.
-/
import SH.Lemmas.DiskCacheAbs

namespace SH.C09
open SH.DiskCache

structure AFile where
  name : Nat
  recs : List ARec
  tl : Bytes
deriving DecidableEq, Repr

def AFile.bytes (cfg : Cfg) (f : AFile) : Bytes := encRecs cfg f.recs ++ f.tl
def AFile.render (cfg : Cfg) (f : AFile) : DFile := ⟨f.name, f.bytes cfg⟩
def AFile.size (cfg : Cfg) (f : AFile) : Nat := (f.bytes cfg).length

def hasId (r : ARec) : Bool := r.id.isSome
def idc (rs : List ARec) : Nat := (rs.filter hasId).length
/-- live on disk but not handed out in this incarnation -/
def unread (cfg : Cfg) (r : ARec) : Bool := !r.dead cfg && !hasId r

def bucketOf (cfg : Cfg) (name off : Nat) (r : ARec) : List Bucket :=
  match r.id with
  | some k => [⟨k, name, off, r.time, r.body.length, cfg.crc r.body⟩]
  | none => []

def bucketsAt (cfg : Cfg) (name : Nat) : Nat → List ARec → List Bucket
  | _, [] => []
  | off, r :: rs => bucketOf cfg name off r ++ bucketsAt cfg name (off + r.len) rs

structure Abs where
  pre : List AFile := []
  cur : Option (AFile × Nat) := none
  wait : List AFile := []
  new : List AFile := []
  writing : Bool := false
  lastID : Nat := 0
  clock : Nat := 0
deriving Repr

def Abs.curL (a : Abs) : List AFile :=
  match a.cur with
  | some (f, _) => [f]
  | none => []
def Abs.files (a : Abs) : List AFile := a.pre ++ (a.curL ++ (a.wait ++ a.new))
def Abs.rname (a : Abs) : Option Nat := a.cur.map (·.1.name)
def Abs.wname (a : Abs) : Option Nat := if a.writing then a.new.getLast?.map (·.name) else none
def fbuckets (cfg : Cfg) (f : AFile) : List Bucket := bucketsAt cfg f.name 0 f.recs
def Abs.buckets (cfg : Cfg) (a : Abs) : List Bucket := a.files.flatMap (fbuckets cfg)
def Abs.refs (a : Abs) (f : AFile) : Int :=
  (idc f.recs : Int) + (if a.rname = some f.name then 1 else 0) + (if a.wname = some f.name then 1 else 0)
def bsize (b : Bucket) : Int := ((b.size + headerSize : Nat) : Int)
def sizeSum (cfg : Cfg) (l : List AFile) : Int := (l.map (fun f => (f.size cfg : Int))).sum

structure Inv (cfg : Cfg) (s : Shard) (a : Abs) : Prop where
  disk : s.disk = a.files.map (AFile.render cfg)
  clock : s.clock = a.clock
  lastID : s.lastID = a.lastID
  names : (a.files.map (·.name)).Pairwise (· < ·)
  namesLt : ∀ f ∈ a.files, f.name < a.clock
  wf : ∀ f ∈ a.files, (∀ r ∈ f.recs, r.WF cfg) ∧ TailStop f.tl
  newTl : ∀ f ∈ a.new, f.tl = []
  preRead : ∀ f ∈ a.pre, ∀ r ∈ f.recs, unread cfg r = false
  newRead : ∀ f ∈ a.new, ∀ r ∈ f.recs, unread cfg r = false
  waitIds : ∀ f ∈ a.wait, ∀ r ∈ f.recs, r.id = none
  curOk : ∀ f j, a.cur = some (f, j) → j ≤ f.recs.length ∧ (∀ r ∈ f.recs.take j, unread cfg r = false) ∧
            (∀ r ∈ f.recs.drop j, r.id = none)
  idsLe : ∀ b ∈ a.buckets cfg, b.id ≤ a.lastID
  idsNodup : ((a.buckets cfg).map (·.id)).Nodup
  known : ∀ b, b ∈ s.known ↔ b ∈ a.buckets cfg
  ofiles : ∀ name, match findO s.ofiles name with
      | none => ∀ f ∈ a.files, f.name = name → a.refs f = 0
      | some o => o.name = name ∧ ∃ f ∈ a.files, f.name = name ∧ o.refCount = a.refs f ∧ 0 < a.refs f ∧
          o.size = f.size cfg ∧ (∀ j, a.cur = some (f, j) → o.nextPos = recsLen (f.recs.take j))
  reading : s.reading = a.rname
  writing : s.writing = a.wname
  writingSome : a.writing = true → a.new ≠ []
  waiting : s.waiting = a.wait.map (fun f => ⟨f.name, f.size cfg⟩)
  total : s.total = sizeSum cfg a.files
  knownSize : s.knownSize = ((a.buckets cfg).map bsize).sum
  waitingSize : s.waitingSize = sizeSum cfg a.wait
  present : ∀ f ∈ a.pre ++ a.new, 0 < a.refs f

/-! ### restart -/

def clearIds (f : AFile) : AFile := { f with recs := f.recs.map (fun r => { r with id := none }) }

theorem encRecs_clear (cfg : Cfg) (rs : List ARec) : encRecs cfg (rs.map (fun r => { r with id := none })) = encRecs cfg rs := by
  induction rs with
  | nil => rfl
  | cons r rs ih => simp [encRecs, ih, ARec.enc]

theorem bucketsAt_none (cfg : Cfg) (name : Nat) : ∀ (off : Nat) (rs : List ARec), (∀ r ∈ rs, r.id = none) →
    bucketsAt cfg name off rs = [] := by
  intro off rs
  induction rs generalizing off with
  | nil => intro _; rfl
  | cons r rs ih =>
    intro h
    have h1 : r.id = none := h r (by simp)
    simp [bucketsAt, bucketOf, h1, ih _ (fun q hq => h q (by simp [hq]))]

theorem idc_none (rs : List ARec) (h : ∀ r ∈ rs, r.id = none) : idc rs = 0 := by
  unfold idc
  rw [List.length_eq_zero_iff, List.filter_eq_nil_iff]
  intro r hr
  simp [hasId, h r hr]

/-- every file of the directory, all ids forgotten, waiting to be re-read -/
def Abs.restart (a : Abs) : Abs :=
  { wait := a.files.map clearIds, clock := a.clock }

theorem render_clear (cfg : Cfg) (f : AFile) : (clearIds f).render cfg = f.render cfg := by
  simp [clearIds, AFile.render, AFile.bytes, encRecs_clear]

theorem size_clear (cfg : Cfg) (f : AFile) : (clearIds f).size cfg = f.size cfg := by
  simp [clearIds, AFile.size, AFile.bytes, encRecs_clear]


theorem sumSizes_render (cfg : Cfg) (L : List AFile) : sumSizes (L.map (AFile.render cfg)) = sizeSum cfg L := by
  simp [sumSizes, sizeSum, List.map_map, Function.comp_def, AFile.render, AFile.size]

theorem flatMap_nil_of {α β} (l : List α) (g : α → List β) (h : ∀ x ∈ l, g x = []) : l.flatMap g = [] := by
  induction l with
  | nil => rfl
  | cons x l ih => simp [List.flatMap_cons, h x (by simp), ih (fun y hy => h y (by simp [hy]))]

theorem inv_fresh (cfg : Cfg) (L : List AFile) (clock : Nat) (s : Shard)
    (hn : (L.map (·.name)).Pairwise (· < ·)) (hlt : ∀ f ∈ L, f.name < clock)
    (hwf : ∀ f ∈ L, (∀ r ∈ f.recs, r.WF cfg) ∧ TailStop f.tl)
    (hid : ∀ f ∈ L, ∀ r ∈ f.recs, r.id = none)
    (hd : s.disk = L.map (AFile.render cfg)) (hc : s.clock = clock) :
    Inv cfg (restart s) { wait := L, clock := clock } := by
  have hfiles : ({ wait := L, clock := clock } : Abs).files = L := by simp [Abs.files, Abs.curL]
  have hb : ({ wait := L, clock := clock } : Abs).buckets cfg = [] := by
    unfold Abs.buckets
    rw [hfiles]
    exact flatMap_nil_of _ _ (fun f hf => bucketsAt_none cfg _ _ _ (hid f hf))
  refine { disk := ?_, clock := ?_, lastID := rfl, names := ?_, namesLt := ?_, wf := ?_, newTl := ?_, preRead := ?_,
           newRead := ?_, waitIds := ?_, curOk := ?_, idsLe := ?_, idsNodup := ?_, known := ?_, ofiles := ?_,
           reading := rfl, writing := rfl, writingSome := ?_, waiting := ?_, total := ?_, knownSize := ?_,
           waitingSize := ?_, present := ?_ }
  · rw [hfiles]; simp [restart, hd]
  · simp [restart, hc]
  · rw [hfiles]; exact hn
  · rw [hfiles]; exact hlt
  · rw [hfiles]; exact hwf
  · intro f hf; simp at hf
  · intro f hf; simp at hf
  · intro f hf; simp at hf
  · exact hid
  · intro f j h; simp at h
  · rw [hb]; intro b h; simp at h
  · rw [hb]; simp
  · rw [hb]; intro b; simp [restart]
  · intro name
    simp only [restart, findO, List.find?_nil]
    intro f hf _
    rw [hfiles] at hf
    simp [Abs.refs, Abs.rname, Abs.wname, idc_none _ (hid f hf)]
  · intro h; simp at h
  · simp [restart, hd, List.map_map, Function.comp_def, AFile.render, AFile.size]
  · rw [hfiles]; simp [restart, hd, sumSizes_render]
  · rw [hb]; simp [restart]
  · simp [restart, hd, sumSizes_render]
  · intro f hf; simp at hf

end SH.C09
