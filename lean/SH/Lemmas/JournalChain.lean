/-
  SH.Lemmas.JournalChain — two hops: source S → aggregator A → agent G, where BOTH replicas may restart from an old or
  truncated file. After such a restart of A the agent can be ahead of its upstream (G.lv > A.cur).

  The invariant is stated relative to the SOURCE (not to the immediate upstream, which can go backwards):
  a journal at depth d is `Faithful`: it holds only source events transported d times, each with its source version, and
  all current source entries up to its loaderVersion. For chains WITHOUT the compaction skip (non-compact journals)
  this is preserved by every op of every journal in the chain, whatever the others do (`sf_deliver`, `sf_load`,
  `sf_srcAdd`), hence two-hop convergence under arbitrary rollbacks of the aggregator (`run2_inv`, `chain_synced`).
  For a COMPACT aggregator the statement is false of the code; the witness is in Props/C20 section K.
-/
import SH.Lemmas.JournalConv

namespace SH.C20
open SH.Journal

/-- content after `d` transports -/
def iterT (tab : Nat → Content) : Nat → Nat → Nat
  | 0, k => k
  | d + 1, k => (tab (iterT tab d k)).t

/-- the source event `h` as a journal at depth `d` stores it: same version, transported `d` times -/
def img (tab : Nat → Content) (d : Nat) (h : Entry) : Entry := mkEntry tab h.ver (iterT tab d h.k)

theorem img_succ (tab : Nat → Content) (d : Nat) (h : Entry) :
    mkEntry tab (img tab d h).ver (tab (img tab d h).k).t = img tab (d + 1) h := rfl

theorem iterT_key (tab : Nat → Content) (ht : ∀ k, (tab (tab k).t).typ = (tab k).typ ∧ (tab (tab k).t).id = (tab k).id) :
    ∀ (d k : Nat), (tab (iterT tab d k)).typ = (tab k).typ ∧ (tab (iterT tab d k)).id = (tab k).id := by
  intro d
  induction d with
  | zero => intro k; exact ⟨rfl, rfl⟩
  | succ n ih => intro k; have a := ht (iterT tab n k); have b := ih k; exact ⟨a.1.trans b.1, a.2.trans b.2⟩

theorem img_sameKey (tab : Nat → Content) (ht : ∀ k, (tab (tab k).t).typ = (tab k).typ ∧ (tab (tab k).t).id = (tab k).id)
    (d : Nat) (h : Entry) (hw : h = mkEntry tab h.ver h.k) : sameKey (img tab d h) h = true := by
  have a := iterT_key tab ht d h.k
  have w := wf_key tab h hw
  rw [sameKey_iff]
  simp only [img, mkEntry]
  exact ⟨a.1.trans w.1.symm, a.2.trans w.2.1.symm⟩

/-- the source journal and the list of all events it ever received -/
structure SrcOK (tab : Nat → Content) (S : J) (H : List Entry) : Prop where
  jx : JX S
  sub : ∀ s ∈ S.entries, s ∈ H
  latest : ∀ h ∈ H, ∃ s ∈ S.entries, sameKey h s = true ∧ h.ver ≤ s.ver
  wf : WF tab H
  bound : ∀ h ∈ H, h.ver ≤ S.cur

/-- `P` holds only source events transported `d` times (with their source versions) and every current source entry
    up to version `b` -/
structure Faithful (tab : Nat → Content) (d : Nat) (P S : J) (H : List Entry) (b : Int) : Prop where
  f1 : ∀ s ∈ S.entries, s.ver ≤ b → img tab d s ∈ P.entries
  f2 : ∀ p ∈ P.entries, ∃ h ∈ H, p = img tab d h

theorem Faithful.mono {tab d P S H b b'} (h : Faithful tab d P S H b) (hb : b' ≤ b) : Faithful tab d P S H b' :=
  ⟨fun s hs hle => h.f1 s hs (Int.le_trans hle hb), h.f2⟩

/-- a replica in the chain: non-compact, faithful up to its loaderVersion -/
structure Rep (tab : Nat → Content) (d : Nat) (R S : J) (H : List Entry) : Prop where
  jx : JX R
  nc : R.compact = false
  fa : Faithful tab d R S H R.lv
  lo : R.cur ≤ R.lv
  hi : R.lv ≤ S.cur

/-- the source itself is faithful at depth 0 -/
theorem src_faithful (tab : Nat → Content) (S : J) (H : List Entry) (h : SrcOK tab S H) : Faithful tab 0 S S H S.cur :=
  ⟨fun s hs _ => by
      have : img tab 0 s = s := (h.wf s (h.sub s hs)).symm
      rw [this]; exact hs,
   fun p hp => ⟨p, h.sub p hp, h.wf p (h.sub p hp)⟩⟩

theorem srcok_empty (tab : Nat → Content) : SrcOK tab {} [] :=
  ⟨jx_empty false, by intro s hs; simp at hs, by intro h hh; simp at hh, by intro h hh; simp at hh, by intro h hh; simp at hh⟩

/-- a new source event keeps everything -/
theorem sf_srcAdd (tab : Nat → Content) (S S' : J) (H : List Entry) (v : Int) (k : Nat) (hS : SrcOK tab S H)
    (ha : add S (mkEntry tab v k) = some S') :
    SrcOK tab S' (H ++ [mkEntry tab v k]) ∧
    ∀ d P b, b ≤ S.cur → Faithful tab d P S H b → Faithful tab d P S' (H ++ [mkEntry tab v k]) b := by
  obtain ⟨_, c1, l1, _, m1⟩ := add_inv S S' _ hS.jx.inv ha
  have hm := fun x => mem_add S S' (mkEntry tab v k) x ha
  refine ⟨⟨add_jx _ _ _ hS.jx ha, ?_, ?_, ?_, ?_⟩, ?_⟩
  · intro s hs
    rcases (hm s).mp hs with rfl | ⟨a, _⟩
    · simp
    · exact List.mem_append_left _ (hS.sub s a)
  · intro h hh
    rcases List.mem_append.mp hh with a | a
    · obtain ⟨s, hs, hk, hv⟩ := hS.latest h a
      by_cases he : sameKey (mkEntry tab v k) s = true
      · refine ⟨mkEntry tab v k, m1, sameKey_trans _ _ _ hk (by rw [sameKey_symm]; exact he), ?_⟩
        have := hS.jx.inv.bound s hs; omega
      · exact ⟨s, (hm s).mpr (Or.inr ⟨hs, by simpa using he⟩), hk, hv⟩
    · simp at a; subst a
      exact ⟨_, m1, sameKey_refl _, Int.le_refl _⟩
  · intro h hh
    rcases List.mem_append.mp hh with a | a
    · exact hS.wf h a
    · simp at a; subst a; rfl
  · intro h hh
    rcases List.mem_append.mp hh with a | a
    · have := hS.bound h a; omega
    · simp at a; subst a; omega
  · intro d P b hb hf
    refine ⟨?_, fun p hp => ?_⟩
    · intro s hs hle
      rcases (hm s).mp hs with rfl | ⟨a, _⟩
      · exfalso; omega
      · exact hf.f1 s a hle
    · obtain ⟨h, hh, e⟩ := hf.f2 p hp
      exact ⟨h, List.mem_append_left _ hh, e⟩


/-- C20 (a delivery anywhere in a skip-free chain). `R` (depth d+1) receives from `P` (depth d) — any item / byte limits,
    any cut. NOTHING is assumed about how R's loaderVersion relates to P's version: P may have been rolled back (then the
    diff is empty and R waits) or be anywhere in its own catch-up. P only has to be faithful up to its own currentVersion. -/
theorem sf_deliver (tab : Nat → Content) (hkey : ∀ k, (tab (tab k).t).typ = (tab k).typ ∧ (tab (tab k).t).id = (tab k).id)
    (d : Nat) (P R R' S : J) (H : List Entry) (applied : List Entry) (mi mb cut : Nat)
    (hS : SrcOK tab S H) (hPj : JX P) (hP : Faithful tab d P S H P.cur) (hR : Rep tab (d + 1) R S H)
    (h : applyUpdate tab R ((transport tab (diff P R.lv mi mb)).take cut) P.cur = some (R', applied)) :
    Rep tab (d + 1) R' S H := by
  have hq : (transport tab (diff P R.lv mi mb)).take cut = transport tab ((diff P R.lv mi mb).take cut) := by
    simp [transport, List.map_take]
  rw [hq] at h
  generalize hqd : (diff P R.lv mi mb).take cut = q at h
  have hdel := delivery_never_skips P hPj.inv.sorted R.lv mi mb cut
  simp only [hqd] at hdel
  obtain ⟨D1, D2, _⟩ := hdel
  have hqsub : q.Sublist P.entries := by rw [← hqd]; exact (List.take_sublist _ _).trans (diff_sublist _ _ _ _)
  have hqsorted : q.Pairwise (fun a b => a.ver < b.ver) := hPj.inv.sorted.sublist hqsub
  by_cases hne : q = []
  · subst hne
    simp [applyUpdate, transport] at h
    obtain ⟨rfl, _⟩ := h
    exact hR
  · have hsrc : (transport tab q).isEmpty = false := by
      cases q with
      | nil => exact absurd rfl hne
      | cons a b => simp [transport]
    have hk : keptOf tab R (transport tab q) = transport tab q := by simp [keptOf, hR.nc]
    unfold applyUpdate at h
    rw [hsrc, hk] at h
    simp only [Bool.false_eq_true, if_false] at h
    split at h
    · simp at h
    · rename_i j1 h1
      injection h with h; injection h with h2 _; subst h2
      obtain ⟨_, _, hall1, hsorted1, hcomp1⟩ := addAll_inv _ R j1 hR.jx.inv h1
      have hjx1 : JX j1 := addAll_jx _ R j1 hR.jx h1
      have hL : lastVer (transport tab q) 0 = lastVer q R.lv := by
        rw [lastVer_transport]; exact lastVer_default q 0 R.lv hne
      have hmem := fun x => mem_addAll _ R j1 x h1
      have hmax := lastVer_max q R.lv hqsorted
      -- every delivered entry is the image of a source event
      have hev : ∀ e ∈ transport tab q, ∃ p ∈ q, ∃ hh ∈ H, p = img tab d hh ∧ e = img tab (d + 1) hh := by
        intro e he
        simp only [transport, List.mem_map] at he
        obtain ⟨p, hp, rfl⟩ := he
        obtain ⟨hh, hhH, rfl⟩ := hP.f2 p (D2 p hp).1
        exact ⟨_, hp, hh, hhH, rfl, rfl⟩
      have kdistinct : (transport tab q).Pairwise (fun a b => sameKey b a = false) := by
        refine hsorted1.imp_of_mem ?_
        intro a b ha hb hlt
        obtain ⟨pa, hpa, ha', haH, rfl, rfl⟩ := hev a ha
        obtain ⟨pb, hpb, hb', hbH, rfl, rfl⟩ := hev b hb
        by_cases hs : sameKey (img tab (d + 1) hb') (img tab (d + 1) ha') = true
        · exfalso
          have k1 := img_sameKey tab hkey (d + 1) ha' (hS.wf ha' haH)
          have k2 := img_sameKey tab hkey (d + 1) hb' (hS.wf hb' hbH)
          have k3 := img_sameKey tab hkey d ha' (hS.wf ha' haH)
          have k4 := img_sameKey tab hkey d hb' (hS.wf hb' hbH)
          have h3 : sameKey (img tab d hb') (img tab d ha') = true :=
            sameKey_trans _ _ _ k4 (sameKey_trans _ _ _ (by rw [sameKey_symm]; exact k2)
              (sameKey_trans _ _ _ hs (sameKey_trans _ _ _ k1 (by rw [sameKey_symm]; exact k3))))
          have := unique_of_sameKey P.entries hPj.inv.keys _ _ (D2 _ hpb).1 (D2 _ hpa).1 h3
          have hv : (img tab (d + 1) hb').ver = (img tab (d + 1) ha').ver := by
            have := congrArg Entry.ver this; simpa [img, mkEntry] using this
          omega
        · simpa using hs
      refine ⟨jx_congr j1 _ hjx1 rfl rfl rfl, by simp only; rw [hcomp1]; exact hR.nc, ⟨?_, ?_⟩, ?_, ?_⟩
      · -- f1
        intro s hs hle
        simp only [hL] at hle
        by_cases hold : s.ver ≤ R.lv
        · have hin := hR.fa.f1 s hs hold
          refine (hmem _).2.1 hin ?_
          intro e he
          obtain ⟨p, hp, hh, hhH, rfl, rfl⟩ := hev e he
          by_cases hse : sameKey (img tab (d + 1) hh) (img tab (d + 1) s) = true
          · exfalso
            have hsw := hS.wf s (hS.sub s hs)
            have k1 := img_sameKey tab hkey (d + 1) hh (hS.wf hh hhH)
            have k2 := img_sameKey tab hkey (d + 1) s hsw
            have h3 : sameKey hh s = true :=
              sameKey_trans _ _ _ (by rw [sameKey_symm]; exact k1) (sameKey_trans _ _ _ hse k2)
            obtain ⟨s', hs', hk', hv'⟩ := hS.latest hh hhH
            have : s' = s := unique_of_sameKey S.entries hS.jx.inv.keys s' s hs' hs
              (sameKey_trans _ _ _ (by rw [sameKey_symm]; exact hk') h3)
            subst this
            have := (D2 _ hp).2
            simp only [img, mkEntry] at this
            omega
          · simpa using hse
        · -- the entry is within the delivered range: P has it (faithful up to P.cur), the diff does not skip it
          obtain ⟨x, hx, hv⟩ := lastVer_mem q R.lv hne
          have hxb := hPj.inv.bound x (D2 x hx).1
          have hPin := hP.f1 s hs (by omega)
          have hsq : img tab d s ∈ q := D1 hne _ hPin (by simp only [img, mkEntry]; omega) (by simp only [img, mkEntry]; omega)
          have : img tab (d + 1) s ∈ transport tab q := by
            simp only [transport, List.mem_map]; exact ⟨_, hsq, rfl⟩
          exact (hmem _).2.2 this kdistinct
      · -- f2
        intro r hr
        rcases (hmem r).1 hr with hk | hold
        · obtain ⟨_, _, hh, hhH, _, rfl⟩ := hev r hk
          exact ⟨hh, hhH, rfl⟩
        · exact hR.fa.f2 r hold
      · -- cur ≤ lv
        simp only [hL]
        obtain ⟨x, hxq⟩ := List.exists_mem_of_ne_nil q hne
        have hx1 := hmax x hxq
        have hx2 := (D2 x hxq).2
        rcases hjx1.last with ⟨_, h0⟩ | ⟨e, he, hv⟩
        · have := hR.jx.cur_nonneg; have := hR.lo; omega
        · rcases (hmem e).1 he with hk | hold
          · obtain ⟨p, hp, hh, _, rfl, rfl⟩ := hev e hk
            have := hmax _ hp
            simp only [img, mkEntry] at this hv ⊢; omega
          · have := hR.jx.inv.bound e hold; have := hR.lo; omega
      · -- lv ≤ source version
        simp only [hL]
        obtain ⟨x, hx, hv⟩ := lastVer_mem q R.lv hne
        obtain ⟨hh, hhH, rfl⟩ := hP.f2 x (D2 x hx).1
        have := hS.bound hh hhH
        simp only [img, mkEntry] at hv; omega


/-! ### files of chain replicas -/

/-- the file holds (a prefix of) a snapshot of a replica that was faithful; being faithful is stable under later source
    edits (`sf_srcAdd`), so an OLD file is as good as a new one for the invariant -/
def FileSF (tab : Nat → Content) (d : Nat) (f : File) (S : J) (H : List Entry) : Prop :=
  ∃ Rs : J, Rep tab d Rs S H ∧ (f.chunks.map (·.evs)).flatten <+: Rs.entries ∧ f.lv = Rs.lv ∧ f.cur = Rs.cur

theorem rep_empty (tab : Nat → Content) (d : Nat) (S : J) (H : List Entry) (hS : SrcOK tab S H) :
    Rep tab d {} S H :=
  ⟨jx_empty false, rfl, ⟨by intro s hs hle; have := hS.jx.pos s hs; simp at hle; omega, by intro p hp; simp at hp⟩,
   Int.le_refl _, hS.jx.cur_nonneg⟩

theorem filesf_empty (tab : Nat → Content) (d : Nat) (S : J) (H : List Entry) (hS : SrcOK tab S H) :
    FileSF tab d {} S H := ⟨{}, rep_empty tab d S H hS, by simp, rfl, rfl⟩

theorem filesf_truncate (tab : Nat → Content) (d : Nat) (f : File) (S : J) (H : List Entry) (keep : Nat)
    (h : FileSF tab d f S H) : FileSF tab d (truncate f keep) S H := by
  obtain ⟨Rs, a, e, g1, g2⟩ := h
  refine ⟨Rs, a, (flatten_prefix _ _ (truncate_keeps_prefix f keep)).trans e, ?_, ?_⟩
  · unfold truncate; split <;> exact g1
  · unfold truncate; split <;> exact g2

theorem filesf_save (tab : Nat → Content) (hsz : ∀ k, 0 < (tab k).sz) (d : Nat) (R S : J) (H : List Entry)
    (hR : Rep tab d R S H) : FileSF tab d (saveFile R) S H := by
  refine ⟨R, hR, ?_, rfl, rfl⟩
  have : ∀ e ∈ R.entries, 0 < e.sz := by
    intro e he
    obtain ⟨h, _, rfl⟩ := hR.fa.f2 e he
    simp only [img, mkEntry]; exact hsz _
  have := packChunks_flatten R.entries headerBytes [] (by simp [headerBytes]) this
  simp only [saveFile]
  rw [this]; simp

theorem rep_srcAdd (tab : Nat → Content) (d : Nat) (R S S' : J) (H : List Entry) (v : Int) (k : Nat)
    (hS : SrcOK tab S H) (ha : add S (mkEntry tab v k) = some S') (hR : Rep tab d R S H) :
    Rep tab d R S' (H ++ [mkEntry tab v k]) := by
  obtain ⟨_, c1, l1, _, _⟩ := add_inv S S' _ hS.jx.inv ha
  exact ⟨hR.jx, hR.nc, (sf_srcAdd tab S S' H v k hS ha).2 d R R.lv hR.hi hR.fa, hR.lo, by have := hR.hi; omega⟩

theorem filesf_srcAdd (tab : Nat → Content) (d : Nat) (f : File) (S S' : J) (H : List Entry) (v : Int) (k : Nat)
    (hS : SrcOK tab S H) (ha : add S (mkEntry tab v k) = some S') (h : FileSF tab d f S H) :
    FileSF tab d f S' (H ++ [mkEntry tab v k]) := by
  obtain ⟨Rs, a, e, g1, g2⟩ := h
  exact ⟨Rs, rep_srcAdd tab d Rs S S' H v k hS ha a, e, g1, g2⟩

/-- C20 (restart of a chain replica from an old and / or truncated file): faithful again -/
theorem sf_load (tab : Nat → Content) (d : Nat) (f : File) (S R' : J) (H : List Entry) (bs : List (List Entry))
    (err : Bool) (hf : FileSF tab d f S H) (hl : load false f = some (R', bs, err)) : Rep tab d R' S H := by
  obtain ⟨Rs, hRs, hpre, hlv, hcur⟩ := hf
  unfold load at hl
  split at hl
  · simp at hl
  · rename_i j bs1 h1
    injection hl with hl; injection hl with h2 _; subst h2
    have hm := fun x => mem_loadChunks f.chunks { compact := false } j bs1 x h1
    have hjx : JX j := (hm (mkEntry tab 0 0)).2.2.2.2 (jx_empty false)
    have hjc : j.compact = false := (hm (mkEntry tab 0 0)).2.2.2.1
    have hkeys : ((f.chunks.map (·.evs)).flatten).Pairwise (fun a b => sameKey b a = false) := by
      refine (hRs.jx.inv.keys.sublist hpre.sublist).imp ?_
      intro a b hab; rw [sameKey_symm]; exact hab
    have hin : ∀ x, x ∈ j.entries ↔ x ∈ (f.chunks.map (·.evs)).flatten := by
      intro x
      constructor
      · intro hx; rcases (hm x).1 hx with h | h
        · exact h
        · simp at h
      · intro hx; exact (hm x).2.2.1 hx hkeys
    have hP : ∀ r ∈ Rs.entries, r.ver ≤ j.cur → r ∈ j.entries := by
      intro r hr hle
      rcases hjx.last with ⟨_, h0⟩ | ⟨e, he, hv⟩
      · have := hRs.jx.pos r hr; omega
      · exact (hin r).mpr (prefix_mem_le _ _ hpre hRs.jx.inv.sorted e ((hin e).mp he) r hr (by omega))
    have hcurle : j.cur ≤ Rs.cur := by
      rcases hjx.last with ⟨_, h0⟩ | ⟨e, he, hv⟩
      · have := hRs.jx.cur_nonneg; omega
      · have := hRs.jx.inv.bound e (hpre.subset ((hin e).mp he)); omega
    have hsub : ∀ x ∈ j.entries, x ∈ Rs.entries := fun x hx => hpre.subset ((hin x).mp hx)
    have key : ∀ lv : Int, (lv = j.cur ∨ (f.cur = j.cur ∧ j.cur ≤ f.lv ∧ lv = f.lv) ∨ (j.cur = 0 ∧ lv = 0)) →
        Rep tab d { j with lv := lv, lk := j.cur, saved := 0 } S H := by
      intro lv hcases
      have hle : lv ≤ Rs.lv ∧ j.cur ≤ lv ∧ (∀ r ∈ Rs.entries, r.ver ≤ lv → r ∈ j.entries) := by
        rcases hcases with rfl | ⟨a, b, rfl⟩ | ⟨a, rfl⟩
        · exact ⟨by have := hRs.lo; omega, Int.le_refl _, hP⟩
        · refine ⟨by omega, b, ?_⟩
          intro r hr _
          exact hP r hr (by have := hRs.jx.inv.bound r hr; omega)
        · refine ⟨by have := hRs.jx.cur_nonneg; have := hRs.lo; omega, by omega, ?_⟩
          intro r hr hle; have := hRs.jx.pos r hr; omega
      refine ⟨jx_congr j _ hjx rfl rfl rfl, hjc, ⟨?_, ?_⟩, hle.2.1, by have := hRs.hi; simp only; omega⟩
      · intro s hs hlu
        simp only at hlu
        have hin' := hRs.fa.f1 s hs (by omega)
        exact hle.2.2 _ hin' (by simp only [img, mkEntry]; omega)
      · intro r hr
        exact hRs.fa.f2 r (hsub r hr)
    apply key
    rcases load_lv_cases f j.cur with h | ⟨_, a, b, dd⟩ | ⟨a, b⟩
    · left; exact h
    · right; left; exact ⟨a, b, dd⟩
    · by_cases hok : headerOk f j.cur = true
      · right; right; refine ⟨b, ?_⟩; rw [if_pos hok]; simp [headerLv, a]
      · left; rw [if_neg hok]

/-! ### a file cut exactly at a chunk boundary reads without error — and must still not be trusted -/

/-- `load` reports an error exactly when an incomplete chunk is left at the end of the file; a file cut at a chunk
    boundary (`tail = 0`) reads without error -/
theorem load_err_iff_tail (c : Bool) (f : File) (R' : J) (bs : List (List Entry)) (err : Bool)
    (hl : load c f = some (R', bs, err)) : err = decide (f.tail ≠ 0) := by
  unfold load at hl
  split at hl
  · simp at hl
  · injection hl with hl; injection hl with _ h3; injection h3 with _ h4; exact h4.symm

/-- C20 (reload, the header is believed only after a complete read). The file holds a STRICT prefix (at chunk
    granularity) of the entries of the journal `Rs` that was saved — whether or not the cut left a partial chunk, i.e.
    whether or not `load` sees an error. Then the loaderVersion the reloaded journal reports is the version of the last
    event it actually read (its currentVersion), never the header's loaderVersion: the lost tail will be asked for again. -/
theorem load_strict_prefix_lv (c : Bool) (f : File) (Rs R' : J) (bs : List (List Entry)) (err : Bool) (hRs : JX Rs)
    (hpre : (f.chunks.map (·.evs)).flatten <+: Rs.entries) (hstrict : (f.chunks.map (·.evs)).flatten ≠ Rs.entries)
    (hcur : f.cur = Rs.cur) (hl : load c f = some (R', bs, err)) : R'.lv = R'.cur := by
  unfold load at hl
  split at hl
  · simp at hl
  · rename_i j bs1 h1
    injection hl with hl; injection hl with h2 _; subst h2
    simp only
    have hm := fun x => mem_loadChunks f.chunks { compact := c } j bs1 x h1
    have hjx : JX j := (hm (mkEntry (fun _ => Content.default) 0 0)).2.2.2.2 (jx_empty c)
    have hkeys : ((f.chunks.map (·.evs)).flatten).Pairwise (fun a b => sameKey b a = false) := by
      refine (hRs.inv.keys.sublist hpre.sublist).imp ?_
      intro a b hab; rw [sameKey_symm]; exact hab
    have hin : ∀ x, x ∈ j.entries → x ∈ (f.chunks.map (·.evs)).flatten := by
      intro x hx; rcases (hm x).1 hx with h | h
      · exact h
      · simp at h
    rcases load_lv_cases f j.cur with h | ⟨_, a, _, _⟩ | ⟨a, b⟩
    · exact h
    · exfalso
      obtain ⟨t, ht⟩ := hpre
      have htne : t ≠ [] := by
        intro h0; subst h0; simp at ht; exact hstrict ht
      obtain ⟨x, hx⟩ := List.exists_mem_of_ne_nil t htne
      have hxR : x ∈ Rs.entries := by rw [← ht]; exact List.mem_append_right _ hx
      have hb := hRs.inv.bound x hxR
      rcases hjx.last with ⟨_, h0⟩ | ⟨e, he, hv⟩
      · have := hRs.pos x hxR; omega
      · have hs := hRs.inv.sorted
        rw [← ht] at hs
        have := (List.pairwise_append.mp hs).2.2 e (hin e he) x hx
        omega
    · by_cases hok : headerOk f j.cur = true
      · rw [if_pos hok]; simp [headerLv, a, b]
      · rw [if_neg hok]

/-! ### the chain: every schedule -/

inductive Op2
  | src (ver : Int) (k : Nat)
  | deliverA (items bytes cut : Nat) | saveA | restartA (keep : Nat)
  | deliverG (items bytes cut : Nat) | saveG | restartG (keep : Nat)
deriving DecidableEq, Repr

structure W2 where
  S : J := {}
  A : J := {}          -- aggregator: replica of S
  fileA : File := {}
  G : J := {}          -- agent: replica of A
  fileG : File := {}
deriving DecidableEq, Repr

def step2 (tab : Nat → Content) (w : W2) : Op2 → Option W2
  | .src v k =>
    match add w.S (mkEntry tab v k) with
    | some S' => some { w with S := S' }
    | none => none
  | .deliverA i b c =>
    match applyUpdate tab w.A ((transport tab (diff w.S w.A.lv i b)).take c) w.S.cur with
    | some p => some { w with A := p.1 }
    | none => none
  | .saveA => some { w with A := (save w.A w.fileA).1, fileA := (save w.A w.fileA).2.1 }
  | .restartA keep =>
    match load w.A.compact (truncate w.fileA keep) with
    | some p => some { w with A := p.1, fileA := truncate w.fileA keep }
    | none => none
  | .deliverG i b c =>
    match applyUpdate tab w.G ((transport tab (diff w.A w.G.lv i b)).take c) w.A.cur with
    | some p => some { w with G := p.1 }
    | none => none
  | .saveG => some { w with G := (save w.G w.fileG).1, fileG := (save w.G w.fileG).2.1 }
  | .restartG keep =>
    match load w.G.compact (truncate w.fileG keep) with
    | some p => some { w with G := p.1, fileG := truncate w.fileG keep }
    | none => none

def run2 (tab : Nat → Content) : W2 → List Op2 → Option W2
  | w, [] => some w
  | w, op :: r =>
    match step2 tab w op with
    | some w' => run2 tab w' r
    | none => none

/-- invariant of the skip-free chain; `H` (all source events so far) is a ghost -/
def Inv2 (tab : Nat → Content) (w : W2) : Prop :=
  ∃ H, SrcOK tab w.S H ∧ Rep tab 1 w.A w.S H ∧ FileSF tab 1 w.fileA w.S H ∧
       Rep tab 2 w.G w.S H ∧ FileSF tab 2 w.fileG w.S H

theorem inv2_init (tab : Nat → Content) : Inv2 tab {} :=
  ⟨[], srcok_empty tab, rep_empty tab 1 _ _ (srcok_empty tab), filesf_empty tab 1 _ _ (srcok_empty tab),
   rep_empty tab 2 _ _ (srcok_empty tab), filesf_empty tab 2 _ _ (srcok_empty tab)⟩

theorem rep_saved (tab : Nat → Content) (d : Nat) (R S : J) (H : List Entry) (x : Int) (h : Rep tab d R S H) :
    Rep tab d { R with saved := x } S H :=
  ⟨jx_congr _ _ h.jx rfl rfl rfl, h.nc, ⟨h.fa.f1, h.fa.f2⟩, h.lo, h.hi⟩

theorem step2_inv (tab : Nat → Content)
    (hkey : ∀ k, (tab (tab k).t).typ = (tab k).typ ∧ (tab (tab k).t).id = (tab k).id) (hsz : ∀ k, 0 < (tab k).sz)
    (w w' : W2) (op : Op2) (hi : Inv2 tab w) (h : step2 tab w op = some w') : Inv2 tab w' := by
  obtain ⟨H, hS, hA, hfA, hG, hfG⟩ := hi
  cases op with
  | src v k =>
    simp only [step2] at h
    split at h
    · rename_i S' hS'
      injection h with h; subst h
      exact ⟨H ++ [mkEntry tab v k], (sf_srcAdd tab _ _ H v k hS hS').1, rep_srcAdd tab 1 _ _ _ H v k hS hS' hA,
        filesf_srcAdd tab 1 _ _ _ H v k hS hS' hfA, rep_srcAdd tab 2 _ _ _ H v k hS hS' hG,
        filesf_srcAdd tab 2 _ _ _ H v k hS hS' hfG⟩
    · simp at h
  | deliverA i b c =>
    simp only [step2] at h
    split at h
    · rename_i p hp
      injection h with h; subst h
      exact ⟨H, hS, sf_deliver tab hkey 0 w.S w.A p.1 w.S H p.2 i b c hS hS.jx (src_faithful tab _ _ hS) hA hp, hfA, hG, hfG⟩
    · simp at h
  | saveA =>
    simp only [step2] at h
    injection h with h; subst h
    refine ⟨H, hS, ?_, ?_, hG, hfG⟩
    · unfold save; split
      · exact hA
      · exact rep_saved tab 1 _ _ _ _ hA
    · unfold save; split
      · exact hfA
      · exact filesf_save tab hsz 1 _ _ _ hA
  | restartA keep =>
    simp only [step2] at h
    split at h
    · rename_i p hp
      injection h with h; subst h
      have hf := filesf_truncate tab 1 w.fileA w.S H keep hfA
      rw [hA.nc] at hp
      exact ⟨H, hS, sf_load tab 1 _ _ p.1 H p.2.1 p.2.2 hf hp, hf, hG, hfG⟩
    · simp at h
  | deliverG i b c =>
    simp only [step2] at h
    split at h
    · rename_i p hp
      injection h with h; subst h
      exact ⟨H, hS, hA, hfA,
        sf_deliver tab hkey 1 w.A w.G p.1 w.S H p.2 i b c hS hA.jx (hA.fa.mono hA.lo) hG hp, hfG⟩
    · simp at h
  | saveG =>
    simp only [step2] at h
    injection h with h; subst h
    refine ⟨H, hS, hA, hfA, ?_, ?_⟩
    · unfold save; split
      · exact hG
      · exact rep_saved tab 2 _ _ _ _ hG
    · unfold save; split
      · exact hfG
      · exact filesf_save tab hsz 2 _ _ _ hG
  | restartG keep =>
    simp only [step2] at h
    split at h
    · rename_i p hp
      injection h with h; subst h
      have hf := filesf_truncate tab 2 w.fileG w.S H keep hfG
      rw [hG.nc] at hp
      exact ⟨H, hS, hA, hfA, sf_load tab 2 _ _ p.1 H p.2.1 p.2.2 hf hp, hf⟩
    · simp at h

theorem run2_inv (tab : Nat → Content)
    (hkey : ∀ k, (tab (tab k).t).typ = (tab k).typ ∧ (tab (tab k).t).id = (tab k).id) (hsz : ∀ k, 0 < (tab k).sz) :
    ∀ (ops : List Op2) (w w' : W2), Inv2 tab w → run2 tab w ops = some w' → Inv2 tab w' := by
  intro ops
  induction ops with
  | nil => intro w w' hi h; simp [run2] at h; subst h; exact hi
  | cons op r ih =>
    intro w w' hi h
    simp only [run2] at h
    split at h
    · rename_i w1 h1; exact ih w1 w' (step2_inv tab hkey hsz w w1 op hi h1) h
    · simp at h

/-- a chain replica whose loaderVersion has reached the source version holds exactly the source's current entries,
    transported `d` times, each with the source's version -/
theorem chain_synced (tab : Nat → Content)
    (hkey : ∀ k, (tab (tab k).t).typ = (tab k).typ ∧ (tab (tab k).t).id = (tab k).id)
    (d : Nat) (R S : J) (H : List Entry) (hS : SrcOK tab S H) (hR : Rep tab d R S H) (hs : S.cur ≤ R.lv) :
    ∀ r, r ∈ R.entries ↔ ∃ s ∈ S.entries, r = img tab d s := by
  intro r
  constructor
  · intro hr
    obtain ⟨h, hh, rfl⟩ := hR.fa.f2 r hr
    obtain ⟨s, hs', hk, _⟩ := hS.latest h hh
    have hin := hR.fa.f1 s hs' (by have := hS.jx.inv.bound s hs'; omega)
    have k1 := img_sameKey tab hkey d h (hS.wf h hh)
    have k2 := img_sameKey tab hkey d s (hS.wf s (hS.sub s hs'))
    have : img tab d h = img tab d s := unique_of_sameKey R.entries hR.jx.inv.keys _ _ hr hin
      (sameKey_trans _ _ _ k1 (sameKey_trans _ _ _ hk (by rw [sameKey_symm]; exact k2)))
    exact ⟨s, hs', this⟩
  · rintro ⟨s, hs', rfl⟩
    exact hR.fa.f1 s hs' (by have := hS.jx.inv.bound s hs'; omega)


/-! ### two hops with a COMPACT (or any) aggregator that is never rolled back: `Conv` per hop, composed -/

theorem conv_congrU (tab : Nat → Content) (R U U' : J) (he : U'.entries = U.entries) (hc : U'.cur = U.cur)
    (h : Conv tab R U) : Conv tab R U' :=
  ⟨by rw [he]; exact h.c1, by rw [he]; exact h.c2, ⟨h.c3.1, by rw [hc]; exact h.c3.2⟩, h.wfR, by rw [he]; exact h.wfU⟩

theorem fileok_congrU (tab : Nat → Content) (f : File) (c : Bool) (U U' : J) (he : U'.entries = U.entries)
    (hc : U'.cur = U.cur) (h : FileOK tab f c U) : FileOK tab f c U' := by
  obtain ⟨Rs, a, b, d, e, g1, g2⟩ := h
  exact ⟨Rs, a, conv_congrU tab Rs U U' he hc b, d, e, g1, g2⟩

/-- the upstream receives a batch of well-formed entries (what `applyUpdate` adds): replica invariant and file invariant stay -/
theorem conv_upAddAll (tab : Nat → Content) (c : Bool) (hT : TabOK tab c) : ∀ (es : List Entry) (U U' : J),
    (∀ e ∈ es, e = mkEntry tab e.ver e.k) → JX U → addAll U es = some U' →
    (∀ R, R.compact = c → Conv tab R U → Conv tab R U') ∧ (∀ f, FileOK tab f c U → FileOK tab f c U') := by
  intro es
  induction es with
  | nil => intro U U' _ _ h; simp [addAll] at h; subst h; exact ⟨fun _ _ x => x, fun _ x => x⟩
  | cons e r ih =>
    intro U U' hw hU h
    simp only [addAll] at h
    split at h
    · rename_i U1 h1
      have he := hw e (by simp)
      rw [he] at h1
      obtain ⟨i1, i2⟩ := ih U1 U' (fun x hx => hw x (List.mem_cons_of_mem _ hx)) (add_jx _ _ _ hU h1) h
      refine ⟨fun R hc hconv => i1 R hc (conv_upAdd tab R U U1 e.ver e.k (by rw [hc]; exact hT) hconv h1 hU),
        fun f hf => i2 f (fileok_upAdd tab f c U U1 e.ver e.k hT hU hf h1)⟩
    · simp at h

/-- a schedule in which the aggregator is never restarted -/
def NoRestartA (ops : List Op2) : Prop := ∀ op ∈ ops, ∀ k, op ≠ Op2.restartA k

structure Inv2C (tab : Nat → Content) (w : W2) : Prop where
  hop1 : WInv tab { U := w.S, R := w.A, file := w.fileA }
  jG : JX w.G
  conv2 : Conv tab w.G w.A
  file2 : FileOK tab w.fileG w.G.compact w.A

theorem step2c_inv (tab : Nat → Content) (w w' : W2) (op : Op2) (hTA : TabOK tab w.A.compact) (hTG : TabOK tab w.G.compact)
    (hno : ∀ k, op ≠ Op2.restartA k) (hi : Inv2C tab w) (h : step2 tab w op = some w') :
    Inv2C tab w' ∧ w'.A.compact = w.A.compact ∧ w'.G.compact = w.G.compact := by
  cases op with
  | src v k =>
    simp only [step2] at h
    split at h
    · rename_i S' hS'
      injection h with h; subst h
      have := stepW_inv tab { U := w.S, R := w.A, file := w.fileA } { U := S', R := w.A, file := w.fileA } (.upAdd v k) hTA hi.hop1
        (by simp [stepW, hS'])
      exact ⟨⟨this.1, hi.jG, hi.conv2, hi.file2⟩, rfl, rfl⟩
    · simp at h
  | deliverA i b c =>
    simp only [step2] at h
    split at h
    · rename_i p hp
      injection h with h; subst h
      have h1 := stepW_inv tab { U := w.S, R := w.A, file := w.fileA } { U := w.S, R := p.1, file := w.fileA } (.deliver i b c) hTA
        hi.hop1 (by simp [stepW, hp])
      -- seen from the agent, the aggregator received a batch of well-formed entries
      have hq : (transport tab (diff w.S w.A.lv i b)).take c = transport tab ((diff w.S w.A.lv i b).take c) := by
        simp [transport, List.map_take]
      rw [hq] at hp
      have key : (∀ R, R.compact = w.G.compact → Conv tab R w.A → Conv tab R p.1) ∧
          (∀ f, FileOK tab f w.G.compact w.A → FileOK tab f w.G.compact p.1) := by
        unfold applyUpdate at hp
        split at hp
        · injection hp with hp; subst hp; exact ⟨fun _ _ x => x, fun _ x => x⟩
        · split at hp
          · simp at hp
          · rename_i j1 hj1
            injection hp with hp; subst hp
            have hw : ∀ e ∈ keptOf tab w.A (transport tab ((diff w.S w.A.lv i b).take c)), e = mkEntry tab e.ver e.k := by
              intro e he
              obtain ⟨u, _, f, _, rfl⟩ := kept_sound tab w.A _ e he
              rfl
            obtain ⟨a1, a2⟩ := conv_upAddAll tab w.G.compact hTG _ w.A j1 hw hi.hop1.jR hj1
            exact ⟨fun R hc x => conv_congrU tab R j1 _ rfl rfl (a1 R hc x),
              fun f x => fileok_congrU tab f _ j1 _ rfl rfl (a2 f x)⟩
      exact ⟨⟨h1.1, hi.jG, key.1 w.G rfl hi.conv2, key.2 _ hi.file2⟩, h1.2, rfl⟩
    · simp at h
  | saveA =>
    simp only [step2] at h
    injection h with h; subst h
    have h1 := stepW_inv tab { U := w.S, R := w.A, file := w.fileA } _ .save hTA hi.hop1 rfl
    have he : (save w.A w.fileA).1.entries = w.A.entries ∧ (save w.A w.fileA).1.cur = w.A.cur := by
      unfold save; split <;> exact ⟨rfl, rfl⟩
    exact ⟨⟨h1.1, hi.jG, conv_congrU tab _ _ _ he.1 he.2 hi.conv2, fileok_congrU tab _ _ _ _ he.1 he.2 hi.file2⟩, h1.2, rfl⟩
  | restartA keep => exact absurd rfl (hno keep)
  | deliverG i b c =>
    simp only [step2] at h
    split at h
    · rename_i p hp
      injection h with h; subst h
      obtain ⟨a1, a2, a3⟩ := conv_deliver tab w.G p.1 w.A p.2 i b c hTG hi.conv2 hi.jG hi.hop1.jR hp
      exact ⟨⟨hi.hop1, a2, a1, by simp only [a3]; exact hi.file2⟩, rfl, a3⟩
    · simp at h
  | saveG =>
    simp only [step2] at h
    injection h with h; subst h
    have hx := stepW_inv tab { U := w.A, R := w.G, file := w.fileG } _ .save hTG
      ⟨hi.hop1.jR, hi.jG, hi.conv2, hi.file2⟩ rfl
    exact ⟨⟨hi.hop1, hx.1.jR, hx.1.conv, hx.1.file⟩, rfl, hx.2⟩
  | restartG keep =>
    simp only [step2] at h
    split at h
    · rename_i p hp
      injection h with h; subst h
      have hx := stepW_inv tab { U := w.A, R := w.G, file := w.fileG } { U := w.A, R := p.1, file := truncate w.fileG keep }
        (.restart keep) hTG ⟨hi.hop1.jR, hi.jG, hi.conv2, hi.file2⟩ (by simp [stepW, hp])
      exact ⟨⟨hi.hop1, hx.1.jR, hx.1.conv, hx.1.file⟩, rfl, hx.2⟩
    · simp at h

theorem run2c_inv (tab : Nat → Content) : ∀ (ops : List Op2) (w w' : W2), TabOK tab w.A.compact → TabOK tab w.G.compact →
    NoRestartA ops → Inv2C tab w → run2 tab w ops = some w' →
    Inv2C tab w' ∧ w'.A.compact = w.A.compact ∧ w'.G.compact = w.G.compact := by
  intro ops
  induction ops with
  | nil => intro w w' _ _ _ hi h; simp [run2] at h; subst h; exact ⟨hi, rfl, rfl⟩
  | cons op r ih =>
    intro w w' hA hG hno hi h
    simp only [run2] at h
    split at h
    · rename_i w1 h1
      obtain ⟨i1, c1, c2⟩ := step2c_inv tab w w1 op hA hG (fun k => hno op (by simp) k) hi h1
      obtain ⟨i2, d1, d2⟩ := ih w1 w' (by rw [c1]; exact hA) (by rw [c2]; exact hG)
        (fun o ho k => hno o (List.mem_cons_of_mem _ ho) k) i1 h
      exact ⟨i2, d1.trans c1, d2.trans c2⟩
    · simp at h


/-! ### towards roll-backs of a compact aggregator: the run-compressed reading of one stored entry -/

/-- an entity's stored form never returns to an earlier value: between two source versions with the same stored form,
    every version of the entity has that form (excludes exactly A → B → A) -/
def NoReturn (tab : Nat → Content) (c : Bool) (H : List Entry) : Prop :=
  ∀ h1 ∈ H, ∀ h2 ∈ H, ∀ h3 ∈ H, sameKey h1 h2 = true → sameKey h2 h3 = true → h1.ver ≤ h2.ver → h2.ver ≤ h3.ver →
    storedAs tab c h1.k = storedAs tab c h3.k → storedAs tab c h2.k = storedAs tab c h1.k

/-- the stored entry `a` stands for a RUN of source versions: it starts at a genuine source version of its entity whose
    stored form is `a.k`, and every source version of the entity from there up to `L` has that same stored form -/
def Covers (tab : Nat → Content) (c : Bool) (H : List Entry) (a : Entry) (L : Int) : Prop :=
  (∃ h ∈ H, sameKey a h = true ∧ a.ver = h.ver ∧ storedAs tab c h.k = some a.k) ∧
  ∀ h' ∈ H, sameKey h' a = true → a.ver ≤ h'.ver → h'.ver ≤ L → storedAs tab c h'.k = some a.k

/-- the skip extends the run: the journal holds `a`, a source event `he` of the same entity arrives whose stored form
    equals `a.k` (so `applyUpdate` skips it and keeps `a` with its old version) — also when versions between the old
    bound and `he` were never seen (latest-only delivery), and also when `a` is a STALE entry reloaded from an old file.
    Under `NoReturn` the kept entry covers everything up to `he.ver`. -/
theorem covers_skip (tab : Nat → Content) (c : Bool) (H : List Entry) (hnr : NoReturn tab c H) (a he : Entry) (L : Int)
    (hc : Covers tab c H a L) (heH : he ∈ H) (hk : sameKey he a = true) (hv : a.ver ≤ he.ver)
    (hf : storedAs tab c he.k = some a.k) : Covers tab c H a he.ver := by
  obtain ⟨⟨h, hh, kah, vah, fh⟩, _⟩ := hc
  refine ⟨⟨h, hh, kah, vah, fh⟩, ?_⟩
  intro h' hh' kh' v1 v2
  have k1 : sameKey h h' = true :=
    sameKey_trans _ _ _ (by rw [sameKey_symm]; exact kah) (by rw [sameKey_symm]; exact kh')
  have k2 : sameKey h' he = true := sameKey_trans _ _ _ kh' (by rw [sameKey_symm]; exact hk)
  have := hnr h hh h' hh' he heH k1 k2 (by omega) v2 (by rw [fh, hf])
  rw [this, fh]

/-- a restart only lowers the bound (loaderVersion) and drops entries: what is kept still covers its (shorter) run -/
theorem covers_shrink (tab : Nat → Content) (c : Bool) (H : List Entry) (a : Entry) (L L' : Int)
    (hc : Covers tab c H a L) (hl : L' ≤ L) : Covers tab c H a L' :=
  ⟨hc.1, fun h' hh' k v1 v2 => hc.2 h' hh' k v1 (Int.le_trans v2 hl)⟩

/-- restart, then the skip of the entity's current source version: the stale entry that survived in the old file
    covers the entity's whole run again — this is the step that fails without `NoReturn` (the known finding) -/
theorem covers_restart_then_skip (tab : Nat → Content) (c : Bool) (H : List Entry) (hnr : NoReturn tab c H) (a he : Entry)
    (L L' : Int) (hc : Covers tab c H a L) (hl : L' ≤ L) (heH : he ∈ H) (hk : sameKey he a = true) (hv : a.ver ≤ he.ver)
    (hf : storedAs tab c he.k = some a.k) : Covers tab c H a he.ver :=
  covers_skip tab c H hnr a he L' (covers_shrink tab c H a L L' hc hl) heH hk hv hf

/-- a freshly stored entry covers its own version -/
theorem covers_fresh (tab : Nat → Content) (c : Bool) (H : List Entry) (h : Entry) (hh : h ∈ H) (hw : h = mkEntry tab h.ver h.k)
    (hkey : TabOK tab c) (f : Nat) (hf : storedAs tab c h.k = some f)
    (huniq : ∀ h' ∈ H, sameKey h' h = true → h'.ver = h.ver → h' = h) : Covers tab c H (mkEntry tab h.ver f) h.ver := by
  have ks := stored_sameKey tab c hkey h hw f hf h.ver
  refine ⟨⟨h, hh, ks, rfl, hf⟩, ?_⟩
  intro h' hh' k v1 v2
  have : h' = h := huniq h' hh' (sameKey_trans _ _ _ k ks) (by simp only [mkEntry] at v1; omega)
  rw [this]; exact hf

end SH.C20
