import SH.Lemmas.DiskCacheRun

namespace SH.C09
open SH.DiskCache

theorem inv_init (cfg : Cfg) : Inv cfg {} {} := by
  have := inv_fresh cfg [] 0 {} (by simp) (by simp) (by simp) (by simp) rfl rfl
  exact this

/-- a second of the live sequence that carries an id is returned by GetBucket, byte for byte -/
theorem get_live (cfg : Cfg) (s : Shard) (a : Abs) (inv : Inv cfg s a) (k t : Nat) (d : Bytes)
    (h : (some k, t, d) ∈ a.live cfg) : DiskCache.get cfg s k t = (s, .ok d) := by
  obtain ⟨g, hg, he⟩ := List.mem_flatMap.mp h
  obtain ⟨q, hq, _, heq⟩ := live_entry_rec cfg g _ he
  simp only [Prod.mk.injEq] at heq
  obtain ⟨hid, ht, hd⟩ := heq
  obtain ⟨p1, p2, hp⟩ := List.append_of_mem hq
  have hb : (⟨k, g.name, 0 + recsLen p1, q.time, q.body.length, cfg.crc q.body⟩ : Bucket) ∈ a.buckets cfg := by
    apply List.mem_flatMap.mpr
    refine ⟨g, hg, ?_⟩
    unfold fbuckets; rw [hp]
    exact bucketsAt_mem cfg g.name 0 p1 p2 q k hid.symm
  obtain ⟨f, hf, r1, r, r2, hrec, hrid, _, hU2, hU1⟩ := inv.erase_ctx hb
  obtain ⟨f', hf', r1', r', r2', hrec', hrid', hrt', hget⟩ := get_known cfg s a inv _ hb
  simp only at hrid hrid' hrt' hget hU2 hU1
  -- q is the only record with id k
  have hgf : g = f := by
    by_cases e : g = f
    · exact e
    · exact absurd hid.symm (hU1 g hg e q hq)
  subst hgf
  have hqr : q = r := by
    rw [hrec] at hq
    rcases List.mem_append.mp hq with h1 | h1
    · exact absurd hid.symm (hU2 q (by simp [h1]))
    · rcases List.mem_cons.mp h1 with h2 | h2
      · exact h2
      · exact absurd hid.symm (hU2 q (by simp [h2]))
  have hf'g : f' = g := by
    by_cases e : f' = g
    · exact e
    · exact absurd hrid' (hU1 f' hf' e r' (by rw [hrec']; simp))
  subst hf'g
  have hr'r : r' = r := by
    have hr'in : r' ∈ f'.recs := by rw [hrec']; simp
    rw [hrec] at hr'in
    rcases List.mem_append.mp hr'in with h1 | h1
    · exact absurd hrid' (hU2 r' (by simp [h1]))
    · rcases List.mem_cons.mp h1 with h2 | h2
      · exact h2
      · exact absurd hrid' (hU2 r' (by simp [h2]))
  rw [hr'r, ← hqr] at hget
  rw [ht, hd]
  exact hget

/-- conversely: whatever GetBucket returns is a second of the live sequence (put, not erased) with that id and time -/
theorem get_ok_live (cfg : Cfg) (s s' : Shard) (a : Abs) (inv : Inv cfg s a) (k t : Nat) (d : Bytes)
    (h : DiskCache.get cfg s k t = (s', .ok d)) : (some k, t, d) ∈ a.live cfg := by
  obtain ⟨b, hfb, hbt, _, _, _, _⟩ := get_ok_checked cfg s s' k t d h
  obtain ⟨hbk, hbid⟩ := findB_some hfb
  have hb := (inv.known b).mp hbk
  obtain ⟨f, hf, r1, r, r2, hrec, hrid, hrt, hget⟩ := get_known cfg s a inv b hb
  rw [hbid, hbt, h] at hget
  simp only [Prod.mk.injEq, GetRes.ok.injEq] at hget
  have hrin : r ∈ f.recs := by rw [hrec]; simp
  have hdead : r.dead cfg = false := ((inv.wf f hf).1 r hrin).2.2.2.2.2 (by rw [hrid]; simp)
  apply List.mem_flatMap.mpr
  refine ⟨f, hf, ?_⟩
  simp only [fLive, liveRecs, List.mem_map, List.mem_filter]
  refine ⟨r, ⟨hrin, by simp [hdead]⟩, ?_⟩
  rw [hrid, hbid, hrt, hbt, hget.2]

end SH.C09
