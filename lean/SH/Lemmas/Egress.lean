/-
  SH.Lemmas.Egress — helper development for property C31 (lean/SH/Props/C31.lean states the property theorems).

  Buffer invariants (`Data`, `Exhausted`, `BInv`) and the no-lost-wake-up invariant (`NoLost`) with their preservation
  lemmas for every buffer function and every pool step; the forced-move schedule (`senderNext`, `bstep`, `drive`) and the
  case analyses behind `flush_within_one_timeout`; bookkeeping (`Acct`) and framing (`AllFrames`) invariants.
-/
import SH.Model.Egress

set_option linter.unusedSimpArgs false

namespace SH.C31
open SH.Egress

/-- what the sender still owes upstream: the unread part of the read batch, then the write buffer -/
def pendingOf (b : Buf) : List Pkt := b.r.drop b.ri ++ b.w

def skippedCount (d : List (Pkt × Fate)) : Nat := (d.filter (fun d => d.2 == Fate.skipped)).length

theorem map_written_fst (l : List Pkt) : (l.map (fun p => (p, Fate.written))).map (·.1) = l := by
  induction l with
  | nil => rfl
  | cons a l ih => simp [ih]

theorem map_skipped_fst (l : List Pkt) : (l.map (fun p => (p, Fate.skipped))).map (·.1) = l := by
  induction l with
  | nil => rfl
  | cons a l ih => simp [ih]

theorem skipped_written (l : List Pkt) : skippedCount (l.map (fun p => (p, Fate.written))) = 0 := by
  induction l with
  | nil => rfl
  | cons a l ih => simp [skippedCount] at ih ⊢

theorem skipped_skipped (l : List Pkt) : skippedCount (l.map (fun p => (p, Fate.skipped))) = l.length := by
  induction l with
  | nil => rfl
  | cons a l ih => simp [skippedCount] at ih ⊢; exact ih

theorem skipped_append (a b : List (Pkt × Fate)) : skippedCount (a ++ b) = skippedCount a + skippedCount b := by
  simp [skippedCount]

/-- a batch splits into: handed over completely, the one being written when the error happened, to be resent -/
theorem split3 (l : List Pkt) (k : Nat) : l = l.take k ++ ((l.drop k).take 1 ++ l.drop (k + 1)) := by
  have h1 : (l.drop k).take 1 ++ l.drop (k + 1) = l.drop k := by
    have := List.take_append_drop 1 (l.drop k)
    rw [List.drop_drop] at this
    exact this
  rw [h1, List.take_append_drop]
/-- data invariant of one buffer (both variants): FIFO bookkeeping, capacity, error count -/
structure Data (c : Cfg) (b : Buf) : Prop where
  fifo : b.acc = b.done.map (·.1) ++ pendingOf b
  wlen : b.w.length ≤ c.bufLen
  nerr : skippedCount b.done = b.nerr

/-- a sender waiting in `swap` has consumed its read batch -/
def Exhausted (b : Buf) : Prop := parked b = true → b.r.length ≤ b.ri

structure BInv (c : Cfg) (b : Buf) : Prop where
  data : Data c b
  exh : Exhausted b

theorem binv_init (c : Cfg) : BInv c {} := by
  refine ⟨⟨?_, ?_, ?_⟩, ?_⟩ <;> simp [pendingOf, parked, skippedCount, Exhausted]

/-- `Data` only looks at these fields -/
theorem data_congr (c : Cfg) (b b' : Buf) (h : Data c b) (hw : b'.w = b.w) (hr : b'.r = b.r) (hri : b'.ri = b.ri)
    (ha : b'.acc = b.acc) (hd : b'.done = b.done) (hn : b'.nerr = b.nerr) : Data c b' := by
  refine ⟨?_, ?_, ?_⟩
  · simp only [pendingOf, hw, hr, hri, ha, hd]; exact h.fifo
  · rw [hw]; exact h.wlen
  · rw [hd, hn]; exact h.nerr

theorem signal_fields (b : Buf) : (signal b).w = b.w ∧ (signal b).r = b.r ∧ (signal b).ri = b.ri ∧ (signal b).acc = b.acc ∧
    (signal b).done = b.done ∧ (signal b).pc = b.pc ∧ (signal b).closed = b.closed ∧ (signal b).timeout = b.timeout ∧
    (signal b).nerr = b.nerr := by
  unfold signal; split <;> simp

theorem binv_signal (c : Cfg) (b : Buf) (h : BInv c b) : BInv c (signal b) := by
  obtain ⟨h1, h2, h3, h4, h5, h6, h7, h8, h9⟩ := signal_fields b
  refine ⟨data_congr c b _ h.data h1 h2 h3 h4 h5 h9, ?_⟩
  simp only [Exhausted, parked, h6, h2, h3]; exact h.exh

theorem binv_bufPush (c : Cfg) (b : Buf) (p : Pkt) (h : BInv c b) : BInv c (bufPush c b p).1 := by
  unfold bufPush
  by_cases hf : full c b = true
  · simp only [hf, if_true]; exact binv_signal c b h
  · simp only [hf]
    apply binv_signal
    refine ⟨⟨?_, ?_, ?_⟩, ?_⟩
    · simp only [pendingOf, h.data.fifo, List.append_assoc]
    · simp only [full, decide_eq_true_eq, Nat.not_le] at hf; simp; omega
    · exact h.data.nerr
    · exact h.exh

theorem data_swapBody (c : Cfg) (b : Buf) (h : Data c b) (hx : b.r.length ≤ b.ri) : Data c (swapBody b) := by
  unfold swapBody
  split
  · exact h
  · refine ⟨?_, ?_, ?_⟩
    · have := h.fifo
      simp only [pendingOf, List.drop_of_length_le hx, List.nil_append] at this
      simp [pendingOf, this]
    · simp
    · exact h.nerr

theorem binv_afterSwap1 (c : Cfg) (i : Bool) (b : Buf) (h : Data c b) : BInv c (afterSwap1 i b).1 := by
  unfold afterSwap1
  split
  · exact ⟨data_congr c b _ h rfl rfl rfl rfl rfl rfl, by simp [Exhausted, parked]⟩
  · exact ⟨data_congr c b _ h rfl rfl rfl rfl rfl rfl, by simp [Exhausted, parked]⟩

theorem binv_afterSwap2 (c : Cfg) (i : Bool) (b : Buf) (h : Data c b) : BInv c (afterSwap2 i b).1 :=
  ⟨data_congr c b _ h rfl rfl rfl rfl rfl rfl, by simp [Exhausted, parked, afterSwap2]⟩

theorem binv_enterSwap1 (c : Cfg) (i : Bool) (b : Buf) (h : Data c b) (hx : b.r.length ≤ b.ri) : BInv c (enterSwap1 c i b).1 := by
  unfold enterSwap1
  split
  · exact ⟨data_congr c b _ h rfl rfl rfl rfl rfl rfl, fun _ => hx⟩
  · exact binv_afterSwap1 c i _ (data_swapBody c _ (data_congr c b _ h rfl rfl rfl rfl rfl rfl) hx)

theorem binv_enterSwap2 (c : Cfg) (i : Bool) (b : Buf) (h : Data c b) (hx : b.r.length ≤ b.ri) : BInv c (enterSwap2 c i b).1 := by
  unfold enterSwap2
  split
  · exact ⟨data_congr c b _ h rfl rfl rfl rfl rfl rfl, fun _ => hx⟩
  · exact binv_afterSwap2 c i _ (data_swapBody c _ (data_congr c b _ h rfl rfl rfl rfl rfl rfl) hx)

theorem binv_popStart (c : Cfg) (i : Bool) (b : Buf) (h : BInv c b) : BInv c (popStart c i b).1 := by
  unfold popStart
  split
  · exact h
  · split
    · exact binv_enterSwap1 c i b h.data ‹_›
    · exact binv_afterSwap1 c i b h.data

theorem binv_wake (c : Cfg) (i : Bool) (b : Buf) (h : BInv c b) : BInv c (wake c i b).1 := by
  unfold wake
  split
  · exact h
  · split
    · exact ⟨data_congr c b _ h.data rfl rfl rfl rfl rfl rfl, h.exh⟩
    · split
      · rename_i hpc
        exact binv_afterSwap1 c i _ (data_swapBody c b h.data (h.exh (by simp [parked, hpc])))
      · rename_i hpc
        exact binv_afterSwap2 c i _ (data_swapBody c b h.data (h.exh (by simp [parked, hpc])))
      · rename_i h1 h2
        refine ⟨data_congr c b _ h.data rfl rfl rfl rfl rfl rfl, ?_⟩
        intro hp
        simp only [parked] at hp
        cases hpc : b.pc <;> simp_all

theorem binv_timerFire (c : Cfg) (v : Variant) (b : Buf) (h : BInv c b) : BInv c (timerFire v b) := by
  unfold timerFire
  split
  · exact h
  · cases v
    · exact binv_signal c _ ⟨data_congr c b _ h.data rfl rfl rfl rfl rfl rfl, h.exh⟩
    · exact ⟨data_congr c b _ h.data rfl rfl rfl rfl rfl rfl, h.exh⟩

theorem binv_bufClose (c : Cfg) (b : Buf) (h : BInv c b) : BInv c (bufClose b) :=
  binv_signal c _ ⟨data_congr c b _ h.data rfl rfl rfl rfl rfl rfl, h.exh⟩


theorem batch_length (b : Buf) : (batch b).length = b.r.length - b.ri := by simp [batch]

theorem binv_writeDone (c : Cfg) (i : Bool) (b : Buf) (res : WRes) (h : BInv c b) : BInv c (writeDone c i b res).1 := by
  unfold writeDone
  split
  · exact h
  · cases res with
    | ok =>
      simp only
      apply binv_enterSwap2
      · refine ⟨?_, h.data.wlen, ?_⟩
        · have := h.data.fifo
          simp only [pendingOf] at this
          simp only [pendingOf, List.map_append, map_written_fst, batch, List.drop_length, List.nil_append,
            List.append_assoc]
          exact this
        · simp only [skipped_append, skipped_written, Nat.add_zero]; exact h.data.nerr
      · exact Nat.le_refl _
    | err n =>
      simp only
      split
      · exact h
      · rename_i hn
        have hlen := batch_length b
        have hn' : n < b.r.length - b.ri := by omega
        refine ⟨⟨?_, h.data.wlen, ?_⟩, by simp [Exhausted, parked]⟩
        · have hf := h.data.fifo
          simp only [pendingOf] at hf
          have hd : b.r.drop (b.r.length - n) = (batch b).drop ((batch b).length - n - 1 + 1) := by
            simp only [batch, List.drop_drop]
            congr 1
            simp only [List.length_drop]
            omega
          simp only [pendingOf, List.map_append, map_written_fst, map_skipped_fst, hd, List.append_assoc]
          rw [hf]
          congr 1
          rw [← List.append_assoc, ← List.append_assoc, List.append_assoc (List.take _ _)]
          congr 1
          exact split3 (batch b) _
        · simp only [skipped_append, skipped_written, skipped_skipped, Nat.add_zero, List.length_take, List.length_drop]
          have := h.data.nerr
          omega

/-- both buffers satisfy the buffer invariant -/
def PInv (c : Cfg) (s : Pool) : Prop := BInv c s.b0 ∧ BInv c s.b1

theorem pinv_getB (c : Cfg) (s : Pool) (h : PInv c s) (i : Bool) : BInv c (getB s i) := by
  cases i <;> simp [getB, h.1, h.2]

theorem pinv_setB (c : Cfg) (s : Pool) (i : Bool) (b : Buf) (h : PInv c s) (hb : BInv c b) : PInv c (setB s i b) := by
  cases i <;> simp [setB, PInv, h.1, h.2, hb]

theorem pinv_push (c : Cfg) (s : Pool) (p : Pkt) (h : PInv c s) : PInv c (push c s p).1 := by
  have hb0 := binv_bufPush c s.b0 p h.1
  have hb1 := binv_bufPush c s.b1 p h.2
  unfold push
  simp only
  split
  · exact h
  · split
    · cases hp : s.prim <;> simp [PInv, setB, getB, hp, h.1, h.2, hb0, hb1]
    · split
      · cases hp : s.prim <;> simp [PInv, setB, getB, setRecon, hp, h.1, h.2, hb0, hb1]
      · cases hp : s.prim <;> simp [PInv, setB, getB, hp, h.1, h.2, hb0, hb1]

theorem pinv_step (v : Variant) (c : Cfg) (s : Pool) (op : Op) (h : PInv c s) : PInv c (step v c s op).1 := by
  cases op with
  | handle body =>
    simp only [step, handle]
    split
    · exact h
    · exact pinv_push c s _ h
  | pop i => exact pinv_setB c s i _ h (binv_popStart c i _ (pinv_getB c s h i))
  | wres i r => exact pinv_setB c s i _ h (binv_writeDone c i _ r (pinv_getB c s h i))
  | timer i => exact pinv_setB c s i _ h (binv_timerFire c v _ (pinv_getB c s h i))
  | wake i => exact pinv_setB c s i _ h (binv_wake c i _ (pinv_getB c s h i))
  | close => exact ⟨binv_bufClose c _ h.1, binv_bufClose c _ h.2⟩
  | stats => exact h
  | report i ok =>
    simp only [step]
    split
    · exact h
    · split
      · exact h
      · split <;> exact h
  | takeRecon i => cases i <;> exact h

theorem pinv_run (v : Variant) (c : Cfg) (ops : List Op) : ∀ s, PInv c s → PInv c (run v c s ops) := by
  induction ops with
  | nil => intro s h; exact h
  | cons op ops ih => intro s h; exact ih _ (pinv_step v c s op h)

theorem pinv_init (c : Cfg) : PInv c {} := ⟨binv_init c, binv_init c⟩


/-- no lost wake-up: a sender parked in `swap` whose wait condition no longer holds has a wake-up pending -/
def NoLost (c : Cfg) (b : Buf) : Prop := parked b = true → mustWait c b = false → b.sig = true

theorem nolost_of_not_parked (c : Cfg) (b : Buf) (h : parked b = false) : NoLost c b := by
  intro hp; rw [h] at hp; cases hp

theorem nolost_signal (c : Cfg) (b : Buf) : NoLost c (signal b) := by
  unfold signal
  split
  · intro _ _; rfl
  · rename_i hp; exact nolost_of_not_parked c b (by simpa using hp)

theorem nolost_bufPush (c : Cfg) (b : Buf) (p : Pkt) : NoLost c (bufPush c b p).1 := by
  unfold bufPush; split <;> exact nolost_signal c _

theorem nolost_afterSwap1 (c : Cfg) (i : Bool) (b : Buf) : NoLost c (afterSwap1 i b).1 := by
  unfold afterSwap1; split <;> exact nolost_of_not_parked c _ (by simp [parked])

theorem nolost_afterSwap2 (c : Cfg) (i : Bool) (b : Buf) : NoLost c (afterSwap2 i b).1 :=
  nolost_of_not_parked c _ (by simp [parked, afterSwap2])

theorem nolost_enterSwap1 (c : Cfg) (i : Bool) (b : Buf) : NoLost c (enterSwap1 c i b).1 := by
  unfold enterSwap1
  split
  · rename_i hm
    intro _ hf
    simp [mustWait] at hm hf
    have := hf hm.1
    simp [hm.2] at this
  · exact nolost_afterSwap1 c i _

theorem nolost_enterSwap2 (c : Cfg) (i : Bool) (b : Buf) : NoLost c (enterSwap2 c i b).1 := by
  unfold enterSwap2
  split
  · rename_i hm
    intro _ hf
    simp [mustWait] at hm hf
    have := hf hm.1
    simp [hm.2] at this
  · exact nolost_afterSwap2 c i _

theorem nolost_popStart (c : Cfg) (i : Bool) (b : Buf) (h : NoLost c b) : NoLost c (popStart c i b).1 := by
  unfold popStart
  split
  · exact h
  · split
    · exact nolost_enterSwap1 c i b
    · exact nolost_afterSwap1 c i b

theorem nolost_writeDone (c : Cfg) (i : Bool) (b : Buf) (r : WRes) (h : NoLost c b) : NoLost c (writeDone c i b r).1 := by
  unfold writeDone
  split
  · exact h
  · cases r with
    | ok => exact nolost_enterSwap2 c i _
    | err n =>
      simp only
      split
      · exact h
      · exact nolost_of_not_parked c _ (by simp [parked])

theorem nolost_wake (c : Cfg) (i : Bool) (b : Buf) (h : NoLost c b) : NoLost c (wake c i b).1 := by
  unfold wake
  split
  · exact h
  · split
    · rename_i hm
      intro _ hf
      simp only [mustWait] at hm hf
      simp [hm] at hf
    · split
      · exact nolost_afterSwap1 c i _
      · exact nolost_afterSwap2 c i _
      · rename_i h1 h2
        apply nolost_of_not_parked
        simp only [parked]
        cases hpc : b.pc <;> simp_all

theorem nolost_timerFire (c : Cfg) (b : Buf) (h : NoLost c b) : NoLost c (timerFire .signal b) := by
  unfold timerFire
  split
  · exact h
  · exact nolost_signal c _

theorem nolost_bufClose (c : Cfg) (b : Buf) : NoLost c (bufClose b) := nolost_signal c _

def PNoLost (c : Cfg) (s : Pool) : Prop := NoLost c s.b0 ∧ NoLost c s.b1

theorem pnolost_getB (c : Cfg) (s : Pool) (h : PNoLost c s) (i : Bool) : NoLost c (getB s i) := by
  cases i <;> simp [getB, h.1, h.2]

theorem pnolost_setB (c : Cfg) (s : Pool) (i : Bool) (b : Buf) (h : PNoLost c s) (hb : NoLost c b) : PNoLost c (setB s i b) := by
  cases i <;> simp [setB, PNoLost, h.1, h.2, hb]

theorem pnolost_push (c : Cfg) (s : Pool) (p : Pkt) (h : PNoLost c s) : PNoLost c (push c s p).1 := by
  have hb0 := nolost_bufPush c s.b0 p
  have hb1 := nolost_bufPush c s.b1 p
  unfold push
  simp only
  split
  · exact h
  · split
    · cases hp : s.prim <;> simp [PNoLost, setB, getB, hp, h.1, h.2, hb0, hb1]
    · split
      · cases hp : s.prim <;> simp [PNoLost, setB, getB, setRecon, hp, h.1, h.2, hb0, hb1]
      · cases hp : s.prim <;> simp [PNoLost, setB, getB, hp, h.1, h.2, hb0, hb1]

theorem pnolost_step (c : Cfg) (s : Pool) (op : Op) (h : PNoLost c s) : PNoLost c (step .signal c s op).1 := by
  cases op with
  | handle body =>
    simp only [step, handle]
    split
    · exact h
    · exact pnolost_push c s _ h
  | pop i => exact pnolost_setB c s i _ h (nolost_popStart c i _ (pnolost_getB c s h i))
  | wres i r => exact pnolost_setB c s i _ h (nolost_writeDone c i _ r (pnolost_getB c s h i))
  | timer i => exact pnolost_setB c s i _ h (nolost_timerFire c _ (pnolost_getB c s h i))
  | wake i => exact pnolost_setB c s i _ h (nolost_wake c i _ (pnolost_getB c s h i))
  | close => exact ⟨nolost_bufClose c _, nolost_bufClose c _⟩
  | stats => exact h
  | report i ok =>
    simp only [step]
    split
    · exact h
    · split
      · exact h
      · split <;> exact h
  | takeRecon i => cases i <;> exact h

theorem pnolost_run (c : Cfg) (ops : List Op) : ∀ s, PNoLost c s → PNoLost c (run .signal c s ops) := by
  induction ops with
  | nil => intro s h; exact h
  | cons op ops ih => intro s h; exact ih _ (pnolost_step c s op h)

theorem pnolost_init (c : Cfg) : PNoLost c {} :=
  ⟨nolost_of_not_parked c _ (by simp [parked]), nolost_of_not_parked c _ (by simp [parked])⟩


/-- the next move of sender `i` and of the batch timer armed by its `swap`, when nobody pushes: sendLoop calls `pop`
    again, the write in progress completes, a pending wake-up is taken, an armed timer that has not fired yet fires.
    `none`: the sender is parked, no wake-up is pending and the timer is spent — only another push could wake it. -/
def senderNext (i : Bool) (b : Buf) : Option Op :=
  match b.pc with
  | .idle => some (.pop i)
  | .writing => some (.wres i .ok)
  | _ => if b.sig then some (.wake i) else if !b.timeout then some (.timer i) else none

/-- effect of a sender-side op on the sender's own buffer -/
def bstep (v : Variant) (c : Cfg) (i : Bool) (b : Buf) : Op → Buf
  | .pop _ => (popStart c i b).1
  | .wres _ r => (writeDone c i b r).1
  | .wake _ => (wake c i b).1
  | .timer _ => timerFire v b
  | _ => b

def isTimer : Op → Bool
  | .timer _ => true
  | _ => false

/-- run the forced moves until nothing is pending (or fuel runs out, or the sender is stuck); count the timer periods -/
def drive (v : Variant) (c : Cfg) (i : Bool) : Nat → Buf → Buf × Nat
  | 0, b => (b, 0)
  | n + 1, b =>
    if (pendingOf b).isEmpty then (b, 0)
    else match senderNext i b with
      | none => (b, 0)
      | some op => ((drive v c i n (bstep v c i b op)).1, (drive v c i n (bstep v c i b op)).2 + (if isTimer op then 1 else 0))


/-- what "flushed within one timer period" means for a run of the forced moves from `b` -/
def Flushed (b : Buf) (r : Buf × Nat) : Prop :=
  pendingOf r.1 = [] ∧ r.2 ≤ 1 ∧ r.1.done = b.done ++ (pendingOf b).map (·, Fate.written) ∧ r.1.acc = b.acc

theorem flush_writing (c : Cfg) (i : Bool) (b : Buf) (hpc : b.pc = .writing) (hcl : b.closed = false) :
    Flushed b (drive .signal c i 6 b) := by
  obtain ⟨w, r, ri, closed, pc, timeout, sig, acc, done, nerr⟩ := b
  simp only at hpc hcl
  subst hpc hcl
  by_cases ht : 0 < thr c <;> by_cases hr : r.length ≤ ri <;> by_cases hw : w = [] <;> by_cases hwl : w.length < thr c <;>
    simp [Flushed, drive, pendingOf, senderNext, bstep, popStart, enterSwap1, enterSwap2, afterSwap1, afterSwap2, wake, writeDone,
      timerFire, signal, parked, mustWait, swapBody, batch, isTimer, ht, hr, hw, hwl]

theorem flush_idle (c : Cfg) (i : Bool) (b : Buf) (hpc : b.pc = .idle) (hcl : b.closed = false) :
    Flushed b (drive .signal c i 6 b) := by
  obtain ⟨w, r, ri, closed, pc, timeout, sig, acc, done, nerr⟩ := b
  simp only at hpc hcl
  subst hpc hcl
  by_cases ht : 0 < thr c <;> by_cases hr : r.length ≤ ri <;> by_cases hw : w = [] <;> by_cases hwl : w.length < thr c <;>
    simp [Flushed, drive, pendingOf, senderNext, bstep, popStart, enterSwap1, enterSwap2, afterSwap1, afterSwap2, wake, writeDone,
      timerFire, signal, parked, mustWait, swapBody, batch, isTimer, ht, hr, hw, hwl]

theorem flush_parked (c : Cfg) (i : Bool) (b : Buf) (hpc : parked b = true) (hcl : b.closed = false)
    (hex : Exhausted b) (hnl : NoLost c b) :
    Flushed b (drive .signal c i 6 b) := by
  obtain ⟨w, r, ri, closed, pc, timeout, sig, acc, done, nerr⟩ := b
  have hr := hex hpc
  simp only at hcl hr
  subst hcl
  simp only [NoLost, mustWait] at hnl
  by_cases ht : 0 < thr c <;> by_cases hw : w = [] <;> by_cases hwl : w.length < thr c <;>
    cases pc <;> cases sig <;> cases timeout <;>
    simp [Flushed, drive, pendingOf, senderNext, bstep, popStart, enterSwap1, enterSwap2, afterSwap1, afterSwap2, wake, writeDone,
      timerFire, signal, parked, mustWait, swapBody, batch, isTimer, ht, hr, hw, hwl] at hpc hnl ⊢


theorem getB_setB_same (s : Pool) (i : Bool) (b : Buf) : getB (setB s i b) i = b := by
  cases i <;> simp [getB, setB]

theorem getB_setB_other (s : Pool) (i : Bool) (b : Buf) : getB (setB s i b) (!i) = getB s (!i) := by
  cases i <;> simp [getB, setB]


theorem bufPush_ok (c : Cfg) (b : Buf) (p : Pkt) : (bufPush c b p).2 = !(full c b) := by
  unfold bufPush; split <;> simp_all

theorem bufPush_acc (c : Cfg) (b : Buf) (p : Pkt) :
    (bufPush c b p).1.acc = if full c b then b.acc else b.acc ++ [p] := by
  unfold bufPush
  split
  · exact (signal_fields b).2.2.2.1
  · exact (signal_fields _).2.2.2.1


/-- bookkeeping that holds after every history -/
structure Acct (s : Pool) : Prop where
  pushes : s.nPush = s.fwdTotal + s.dropTotal
  accepted : s.fwdTotal = s.b0.acc.length + s.b1.acc.length
  bytes : s.dropBytes = s.wb + s.reported + s.lostRep

theorem acc_popStart (c : Cfg) (i : Bool) (b : Buf) : (popStart c i b).1.acc = b.acc := by
  simp only [popStart, enterSwap1, afterSwap1, swapBody]
  repeat' split
  all_goals simp

theorem acc_wake (c : Cfg) (i : Bool) (b : Buf) : (wake c i b).1.acc = b.acc := by
  simp only [wake, afterSwap1, afterSwap2, swapBody]
  repeat' split
  all_goals simp

theorem acc_writeDone (c : Cfg) (i : Bool) (b : Buf) (r : WRes) : (writeDone c i b r).1.acc = b.acc := by
  cases r <;> simp only [writeDone, enterSwap2, afterSwap2, swapBody]
  all_goals repeat' split
  all_goals simp

theorem acc_timerFire (v : Variant) (b : Buf) : (timerFire v b).acc = b.acc := by
  cases v <;> simp only [timerFire, signal]
  all_goals repeat' split
  all_goals simp

theorem acc_bufClose (b : Buf) : (bufClose b).acc = b.acc := (signal_fields _).2.2.2.1

theorem acct_push (c : Cfg) (s : Pool) (p : Pkt) (h : Acct s) : Acct (push c s p).1 := by
  obtain ⟨h1, h2, h3⟩ := h
  unfold push
  simp only [bufPush_ok]
  cases hcl : s.closed
  · cases hp : s.prim <;> cases h0 : full c s.b0 <;> cases h1' : full c s.b1 <;>
      refine ⟨?_, ?_, ?_⟩ <;> simp [getB, setB, setRecon, bufPush_acc, hp, h0, h1'] <;> omega
  · refine ⟨?_, ?_, ?_⟩ <;> simp <;> omega

theorem acct_setB (s : Pool) (i : Bool) (b : Buf) (h : Acct s) (hb : b.acc = (getB s i).acc) : Acct (setB s i b) := by
  obtain ⟨h1, h2, h3⟩ := h
  cases i <;> simp only [getB] at hb <;> refine ⟨?_, ?_, ?_⟩ <;> simp [setB, hb] <;> omega

theorem acct_step (v : Variant) (c : Cfg) (s : Pool) (op : Op) (h : Acct s) : Acct (step v c s op).1 := by
  cases op with
  | handle body =>
    simp only [step, handle]
    split
    · exact h
    · exact acct_push c s _ h
  | pop i => exact acct_setB s i _ h (acc_popStart c i _)
  | wres i r => exact acct_setB s i _ h (acc_writeDone c i _ r)
  | timer i => exact acct_setB s i _ h (acc_timerFire v _)
  | wake i => exact acct_setB s i _ h (acc_wake c i _)
  | close =>
    obtain ⟨h1, h2, h3⟩ := h
    exact ⟨h1, by simp only [step, acc_bufClose]; exact h2, h3⟩
  | stats => exact ⟨h.1, h.2, h.3⟩
  | report i ok =>
    obtain ⟨h1, h2, h3⟩ := h
    simp only [step]
    split
    · exact ⟨h1, h2, h3⟩
    · split
      · exact ⟨h1, h2, h3⟩
      · split
        · exact ⟨h1, h2, by simp; omega⟩
        · exact ⟨h1, h2, by simp; omega⟩
  | takeRecon i => cases i <;> exact ⟨h.1, h.2, h.3⟩


/-- a framed non-empty body, as built by `HandleMetricsBatchRaw` -/
def IsFrame (p : Pkt) : Prop := ∃ body : List UInt8, body ≠ [] ∧ p = frame body

def AllFrames (s : Pool) : Prop := (∀ p ∈ s.b0.acc, IsFrame p) ∧ (∀ p ∈ s.b1.acc, IsFrame p)

theorem allframes_setB (s : Pool) (i : Bool) (b : Buf) (h : AllFrames s) (hb : b.acc = (getB s i).acc) : AllFrames (setB s i b) := by
  obtain ⟨h0, h1⟩ := h
  cases i
  · simp only [getB, Bool.false_eq_true, if_false] at hb
    exact ⟨by simp only [setB, Bool.false_eq_true, if_false, hb]; exact h0, by simp only [setB, Bool.false_eq_true, if_false]; exact h1⟩
  · simp only [getB, if_true] at hb
    exact ⟨by simp only [setB, if_true]; exact h0, by simp only [setB, if_true, hb]; exact h1⟩

theorem allframes_push (c : Cfg) (s : Pool) (p : Pkt) (hp : IsFrame p) (h : AllFrames s) : AllFrames (push c s p).1 := by
  obtain ⟨h0, h1⟩ := h
  have k0 : ∀ q ∈ s.b0.acc ++ [p], IsFrame q := by
    intro q hq; rcases List.mem_append.mp hq with hq | hq
    · exact h0 q hq
    · simp at hq; subst hq; exact hp
  have k1 : ∀ q ∈ s.b1.acc ++ [p], IsFrame q := by
    intro q hq; rcases List.mem_append.mp hq with hq | hq
    · exact h1 q hq
    · simp at hq; subst hq; exact hp
  unfold push
  simp only [bufPush_ok]
  cases hcl : s.closed
  · cases hpr : s.prim <;> cases f0 : full c s.b0 <;> cases f1 : full c s.b1 <;>
      simp only [AllFrames, getB, setB, setRecon, bufPush_acc, hpr, f0, f1, Bool.not_true, Bool.not_false, if_true, if_false,
        Bool.false_eq_true] <;> first | exact ⟨h0, h1⟩ | exact ⟨k0, h1⟩ | exact ⟨h0, k1⟩
  · exact ⟨h0, h1⟩

theorem allframes_step (v : Variant) (c : Cfg) (s : Pool) (op : Op) (h : AllFrames s) : AllFrames (step v c s op).1 := by
  cases op with
  | handle body =>
    simp only [step, handle]
    split
    · exact h
    · rename_i hne
      exact allframes_push c s _ ⟨body, by intro hb; simp [hb] at hne, rfl⟩ h
  | pop i => exact allframes_setB s i _ h (acc_popStart c i _)
  | wres i r => exact allframes_setB s i _ h (acc_writeDone c i _ r)
  | timer i => exact allframes_setB s i _ h (acc_timerFire v _)
  | wake i => exact allframes_setB s i _ h (acc_wake c i _)
  | close => simp only [step, AllFrames, acc_bufClose]; exact h
  | stats => exact h
  | report i ok =>
    simp only [step]
    repeat' split
    all_goals exact h
  | takeRecon i => cases i <;> exact h


/-! ### pool level: the global acceptance log and its projections -/

/-- the packets of the global acceptance log that were given to sender `i`, in global acceptance order -/
def projTo (l : List (Pkt × Bool)) (i : Bool) : List Pkt := (l.filter (fun x => x.2 == i)).map (·.1)

/-- each sender's acceptance log is the projection of the pool's global acceptance log -/
def Proj (s : Pool) : Prop := projTo s.accAll false = s.b0.acc ∧ projTo s.accAll true = s.b1.acc

theorem projTo_append (l : List (Pkt × Bool)) (p : Pkt) (j i : Bool) :
    projTo (l ++ [(p, j)]) i = if j = i then projTo l i ++ [p] else projTo l i := by
  cases i <;> cases j <;> simp [projTo, List.filter_append]

theorem proj_setB (s : Pool) (i : Bool) (b : Buf) (h : Proj s) (hb : b.acc = (getB s i).acc) : Proj (setB s i b) := by
  obtain ⟨h0, h1⟩ := h
  cases i
  · simp only [getB, Bool.false_eq_true, if_false] at hb
    exact ⟨by simp only [setB, Bool.false_eq_true, if_false, hb]; exact h0, by simp only [setB, Bool.false_eq_true, if_false]; exact h1⟩
  · simp only [getB, if_true] at hb
    exact ⟨by simp only [setB, if_true]; exact h0, by simp only [setB, if_true, hb]; exact h1⟩

theorem proj_push (c : Cfg) (s : Pool) (p : Pkt) (h : Proj s) : Proj (push c s p).1 := by
  obtain ⟨h0, h1⟩ := h
  unfold push
  simp only [bufPush_ok]
  cases hcl : s.closed
  · cases hpr : s.prim <;> cases f0 : full c s.b0 <;> cases f1 : full c s.b1 <;>
      simp [Proj, getB, setB, setRecon, bufPush_acc, projTo_append, hpr, f0, f1, h0, h1]
  · exact ⟨h0, h1⟩

theorem proj_step (v : Variant) (c : Cfg) (s : Pool) (op : Op) (h : Proj s) : Proj (step v c s op).1 := by
  cases op with
  | handle body =>
    simp only [step, handle]
    split
    · exact h
    · exact proj_push c s _ h
  | pop i => exact proj_setB s i _ h (acc_popStart c i _)
  | wres i r => exact proj_setB s i _ h (acc_writeDone c i _ r)
  | timer i => exact proj_setB s i _ h (acc_timerFire v _)
  | wake i => exact proj_setB s i _ h (acc_wake c i _)
  | close => simp only [step, Proj, acc_bufClose]; exact h
  | stats => exact h
  | report i ok =>
    simp only [step]
    repeat' split
    all_goals exact h
  | takeRecon i => cases i <;> exact h

theorem proj_run (v : Variant) (c : Cfg) (ops : List Op) : ∀ s, Proj s → Proj (run v c s ops) := by
  induction ops with
  | nil => intro s h; exact h
  | cons op ops ih => intro s h; exact ih _ (proj_step v c s op h)

theorem projTo_sublist (l : List (Pkt × Bool)) (i : Bool) : List.Sublist (projTo l i) (l.map (·.1)) :=
  List.Sublist.map _ List.filter_sublist

theorem projTo_lengths (l : List (Pkt × Bool)) : l.length = (projTo l false).length + (projTo l true).length := by
  induction l with
  | nil => rfl
  | cons x l ih =>
    obtain ⟨p, j⟩ := x
    cases j <;> simp [projTo] at ih ⊢ <;> omega


/-! ### one loop iteration of a sender: pop returns within a bounded number of forced moves -/

/-- a forced move of sender `i` on its own buffer, with the events it produces (fixed code) -/
def bstepEv (c : Cfg) (i : Bool) (b : Buf) : Op → Buf × List Ev
  | .pop _ => popStart c i b
  | .wres _ r => writeDone c i b r
  | .wake _ => wake c i b
  | .timer _ => (timerFire .signal b, [])
  | _ => (b, [])

/-- `pop` returned nil: sendLoop goes on to `reportWouldBlockIfAny` -/
def retNil (i : Bool) (evs : List Ev) : Bool := evs.contains (.ret i false)

/-- run the forced moves of sender `i` until its `pop` returns nil; the number of batch-timer expiries on the way -/
def untilRet (c : Cfg) (i : Bool) : Nat → Buf → Option (Buf × Nat)
  | 0, _ => none
  | n + 1, b =>
    match senderNext i b with
    | none => none
    | some op =>
      if retNil i (bstepEv c i b op).2 then some ((bstepEv c i b op).1, if isTimer op then 1 else 0)
      else (untilRet c i n (bstepEv c i b op).1).map (fun x => (x.1, x.2 + if isTimer op then 1 else 0))

/-- `pop` returned within the fuel, after at most two batch-timer expiries, and the sender is back in its loop -/
def RetOk (r : Option (Buf × Nat)) : Prop :=
  match r with
  | some x => x.2 ≤ 2 ∧ x.1.pc = .idle
  | none => False

theorem ret_writing (c : Cfg) (i : Bool) (b : Buf) (hpc : b.pc = .writing) (hcl : b.closed = false) :
    RetOk (untilRet c i 8 b) := by
  obtain ⟨w, r, ri, closed, pc, timeout, sig, acc, done, nerr⟩ := b
  simp only at hpc hcl
  subst hpc hcl
  by_cases ht : 0 < thr c <;> by_cases hw : w = [] <;> by_cases hwl : w.length < thr c <;>
    simp [RetOk, untilRet, retNil, bstepEv, senderNext, popStart, enterSwap1, enterSwap2, afterSwap1, afterSwap2, wake, writeDone,
      timerFire, signal, parked, mustWait, swapBody, batch, isTimer, ht, hw, hwl]

theorem ret_idle (c : Cfg) (i : Bool) (b : Buf) (hpc : b.pc = .idle) (hcl : b.closed = false) :
    RetOk (untilRet c i 8 b) := by
  obtain ⟨w, r, ri, closed, pc, timeout, sig, acc, done, nerr⟩ := b
  simp only at hpc hcl
  subst hpc hcl
  by_cases ht : 0 < thr c <;> by_cases hr : r.length ≤ ri <;> by_cases hw : w = [] <;> by_cases hwl : w.length < thr c <;>
    simp [RetOk, untilRet, retNil, bstepEv, senderNext, popStart, enterSwap1, enterSwap2, afterSwap1, afterSwap2, wake, writeDone,
      timerFire, signal, parked, mustWait, swapBody, batch, isTimer, ht, hr, hw, hwl]

theorem ret_parked (c : Cfg) (i : Bool) (b : Buf) (hpc : parked b = true) (hcl : b.closed = false)
    (hex : Exhausted b) (hnl : NoLost c b) : RetOk (untilRet c i 8 b) := by
  obtain ⟨w, r, ri, closed, pc, timeout, sig, acc, done, nerr⟩ := b
  have hr := hex hpc
  simp only at hcl hr
  subst hcl
  simp only [NoLost, mustWait] at hnl
  by_cases ht : 0 < thr c <;> by_cases hw : w = [] <;> by_cases hwl : w.length < thr c <;>
    cases pc <;> cases sig <;> cases timeout <;>
    simp [RetOk, untilRet, retNil, bstepEv, senderNext, popStart, enterSwap1, enterSwap2, afterSwap1, afterSwap2, wake, writeDone,
      timerFire, signal, parked, mustWait, swapBody, batch, isTimer, ht, hr, hw, hwl] at hpc hnl ⊢

theorem ret_within (c : Cfg) (i : Bool) (b : Buf) (hinv : BInv c b) (hnl : NoLost c b) (hcl : b.closed = false) :
    RetOk (untilRet c i 8 b) := by
  cases hpc : b.pc with
  | idle => exact ret_idle c i b hpc hcl
  | writing => exact ret_writing c i b hpc hcl
  | swap1 => exact ret_parked c i b (by simp [parked, hpc]) hcl hinv.exh hnl
  | swap2 => exact ret_parked c i b (by simp [parked, hpc]) hcl hinv.exh hnl

/-- one iteration of the primary sender's loop with a live connection, as forced moves of the pool model: the moves of
    `untilRet` until `pop` returns nil, then `reportWouldBlockIfAny` on the live connection -/
def loopUntilReport (c : Cfg) : Nat → Pool → Option Pool
  | 0, _ => none
  | n + 1, s =>
    match senderNext false s.b0 with
    | none => none
    | some op =>
      if retNil false (step .signal c s op).2 then some (step .signal c (step .signal c s op).1 (.report false true)).1
      else loopUntilReport c n (step .signal c s op).1

/-- a forced move of the primary sender changes its own buffer only -/
theorem primary_move_frame (c : Cfg) (s : Pool) (op : Op) (h : senderNext false s.b0 = some op) :
    (step .signal c s op).1.b0 = (bstepEv c false s.b0 op).1 ∧ (step .signal c s op).2 = (bstepEv c false s.b0 op).2 ∧
    (step .signal c s op).1.wb = s.wb ∧ (step .signal c s op).1.reported = s.reported ∧
    (step .signal c s op).1.lostRep = s.lostRep ∧ (step .signal c s op).1.dropBytes = s.dropBytes ∧
    (step .signal c s op).1.werr = s.werr := by
  unfold senderNext at h
  split at h
  · cases h; simp [step, onBuf, bstepEv, getB, setB]
  · cases h; simp [step, onBuf, bstepEv, getB, setB]
  · split at h
    · cases h; simp [step, onBuf, bstepEv, getB, setB]
    · split at h
      · cases h; simp [step, onBuf, bstepEv, getB, setB]
      · cases h

/-- what the loop iteration achieves for the drop report -/
def Reported (s : Pool) (r : Option Pool) : Prop :=
  match r with
  | some s' => s'.wb = 0 ∧ s'.reported = s.reported + s.wb ∧ s'.lostRep = s.lostRep ∧ s'.dropBytes = s.dropBytes ∧ s'.werr = s.werr
  | none => False

theorem report_step (c : Cfg) (s : Pool) :
    Reported s (some (step .signal c s (.report false true)).1) := by
  simp only [step, Reported]
  by_cases h : s.wb = 0 <;> simp [h]

theorem loop_link (c : Cfg) : ∀ (n : Nat) (s : Pool), (untilRet c false n s.b0).isSome = true → Reported s (loopUntilReport c n s) := by
  intro n
  induction n with
  | zero => intro s h; simp [untilRet] at h
  | succ n ih =>
    intro s h
    unfold untilRet at h
    unfold loopUntilReport
    cases hop : senderNext false s.b0 with
    | none => simp [hop] at h
    | some op =>
      obtain ⟨f1, f2, f3, f4, f5, f6, f7⟩ := primary_move_frame c s op hop
      simp only [hop] at h ⊢
      rw [f2]
      by_cases hr : retNil false (bstepEv c false s.b0 op).2 = true
      · simp only [hr, if_true]
        have := report_step c (step .signal c s op).1
        simp only [Reported, f3, f4, f5, f6, f7] at this ⊢
        exact this
      · simp only [hr] at h ⊢
        have h' : (untilRet c false n (step .signal c s op).1.b0).isSome = true := by
          rw [f1]; simpa using h
        have := ih _ h'
        revert this
        cases loopUntilReport c n (step .signal c s op).1 with
        | none => simp [Reported]
        | some s' => simp only [Reported, f3, f4, f5, f6, f7]; exact id

theorem retOk_isSome (r : Option (Buf × Nat)) (h : RetOk r) : r.isSome = true := by
  cases r <;> simp_all [RetOk]


/-! ### the write deadline layer -/

theorem pc_signal (b : Buf) : (signal b).pc = b.pc := (signal_fields b).2.2.2.2.2.1

theorem pc_bufPush (c : Cfg) (b : Buf) (p : Pkt) : (bufPush c b p).1.pc = b.pc := by
  unfold bufPush; split <;> simp [pc_signal]

theorem idle_wake (c : Cfg) (i : Bool) (b : Buf) (h : b.pc = .idle) : (wake c i b).1.pc = .idle := by
  unfold wake; repeat' split
  all_goals simp_all

theorem idle_writeDone (c : Cfg) (i : Bool) (b : Buf) (r : WRes) (h : b.pc = .idle) : (writeDone c i b r).1.pc = .idle := by
  unfold writeDone; simp [h]

theorem pc_timerFire (v : Variant) (b : Buf) : (timerFire v b).pc = b.pc := by
  unfold timerFire; split
  · rfl
  · cases v <;> simp [pc_signal]

theorem pc_push (c : Cfg) (s : Pool) (p : Pkt) (j : Bool) : (getB (push c s p).1 j).pc = (getB s j).pc := by
  unfold push
  simp only [bufPush_ok]
  cases hcl : s.closed <;> cases hp : s.prim <;> cases h0 : full c s.b0 <;> cases h1 : full c s.b1 <;> cases j <;>
    simp [getB, setB, setRecon, pc_bufPush, hp, h0, h1]

/-- no step other than `pop j` takes sender `j` out of its loop position between two `pop` calls -/
theorem stays_idle (v : Variant) (c : Cfg) (s : Pool) (op : Op) (j : Bool) (hop : op ≠ .pop j) (h : (getB s j).pc = .idle) :
    (getB (step v c s op).1 j).pc = .idle := by
  cases op with
  | handle body =>
    simp only [step, handle]; split
    · exact h
    · rw [pc_push]; exact h
  | pop i =>
    have hij : i ≠ j := fun e => hop (by rw [e])
    cases i <;> cases j <;> simp_all [step, onBuf, getB, setB]
  | wres i r =>
    cases i <;> cases j <;> simp_all [step, onBuf, getB, setB, idle_writeDone]
  | timer i => cases i <;> cases j <;> simp_all [step, getB, setB, pc_timerFire]
  | wake i => cases i <;> cases j <;> simp_all [step, onBuf, getB, setB, idle_wake]
  | close => cases j <;> simp_all [step, getB, bufClose, pc_signal]
  | stats => exact h
  | report i ok => simp only [step]; repeat' split
                   all_goals exact h
  | takeRecon i => cases i <;> cases j <;> simp_all [step, getB, clearRecon]

/-- fixed code: (1) "every write happens with `armed`": a sender that is inside `pop` (parked in `swap` or blocked in the write)
    has a write deadline on its current connection; (2) the bookkeeping never claims a deadline the connection does not have -/
def DlInv (s : PoolD) : Prop :=
  ∀ j, ((getB s.p j).pc ≠ .idle → getDl s j = true) ∧ (getBk s j ≠ .zero → getDl s j = true)

theorem getDl_setDl (s : PoolD) (i j : Bool) (x : Bool) : getDl (setDl s i x) j = if j = i then x else getDl s j := by
  cases i <;> cases j <;> simp [getDl, setDl]

theorem getDl_setBk (s : PoolD) (i j : Bool) (x : Book) : getDl (setBk s i x) j = getDl s j := by
  cases i <;> cases j <;> simp [getDl, setBk]

theorem getBk_setBk (s : PoolD) (i j : Bool) (x : Book) : getBk (setBk s i x) j = if j = i then x else getBk s j := by
  cases i <;> cases j <;> simp [getBk, setBk]

theorem getBk_setDl (s : PoolD) (i j : Bool) (x : Bool) : getBk (setDl s i x) j = getBk s j := by
  cases i <;> cases j <;> simp [getBk, setDl]

theorem setDl_p (s : PoolD) (i : Bool) (x : Bool) : (setDl s i x).p = s.p := by cases i <;> simp [setDl]
theorem setBk_p (s : PoolD) (i : Bool) (x : Book) : (setBk s i x).p = s.p := by cases i <;> simp [setBk]

/-- `getDl`/`getBk` only look at the flags, not at the pool -/
theorem getDl_with_p (s : PoolD) (q : Pool) (j : Bool) : getDl { s with p := q } j = getDl s j := by cases j <;> simp [getDl]
theorem getBk_with_p (s : PoolD) (q : Pool) (j : Bool) : getBk { s with p := q } j = getBk s j := by cases j <;> simp [getBk]

/-- the flags of sender `j` after the loop-top refresh of sender `i` (fixed code) -/
theorem arm_flags (s : PoolD) (i j : Bool) :
    (getDl (arm .armed s i) j = true ∧ getBk (arm .armed s i) j = .fresh ∧ j = i ∧ getBk s i ≠ .fresh) ∨
    (getDl (arm .armed s i) j = getDl s j ∧ getBk (arm .armed s i) j = getBk s j ∧ (j = i → getBk s i = .fresh)) := by
  unfold arm needsRefresh
  cases hb : getBk s i <;> by_cases hji : j = i <;> simp [hb, hji, getDl_setDl, getDl_setBk, getBk_setBk, getBk_setDl]

theorem arm_keeps (s : PoolD) (i j : Bool) (h1 : getDl s j = true) : getDl (arm .armed s i) j = true := by
  rcases arm_flags s i j with h | h
  · exact h.1
  · rw [h.1]; exact h1

/-- after the refresh of `i` the connection of `i` has a deadline, provided the bookkeeping was honest -/
theorem arm_sets (s : PoolD) (i : Bool) (h2 : getBk s i ≠ .zero → getDl s i = true) : getDl (arm .armed s i) i = true := by
  rcases arm_flags s i i with h | h
  · exact h.1
  · rw [h.1]; exact h2 (by rw [h.2.2 rfl]; simp)

theorem arm_honest (s : PoolD) (i j : Bool) (h2 : getBk s j ≠ .zero → getDl s j = true) :
    getBk (arm .armed s i) j ≠ .zero → getDl (arm .armed s i) j = true := by
  rcases arm_flags s i j with h | h
  · intro _; exact h.1
  · rw [h.1, h.2.1]; exact h2

/-- a write that returned an error leaves the sender in its loop position -/
theorem failedWrite_idle (v : Variant) (c : Cfg) (s : Pool) (op : Op) (i : Bool)
    (h : failedWrite op (step v c s op).2 = some i) : (getB (step v c s op).1 i).pc = .idle ∧ ∃ n, op = .wres i (.err n) := by
  cases op with
  | wres k r =>
    cases r with
    | ok => simp [failedWrite] at h
    | err n =>
      simp only [failedWrite] at h
      split at h
      · rename_i hev
        cases h
        refine ⟨?_, n, rfl⟩
        simp only [step, onBuf, getB_setB_same] at hev ⊢
        unfold writeDone at hev ⊢
        split
        · rename_i hpc; simp [hpc] at hev
        · simp only at hev ⊢
          split
          · rename_i hbad; simp [hbad] at hev
          · rfl
      · cases h
  | handle b => simp [failedWrite] at h
  | pop k => simp [failedWrite] at h
  | timer k => simp [failedWrite] at h
  | wake k => simp [failedWrite] at h
  | close => simp [failedWrite] at h
  | stats => simp [failedWrite] at h
  | report k ok => simp [failedWrite] at h
  | takeRecon k => simp [failedWrite] at h

theorem afterError_flags (s : PoolD) (i j : Bool) :
    (getDl (afterError .armed s i) j = if j = i then false else getDl s j) ∧
    (getBk (afterError .armed s i) j = if j = i then .zero else getBk s j) := by
  simp [afterError, getDl_setDl, getDl_setBk, getBk_setBk, getBk_setDl]

theorem dlinv_stepD (v : Variant) (c : Cfg) (s : PoolD) (op : OpD) (h : DlInv s) : DlInv (stepD .armed v c s op).1 := by
  intro j
  cases op with
  | age i =>
    simp only [stepD]
    split
    · refine ⟨?_, ?_⟩
      · intro hj; rw [getDl_setBk]; exact (h j).1 (by simpa [setBk_p] using hj)
      · intro hb
        rw [getDl_setBk]
        apply (h j).2
        rw [getBk_setBk] at hb
        by_cases hji : j = i
        · subst hji; rename_i hf; simp at hf; rw [hf]; simp
        · simpa [hji] using hb
    · exact h j
  | deadline i n =>
    simp only [stepD]
    by_cases hen : deadlineEnabled s i n = true
    · simp only [hen, if_true]
      have hfl := afterError_flags s i j
      simp only [deadlineEnabled, Bool.and_eq_true, beq_iff_eq, decide_eq_true_eq] at hen
      have hlt : ¬ ((batch (getB s.p i)).length ≤ n) := by omega
      by_cases hji : j = i
      · subst hji
        refine ⟨?_, ?_⟩
        · intro hj; exfalso; apply hj
          simp [step, onBuf, getB_setB_same, writeDone, hen.1.2, hlt]
        · intro hb; exfalso; apply hb
          rw [getBk_with_p, hfl.2]; simp
      · refine ⟨?_, ?_⟩
        · intro hj
          rw [getDl_with_p, hfl.1]; simp only [hji, if_false]
          exact (h j).1 (fun hi => hj (stays_idle v c s.p (.wres i (.err n)) j (by simp) hi))
        · intro hb
          rw [getDl_with_p, hfl.1]; simp only [hji, if_false]
          rw [getBk_with_p, hfl.2] at hb; simp only [hji, if_false] at hb
          exact (h j).2 hb
    · simp only [hen]; exact h j
  | base op =>
    simp only [stepD]
    cases hf : failedWrite op (step v c s.p op).2 with
    | some i =>
      simp only
      have hfl := afterError_flags s i j
      obtain ⟨hidle, n, hop⟩ := failedWrite_idle v c s.p op i hf
      by_cases hji : j = i
      · subst hji
        refine ⟨fun hj => absurd hidle hj, ?_⟩
        intro hb; exfalso; apply hb
        rw [getBk_with_p, hfl.2]; simp
      · refine ⟨?_, ?_⟩
        · intro hj
          rw [getDl_with_p, hfl.1]; simp only [hji, if_false]
          exact (h j).1 (fun hi => hj (stays_idle v c s.p op j (by rw [hop]; simp) hi))
        · intro hb
          rw [getDl_with_p, hfl.1]; simp only [hji, if_false]
          rw [getBk_with_p, hfl.2] at hb; simp only [hji, if_false] at hb
          exact (h j).2 hb
    | none =>
      simp only
      rw [getDl_with_p, getBk_with_p]
      -- armFor: only `pop i` from the loop position refreshes
      cases op with
      | pop i =>
        simp only [armFor]
        split
        · rename_i hidle
          simp only [beq_iff_eq] at hidle
          refine ⟨?_, arm_honest s i j (h j).2⟩
          intro hj
          by_cases hji : j = i
          · subst hji; exact arm_sets s j (h j).2
          · exact arm_keeps s i j ((h j).1 (fun hi => hj (stays_idle v c s.p (.pop i) j (by simp; exact fun e => hji e.symm) hi)))
        · rename_i hni
          refine ⟨?_, (h j).2⟩
          intro hj
          by_cases hji : j = i
          · subst hji
            simp only [beq_iff_eq] at hni
            exact (h j).1 hni
          · exact (h j).1 (fun hi => hj (stays_idle v c s.p (.pop i) j (by simp; exact fun e => hji e.symm) hi))
      | handle b => exact ⟨fun hj => (h j).1 (fun hi => hj (stays_idle v c s.p _ j (by simp) hi)), (h j).2⟩
      | wres i r => exact ⟨fun hj => (h j).1 (fun hi => hj (stays_idle v c s.p _ j (by simp) hi)), (h j).2⟩
      | timer i => exact ⟨fun hj => (h j).1 (fun hi => hj (stays_idle v c s.p _ j (by simp) hi)), (h j).2⟩
      | wake i => exact ⟨fun hj => (h j).1 (fun hi => hj (stays_idle v c s.p _ j (by simp) hi)), (h j).2⟩
      | close => exact ⟨fun hj => (h j).1 (fun hi => hj (stays_idle v c s.p _ j (by simp) hi)), (h j).2⟩
      | stats => exact ⟨fun hj => (h j).1 (fun hi => hj (stays_idle v c s.p _ j (by simp) hi)), (h j).2⟩
      | report i ok => exact ⟨fun hj => (h j).1 (fun hi => hj (stays_idle v c s.p _ j (by simp) hi)), (h j).2⟩
      | takeRecon i => exact ⟨fun hj => (h j).1 (fun hi => hj (stays_idle v c s.p _ j (by simp) hi)), (h j).2⟩

theorem dlinv_runD (v : Variant) (c : Cfg) (ops : List OpD) : ∀ s, DlInv s → DlInv (runD .armed v c s ops) := by
  induction ops with
  | nil => intro s h; exact h
  | cons op ops ih => intro s h; exact ih _ (dlinv_stepD v c s op h)

theorem dlinv_init : DlInv {} := by
  intro j; cases j <;> simp [getB, getBk]


/-! ### addressPool.pick -/

/-- the pool after `k` picks -/
def afterPicks : Nat → AddrPool → AddrPool
  | 0, p => p
  | k + 1, p => afterPicks k (pick p).1

theorem pick_addrs (p : AddrPool) : (pick p).1.addrs = p.addrs := by
  unfold pick; split <;> simp

theorem afterPicks_addrs (k : Nat) : ∀ p : AddrPool, (afterPicks k p).addrs = p.addrs := by
  induction k with
  | zero => intro p; rfl
  | succ k ih => intro p; simp [afterPicks, ih, pick_addrs]

theorem afterPicks_head (k : Nat) : ∀ p : AddrPool, 0 < p.addrs.length →
    (afterPicks k p).head % p.addrs.length = (p.head + k) % p.addrs.length := by
  induction k with
  | zero => intro p _; simp [afterPicks]
  | succ k ih =>
    intro p hl
    have hne : ¬ p.addrs.length = 0 := by omega
    have h1 : (pick p).1.head = (p.head + 1) % p.addrs.length := by simp [pick, hne]
    have := ih (pick p).1 (by rw [pick_addrs]; exact hl)
    simp only [afterPicks]
    rw [pick_addrs] at this
    rw [this, h1, Nat.mod_add_mod]
    congr 1; omega

theorem pickN_get (k : Nat) : ∀ (n : Nat) (p : AddrPool), k < n → (pickN n p)[k]? = some (pick (afterPicks k p)).2 := by
  induction k with
  | zero => intro n p h; cases n with
    | zero => omega
    | succ n => simp [pickN, afterPicks]
  | succ k ih => intro n p h; cases n with
    | zero => omega
    | succ n => simp only [pickN, afterPicks, List.getElem?_cons_succ]; exact ih n _ (by omega)

/-- the `k`-th reconnect attempt (counting from 0) dials address `(head + k) mod len` -/
theorem pick_kth (p : AddrPool) (hh : p.head < p.addrs.length) (k n : Nat) (hk : k < n) :
    (pickN n p)[k]? = some (p.addrs[(p.head + k) % p.addrs.length]?) := by
  have hl : 0 < p.addrs.length := by omega
  rw [pickN_get k n p hk]
  have hne : ¬ (afterPicks k p).addrs.length = 0 := by rw [afterPicks_addrs]; omega
  have hhead := afterPicks_head k p hl
  -- the head stays below len (it is reduced mod len at every pick; initially by hypothesis)
  have hlt : (afterPicks k p).head < p.addrs.length := by
    cases k with
    | zero => simpa [afterPicks] using hh
    | succ k =>
      have : (afterPicks (k + 1) p).head = (afterPicks k (pick p).1).head := rfl
      clear hhead
      -- generic: after at least one pick the head is a remainder
      have gen : ∀ (j : Nat) (q : AddrPool), 0 < q.addrs.length → q.head < q.addrs.length → (afterPicks j q).head < q.addrs.length := by
        intro j
        induction j with
        | zero => intro q _ h; simpa [afterPicks] using h
        | succ j ihj =>
          intro q hq _
          have hq0 : ¬ q.addrs.length = 0 := by omega
          have := ihj (pick q).1 (by rw [pick_addrs]; exact hq) (by simp [pick, hq0]; exact Nat.mod_lt _ hq)
          simpa [afterPicks, pick_addrs] using this
      exact gen (k + 1) p hl hh
  rw [Nat.mod_eq_of_lt hlt] at hhead
  have hne2 : ¬ p.addrs = [] := by intro h; simp [h] at hl
  simp [pick, hne, afterPicks_addrs, hhead, hne2]


end SH.C31
