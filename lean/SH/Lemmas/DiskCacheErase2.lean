import SH.Lemmas.DiskCacheErase

namespace SH.C09
open SH.DiskCache

theorem AFile.setRecs_self (f : AFile) : f.setRecs f.recs = f := by cases f; rfl

theorem getLast?_map_name (l : List AFile) (g : AFile → AFile) (hg : ∀ x, (g x).name = x.name) :
    (l.map g).getLast?.map (·.name) = l.getLast?.map (·.name) := by
  rw [List.getLast?_map]
  cases l.getLast? <;> simp [hg]

theorem erased_wf (cfg : Cfg) (r : ARec) (h : r.WF cfg) : r.erased.WF cfg := by
  obtain ⟨a1, a2, a3, a4, _, _⟩ := h
  refine ⟨by show magicDeleted < 2 ^ 32; decide, a2, a3, a4, ?_, ?_⟩
  · intro hd
    have : ARec.dead cfg r.erased = true := isDeleted_deleted cfg
    rw [this] at hd; cases hd
  · intro hid; simp [ARec.erased] at hid

/-- everything about the abstract state after marking the record of bucket `b` erased -/
structure EraseFacts (cfg : Cfg) (a : Abs) (b : Bucket) (f : AFile) (r1 : List ARec) (r : ARec) (r2 : List ARec) : Prop where
  hf : f ∈ a.files
  hrec : f.recs = r1 ++ r :: r2
  hrid : r.id = some b.id
  hb : b = ⟨b.id, f.name, recsLen r1, r.time, r.body.length, cfg.crc r.body⟩
  hf' : eraseF b.id f = f.setRecs (r1 ++ r.erased :: r2)
  hother : ∀ g ∈ a.files, g ≠ f → eraseF b.id g = g

theorem Inv.eraseFacts {cfg : Cfg} {s : Shard} {a : Abs} (inv : Inv cfg s a) {b : Bucket} (hb : b ∈ a.buckets cfg) :
    ∃ f r1 r r2, EraseFacts cfg a b f r1 r r2 := by
  obtain ⟨f, hf, r1, r, r2, h1, h2, h3, h4, h5⟩ := inv.erase_ctx hb
  refine ⟨f, r1, r, r2, hf, h1, h2, h3, ?_, ?_⟩
  · simp only [eraseF, h1, List.map_append, List.map_cons]
    rw [map_eraseRec_id _ r1 (fun q hq => h4 q (by simp [hq])), map_eraseRec_id _ r2 (fun q hq => h4 q (by simp [hq]))]
    simp [eraseRec, h2]
  · intro g hg hgf
    simp only [eraseF]
    rw [map_eraseRec_id _ _ (h5 g hg hgf), AFile.setRecs_self]


theorem mapDisk_erase (cfg : Cfg) (a : Abs) (b : Bucket) (f : AFile) (r1 r2 : List ARec) (r : ARec)
    (ef : EraseFacts cfg a b f r1 r r2) (hinj : ∀ g ∈ a.files, g.name = f.name → g = f) :
    mapDisk (a.files.map (AFile.render cfg)) f.name (fun x => writeAt x (recsLen r1) (le 4 magicDeleted)) =
      (a.files.map (eraseF b.id)).map (AFile.render cfg) := by
  unfold mapDisk
  rw [List.map_map, List.map_map]
  apply List.map_congr_left
  intro g hg
  simp only [Function.comp]
  by_cases hgn : g.name = f.name
  · have := hinj g hg hgn; subst this
    have h1 : ((AFile.render cfg g).name == g.name) = true := by simp [AFile.render]
    rw [if_pos h1, ef.hf']
    simp only [AFile.render, AFile.bytes, AFile.setRecs, ef.hrec, encRecs_append, encRecs]
    congr 1
    have := erased_enc cfg (encRecs cfg r1) (encRecs cfg r2 ++ g.tl) r
    rw [encRecs_length] at this
    simpa [List.append_assoc] using this
  · have h1 : ((AFile.render cfg g).name == f.name) = false := by simp [AFile.render, hgn]
    rw [h1]; simp only [Bool.false_eq_true, if_false]
    rw [ef.hother g hg (fun h => hgn (by rw [h]))]

theorem inv_erase_keep (cfg : Cfg) (s : Shard) (a : Abs) (b : Bucket) (o : OFile) (inv : Inv cfg s a)
    (hb : b ∈ a.buckets cfg) (ho : findO s.ofiles b.file = some o) (hz : ¬ o.refCount - 1 = 0) :
    Inv cfg (eraseKnown s b) (a.eraseA b.id) := by
  obtain ⟨f, r1, r, r2, ef⟩ := inv.eraseFacts hb
  have hbf : b.file = f.name := by rw [ef.hb]
  have hbp : b.pos = recsLen r1 := by rw [ef.hb]
  have hbs : b.size = r.body.length := by rw [ef.hb]
  rw [hbf] at ho
  have hinj : ∀ g ∈ a.files, g.name = f.name → g = f := fun g hg h => inv.name_inj hg ef.hf h
  have hfiles1 := Abs.files_erase a b.id
  have hB1 := Abs.buckets_erase cfg a b.id
  have hrn1 : (a.eraseA b.id).rname = a.rname := by
    cases hc : a.cur <;> simp [Abs.rname, Abs.eraseA, hc, eraseF, AFile.setRecs]
  have hwn1 : (a.eraseA b.id).wname = a.wname := by
    have := getLast?_map_name a.new (eraseF b.id) (fun _ => rfl)
    simp only [Abs.wname, Abs.eraseA, this]
  have hidcf : idc (eraseF b.id f).recs + 1 = idc f.recs := by
    rw [ef.hf', ef.hrec]; simp only [AFile.setRecs, idc_append]
    simp [idc, List.filter_cons, hasId, ARec.erased, ef.hrid]; omega
  have hrefs_other : ∀ g ∈ a.files, g ≠ f → (a.eraseA b.id).refs (eraseF b.id g) = a.refs g := by
    intro g hg hgf
    rw [ef.hother g hg hgf]; simp only [Abs.refs, hrn1, hwn1]
  have hrefs_f : (a.eraseA b.id).refs (eraseF b.id f) = a.refs f - 1 := by
    simp only [Abs.refs, hrn1, hwn1]
    have : (eraseF b.id f).name = f.name := rfl
    rw [this]; omega
  -- the ofile of f
  have hof := inv.ofiles f.name
  rw [ho] at hof
  obtain ⟨hon, g0, hg0, hg0n, horc, hopos, hosz, hocur⟩ := hof
  have := hinj g0 hg0 hg0n; subst this
  have hs : eraseKnown s b =
      { s with
        disk := mapDisk s.disk g0.name (fun x => writeAt x (recsLen r1) (le 4 magicDeleted))
        ofiles := mapO s.ofiles g0.name (fun g => { g with refCount := g.refCount - 1 })
        knownSize := s.knownSize - (r.body.length + headerSize)
        known := s.known.filter (fun c => c.id != b.id) } := by
    simp [eraseKnown, unref, hbf, hbp, hbs, ho, hz]
  rw [hs]
  have hwfmap : ∀ g ∈ a.files, (∀ q ∈ (eraseF b.id g).recs, q.WF cfg) ∧ TailStop (eraseF b.id g).tl := by
    intro g hg
    refine ⟨?_, (inv.wf g hg).2⟩
    intro q hq
    simp only [eraseF, AFile.setRecs, List.mem_map] at hq
    obtain ⟨q0, hq0, rfl⟩ := hq
    unfold eraseRec; split
    · exact erased_wf cfg q0 ((inv.wf g hg).1 q0 hq0)
    · exact (inv.wf g hg).1 q0 hq0
  have hunread : ∀ q, unread cfg q = false → unread cfg (eraseRec b.id q) = false := by
    intro q hq
    unfold eraseRec; split
    · simp [unread, ARec.erased, ARec.dead, isDeleted_deleted]
    · exact hq
  have hidnone : ∀ q : ARec, q.id = none → (eraseRec b.id q).id = none := by
    intro q hq; unfold eraseRec; split <;> simp [ARec.erased, hq]
  refine { disk := ?_, clock := inv.clock, lastID := inv.lastID, names := ?_, namesLt := ?_, wf := ?_, newTl := ?_,
           preRead := ?_, newRead := ?_, waitIds := ?_, curOk := ?_, idsLe := ?_, idsNodup := ?_,
           known := ?_, ofiles := ?_, reading := ?_, writing := ?_, writingSome := ?_, waiting := ?_,
           total := ?_, knownSize := ?_, waitingSize := ?_, present := ?_ }
  · show (mapDisk s.disk g0.name fun x => writeAt x (recsLen r1) (le 4 magicDeleted)) = _
    rw [hfiles1, inv.disk]
    exact mapDisk_erase cfg a b g0 r1 r2 r ef hinj
  · rw [hfiles1, List.map_map]; exact inv.names
  · intro g hg; rw [hfiles1] at hg
    obtain ⟨g1, hg1, rfl⟩ := List.mem_map.mp hg
    exact inv.namesLt g1 hg1
  · intro g hg; rw [hfiles1] at hg
    obtain ⟨g1, hg1, rfl⟩ := List.mem_map.mp hg
    exact hwfmap g1 hg1
  · intro g hg
    simp only [Abs.eraseA, List.mem_map] at hg
    obtain ⟨g1, hg1, rfl⟩ := hg
    exact inv.newTl g1 hg1
  · intro g hg q hq
    simp only [Abs.eraseA, List.mem_map] at hg
    obtain ⟨g1, hg1, rfl⟩ := hg
    simp only [eraseF, AFile.setRecs, List.mem_map] at hq
    obtain ⟨q0, hq0, rfl⟩ := hq
    exact hunread q0 (inv.preRead g1 hg1 q0 hq0)
  · intro g hg q hq
    simp only [Abs.eraseA, List.mem_map] at hg
    obtain ⟨g1, hg1, rfl⟩ := hg
    simp only [eraseF, AFile.setRecs, List.mem_map] at hq
    obtain ⟨q0, hq0, rfl⟩ := hq
    exact hunread q0 (inv.newRead g1 hg1 q0 hq0)
  · intro g hg q hq
    simp only [Abs.eraseA, List.mem_map] at hg
    obtain ⟨g1, hg1, rfl⟩ := hg
    simp only [eraseF, AFile.setRecs, List.mem_map] at hq
    obtain ⟨q0, hq0, rfl⟩ := hq
    exact hidnone q0 (inv.waitIds g1 hg1 q0 hq0)
  · intro g j h
    cases hc : a.cur with
    | none => simp [Abs.eraseA, hc] at h
    | some p =>
      obtain ⟨g1, j1⟩ := p
      simp only [Abs.eraseA, hc, Option.map_some, Option.some.injEq, Prod.mk.injEq] at h
      obtain ⟨h1, h2⟩ := h
      subst h1; subst h2
      obtain ⟨c1, c2, c3⟩ := inv.curOk g1 j1 hc
      refine ⟨by simpa [eraseF, AFile.setRecs] using c1, ?_, ?_⟩
      · intro q hq
        simp only [eraseF, AFile.setRecs, ← List.map_take, List.mem_map] at hq
        obtain ⟨q0, hq0, rfl⟩ := hq
        exact hunread q0 (c2 q0 hq0)
      · intro q hq
        simp only [eraseF, AFile.setRecs, ← List.map_drop, List.mem_map] at hq
        obtain ⟨q0, hq0, rfl⟩ := hq
        exact hidnone q0 (c3 q0 hq0)
  · rw [hB1]; intro x hx; exact inv.idsLe x (List.mem_filter.mp hx).1
  · rw [hB1]
    exact (List.Sublist.map _ List.filter_sublist).nodup inv.idsNodup
  · intro x
    rw [hB1]
    simp only [List.mem_filter, inv.known x]
  · intro name
    by_cases hn : name = g0.name
    · subst hn
      rw [findO_mapO s.ofiles g0.name (fun g => { g with refCount := g.refCount - 1 }) o (fun _ => rfl) ho]
      refine ⟨hon, eraseF b.id g0, by rw [hfiles1]; exact List.mem_map.mpr ⟨g0, ef.hf, rfl⟩, rfl, ?_, ?_, ?_, ?_⟩
      · rw [hrefs_f]; simp [horc]
      · rw [hrefs_f]; omega
      · rw [hosz]; simp [AFile.size, AFile.bytes, eraseF, AFile.setRecs, encRecs_length, recsLen_erase]
      · intro j h
        cases hc : a.cur with
        | none => simp [Abs.eraseA, hc] at h
        | some p =>
          obtain ⟨g1, j1⟩ := p
          simp only [Abs.eraseA, hc, Option.map_some, Option.some.injEq, Prod.mk.injEq] at h
          obtain ⟨h1, h2⟩ := h
          have hg1 : g1 ∈ a.files := by simp [Abs.files, Abs.curL, hc]
          have : g1 = g0 := hinj g1 hg1 (by have := congrArg AFile.name h1; simpa [eraseF, AFile.setRecs] using this)
          subst this; subst h2
          have := hocur j1 hc
          simp only [this, eraseF, AFile.setRecs, ← List.map_take, recsLen_erase]
    · rw [findO_mapO_ne s.ofiles g0.name name (fun g => { g with refCount := g.refCount - 1 }) (fun _ => rfl) hn]
      have h0 := inv.ofiles name
      split
      · rename_i hnone
        rw [hnone] at h0
        intro g hg hgn
        rw [hfiles1] at hg
        obtain ⟨g1, hg1, rfl⟩ := List.mem_map.mp hg
        have hg1f : g1 ≠ g0 := by intro h; subst h; exact hn hgn.symm
        rw [hrefs_other g1 hg1 hg1f]; exact h0 g1 hg1 hgn
      · rename_i o2 hsome
        rw [hsome] at h0
        obtain ⟨ho2, g1, hg1, hgn, hrc, hpos, hsz, hcur2⟩ := h0
        have hg1f : g1 ≠ g0 := by intro h; subst h; exact hn hgn.symm
        refine ⟨ho2, eraseF b.id g1, by rw [hfiles1]; exact List.mem_map.mpr ⟨g1, hg1, rfl⟩, hgn, ?_, ?_, ?_, ?_⟩
        · rw [hrefs_other g1 hg1 hg1f]; exact hrc
        · rw [hrefs_other g1 hg1 hg1f]; exact hpos
        · rw [ef.hother g1 hg1 hg1f]; exact hsz
        · rw [ef.hother g1 hg1 hg1f]
          intro j h
          cases hc : a.cur with
          | none => simp [Abs.eraseA, hc] at h
          | some p =>
            obtain ⟨g2, j2⟩ := p
            simp only [Abs.eraseA, hc, Option.map_some, Option.some.injEq, Prod.mk.injEq] at h
            obtain ⟨h1, h2⟩ := h
            have hg2 : g2 ∈ a.files := by simp [Abs.files, Abs.curL, hc]
            have hn2 : g2.name = g1.name := by have := congrArg AFile.name h1; simpa [eraseF, AFile.setRecs] using this
            have : g2 = g1 := inv.name_inj hg2 hg1 hn2
            subst this; subst h2
            exact hcur2 j2 hc
  · show s.reading = _; rw [hrn1]; exact inv.reading
  · show s.writing = _; rw [hwn1]; exact inv.writing
  · intro h; have := inv.writingSome h; simpa [Abs.eraseA] using this
  · show s.waiting = _
    rw [inv.waiting]; simp only [Abs.eraseA, List.map_map]
    apply List.map_congr_left
    intro g _
    simp [AFile.size, AFile.bytes, eraseF, AFile.setRecs, encRecs_length, recsLen_erase]
  · show s.total = _
    rw [inv.total, hfiles1]; simp only [sizeSum, List.map_map]
    congr 1
    apply List.map_congr_left
    intro g _
    simp [AFile.size, AFile.bytes, eraseF, AFile.setRecs, encRecs_length, recsLen_erase]
  · show s.knownSize - _ = _
    rw [hB1, inv.knownSize, sum_filter_remove _ b inv.idsNodup hb]
    simp [bsize, hbs]
  · show s.waitingSize = _
    rw [inv.waitingSize]; simp only [Abs.eraseA, sizeSum, List.map_map]
    congr 1
    apply List.map_congr_left
    intro g _
    simp [AFile.size, AFile.bytes, eraseF, AFile.setRecs, encRecs_length, recsLen_erase]
  · intro g hg
    have hg' : ∃ g1 ∈ a.pre ++ a.new, g = eraseF b.id g1 := by
      simp only [Abs.eraseA, List.mem_append, List.mem_map] at hg
      rcases hg with ⟨g1, h1, rfl⟩ | ⟨g1, h1, rfl⟩
      · exact ⟨g1, by simp [h1], rfl⟩
      · exact ⟨g1, by simp [h1], rfl⟩
    obtain ⟨g1, hg1, rfl⟩ := hg'
    have hg1f : g1 ∈ a.files := by
      simp only [Abs.files, List.mem_append] at hg1 ⊢
      rcases hg1 with h | h
      · exact Or.inl h
      · exact Or.inr (Or.inr (Or.inr h))
    by_cases hgf : g1 = g0
    · subst hgf; rw [hrefs_f]; omega
    · rw [hrefs_other g1 hg1f hgf]; exact inv.present g1 hg1

end SH.C09
