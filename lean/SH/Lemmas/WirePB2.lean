/-
  SH.Lemmas.WirePB2 — Protobuf round trip, part 2: the records of a metric, the metric, the batch, parser.parse.
-/
import SH.Lemmas.WirePB
namespace SH.Wire

theorem pbEncVarint_length_le : ∀ (f y : Nat), (pbEncVarint f y).length ≤ f := by
  intro f; induction f with
  | zero => intro y; simp [pbEncVarint]
  | succ f ih => intro y; simp only [pbEncVarint]; split <;> simp; have := ih (y / 128); omega

theorem pbEncV_length_le (x : Nat) : (pbEncV x).length ≤ 10 := pbEncVarint_length_le 10 x

theorem catMap_length_le {α : Type} (f : α → Bytes) (k : Nat) (xs : List α) (h : ∀ x ∈ xs, (f x).length ≤ k) :
    (catMap f xs).length ≤ k * xs.length := by
  induction xs with
  | nil => simp [catMap]
  | cons x xs ih =>
    have h1 := h x (by simp)
    have h2 := ih (fun y hy => h y (by simp [hy]))
    simp only [catMap, List.length_cons, List.length_append]
    rw [Nat.mul_succ]; omega

theorem pbTagRec_ne_nil (n ty : Nat) (t : Bytes) : pbEncTag n ty ++ t ≠ [] := by
  intro h
  have h' := congrArg List.length h
  have := pbEncTag_length_pos n ty
  simp only [List.length_append, List.length_nil] at h'; omega

theorem pbRec_counter (v : Variant) (f : Nat) (m : Metric) (x : Nat) (t : Bytes) (hx : x < 2 ^ 64) :
    pbMetric v (f + 1) m (pbEncTag 3 1 ++ le 8 x ++ t)
      = pbMetric v f { m with counter := x, mask := setBit m.mask 0 } t := by
  rw [List.append_assoc]
  apply pbMetric_step v f m _ 3 1 _ _ t (pbTagRec_ne_nil 3 1 _) (pbTag_enc 3 1 _ (by decide) (by decide) (by decide))
  unfold pbMetricField
  rw [if_neg (by decide), if_neg (by decide), if_pos (by decide), pbFixed64_enc x t hx]
  rfl

theorem pbRec_ts (v : Variant) (f : Nat) (m : Metric) (x : Nat) (t : Bytes) (hx : x < 2 ^ 32) :
    pbMetric v (f + 1) m (pbEncTag 4 0 ++ pbEncV x ++ t)
      = pbMetric v f { m with ts := x, mask := setBit m.mask 4 } t := by
  rw [List.append_assoc]
  apply pbMetric_step v f m _ 4 0 _ _ t (pbTagRec_ne_nil 4 0 _) (pbTag_enc 4 0 _ (by decide) (by decide) (by decide))
  unfold pbMetricField
  rw [if_neg (by decide), if_neg (by decide), if_neg (by decide), if_pos (by decide),
    pbVarint_enc x t (Nat.lt_trans hx (by decide))]
  simp only []
  rw [if_neg (by omega)]

theorem pbRec_value (v : Variant) (f : Nat) (m : Metric) (xs : List Nat) (t : Bytes) (hn : xs.length < 2 ^ 32)
    (hx : ∀ x ∈ xs, x < 2 ^ 64) :
    pbMetric v (f + 1) m (pbEncLen 5 (catMap (le 8) xs) ++ t)
      = pbMetric v f { m with value := m.value ++ xs, mask := setBit m.mask 1 } t := by
  have hl := catMap_le8_length xs
  have hd : (catMap (le 8) xs).length < 2 ^ 64 := by
    have : (2:Nat) ^ 32 = 4294967296 := by decide
    have : (2:Nat) ^ 64 = 18446744073709551616 := by decide
    omega
  apply pbMetric_step v f m _ 5 2 _ _ t (pbEncLen_ne_nil 5 _ t) (pbLen_tag 5 _ t (by decide) (by decide))
  unfold pbMetricField
  rw [if_neg (by decide), if_neg (by decide), if_neg (by decide), if_neg (by decide), if_pos (by decide),
    pbBytes_enc _ t hd]
  simp only []
  rw [if_neg (by omega)]
  have e : (catMap (le 8) xs).length = 7 * xs.length + xs.length := by omega
  rw [e, pbPackedF64_enc xs hx]

theorem pbRec_unique (v : Variant) (f : Nat) (m : Metric) (xs : List Nat) (t : Bytes) (hn : xs.length < 2 ^ 32)
    (hx : ∀ x ∈ xs, x < 2 ^ 64) :
    pbMetric v (f + 1) m (pbEncLen 6 (catMap pbEncV xs) ++ t)
      = pbMetric v f { m with unique := m.unique ++ xs, mask := setBit m.mask 2 } t := by
  have hle := catMap_length_le pbEncV 10 xs (fun x _ => pbEncV_length_le x)
  have hge := catMap_length_ge pbEncV 1 xs (fun x _ => pbEncV_length_pos x)
  have hd : (catMap pbEncV xs).length < 2 ^ 64 := by
    have : (2:Nat) ^ 32 = 4294967296 := by decide
    have : (2:Nat) ^ 64 = 18446744073709551616 := by decide
    omega
  apply pbMetric_step v f m _ 6 2 _ _ t (pbEncLen_ne_nil 6 _ t) (pbLen_tag 6 _ t (by decide) (by decide))
  unfold pbMetricField
  rw [if_neg (by decide), if_neg (by decide), if_neg (by decide), if_neg (by decide), if_neg (by decide),
    if_neg (by decide), if_pos (by decide), pbBytes_enc _ t hd]
  simp only []
  have e : (catMap pbEncV xs).length + 1 = ((catMap pbEncV xs).length - xs.length) + xs.length + 1 := by omega
  rw [e, pbPackedVar_enc xs hx]

theorem pbEncCentroid_length_le (h : Nat × Nat) : (pbEncCentroid h).length ≤ 36 := by
  unfold pbEncCentroid pbEncTag
  have a := pbEncV_length_le 9; have b := pbEncV_length_le 17
  split <;> split <;> simp [le_length] <;> omega

theorem pbRec_hist (v : Variant) (f : Nat) (m : Metric) (h : Nat × Nat) (t : Bytes)
    (h1 : h.1 < 2 ^ 64) (h2 : h.2 < 2 ^ 64) :
    pbMetric v (f + 1) m (pbEncLen 7 (pbEncCentroid h) ++ t)
      = pbMetric v f { m with hist := m.hist ++ [h], mask := setBit m.mask 3 } t := by
  have hd : (pbEncCentroid h).length < 2 ^ 64 := by
    have := pbEncCentroid_length_le h
    have : (2:Nat) ^ 64 = 18446744073709551616 := by decide
    omega
  apply pbMetric_step v f m _ 7 2 _ _ t (pbEncLen_ne_nil 7 _ t) (pbLen_tag 7 _ t (by decide) (by decide))
  unfold pbMetricField
  rw [if_neg (by decide), if_neg (by decide), if_neg (by decide), if_neg (by decide), if_neg (by decide),
    if_neg (by decide), if_neg (by decide), if_neg (fun hh => absurd hh.1 (by decide)), if_pos (by decide),
    pbBytes_enc _ t hd]
  simp only []
  rw [pbCentroid_enc h h1 h2]

end SH.Wire
