/-
  SH.Lemmas.PromLexFrag — character-level lexing of a RECURSIVE fragment of printed expressions by chaining the step lemmas
  (`Seg`, composable segments of justified lexer steps): metric names, range selectors, parentheses, one-argument calls and the
  twelve binary operators written ` op `. One theorem per constructor (seg_sel, seg_rng, and the par / call / add cases of seg_printText), and
  `lexAll_printText`: the whole lexer on the printed text returns exactly the expression's tokens.
-/
import SH.Lemmas.PromLexChain
set_option linter.unusedSimpArgs false
namespace SH.PromLex.Frag
open SH.PromLex SH.PromLex.Steps SH.PromLex.Num SH.PromLex.Chain

/-- a segment of justified lexer steps: from (st, text) to (st', rest), yielding `ts` -/
inductive Seg : Nat → LexState → List Nat → List RawTok → LexState → List Nat → Prop
  | nil (st : LexState) (text : List Nat) : Seg 0 st text [] st text
  | tok {n st st1 st' text mid rest name len ts} (h : lexStep text st = .tok name len mid st1) (hl : mid.length < text.length)
      (hr : Seg n st1 mid ts st' rest) : Seg (n + 1) st text (⟨name, len⟩ :: ts) st' rest
  | skip {n st st1 st' text mid rest ts} (h : lexStep text st = .skip mid st1) (hl : mid.length < text.length)
      (hr : Seg n st1 mid ts st' rest) : Seg (n + 1) st text ts st' rest

theorem Seg.trans {a b st st1 st2 text mid rest ts1 ts2} (h1 : Seg a st text ts1 st1 mid) (h2 : Seg b st1 mid ts2 st2 rest) :
    ∃ n, Seg n st text (ts1 ++ ts2) st2 rest := by
  induction h1 with
  | nil => exact ⟨_, h2⟩
  | tok h hl _ ih => obtain ⟨n, hn⟩ := ih h2; exact ⟨_, .tok h hl hn⟩
  | skip h hl _ ih => obtain ⟨n, hn⟩ := ih h2; exact ⟨_, .skip h hl hn⟩

theorem Seg.toLexes {n st text ts st'} (h : Seg n st text ts st' []) (h1 : plain st') (h2 : st'.depth = 0) (h3 : st'.bracket = false) :
    Lexes n st text ts := by
  generalize hr : ([] : List Nat) = r at h
  induction h with
  | nil st text => subst hr; exact .done st h1 h2 h3
  | tok h hl _ ih => exact .tok h hl (ih h1 h2 h3 hr)
  | skip h hl _ ih => exact .skip h hl (ih h1 h2 h3 hr)

/-- the twelve arithmetic and comparison operators the printer writes as ` op ` (a blank on either side) -/
inductive BOp
  | add | sub | mul | div | mod | pow | eqlc | neq | lte | gte | lss | gtr
deriving DecidableEq, Repr

def BOp.text : BOp → List Nat
  | .add => [43] | .sub => [45] | .mul => [42] | .div => [47] | .mod => [37] | .pow => [94]
  | .eqlc => [61, 61] | .neq => [33, 61] | .lte => [60, 61] | .gte => [62, 61] | .lss => [60] | .gtr => [62]

def BOp.tok : BOp → RawTok
  | .add => ⟨"ADD", 1⟩ | .sub => ⟨"SUB", 1⟩ | .mul => ⟨"MUL", 1⟩ | .div => ⟨"DIV", 1⟩ | .mod => ⟨"MOD", 1⟩ | .pow => ⟨"POW", 1⟩
  | .eqlc => ⟨"EQLC", 2⟩ | .neq => ⟨"NEQ", 2⟩ | .lte => ⟨"LTE", 2⟩ | .gte => ⟨"GTE", 2⟩ | .lss => ⟨"LSS", 1⟩ | .gtr => ⟨"GTR", 1⟩

/-- one lexer step over an operator followed by the blank the printer writes after it -/
theorem step_bop (o : BOp) (st : LexState) (hst : plain st) (rest : List Nat) :
    lexStep (o.text ++ 32 :: rest) st = .tok o.tok.name o.tok.len (32 :: rest) st := by
  have h1 := step_op1 st hst (32 :: rest)
  have h2 := step_cmp st hst (32 :: rest)
  have h3 := step_cmp st hst rest
  cases o
  · exact h1.1
  · exact h1.2.1
  · exact h1.2.2.1
  · exact h1.2.2.2.1
  · exact h1.2.2.2.2.1
  · exact h1.2.2.2.2.2
  · exact h2.1
  · exact h2.2.1
  · exact h2.2.2.1
  · exact h2.2.2.2.1
  · exact h3.2.2.2.2.1
  · exact h3.2.2.2.2.2

theorem BOp.text_head (o : BOp) : ∃ x t, o.text = x :: t ∧ isSpaceB x = false := by
  cases o <;> exact ⟨_, _, rfl, by decide⟩

theorem BOp.text_len (o : BOp) : 1 ≤ o.text.length := by cases o <;> simp [BOp.text]

/-- a recursive fragment of printed expressions, at character level: metric names, range selectors, parentheses,
    one-argument calls and the twelve binary operators `+ - * / % ^ == != <= >= < >` (written ` op `) -/
inductive TE
  | sel (c : Nat) (w : List Nat)
  | rng (c : Nat) (w : List Nat) (n : Nat)
  | par (e : TE)
  | call (c : Nat) (w : List Nat) (arg : TE)
  | bin (o : BOp) (l r : TE)
  | num (sh : NumShape)

/-- `.add l r` is the binary `+` of the earlier fragment -/
abbrev TE.add (l r : TE) : TE := .bin .add l r

def goodName (c : Nat) (w : List Nat) : Prop := (isAlphaB c || c == 58) = true ∧ ∀ x ∈ w, isWordB x = true

def Good : TE → Prop
  | .sel c w => goodName c w
  | .rng c w _ => goodName c w
  | .par e => Good e
  | .call c w a => goodName c w ∧ Good a
  | .bin _ l r => Good l ∧ Good r
  | .num sh => sh.ok = true

/-- the text the printer writes -/
def printText : TE → List Nat
  | .sel c w => c :: w
  | .rng c w n => c :: w ++ 91 :: (printSeconds n ++ [93])
  | .par e => 40 :: (printText e ++ [41])
  | .call c w a => c :: w ++ 40 :: (printText a ++ [41])
  | .bin o l r => printText l ++ 32 :: (o.text ++ 32 :: printText r)
  | .num sh => sh.render

/-- the tokens of the printed expression -/
def toksOf : TE → List RawTok
  | .sel c w => [⟨wordName (c :: w), w.length + 1⟩]
  | .rng c w n => [⟨wordName (c :: w), w.length + 1⟩, ⟨"LEFT_BRACKET", 1⟩, ⟨"DURATION", (printSeconds n).length⟩, ⟨"RIGHT_BRACKET", 1⟩]
  | .par e => ⟨"LEFT_PAREN", 1⟩ :: (toksOf e ++ [⟨"RIGHT_PAREN", 1⟩])
  | .call c w a => ⟨wordName (c :: w), w.length + 1⟩ :: ⟨"LEFT_PAREN", 1⟩ :: (toksOf a ++ [⟨"RIGHT_PAREN", 1⟩])
  | .bin o l r => toksOf l ++ o.tok :: toksOf r
  | .num sh => [⟨"NUMBER", sh.render.length⟩]

/-- the lexer is between tokens, outside braces and brackets -/
def Ready (st : LexState) : Prop := plain st ∧ st.bracket = false ∧ st.gotColon = false

/-- what may follow a printed expression: not a word character -/
def bnd (rest : List Nat) : Prop := ∀ x t, rest = x :: t → (isWordB x = false ∧ x ≠ 46)

theorem bnd_cons (x : Nat) (t : List Nat) (h : isWordB x = false ∧ x ≠ 46) : bnd (x :: t) := by
  intro y u hy; cases hy; exact h

theorem bnd.word {rest : List Nat} (h : bnd rest) : ∀ x t, rest = x :: t → isWordB x = false :=
  fun x t e => (h x t e).1

theorem numFollow_of_bnd (rest : List Nat) (h : bnd rest) : numFollow rest = true := by
  cases rest with
  | nil => rfl
  | cons x t =>
    have := h x t rfl
    have h1 : isAlnumB x = false := by have := this.1; simp [isWordB] at this; exact this.1
    simp [numFollow, h1, this.2]

/-- the first character of a number the printer wrote is a digit -/
theorem render_head (sh : NumShape) (hok : sh.ok = true) : ∃ x t, sh.render = x :: t ∧ isSpaceB x = false := by
  obtain ⟨int, frac, exp⟩ := sh
  have hok' := hok
  simp only [NumShape.ok, Bool.and_eq_true, Bool.not_eq_true', List.all_eq_true] at hok'
  obtain ⟨d0, X, rfl⟩ := List.exists_cons_of_ne_nil (by intro h; subst h; simp at hok' : int ≠ [])
  have hd0 : isDigitB d0 = true := hok'.1.1.2 d0 (by simp)
  refine ⟨d0, X ++ (fracToks frac ++ expToks exp), by simp [NumShape.render], ?_⟩
  simp [isDigitB] at hd0; simp [isSpaceB]; omega

theorem headAlnum_of_bnd (rest : List Nat) (h : bnd rest) : headAlnum rest = false := by
  cases rest with
  | nil => rfl
  | cons x t => have := (h x t rfl).1; simp [isWordB] at this; simp [headAlnum, this.1]

theorem printText_head (e : TE) (hg : Good e) : ∃ x t, printText e = x :: t ∧ isSpaceB x = false := by
  induction e with
  | sel c w => exact ⟨c, w, rfl, by obtain ⟨h, _⟩ := hg; simp [isAlphaB] at h; simp [isSpaceB]; omega⟩
  | rng c w n => exact ⟨c, _, rfl, by obtain ⟨h, _⟩ := hg; simp [isAlphaB] at h; simp [isSpaceB]; omega⟩
  | par e _ => exact ⟨40, _, rfl, by decide⟩
  | call c w a _ => exact ⟨c, _, rfl, by obtain ⟨⟨h, _⟩, _⟩ := hg; simp [isAlphaB] at h; simp [isSpaceB]; omega⟩
  | bin o l r ihl _ =>
    obtain ⟨x, t, hx, hs⟩ := ihl hg.1
    exact ⟨x, t ++ 32 :: (o.text ++ 32 :: printText r), by simp [printText, hx], hs⟩
  | num sh => exact render_head sh hg

theorem dropWhile_space_head (x : Nat) (t : List Nat) (h : isSpaceB x = false) : (x :: t).dropWhile isSpaceB = x :: t := by
  simp [List.dropWhile, h]

/-- selectors -/
theorem seg_sel (c : Nat) (w : List Nat) (hg : goodName c w) (st : LexState) (hr : Ready st) (rest : List Nat) (hb : bnd rest) :
    ∃ n, Seg n st (printText (.sel c w) ++ rest) (toksOf (.sel c w)) st rest :=
  ⟨1, .tok (step_word st hr.1 hr.2.1 c w rest hg.1 hg.2 hb.word) (by simp [printText]; try omega) (.nil st rest)⟩

theorem ready_back (st : LexState) (hr : Ready st) :
    ({ st with gotColon := false, bracket := false, wantDur := false } : LexState) = st := by
  obtain ⟨b, k, g, d, w⟩ := st
  obtain ⟨⟨h1, _⟩, h2, h3⟩ := hr
  simp at h1 h2 h3
  simp [h1, h2, h3]

/-- range selectors, through the bracket mode -/
theorem seg_rng (c : Nat) (w : List Nat) (n : Nat) (hg : goodName c w) (st : LexState) (hr : Ready st) (rest : List Nat) :
    ∃ k, Seg k st (printText (.rng c w n) ++ rest) (toksOf (.rng c w n)) st rest := by
  obtain ⟨dn, dns, hn, hdn⟩ := printSeconds_cons n
  have hsp : (printSeconds n ++ 93 :: rest).dropWhile isSpaceB = printSeconds n ++ 93 :: rest := by
    rw [hn]; exact dropWhile_space_digit dn _ hdn
  have h1 := step_word st hr.1 hr.2.1 c w (91 :: (printSeconds n ++ 93 :: rest)) hg.1 hg.2 (bnd_cons 91 _ (by decide)).word
  have h2 := step_lbracket st hr.1 hr.2.1 (printSeconds n ++ 93 :: rest)
  rw [hsp] at h2
  have h3 := step_dur_bracket { st with gotColon := false, bracket := true, wantDur := true } rfl n (93 :: rest)
    (by simp [headAlnum, isAlnumB, isAlphaB, isDigitB])
  have h4 := step_rbracket { st with gotColon := false, bracket := true, wantDur := false } ⟨rfl, hr.1.2⟩ rfl rest
  rw [ready_back st hr] at h4
  refine ⟨4, ?_⟩
  have hform : printText (.rng c w n) ++ rest = c :: w ++ 91 :: (printSeconds n ++ 93 :: rest) := by simp [printText]
  rw [hform]
  exact .tok h1 (by simp [printText]; try omega) (.tok h2 (by simp [printText]; try omega) (.tok h3 (by simp [printText, hn]; try omega) (.tok h4 (by simp [printText]; try omega) (.nil st rest))))

theorem ready_paren (st : LexState) (hr : Ready st) : Ready { st with depth := st.depth + 1 } := hr

theorem depth_back (st : LexState) : ({ { st with depth := st.depth + 1 } with depth := st.depth + 1 - 1 } : LexState) = st := by
  cases st; simp

/-- the fragment, by induction: every good expression's printed text is lexed to its tokens and the lexer returns to the state
    it started from -/
theorem seg_printText (e : TE) (hg : Good e) : ∀ (st : LexState), Ready st → ∀ rest, bnd rest →
    ∃ n, Seg n st (printText e ++ rest) (toksOf e) st rest := by
  induction e with
  | sel c w => intro st hr rest hb; exact seg_sel c w hg st hr rest hb
  | rng c w n => intro st hr rest _; exact seg_rng c w n hg st hr rest
  | par e ih =>
    intro st hr rest _
    obtain ⟨n, hn⟩ := ih hg _ (ready_paren st hr) (41 :: rest) (bnd_cons 41 _ (by decide))
    have hl := step_lparen st hr.1 (printText e ++ 41 :: rest)
    have hrp := step_rparen { st with depth := st.depth + 1 } hr.1 (by simp) rest
    simp only [depth_back] at hrp
    obtain ⟨k, hk⟩ := hn.trans (.tok hrp (by simp [printText]; try omega) (.nil st rest))
    exact ⟨k + 1, by simpa [printText, toksOf] using Seg.tok hl (by simp [printText]; try omega) hk⟩
  | call c w a ih =>
    intro st hr rest _
    obtain ⟨n, hn⟩ := ih hg.2 _ (ready_paren st hr) (41 :: rest) (bnd_cons 41 _ (by decide))
    have hw := step_word st hr.1 hr.2.1 c w (40 :: (printText a ++ 41 :: rest)) hg.1.1 hg.1.2 (bnd_cons 40 _ (by decide)).word
    have hl := step_lparen st hr.1 (printText a ++ 41 :: rest)
    have hrp := step_rparen { st with depth := st.depth + 1 } hr.1 (by simp) rest
    simp only [depth_back] at hrp
    obtain ⟨k, hk⟩ := hn.trans (.tok hrp (by simp [printText]; try omega) (.nil st rest))
    exact ⟨k + 2, by simpa [printText, toksOf] using Seg.tok hw (by simp [printText]; try omega) (Seg.tok hl (by simp [printText]; try omega) hk)⟩
  | bin o l r ihl ihr =>
    intro st hr rest hb
    obtain ⟨x, t, hx, hs⟩ := printText_head r hg.2
    obtain ⟨y, u, hy, hys⟩ := o.text_head
    obtain ⟨n2, h2⟩ := ihr hg.2 st hr rest hb
    have hb2 := step_blank st hr.1.1 (printText r ++ rest)
    rw [show printText r ++ rest = x :: (t ++ rest) by simp [hx], dropWhile_space_head x _ hs,
      ← show printText r ++ rest = x :: (t ++ rest) by simp [hx]] at hb2
    have hop := step_bop o st hr.1 (printText r ++ rest)
    have hb1 := step_blank st hr.1.1 (o.text ++ 32 :: (printText r ++ rest))
    rw [show o.text ++ 32 :: (printText r ++ rest) = y :: (u ++ 32 :: (printText r ++ rest)) by simp [hy],
      dropWhile_space_head y _ hys,
      ← show o.text ++ 32 :: (printText r ++ rest) = y :: (u ++ 32 :: (printText r ++ rest)) by simp [hy]] at hb1
    have hlen := o.text_len
    have htail : Seg (n2 + 3) st (32 :: (o.text ++ 32 :: (printText r ++ rest))) (o.tok :: toksOf r) st rest :=
      .skip hb1 (by simp) (.tok hop (by simp; omega) (.skip hb2 (by simp) h2))
    obtain ⟨n1, h1⟩ := ihl hg.1 st hr (32 :: (o.text ++ 32 :: (printText r ++ rest))) (bnd_cons 32 _ (by decide))
    obtain ⟨k, hk⟩ := h1.trans htail
    exact ⟨k, by simpa [printText, toksOf] using hk⟩

  | num sh =>
    intro st hr rest hb
    have h := step_num st hr.1 sh hg rest (numFollow_of_bnd rest hb)
    obtain ⟨x, t, hx, _⟩ := render_head sh hg
    exact ⟨1, by simpa [printText, toksOf] using Seg.tok h (by simp [hx]; omega) (.nil st rest)⟩

/-- character level, recursive fragment: the whole lexer on the printed text of a good expression returns exactly its tokens -/
theorem lexAll_printText (e : TE) (hg : Good e) : lexAll (printText e) = (toksOf e, .eof) := by
  obtain ⟨n, hn⟩ := seg_printText e hg {} ⟨⟨rfl, rfl⟩, rfl, rfl⟩ [] (by intro x t h; cases h)
  rw [List.append_nil] at hn
  exact (hn.toLexes ⟨rfl, rfl⟩ rfl rfl).lexAll

end SH.PromLex.Frag
