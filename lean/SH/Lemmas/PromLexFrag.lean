/-
  SH.Lemmas.PromLexFrag — character-level lexing of a RECURSIVE fragment of printed expressions by chaining the step lemmas
  (`Seg`, composable segments of justified lexer steps): metric names, range selectors, parentheses, one-argument calls and the
  binary ` + `. One theorem per constructor (seg_sel, seg_rng, and the par / call / add cases of seg_printText), and
  `lexAll_printText`: the whole lexer on the printed text returns exactly the expression's tokens.
-/
import SH.Lemmas.PromLexChain
set_option linter.unusedSimpArgs false
namespace SH.PromLex.Frag
open SH.PromLex SH.PromLex.Steps SH.PromLex.Num SH.PromLex.Chain

/-- a segment of justified lexer steps: from (st, text) to (st', rest), yielding `ts` -/
inductive Seg : Nat → LexState → List Nat → List RawTok → LexState → List Nat → Prop
  | nil (st : LexState) (text : List Nat) : Seg 0 st text [] st text
  | tok {n st st1 st' text mid rest name len ts} (h : lexStep text st = .tok name len mid st1) (hl : mid.length < text.length)
      (hr : Seg n st1 mid ts st' rest) : Seg (n + 1) st text (⟨name, len⟩ :: ts) st' rest
  | skip {n st st1 st' text mid rest ts} (h : lexStep text st = .skip mid st1) (hl : mid.length < text.length)
      (hr : Seg n st1 mid ts st' rest) : Seg (n + 1) st text ts st' rest

theorem Seg.trans {a b st st1 st2 text mid rest ts1 ts2} (h1 : Seg a st text ts1 st1 mid) (h2 : Seg b st1 mid ts2 st2 rest) :
    ∃ n, Seg n st text (ts1 ++ ts2) st2 rest := by
  induction h1 with
  | nil => exact ⟨_, h2⟩
  | tok h hl _ ih => obtain ⟨n, hn⟩ := ih h2; exact ⟨_, .tok h hl hn⟩
  | skip h hl _ ih => obtain ⟨n, hn⟩ := ih h2; exact ⟨_, .skip h hl hn⟩

theorem Seg.toLexes {n st text ts st'} (h : Seg n st text ts st' []) (h1 : plain st') (h2 : st'.depth = 0) (h3 : st'.bracket = false) :
    Lexes n st text ts := by
  generalize hr : ([] : List Nat) = r at h
  induction h with
  | nil st text => subst hr; exact .done st h1 h2 h3
  | tok h hl _ ih => exact .tok h hl (ih h1 h2 h3 hr)
  | skip h hl _ ih => exact .skip h hl (ih h1 h2 h3 hr)

/-- a recursive fragment of printed expressions, at character level: metric names, range selectors, parentheses,
    one-argument calls and the binary `+` (written ` + `) -/
inductive TE
  | sel (c : Nat) (w : List Nat)
  | rng (c : Nat) (w : List Nat) (n : Nat)
  | par (e : TE)
  | call (c : Nat) (w : List Nat) (arg : TE)
  | add (l r : TE)

def goodName (c : Nat) (w : List Nat) : Prop := (isAlphaB c || c == 58) = true ∧ ∀ x ∈ w, isWordB x = true

def Good : TE → Prop
  | .sel c w => goodName c w
  | .rng c w _ => goodName c w
  | .par e => Good e
  | .call c w a => goodName c w ∧ Good a
  | .add l r => Good l ∧ Good r

/-- the text the printer writes -/
def printText : TE → List Nat
  | .sel c w => c :: w
  | .rng c w n => c :: w ++ 91 :: (printSeconds n ++ [93])
  | .par e => 40 :: (printText e ++ [41])
  | .call c w a => c :: w ++ 40 :: (printText a ++ [41])
  | .add l r => printText l ++ 32 :: 43 :: 32 :: printText r

/-- the tokens of the printed expression -/
def toksOf : TE → List RawTok
  | .sel c w => [⟨wordName (c :: w), w.length + 1⟩]
  | .rng c w n => [⟨wordName (c :: w), w.length + 1⟩, ⟨"LEFT_BRACKET", 1⟩, ⟨"DURATION", (printSeconds n).length⟩, ⟨"RIGHT_BRACKET", 1⟩]
  | .par e => ⟨"LEFT_PAREN", 1⟩ :: (toksOf e ++ [⟨"RIGHT_PAREN", 1⟩])
  | .call c w a => ⟨wordName (c :: w), w.length + 1⟩ :: ⟨"LEFT_PAREN", 1⟩ :: (toksOf a ++ [⟨"RIGHT_PAREN", 1⟩])
  | .add l r => toksOf l ++ ⟨"ADD", 1⟩ :: toksOf r

/-- the lexer is between tokens, outside braces and brackets -/
def Ready (st : LexState) : Prop := plain st ∧ st.bracket = false ∧ st.gotColon = false

/-- what may follow a printed expression: not a word character -/
def bnd (rest : List Nat) : Prop := ∀ x t, rest = x :: t → isWordB x = false

theorem bnd_cons (x : Nat) (t : List Nat) (h : isWordB x = false) : bnd (x :: t) := by
  intro y u hy; cases hy; exact h

theorem headAlnum_of_bnd (rest : List Nat) (h : bnd rest) : headAlnum rest = false := by
  cases rest with
  | nil => rfl
  | cons x t => have := h x t rfl; simp [isWordB] at this; simp [headAlnum, this.1]

theorem printText_head (e : TE) (hg : Good e) : ∃ x t, printText e = x :: t ∧ isSpaceB x = false := by
  induction e with
  | sel c w => exact ⟨c, w, rfl, by obtain ⟨h, _⟩ := hg; simp [isAlphaB] at h; simp [isSpaceB]; omega⟩
  | rng c w n => exact ⟨c, _, rfl, by obtain ⟨h, _⟩ := hg; simp [isAlphaB] at h; simp [isSpaceB]; omega⟩
  | par e _ => exact ⟨40, _, rfl, by decide⟩
  | call c w a _ => exact ⟨c, _, rfl, by obtain ⟨⟨h, _⟩, _⟩ := hg; simp [isAlphaB] at h; simp [isSpaceB]; omega⟩
  | add l r ihl _ =>
    obtain ⟨x, t, hx, hs⟩ := ihl hg.1
    exact ⟨x, t ++ 32 :: 43 :: 32 :: printText r, by simp [printText, hx], hs⟩

theorem dropWhile_space_head (x : Nat) (t : List Nat) (h : isSpaceB x = false) : (x :: t).dropWhile isSpaceB = x :: t := by
  simp [List.dropWhile, h]

/-- selectors -/
theorem seg_sel (c : Nat) (w : List Nat) (hg : goodName c w) (st : LexState) (hr : Ready st) (rest : List Nat) (hb : bnd rest) :
    ∃ n, Seg n st (printText (.sel c w) ++ rest) (toksOf (.sel c w)) st rest :=
  ⟨1, .tok (step_word st hr.1 hr.2.1 c w rest hg.1 hg.2 hb) (by simp [printText]; try omega) (.nil st rest)⟩

theorem ready_back (st : LexState) (hr : Ready st) :
    ({ st with gotColon := false, bracket := false, wantDur := false } : LexState) = st := by
  obtain ⟨b, k, g, d, w⟩ := st
  obtain ⟨⟨h1, _⟩, h2, h3⟩ := hr
  simp at h1 h2 h3
  simp [h1, h2, h3]

/-- range selectors, through the bracket mode -/
theorem seg_rng (c : Nat) (w : List Nat) (n : Nat) (hg : goodName c w) (st : LexState) (hr : Ready st) (rest : List Nat) :
    ∃ k, Seg k st (printText (.rng c w n) ++ rest) (toksOf (.rng c w n)) st rest := by
  obtain ⟨dn, dns, hn, hdn⟩ := printSeconds_cons n
  have hsp : (printSeconds n ++ 93 :: rest).dropWhile isSpaceB = printSeconds n ++ 93 :: rest := by
    rw [hn]; exact dropWhile_space_digit dn _ hdn
  have h1 := step_word st hr.1 hr.2.1 c w (91 :: (printSeconds n ++ 93 :: rest)) hg.1 hg.2 (bnd_cons 91 _ (by decide))
  have h2 := step_lbracket st hr.1 hr.2.1 (printSeconds n ++ 93 :: rest)
  rw [hsp] at h2
  have h3 := step_dur_bracket { st with gotColon := false, bracket := true, wantDur := true } rfl n (93 :: rest)
    (by simp [headAlnum, isAlnumB, isAlphaB, isDigitB])
  have h4 := step_rbracket { st with gotColon := false, bracket := true, wantDur := false } ⟨rfl, hr.1.2⟩ rfl rest
  rw [ready_back st hr] at h4
  refine ⟨4, ?_⟩
  have hform : printText (.rng c w n) ++ rest = c :: w ++ 91 :: (printSeconds n ++ 93 :: rest) := by simp [printText]
  rw [hform]
  exact .tok h1 (by simp [printText]; try omega) (.tok h2 (by simp [printText]; try omega) (.tok h3 (by simp [printText, hn]; try omega) (.tok h4 (by simp [printText]; try omega) (.nil st rest))))

theorem ready_paren (st : LexState) (hr : Ready st) : Ready { st with depth := st.depth + 1 } := hr

theorem depth_back (st : LexState) : ({ { st with depth := st.depth + 1 } with depth := st.depth + 1 - 1 } : LexState) = st := by
  cases st; simp

/-- the fragment, by induction: every good expression's printed text is lexed to its tokens and the lexer returns to the state
    it started from -/
theorem seg_printText (e : TE) (hg : Good e) : ∀ (st : LexState), Ready st → ∀ rest, bnd rest →
    ∃ n, Seg n st (printText e ++ rest) (toksOf e) st rest := by
  induction e with
  | sel c w => intro st hr rest hb; exact seg_sel c w hg st hr rest hb
  | rng c w n => intro st hr rest _; exact seg_rng c w n hg st hr rest
  | par e ih =>
    intro st hr rest _
    obtain ⟨n, hn⟩ := ih hg _ (ready_paren st hr) (41 :: rest) (bnd_cons 41 _ (by decide))
    have hl := step_lparen st hr.1 (printText e ++ 41 :: rest)
    have hrp := step_rparen { st with depth := st.depth + 1 } hr.1 (by simp) rest
    simp only [depth_back] at hrp
    obtain ⟨k, hk⟩ := hn.trans (.tok hrp (by simp [printText]; try omega) (.nil st rest))
    exact ⟨k + 1, by simpa [printText, toksOf] using Seg.tok hl (by simp [printText]; try omega) hk⟩
  | call c w a ih =>
    intro st hr rest _
    obtain ⟨n, hn⟩ := ih hg.2 _ (ready_paren st hr) (41 :: rest) (bnd_cons 41 _ (by decide))
    have hw := step_word st hr.1 hr.2.1 c w (40 :: (printText a ++ 41 :: rest)) hg.1.1 hg.1.2 (bnd_cons 40 _ (by decide))
    have hl := step_lparen st hr.1 (printText a ++ 41 :: rest)
    have hrp := step_rparen { st with depth := st.depth + 1 } hr.1 (by simp) rest
    simp only [depth_back] at hrp
    obtain ⟨k, hk⟩ := hn.trans (.tok hrp (by simp [printText]; try omega) (.nil st rest))
    exact ⟨k + 2, by simpa [printText, toksOf] using Seg.tok hw (by simp [printText]; try omega) (Seg.tok hl (by simp [printText]; try omega) hk)⟩
  | add l r ihl ihr =>
    intro st hr rest hb
    obtain ⟨x, t, hx, hs⟩ := printText_head r hg.2
    obtain ⟨n2, h2⟩ := ihr hg.2 st hr rest hb
    have hb2 := step_blank st hr.1.1 (printText r ++ rest)
    rw [show printText r ++ rest = x :: (t ++ rest) by simp [hx], dropWhile_space_head x _ hs,
      ← show printText r ++ rest = x :: (t ++ rest) by simp [hx]] at hb2
    have hop := (step_op1 st hr.1 (32 :: (printText r ++ rest))).1
    have hb1 := step_blank st hr.1.1 (43 :: 32 :: (printText r ++ rest))
    rw [dropWhile_space_head 43 _ (by decide)] at hb1
    have htail : Seg (n2 + 3) st (32 :: 43 :: 32 :: (printText r ++ rest)) (⟨"ADD", 1⟩ :: toksOf r) st rest :=
      .skip hb1 (by simp [printText]; try omega) (.tok hop (by simp [printText]; try omega) (.skip hb2 (by simp) h2))
    obtain ⟨n1, h1⟩ := ihl hg.1 st hr (32 :: 43 :: 32 :: (printText r ++ rest)) (bnd_cons 32 _ (by decide))
    obtain ⟨k, hk⟩ := h1.trans htail
    exact ⟨k, by simpa [printText, toksOf] using hk⟩

/-- character level, recursive fragment: the whole lexer on the printed text of a good expression returns exactly its tokens -/
theorem lexAll_printText (e : TE) (hg : Good e) : lexAll (printText e) = (toksOf e, .eof) := by
  obtain ⟨n, hn⟩ := seg_printText e hg {} ⟨⟨rfl, rfl⟩, rfl, rfl⟩ [] (by intro x t h; cases h)
  rw [List.append_nil] at hn
  exact (hn.toLexes ⟨rfl, rfl⟩ rfl rfl).lexAll

end SH.PromLex.Frag
