/-
  SH.Lemmas.TableOrder — time order of the rows a table pass visits (property C25, "sorted in the requested
  direction … limit respected"): with storage answers that are ordered in time (ascending LODs, ascending time groups)
  the window rows of a pass are visited in the requested time direction, so a page is a leading segment in time.
-/
import SH.Lemmas.TableCells
namespace SH.C25
open SH.Table

/-- `a` may precede `b` in the requested direction, by time -/
def timeDir (fe : Bool) (a b : Row) : Prop := if fe then b.key.time ≤ a.key.time else a.key.time ≤ b.key.time

/-- what the storage of a time-sliced table returns, as far as times go: the answers are given in ascending LOD order,
    no row of an earlier LOD is later than a row of a later LOD, the time groups of an answer are ascending, and the
    rows of one group share their time -/
def TimeOrdered (answers : List (Lod × Option (List (List Row)))) : Prop :=
  answers.Pairwise (fun a b => ∀ g ∈ a.2.getD [], ∀ r ∈ g, ∀ h ∈ b.2.getD [], ∀ s ∈ h, r.key.time ≤ s.key.time) ∧
  (∀ a ∈ answers, (a.2.getD []).Pairwise (fun g h => ∀ r ∈ g, ∀ s ∈ h, r.key.time ≤ s.key.time)) ∧
  (∀ a ∈ answers, ∀ g ∈ a.2.getD [], ∀ r ∈ g, ∀ s ∈ g, r.key.time = s.key.time)

theorem pairwise_of_all {α} (R : α → α → Prop) : ∀ l : List α, (∀ a ∈ l, ∀ b ∈ l, R a b) → l.Pairwise R := by
  intro l
  induction l with
  | nil => intro _; exact List.Pairwise.nil
  | cons x xs ih =>
    intro h
    exact List.pairwise_cons.2 ⟨fun b hb => h x (by simp) b (by simp [hb]), ih (fun a ha b hb => h a (by simp [ha]) b (by simp [hb]))⟩

theorem candRows_sublist (q : Req) : ∀ (l : List (Lod × Option (List (List Row)))),
    (candRows q l).Sublist (l.flatMap (fun a => (dir q.win.fromEnd (a.2.getD [])).flatten)) := by
  intro l
  induction l with
  | nil => simp [candRows]
  | cons a rest ih =>
    obtain ⟨lod, ans⟩ := a
    simp only [candRows, List.flatMap_cons]
    split
    · exact ih.trans (List.sublist_append_right _ _)
    · exact List.Sublist.append (by simp only [windowRows]; exact List.filter_sublist) ih

theorem groups_timeDir (fe : Bool) (gs : List (List Row))
    (h1 : gs.Pairwise (fun g h => ∀ r ∈ g, ∀ s ∈ h, r.key.time ≤ s.key.time))
    (h2 : ∀ g ∈ gs, ∀ r ∈ g, ∀ s ∈ g, r.key.time = s.key.time) :
    ((dir fe gs).flatten).Pairwise (timeDir fe) := by
  cases fe with
  | false =>
    simp only [dir, Bool.false_eq_true, if_false]
    refine List.pairwise_flatten.2 ⟨?_, ?_⟩
    · intro g hg
      exact pairwise_of_all _ g (fun a ha b hb => by simp [timeDir, h2 g hg a ha b hb])
    · exact h1.imp (fun {g h} hgh x hx y hy => by simpa [timeDir] using hgh x hx y hy)
  | true =>
    simp only [dir, if_true]
    refine List.pairwise_flatten.2 ⟨?_, ?_⟩
    · intro g hg
      exact pairwise_of_all _ g (fun a ha b hb => by simp [timeDir, h2 g (by simpa using hg) b hb a ha])
    · rw [List.pairwise_reverse]
      exact h1.imp (fun {g h} hgh x hx y hy => by simpa [timeDir] using hgh y hy x hx)

theorem all_timeDir (fe : Bool) (answers : List (Lod × Option (List (List Row)))) (h : TimeOrdered answers) :
    ((dir fe answers).flatMap (fun a => (dir fe (a.2.getD [])).flatten)).Pairwise (timeDir fe) := by
  obtain ⟨h1, h2, h3⟩ := h
  have mem_flat : ∀ (a : Lod × Option (List (List Row))) (x : Row),
      x ∈ (dir fe (a.2.getD [])).flatten → ∃ g ∈ a.2.getD [], x ∈ g := by
    intro a x hx
    simp only [List.mem_flatten] at hx
    obtain ⟨g, hg, hxg⟩ := hx
    exact ⟨g, (mem_dir _ _ _).1 hg, hxg⟩
  rw [List.flatMap_def]
  refine List.pairwise_flatten.2 ⟨?_, ?_⟩
  · intro l hl
    simp only [List.mem_map] at hl
    obtain ⟨a, ha, rfl⟩ := hl
    have ha' := (mem_dir _ _ _).1 ha
    exact groups_timeDir fe _ (h2 a ha') (h3 a ha')
  · rw [List.pairwise_map]
    cases fe with
    | false =>
      simp only [dir, Bool.false_eq_true, if_false]
      refine h1.imp ?_
      intro a b hab x hx y hy
      obtain ⟨g, hg, hxg⟩ := mem_flat a x (by simpa [dir] using hx)
      obtain ⟨g', hg', hyg⟩ := mem_flat b y (by simpa [dir] using hy)
      simpa [timeDir] using hab g hg x hxg g' hg' y hyg
    | true =>
      simp only [dir, if_true]
      rw [List.pairwise_reverse]
      refine h1.imp ?_
      intro a b hab x hx y hy
      obtain ⟨g, hg, hxg⟩ := mem_flat b x (by simpa [dir] using hx)
      obtain ⟨g', hg', hyg⟩ := mem_flat a y (by simpa [dir] using hy)
      simpa [timeDir] using hab g' hg' y hyg g hg x hxg

/-- the window rows of a pass, in visiting order, never go back in time against the requested direction -/
theorem candRows_time_sorted (q : Req) (answers : List (Lod × Option (List (List Row)))) (h : TimeOrdered answers) :
    (candRows q (dir q.win.fromEnd answers)).Pairwise (timeDir q.win.fromEnd) :=
  List.Pairwise.sublist (candRows_sublist q _) (all_timeDir q.win.fromEnd answers h)
/-! ### `less` (queryTableRows.Less) is the lexicographic order on (time, number of tags, tags as integers, skey) -/

/-- for tag lists of equal length the tag loop plus the skey test is: tags lexicographically less (order of `Int`,
    no wrap-around), or equal tags and a smaller skey -/
theorem tl_lex : ∀ (l1 l2 : List Int) (s1 s2 : Nat), l1.length = l2.length →
    (tl l1 s1 l2 s2 = true ↔ l1 < l2 ∨ (l1 = l2 ∧ s1 < s2)) := by
  intro l1
  induction l1 with
  | nil =>
    intro l2 s1 s2 hl
    cases l2 with
    | nil => simp [tl_nil]
    | cons => simp at hl
  | cons x l1 ih =>
    intro l2 s1 s2 hl
    cases l2 with
    | nil => simp at hl
    | cons y l2 =>
      have hl' : l1.length = l2.length := by simpa using hl
      rw [tl_cons, ih l2 s1 s2 hl', List.cons_lt_cons_iff]
      constructor
      · rintro (h | ⟨rfl, h | ⟨rfl, h⟩⟩)
        · exact Or.inl (Or.inl h)
        · exact Or.inl (Or.inr ⟨rfl, h⟩)
        · exact Or.inr ⟨rfl, h⟩
      · rintro ((h | ⟨rfl, h⟩) | ⟨he, h⟩)
        · exact Or.inl h
        · exact Or.inr ⟨rfl, Or.inl h⟩
        · simp only [List.cons.injEq] at he
          obtain ⟨rfl, rfl⟩ := he
          exact Or.inr ⟨rfl, Or.inr ⟨rfl, h⟩⟩

end SH.C25
