/-
  SH.Lemmas.BinlogSim — the writer's output as a layout of chunks (`layoutC`) and the simulation theorem: reading the layout
  from a state that matches the writer delivers exactly the appended events and arrives, in the last chunk, at a state that
  matches the writer after all appends (with an arbitrary continuation `K` = what follows in the last chunk / later chunks).
-/
import SH.Lemmas.BinlogRot
open SH.Binlog
namespace SH.C18

/-- one `Append`/`AppendASAP` with the inputs of the model (clock and md5 values) -/
structure Ap where
  body : Bytes
  asap : Bool
  ts : Nat
  h1 : Nat
  h2 : Nat

def Ap.ev (a : Ap) : Ev := ⟨a.body, a.asap, a.ts⟩

def apNext (cfg : Cfg) (w : WS) (a : Ap) : WS := putBody cfg w (encEvent cfg.evMagic a.body) a.asap a.ts a.h1 a.h2

/-- state after the event and the crc record, before the rotate block -/
def apMid (cfg : Cfg) (w : WS) (a : Ap) : WS := putCrc cfg w (encEvent cfg.evMagic a.body) a.ts

def rotates (cfg : Cfg) (w : WS) (a : Ap) : Bool := needRotate cfg (apMid cfg w a)

def runAll (cfg : Cfg) (w : WS) : List Ap → WS
  | [] => w
  | a :: as => runAll cfg (apNext cfg w a) as

/-- (offset the writer assigned = what the previous Append returned, framed event) -/
def offsR (cfg : Cfg) (w : WS) : List Ap → List (Int × Bytes)
  | [] => []
  | a :: as => ((w.offG : Int), encEvent cfg.evMagic a.body) :: offsR cfg (apNext cfg w a) as

/-- bytes of the event and of the crc record (if due) -/
def apA (cfg : Cfg) (w : WS) (a : Ap) : Bytes := padded (encEvent cfg.evMagic a.body) ++ crcPart cfg w a.ev

def apCur (cfg : Cfg) (w : WS) (a : Ap) : Nat := if (apMid cfg w a).firstFile then a.h1 else (apMid cfg w a).curHash

def apRT (cfg : Cfg) (w : WS) (a : Ap) : Bytes :=
  encRotTo a.ts ((apMid cfg w a).offG + 36) (apMid cfg w a).crc (apCur cfg w a) a.h2

def apRF (cfg : Cfg) (w : WS) (a : Ap) : Bytes :=
  encRotFrom a.ts ((apMid cfg w a).offG + 36) (cfg.upd (apMid cfg w a).crc (apRT cfg w a)) (apCur cfg w a) a.h2

/-- layout of what the appends write: (rest of the current chunk, later chunks); `K` = continuation of the last chunk and
    the chunks after it -/
def layoutC (cfg : Cfg) : WS → List Ap → Bytes × List Bytes → Bytes × List Bytes
  | _, [], K => K
  | w, a :: as, K =>
    if rotates cfg w a then
      (apA cfg w a ++ apRT cfg w a, (apRF cfg w a ++ (layoutC cfg (apNext cfg w a) as K).1) :: (layoutC cfg (apNext cfg w a) as K).2)
    else (apA cfg w a ++ (layoutC cfg (apNext cfg w a) as K).1, (layoutC cfg (apNext cfg w a) as K).2)

/-! ### fields of the writer state after one append -/

@[simp] theorem padded_rotTo (ts np : Nat) (c : UInt32) (a b : Nat) : padded (encRotTo ts np c a b) = encRotTo ts np c a b :=
  padded_of_mod (by simp)
@[simp] theorem padded_rotFrom (ts np : Nat) (c : UInt32) (a b : Nat) : padded (encRotFrom ts np c a b) = encRotFrom ts np c a b :=
  padded_of_mod (by simp)

theorem apMid_fields (cfg : Cfg) (w : WS) (a : Ap) :
    (apMid cfg w a).offG = w.offG + (apA cfg w a).length ∧
    (apMid cfg w a).buff = w.buff ++ apA cfg w a ∧
    (apMid cfg w a).crc = (if needCrc cfg (appendLev cfg w (encEvent cfg.evMagic a.body)) = true
        then cfg.upd (cfg.upd w.crc (padded (encEvent cfg.evMagic a.body)))
               (encCrc a.ts (w.offG + pad4 (8 + a.body.length)) (cfg.upd w.crc (padded (encEvent cfg.evMagic a.body))))
        else cfg.upd w.crc (padded (encEvent cfg.evMagic a.body))) ∧
    crcPart cfg w a.ev = (if needCrc cfg (appendLev cfg w (encEvent cfg.evMagic a.body)) = true
        then encCrc a.ts (w.offG + pad4 (8 + a.body.length)) (cfg.upd w.crc (padded (encEvent cfg.evMagic a.body))) else []) := by
  have hp : ∀ q c, padded (encCrc a.ts q c) = encCrc a.ts q c := fun q c => padded_of_mod (by simp)
  by_cases hc : needCrc cfg (appendLev cfg w (encEvent cfg.evMagic a.body)) = true
  · have hcp : crcPart cfg w a.ev = encCrc a.ts (w.offG + pad4 (8 + a.body.length)) (cfg.upd w.crc (padded (encEvent cfg.evMagic a.body))) := by
      have hc' : needCrc cfg (appendLev cfg w (evBytes cfg a.ev)) = true := hc
      show (if needCrc cfg (appendLev cfg w (evBytes cfg a.ev)) = true then _ else _) = _
      rw [if_pos hc']; simp [appendLev, evBytes, Ap.ev]
    simp only [apMid, putCrc, hc, if_true, addCrc, apA, hcp]
    refine ⟨?_, ?_, ?_, trivial⟩ <;> simp [appendLev, hp] <;> omega
  · have hcp : crcPart cfg w a.ev = [] := by
      have hc' : ¬ needCrc cfg (appendLev cfg w (evBytes cfg a.ev)) = true := hc
      show (if needCrc cfg (appendLev cfg w (evBytes cfg a.ev)) = true then _ else _) = _
      rw [if_neg hc']
    simp only [apMid, putCrc, hc, apA, hcp]
    refine ⟨?_, ?_, ?_, ?_⟩ <;> simp [appendLev]

theorem apNext_fields (cfg : Cfg) (w : WS) (a : Ap) :
    (apNext cfg w a).offG = (apMid cfg w a).offG + (if rotates cfg w a then 72 else 0) ∧
    (apNext cfg w a).crc = (if rotates cfg w a then cfg.upd (cfg.upd (apMid cfg w a).crc (apRT cfg w a)) (apRF cfg w a)
                            else (apMid cfg w a).crc) := by
  by_cases hr : rotates cfg w a = true
  · have hr' : needRotate cfg (putCrc cfg w (encEvent cfg.evMagic a.body) a.ts) = true := hr
    simp only [apNext, putBody, hr', if_true, hr]
    have e1 : (addRotate cfg (putCrc cfg w (encEvent cfg.evMagic a.body) a.ts) a.ts a.h1 a.h2).offG = (apMid cfg w a).offG + 72 := by
      simp [addRotate, appendLev, levRotateSize, apMid]
    have e2 : (addRotate cfg (putCrc cfg w (encEvent cfg.evMagic a.body) a.ts) a.ts a.h1 a.h2).crc
        = cfg.upd (cfg.upd (apMid cfg w a).crc (apRT cfg w a)) (apRF cfg w a) := by
      simp only [addRotate, appendLev, levRotateSize, apRT, apRF, apCur, apMid, padded_rotTo, padded_rotFrom]
      rfl
    split <;> simp [e1, e2]
  · have hr' : needRotate cfg (putCrc cfg w (encEvent cfg.evMagic a.body) a.ts) = false := by simpa [rotates, apMid] using hr
    have hr2 : rotates cfg w a = false := by simpa using hr
    simp only [apNext, putBody, hr', hr2, Bool.false_eq_true, if_false, apMid]
    split <;> simp


/-! ### reading one append -/

theorem readLoop_cont {cfg : Cfg} {s s' : RS} (f : Nat) (h : readStep cfg s = .cont s') :
    readLoop cfg (f + 1) s = readLoop cfg f s' := by simp only [readLoop, h]

theorem readLoop_rotated {cfg : Cfg} {s s' : RS} (f : Nat) (h : readStep cfg s = .rotated s') :
    readLoop cfg (f + 1) s = { s := s'.commit, rotated := true, err := none } := by simp only [readLoop, h]

theorem readLoop_eof {cfg : Cfg} {s s' : RS} (f : Nat) (h : readStep cfg s = .eof s') :
    readLoop cfg (f + 1) s = { s := s'.commit, rotated := false, err := none } := by simp only [readLoop, h]

theorem apA_length (cfg : Cfg) (w : WS) (a : Ap) : 8 ≤ (apA cfg w a).length := by
  simp only [apA, List.length_append, padded_length, encEvent_length]
  have := pad4_ge (8 + a.body.length); omega

/-- the event and, if due, the crc record of one append are read in `k` (1 or 2) loop iterations -/
theorem read_A (cfg : Cfg) (hm : cfg.evMagic < 4294967296) (hsvc : cfg.evMagic ∉ serviceMagics) (w : WS) (a : Ap)
    (hb : a.body.length < 4294967296) (hts : a.ts < 4294967296) (s : RS) (R : Bytes)
    (h : At s w.offG w.crc (apA cfg w a ++ R)) :
    ∃ k s', 1 ≤ k ∧ 8 * k ≤ (apA cfg w a).length ∧ (∀ f, readLoop cfg (f + k) s = readLoop cfg f s') ∧
      At s' (apMid cfg w a).offG (apMid cfg w a).crc R ∧
      s'.eng.evs = ((w.offG : Int), encEvent cfg.evMagic a.body) :: s.eng.evs := by
  obtain ⟨fo, _, fc, fp⟩ := apMid_fields cfg w a
  by_cases hc : needCrc cfg (appendLev cfg w (encEvent cfg.evMagic a.body)) = true
  · rw [if_pos hc] at fc fp
    have hA : apA cfg w a = padded (encEvent cfg.evMagic a.body) ++
        encCrc a.ts (w.offG + pad4 (8 + a.body.length)) (cfg.upd w.crc (padded (encEvent cfg.evMagic a.body))) := by
      simp only [apA, fp]
    rw [hA, List.append_assoc] at h
    obtain ⟨s1, st1, at1, ev1⟩ := step_event cfg hm hsvc s w.offG w.crc a.body _ hb h
    obtain ⟨s2, st2, at2, ev2⟩ := step_crc cfg s1 _ _ a.ts _ R hts at1
    refine ⟨2, s2, by omega, ?_, ?_, ?_, ?_⟩
    · rw [hA]; simp
    · intro f; rw [show f + 2 = (f + 1) + 1 from rfl, readLoop_cont _ st1, readLoop_cont _ st2]
    · rw [fo, fc, hA]; simpa [Nat.add_assoc] using at2
    · rw [ev2, ev1]
  · rw [if_neg hc] at fc fp
    have hA : apA cfg w a = padded (encEvent cfg.evMagic a.body) := by simp only [apA, fp, List.append_nil]
    rw [hA] at h
    obtain ⟨s1, st1, at1, ev1⟩ := step_event cfg hm hsvc s w.offG w.crc a.body R hb h
    refine ⟨1, s1, by omega, ?_, ?_, ?_, ev1⟩
    · rw [hA]; simp; have := pad4_ge (8 + a.body.length); omega
    · intro f; exact readLoop_cont _ st1
    · rw [fo, fc, hA]; simpa using at1


/-! ### the simulation theorem -/

/-- what `readAllFromPosition` does with the result of the current file: stop on error, else go on with the later files -/
def finish (cfg : Cfg) (r : FR) (later : List Hdr) : Int × UInt32 × Option Err × Eng × Nat :=
  match r.err with
  | some e => (r.s.pos, r.s.crc, some e, r.s.eng, r.s.ts)
  | none => readFiles cfg later false 0 none r.s.ts r.s.eng r.s.pos r.s.crc

theorem readFiles_cons (cfg : Cfg) (h : Hdr) (hs : List Hdr) (ts : Nat) (eng : Eng) (p : Int) (c : UInt32) :
    readFiles cfg (h :: hs) false 0 none ts eng p c = finish cfg (readFile cfg h 0 none ts eng) hs := by
  unfold finish
  rw [readFiles]
  rfl

theorem readFile_start (cfg : Cfg) (h : Hdr) (hp : 0 ≤ h.pos) (ts : Nat) (eng : Eng) :
    readFile cfg h 0 none ts eng = readLoop cfg (h.data.length / 2 + 4)
      { pos := h.pos, crc := h.crc, rest := h.data, slack := h.data.length % 4, dk := false, ts := ts, commitPos := 0, eng := eng } := by
  simp [readFile, seek, Int.not_lt.mpr hp]

theorem apNext_offG_ge (cfg : Cfg) (w : WS) (a : Ap) :
    w.offG ≤ (apMid cfg w a).offG ∧ (apMid cfg w a).offG + (if rotates cfg w a then 72 else 0) = (apNext cfg w a).offG := by
  have := (apMid_fields cfg w a).1
  have := (apNext_fields cfg w a).1
  omega

theorem runAll_mono (cfg : Cfg) : ∀ (as : List Ap) (w : WS), w.offG ≤ (runAll cfg w as).offG
  | [], _ => Nat.le_refl _
  | a :: as, w => by
    have := runAll_mono cfg as (apNext cfg w a)
    have := apNext_offG_ge cfg w a
    simp only [runAll]; split at this <;> omega

/-- **simulation.**  `s` matches the writer state `w` and sees the rest of the current chunk as laid out by the appends `as`
    (with continuation `K`); the later chunks are the later files.  Then reading (`readLoop` on the current file, `readFiles` on
    the later ones) is the same as reading from a state `s'` that matches the writer AFTER the appends, placed at the
    continuation `K.1` of the last chunk with the files `K.2` still to come — and on the way exactly the events of `as` were
    delivered, in order, at the offsets the writer assigned. -/
theorem sim (cfg : Cfg) (hm : cfg.evMagic < 4294967296) (hsvc : cfg.evMagic ∉ serviceMagics) :
    ∀ (as : List Ap) (w : WS) (K : Bytes × List Bytes) (s : RS) (fuel : Nat),
      (∀ a ∈ as, a.body.length < 4294967296 ∧ a.ts < 4294967296) →
      (runAll cfg w as).offG < 9223372036854775808 →
      At s w.offG w.crc (layoutC cfg w as K).1 →
      (layoutC cfg w as K).1.length / 4 + 2 ≤ fuel →
      ∃ s' fuel', At s' (runAll cfg w as).offG (runAll cfg w as).crc K.1 ∧ K.1.length / 4 + 2 ≤ fuel' ∧
        s'.eng.evs = (offsR cfg w as).reverse ++ s.eng.evs ∧
        finish cfg (readLoop cfg fuel s) ((layoutC cfg w as K).2.map hdrOf) = finish cfg (readLoop cfg fuel' s') (K.2.map hdrOf)
  | [], w, K, s, fuel, _, _, h, hf => ⟨s, fuel, h, hf, by simp [offsR], rfl⟩
  | a :: as, w, K, s, fuel, hsz, hbound, h, hf => by
    have hb := (hsz a (List.mem_cons_self ..)).1
    have hts := (hsz a (List.mem_cons_self ..)).2
    have hsz' : ∀ a' ∈ as, a'.body.length < 4294967296 ∧ a'.ts < 4294967296 := fun a' h' => hsz a' (List.mem_cons_of_mem _ h')
    have hbound' : (runAll cfg (apNext cfg w a) as).offG < 9223372036854775808 := hbound
    have hmono := runAll_mono cfg as (apNext cfg w a)
    obtain ⟨hge, hnx⟩ := apNext_offG_ge cfg w a
    have hcrc := (apNext_fields cfg w a).2
    by_cases hr : rotates cfg w a = true
    · -- the append rotates: event, crc record, ROTATE_TO | next file: ROTATE_FROM …
      simp only [layoutC, hr, if_true] at h hf ⊢
      rw [if_pos hr] at hnx hcrc
      obtain ⟨k, s1, hk1, hk8, hloop, at1, ev1⟩ := read_A cfg hm hsvc w a hb hts s (apRT cfg w a) h
      have at1' : At s1 (apMid cfg w a).offG (apMid cfg w a).crc
          (encRotTo a.ts ((apMid cfg w a).offG + 36) (apMid cfg w a).crc (apCur cfg w a) a.h2 ++ []) := by
        simpa [apRT] using at1
      obtain ⟨s2, st2, off2, ev2, _, _⟩ := step_rotTo cfg s1 _ _ _ _ _ _ _ [] at1'
      have hlen : (apA cfg w a ++ apRT cfg w a).length = (apA cfg w a).length + 36 := by simp [apRT]
      obtain ⟨f, rfl⟩ : ∃ f, fuel = f + 1 + k := ⟨fuel - 1 - k, by omega⟩
      rw [hloop, readLoop_rotated _ st2]
      simp only [List.map_cons, finish, readFiles_cons]
      have hnp : (apMid cfg w a).offG + 36 < 9223372036854775808 := by omega
      obtain ⟨hpos, hcrc', hdata⟩ := hdrOf_rotFrom a.ts ((apMid cfg w a).offG + 36) (cfg.upd (apMid cfg w a).crc (apRT cfg w a))
        (apCur cfg w a) a.h2 (layoutC cfg (apNext cfg w a) as K).1 hnp
      have hpos' : (hdrOf (apRF cfg w a ++ (layoutC cfg (apNext cfg w a) as K).1)).pos = (((apMid cfg w a).offG + 36 : Nat) : Int) := hpos
      rw [readFile_start cfg _ (by rw [hpos']; exact Int.natCast_nonneg _)]
      -- the first record of the next file
      have at3 : At { pos := (hdrOf (apRF cfg w a ++ (layoutC cfg (apNext cfg w a) as K).1)).pos,
                      crc := (hdrOf (apRF cfg w a ++ (layoutC cfg (apNext cfg w a) as K).1)).crc,
                      rest := (hdrOf (apRF cfg w a ++ (layoutC cfg (apNext cfg w a) as K).1)).data,
                      slack := (hdrOf (apRF cfg w a ++ (layoutC cfg (apNext cfg w a) as K).1)).data.length % 4,
                      dk := false, ts := s2.commit.ts, commitPos := 0, eng := s2.commit.eng }
          ((apMid cfg w a).offG + 36) (cfg.upd (apMid cfg w a).crc (apRT cfg w a))
          (encRotFrom a.ts ((apMid cfg w a).offG + 36) (cfg.upd (apMid cfg w a).crc (apRT cfg w a)) (apCur cfg w a) a.h2 ++
            (layoutC cfg (apNext cfg w a) as K).1) :=
        ⟨hpos', hcrc', rfl, by simpa using off2, rfl, rfl⟩
      obtain ⟨s4, st4, at4, ev4⟩ := step_rotFrom cfg _ _ _ _ _ _ _ _ _ at3
      have hdl : (hdrOf (apRF cfg w a ++ (layoutC cfg (apNext cfg w a) as K).1)).data.length
          = 36 + (layoutC cfg (apNext cfg w a) as K).1.length := by
        show (apRF cfg w a ++ (layoutC cfg (apNext cfg w a) as K).1).length = _
        simp [apRF]
      have hfuel : (hdrOf (apRF cfg w a ++ (layoutC cfg (apNext cfg w a) as K).1)).data.length / 2 + 4
          = ((36 + (layoutC cfg (apNext cfg w a) as K).1.length) / 2 + 3) + 1 := by rw [hdl]
      rw [hfuel, readLoop_cont _ st4]
      have at4' : At s4 (apNext cfg w a).offG (apNext cfg w a).crc (layoutC cfg (apNext cfg w a) as K).1 := by
        rw [← hnx, hcrc]; simpa [apRF, Nat.add_assoc] using at4
      obtain ⟨s', fuel', hat, hfl, hev, hfin⟩ := sim cfg hm hsvc as (apNext cfg w a) K s4 ((36 + (layoutC cfg (apNext cfg w a) as K).1.length) / 2 + 3) hsz' hbound' at4' (by omega)
      refine ⟨s', fuel', hat, hfl, ?_, hfin⟩
      rw [hev, ev4]
      simp [offsR, ev2, ev1]
    · -- no rotation
      have hr' : rotates cfg w a = false := by simpa using hr
      simp only [layoutC, hr', Bool.false_eq_true, if_false] at h hf ⊢
      rw [if_neg hr] at hnx hcrc
      obtain ⟨k, s1, hk1, hk8, hloop, at1, ev1⟩ := read_A cfg hm hsvc w a hb hts s _ h
      have hlen : (apA cfg w a ++ (layoutC cfg (apNext cfg w a) as K).1).length
          = (apA cfg w a).length + (layoutC cfg (apNext cfg w a) as K).1.length := by simp
      obtain ⟨f, rfl⟩ : ∃ f, fuel = f + k := ⟨fuel - k, by omega⟩
      have at1' : At s1 (apNext cfg w a).offG (apNext cfg w a).crc (layoutC cfg (apNext cfg w a) as K).1 := by
        rw [← hnx, hcrc]; simpa using at1
      obtain ⟨s', fuel', hat, hfl, hev, hfin⟩ := sim cfg hm hsvc as (apNext cfg w a) K s1 f hsz' hbound' at1' (by omega)
      refine ⟨s', fuel', hat, hfl, ?_, ?_⟩
      · rw [hev, ev1]; simp [offsR]
      · rw [hloop]; exact hfin

end SH.C18
