/-
  SH.Lemmas.TsCacheWait — message bookkeeping of the series-cache model (property C23, helper development).

  `waitN` of an unfinished request equals the messages it still has to receive: one for its own load plus one per
  awaiter it registered; a chunk's `loading` equals the number of in-flight loads covering it; a chunk that has
  awaiters is covered by an in-flight load.  Hence every awaiter gets exactly one message when a load covering its
  chunk finishes (ok or error), and nobody is left waiting once no load is in flight.
-/
import SH.Lemmas.TsCachePlace
namespace SH.TsCache.Wait
open SH.TsCache SH.TsCache.Place

/-! ### counting -/

/-- awaiters of chunk `c` registered by loader `id` -/
def awC (id : Nat) (c : Chunk) : Int := ((c.awaiters.countP (fun a => a.req == id) : Nat) : Int)

/-- awaiters registered by loader `id` over all chunks -/
def awCount (id : Nat) : List Chunk → Int
  | [] => 0
  | c :: cs => awC id c + awCount id cs

/-- occurrences of chunk `cid` in a loader's chunk list -/
def occ (cid : Nat) (vs : List LChunk) : Int := ((vs.countP (fun v => v.cid == cid) : Nat) : Int)

/-- number of in-flight loads covering chunk `cid` -/
def cover (cid : Nat) : List Loader → Int
  | [] => 0
  | l :: ls => (if l.loadPending then occ cid l.chunks else 0) + cover cid ls

theorem awC_nonneg (id : Nat) (c : Chunk) : 0 ≤ awC id c := by simp only [awC]; omega
theorem awCount_nonneg (id : Nat) (cs : List Chunk) : 0 ≤ awCount id cs := by
  induction cs with
  | nil => simp [awCount]
  | cons c cs ih => simp only [awCount]; have := awC_nonneg id c; omega
theorem occ_nonneg (cid : Nat) (vs : List LChunk) : 0 ≤ occ cid vs := by simp only [occ]; omega
theorem cover_nonneg (cid : Nat) (ls : List Loader) : 0 ≤ cover cid ls := by
  induction ls with
  | nil => simp [cover]
  | cons l ls ih => simp only [cover]; have := occ_nonneg cid l.chunks; split <;> omega

theorem awC_noChunk (id : Nat) : awC id noChunk = 0 := by simp [awC, noChunk]

theorem awCount_modAt (id : Nat) (f : Chunk → Chunk) (hd : awC id (f noChunk) = 0) (i : Nat) (cs : List Chunk) :
    awCount id (modAt f i cs) = awCount id cs + (awC id (f (getChunk cs i)) - awC id (getChunk cs i)) := by
  induction cs generalizing i with
  | nil => simp [modAt, awCount, getChunk, hd, awC_noChunk]
  | cons c cs ih =>
    cases i with
    | zero => simp only [modAt, awCount, getChunk, List.getD_cons_zero]; omega
    | succ i =>
      have := ih i
      simp only [modAt, awCount, getChunk, List.getD_cons_succ] at this ⊢
      omega

theorem awCount_modAt_same (id : Nat) (f : Chunk → Chunk) (hf : ∀ c, (f c).awaiters = c.awaiters) (i : Nat) (cs : List Chunk) :
    awCount id (modAt f i cs) = awCount id cs := by
  rw [awCount_modAt id f (by simp [awC, hf, noChunk])]
  simp [awC, hf]

theorem awCount_append (id : Nat) (cs : List Chunk) (x : Chunk) : awCount id (cs ++ [x]) = awCount id cs + awC id x := by
  induction cs with
  | nil => simp [awCount]
  | cons c cs ih => simp only [List.cons_append, awCount, ih]; omega

theorem awC_le_awCount (id : Nat) (cs : List Chunk) (i : Nat) : awC id (getChunk cs i) ≤ awCount id cs := by
  induction cs generalizing i with
  | nil => simp [getChunk, awC_noChunk, awCount]
  | cons c cs ih =>
    cases i with
    | zero => simp only [getChunk, List.getD_cons_zero, awCount]; have := awCount_nonneg id cs; omega
    | succ i =>
      have := ih i
      simp only [getChunk, List.getD_cons_succ, awCount] at this ⊢
      have := awC_nonneg id c; omega

theorem occ_cons (cid : Nat) (v : LChunk) (vs : List LChunk) :
    occ cid (v :: vs) = (if v.cid = cid then 1 else 0) + occ cid vs := by
  simp only [occ, List.countP_cons, beq_iff_eq]
  split <;> omega

theorem occ_append (cid : Nat) (vs ws : List LChunk) : occ cid (vs ++ ws) = occ cid vs + occ cid ws := by
  simp only [occ, List.countP_append]; omega

theorem cover_append (cid : Nat) (ls : List Loader) (l : Loader) :
    cover cid (ls ++ [l]) = cover cid ls + (if l.loadPending then occ cid l.chunks else 0) := by
  induction ls with
  | nil => simp [cover]
  | cons x xs ih => simp only [List.cons_append, cover, ih]; omega

theorem cover_map (cid : Nat) (f : Loader → Loader) (ls : List Loader)
    (hf : ∀ x ∈ ls, (f x).loadPending = x.loadPending ∧ (f x).chunks = x.chunks) : cover cid (ls.map f) = cover cid ls := by
  induction ls with
  | nil => rfl
  | cons x xs ih =>
    simp only [List.map_cons, cover]
    rw [ih (fun y hy => hf y (List.mem_cons_of_mem _ hy)), (hf x (List.mem_cons_self ..)).1, (hf x (List.mem_cons_self ..)).2]


/-! ### one loader and the messages owed to it -/

/-- bookkeeping of loader `x` when `n` awaiter messages are still owed to it -/
def WL (x : Loader) (n : Int) : Prop :=
  (x.finished = false → (x.waitN : Int) = (if x.loadPending then 1 else 0) + n ∧ x.waitN ≠ 0) ∧
  (x.finished = true → n = 0 ∧ x.loadPending = false)

def cnt (id : Nat) (as : List Awaiter) : Int := ((as.countP (fun a => a.req == id) : Nat) : Int)

theorem cnt_nonneg (id : Nat) (as : List Awaiter) : 0 ≤ cnt id as := by simp only [cnt]; omega

theorem cnt_cons (id : Nat) (a : Awaiter) (as : List Awaiter) :
    cnt id (a :: as) = (if a.req = id then 1 else 0) + cnt id as := by
  simp only [cnt, List.countP_cons, beq_iff_eq]
  split <;> omega

theorem deliver_other (ok : Bool) (cd : List Slot) (a : Awaiter) (x : Loader) (h : x.id ≠ a.req) : deliver ok cd a x = x := by
  have : (x.id != a.req) = true := by simpa using h
  simp only [deliver, this, if_true]

theorem deliver_keeps (ok : Bool) (cd : List Slot) (a : Awaiter) (x : Loader) :
    (deliver ok cd a x).id = x.id ∧ (deliver ok cd a x).loadPending = x.loadPending ∧ (deliver ok cd a x).chunks = x.chunks := by
  by_cases h : x.id = a.req
  · have hb : (x.id != a.req) = false := by simp [h]
    cases ok <;> simp only [deliver, hb, Bool.false_eq_true, if_false, if_true] <;> split <;> exact ⟨rfl, rfl, rfl⟩
  · rw [deliver_other ok cd a x h]; exact ⟨rfl, rfl, rfl⟩

theorem deliver_WL (ok : Bool) (cd : List Slot) (a : Awaiter) (x : Loader) (n : Int) (hn : 0 ≤ n) (hid : x.id = a.req)
    (h : WL x (n + 1)) : WL (deliver ok cd a x) n := by
  obtain ⟨h1, h2⟩ := h
  have hb : (x.id != a.req) = false := by simp [hid]
  cases hf : x.finished with
  | true => have := (h2 hf).1; omega
  | false =>
    obtain ⟨e, hne⟩ := h1 hf
    have hw : x.waitN - 1 + 1 = x.waitN := by omega
    by_cases hz : x.waitN - 1 = 0
    · have hfin : (deliver ok cd a x).finished = true ∧ (deliver ok cd a x).loadPending = x.loadPending := by
        cases ok <;> simp [deliver, hb, hz]
      refine ⟨(fun hc => by rw [hfin.1] at hc; cases hc), fun _ => ?_⟩
      rw [hfin.2]
      cases hp : x.loadPending with
      | true => simp only [hp, if_true] at e; omega
      | false => simp only [hp, Bool.false_eq_true, if_false] at e; exact ⟨by omega, rfl⟩
    · have hfin : (deliver ok cd a x).finished = false ∧ (deliver ok cd a x).loadPending = x.loadPending ∧
          (deliver ok cd a x).waitN = x.waitN - 1 := by
        cases ok <;> simp [deliver, hb, hz, hf]
      refine ⟨fun _ => ?_, (fun hc => by rw [hfin.1] at hc; cases hc)⟩
      rw [hfin.2.1, hfin.2.2]
      refine ⟨?_, hz⟩
      split at e <;> simp only [*, if_true, Bool.false_eq_true, if_false] <;> omega

theorem foldl_deliver_WL (ok : Bool) (cd : List Slot) (as : List Awaiter) (ls : List Loader) (r : Nat → Int)
    (hr : ∀ id, 0 ≤ r id) (h : ∀ x ∈ ls, WL x (r x.id + cnt x.id as)) :
    (∀ x ∈ as.foldl (fun ls a => ls.map (deliver ok cd a)) ls, WL x (r x.id)) ∧
    (∀ cid, cover cid (as.foldl (fun ls a => ls.map (deliver ok cd a)) ls) = cover cid ls) := by
  induction as generalizing ls with
  | nil =>
    refine ⟨fun x hx => ?_, fun _ => rfl⟩
    have := h x hx
    simpa [cnt] using this
  | cons a as ih =>
    simp only [List.foldl_cons]
    have h1 : ∀ x ∈ ls.map (deliver ok cd a), WL x (r x.id + cnt x.id as) := by
      intro y hy
      simp only [List.mem_map] at hy
      obtain ⟨x, hx, rfl⟩ := hy
      have hw := h x hx
      rw [cnt_cons] at hw
      by_cases hid : x.id = a.req
      · rw [(deliver_keeps ok cd a x).1]
        have e : r x.id + ((if a.req = x.id then 1 else 0) + cnt x.id as) = (r x.id + cnt x.id as) + 1 := by
          simp only [hid, if_true]; omega
        rw [e] at hw
        exact deliver_WL ok cd a x _ (by have := hr x.id; have := cnt_nonneg x.id as; omega) hid hw
      · rw [deliver_other ok cd a x hid]
        have : ¬ a.req = x.id := fun e => hid e.symm
        simpa [this] using hw
    obtain ⟨a1, a2⟩ := ih _ h1
    refine ⟨a1, fun cid => ?_⟩
    rw [a2 cid]
    exact cover_map cid _ _ (fun x _ => ⟨(deliver_keeps ok cd a x).2.1, (deliver_keeps ok cd a x).2.2⟩)


/-! ### the invariant -/

theorem getChunk_modAt_ne (f : Chunk → Chunk) (i j : Nat) (cs : List Chunk) (h : j ≠ i) :
    getChunk (modAt f i cs) j = getChunk cs j := by
  rcases getChunk_modAt f i j cs with e | ⟨e, _⟩
  · exact e
  · exact absurd e h

theorem getChunk_modAt_eq (f : Chunk → Chunk) (i : Nat) (cs : List Chunk) :
    getChunk (modAt f i cs) i = if i < cs.length then f (getChunk cs i) else noChunk := by
  induction cs generalizing i with
  | nil => simp [modAt, getChunk]
  | cons c cs ih =>
    cases i with
    | zero => simp [modAt, getChunk]
    | succ i =>
      have := ih i
      simp only [modAt, getChunk, List.getD_cons_succ, List.length_cons, Nat.add_lt_add_iff_right] at this ⊢
      exact this

structure WInv (s : St) : Prop where
  w1 : ∀ l ∈ s.loaders, WL l (awCount l.id s.chunks)
  w2 : ∀ cid, (getChunk s.chunks cid).awaiters ≠ [] → 0 < cover cid s.loaders
  w5 : ∀ cid, (getChunk s.chunks cid).detached = false → (getChunk s.chunks cid).loading = cover cid s.loaders
  pb : ∀ b ∈ s.buckets, b.cids.Nodup ∧ ∀ cid ∈ b.cids, cid < s.chunks.length ∧ (getChunk s.chunks cid).detached = false
  bkeys : (s.buckets.map (·.key)).Nodup

/-- invariant of the post-load loop: `rest` = chunks of the finishing loader not yet published -/
structure FW (fs : FinSt) (rest : List LChunk) : Prop where
  f1 : ∀ x ∈ fs.loaders, WL x (awCount x.id fs.chunks)
  f2 : ∀ cid, (getChunk fs.chunks cid).awaiters ≠ [] → 0 < cover cid fs.loaders + occ cid rest
  f5 : ∀ cid, (getChunk fs.chunks cid).detached = false → (getChunk fs.chunks cid).loading = cover cid fs.loaders + occ cid rest

theorem publish_facts (ok : Bool) (cd : List Slot) (bytes : Int) (c : Chunk) :
    (publish ok cd bytes c).awaiters = [] ∧ (publish ok cd bytes c).detached = c.detached ∧
    (c.detached = false → (publish ok cd bytes c).loading = c.loading - 1) := by
  cases hd : c.detached <;> cases ok <;> simp [publish, hd]

theorem finChunk_FW (cfg : Cfg) (ok : Bool) (data cells : List Slot) (base : Nat) (fs : FinSt) (v : LChunk)
    (rest : List LChunk) (h : FW fs (v :: rest)) : FW (finChunk cfg ok data cells base fs v) rest := by
  have hcount : ∀ id, awCount id (finChunk cfg ok data cells base fs v).chunks =
      awCount id fs.chunks - awC id (getChunk fs.chunks v.cid) := by
    intro id
    simp only [finChunk]
    rw [awCount_modAt id _ (by simp [awC, (publish_facts _ _ _ _).1])]
    simp only [awC, (publish_facts _ _ _ _).1, List.countP_nil]
    omega
  obtain ⟨a1, a2⟩ := foldl_deliver_WL ok
    (if ok = true then slice cells (fs.start - base) (fs.start + cfg.K - base) else slice data fs.start (fs.start + cfg.K))
    (getChunk fs.chunks v.cid).awaiters fs.loaders
    (fun id => awCount id (finChunk cfg ok data cells base fs v).chunks) (fun id => awCount_nonneg _ _)
    (by
      intro x hx
      have := h.f1 x hx
      rw [hcount]
      have e : cnt x.id (getChunk fs.chunks v.cid).awaiters = awC x.id (getChunk fs.chunks v.cid) := rfl
      rw [e]
      have : awCount x.id fs.chunks - awC x.id (getChunk fs.chunks v.cid) + awC x.id (getChunk fs.chunks v.cid) = awCount x.id fs.chunks := by omega
      rw [this]; assumption)
  refine ⟨?_, ?_, ?_⟩
  · intro x hx
    exact a1 x (by simpa only [finChunk] using hx)
  · intro cid hne
    have hc : cover cid (finChunk cfg ok data cells base fs v).loaders = cover cid fs.loaders := by
      simp only [finChunk]; exact a2 cid
    rw [hc]
    by_cases e : cid = v.cid
    · subst e
      exfalso
      apply hne
      simp only [finChunk]
      rw [getChunk_modAt_eq]
      split
      · exact (publish_facts _ _ _ _).1
      · rfl
    · have : (getChunk (finChunk cfg ok data cells base fs v).chunks cid) = getChunk fs.chunks cid := by
        simp only [finChunk]; exact getChunk_modAt_ne _ _ _ _ e
      rw [this] at hne
      have := h.f2 cid hne
      rw [occ_cons] at this
      have hv : ¬ v.cid = cid := fun x => e x.symm
      simp only [hv, if_false] at this
      omega
  · intro cid hatt
    have hc : cover cid (finChunk cfg ok data cells base fs v).loaders = cover cid fs.loaders := by
      simp only [finChunk]; exact a2 cid
    rw [hc]
    by_cases e : cid = v.cid
    · subst e
      simp only [finChunk] at hatt ⊢
      rw [getChunk_modAt_eq] at hatt ⊢
      split at hatt
      · rename_i hlt
        simp only [hlt, if_true]
        rw [(publish_facts _ _ _ _).2.1] at hatt
        rw [(publish_facts _ _ _ _).2.2 hatt]
        have := h.f5 v.cid hatt
        rw [occ_cons] at this
        simp only [if_true] at this
        omega
      · simp [noChunk] at hatt
    · have : (getChunk (finChunk cfg ok data cells base fs v).chunks cid) = getChunk fs.chunks cid := by
        simp only [finChunk]; exact getChunk_modAt_ne _ _ _ _ e
      rw [this] at hatt ⊢
      have := h.f5 cid hatt
      rw [occ_cons] at this
      have hv : ¬ v.cid = cid := fun x => e x.symm
      simp only [hv, if_false] at this
      omega

theorem foldl_finChunk_FW (cfg : Cfg) (ok : Bool) (data cells : List Slot) (base : Nat) (vs : List LChunk) (fs : FinSt)
    (h : FW fs vs) : FW (vs.foldl (finChunk cfg ok data cells base) fs) [] := by
  induction vs generalizing fs with
  | nil => exact h
  | cons v vs ih => simp only [List.foldl_cons]; exact ih _ (finChunk_FW cfg ok data cells base fs v vs h)


theorem ownMessage_WL (ok : Bool) (data : List Slot) (x : Loader) (n : Int) (hn : 0 ≤ n) (hp : x.loadPending = true)
    (h : WL x n) : WL (ownMessage ok data x) n := by
  obtain ⟨h1, h2⟩ := h
  cases hf : x.finished with
  | true => have := (h2 hf).2; rw [hp] at this; cases this
  | false =>
    obtain ⟨e, hne⟩ := h1 hf
    simp only [hp, if_true] at e
    by_cases hz : x.waitN - 1 = 0
    · have : (ownMessage ok data x).finished = true ∧ (ownMessage ok data x).loadPending = false := by
        simp [ownMessage, hz]
      exact ⟨(fun hc => by rw [this.1] at hc; cases hc), fun _ => ⟨by omega, this.2⟩⟩
    · have : (ownMessage ok data x).finished = false ∧ (ownMessage ok data x).loadPending = false ∧
          (ownMessage ok data x).waitN = x.waitN - 1 := by
        simp [ownMessage, hz, hf]
      refine ⟨fun _ => ?_, (fun hc => by rw [this.1] at hc; cases hc)⟩
      rw [this.2.1, this.2.2]
      exact ⟨by simp only [Bool.false_eq_true, if_false]; omega, hz⟩

theorem ownMessage_keeps (ok : Bool) (data : List Slot) (x : Loader) :
    (ownMessage ok data x).id = x.id ∧ (ownMessage ok data x).chunks = x.chunks ∧ (ownMessage ok data x).loadPending = false := by
  simp only [ownMessage]; split <;> exact ⟨rfl, rfl, rfl⟩

theorem cover_own (cid : Nat) (ok : Bool) (data : List Slot) (l0 : Loader) (ls : List Loader)
    (nd : (ls.map (·.id)).Nodup) (hl : l0 ∈ ls) (hp : l0.loadPending = true) :
    cover cid (ls.map (fun x => if x.id == l0.id then ownMessage ok data x else x)) = cover cid ls - occ cid l0.chunks := by
  induction ls with
  | nil => cases hl
  | cons x xs ih =>
    simp only [List.map_cons, List.nodup_cons, List.mem_map, not_exists, not_and] at nd
    simp only [List.map_cons, cover]
    simp only [List.mem_cons] at hl
    rcases hl with rfl | hl
    · simp only [beq_self_eq_true, if_true, (ownMessage_keeps ok data l0).2.2, (ownMessage_keeps ok data l0).2.1, hp,
        Bool.false_eq_true, if_false]
      have : cover cid (xs.map (fun x => if x.id == l0.id then ownMessage ok data x else x)) = cover cid xs := by
        apply cover_map
        intro y hy
        have : ¬ (y.id == l0.id) = true := by
          intro e; exact nd.1 y hy (by simpa using e)
        simp only [this, if_false]; exact ⟨rfl, rfl⟩
      rw [this]; omega
    · have hne : (x.id == l0.id) = false := by
        cases he : (x.id == l0.id) with
        | false => rfl
        | true => exact absurd ((by simpa using he : x.id = l0.id)).symm (nd.1 l0 hl)
      simp only [hne, Bool.false_eq_true, if_false]
      rw [ih nd.2 hl]; omega

theorem detached_modAt (f : Chunk → Chunk) (hf : ∀ c, (f c).detached = c.detached) (i j : Nat) (cs : List Chunk) :
    (getChunk (modAt f i cs) j).detached = (getChunk cs j).detached := by
  rcases getChunk_modAt f i j cs with e | ⟨_, e⟩
  · rw [e]
  · rw [e, hf]

theorem foldl_finChunk_det (cfg : Cfg) (ok : Bool) (data cells : List Slot) (base : Nat) (vs : List LChunk) (fs : FinSt) :
    (vs.foldl (finChunk cfg ok data cells base) fs).chunks.length = fs.chunks.length ∧
    ∀ j, (getChunk (vs.foldl (finChunk cfg ok data cells base) fs).chunks j).detached = (getChunk fs.chunks j).detached := by
  induction vs generalizing fs with
  | nil => exact ⟨rfl, fun _ => rfl⟩
  | cons v vs ih =>
    simp only [List.foldl_cons]
    obtain ⟨a, b⟩ := ih (finChunk cfg ok data cells base fs v)
    refine ⟨by rw [a]; simp only [finChunk, length_modAt], fun j => ?_⟩
    rw [b j]
    simp only [finChunk]
    exact detached_modAt _ (fun c => (publish_facts _ _ _ c).2.1) _ _ _


/-! ### trimming -/

theorem detach_noChunk : detach noChunk = noChunk := rfl

theorem getChunk_modAt_detach (i : Nat) (cs : List Chunk) : getChunk (modAt detach i cs) i = detach (getChunk cs i) := by
  rw [getChunk_modAt_eq]
  split
  · rfl
  · rename_i h
    rw [getChunk_ge cs i (by omega), detach_noChunk]

/-- what one pass of `removeChunksNotUsedAfterUnlocked` does to the chunk store -/
theorem RU_spec (t : Int) (skip run : Nat) (cids : List Nat) (cs : List Chunk) (hnd : cids.Nodup) :
    (removeUnusedGo t skip run cids cs).1.Sublist cids ∧
    (removeUnusedGo t skip run cids cs).2.1.length = cs.length ∧
    ∀ j, getChunk (removeUnusedGo t skip run cids cs).2.1 j = getChunk cs j ∨
      (j ∈ cids ∧ j ∉ (removeUnusedGo t skip run cids cs).1 ∧
        getChunk (removeUnusedGo t skip run cids cs).2.1 j = detach (getChunk cs j)) := by
  induction cids generalizing skip run cs with
  | nil => simp [removeUnusedGo]
  | cons i is ih =>
    have hni : i ∉ is := (List.nodup_cons.mp hnd).1
    have hnd' : is.Nodup := (List.nodup_cons.mp hnd).2
    have keepCase : ∀ (sk rn : Nat),
        (i :: (removeUnusedGo t sk rn is cs).1).Sublist (i :: is) ∧
        (removeUnusedGo t sk rn is cs).2.1.length = cs.length ∧
        ∀ j, getChunk (removeUnusedGo t sk rn is cs).2.1 j = getChunk cs j ∨
          (j ∈ i :: is ∧ j ∉ i :: (removeUnusedGo t sk rn is cs).1 ∧
            getChunk (removeUnusedGo t sk rn is cs).2.1 j = detach (getChunk cs j)) := by
      intro sk rn
      obtain ⟨a, b, c⟩ := ih sk rn cs hnd'
      refine ⟨a.cons_cons i, b, fun j => ?_⟩
      rcases c j with e | ⟨e1, e2, e3⟩
      · exact Or.inl e
      · refine Or.inr ⟨List.mem_cons_of_mem _ e1, ?_, e3⟩
        simp only [List.mem_cons, not_or]
        exact ⟨fun h => hni (h ▸ e1), e2⟩
    cases skip with
    | succ k => simpa only [removeUnusedGo] using keepCase k 0
    | zero =>
      simp only [removeUnusedGo]
      split
      · obtain ⟨a, b, c⟩ := ih 0 (run + 1) (modAt detach i cs) hnd'
        refine ⟨a.cons i, by rw [b, length_modAt], fun j => ?_⟩
        by_cases hj : j = i
        · subst hj
          right
          refine ⟨List.mem_cons_self .., fun h => hni (a.subset h), ?_⟩
          rcases c j with e | ⟨e1, _, _⟩
          · rw [e, getChunk_modAt_detach]
          · exact absurd e1 hni
        · rcases c j with e | ⟨e1, e2, e3⟩
          · left; rw [e, getChunk_modAt_ne _ _ _ _ hj]
          · right
            exact ⟨List.mem_cons_of_mem _ e1, e2, by rw [e3, getChunk_modAt_ne _ _ _ _ hj]⟩
      · exact keepCase (run - 1) 0


theorem awCount_congr (id : Nat) (cs cs' : List Chunk) (hl : cs'.length = cs.length)
    (h : ∀ j, (getChunk cs' j).awaiters = (getChunk cs j).awaiters) : awCount id cs' = awCount id cs := by
  induction cs generalizing cs' with
  | nil => cases cs' with
    | nil => rfl
    | cons _ _ => simp at hl
  | cons c cs ih =>
    cases cs' with
    | nil => simp at hl
    | cons c' cs' =>
      simp only [awCount]
      have h0 := h 0
      simp only [getChunk, List.getD_cons_zero] at h0
      rw [ih cs' (by simpa using hl) (fun j => by simpa [getChunk] using h (j + 1))]
      simp only [awC, h0]

theorem mem_putBucket_nd (b : Bucket) (bs : List Bucket) (nd : (bs.map (·.key)).Nodup) (x : Bucket)
    (h : x ∈ putBucket b bs) : x = b ∨ (x ∈ bs ∧ x.key ≠ b.key) := by
  induction bs with
  | nil => simp [putBucket] at h; exact Or.inl h
  | cons y ys ih =>
    simp only [List.map_cons, List.nodup_cons, List.mem_map, not_exists, not_and] at nd
    simp only [putBucket] at h
    split at h
    · rename_i he
      have hk : y.key = b.key := by simpa using he
      simp only [List.mem_cons] at h
      rcases h with h | h
      · exact Or.inl h
      · exact Or.inr ⟨List.mem_cons_of_mem _ h, fun e => nd.1 x h (by rw [e, hk])⟩
    · rename_i he
      have hk : y.key ≠ b.key := by simpa using he
      simp only [List.mem_cons] at h
      rcases h with h | h
      · subst h; exact Or.inr ⟨List.mem_cons_self .., hk⟩
      · rcases ih nd.2 h with h | h
        · exact Or.inl h
        · exact Or.inr ⟨List.mem_cons_of_mem _ h.1, h.2⟩

theorem keys_putBucket (b b0 : Bucket) (bs : List Bucket) (hf : findBucket b.key bs = some b0) :
    (putBucket b bs).map (·.key) = bs.map (·.key) := by
  induction bs with
  | nil => simp [findBucket] at hf
  | cons y ys ih =>
    simp only [findBucket] at hf
    simp only [putBucket]
    split at hf
    · rename_i he
      simp only [he, if_true, List.map_cons]
      rw [show y.key = b.key by simpa using he]
    · rename_i he
      simp only [he, Bool.false_eq_true, if_false, List.map_cons, ih hf]

/-- one trimming pass over bucket `b`: chunks change as `RU_spec` says, buckets become `bs'` -/
theorem trim_W (s : St) (b : Bucket) (t : Int) (bs' : List Bucket) (info' : Info) (hb : b ∈ s.buckets) (hp : PInv s) (h : WInv s)
    (hbs : ∀ b' ∈ bs', (b'.key = b.key ∧ b'.cids = (removeUnusedGo t 0 0 b.cids s.chunks).1) ∨ (b' ∈ s.buckets ∧ b'.key ≠ b.key))
    (hkeys : (bs'.map (·.key)).Nodup) :
    WInv { s with chunks := (removeUnusedGo t 0 0 b.cids s.chunks).2.1, buckets := bs', info := info' } := by
  obtain ⟨hnd, hatt⟩ := h.pb b hb
  obtain ⟨ra, rb, rc⟩ := RU_spec t 0 0 b.cids s.chunks hnd
  have haw : ∀ j, (getChunk (removeUnusedGo t 0 0 b.cids s.chunks).2.1 j).awaiters = (getChunk s.chunks j).awaiters := by
    intro j
    rcases rc j with e | ⟨_, _, e⟩
    · rw [e]
    · rw [e]; rfl
  have hsame : ∀ j, (getChunk (removeUnusedGo t 0 0 b.cids s.chunks).2.1 j).detached = false →
      getChunk (removeUnusedGo t 0 0 b.cids s.chunks).2.1 j = getChunk s.chunks j := by
    intro j hj
    rcases rc j with e | ⟨_, _, e⟩
    · exact e
    · rw [e] at hj; simp [detach] at hj
  refine ⟨?_, ?_, ?_, ?_, hkeys⟩
  · intro l hl
    show WL l (awCount l.id (removeUnusedGo t 0 0 b.cids s.chunks).2.1)
    rw [awCount_congr _ _ _ rb haw]; exact h.w1 l hl
  · intro cid hne
    simp only [] at hne
    rw [haw] at hne
    exact h.w2 cid hne
  · intro cid hd
    simp only [] at hd ⊢
    have e := hsame cid hd
    rw [e] at hd ⊢
    exact h.w5 cid hd
  · intro b' hb'
    simp only []
    rcases hbs b' hb' with ⟨_, e2⟩ | ⟨e1, e2⟩
    · rw [e2]
      refine ⟨ra.nodup hnd, fun cid hc => ?_⟩
      rcases rc cid with e | ⟨_, e, _⟩
      · rw [e, rb]; exact hatt cid (ra.subset hc)
      · exact absurd hc e
    · obtain ⟨n1, n2⟩ := h.pb b' e1
      refine ⟨n1, fun cid hc => ?_⟩
      have hk' := (hp.ci.bk (b'.key, b'.cids) (by simp only [bksOf, List.mem_map]; exact ⟨b', e1, rfl⟩) cid hc).2
      rcases rc cid with e | ⟨e, _, _⟩
      · rw [e, rb]; exact n2 cid hc
      · have hk := (hp.ci.bk (b.key, b.cids) (by simp only [bksOf, List.mem_map]; exact ⟨b, hb, rfl⟩) cid e).2
        exact absurd (hk'.symm.trans hk) e2

theorem trimChunks_W (s : St) (key : Nat) (t : Int) (hp : PInv s) (h : WInv s) : WInv (trimChunks s key t) := by
  unfold trimChunks
  split
  · exact h
  · rename_i b hf
    obtain ⟨hbm, hbk⟩ := findBucket_some _ _ _ hf
    apply trim_W s b t _ _ hbm hp h
    · intro b' hb'
      rcases mem_putBucket_nd _ _ h.bkeys _ hb' with rfl | ⟨e1, e2⟩
      · exact Or.inl ⟨rfl, rfl⟩
      · exact Or.inr ⟨e1, e2⟩
    · rw [keys_putBucket _ b _ (by simpa [hbk] using hf)]; exact h.bkeys

theorem removeBucket_W (s : St) (key : Nat) (hp : PInv s) (h : WInv s) : WInv (removeBucket s key) := by
  unfold removeBucket
  split
  · exact h
  · rename_i b hf
    obtain ⟨hbm, hbk⟩ := findBucket_some _ _ _ hf
    apply trim_W s b intMax _ _ hbm hp h
    · intro b' hb'
      simp only [List.mem_filter, bne_iff_ne, ne_eq] at hb'
      exact Or.inr ⟨hb'.1, by rw [hbk]; exact hb'.2⟩
    · exact (List.filter_sublist.map _).nodup h.bkeys


def Both (s : St) : Prop := PInv s ∧ WInv s

theorem removeBucket_B (s : St) (key : Nat) (h : Both s) : Both (removeBucket s key) :=
  ⟨removeBucket_P s key h.1, removeBucket_W s key h.1 h.2⟩

theorem resetAll_B (s : St) (h : Both s) : Both (resetAll s) := by
  have key : ∀ (ks : List Nat) (s : St), Both s → Both (ks.foldl removeBucket s) := by
    intro ks
    induction ks with
    | nil => intro s h; exact h
    | cons k ks ih => intro s h; exact ih _ (removeBucket_B s k h)
  exact key _ s h

theorem reduce_B (t : Int) (fuel : Nat) (s : St) (h : Both s) : Both (reduce t fuel s) := by
  induction fuel generalizing s with
  | zero => exact h
  | succ n ih =>
    simp only [reduce]
    split
    · exact h
    · split
      · exact removeBucket_B _ _ h
      · exact ih _ (removeBucket_B _ _ h)

theorem trimPass_B (t : Int) (s : St) (h : Both s) : Both (trimPass t s) := by
  unfold trimPass; split
  · exact reduce_B _ _ _ h
  · exact h

theorem afterUpdate_B (t : Int) (s : St) (h : Both s) : Both (afterUpdate t s) := by
  unfold afterUpdate; split
  · exact trimPass_B _ _ h
  · exact h

/-- fields the bookkeeping does not look at -/
theorem WInv_congr (s s' : St) (h : WInv s) (e1 : s'.chunks = s.chunks) (e2 : s'.loaders = s.loaders)
    (e3 : s'.buckets = s.buckets) : WInv s' := by
  refine ⟨?_, ?_, ?_, ?_, ?_⟩
  · rw [e1, e2]; exact h.w1
  · rw [e1, e2]; exact h.w2
  · rw [e1, e2]; exact h.w5
  · rw [e1, e3]; exact h.pb
  · rw [e3]; exact h.bkeys

theorem opInv_W (s : St) (secs : List Int) (now : Int) (h : WInv s) : WInv (opInv s secs now) := by
  have key : ∀ (bs : List Bucket) (cs : List Chunk) (times : List Int),
      (bs.foldl (invBucket now s.tick times) cs).length = cs.length ∧
      ∀ j, (getChunk (bs.foldl (invBucket now s.tick times) cs) j).awaiters = (getChunk cs j).awaiters ∧
           (getChunk (bs.foldl (invBucket now s.tick times) cs) j).detached = (getChunk cs j).detached ∧
           (getChunk (bs.foldl (invBucket now s.tick times) cs) j).loading = (getChunk cs j).loading := by
    have walk : ∀ (fuel : Nat) (ts : List Int) (is : List Nat) (cs : List Chunk),
        (invWalkF now s.tick fuel ts is cs).length = cs.length ∧
        ∀ j, (getChunk (invWalkF now s.tick fuel ts is cs) j).awaiters = (getChunk cs j).awaiters ∧
             (getChunk (invWalkF now s.tick fuel ts is cs) j).detached = (getChunk cs j).detached ∧
             (getChunk (invWalkF now s.tick fuel ts is cs) j).loading = (getChunk cs j).loading := by
      intro fuel
      induction fuel with
      | zero => intro ts is cs; simp [invWalkF]
      | succ n ih =>
        intro ts is cs
        cases ts with
        | nil => simp [invWalkF]
        | cons t ts =>
          cases is with
          | nil => simp [invWalkF]
          | cons i is =>
            simp only [invWalkF]
            split
            · exact ih _ _ _
            · split
              · exact ih _ _ _
              · obtain ⟨a, b⟩ := ih ts is (modAt (invalidateChunk now s.tick) i cs)
                refine ⟨by rw [a, length_modAt], fun j => ?_⟩
                obtain ⟨b1, b2, b3⟩ := b j
                rcases getChunk_modAt (invalidateChunk now s.tick) i j cs with e | ⟨_, e⟩
                · rw [b1, b2, b3, e]; exact ⟨rfl, rfl, rfl⟩
                · rw [b1, b2, b3, e]; exact ⟨rfl, rfl, rfl⟩
    intro bs
    induction bs with
    | nil => intro cs times; exact ⟨rfl, fun _ => ⟨rfl, rfl, rfl⟩⟩
    | cons b bs ih =>
      intro cs times
      simp only [List.foldl_cons]
      obtain ⟨a, c⟩ := ih (invBucket now s.tick times cs b) times
      have hb : (invBucket now s.tick times cs b).length = cs.length ∧
          ∀ j, (getChunk (invBucket now s.tick times cs b) j).awaiters = (getChunk cs j).awaiters ∧
               (getChunk (invBucket now s.tick times cs b) j).detached = (getChunk cs j).detached ∧
               (getChunk (invBucket now s.tick times cs b) j).loading = (getChunk cs j).loading := by
        unfold invBucket
        split
        · exact ⟨rfl, fun _ => ⟨rfl, rfl, rfl⟩⟩
        · exact walk _ _ _ _
      refine ⟨a.trans hb.1, fun j => ?_⟩
      obtain ⟨c1, c2, c3⟩ := c j
      obtain ⟨d1, d2, d3⟩ := hb.2 j
      exact ⟨c1.trans d1, c2.trans d2, c3.trans d3⟩
  obtain ⟨kl, kj⟩ := key s.buckets s.chunks (invStarts s.cfg secs none)
  refine ⟨?_, ?_, ?_, ?_, h.bkeys⟩
  · intro l hl
    show WL l (awCount l.id (s.buckets.foldl (invBucket now s.tick (invStarts s.cfg secs none)) s.chunks))
    rw [awCount_congr _ _ _ kl (fun j => (kj j).1)]; exact h.w1 l hl
  · intro cid hne
    simp only [opInv] at hne
    rw [(kj cid).1] at hne
    exact h.w2 cid hne
  · intro cid hd
    simp only [opInv] at hd ⊢
    rw [(kj cid).2.1] at hd
    rw [(kj cid).2.2]
    exact h.w5 cid hd
  · intro b hb
    obtain ⟨n1, n2⟩ := h.pb b hb
    refine ⟨n1, fun cid hc => ?_⟩
    simp only [opInv]
    rw [kl, (kj cid).2.1]
    exact n2 cid hc


theorem occ_nil (cid : Nat) : occ cid [] = 0 := by simp [occ]

theorem finPre_B (s : St) (l : Loader) (first : LChunk) (rest : List LChunk) (ok : Bool) (ver : Nat)
    (hl : l ∈ s.loaders) (hch : l.chunks = first :: rest) (hpnd : l.loadPending = true) (h : Both s) :
    Both (finPre s l first ok ver) := by
  obtain ⟨hp, hw⟩ := h
  have hP := finPre_P s l first rest ok ver hl hch hp
  refine ⟨hP, ?_⟩
  clear hP
  unfold finPre
  simp only []
  generalize hdata : (if ok = true then setRange l.data first.pos (stubCells s.cfg l.key ver l.id s.tick
      ((getChunk s.chunks first.cid).start / nsec) (l.chunks.length * s.cfg.K)) else l.data) = data
  generalize hcells : stubCells s.cfg l.key ver l.id s.tick ((getChunk s.chunks first.cid).start / nsec)
      (l.chunks.length * s.cfg.K) = cells
  have hF0 : FW { chunks := s.chunks, loaders := s.loaders.map (fun x => if x.id == l.id then ownMessage ok data x else x),
                  dsize := 0, start := first.pos } l.chunks := by
    refine ⟨?_, ?_, ?_⟩
    · intro y hy
      simp only [List.mem_map] at hy
      obtain ⟨x, hx, rfl⟩ := hy
      split
      · rename_i he
        have hxl : x = l := nodup_id_eq _ hp.nd x l hx hl (by simpa using he)
        rw [(ownMessage_keeps ok data x).1]
        exact ownMessage_WL ok data x _ (awCount_nonneg _ _) (by rw [hxl]; exact hpnd) (hw.w1 x hx)
      · exact hw.w1 x hx
    · intro cid hne
      simp only [] at hne ⊢
      rw [cover_own cid ok data l s.loaders hp.nd hl hpnd]
      have := hw.w2 cid hne
      omega
    · intro cid hd
      simp only [] at hd ⊢
      rw [cover_own cid ok data l s.loaders hp.nd hl hpnd]
      have := hw.w5 cid hd
      omega
  have hF := foldl_finChunk_FW s.cfg ok data cells first.pos l.chunks _ hF0
  obtain ⟨dl, dd⟩ := foldl_finChunk_det s.cfg ok data cells first.pos l.chunks
    { chunks := s.chunks, loaders := s.loaders.map (fun x => if x.id == l.id then ownMessage ok data x else x), dsize := 0, start := first.pos }
  have hpre : WInv { s with
      chunks := (l.chunks.foldl (finChunk s.cfg ok data cells first.pos)
        { chunks := s.chunks, loaders := s.loaders.map (fun x => if x.id == l.id then ownMessage ok data x else x), dsize := 0, start := first.pos }).chunks
      loaders := (l.chunks.foldl (finChunk s.cfg ok data cells first.pos)
        { chunks := s.chunks, loaders := s.loaders.map (fun x => if x.id == l.id then ownMessage ok data x else x), dsize := 0, start := first.pos }).loaders
      info := { s.info with size := s.info.size + (l.chunks.foldl (finChunk s.cfg ok data cells first.pos)
        { chunks := s.chunks, loaders := s.loaders.map (fun x => if x.id == l.id then ownMessage ok data x else x), dsize := 0, start := first.pos }).dsize } } := by
    refine ⟨hF.f1, ?_, ?_, ?_, hw.bkeys⟩
    · intro cid hne
      have := hF.f2 cid hne
      rw [occ_nil] at this
      simpa using this
    · intro cid hd
      have := hF.f5 cid hd
      rw [occ_nil] at this
      simpa using this
    · intro b hb
      obtain ⟨n1, n2⟩ := hw.pb b hb
      refine ⟨n1, fun cid hc => ?_⟩
      simp only []
      rw [dl, dd cid]
      exact n2 cid hc
  exact hpre

theorem finApply_B (s : St) (l : Loader) (first : LChunk) (rest : List LChunk) (ok : Bool) (ver : Nat) (now : Int)
    (hl : l ∈ s.loaders) (hch : l.chunks = first :: rest) (hpnd : l.loadPending = true) (h : Both s) :
    Both (finApply s l first ok ver now) := by
  rw [finApply_eq]
  exact afterUpdate_B _ _ (finPre_B s l first rest ok ver hl hch hpnd h)


/-! ### request begin (`init`) -/

/-- chunk-level bookkeeping while loader `id` (not yet in `ls0`) is being set up: `own` = its chunk list so far,
    `w` = its `waitN` so far -/
structure CW (ls0 : List Loader) (id : Nat) (cs : List Chunk) (own : List LChunk) (w : Int) : Prop where
  i1 : ∀ l ∈ ls0, WL l (awCount l.id cs)
  iw : w = awCount id cs
  i2 : ∀ cid, (getChunk cs cid).awaiters ≠ [] → 0 < cover cid ls0 + occ cid own
  i5 : ∀ cid, (getChunk cs cid).detached = false → (getChunk cs cid).loading = cover cid ls0 + occ cid own

theorem CW_same {ls0 : List Loader} {id : Nat} {cs : List Chunk} {own : List LChunk} {w : Int} (f : Chunk → Chunk)
    (hf : ∀ c, (f c).awaiters = c.awaiters ∧ (f c).loading = c.loading ∧ (f c).detached = c.detached) (i : Nat)
    (h : CW ls0 id cs own w) : CW ls0 id (modAt f i cs) own w := by
  have hg : ∀ j, (getChunk (modAt f i cs) j).awaiters = (getChunk cs j).awaiters ∧
      (getChunk (modAt f i cs) j).loading = (getChunk cs j).loading ∧
      (getChunk (modAt f i cs) j).detached = (getChunk cs j).detached := by
    intro j
    rcases getChunk_modAt f i j cs with e | ⟨_, e⟩
    · rw [e]; exact ⟨rfl, rfl, rfl⟩
    · rw [e]; exact hf _
  refine ⟨?_, ?_, ?_, ?_⟩
  · intro l hl; rw [awCount_modAt_same _ f (fun c => (hf c).1)]; exact h.i1 l hl
  · rw [awCount_modAt_same _ f (fun c => (hf c).1)]; exact h.iw
  · intro cid hne; rw [(hg cid).1] at hne; exact h.i2 cid hne
  · intro cid hd; rw [(hg cid).2.2] at hd; rw [(hg cid).2.1]; exact h.i5 cid hd

theorem occ_single (cid : Nat) (v : LChunk) : occ cid [v] = if v.cid = cid then 1 else 0 := by
  rw [occ_cons, occ_nil]; omega

theorem CW_start {ls0 : List Loader} {id : Nat} {cs : List Chunk} {own : List LChunk} {w : Int} (now : Int) (v : LChunk)
    (h : CW ls0 id cs own w) : CW ls0 id (modAt (startLoad now) v.cid cs) (own ++ [v]) w := by
  refine ⟨?_, ?_, ?_, ?_⟩
  · intro l hl; rw [awCount_modAt_same _ (startLoad now) (fun _ => rfl)]; exact h.i1 l hl
  · rw [awCount_modAt_same _ (startLoad now) (fun _ => rfl)]; exact h.iw
  · intro cid hne
    have e : (getChunk (modAt (startLoad now) v.cid cs) cid).awaiters = (getChunk cs cid).awaiters := by
      rcases getChunk_modAt (startLoad now) v.cid cid cs with e | ⟨_, e⟩
      · rw [e]
      · rw [e]; rfl
    rw [e] at hne
    have := h.i2 cid hne
    rw [occ_append]
    have := occ_nonneg cid [v]
    omega
  · intro cid hd
    rw [occ_append, occ_single]
    by_cases e : cid = v.cid
    · subst e
      rw [getChunk_modAt_eq] at hd ⊢
      split at hd
      · rename_i hlt
        simp only [hlt, if_true]
        have hd' : (getChunk cs v.cid).detached = false := hd
        have := h.i5 v.cid hd'
        simp only [startLoad]
        omega
      · simp [noChunk] at hd
    · rw [getChunk_modAt_ne _ _ _ _ e] at hd ⊢
      have := h.i5 cid hd
      have hv : ¬ v.cid = cid := fun x => e x.symm
      simp only [hv, if_false]
      omega

theorem CW_await {ls0 : List Loader} {id : Nat} {cs : List Chunk} {own : List LChunk} {w : Int} (a : Awaiter) (i : Nat)
    (hi : i < cs.length) (ha : a.req = id) (fresh : ∀ l ∈ ls0, l.id ≠ id) (hc : 0 < cover i ls0 + occ i own)
    (h : CW ls0 id cs own w) :
    CW ls0 id (modAt (fun c => { c with awaiters := c.awaiters ++ [a] }) i cs) own (w + 1) := by
  have hcnt : ∀ id', awCount id' (modAt (fun c => { c with awaiters := c.awaiters ++ [a] }) i cs) =
      awCount id' cs + (if a.req = id' then 1 else 0) := by
    intro id'
    have key : ∀ (i : Nat) (cs : List Chunk), i < cs.length →
        awCount id' (modAt (fun c => { c with awaiters := c.awaiters ++ [a] }) i cs) =
          awCount id' cs + (if a.req = id' then 1 else 0) := by
      intro i cs
      induction cs generalizing i with
      | nil => intro h; simp at h
      | cons c cs ih =>
        intro h
        cases i with
        | zero =>
          simp only [modAt, awCount, awC, List.countP_append, List.countP_cons, List.countP_nil, beq_iff_eq]
          split <;> omega
        | succ i =>
          simp only [modAt, awCount]
          rw [ih i (by simpa using h)]; omega
    exact key i cs hi
  have hg : ∀ j, j ≠ i → getChunk (modAt (fun c => { c with awaiters := c.awaiters ++ [a] }) i cs) j = getChunk cs j :=
    fun j hj => getChunk_modAt_ne _ _ _ _ hj
  have hgi : getChunk (modAt (fun c => { c with awaiters := c.awaiters ++ [a] }) i cs) i =
      { (getChunk cs i) with awaiters := (getChunk cs i).awaiters ++ [a] } := by
    rw [getChunk_modAt_eq]; simp only [hi, if_true]
  refine ⟨?_, ?_, ?_, ?_⟩
  · intro l hl
    rw [hcnt]
    have : ¬ a.req = l.id := by rw [ha]; exact fun e => fresh l hl e.symm
    simp only [this, if_false, Int.add_zero]
    exact h.i1 l hl
  · rw [hcnt, h.iw]; simp only [ha, if_true]
  · intro cid hne
    by_cases e : cid = i
    · subst e; exact hc
    · rw [hg cid e] at hne; exact h.i2 cid hne
  · intro cid hd
    by_cases e : cid = i
    · subst e
      rw [hgi] at hd ⊢
      exact h.i5 cid hd
    · rw [hg cid e] at hd ⊢; exact h.i5 cid hd

theorem occ_zero_of (cid : Nat) (vs : List LChunk) (h : ∀ v ∈ vs, v.cid ≠ cid) : occ cid vs = 0 := by
  induction vs with
  | nil => exact occ_nil cid
  | cons v vs ih =>
    rw [occ_cons, ih (fun w hw => h w (List.mem_cons_of_mem _ hw))]
    have := h v (List.mem_cons_self ..)
    simp only [this, if_false]; rfl

theorem cover_zero_of (cid : Nat) (ls : List Loader) (h : ∀ l ∈ ls, ∀ v ∈ l.chunks, v.cid ≠ cid) : cover cid ls = 0 := by
  induction ls with
  | nil => rfl
  | cons l ls ih =>
    simp only [cover]
    rw [ih (fun x hx => h x (List.mem_cons_of_mem _ hx)), occ_zero_of cid l.chunks (h l (List.mem_cons_self ..))]
    split <;> rfl

theorem CW_append {ls0 : List Loader} {id : Nat} {cs : List Chunk} {own : List LChunk} {w : Int} (x : Chunk)
    (hx : x.awaiters = [] ∧ x.loading = 0) (h0 : cover cs.length ls0 + occ cs.length own = 0)
    (h : CW ls0 id cs own w) : CW ls0 id (cs ++ [x]) own w := by
  have haw : ∀ id', awCount id' (cs ++ [x]) = awCount id' cs := by
    intro id'; rw [awCount_append]; simp [awC, hx.1]
  refine ⟨?_, ?_, ?_, ?_⟩
  · intro l hl; rw [haw]; exact h.i1 l hl
  · rw [haw]; exact h.iw
  · intro cid hne
    by_cases h1 : cid < cs.length
    · rw [getChunk_append_lt cs x cid h1] at hne; exact h.i2 cid hne
    · exfalso; apply hne
      by_cases h2 : cid = cs.length
      · subst h2; rw [getChunk_append_len]; exact hx.1
      · rw [getChunk_ge _ cid (by simp; omega)]; rfl
  · intro cid hd
    by_cases h1 : cid < cs.length
    · rw [getChunk_append_lt cs x cid h1] at hd ⊢; exact h.i5 cid hd
    · by_cases h2 : cid = cs.length
      · subst h2; rw [getChunk_append_len]; rw [hx.2]; omega
      · rw [getChunk_ge _ cid (by simp; omega)] at hd; simp [noChunk] at hd


/-- `cs'` extends `cs` and keeps the `detached` flag of every chunk -/
def DLe (cs cs' : List Chunk) : Prop :=
  cs.length ≤ cs'.length ∧ ∀ j, j < cs.length → (getChunk cs' j).detached = (getChunk cs j).detached

theorem DLe.refl (cs : List Chunk) : DLe cs cs := ⟨Nat.le_refl _, fun _ _ => rfl⟩
theorem DLe.trans {a b c : List Chunk} (h1 : DLe a b) (h2 : DLe b c) : DLe a c :=
  ⟨Nat.le_trans h1.1 h2.1, fun j hj => (h2.2 j (Nat.lt_of_lt_of_le hj h1.1)).trans (h1.2 j hj)⟩
theorem DLe_modAt (f : Chunk → Chunk) (hf : ∀ c, (f c).detached = c.detached) (i : Nat) (cs : List Chunk) : DLe cs (modAt f i cs) :=
  ⟨by rw [length_modAt]; exact Nat.le_refl _, fun j _ => detached_modAt f hf i j cs⟩
theorem DLe_append (cs : List Chunk) (x : Chunk) : DLe cs (cs ++ [x]) :=
  ⟨by simp, fun j hj => by rw [getChunk_append_lt cs x j hj]⟩

/-- ids of attached chunks, without repetition -/
def AT (cs : List Chunk) (cids : List Nat) : Prop :=
  cids.Nodup ∧ ∀ cid ∈ cids, cid < cs.length ∧ (getChunk cs cid).detached = false

theorem AT_mono {cs cs' : List Chunk} {cids : List Nat} (h : DLe cs cs') (ha : AT cs cids) : AT cs' cids :=
  ⟨ha.1, fun cid hc => ⟨Nat.lt_of_lt_of_le (ha.2 cid hc).1 h.1, by rw [h.2 cid (ha.2 cid hc).1]; exact (ha.2 cid hc).2⟩⟩

def PW (ls0 : List Loader) (cs : List Chunk) (own vs : List LChunk) : Prop :=
  ∀ v ∈ vs, v.cid < cs.length ∧ (v.wait = true → 0 < cover v.cid ls0 + occ v.cid own)

theorem PW_mono {ls0 : List Loader} {cs cs' : List Chunk} {own more vs : List LChunk} (h : DLe cs cs')
    (hp : PW ls0 cs own vs) : PW ls0 cs' (own ++ more) vs := by
  intro v hv
  obtain ⟨a, b⟩ := hp v hv
  refine ⟨Nat.lt_of_lt_of_le a h.1, fun hw => ?_⟩
  have := b hw
  rw [occ_append]
  have := occ_nonneg v.cid more
  omega

theorem PW_mono' {ls0 : List Loader} {cs cs' : List Chunk} {own vs : List LChunk} (h : DLe cs cs')
    (hp : PW ls0 cs own vs) : PW ls0 cs' own vs := by
  have := PW_mono (more := []) h hp
  simpa using this

structure IW (ls0 : List Loader) (id : Nat) (s : InitSt) : Prop where
  lid : s.l.id = id
  cw : CW ls0 id s.chunks s.l.chunks s.l.waitN

theorem awaitCopyOne_IW {ls0 : List Loader} {id : Nat} (fresh : ∀ l ∈ ls0, l.id ≠ id) (s : InitSt) (v : LChunk)
    (h : IW ls0 id s) (hv : v.cid < s.chunks.length ∧ (v.wait = true → 0 < cover v.cid ls0 + occ v.cid s.l.chunks)) :
    IW ls0 id (awaitCopyOne s v) ∧ DLe s.chunks (awaitCopyOne s v).chunks ∧ (awaitCopyOne s v).l.chunks = s.l.chunks := by
  unfold awaitCopyOne
  split
  · rename_i hw
    refine ⟨⟨h.lid, ?_⟩, ?_, rfl⟩
    · have := CW_await (ls0 := ls0) (id := id) { req := s.l.id, ls := v.ls, le := v.le, off := v.ls - v.pos } v.cid hv.1 h.lid fresh
        (hv.2 hw) h.cw
      simp only [awaitChunk]
      have e : (((s.l.waitN + 1 : Nat)) : Int) = (s.l.waitN : Int) + 1 := by omega
      rw [e]; exact this
    · simp only [awaitChunk]; apply DLe_modAt; intro c; rfl
  · unfold copyChunk
    split
    · exact ⟨h, DLe.refl _, rfl⟩
    · exact ⟨⟨h.lid, h.cw⟩, DLe.refl _, rfl⟩

theorem awaitCopy_IW {ls0 : List Loader} {id : Nat} (fresh : ∀ l ∈ ls0, l.id ≠ id) (s : InitSt)
    (h : IW ls0 id s) (hv : PW ls0 s.chunks s.l.chunks s.pend) :
    IW ls0 id (awaitCopy s) ∧ DLe s.chunks (awaitCopy s).chunks ∧ (awaitCopy s).l.chunks = s.l.chunks := by
  have key : ∀ (vs : List LChunk) (s : InitSt), IW ls0 id s → PW ls0 s.chunks s.l.chunks vs →
      IW ls0 id (vs.foldl awaitCopyOne s) ∧ DLe s.chunks (vs.foldl awaitCopyOne s).chunks ∧
      (vs.foldl awaitCopyOne s).l.chunks = s.l.chunks := by
    intro vs
    induction vs with
    | nil => intro s h _; exact ⟨h, DLe.refl _, rfl⟩
    | cons v vs ih =>
      intro s h hv
      obtain ⟨a, b, c⟩ := awaitCopyOne_IW fresh s v h (hv v (List.mem_cons_self ..))
      obtain ⟨a', b', c'⟩ := ih _ a (by rw [c]; exact PW_mono' b (fun w hw => hv w (List.mem_cons_of_mem _ hw)))
      simp only [List.foldl_cons]
      exact ⟨a', b.trans b', c'.trans c⟩
  obtain ⟨a, b, c⟩ := key s.pend s h hv
  exact ⟨⟨a.lid, a.cw⟩, b, c⟩

theorem adoptPend_IW {ls0 : List Loader} {id : Nat} (now : Int) (s : InitSt) (h : IW ls0 id s) :
    IW ls0 id (adoptPend now s) ∧ DLe s.chunks (adoptPend now s).chunks := by
  have key : ∀ (vs : List LChunk) (s : InitSt), IW ls0 id s →
      IW ls0 id (vs.foldl (adoptOne now) s) ∧ DLe s.chunks (vs.foldl (adoptOne now) s).chunks := by
    intro vs
    induction vs with
    | nil => intro s h; exact ⟨h, DLe.refl _⟩
    | cons v vs ih =>
      intro s h
      have h1 : IW ls0 id (adoptOne now s v) := ⟨h.lid, CW_start now v h.cw⟩
      have d1 : DLe s.chunks (adoptOne now s v).chunks := by
        simp only [adoptOne]; apply DLe_modAt; intro c; rfl
      obtain ⟨a, b⟩ := ih _ h1
      simp only [List.foldl_cons]
      exact ⟨a, d1.trans b⟩
  obtain ⟨a, b⟩ := key s.pend s h
  exact ⟨⟨a.lid, a.cw⟩, b⟩


theorem wait_load (c : Chunk) (force : Bool) (now stale : Int) (h : wantWait c force now stale = true) :
    wantLoad c force = true := by
  simp only [wantWait, wantLoad, Bool.or_eq_true, Bool.and_eq_true] at h ⊢
  rcases h with h | h
  · exact Or.inl (Or.inl h)
  · exact Or.inl (Or.inr h.1)

structure VW (ls0 : List Loader) (id : Nat) (s : InitSt) : Prop where
  iw : IW ls0 id s
  pw : PW ls0 s.chunks s.l.chunks s.pend
  att : AT s.chunks s.cids
  ov : ∀ v ∈ s.l.chunks, v.cid < s.chunks.length
  lv : ∀ l ∈ ls0, ∀ v ∈ l.chunks, v.cid < s.chunks.length

theorem maybeAdd_VW {ls0 : List Loader} {id : Nat} (fresh : ∀ l ∈ ls0, l.id ≠ id) (cfg : Cfg) (now : Int) (s : InitSt)
    (cid pos : Nat) (h : VW ls0 id s) (hv : cid < s.chunks.length ∧ (getChunk s.chunks cid).detached = false) :
    VW ls0 id (maybeAdd cfg now s cid pos) ∧ DLe s.chunks (maybeAdd cfg now s cid pos).chunks ∧
      (maybeAdd cfg now s cid pos).cids = s.cids := by
  unfold maybeAdd
  simp only []
  split
  · have key : ∀ s2 : InitSt, IW ls0 id s2 → DLe s.chunks s2.chunks → s2.pend = [] → s2.cids = s.cids →
        (∀ v ∈ s2.l.chunks, v.cid < s.chunks.length) →
        VW ls0 id { s2 with chunks := modAt (touch now) cid (modAt (startLoad now) cid s2.chunks),
                            l := { s2.l with chunks := s2.l.chunks ++ [mkLChunk cfg s.l (getChunk s.chunks cid) cid pos now] } } ∧
        DLe s.chunks (modAt (touch now) cid (modAt (startLoad now) cid s2.chunks)) := by
      intro s2 h2 hd hp hc hov
      have hd2 : DLe s.chunks (modAt (touch now) cid (modAt (startLoad now) cid s2.chunks)) :=
        hd.trans ((DLe_modAt (startLoad now) (fun _ => rfl) _ _).trans (DLe_modAt (touch now) (fun _ => rfl) _ _))
      refine ⟨⟨⟨h2.lid, ?_⟩, ?_, ?_, ?_, ?_⟩, hd2⟩
      · have := CW_start now (mkLChunk cfg s.l (getChunk s.chunks cid) cid pos now) h2.cw
        exact CW_same (touch now) (fun _ => ⟨rfl, rfl, rfl⟩) cid this
      · intro w hw; simp only [hp] at hw; cases hw
      · simp only [hc]; exact AT_mono hd2 h.att
      · intro w hw
        simp only [List.mem_append, List.mem_singleton] at hw
        rcases hw with hw | rfl
        · exact Nat.lt_of_lt_of_le (hov w hw) hd2.1
        · exact Nat.lt_of_lt_of_le hv.1 hd2.1
      · intro l hl w hw; exact Nat.lt_of_lt_of_le (h.lv l hl w hw) hd2.1
    split
    · obtain ⟨a, b, c⟩ := awaitCopy_IW fresh s h.iw h.pw
      obtain ⟨x, y⟩ := key _ a b rfl (by
        have : ∀ (vs : List LChunk) (s : InitSt), (vs.foldl awaitCopyOne s).cids = s.cids := by
          intro vs
          induction vs with
          | nil => intro s; rfl
          | cons v vs ih =>
            intro s
            simp only [List.foldl_cons, ih]
            unfold awaitCopyOne awaitChunk copyChunk
            split
            · rfl
            · split <;> rfl
        exact this _ _) (by rw [c]; exact h.ov)
      exact ⟨x, y, by
        have : ∀ (vs : List LChunk) (s : InitSt), (vs.foldl awaitCopyOne s).cids = s.cids := by
          intro vs
          induction vs with
          | nil => intro s; rfl
          | cons v vs ih =>
            intro s
            simp only [List.foldl_cons, ih]
            unfold awaitCopyOne awaitChunk copyChunk
            split
            · rfl
            · split <;> rfl
        exact this _ _⟩
    · obtain ⟨a, b⟩ := adoptPend_IW now s h.iw
      have hc : (adoptPend now s).cids = s.cids := by
        have : ∀ (vs : List LChunk) (s : InitSt), (vs.foldl (adoptOne now) s).cids = s.cids := by
          intro vs
          induction vs with
          | nil => intro s; rfl
          | cons v vs ih => intro s; simp only [List.foldl_cons, ih]; rfl
        exact this _ _
      obtain ⟨x, y⟩ := key _ a b rfl hc (by
        rw [(adoptPend_lchunks now s).1]
        intro w hw
        simp only [List.mem_append] at hw
        rcases hw with hw | hw
        · exact h.ov w hw
        · exact (h.pw w hw).1)
      exact ⟨x, y, hc⟩
  · rename_i hnl
    have hd : DLe s.chunks (modAt (touch now) cid s.chunks) := DLe_modAt (touch now) (fun _ => rfl) _ _
    refine ⟨⟨⟨h.iw.lid, CW_same (touch now) (fun _ => ⟨rfl, rfl, rfl⟩) cid h.iw.cw⟩, ?_, AT_mono hd h.att, ?_, ?_⟩, hd, rfl⟩
    · intro w hw
      simp only [List.mem_append, List.mem_singleton] at hw
      rcases hw with hw | rfl
      · exact PW_mono' hd h.pw w hw
      · refine ⟨by rw [length_modAt]; exact hv.1, fun hwait => ?_⟩
        simp only [mkLChunk] at hwait ⊢
        have hload := wait_load _ _ _ _ hwait
        have h5 := h.iw.cw.i5 cid hv.2
        have hne : (getChunk s.chunks cid).loading ≠ 0 := by
          intro e
          apply hnl
          simp only [loadsItself, mkLChunk, hload, e, Bool.true_and]
          decide
        have := cover_nonneg cid ls0
        have := occ_nonneg cid s.l.chunks
        omega
    · intro w hw; rw [length_modAt]; exact h.ov w hw
    · intro l hl w hw; rw [length_modAt]; exact h.lv l hl w hw


theorem nodup_insertCid (cs : List Chunk) (t : Int) (x : Nat) (l : List Nat) (hn : l.Nodup) (hx : x ∉ l) :
    (insertCid cs t x l).Nodup := by
  induction l with
  | nil => simp [insertCid]
  | cons i is ih =>
    simp only [insertCid]
    split
    · exact List.nodup_cons.mpr ⟨hx, hn⟩
    · have hn' := List.nodup_cons.mp hn
      refine List.nodup_cons.mpr ⟨?_, ih hn'.2 (fun h => hx (List.mem_cons_of_mem _ h))⟩
      intro hm
      rcases mem_insertCid _ _ _ _ _ hm with e | e
      · exact hx (e ▸ List.mem_cons_self ..)
      · exact hn'.1 e

theorem visit_VW {ls0 : List Loader} {id : Nat} (fresh : ∀ l ∈ ls0, l.id ≠ id) (cfg : Cfg) (now : Int) (s : InitSt) (p : Nat)
    (h : VW ls0 id s) : VW ls0 id (visit cfg now s p) ∧ DLe s.chunks (visit cfg now s p).chunks := by
  unfold visit
  simp only []
  split
  · rename_i cid hf
    obtain ⟨hm, _⟩ := findCid_some _ _ _ _ hf
    obtain ⟨x, y, _⟩ := maybeAdd_VW fresh cfg now s cid (p * cfg.K) h (h.att.2 cid hm)
    exact ⟨x, y⟩
  · have hd : DLe s.chunks (s.chunks ++ [newChunk s.l.key (s.l.timeStart + p * cfg.dur) cfg.dur]) := DLe_append _ _
    have h1 : VW ls0 id { s with chunks := s.chunks ++ [newChunk s.l.key (s.l.timeStart + p * cfg.dur) cfg.dur], fresh := s.fresh + 1 } := by
      refine ⟨⟨h.iw.lid, CW_append _ ⟨rfl, rfl⟩ ?_ h.iw.cw⟩, PW_mono' hd h.pw, AT_mono hd h.att, ?_, ?_⟩
      · rw [cover_zero_of _ ls0 (fun l hl v hv => Nat.ne_of_lt (h.lv l hl v hv)),
          occ_zero_of _ s.l.chunks (fun v hv => Nat.ne_of_lt (h.ov v hv))]
        rfl
      · intro v hv; simp only [List.length_append, List.length_singleton]; have := h.ov v hv; omega
      · intro l hl v hv; simp only [List.length_append, List.length_singleton]; have := h.lv l hl v hv; omega
    obtain ⟨a, b, c⟩ := maybeAdd_VW fresh cfg now _ s.chunks.length (p * cfg.K) h1
      ⟨by simp, by simp only [getChunk_append_len]; rfl⟩
    refine ⟨⟨⟨a.iw.lid, a.iw.cw⟩, a.pw, ?_, a.ov, a.lv⟩, hd.trans b⟩
    have hat := AT_mono (hd.trans b) h.att
    refine ⟨nodup_insertCid _ _ _ _ (by rw [c]; exact h.att.1) (by
      rw [c]; intro hm; exact Nat.lt_irrefl _ (h.att.2 _ hm).1), ?_⟩
    intro x hx
    rcases mem_insertCid _ _ _ _ _ hx with rfl | hx
    · have hlt : s.chunks.length < (s.chunks ++ [newChunk s.l.key (s.l.timeStart + p * cfg.dur) cfg.dur]).length := by simp
      refine ⟨Nat.lt_of_lt_of_le hlt b.1, ?_⟩
      rw [b.2 _ hlt, getChunk_append_len]; rfl
    · rw [c] at hx; exact hat.2 x hx

theorem initLoader_W {ls0 : List Loader} (cfg : Cfg) (now : Int) (cs : List Chunk) (cids : List Nat) (l : Loader) (n : Nat)
    (fresh : ∀ x ∈ ls0, x.id ≠ l.id) (hcw : CW ls0 l.id cs [] 0) (hl : l.chunks = [] ∧ l.waitN = 0)
    (hat : AT cs cids) (hlv : ∀ x ∈ ls0, ∀ v ∈ x.chunks, v.cid < cs.length) :
    CW ls0 l.id (initLoader cfg now cs cids l n).chunks (initLoader cfg now cs cids l n).l.chunks (initLoader cfg now cs cids l n).l.waitN ∧
    AT (initLoader cfg now cs cids l n).chunks (initLoader cfg now cs cids l n).cids ∧
    DLe cs (initLoader cfg now cs cids l n).chunks ∧ (initLoader cfg now cs cids l n).l.id = l.id := by
  have key : ∀ (ps : List Nat) (s : InitSt), VW ls0 l.id s →
      VW ls0 l.id (ps.foldl (visit cfg now) s) ∧ DLe s.chunks (ps.foldl (visit cfg now) s).chunks := by
    intro ps
    induction ps with
    | nil => intro s hs; exact ⟨hs, DLe.refl _⟩
    | cons p ps ih =>
      intro s hs
      obtain ⟨x, y⟩ := visit_VW fresh cfg now s p hs
      obtain ⟨x', y'⟩ := ih _ x
      exact ⟨x', y.trans y'⟩
  have h0 : VW ls0 l.id { chunks := cs, cids := cids, l := l, pend := [], fresh := 0 } := by
    refine ⟨⟨rfl, ?_⟩, (by intro v hv; cases hv), hat, (by intro v hv; simp [hl.1] at hv), hlv⟩
    simp only [hl.1, hl.2]; exact hcw
  obtain ⟨h1, d1⟩ := key (List.range n) _ h0
  obtain ⟨a, b, _⟩ := awaitCopy_IW fresh _ h1.iw h1.pw
  refine ⟨a.cw, ?_, d1.trans b, a.lid⟩
  unfold initLoader
  have hc : ∀ s : InitSt, (awaitCopy s).cids = s.cids := by
    intro s
    have : ∀ (vs : List LChunk) (s : InitSt), (vs.foldl awaitCopyOne s).cids = s.cids := by
      intro vs
      induction vs with
      | nil => intro s; rfl
      | cons v vs ih =>
        intro s
        simp only [List.foldl_cons, ih]
        unfold awaitCopyOne awaitChunk copyChunk
        split
        · rfl
        · split <;> rfl
    exact this _ _
  rw [hc]; exact AT_mono b h1.att


theorem awCount_zero_of (id : Nat) (cs : List Chunk) (h : ∀ j, ∀ a ∈ (getChunk cs j).awaiters, a.req ≠ id) :
    awCount id cs = 0 := by
  induction cs with
  | nil => rfl
  | cons c cs ih =>
    simp only [awCount]
    rw [ih (fun j a ha => h (j + 1) a (by simpa [getChunk] using ha))]
    have h0 := h 0
    simp only [getChunk, List.getD_cons_zero] at h0
    have : c.awaiters.countP (fun a => a.req == id) = 0 := by
      rw [List.countP_eq_zero]
      intro a ha
      simpa using h0 a ha
    simp [awC, this]

theorem findBucket_none (key : Nat) (bs : List Bucket) (h : findBucket key bs = none) : ∀ b ∈ bs, b.key ≠ key := by
  induction bs with
  | nil => intro b hb; cases hb
  | cons x xs ih =>
    simp only [findBucket] at h
    split at h
    · cases h
    · rename_i he
      intro b hb
      simp only [List.mem_cons] at hb
      rcases hb with rfl | hb
      · simpa using he
      · exact ih h b hb

theorem runLoader_facts (l : Loader) :
    (runLoader l).id = l.id ∧ (runLoader l).chunks = l.chunks ∧
    (runLoader l).loadPending = (if l.chunks.isEmpty then l.loadPending else true) ∧
    (runLoader l).waitN = (if l.chunks.isEmpty then l.waitN else l.waitN + 1) ∧
    (runLoader l).finished = (if (if l.chunks.isEmpty then l.waitN else l.waitN + 1) == 0 then true else l.finished) := by
  unfold runLoader
  simp only []
  cases l.chunks.isEmpty <;> simp only [Bool.false_eq_true, if_false, if_true] <;> split <;> simp_all

theorem runLoader_W (l : Loader) (n : Int) (hn : 0 ≤ n) (hw : (l.waitN : Int) = n) (hp : l.loadPending = false)
    (hf : l.finished = false) :
    WL (runLoader l) (n) ∧ (runLoader l).id = l.id ∧ (runLoader l).chunks = l.chunks ∧
      (runLoader l).loadPending = !l.chunks.isEmpty := by
  obtain ⟨f1, f2, f3, f4, f5⟩ := runLoader_facts l
  refine ⟨?_, f1, f2, ?_⟩
  · unfold WL
    rw [f3, f4, f5]
    cases he : l.chunks.isEmpty with
    | true =>
      simp only [if_true, hp, hf, Bool.false_eq_true, if_false]
      by_cases hz : l.waitN = 0
      · simp only [hz, beq_self_eq_true, if_true]
        exact ⟨(fun hc => by cases hc), fun _ => ⟨by omega, trivial⟩⟩
      · have : (l.waitN == 0) = false := by simpa using hz
        simp only [this, Bool.false_eq_true, if_false]
        exact ⟨fun _ => ⟨by omega, hz⟩, (fun hc => by cases hc)⟩
    | false =>
      have : (l.waitN + 1 == 0) = false := by simp
      simp only [Bool.false_eq_true, if_false, this, hf, if_true]
      exact ⟨fun _ => ⟨by omega, by omega⟩, (fun hc => by cases hc)⟩
  · rw [f3]; cases l.chunks.isEmpty <;> simp [hp]


def Fl (a b : InitSt) : Prop := b.l.loadPending = a.l.loadPending ∧ b.l.finished = a.l.finished

theorem Fl.trans {a b c : InitSt} (h1 : Fl a b) (h2 : Fl b c) : Fl a c := ⟨h2.1.trans h1.1, h2.2.trans h1.2⟩

theorem foldl_Fl {α} (f : InitSt → α → InitSt) (hf : ∀ s a, Fl s (f s a)) (l : List α) (s : InitSt) : Fl s (l.foldl f s) := by
  induction l generalizing s with
  | nil => exact ⟨rfl, rfl⟩
  | cons a l ih => simp only [List.foldl_cons]; exact (hf s a).trans (ih _)

theorem awaitCopyOne_Fl (s : InitSt) (v : LChunk) : Fl s (awaitCopyOne s v) := by
  unfold awaitCopyOne awaitChunk copyChunk
  split
  · exact ⟨rfl, rfl⟩
  · split <;> exact ⟨rfl, rfl⟩

theorem awaitCopy_Fl (s : InitSt) : Fl s (awaitCopy s) := foldl_Fl _ awaitCopyOne_Fl s.pend s

theorem adoptPend_Fl (now : Int) (s : InitSt) : Fl s (adoptPend now s) :=
  foldl_Fl (adoptOne now) (fun _ _ => ⟨rfl, rfl⟩) s.pend s

theorem maybeAdd_Fl (cfg : Cfg) (now : Int) (s : InitSt) (cid pos : Nat) : Fl s (maybeAdd cfg now s cid pos) := by
  unfold maybeAdd
  simp only []
  split
  · split
    · exact awaitCopy_Fl s
    · exact adoptPend_Fl now s
  · exact ⟨rfl, rfl⟩

theorem visit_Fl (cfg : Cfg) (now : Int) (s : InitSt) (p : Nat) : Fl s (visit cfg now s p) := by
  unfold visit
  simp only []
  split
  · exact maybeAdd_Fl ..
  · exact maybeAdd_Fl cfg now _ _ _

theorem initLoader_Fl (cfg : Cfg) (now : Int) (cs : List Chunk) (cids : List Nat) (l : Loader) (n : Nat) :
    (initLoader cfg now cs cids l n).l.loadPending = l.loadPending ∧ (initLoader cfg now cs cids l n).l.finished = l.finished := by
  unfold initLoader
  exact (foldl_Fl _ (visit_Fl cfg now) (List.range n) _).trans (awaitCopy_Fl _)

theorem getPre_W (s : St) (key : Nat) (play now : Int) (l0 : Loader) (n : Nat)
    (fresh : ∀ l ∈ s.loaders, l.id ≠ l0.id)
    (e3 : l0.chunks = [] ∧ l0.waitN = 0 ∧ l0.loadPending = false ∧ l0.finished = false)
    (hp : PInv s) (hw : WInv s) : WInv (getPre s key play now l0 n) := by
  -- no awaiter names the fresh id
  have hz : awCount l0.id s.chunks = 0 := by
    apply awCount_zero_of
    intro j a ha he
    obtain ⟨⟨g, hg, e⟩, _⟩ := hp.ci.aw j a ha
    simp only [List.mem_map] at hg
    obtain ⟨l, hl, rfl⟩ := hg
    exact fresh l hl (e.trans he)
  have hcw : CW s.loaders l0.id s.chunks [] 0 :=
    ⟨hw.w1, hz.symm, fun cid hne => by rw [occ_nil]; have := hw.w2 cid hne; omega,
      fun cid hd => by rw [occ_nil]; have := hw.w5 cid hd; omega⟩
  have hlv : ∀ x ∈ s.loaders, ∀ v ∈ x.chunks, v.cid < s.chunks.length := by
    intro x hx v hv
    exact (hp.ci.lc (sig x, x.chunks) (by simp only [ldsOf, List.mem_map]; exact ⟨x, hx, rfl⟩) v hv).1
  -- what the new loader looks like after `init` and `run`
  have fin : ∀ (cids : List Nat) (bs' : List Bucket) (info' : Info) (bad' : Bool), AT s.chunks cids →
      (∀ b' ∈ bs', (b'.cids = (initLoader s.cfg now s.chunks cids l0 n).cids) ∨ b' ∈ s.buckets) →
      (bs'.map (·.key)).Nodup →
      WInv { s with chunks := (initLoader s.cfg now s.chunks cids l0 n).chunks, buckets := bs',
                    loaders := s.loaders ++ [runLoader (initLoader s.cfg now s.chunks cids l0 n).l], info := info', bad := bad' } := by
    intro cids bs' info' bad' hat hbs hkeys
    obtain ⟨cw, at', dle, hid⟩ := initLoader_W s.cfg now s.chunks cids l0 n fresh hcw ⟨e3.1, e3.2.1⟩ hat hlv
    have hpf : (initLoader s.cfg now s.chunks cids l0 n).l.loadPending = false ∧
        (initLoader s.cfg now s.chunks cids l0 n).l.finished = false := by
      have := initLoader_Fl s.cfg now s.chunks cids l0 n
      exact ⟨this.1.trans e3.2.2.1, this.2.trans e3.2.2.2⟩
    obtain ⟨r1, r2, r3, r4⟩ := runLoader_W (initLoader s.cfg now s.chunks cids l0 n).l _ (awCount_nonneg l0.id _) cw.iw hpf.1 hpf.2
    have hcov : ∀ cid, cover cid (s.loaders ++ [runLoader (initLoader s.cfg now s.chunks cids l0 n).l]) =
        cover cid s.loaders + occ cid (initLoader s.cfg now s.chunks cids l0 n).l.chunks := by
      intro cid
      rw [cover_append, r3, r4]
      cases he : (initLoader s.cfg now s.chunks cids l0 n).l.chunks with
      | nil => simp [occ_nil]
      | cons v vs => simp
    refine ⟨?_, ?_, ?_, ?_, hkeys⟩
    · intro l hl
      simp only [List.mem_append, List.mem_singleton] at hl
      rcases hl with hl | rfl
      · exact cw.i1 l hl
      · rw [r2, hid]; exact r1
    · intro cid hne; rw [hcov]; exact cw.i2 cid hne
    · intro cid hd; rw [hcov]; exact cw.i5 cid hd
    · intro b' hb'
      rcases hbs b' hb' with e | e
      · rw [e]; exact at'
      · exact AT_mono dle (hw.pb b' e)
  unfold getPre
  cases hfb : findBucket key s.buckets with
  | none =>
    simp only [if_true]
    apply fin [] _ _ _ ⟨List.nodup_nil, fun _ h => by cases h⟩
    · intro b' hb'
      simp only [List.mem_append, List.mem_singleton] at hb'
      rcases hb' with hb' | rfl
      · exact Or.inr hb'
      · exact Or.inl rfl
    · simp only [List.map_append, List.map_cons, List.map_nil]
      rw [List.nodup_append]
      refine ⟨hw.bkeys, by simp, ?_⟩
      intro a ha b hb
      simp only [List.mem_map] at ha
      obtain ⟨x, hx, rfl⟩ := ha
      simp only [List.mem_singleton] at hb
      subst hb
      exact findBucket_none _ _ hfb x hx
  | some bk =>
    simp only [Bool.false_eq_true, if_false]
    obtain ⟨hbm, hbk⟩ := findBucket_some _ _ _ hfb
    apply fin bk.cids _ _ _ (hw.pb bk hbm)
    · intro b' hb'
      rcases mem_putBucket _ _ _ hb' with rfl | hb'
      · exact Or.inl rfl
      · exact Or.inr hb'
    · rw [keys_putBucket _ bk _ (by simpa [hbk] using hfb)]; exact hw.bkeys


/-! ### the trace -/

theorem opGet_B (s : St) (id key : Nat) (play : Int) (force : Bool) (f t now : Int) (wf : WF s.cfg)
    (fresh : ∀ l ∈ s.loaders, l.id ≠ id) (h : Both s) : Both (opGet s id key play force f t now).1 := by
  rw [opGet_eq]
  split
  · exact h
  · split
    · exact h
    · rw [getCore_fst]
      apply afterUpdate_B
      exact ⟨getPre_P s key play now _ _ wf fresh rfl rfl (OkData_replicate _ _ _ _) h.1,
        getPre_W s key play now _ _ fresh ⟨rfl, rfl, rfl, rfl⟩ h.1 h.2⟩

theorem opFin_B (s s' : St) (id : Nat) (ok : Bool) (ver : Nat) (now : Int) (h : Both s)
    (hs : opFin s id ok ver now = some s') : Both s' := by
  unfold opFin at hs
  split at hs
  · cases hs
  · rename_i l hf
    split at hs
    · cases hs
    · rename_i hpn
      split at hs
      · cases hs
      · rename_i first rest hch
        injection hs with hs
        subst hs
        exact finApply_B s l first rest ok ver now (findLoader_some _ _ _ hf).1 hch (by simpa using hpn) h

theorem apply_B (s : St) (op : Op) (wf : WF s.cfg) (hf : opFresh s op) (h : Both s) : Both (apply s op) := by
  cases op with
  | get id key play force f t now => exact opGet_B _ _ _ _ _ _ _ _ wf hf h
  | fin id ok ver now =>
    simp only [apply]
    cases hfin : opFin s id ok ver now with
    | none => exact h
    | some s' => exact opFin_B _ _ _ _ _ _ h hfin
  | inv secs now => exact ⟨opInv_P _ _ _ h.1, opInv_W _ _ _ h.2⟩
  | trimChunks key t now => exact afterUpdate_B _ _ ⟨trimChunks_P _ _ _ h.1, trimChunks_W _ _ _ h.1 h.2⟩
  | rmBucket key now => exact afterUpdate_B _ _ (removeBucket_B _ _ h)
  | reset now => exact afterUpdate_B _ _ (resetAll_B _ h)
  | limits m so now =>
    simp only [apply, opLimits]
    split
    · exact h
    · exact trimPass_B _ _ ⟨⟨h.1.ci, h.1.pl, h.1.pg, h.1.nd⟩, WInv_congr _ _ h.2 rfl rfl rfl⟩
  | shutdown now =>
    exact reduce_B _ _ _ ⟨⟨h.1.ci, h.1.pl, h.1.pg, h.1.nd⟩, WInv_congr _ _ h.2 rfl rfl rfl⟩

theorem step_B (s : St) (op : Op) (wf : WF s.cfg) (hf : opFresh s op) (h : Both s) : Both (step s op) := by
  have h0 : Both { s with tick := s.tick + 1 } := ⟨⟨h.1.ci, h.1.pl, h.1.pg, h.1.nd⟩, WInv_congr _ _ h.2 rfl rfl rfl⟩
  have hf0 : opFresh { s with tick := s.tick + 1 } op := by cases op <;> exact hf
  have := apply_B { s with tick := s.tick + 1 } op wf hf0 h0
  exact ⟨⟨this.1.ci, this.1.pl, this.1.pg, this.1.nd⟩, WInv_congr _ _ this.2 rfl rfl rfl⟩

theorem run_B (ops : List Op) (s : St) (wf : WF s.cfg) (hf : FreshIds s ops) (h : Both s) : Both (run s ops) := by
  induction ops generalizing s with
  | nil => exact h
  | cons op ops ih => exact ih (step s op) (by rw [step_cfg]; exact wf) hf.2 (step_B s op wf hf.1 h)

theorem Both_init (cfg : Cfg) : Both (init cfg) := by
  refine ⟨PInv_init cfg, ?_, ?_, ?_, ?_, ?_⟩
  · intro l hl; simp [init] at hl
  · intro cid hne; simp [init, getChunk, noChunk] at hne
  · intro cid hd; simp [init, getChunk, noChunk] at hd
  · intro b hb; simp [init] at hb
  · simp [init]

theorem cover_pos (cid : Nat) (ls : List Loader) (h : 0 < cover cid ls) :
    ∃ l ∈ ls, l.loadPending = true ∧ ∃ v ∈ l.chunks, v.cid = cid := by
  induction ls with
  | nil => simp [cover] at h
  | cons l ls ih =>
    simp only [cover] at h
    by_cases hp : l.loadPending = true ∧ 0 < occ cid l.chunks
    · refine ⟨l, List.mem_cons_self .., hp.1, ?_⟩
      have := hp.2
      simp only [occ] at this
      have : 0 < l.chunks.countP (fun v => v.cid == cid) := by omega
      obtain ⟨v, hv, e⟩ := List.countP_pos_iff.mp this
      exact ⟨v, hv, by simpa using e⟩
    · have : 0 < cover cid ls := by
        have := occ_nonneg cid l.chunks
        split at h
        · rename_i hpp
          have : ¬ 0 < occ cid l.chunks := fun x => hp ⟨hpp, x⟩
          omega
        · omega
      obtain ⟨x, hx, r⟩ := ih this
      exact ⟨x, List.mem_cons_of_mem _ hx, r⟩

theorem cover_zero_idle (cid : Nat) (ls : List Loader) (h : ∀ l ∈ ls, l.loadPending = false) : cover cid ls = 0 := by
  induction ls with
  | nil => rfl
  | cons l ls ih =>
    simp only [cover, h l (List.mem_cons_self ..), Bool.false_eq_true, if_false]
    rw [ih (fun x hx => h x (List.mem_cons_of_mem _ hx))]; rfl

/-- nobody waits once no load is in flight -/
theorem idle_all_finished (s : St) (h : WInv s) (hidle : ∀ l ∈ s.loaders, l.loadPending = false) :
    ∀ l ∈ s.loaders, l.finished = true := by
  intro l hl
  have hno : ∀ j, (getChunk s.chunks j).awaiters = [] := by
    intro j
    cases he : (getChunk s.chunks j).awaiters with
    | nil => rfl
    | cons a as =>
      have := h.w2 j (by rw [he]; simp)
      rw [cover_zero_idle j s.loaders hidle] at this
      omega
  have hz : awCount l.id s.chunks = 0 := awCount_zero_of _ _ (fun j a ha => by rw [hno j] at ha; cases ha)
  cases hf : l.finished with
  | true => rfl
  | false =>
    obtain ⟨e, hne⟩ := (h.w1 l hl).1 hf
    rw [hz, hidle l hl] at e
    simp only [Bool.false_eq_true, if_false] at e
    omega

end SH.TsCache.Wait
