/-
  SH.Lemmas.C21Order — C21, second round, target 2: the relational treatment of Go map order is EXACT.

  The real loops range over the Go map in an unspecified order.  `ttlRemoved` / `collect` are those loops run over an
  enumeration `order` of the keys.  The driver does not know the enumeration; it checks the observed outcome with the
  executable predicates `legalRemoved` / `legalCount` (part of `legalCands`).  Here:
    sound     every outcome the loop can produce from some enumeration is accepted,
    complete  every accepted outcome is produced by some enumeration.
-/
import SH.Lemmas.C21Base

namespace SH.C21
open SH.Chunked hiding St
open SH.MapCache

/-! ## RemoveByTTL -/

/-- `expiredTTLLocked` of the entry stored for `k` -/
def expKey (s : St) (now : Nat) (k : Bytes) : Bool :=
  match find s.cache k with
  | some e => expired e.ts now s.maxTTL
  | none => false

/-- how many map entries the range loop of RemoveByTTL looks at before `visitedCount >= maxCount` -/
def ttlK (maxCount : Int) : Nat := if maxCount ≤ 0 then 0 else maxCount.toNat

/-- the real loop of RemoveByTTL over the enumeration `order`: the expired ones among the first `maxCount` keys, in order -/
def ttlRemoved (s : St) (maxCount : Int) (now : Nat) (order : List Bytes) : List Bytes :=
  (order.take (ttlK maxCount)).filter (expKey s now)

theorem nodupKeys_iff (l : List Bytes) : nodupKeys l = true ↔ l.Nodup := by
  induction l with
  | nil => simp [nodupKeys]
  | cons k ks ih => simp [nodupKeys, ih]

theorem allPresent_iff (c : Cache) (ks : List Bytes) : allPresent c ks = true ↔ ∀ k ∈ ks, k ∈ keys c := by
  simp only [allPresent, List.all_eq_true]
  constructor
  · intro h k hk
    have := h k hk
    cases hf : find c k with
    | none => rw [hf] at this; simp at this
    | some e => exact List.mem_map.mpr ⟨(k, e), find_some_mem hf, rfl⟩
  · intro h k hk
    cases hf : find c k with
    | none => exact absurd (h k hk) (find_none_iff.mp hf)
    | some e => rfl

theorem expired_count (s : St) (now : Nat) (hn : (keys s.cache).Nodup) :
    ((keys s.cache).filter (expKey s now)).length = (s.cache.filter (fun p => expired p.2.ts now s.maxTTL)).length := by
  have h1 : (keys s.cache).filter (expKey s now) = (s.cache.filter (fun p => expKey s now p.1)).map (·.1) := by
    simp only [keys, List.filter_map]; rfl
  have h2 : s.cache.filter (fun p => expKey s now p.1) = s.cache.filter (fun p => expired p.2.ts now s.maxTTL) := by
    apply List.filter_congr
    intro p hp
    simp only [expKey, mem_find_of_nodup hn (show (p.1, p.2) ∈ s.cache from hp)]
  rw [h1, h2, List.length_map]

theorem legalRemoved_iff (s : St) (maxCount : Int) (now : Nat) (removed : List Bytes) :
    legalRemoved s maxCount now removed = true ↔
      ((∀ k ∈ removed, k ∈ keys s.cache) ∧ removed.Nodup ∧ (∀ k ∈ removed, expKey s now k = true) ∧
        removed.length ≤ min (ttlK maxCount) s.cache.length ∧
        min (ttlK maxCount) s.cache.length - removed.length
          ≤ s.cache.length - (s.cache.filter (fun p => expired p.2.ts now s.maxTTL)).length) := by
  have hk : (if maxCount ≤ 0 then 0 else min maxCount.toNat s.cache.length) = min (ttlK maxCount) s.cache.length := by
    unfold ttlK; split <;> simp
  simp only [legalRemoved, hk, Bool.and_eq_true, allPresent_iff, nodupKeys_iff, List.all_eq_true, decide_eq_true_eq]
  constructor
  · rintro ⟨⟨⟨⟨h1, h2⟩, h3⟩, h4⟩, h5⟩
    refine ⟨h1, h2, fun k hk => ?_, h4, h5⟩
    have := h3 k hk
    unfold expKey
    cases hf : find s.cache k with
    | none => rw [hf] at this; simp at this
    | some e => rw [hf] at this; simpa using this
  · rintro ⟨h1, h2, h3, h4, h5⟩
    refine ⟨⟨⟨⟨h1, h2⟩, fun k hk => ?_⟩, h4⟩, h5⟩
    have := h3 k hk
    unfold expKey at this
    cases hf : find s.cache k with
    | none => rw [hf] at this; simp at this
    | some e => rw [hf] at this; simpa using this

/-- SOUND: whatever enumeration of the map the runtime picks, the outcome of the RemoveByTTL loop is accepted -/
theorem legalRemoved_sound (s : St) (maxCount : Int) (now : Nat) (order : List Bytes) (hn : (keys s.cache).Nodup)
    (hp : order.Perm (keys s.cache)) : legalRemoved s maxCount now (ttlRemoved s maxCount now order) = true := by
  rw [legalRemoved_iff]
  have hon : order.Nodup := hp.nodup_iff.mpr hn
  have hlen : order.length = s.cache.length := by rw [hp.length_eq]; simp [keys]
  have hsub : (ttlRemoved s maxCount now order).Sublist order :=
    List.Sublist.trans List.filter_sublist (List.take_sublist _ _)
  refine ⟨fun k hk => hp.mem_iff.mp (hsub.subset hk), hsub.nodup hon, fun k hk => (List.mem_filter.mp hk).2, ?_, ?_⟩
  · have := List.length_filter_le (expKey s now) (order.take (ttlK maxCount))
    simp only [ttlRemoved]; rw [List.length_take, hlen] at this; exact this
  · -- the visited keys split into the expired ones (removed) and not expired ones, which are among the map's not expired keys
    have hsplit := (List.filter_append_perm (expKey s now) (order.take (ttlK maxCount))).length_eq
    rw [List.length_append, List.length_take, hlen] at hsplit
    have hne : ((order.take (ttlK maxCount)).filter (fun x => !expKey s now x)).length
        ≤ (order.filter (fun x => !expKey s now x)).length :=
      (List.Sublist.filter _ (List.take_sublist _ _)).length_le
    have hall := (List.filter_append_perm (expKey s now) order).length_eq
    rw [List.length_append, hlen] at hall
    have hexp : (order.filter (expKey s now)).length = (s.cache.filter (fun p => expired p.2.ts now s.maxTTL)).length := by
      rw [(hp.filter _).length_eq]; exact expired_count s now hn
    simp only [ttlRemoved]
    omega

/-- COMPLETE: every accepted outcome is the outcome of the loop for some enumeration of the map -/
theorem legalRemoved_complete (s : St) (maxCount : Int) (now : Nat) (removed : List Bytes) (hn : (keys s.cache).Nodup)
    (h : legalRemoved s maxCount now removed = true) :
    ∃ order, order.Perm (keys s.cache) ∧ ttlRemoved s maxCount now order = removed := by
  rw [legalRemoved_iff] at h
  obtain ⟨h1, h2, h3, h4, h5⟩ := h
  let nonexp := (keys s.cache).filter (fun x => !expKey s now x)
  let fill := nonexp.take (min (ttlK maxCount) s.cache.length - removed.length)
  let rest := (keys s.cache).filter (fun x => !(removed ++ fill).contains x)
  have hfill_sub : fill.Sublist (keys s.cache) := List.Sublist.trans (List.take_sublist _ _) List.filter_sublist
  have hfill_ne : ∀ k ∈ fill, expKey s now k = false := by
    intro k hk
    have := (List.mem_filter.mp ((List.take_sublist _ _).subset hk)).2
    simpa using this
  have hklen : (keys s.cache).length = s.cache.length := by simp [keys]
  have hnonexp_len : nonexp.length = s.cache.length - (s.cache.filter (fun p => expired p.2.ts now s.maxTTL)).length := by
    have hall := (List.filter_append_perm (expKey s now) (keys s.cache)).length_eq
    rw [List.length_append, expired_count s now hn, hklen] at hall
    show ((keys s.cache).filter (fun x => !expKey s now x)).length = _
    omega
  have hfill_len : fill.length = min (ttlK maxCount) s.cache.length - removed.length := by
    show (nonexp.take _).length = _
    rw [List.length_take]; omega
  have hrf_nodup : (removed ++ fill).Nodup := by
    refine List.nodup_append.mpr ⟨h2, hfill_sub.nodup hn, ?_⟩
    intro a ha b hb hab; subst hab
    have := h3 a ha; rw [hfill_ne a hb] at this; cases this
  have horder_nodup : ((removed ++ fill) ++ rest).Nodup := by
    refine List.nodup_append.mpr ⟨hrf_nodup, List.Sublist.nodup List.filter_sublist hn, ?_⟩
    intro a ha b hb hab; subst hab
    have := (List.mem_filter.mp hb).2
    simp only [Bool.not_eq_true', List.contains_eq_mem, decide_eq_false_iff_not] at this
    exact this ha
  have hperm : ((removed ++ fill) ++ rest).Perm (keys s.cache) := by
    refine (List.perm_ext_iff_of_nodup horder_nodup hn).mpr ?_
    intro a
    constructor
    · intro ha
      rcases List.mem_append.mp ha with ha | ha
      · rcases List.mem_append.mp ha with ha | ha
        · exact h1 a ha
        · exact hfill_sub.subset ha
      · exact (List.mem_filter.mp ha).1
    · intro ha
      by_cases hc : a ∈ removed ++ fill
      · exact List.mem_append_left _ hc
      · exact List.mem_append_right _ (List.mem_filter.mpr ⟨ha, by simpa using hc⟩)
  refine ⟨(removed ++ fill) ++ rest, hperm, ?_⟩
  have hrf_len : (removed ++ fill).length = min (ttlK maxCount) s.cache.length := by
    rw [List.length_append, hfill_len]; omega
  have htake : ((removed ++ fill) ++ rest).take (ttlK maxCount) = removed ++ fill := by
    by_cases hc : ttlK maxCount ≤ s.cache.length
    · rw [List.take_append_of_le_length (by rw [hrf_len]; omega)]
      exact List.take_of_length_le (by rw [hrf_len]; omega)
    · have hrest : rest = [] := by
        have := hperm.length_eq
        rw [List.length_append, hrf_len, hklen] at this
        have : rest.length = 0 := by omega
        exact List.length_eq_zero_iff.mp this
      rw [hrest, List.append_nil]
      exact List.take_of_length_le (by rw [hrf_len]; omega)
  simp only [ttlRemoved, htake, List.filter_append]
  have e1 : removed.filter (expKey s now) = removed := List.filter_eq_self.mpr h3
  have e2 : fill.filter (expKey s now) = [] := List.filter_eq_nil_iff.mpr (fun k hk => by simp [hfill_ne k hk])
  rw [e1, e2, List.append_nil]


/-- the model's RemoveByTTL only depends on the expired keys it met: running it over the visited keys or over the observed
    `removed` list (what the driver does) is the same -/
theorem removeVisited_filter (now : Nat) (s : St) (l : List Bytes) (hl : l.Nodup) :
    removeVisited now s l = removeVisited now s (l.filter (expKey s now)) := by
  induction l generalizing s with
  | nil => rfl
  | cons k l ih =>
    have hl' : l.Nodup := (List.nodup_cons.mp hl).2
    have hk : k ∉ l := (List.nodup_cons.mp hl).1
    cases hf : find s.cache k with
    | none =>
      have : expKey s now k = false := by simp [expKey, hf]
      simp only [List.filter_cons, this, Bool.false_eq_true, if_false, removeVisited, hf]
      exact ih s hl'
    | some e =>
      by_cases he : expired e.ts now s.maxTTL = true
      · have : expKey s now k = true := by simp [expKey, hf, he]
        simp only [List.filter_cons, this, if_true, removeVisited, hf, he]
        rw [ih _ hl']
        congr 1
        apply List.filter_congr
        intro x hx
        have hxk : x ≠ k := fun h => hk (h ▸ hx)
        simp only [expKey, removeItem, find_erase, hxk, if_false]
      · have : expKey s now k = false := by simp [expKey, hf, he]
        simp only [List.filter_cons, this, Bool.false_eq_true, if_false, removeVisited, hf, he]
        exact ih s hl'

theorem removeByTTL_observed (s : St) (maxCount : Int) (now : Nat) (order : List Bytes) (hn : order.Nodup) :
    removeByTTL s now (order.take (ttlK maxCount)) = removeByTTL s now (ttlRemoved s maxCount now order) :=
  removeVisited_filter now s _ ((List.take_sublist _ _).nodup hn)

/-! ## AddValues: the candidate collection loop in closed form -/

theorem foldl_collStep_stop (rs : Int) (l : List Bytes) (c : Coll) (h : c.stop = true) : l.foldl (collStep rs) c = c := by
  induction l with
  | nil => rfl
  | cons k ks ih => simp only [List.foldl_cons, collStep, h, if_true]; exact ih

/-- after the running size has reached `rs` with `m` items, the loop goes on until it holds 2·m items -/
theorem foldl_collStep_reached (rs : Int) (m : Nat) (l : List Bytes) (c : Coll) (hs : c.stop = false) (hf : c.found ≥ rs)
    (hc : c.count = m) (h1 : m ≤ c.items.length) (h2 : c.items.length < 2 * m) :
    (l.foldl (collStep rs) c).items = c.items ++ l.take (2 * m - c.items.length) := by
  induction l generalizing c with
  | nil => simp
  | cons k ks ih =>
    have h0 := elementSize_nonneg k
    have hnl : ¬ (c.found + elementSize k < rs) := by omega
    have hnw : ¬ (c.found < rs) := by omega
    simp only [List.foldl_cons]
    have hstep : collStep rs c k = (⟨c.items ++ [k], c.found + elementSize k, m, decide ((c.items ++ [k]).length ≥ 2 * m)⟩ : Coll) := by
      simp only [collStep, hs, Bool.false_eq_true, if_false, hnl, hnw, hc]
    rw [hstep]
    by_cases hstop : (c.items ++ [k]).length ≥ 2 * m
    · rw [foldl_collStep_stop rs ks _ (by simp only [decide_eq_true_eq]; exact hstop)]
      have : 2 * m - c.items.length = 1 := by simp at hstop; omega
      simp [this]
    · rw [ih _ (by simp only [decide_eq_false_iff_not]; exact hstop) (by simp only; omega) rfl (by simp; omega) (by simpa using hstop)]
      have : 2 * m - c.items.length = (2 * m - (c.items ++ [k]).length) + 1 := by simp at hstop ⊢; omega
      rw [this]; simp

theorem reach_gt (rs : Int) (l : List Bytes) (acc : Int) (i m : Nat) (h : reach rs l acc i = some m) : i < m := by
  induction l generalizing acc i with
  | nil => simp [reach] at h
  | cons k ks ih =>
    simp only [reach] at h
    split at h
    · cases h; omega
    · have := ih _ _ h; omega

/-- before the running size reaches `rs` -/
theorem foldl_collStep_before (rs : Int) (l : List Bytes) (c : Coll) (hs : c.stop = false) (hf : c.found < rs) :
    (l.foldl (collStep rs) c).items = c.items ++
      (match reach rs l c.found c.items.length with
       | none => l
       | some m => l.take (2 * m - c.items.length)) := by
  induction l generalizing c with
  | nil => simp [reach]
  | cons k ks ih =>
    simp only [List.foldl_cons, reach]
    by_cases hr : c.found + elementSize k ≥ rs
    · have hnl : ¬ (c.found + elementSize k < rs) := by omega
      have hstep : collStep rs c k = (⟨c.items ++ [k], c.found + elementSize k, (c.items ++ [k]).length, false⟩ : Coll) := by
        simp only [collStep, hs, Bool.false_eq_true, if_false, hnl, hf, if_true]
        congr 1
        simp
      rw [hstep, foldl_collStep_reached rs (c.items.length + 1) ks _ rfl (by simp only; omega) (by simp) (by simp) (by simp <;> omega)]
      simp only [hr, if_true]
      have : 2 * (c.items.length + 1) - c.items.length = (2 * (c.items.length + 1) - (c.items ++ [k]).length) + 1 := by
        simp; omega
      rw [this]; simp
    · have hlt : c.found + elementSize k < rs := by omega
      have hstep : collStep rs c k = (⟨c.items ++ [k], c.found + elementSize k, c.count, c.stop⟩ : Coll) := by
        simp only [collStep, hs, Bool.false_eq_true, if_false, hlt, if_true]
      rw [hstep, ih ⟨c.items ++ [k], c.found + elementSize k, c.count, c.stop⟩ hs hlt]
      simp only [hr, if_false, List.length_append, List.length_cons, List.length_nil]
      cases hm : reach rs ks (c.found + elementSize k) (c.items.length + 1) with
      | none => simp
      | some m =>
        have := reach_gt _ _ _ _ _ hm
        have e : 2 * m - c.items.length = (2 * m - (c.items.length + 1)) + 1 := by omega
        simp only [Nat.zero_add]
        rw [e]; simp

/-- CLOSED FORM of the collection loop of AddValues over the enumeration `order`:
    for rs ≤ 0 it takes one key; otherwise with m = the number of keys needed to reach `rs` it takes 2·m keys
    (all keys when `rs` is never reached) -/
theorem collect_eq (rs : Int) (order : List Bytes) :
    collect rs order =
      if rs ≤ 0 then order.take 1
      else match reach rs order 0 0 with
        | none => order
        | some m => order.take (2 * m) := by
  unfold collect
  by_cases h : rs ≤ 0
  · simp only [h, if_true]
    cases order with
    | nil => rfl
    | cons k ks =>
      have h0 := elementSize_nonneg k
      have hstep : collStep rs {} k = (⟨[k], elementSize k, 0, true⟩ : Coll) := by
        have h1 : ¬ ((0 : Int) + elementSize k < rs) := by omega
        have h2 : ¬ ((0 : Int) < rs) := by omega
        simp [collStep, h1, h2]; omega
      simp only [List.foldl_cons, hstep]
      rw [foldl_collStep_stop rs ks _ rfl]; simp
  · simp only [h, if_false]
    have := foldl_collStep_before rs order {} rfl (by simp; omega)
    simpa using this


/-! ## `legalCount` is complete: every accepted candidate set is collected for some enumeration of the map -/

/-- a duplicate-free selection of keys can be put in front of an enumeration of the map -/
theorem extend_perm (front ks : List Bytes) (hf : front.Nodup) (hk : ks.Nodup) (hsub : ∀ k ∈ front, k ∈ ks) :
    (front ++ ks.filter (fun x => !front.contains x)).Perm ks := by
  have hnd : (front ++ ks.filter (fun x => !front.contains x)).Nodup := by
    refine List.nodup_append.mpr ⟨hf, List.Sublist.nodup List.filter_sublist hk, ?_⟩
    intro a ha b hb hab; subst hab
    have := (List.mem_filter.mp hb).2
    simp only [Bool.not_eq_true', List.contains_eq_mem, decide_eq_false_iff_not] at this
    exact this ha
  refine (List.perm_ext_iff_of_nodup hnd hk).mpr (fun a => ⟨?_, ?_⟩)
  · intro ha
    rcases List.mem_append.mp ha with ha | ha
    · exact hsub a ha
    · exact (List.mem_filter.mp ha).1
  · intro ha
    by_cases hc : a ∈ front
    · exact List.mem_append_left _ hc
    · exact List.mem_append_right _ (List.mem_filter.mpr ⟨ha, by simpa using hc⟩)

theorem szSum_nonneg (l : List Bytes) : 0 ≤ szSum l := by
  induction l with
  | nil => simp [szSum]
  | cons k ks ih => have := elementSize_nonneg k; simp only [szSum, List.map_cons, List.sum_cons] at ih ⊢; omega

theorem szSum_cons (k : Bytes) (l : List Bytes) : szSum (k :: l) = elementSize k + szSum l := by simp [szSum]

theorem szSum_perm {a b : List Bytes} (h : a.Perm b) : szSum a = szSum b := by
  induction h with
  | nil => rfl
  | cons x _ ih => simp only [szSum_cons, ih]
  | swap x y l => simp only [szSum_cons]; omega
  | trans _ _ ih1 ih2 => exact ih1.trans ih2

/-- `reach` in terms of prefix sums: the (m−1)-prefix stays below `rs`, the m-prefix reaches it -/
theorem reach_eq_some (rs : Int) (l : List Bytes) (acc : Int) (i m : Nat) (hm : 1 ≤ m) (hml : m ≤ l.length)
    (h1 : acc + szSum (l.take (m - 1)) < rs) (h2 : acc + szSum (l.take m) ≥ rs) : reach rs l acc i = some (i + m) := by
  induction l generalizing acc i m with
  | nil => simp at hml; omega
  | cons k ks ih =>
    simp only [reach]
    by_cases hm1 : m = 1
    · subst hm1
      simp only [List.take_succ_cons, List.take_zero, szSum_cons] at h2
      have : szSum ([] : List Bytes) = 0 := rfl
      rw [this] at h2
      simp [show acc + elementSize k ≥ rs by omega]
    · have hm2 : m = (m - 1) + 1 := by omega
      have hlt : ¬ (acc + elementSize k ≥ rs) := by
        have : (k :: ks).take (m - 1) = k :: ks.take (m - 2) := by
          rw [show m - 1 = (m - 2) + 1 by omega, List.take_succ_cons]
        rw [this, szSum_cons] at h1
        have := szSum_nonneg (ks.take (m - 2))
        omega
      simp only [hlt, if_false]
      have := ih (acc + elementSize k) (i + 1) (m - 1) (by omega) (by simp at hml; omega)
        (by
          have e : (k :: ks).take (m - 1) = k :: ks.take (m - 1 - 1) := by
            rw [show m - 1 = (m - 1 - 1) + 1 by omega, List.take_succ_cons]; simp
          rw [e, szSum_cons] at h1; omega)
        (by
          have e : (k :: ks).take m = k :: ks.take (m - 1) := by
            conv => lhs; rw [hm2, List.take_succ_cons]
          rw [e, szSum_cons] at h2; omega)
      rw [this]; congr 1; omega

theorem reach_append (rs : Int) (l r : List Bytes) (acc : Int) (i m : Nat) (h : reach rs l acc i = some m) :
    reach rs (l ++ r) acc i = some m := by
  induction l generalizing acc i with
  | nil => simp [reach] at h
  | cons k ks ih =>
    simp only [List.cons_append, reach] at h ⊢
    split
    · rename_i hc; simp only [hc, if_true] at h; exact h
    · rename_i hc; simp only [hc, if_false] at h; exact ih _ _ h

/-- a window of m consecutive keys (in any fixed arrangement `a`) that reaches `rs` while the m−1 first keys of the window
    do not: exists as soon as the first m−1 keys stay below and the last m keys reach `rs` -/
theorem exists_window (rs : Int) (a : List Bytes) (m : Nat) (hm : 1 ≤ m) (hma : m ≤ a.length)
    (h1 : szSum (a.take (m - 1)) < rs) (h2 : rs ≤ szSum (a.drop (a.length - m))) :
    ∃ j, j + m ≤ a.length ∧ szSum ((a.drop j).take (m - 1)) < rs ∧ rs ≤ szSum ((a.drop j).take m) := by
  have key : ∀ u, u + m ≤ a.length → rs ≤ szSum ((a.drop u).take m) →
      ∃ j, j ≤ u ∧ rs ≤ szSum ((a.drop j).take m) ∧ (j = 0 ∨ szSum ((a.drop (j - 1)).take m) < rs) := by
    intro u
    induction u with
    | zero => intro _ h; exact ⟨0, Nat.le_refl _, h, Or.inl rfl⟩
    | succ u ih =>
      intro hu h
      by_cases hc : rs ≤ szSum ((a.drop u).take m)
      · obtain ⟨j, hj, hj1, hj2⟩ := ih (by omega) hc
        exact ⟨j, by omega, hj1, hj2⟩
      · exact ⟨u + 1, Nat.le_refl _, h, Or.inr (by simpa using hc)⟩
  have hlast : rs ≤ szSum ((a.drop (a.length - m)).take m) := by
    rw [List.take_of_length_le (by simp; omega)]; exact h2
  obtain ⟨j, hj, hj1, hj2⟩ := key (a.length - m) (by omega) hlast
  refine ⟨j, by omega, ?_, hj1⟩
  rcases hj2 with rfl | hj2
  · simpa using h1
  · have hj0 : j ≠ 0 := by
      intro h0; subst h0; simp at hj1 hj2; omega
    have hlt : j - 1 < a.length := by omega
    have e : a.drop (j - 1) = a[j - 1] :: a.drop j := by
      rw [List.drop_eq_getElem_cons hlt]; congr 2; omega
    have e2 : (a[j - 1] :: a.drop j).take m = a[j - 1] :: (a.drop j).take (m - 1) := by
      conv => lhs; rw [show m = (m - 1) + 1 by omega, List.take_succ_cons]
    rw [e, e2, szSum_cons] at hj2
    have := elementSize_nonneg a[j - 1]
    omega

theorem sortBySize_perm (l : List Bytes) : (sortBySize l).Perm l := List.mergeSort_perm l sizeLe

/-- COMPLETE: every candidate set `legalCount` accepts is what the collection loop of AddValues collects for some
    enumeration of the map -/
theorem legalCount_complete (rs : Int) (ks cands : List Bytes) (hk : ks.Nodup) (hc : cands.Nodup)
    (hsub : ∀ k ∈ cands, k ∈ ks) (h : legalCount rs ks cands = true) :
    ∃ order, order.Perm ks ∧ (collect rs order).Perm cands := by
  have hap := sortBySize_perm cands
  have hlen : (sortBySize cands).length = cands.length := hap.length_eq
  simp only [legalCount] at h
  by_cases hn : cands.length = ks.length
  · -- the whole map was collected: enumerate it by ascending size
    simp only [hn, if_true] at h
    have hall : cands.Perm ks := by
      have hp := extend_perm cands ks hc hk hsub
      have := hp.length_eq
      rw [List.length_append, hn] at this
      have hnil : ks.filter (fun x => !cands.contains x) = [] := List.length_eq_zero_iff.mp (by omega)
      rw [hnil, List.append_nil] at hp; exact hp
    refine ⟨sortBySize cands, hap.trans hall, ?_⟩
    rw [collect_eq]
    by_cases hr : rs ≤ 0
    · simp only [hr, if_true] at h ⊢
      cases ha : sortBySize cands with
      | nil => rw [ha] at hap; simpa using hap
      | cons x xs =>
        rw [ha] at h
        have h0 := elementSize_nonneg x
        simp only [reach, show (0 : Int) + elementSize x ≥ rs by omega, if_true, decide_eq_true_eq] at h
        have : xs = [] := by
          have := hlen; rw [ha, hn] at this; simp at this
          exact List.length_eq_zero_iff.mp (by omega)
        subst this
        rw [ha] at hap
        simpa using hap
    · simp only [hr, if_false] at h ⊢
      cases hm : reach rs (sortBySize cands) 0 0 with
      | none => simpa using hap
      | some m =>
        rw [hm] at h
        simp only [decide_eq_true_eq] at h
        show (List.take (2 * m) (sortBySize cands)).Perm cands
        rw [List.take_of_length_le (by rw [hlen, hn]; exact h)]; exact hap
  · simp only [hn, if_false] at h
    by_cases hr : rs ≤ 0
    · -- one candidate
      simp only [hr, if_true, decide_eq_true_eq] at h
      refine ⟨cands ++ ks.filter (fun x => !cands.contains x), extend_perm cands ks hc hk hsub, ?_⟩
      rw [collect_eq]; simp only [hr, if_true]
      rw [List.take_append_of_le_length (by omega), List.take_of_length_le (by omega)]
    · simp only [hr, if_false, Bool.and_eq_true, decide_eq_true_eq] at h
      obtain ⟨⟨heven, hpos⟩, hS, hT⟩ := h
      -- rotate the size-sorted candidates to a window that reaches `rs` exactly with its m-th key
      have hm1 : 1 ≤ cands.length / 2 := by omega
      obtain ⟨j, hj, hw1, hw2⟩ := exists_window rs (sortBySize cands) (cands.length / 2) hm1 (by rw [hlen]; omega)
        hS (by rw [hlen]; exact hT)
      let front := (sortBySize cands).drop j ++ (sortBySize cands).take j
      have hfp : front.Perm cands := by
        have : front.Perm ((sortBySize cands).take j ++ (sortBySize cands).drop j) := List.perm_append_comm
        rw [List.take_append_drop] at this
        exact this.trans hap
      have hfl : front.length = cands.length := hfp.length_eq
      have hdl : ((sortBySize cands).drop j).length ≥ cands.length / 2 := by simp; omega
      have hreach : reach rs front 0 0 = some (cands.length / 2) := by
        have := reach_eq_some rs front 0 0 (cands.length / 2) hm1 (by rw [hfl]; omega)
          (by
            show 0 + szSum (((sortBySize cands).drop j ++ (sortBySize cands).take j).take (cands.length / 2 - 1)) < rs
            rw [List.take_append_of_le_length (by omega)]; omega)
          (by
            show 0 + szSum (((sortBySize cands).drop j ++ (sortBySize cands).take j).take (cands.length / 2)) ≥ rs
            rw [List.take_append_of_le_length (by omega)]; omega)
        simpa using this
      have hfn : front.Nodup := hfp.nodup_iff.mpr hc
      refine ⟨front ++ ks.filter (fun x => !front.contains x),
        extend_perm front ks hfn hk (fun k hkf => hsub k (hfp.mem_iff.mp hkf)), ?_⟩
      rw [collect_eq]; simp only [hr, if_false]
      rw [reach_append rs front _ 0 0 _ hreach]
      simp only
      rw [List.take_append_of_le_length (by rw [hfl]; omega), List.take_of_length_le (by rw [hfl]; omega)]
      exact hfp


/-! ## `legalCount` is sound: whatever the enumeration, the collected set is accepted -/

def SizeSorted (a : List Bytes) : Prop := a.Pairwise (fun x y => elementSize x ≤ elementSize y)

theorem sortBySize_sorted (l : List Bytes) : SizeSorted (sortBySize l) := by
  have := List.pairwise_mergeSort (le := sizeLe)
    (by intro a b c h1 h2; simp only [sizeLe, decide_eq_true_eq] at *; omega)
    (by intro a b; simp only [sizeLe, Bool.or_eq_true, decide_eq_true_eq]; omega) l
  exact this.imp (by intro x y h; simpa [sizeLe] using h)

theorem szSum_append (a b : List Bytes) : szSum (a ++ b) = szSum a + szSum b := by
  simp [szSum, List.sum_append]

/-- the i smallest keys weigh no more than any i distinct keys -/
theorem sorted_prefix_min (a : List Bytes) (ha : SizeSorted a) (b : List Bytes) (hb : b.Nodup) (hsub : ∀ x ∈ b, x ∈ a) :
    szSum (a.take b.length) ≤ szSum b := by
  induction a generalizing b with
  | nil =>
    cases b with
    | nil => simp
    | cons y b' => exact absurd (hsub y (by simp)) (by simp)
  | cons x a' ih =>
    have hx := (List.pairwise_cons.mp ha).1
    have ha' := (List.pairwise_cons.mp ha).2
    by_cases hxb : x ∈ b
    · have hperm := List.perm_cons_erase hxb
      have hnd := hb.erase x
      have hs : ∀ z ∈ b.erase x, z ∈ a' := by
        intro z hz
        have := (hb.mem_erase_iff).mp hz
        rcases List.mem_cons.mp (hsub z this.2) with h | h
        · exact absurd h this.1
        · exact h
      have := ih ha' (b.erase x) hnd hs
      rw [List.length_erase_of_mem hxb] at this
      have hbl : b.length = (b.length - 1) + 1 := by
        have := List.length_pos_of_mem hxb; omega
      rw [szSum_perm hperm, szSum_cons, hbl, List.take_succ_cons, szSum_cons]
      omega
    · cases b with
      | nil => simp [szSum]
      | cons y b' =>
        have hy : y ∈ a' := by
          rcases List.mem_cons.mp (hsub y (by simp)) with h | h
          · subst h; exact absurd (by simp) hxb
          · exact h
        have hs : ∀ z ∈ b', z ∈ a' := by
          intro z hz
          rcases List.mem_cons.mp (hsub z (List.mem_cons_of_mem _ hz)) with h | h
          · subst h; exact absurd (List.mem_cons_of_mem _ hz) hxb
          · exact h
        have := ih ha' b' (List.nodup_cons.mp hb).2 hs
        have hxy := hx y hy
        simp only [List.length_cons, List.take_succ_cons, szSum_cons]
        omega

/-- the i largest keys weigh at least as much as any i distinct keys -/
theorem sorted_suffix_max (a : List Bytes) (ha : SizeSorted a) (han : a.Nodup) (b : List Bytes) (hb : b.Nodup)
    (hsub : ∀ x ∈ b, x ∈ a) : szSum b ≤ szSum (a.drop (a.length - b.length)) := by
  -- complement: a ~ b ++ c, the |c| smallest weigh at most c
  have hp := extend_perm b a hb han hsub
  let c := a.filter (fun x => !b.contains x)
  have hcn : c.Nodup := List.Sublist.nodup List.filter_sublist han
  have hcs : ∀ x ∈ c, x ∈ a := fun x hx => (List.mem_filter.mp hx).1
  have hmin := sorted_prefix_min a ha c hcn hcs
  have hlen : b.length + c.length = a.length := by
    have := hp.length_eq; rw [List.length_append] at this; exact this
  have htot : szSum a = szSum b + szSum c := by rw [← szSum_perm hp, szSum_append]
  have hsplit : szSum a = szSum (a.take c.length) + szSum (a.drop c.length) := by
    rw [← szSum_append, List.take_append_drop]
  have : a.length - b.length = c.length := by omega
  rw [this]; omega

theorem reach_none_iff (rs : Int) (l : List Bytes) (acc : Int) (i : Nat) (hacc : acc < rs) :
    reach rs l acc i = none ↔ acc + szSum l < rs := by
  induction l generalizing acc i with
  | nil => simp [reach, szSum]; exact hacc
  | cons k ks ih =>
    have h0 := szSum_nonneg ks
    simp only [reach, szSum_cons]
    split
    · simp; omega
    · rw [ih _ _ (by omega)]; omega

/-- what `reach … = some m` says about prefix sums -/
theorem reach_some_spec (rs : Int) (l : List Bytes) (acc : Int) (i m : Nat) (hacc : acc < rs)
    (h : reach rs l acc i = some m) :
    i < m ∧ m - i ≤ l.length ∧ acc + szSum (l.take (m - i - 1)) < rs ∧ rs ≤ acc + szSum (l.take (m - i)) := by
  induction l generalizing acc i with
  | nil => simp [reach] at h
  | cons k ks ih =>
    simp only [reach] at h
    split at h
    · rename_i hc
      cases h
      have e0 : szSum ([] : List Bytes) = 0 := rfl
      have e1 : i + 1 - i = 1 := by omega
      simp only [e1, Nat.sub_self, List.take_zero, List.take_succ_cons, szSum_cons, e0, List.length_cons]
      exact ⟨by omega, by omega, by omega, by omega⟩
    · rename_i hc
      obtain ⟨h1, h2, h3, h4⟩ := ih _ _ (by omega) h
      have e1 : m - i = (m - (i + 1)) + 1 := by omega
      have e2 : m - (i + 1) + 1 - 1 = (m - (i + 1) - 1) + 1 := by omega
      rw [e1, e2]
      simp only [List.take_succ_cons, szSum_cons, List.length_cons]
      exact ⟨by omega, by omega, by omega, by omega⟩

theorem szSum_take_mono (l : List Bytes) (i j : Nat) (h : i ≤ j) : szSum (l.take i) ≤ szSum (l.take j) := by
  have e : l.take j = l.take i ++ (l.drop i).take (j - i) := by
    have : j = i + (j - i) := by omega
    conv => lhs; rw [this, List.take_add]
  rw [e, szSum_append]
  have := szSum_nonneg ((l.drop i).take (j - i))
  omega

theorem take_subset_take (l : List Bytes) (i j : Nat) (h : i ≤ j) : ∀ x ∈ l.take i, x ∈ l.take j := by
  intro x hx
  have : l.take i = (l.take j).take i := by rw [List.take_take, Nat.min_eq_left h]
  rw [this] at hx
  exact (List.take_sublist _ _).subset hx

/-- SOUND: whatever enumeration of the map the runtime picks, the set collected by the loop of AddValues is accepted -/
theorem legalCount_sound (rs : Int) (ks order : List Bytes) (hk : ks.Nodup) (hp : order.Perm ks) :
    legalCount rs ks (collect rs order) = true := by
  have hon : order.Nodup := hp.nodup_iff.mpr hk
  have hol : order.length = ks.length := hp.length_eq
  rw [collect_eq]
  by_cases hr : rs ≤ 0
  · simp only [hr, if_true]
    cases order with
    | nil =>
      have : ks = [] := List.length_eq_zero_iff.mp (by simpa using hol.symm)
      subst this
      simp [legalCount, sortBySize, reach]
    | cons x xs =>
      have h0 := elementSize_nonneg x
      simp only [List.take_succ_cons, List.take_zero, legalCount, List.length_singleton, sortBySize,
        List.mergeSort_singleton, reach, show (0 : Int) + elementSize x ≥ rs by omega, if_true, hr]
      split <;> simp
  · simp only [hr, if_false]
    have hpos : (0 : Int) < rs := by omega
    cases hm : reach rs order 0 0 with
    | none =>
      have htot : szSum order < rs := by simpa using (reach_none_iff rs order 0 0 hpos).mp hm
      have hnone : reach rs (sortBySize order) 0 0 = none := by
        apply (reach_none_iff rs _ 0 0 hpos).mpr
        rw [szSum_perm (sortBySize_perm order)]; simpa using htot
      simp only [legalCount, hol, if_true, hnone]
    | some m =>
      obtain ⟨hm0, hml, hlt, hge⟩ := reach_some_spec rs order 0 0 m hpos hm
      simp only [Nat.sub_zero, Int.zero_add] at hm0 hml hlt hge
      simp only
      have hap := sortBySize_perm (order.take (2 * m))
      have has := sortBySize_sorted (order.take (2 * m))
      have hcn : (order.take (2 * m)).Nodup := (List.take_sublist _ _).nodup hon
      have han : (sortBySize (order.take (2 * m))).Nodup := hap.nodup_iff.mpr hcn
      by_cases hall : order.length ≤ 2 * m
      · -- everything was collected
        have hC : order.take (2 * m) = order := List.take_of_length_le hall
        simp only [legalCount, hC, hol, if_true]
        rw [hC] at hap has
        cases hm' : reach rs (sortBySize order) 0 0 with
        | none => rfl
        | some m' =>
          obtain ⟨hm0', hml', hlt', hge'⟩ := reach_some_spec rs _ 0 0 m' hpos hm'
          simp only [Nat.sub_zero, Int.zero_add] at hm0' hml' hlt' hge'
          simp only [hr, if_false, decide_eq_true_eq]
          -- m ≤ m': the m' smallest keys weigh no more than the first m' keys of `order`
          have hmm : m ≤ m' := by
            by_cases hc : m ≤ m'
            · exact hc
            · exfalso
              have hlen : (sortBySize order).length = order.length := hap.length_eq
              have hbl : (order.take m').length = m' := by rw [List.length_take]; omega
              have hmin := sorted_prefix_min (sortBySize order) has (order.take m') ((List.take_sublist _ _).nodup hon)
                (fun x hx => hap.mem_iff.mpr ((List.take_sublist _ _).subset hx))
              rw [hbl] at hmin
              have := szSum_take_mono order m' (m - 1) (by omega)
              omega
          omega
      · -- the loop stopped after 2·m keys
        have hlt2 : 2 * m < order.length := by omega
        have hCl : (order.take (2 * m)).length = 2 * m := by rw [List.length_take]; omega
        have hal : (sortBySize (order.take (2 * m))).length = 2 * m := by rw [hap.length_eq, hCl]
        have hne : ¬ (2 * m = ks.length) := by omega
        simp only [legalCount, hCl, hne, if_false, hr, Bool.and_eq_true, decide_eq_true_eq]
        have hd : 2 * m / 2 = m := by omega
        rw [hd]
        refine ⟨⟨by omega, by omega⟩, ?_, ?_⟩
        · have hbl : (order.take (m - 1)).length = m - 1 := by rw [List.length_take]; omega
          have hmin := sorted_prefix_min _ has (order.take (m - 1)) ((List.take_sublist _ _).nodup hon)
            (fun x hx => hap.mem_iff.mpr (take_subset_take order (m - 1) (2 * m) (by omega) x hx))
          rw [hbl] at hmin
          omega
        · have hbl : (order.take m).length = m := by rw [List.length_take]; omega
          have hmax := sorted_suffix_max _ has han (order.take m) ((List.take_sublist _ _).nodup hon)
            (fun x hx => hap.mem_iff.mpr (take_subset_take order m (2 * m) (by omega) x hx))
          rw [hbl, hal] at hmax
          omega

theorem sorted_perm_eq (l1 l2 : List Int) (h1 : l1.Pairwise (· ≤ ·)) (h2 : l2.Pairwise (· ≤ ·)) (hp : l1.Perm l2) : l1 = l2 := by
  induction l1 generalizing l2 with
  | nil => exact (List.perm_nil.mp hp.symm).symm ▸ rfl
  | cons x l1' ih =>
    cases l2 with
    | nil => exact absurd (hp.length_eq) (by simp)
    | cons y l2' =>
      have hx := List.pairwise_cons.mp h1
      have hy := List.pairwise_cons.mp h2
      have hxy : x = y := by
        have hy_mem : y ∈ x :: l1' := hp.mem_iff.mpr (by simp)
        have hx_mem : x ∈ y :: l2' := hp.mem_iff.mp (by simp)
        have a1 : x ≤ y := by
          rcases List.mem_cons.mp hy_mem with h | h
          · omega
          · exact hx.1 y h
        have a2 : y ≤ x := by
          rcases List.mem_cons.mp hx_mem with h | h
          · omega
          · exact hy.1 x h
        omega
      subst hxy
      rw [ih l2' hx.2 hy.2 (List.Perm.cons_inv hp)]

theorem sizes_sortBySize_perm {c1 c2 : List Bytes} (h : c1.Perm c2) :
    (sortBySize c1).map elementSize = (sortBySize c2).map elementSize := by
  apply sorted_perm_eq
  · exact (List.pairwise_map).mpr (sortBySize_sorted c1)
  · exact (List.pairwise_map).mpr (sortBySize_sorted c2)
  · exact ((sortBySize_perm c1).trans (h.trans (sortBySize_perm c2).symm)).map _

theorem reach_congr (rs : Int) (l1 l2 : List Bytes) (acc : Int) (i : Nat) (h : l1.map elementSize = l2.map elementSize) :
    reach rs l1 acc i = reach rs l2 acc i := by
  induction l1 generalizing l2 acc i with
  | nil =>
    cases l2 with
    | nil => rfl
    | cons y l2' => simp at h
  | cons x l1' ih =>
    cases l2 with
    | nil => simp at h
    | cons y l2' =>
      simp only [List.map_cons, List.cons.injEq] at h
      simp only [reach, h.1, ih l2' _ _ h.2]

theorem szSum_take_congr (l1 l2 : List Bytes) (i : Nat) (h : l1.map elementSize = l2.map elementSize) :
    szSum (l1.take i) = szSum (l2.take i) := by
  simp only [szSum, List.map_take, h]

theorem szSum_drop_congr (l1 l2 : List Bytes) (i : Nat) (h : l1.map elementSize = l2.map elementSize) :
    szSum (l1.drop i) = szSum (l2.drop i) := by
  simp only [szSum, List.map_drop, h]

/-- `legalCount` looks at the candidates only through their number and their sizes: it does not depend on the order in
    which they are listed (the real code sorts them by access time after collecting them) -/
theorem legalCount_perm (rs : Int) (ks : List Bytes) {c1 c2 : List Bytes} (h : c1.Perm c2) :
    legalCount rs ks c1 = legalCount rs ks c2 := by
  have hs := sizes_sortBySize_perm h
  have hl := h.length_eq
  simp only [legalCount, hl, reach_congr rs _ _ 0 0 hs, szSum_take_congr _ _ _ hs, szSum_drop_congr _ _ _ hs]

/-- EXACT: for a map with keys `ks`, a duplicate-free list `cands` of keys is accepted by `legalCount` iff it is (a
    rearrangement of) what the collection loop of AddValues collects for some enumeration of the map.  (The sort by access
    time that follows is checked separately by `sortedCands`.) -/
theorem legalCount_exact (rs : Int) (ks cands : List Bytes) (hk : ks.Nodup) (hc : cands.Nodup) (hsub : ∀ k ∈ cands, k ∈ ks) :
    legalCount rs ks cands = true ↔ ∃ order, order.Perm ks ∧ (collect rs order).Perm cands := by
  constructor
  · exact legalCount_complete rs ks cands hk hc hsub
  · rintro ⟨order, hp, hcp⟩
    rw [← legalCount_perm rs ks hcp]
    exact legalCount_sound rs ks order hk hp

/-! ### non-vacuity -/

/-- three 33-byte keys, 30 bytes to free: one key is "barely enough", the loop takes two -/
example : collect 30 [[97], [98], [99]] = [[97], [98]] := by decide

example : legalCount 30 [[97], [98], [99]] (collect 30 [[97], [98], [99]]) = true :=
  legalCount_sound 30 [[97], [98], [99]] [[97], [98], [99]] (by decide) (List.Perm.refl _)

/-- an accepted candidate set that is not a prefix of the listed keys: accepted because another enumeration collects it -/
example : legalCount 30 [[97], [98], [99]] [[99], [97]] = true :=
  (legalCount_exact 30 [[97], [98], [99]] [[99], [97]] (by decide) (by decide) (by decide)).mpr
    ⟨[[97], [99], [98]], by decide, by decide⟩

/-- RemoveByTTL: two of three entries expired, the loop may look at two entries -/
def ttlDemo : St := { cache := [([97], ⟨1, 10⟩), ([98], ⟨2, 90⟩), ([99], ⟨3, 20⟩)], maxTTL := 30 }

example : ttlRemoved ttlDemo 2 100 [[99], [98], [97]] = [[99]] := by decide

example : legalRemoved ttlDemo 2 100 (ttlRemoved ttlDemo 2 100 [[99], [98], [97]]) = true :=
  legalRemoved_sound ttlDemo 2 100 [[99], [98], [97]] (by decide) (by decide)

example : ∃ order, order.Perm (keys ttlDemo.cache) ∧ ttlRemoved ttlDemo 2 100 order = [[97], [99]] :=
  legalRemoved_complete ttlDemo 2 100 [[97], [99]] (by decide) (by decide)

end SH.C21
