/-
  SH.Lemmas.NormInPlaceC11 — the array-level model of ForceValidStringValueBytes (dst aliases src) against the
  value-level model `force`.
-/
import SH.Lemmas.NormC11

namespace SH.Norm

/-- in buffered mode the shared array is never written during the loop, so every read sees the caller's bytes and
    the loop is the value-level slow loop on `src[r:]` -/
theorem slowIP_buffered (T : Tables) (maxLen : Nat) : ∀ (fuel n r : Nat) (st : IPState),
    ∃ o p, slowLoop T true maxLen fuel ((st.arr.take n).drop r) st.out st.prev = some (o, p) ∧
      slowLoopIP .buffered T maxLen fuel n r st = { st with out := o, prev := p } := by
  intro fuel
  induction fuel with
  | zero => intro n r st; exact ⟨st.out, st.prev, rfl, rfl⟩
  | succ f ih =>
    intro n r st
    cases hv : (st.arr.take n).drop r with
    | nil => exact ⟨st.out, st.prev, by simp [slowLoop], by simp [slowLoopIP, hv]⟩
    | cons c rest =>
      simp only [slowLoop, slowLoopIP, hv, Bool.not_true, Bool.and_false, Bool.false_eq_true, ↓reduceIte]
      have hdrop : (c :: rest).drop (decodeRune (c :: rest)).2 = (st.arr.take n).drop (r + (decodeRune (c :: rest)).2) := by
        rw [← hv, List.drop_drop]
      cases hc : classify T (decodeRune (c :: rest)).1 st.prev with
      | none =>
        simp only
        rw [hdrop]
        exact ih n _ st
      | some pr =>
        obtain ⟨ru, sp⟩ := pr
        simp only
        by_cases hl : st.out.length + (encodeRune ru).length > maxLen
        · simp only [hl, ↓reduceIte]; exact ⟨st.out, st.prev, rfl, rfl⟩
        · simp only [hl, ↓reduceIte]
          rw [hdrop]
          have := ih n (r + (decodeRune (c :: rest)).2) (emitIP .buffered st (encodeRune ru) sp)
          simpa [emitIP] using this

/-- copying a prefix of the array onto itself (`append(b[:0], b...)`, a memmove) leaves the array as it was -/
theorem poke_self (arr : List UInt8) (n : Nat) (hn : n ≤ arr.length) : poke arr 0 (arr.take n) = arr := by
  have : (arr.take n).length = n := by simp [hn]
  simp [poke, this]

/-- ForceValidStringValueBytes on ANY backing array (n = len(b) ≤ cap(b) = arr.length) equals the value-level `force`
    of the slice's bytes; the caller's array afterwards holds the result at its start when it fits the capacity and
    is untouched otherwise. -/
theorem forceInPlace_buffered (T : Tables) (maxLen : Nat) (arr : List UInt8) (n : Nat) (hn : n ≤ arr.length) :
    forceInPlace .buffered T maxLen arr n =
      if (arr.take n).isEmpty then { value := [], arr := arr, aliased := true }
      else appendAtZero arr (force T maxLen (arr.take n)) := by
  have hlen : (arr.take n).length = n := by simp [hn]
  unfold forceInPlace force appendValid
  by_cases h0 : (arr.take n).isEmpty = true
  · simp only [h0, ↓reduceIte]
  · simp only [h0, Bool.false_eq_true, ↓reduceIte, List.nil_append]
    by_cases h1 : (decide ((arr.take n).length ≤ maxLen) && fastOk (arr.take n)) = true
    · simp only [h1, ↓reduceIte, Option.getD_some]
    · simp only [h1, Bool.false_eq_true, ↓reduceIte]
      obtain ⟨o, p, h2, h3⟩ := slowIP_buffered T maxLen (n + 1) n 0
        { arr := arr, detached := false, out := [], prev := true }
      simp only [List.drop_zero] at h2
      rw [hlen, h2, h3]
      simp

/-! ### the direct-append variant: safe exactly as long as the write index does not overtake the read index -/

/-- every rune the slow path writes is no longer than what it consumed -/
def nonGrowing (T : Tables) : Nat → List UInt8 → Bool → Bool
  | 0, _, _ => true
  | _ + 1, [], _ => true
  | f + 1, c :: rest, prev =>
    match classify T (decodeRune (c :: rest)).1 prev with
    | none => nonGrowing T f ((c :: rest).drop (decodeRune (c :: rest)).2) prev
    | some (ru, sp) =>
      decide ((encodeRune ru).length ≤ (decodeRune (c :: rest)).2) &&
        nonGrowing T f ((c :: rest).drop (decodeRune (c :: rest)).2) sp

/-- a write that ends at or before position k leaves everything from k on as it was -/
theorem poke_drop (arr : List UInt8) (off : Nat) (e : List UInt8) (k : Nat)
    (h1 : off + e.length ≤ k) (h2 : off + e.length ≤ arr.length) : (poke arr off e).drop k = arr.drop k := by
  unfold poke
  have hl : (arr.take off ++ e).length = off + e.length := by
    simp only [List.length_append, List.length_take]; omega
  rw [List.drop_append, List.drop_eq_nil_of_le (by omega), hl, List.nil_append, List.drop_drop]
  congr 1; omega

theorem poke_length (arr : List UInt8) (off : Nat) (e : List UInt8) (h2 : off + e.length ≤ arr.length) :
    (poke arr off e).length = arr.length := by
  unfold poke
  simp only [List.length_append, List.length_take, List.length_drop]; omega

/-- lock-step: as long as what is written never reaches past what has been read (`out.length ≤ r`, kept by
    nonGrowing), the direct variant reads the same bytes and produces the same output as the buffered one. -/
theorem direct_eq_buffered (T : Tables) (maxLen : Nat) : ∀ (fuel n r : Nat) (sd sb : IPState),
    n ≤ sd.arr.length → sd.detached = false → sd.out = sb.out → sd.prev = sb.prev → sd.out.length ≤ r →
    (sd.arr.take n).drop r = (sb.arr.take n).drop r →
    nonGrowing T fuel ((sb.arr.take n).drop r) sb.prev = true →
    (slowLoopIP .direct T maxLen fuel n r sd).out = (slowLoopIP .buffered T maxLen fuel n r sb).out ∧
    (slowLoopIP .direct T maxLen fuel n r sd).prev = (slowLoopIP .buffered T maxLen fuel n r sb).prev ∧
    (slowLoopIP .direct T maxLen fuel n r sd).detached = false := by
  intro fuel
  induction fuel with
  | zero => intro n r sd sb _ hd ho hp _ _ _; exact ⟨ho, hp, hd⟩
  | succ f ih =>
    intro n r sd sb hn hd ho hp hw hv hg
    simp only [slowLoopIP]
    rw [hv]
    cases hview : (sb.arr.take n).drop r with
    | nil => exact ⟨ho, hp, hd⟩
    | cons c rest =>
      simp only
      rw [hview] at hg
      simp only [nonGrowing] at hg
      have hwid := decode_width c rest
      have hvl : (c :: rest).length ≤ n - r := by
        rw [← hview]; simp only [List.length_drop, List.length_take]; omega
      simp only [List.length_cons] at hwid hvl
      rw [hp]
      cases hc : classify T (decodeRune (c :: rest)).1 sb.prev with
      | none =>
        simp only [hc] at hg ⊢
        refine ih n _ sd sb hn hd ho hp (by omega) ?_ ?_
        · rw [← List.drop_drop, ← List.drop_drop, hv]
        · rw [← List.drop_drop, hview]; exact hg
      | some pr =>
        obtain ⟨ru, sp⟩ := pr
        simp only [hc, Bool.and_eq_true, decide_eq_true_eq] at hg ⊢
        rw [ho]
        by_cases hl : sb.out.length + (encodeRune ru).length > maxLen
        · simp only [hl, ↓reduceIte]; exact ⟨ho, hp, hd⟩
        · simp only [hl, ↓reduceIte]
          have hfit : sd.out.length + (encodeRune ru).length ≤ sd.arr.length := by omega
          have hem : emitIP .direct sd (encodeRune ru) sp =
              { sd with arr := poke sd.arr sd.out.length (encodeRune ru), out := sd.out ++ encodeRune ru, prev := sp } := by
            simp [emitIP, hd, hfit]
          rw [hem]
          refine ih n _ _ _ ?_ hd ?_ rfl ?_ ?_ ?_
          · simp only; rw [poke_length _ _ _ hfit]; exact hn
          · simp [emitIP, ho]
          · simp only [List.length_append]; omega
          · simp only [emitIP]
            rw [List.drop_take, List.drop_take, poke_drop _ _ _ _ (by omega) hfit]
            have := congrArg (List.drop (decodeRune (c :: rest)).2) hv
            rw [List.drop_drop, List.drop_drop, List.drop_take, List.drop_take] at this
            exact this
          · simp only [emitIP]
            rw [← List.drop_drop, hview]; exact hg.2

end SH.Norm
