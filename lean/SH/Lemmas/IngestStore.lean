/-
  SH.Lemmas.IngestStore — reading a row of the model store (SH.Model.Ingest) and how `storeUpd` changes what is read.
  Helper development for SH.Props.C12 (lifting the weighting theorems through the store lookup).
-/
import SH.Model.Ingest

namespace SH.Ingest

/-- address of one MultiValue: shard, metric, key timestamp, key tags (without string top), normalised string-top
    value ((0,"-") = the Tail) -/
structure Addr where
  shard : Nat
  metric : Int
  ts : Nat
  ktags : KeyTags
  top : Int × Str
deriving DecidableEq, Repr

def topMatch (a : Int × Str) (p : Int × Str × MV) : Bool := p.1 == a.1 && p.2.1 == a.2

def getTopMV (a : Int × Str) : List (Int × Str × MV) → MV
  | [] => {}
  | p :: r => if topMatch a p then p.2.2 else getTopMV a r

/-- the MultiValue of an item selected by a normalised top value -/
def getItemMV (it : Item) (a : Int × Str) : MV := if topEmpty a then it.tail else getTopMV a it.top

/-- the MultiValue stored at an address ({} if the row does not exist); first match, like `storeUpd` -/
def getMV : Store → Addr → MV
  | [], _ => {}
  | it :: r, a => if it.sameKey a.shard a.metric a.ts a.ktags then getItemMV it a.top else getMV r a

theorem normTop_idem (t : Int × Str) : normTop (normTop t) = normTop t := by
  unfold normTop; split <;> simp_all

theorem topEmpty_normTop (t : Int × Str) : topEmpty (normTop t) = topEmpty t := by
  unfold normTop topEmpty
  by_cases h : t.1 = 0 <;> simp [h]

theorem topEmpty_iff (t : Int × Str) : topEmpty t = true ↔ t = (0, "-") := by
  unfold topEmpty
  constructor
  · intro h; simp at h; exact Prod.ext h.1 h.2
  · intro h; subst h; rfl

theorem getTopMV_updTop_same (f : MV → MV) (t : Int × Str) (l : List (Int × Str × MV)) :
    getTopMV t (updTop f t l) = f (getTopMV t l) := by
  induction l with
  | nil => simp [updTop, getTopMV, topMatch]
  | cons p r ih =>
    unfold updTop
    by_cases h : (p.1 == t.1 && p.2.1 == t.2) = true
    · simp [h, getTopMV, topMatch]
    · simp only [h]
      have : topMatch t p = false := by simpa [topMatch] using h
      simp [getTopMV, this, ih]

theorem getTopMV_updTop_other (f : MV → MV) (t a : Int × Str) (l : List (Int × Str × MV)) (hne : a ≠ t) :
    getTopMV a (updTop f t l) = getTopMV a l := by
  have hm : ∀ m : MV, topMatch a (t.1, t.2, m) = false := by
    intro m; unfold topMatch
    by_cases h1 : t.1 = a.1
    · by_cases h2 : t.2 = a.2
      · exact absurd (Prod.ext h1.symm h2.symm) hne
      · simp [h2]
    · simp [h1]
  induction l with
  | nil => simp [updTop, getTopMV, hm]
  | cons p r ih =>
    unfold updTop
    by_cases h : (p.1 == t.1 && p.2.1 == t.2) = true
    · have hp : topMatch a p = false := by
        have := hm p.2.2
        simp at h
        unfold topMatch at this ⊢
        simpa [h.1, h.2] using this
      have hq : topMatch a (p.1, p.2.1, f p.2.2) = false := by
        unfold topMatch at hp ⊢; simpa using hp
      simp [h, getTopMV, hp, hq]
    · simp only [h]
      by_cases hp : topMatch a p = true
      · simp [getTopMV, hp]
      · simp [getTopMV, hp, ih]

theorem getItemMV_upd_same (it : Item) (t : Int × Str) (f : MV → MV) :
    getItemMV (it.upd t f) (normTop t) = f (getItemMV it (normTop t)) := by
  unfold Item.upd getItemMV
  rw [topEmpty_normTop]
  by_cases h : topEmpty t = true
  · simp [h]
  · simp [h, getTopMV_updTop_same]

theorem getItemMV_upd_other (it : Item) (t a : Int × Str) (f : MV → MV) (hne : a ≠ normTop t) :
    getItemMV (it.upd t f) a = getItemMV it a := by
  unfold Item.upd getItemMV
  by_cases h : topEmpty t = true
  · have ht : normTop t = (0, "-") := by rw [(topEmpty_iff t).1 h]; rfl
    have ha : topEmpty a = false := by
      cases hq : topEmpty a with
      | false => rfl
      | true => exact absurd ((topEmpty_iff a).1 hq) (by rw [ht] at hne; exact hne)
    simp [h, ha]
  · simp only [h]
    by_cases ha : topEmpty a = true
    · simp [ha]
    · simp [ha, getTopMV_updTop_other _ _ _ _ hne]

theorem upd_sameKey (it : Item) (t : Int × Str) (f : MV → MV) (sh : Nat) (m : Int) (ts : Nat) (kt : KeyTags) :
    (it.upd t f).sameKey sh m ts kt = it.sameKey sh m ts kt := by
  unfold Item.upd Item.sameKey; split <;> rfl

theorem sameKey_iff (it : Item) (sh : Nat) (m : Int) (ts : Nat) (kt : KeyTags) :
    it.sameKey sh m ts kt = true ↔ it.shard = sh ∧ it.metric = m ∧ it.ts = ts ∧ it.ktags = kt := by
  unfold Item.sameKey; simp [and_assoc]

/-- reading the updated address returns the updated value -/
theorem getMV_storeUpd_same (sh : Nat) (m : Int) (ts : Nat) (kt : KeyTags) (t : Int × Str) (f : MV → MV) (st : Store) :
    getMV (storeUpd sh m ts kt t f st) ⟨sh, m, ts, kt, normTop t⟩ = f (getMV st ⟨sh, m, ts, kt, normTop t⟩) := by
  induction st with
  | nil =>
    have hk : (({ shard := sh, metric := m, ts := ts, ktags := kt } : Item).upd t f).sameKey sh m ts kt = true := by
      rw [upd_sameKey]; simp [Item.sameKey]
    simp only [storeUpd, getMV, hk, if_true]
    rw [getItemMV_upd_same]
    congr 1
    unfold getItemMV getTopMV; split <;> rfl
  | cons it r ih =>
    unfold storeUpd
    by_cases hs : it.sameKey sh m ts kt = true
    · simp [hs, getMV, upd_sameKey, getItemMV_upd_same]
    · simp [hs, getMV, ih]

/-- every other address reads as before -/
theorem getMV_storeUpd_other (sh : Nat) (m : Int) (ts : Nat) (kt : KeyTags) (t : Int × Str) (f : MV → MV) (st : Store) (a : Addr)
    (hne : a ≠ ⟨sh, m, ts, kt, normTop t⟩) :
    getMV (storeUpd sh m ts kt t f st) a = getMV st a := by
  induction st with
  | nil =>
    simp only [storeUpd, getMV]
    by_cases hk : (({ shard := sh, metric := m, ts := ts, ktags := kt } : Item).upd t f).sameKey a.shard a.metric a.ts a.ktags = true
    · simp only [hk, if_true]
      rw [upd_sameKey, sameKey_iff] at hk
      have hat : a.top ≠ normTop t := by
        intro h; apply hne
        cases a; simp at hk h ⊢; exact ⟨hk.1.symm, hk.2.1.symm, hk.2.2.1.symm, hk.2.2.2.symm, h⟩
      rw [getItemMV_upd_other _ _ _ _ hat]
      unfold getItemMV getTopMV; split <;> rfl
    · simp [hk]
  | cons it r ih =>
    unfold storeUpd
    by_cases hs : it.sameKey sh m ts kt = true
    · simp only [hs, if_true, getMV, upd_sameKey]
      by_cases hk : it.sameKey a.shard a.metric a.ts a.ktags = true
      · simp only [hk, if_true]
        have h1 := (sameKey_iff _ _ _ _ _).1 hs
        have h2 := (sameKey_iff _ _ _ _ _).1 hk
        have hat : a.top ≠ normTop t := by
          intro h; apply hne
          cases a; simp at h2 h ⊢
          exact ⟨h2.1.symm.trans h1.1, h2.2.1.symm.trans h1.2.1, h2.2.2.1.symm.trans h1.2.2.1, h2.2.2.2.symm.trans h1.2.2.2, h⟩
        exact getItemMV_upd_other _ _ _ _ hat
      · simp [hk]
    · by_cases hk : it.sameKey a.shard a.metric a.ts a.ktags = true
      · simp [hs, getMV, hk]
      · simp [hs, getMV, hk, ih]

end SH.Ingest
