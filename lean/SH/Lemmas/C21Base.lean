/-
  SH.Lemmas.C21Base — C21, first round development (was SH.Props.C21; the headline statements are now in SH/Props/C21.lean).

  Property (properties.jsonl): "Reloading a chunked storage file yields exactly the saved items, and a truncated or
  corrupted file yields a prefix of the saved chunks and never a damaged item. The mapping cache never returns a value
  for a string other than the value added for it, never returns marker values, never grows beyond its configured size,
  keeps its size and access-time accounting exact, and reloads from its saved file to the same contents."
  Quantifier: all sequences of add/get/evict/save/reload operations and all truncation and bit-flip positions.

  Models: SH/Model/Chunked.lean (chunked_storage2.go), SH/Model/MapCache.lean (pcache/mappings_cache.go).
  xxh3 is the parameter `H` (any function with 16-byte results); "corruption is detected" is proved in reduction form.
-/
import SH.Model.Chunked
import SH.Model.MapCache

namespace SH.C21
open SH.Chunked hiding St
open SH.MapCache


theorem le_length (k n : Nat) : (le k n).length = k := by
  induction k generalizing n with
  | zero => rfl
  | succ k ih => simp [le, ih]

theorem unle_le (k n : Nat) (h : n < 256 ^ k) : unle (le k n) = n := by
  induction k generalizing n with
  | zero => simp at h; subst h; rfl
  | succ k ih =>
    simp only [le, unle]
    have h1 : n / 256 < 256 ^ k := by
      rw [Nat.pow_succ] at h
      exact Nat.div_lt_of_lt_mul (by rw [Nat.mul_comm]; exact h)
    rw [ih _ h1]
    have : (UInt8.ofNat (n % 256)).toNat = n % 256 := by
      simp [UInt8.toNat_ofNat']
    rw [this]; omega

theorem header_length (m : Nat) (b : Bytes) : (header m b).length = 8 := by
  simp [header, le_length]

theorem encChunk_length (H : Bytes → Bytes) (m : Nat) (prev b : Bytes) (hH : ∀ x, (H x).length = 16) :
    (encChunk H m prev b).length = 8 + b.length + 16 := by
  simp [encChunk, header_length, hH]; omega


/-- hypotheses on the parameters: the hash has 16 bytes, the magic is a uint32 -/
structure Params (H : Bytes → Bytes) (magic : Nat) : Prop where
  hlen : ∀ x, (H x).length = 16
  magic32 : magic < 4294967296

theorem chunkSize_val : chunkSize = 1048576 := rfl
theorem headerSize_val : headerSize = 8 := rfl
theorem hashSize_val : hashSize = 16 := rfl

theorem readNext_encChunk {H : Bytes → Bytes} {magic : Nat} (P : Params H magic) (prev body rest : Bytes)
    (hb : body.length ≤ chunkSize) :
    readNext H magic prev (encChunk H magic prev body ++ rest)
      = .chunk body (H (hashInput magic prev body)) rest := by
  have hl := P.hlen (hashInput magic prev body)
  have h4 : (le 4 magic).length = 4 := le_length _ _
  have h4' : (le 4 body.length).length = 4 := le_length _ _
  have hb32 : body.length < 256 ^ 4 := by rw [chunkSize_val] at hb; omega
  have hm32 : magic < 256 ^ 4 := by have := P.magic32; omega
  have e : encChunk H magic prev body ++ rest
      = le 4 magic ++ (le 4 body.length ++ (body ++ (H (hashInput magic prev body) ++ rest))) := by
    simp [encChunk, header, List.append_assoc]
  have hmagic : magicOf (encChunk H magic prev body ++ rest) = magic := by
    rw [e, magicOf, List.take_left' h4, unle_le _ _ hm32]
  have hsize : bodySize (encChunk H magic prev body ++ rest) = body.length := by
    rw [e, bodySize, List.drop_left' h4, List.take_left' h4', unle_le _ _ hb32]
  have hlen : (encChunk H magic prev body ++ rest).length = 8 + body.length + 16 + rest.length := by
    rw [e]; simp [h4, h4', hl]; omega
  have hpart : hashedPart (encChunk H magic prev body ++ rest) = header magic body ++ body := by
    rw [hashedPart, hsize, e]
    have : (le 4 magic ++ (le 4 body.length ++ (body ++ (H (hashInput magic prev body) ++ rest))))
        = (header magic body ++ body) ++ (H (hashInput magic prev body) ++ rest) := by
      simp [header, List.append_assoc]
    rw [this]
    apply List.take_left'
    simp [header_length, headerSize_val]
  have hstored : storedHash (encChunk H magic prev body ++ rest) = H (hashInput magic prev body) := by
    rw [storedHash, hsize, e]
    have : (le 4 magic ++ (le 4 body.length ++ (body ++ (H (hashInput magic prev body) ++ rest))))
        = (header magic body ++ body) ++ (H (hashInput magic prev body) ++ rest) := by
      simp [header, List.append_assoc]
    rw [this, List.drop_left' (by simp [header_length, headerSize_val])]
    exact List.take_left' (by rw [hl, hashSize_val])
  have hbody : ((encChunk H magic prev body ++ rest).drop headerSize).take body.length = body := by
    rw [e]
    have : (le 4 magic ++ (le 4 body.length ++ (body ++ (H (hashInput magic prev body) ++ rest))))
        = header magic body ++ (body ++ (H (hashInput magic prev body) ++ rest)) := by
      simp [header, List.append_assoc]
    rw [this, List.drop_left' (by simp [header_length, headerSize_val])]
    exact List.take_left' rfl
  have hrest : (encChunk H magic prev body ++ rest).drop (headerSize + body.length + hashSize) = rest := by
    apply List.drop_left'
    rw [encChunk_length H magic prev body P.hlen, headerSize_val, hashSize_val]
  unfold readNext
  have hne : (encChunk H magic prev body ++ rest).isEmpty = false := by
    cases h : (encChunk H magic prev body ++ rest) with
    | nil => rw [h] at hlen; simp at hlen; omega
    | cons a l => rfl
  rw [hne]
  simp only [shortHeader, wrongMagic, tooBig, bodyOverflows, hashMismatch, hmagic, hsize, hlen, hpart, hstored,
    hbody, hrest, headerSize_val, hashSize_val, chunkSize_val]
  have : ¬ (8 + body.length + 16 + rest.length < 8 + 16) := by omega
  have h2 : ¬ (body.length > 1048576) := by rw [chunkSize_val] at hb; omega
  have h3 : ¬ (8 + body.length + 16 > 8 + body.length + 16 + rest.length) := by omega
  simp [this, h2, h3, hashInput]
  rw [headerSize_val] at hbody; rw [headerSize_val, hashSize_val] at hrest
  exact ⟨hbody, hrest⟩


/-- hash of the last chunk of `bodies` when the chain starts at `prev` -/
def chain (H : Bytes → Bytes) (magic : Nat) : Bytes → List Bytes → Bytes
  | prev, [] => prev
  | prev, b :: bs => chain H magic (H (hashInput magic prev b)) bs

theorem readAll_nil (H : Bytes → Bytes) (magic : Nat) (prev : Bytes) : readAll H magic prev [] = ([], none) := by
  rw [readAll]; split <;> simp_all [readNext]

theorem readAll_chunk {H : Bytes → Bytes} {magic : Nat} {prev rest body stored rest' : Bytes}
    (h : readNext H magic prev rest = .chunk body stored rest') :
    readAll H magic prev rest = (body :: (readAll H magic stored rest').1, (readAll H magic stored rest').2) := by
  rw [readAll]
  split
  · rename_i h'; rw [h] at h'; cases h'
  · rename_i h'; rw [h] at h'; cases h'
  · rename_i h'; rw [h] at h'; cases h'; rfl

theorem readAll_err {H : Bytes → Bytes} {magic : Nat} {prev rest : Bytes} {e : Err}
    (h : readNext H magic prev rest = .err e) : readAll H magic prev rest = ([], some e) := by
  rw [readAll]
  split
  · rename_i h'; rw [h] at h'; cases h'
  · rename_i h'; rw [h] at h'; cases h'; rfl
  · rename_i h'; rw [h] at h'; cases h'

/-- The reader walks over a well-formed prefix of a file whatever follows it. -/
theorem readAll_encodeAll_append {H : Bytes → Bytes} {magic : Nat} (P : Params H magic) (bodies : List Bytes)
    (hb : ∀ b ∈ bodies, b.length ≤ chunkSize) (prev rest : Bytes) :
    readAll H magic prev (encodeAll H magic prev bodies ++ rest)
      = (bodies ++ (readAll H magic (chain H magic prev bodies) rest).1,
         (readAll H magic (chain H magic prev bodies) rest).2) := by
  induction bodies generalizing prev with
  | nil => simp [encodeAll, chain]
  | cons b bs ih =>
    have hb0 : b.length ≤ chunkSize := hb b (by simp)
    have hbs : ∀ x ∈ bs, x.length ≤ chunkSize := fun x hx => hb x (by simp [hx])
    simp only [encodeAll, List.append_assoc, chain]
    rw [readAll_chunk (readNext_encChunk P prev b _ hb0), ih hbs]
    simp

/-- C21 (chunk files, part 1): reloading a chunked storage file yields exactly the saved chunks, without error. -/
theorem read_write_roundtrip {H : Bytes → Bytes} {magic : Nat} (P : Params H magic) (bodies : List Bytes)
    (hb : ∀ b ∈ bodies, b.length ≤ chunkSize) :
    readAll H magic zeroHash (encodeAll H magic zeroHash bodies) = (bodies, none) := by
  have := readAll_encodeAll_append P bodies hb zeroHash []
  simp [readAll_nil] at this
  exact this


theorem bodySize_encChunk {H : Bytes → Bytes} {magic : Nat} (prev body rest : Bytes)
    (hb : body.length ≤ chunkSize) : bodySize (encChunk H magic prev body ++ rest) = body.length := by
  have h4 : (le 4 magic).length = 4 := le_length _ _
  have h4' : (le 4 body.length).length = 4 := le_length _ _
  have hb32 : body.length < 256 ^ 4 := by rw [chunkSize_val] at hb; omega
  have e : encChunk H magic prev body ++ rest
      = le 4 magic ++ (le 4 body.length ++ (body ++ (H (hashInput magic prev body) ++ rest))) := by
    simp [encChunk, header, List.append_assoc]
  rw [e, bodySize, List.drop_left' h4, List.take_left' h4', unle_le _ _ hb32]

theorem bodySize_take (x : Bytes) (n : Nat) (h : 8 ≤ n) : bodySize (x.take n) = bodySize x := by
  simp only [bodySize, List.drop_take, List.take_take]
  congr 2
  omega

/-- a strict prefix of one encoded chunk is never accepted as a chunk -/
theorem readAll_strict_prefix {H : Bytes → Bytes} {magic : Nat} (P : Params H magic) (prev prev' body : Bytes)
    (hb : body.length ≤ chunkSize) (n : Nat) (hn : n < (encChunk H magic prev body).length) :
    (readAll H magic prev' ((encChunk H magic prev body).take n)).1 = [] ∧
    ((readAll H magic prev' ((encChunk H magic prev body).take n)).2 = none → n = 0) := by
  have hlen := encChunk_length H magic prev body P.hlen
  have htl : ((encChunk H magic prev body).take n).length = n := by
    rw [List.length_take]; omega
  by_cases h0 : n = 0
  · subst h0; simp [readAll_nil]
  · have hne : ((encChunk H magic prev body).take n).isEmpty = false := by
      cases h : (encChunk H magic prev body).take n with
      | nil => rw [h] at htl; simp at htl; omega
      | cons a l => rfl
    have : ∃ e, readNext H magic prev' ((encChunk H magic prev body).take n) = .err e := by
      unfold readNext
      rw [hne]
      simp only [Bool.false_eq_true, if_false]
      by_cases h1 : shortHeader ((encChunk H magic prev body).take n) = true
      · exact ⟨.headerOverflow, by simp [h1]⟩
      · simp only [h1, Bool.false_eq_true, if_false]
        by_cases h2 : wrongMagic magic ((encChunk H magic prev body).take n) = true
        · exact ⟨.badMagic, by simp [h2]⟩
        · simp only [h2, Bool.false_eq_true, if_false]
          by_cases h3 : tooBig ((encChunk H magic prev body).take n) = true
          · exact ⟨.bodyTooBig, by simp [h3]⟩
          · simp only [h3, Bool.false_eq_true, if_false]
            have h24 : 24 ≤ n := by
              simp [shortHeader, htl, headerSize_val, hashSize_val] at h1; omega
            have hs : bodySize ((encChunk H magic prev body).take n) = body.length := by
              rw [bodySize_take _ _ (by omega)]
              have := bodySize_encChunk (H := H) (magic := magic) prev body [] hb
              simpa using this
            have h4 : bodyOverflows ((encChunk H magic prev body).take n) = true := by
              simp [bodyOverflows, hs, htl, headerSize_val, hashSize_val]; omega
            exact ⟨.bodyOverflow, by simp [h4]⟩
    obtain ⟨e, he⟩ := this
    rw [readAll_err he]; simp

/-- C21 (chunk files, part 2): a file truncated at ANY offset yields a prefix of the saved chunks, every returned
    chunk intact; and when the reader reports no error the truncated file is exactly the first k chunks. -/
theorem truncated_gives_prefix {H : Bytes → Bytes} {magic : Nat} (P : Params H magic) (bodies : List Bytes)
    (hb : ∀ b ∈ bodies, b.length ≤ chunkSize) (prev : Bytes) (n : Nat) :
    ∃ k, k ≤ bodies.length ∧
      (readAll H magic prev ((encodeAll H magic prev bodies).take n)).1 = bodies.take k ∧
      ((readAll H magic prev ((encodeAll H magic prev bodies).take n)).2 = none →
        (encodeAll H magic prev bodies).take n = encodeAll H magic prev (bodies.take k)) := by
  induction bodies generalizing prev n with
  | nil => exact ⟨0, by simp [encodeAll, readAll_nil]⟩
  | cons b bs ih =>
    have hb0 : b.length ≤ chunkSize := hb b (by simp)
    have hbs : ∀ x ∈ bs, x.length ≤ chunkSize := fun x hx => hb x (by simp [hx])
    simp only [encodeAll]
    by_cases hn : n < (encChunk H magic prev b).length
    · have := readAll_strict_prefix P prev prev b hb0 n hn
      refine ⟨0, by simp, ?_, ?_⟩
      · rw [List.take_append_of_le_length (by omega)]; simpa using this.1
      · rw [List.take_append_of_le_length (by omega)]
        intro h; have := this.2 h; subst this; simp [encodeAll]
    · have hge : (encChunk H magic prev b).length ≤ n := by omega
      obtain ⟨k, hk, h1, h2⟩ := ih hbs (H (hashInput magic prev b)) (n - (encChunk H magic prev b).length)
      have e : (encChunk H magic prev b ++ encodeAll H magic (H (hashInput magic prev b)) bs).take n
          = encChunk H magic prev b ++ (encodeAll H magic (H (hashInput magic prev b)) bs).take (n - (encChunk H magic prev b).length) := by
        rw [List.take_append]; rw [List.take_of_length_le hge]
      refine ⟨k + 1, by simp; omega, ?_, ?_⟩
      · rw [e, readAll_chunk (readNext_encChunk P prev b _ hb0), h1]; simp
      · rw [e, readAll_chunk (readNext_encChunk P prev b _ hb0)]
        intro h; simp only at h
        rw [h2 h]; simp [encodeAll]


/-- Reduction form (DESIGN §4.7): the reader accepts the next chunk iff the structural checks pass and
    H(previous hash ‖ the bytes it read) equals the stored hash bytes. -/
theorem accepts_iff (H : Bytes → Bytes) (magic : Nat) (prev rest : Bytes) :
    (∃ body stored rest', readNext H magic prev rest = .chunk body stored rest') ↔
      (rest.isEmpty = false ∧ shortHeader rest = false ∧ wrongMagic magic rest = false ∧ tooBig rest = false ∧
        bodyOverflows rest = false ∧ H (prev ++ hashedPart rest) = storedHash rest) := by
  unfold readNext
  by_cases h0 : rest.isEmpty = true
  · simp [h0]
  by_cases h1 : shortHeader rest = true
  · simp [h0, h1]
  by_cases h2 : wrongMagic magic rest = true
  · simp [h0, h1, h2]
  by_cases h3 : tooBig rest = true
  · simp [h0, h1, h2, h3]
  by_cases h4 : bodyOverflows rest = true
  · simp [h0, h1, h2, h3, h4]
  by_cases h5 : H (prev ++ hashedPart rest) = storedHash rest
  · simp [h0, h1, h2, h3, h4, h5, hashMismatch]
  · simp [h0, h1, h2, h3, h4, h5, hashMismatch]

theorem readNext_eof {H : Bytes → Bytes} {magic : Nat} {prev rest : Bytes}
    (h : readNext H magic prev rest = .eof) : rest = [] := by
  unfold readNext at h
  split at h
  · rename_i hh; simpa using hh
  split at h; · cases h
  split at h; · cases h
  split at h; · cases h
  split at h; · cases h
  split at h; · cases h
  cases h

/-- some byte string other than the saved chunk `j` passes the hash check in the position of chunk `j` -/
def HashCoincidence (H : Bytes → Bytes) (magic : Nat) (bodies : List Bytes) : Prop :=
  ∃ (j : Nat) (hj : j < bodies.length) (x : Bytes),
    H (chain H magic zeroHash (bodies.take j) ++ hashedPart x) = storedHash x ∧
    hashedPart x ++ storedHash x ≠ encChunk H magic (chain H magic zeroHash (bodies.take j)) bodies[j]

theorem part_stored_prefix (x : Bytes) : hashedPart x ++ storedHash x <+: x := by
  unfold hashedPart storedHash
  rw [← List.take_add]
  exact List.take_prefix _ _

/-- C21 (chunk files, part 3, reduction form): if the first `j` chunks of a file are intact and what follows does not
    start with the saved chunk `j` (any corruption: flipped bits, overwritten or inserted bytes, a cut), then the reader
    returns exactly the first `j` chunks and nothing else — unless the hash function maps the damaged bytes to the
    stored hash value (`HashCoincidence`). -/
theorem corrupt_detected {H : Bytes → Bytes} {magic : Nat} (P : Params H magic) (bodies : List Bytes)
    (hb : ∀ b ∈ bodies, b.length ≤ chunkSize) (j : Nat) (hj : j < bodies.length) (rest' : Bytes)
    (hne : ¬ encChunk H magic (chain H magic zeroHash (bodies.take j)) bodies[j] <+: rest') :
    ((readAll H magic zeroHash (encodeAll H magic zeroHash (bodies.take j) ++ rest')).1 = bodies.take j ∧
      ((readAll H magic zeroHash (encodeAll H magic zeroHash (bodies.take j) ++ rest')).2 = none → rest' = []))
    ∨ HashCoincidence H magic bodies := by
  have hbt : ∀ b ∈ bodies.take j, b.length ≤ chunkSize := fun b hx => hb b (List.mem_of_mem_take hx)
  rw [readAll_encodeAll_append P _ hbt]
  cases hr : readNext H magic (chain H magic zeroHash (bodies.take j)) rest' with
  | eof =>
    left
    have : rest' = [] := readNext_eof hr
    subst this; simp [readAll_nil]
  | err e => left; rw [readAll_err hr]; simp
  | chunk body stored r =>
    right
    have := (accepts_iff H magic _ rest').mp ⟨_, _, _, hr⟩
    refine ⟨j, hj, rest', this.2.2.2.2.2, ?_⟩
    intro heq
    exact hne (heq ▸ part_stored_prefix rest')

theorem set_decompose {H : Bytes → Bytes} {magic : Nat} (P : Params H magic) (bodies : List Bytes) (prev : Bytes)
    (p : Nat) (v : UInt8) (hp : p < (encodeAll H magic prev bodies).length)
    (hv : (encodeAll H magic prev bodies)[p]? ≠ some v) :
    ∃ (j : Nat) (hj : j < bodies.length) (rest' : Bytes),
      (encodeAll H magic prev bodies).set p v = encodeAll H magic prev (bodies.take j) ++ rest' ∧ rest' ≠ [] ∧
      ¬ encChunk H magic (chain H magic prev (bodies.take j)) bodies[j] <+: rest' := by
  induction bodies generalizing prev p with
  | nil => simp [encodeAll] at hp
  | cons b bs ih =>
    simp only [encodeAll] at hp hv ⊢
    by_cases hlt : p < (encChunk H magic prev b).length
    · refine ⟨0, by simp, _, by simp [encodeAll]; rfl, ?_, ?_⟩
      · intro h
        have hl := List.length_set (as := encChunk H magic prev b ++ encodeAll H magic (H (hashInput magic prev b)) bs) (i := p) (a := v)
        rw [h, List.length_nil] at hl; omega
      · simp only [List.take_zero, chain, List.getElem_cons_zero]
        rw [List.set_append_left _ _ hlt]
        intro hpre
        have h1 : encChunk H magic prev b = (encChunk H magic prev b).set p v :=
          (List.prefix_iff_eq_take.mp hpre).trans (List.take_left' (by simp))
        apply hv
        rw [List.getElem?_append_left hlt, h1]
        simp [hlt]
    · have hge : (encChunk H magic prev b).length ≤ p := by omega
      have hp' : p - (encChunk H magic prev b).length < (encodeAll H magic (H (hashInput magic prev b)) bs).length := by
        simp at hp; omega
      have hv' : (encodeAll H magic (H (hashInput magic prev b)) bs)[p - (encChunk H magic prev b).length]? ≠ some v := by
        rw [List.getElem?_append_right hge] at hv; exact hv
      obtain ⟨j, hj, rest', h1, h2, h3⟩ := ih (H (hashInput magic prev b)) _ hp' hv'
      refine ⟨j + 1, by simp; omega, rest', ?_, h2, ?_⟩
      · rw [List.set_append_right _ _ hge, h1]; simp [encodeAll]
      · simpa [chain] using h3

/-- C21 (chunk files, part 3, every single-byte change, hence every single-bit flip): changing any one byte of a
    saved file makes the reader return a STRICT prefix of the saved chunks together with an error — or exhibits a
    hash coincidence. -/
theorem byte_change_detected {H : Bytes → Bytes} {magic : Nat} (P : Params H magic) (bodies : List Bytes)
    (hb : ∀ b ∈ bodies, b.length ≤ chunkSize) (p : Nat) (v : UInt8)
    (hp : p < (encodeAll H magic zeroHash bodies).length)
    (hv : (encodeAll H magic zeroHash bodies)[p]? ≠ some v) :
    (∃ k, k < bodies.length ∧
      (readAll H magic zeroHash ((encodeAll H magic zeroHash bodies).set p v)).1 = bodies.take k ∧
      (readAll H magic zeroHash ((encodeAll H magic zeroHash bodies).set p v)).2 ≠ none)
    ∨ HashCoincidence H magic bodies := by
  obtain ⟨j, hj, rest', h1, h2, h3⟩ := set_decompose P bodies zeroHash p v hp hv
  rw [h1]
  rcases corrupt_detected P bodies hb j hj rest' h3 with h | h
  · left; exact ⟨j, hj, h.1, fun hn => h2 (h.2 hn)⟩
  · right; exact h



/-! ## the map as an association list -/

def keys (c : Cache) : List Bytes := c.map (·.1)

theorem find_none_iff {c : Cache} {k : Bytes} : find c k = none ↔ k ∉ keys c := by
  induction c with
  | nil => simp [find, keys]
  | cons p c ih =>
    obtain ⟨k', e⟩ := p
    by_cases h : k' = k
    · simp [find, keys, h]
    · simp only [find, h, if_false, keys, List.map_cons, List.mem_cons, not_or] at ih ⊢
      constructor
      · intro hf; exact ⟨fun hh => h hh.symm, ih.mp hf⟩
      · intro hf; exact ih.mpr hf.2

theorem find_some_mem {c : Cache} {k : Bytes} {e : Entry} (h : find c k = some e) : (k, e) ∈ c := by
  induction c with
  | nil => simp [find] at h
  | cons p c ih =>
    obtain ⟨k', e'⟩ := p
    by_cases hk : k' = k
    · simp [find, hk] at h; subst h; subst hk; simp
    · simp [find, hk] at h; exact List.mem_cons_of_mem _ (ih h)

theorem mem_find_of_nodup {c : Cache} {k : Bytes} {e : Entry} (hn : (keys c).Nodup) (h : (k, e) ∈ c) : find c k = some e := by
  induction c with
  | nil => simp at h
  | cons p c ih =>
    obtain ⟨k', e'⟩ := p
    simp only [keys, List.map_cons, List.nodup_cons] at hn
    simp only [List.mem_cons, Prod.mk.injEq] at h
    rcases h with ⟨h1, h2⟩ | h
    · subst h1; subst h2; simp [find]
    · have : k' ≠ k := by
        intro hh; subst hh
        exact hn.1 (List.mem_map.mpr ⟨(k', e), h, rfl⟩)
      simp [find, this]; exact ih hn.2 h

theorem mem_erase {c : Cache} {k : Bytes} {p : Bytes × Entry} (h : p ∈ erase c k) : p ∈ c ∧ p.1 ≠ k := by
  induction c with
  | nil => simp [erase] at h
  | cons q c ih =>
    obtain ⟨k', e'⟩ := q
    by_cases hk : k' = k
    · simp only [erase, hk, if_true] at h
      exact ⟨List.mem_cons_of_mem _ (ih h).1, (ih h).2⟩
    · simp only [erase, hk, if_false, List.mem_cons] at h
      rcases h with h | h
      · subst h; exact ⟨by simp, hk⟩
      · exact ⟨List.mem_cons_of_mem _ (ih h).1, (ih h).2⟩

theorem keys_erase_sublist (c : Cache) (k : Bytes) : (keys (erase c k)).Sublist (keys c) := by
  induction c with
  | nil => simp [erase, keys]
  | cons q c ih =>
    obtain ⟨k', e'⟩ := q
    by_cases hk : k' = k
    · simp only [erase, hk, if_true, keys, List.map_cons]; exact List.Sublist.cons _ ih
    · simp only [erase, hk, if_false, keys, List.map_cons]; exact List.Sublist.cons₂ _ ih

theorem find_erase (c : Cache) (k k' : Bytes) : find (erase c k) k' = if k' = k then none else find c k' := by
  induction c with
  | nil => simp [erase, find]
  | cons q c ih =>
    obtain ⟨k2, e2⟩ := q
    by_cases hk : k2 = k
    · subst hk
      simp only [erase, if_true, ih, find]
      by_cases h2 : k' = k2
      · simp [h2]
      · have : ¬ k2 = k' := fun h => h2 h.symm
        simp [h2, this]
    · simp only [erase, hk, if_false, find, ih]
      by_cases h2 : k2 = k'
      · subst h2; simp [hk]
      · simp [h2]

theorem totals_erase {c : Cache} {k : Bytes} {e : Entry} (hn : (keys c).Nodup) (h : find c k = some e) :
    totalSize (erase c k) = totalSize c - elementSize k ∧ totalTS (erase c k) = totalTS c - e.ts := by
  induction c with
  | nil => simp [find] at h
  | cons q c ih =>
    obtain ⟨k', e'⟩ := q
    simp only [keys, List.map_cons, List.nodup_cons] at hn
    by_cases hk : k' = k
    · subst hk
      simp only [find, if_true, Option.some.injEq] at h; subst h
      have hno : find c k' = none := find_none_iff.mpr hn.1
      have he : erase c k' = c := by
        clear ih hn
        induction c with
        | nil => rfl
        | cons r c ih2 =>
          obtain ⟨k3, e3⟩ := r
          by_cases h3 : k3 = k'
          · simp [find, h3] at hno
          · simp only [find, h3, if_false] at hno
            simp [erase, h3, ih2 hno]
      simp only [erase, if_true, he, totalSize, totalTS, List.map_cons, List.sum_cons]
      constructor <;> omega
    · simp only [find, hk, if_false] at h
      have := ih hn.2 h
      simp only [erase, hk, if_false, totalSize, totalTS, List.map_cons, List.sum_cons] at this ⊢
      constructor <;> omega

theorem mem_put {c : Cache} {k : Bytes} {e : Entry} {p : Bytes × Entry} (h : p ∈ put c k e) : p = (k, e) ∨ p ∈ c := by
  induction c with
  | nil => simp [put] at h; exact Or.inl h
  | cons q c ih =>
    obtain ⟨k', e'⟩ := q
    by_cases hk : k' = k
    · simp only [put, hk, if_true, List.mem_cons] at h
      rcases h with h | h
      · exact Or.inl h
      · exact Or.inr (List.mem_cons_of_mem _ h)
    · simp only [put, hk, if_false, List.mem_cons] at h
      rcases h with h | h
      · exact Or.inr (by simp [h])
      · rcases ih h with h | h
        · exact Or.inl h
        · exact Or.inr (List.mem_cons_of_mem _ h)

theorem find_put (c : Cache) (k k' : Bytes) (e : Entry) : find (put c k e) k' = if k' = k then some e else find c k' := by
  induction c with
  | nil =>
    by_cases h : k = k'
    · simp [put, find, h]
    · have : ¬ k' = k := fun hh => h hh.symm
      simp [put, find, h, this]
  | cons q c ih =>
    obtain ⟨k2, e2⟩ := q
    by_cases hk : k2 = k
    · subst hk
      simp only [put, if_true, find]
      by_cases h2 : k2 = k'
      · simp [h2]
      · have : ¬ k' = k2 := fun hh => h2 hh.symm
        simp [h2, this]
    · simp only [put, hk, if_false, find, ih]
      by_cases h2 : k2 = k'
      · subst h2; simp [hk]
      · simp [h2]

theorem put_absent {c : Cache} {k : Bytes} (e : Entry) (h : find c k = none) :
    keys (put c k e) = keys c ++ [k] ∧ totalSize (put c k e) = totalSize c + elementSize k ∧
    totalTS (put c k e) = totalTS c + e.ts := by
  induction c with
  | nil => simp [put, keys, totalSize, totalTS]
  | cons q c ih =>
    obtain ⟨k', e'⟩ := q
    by_cases hk : k' = k
    · simp [find, hk] at h
    · simp only [find, hk, if_false] at h
      have := ih h
      simp only [put, hk, if_false, keys, totalSize, totalTS, List.map_cons, List.sum_cons, List.cons_append] at this ⊢
      refine ⟨by rw [this.1], by omega, by omega⟩

theorem put_present {c : Cache} {k : Bytes} {e0 : Entry} (e : Entry) (h : find c k = some e0) :
    keys (put c k e) = keys c ∧ totalSize (put c k e) = totalSize c ∧
    totalTS (put c k e) = totalTS c - e0.ts + e.ts := by
  induction c with
  | nil => simp [find] at h
  | cons q c ih =>
    obtain ⟨k', e'⟩ := q
    by_cases hk : k' = k
    · subst hk
      simp only [find, if_true, Option.some.injEq] at h; subst h
      simp only [put, if_true, keys, totalSize, totalTS, List.map_cons, List.sum_cons]
      refine ⟨trivial, trivial, by omega⟩
    · simp only [find, hk, if_false] at h
      have := ih h
      simp only [put, hk, if_false, keys, totalSize, totalTS, List.map_cons, List.sum_cons] at this ⊢
      refine ⟨by rw [this.1], by omega, by omega⟩


/-! ## invariants of the cache state -/

/-- "size and access-time accounting exact": one entry per string, and the two running sums equal the sums over the map -/
structure Exact (s : St) : Prop where
  nodup : (keys s.cache).Nodup
  size : s.sumSize = totalSize s.cache
  ts : s.sumTS = totalTS s.cache

/-- every cached (string, value) satisfies `Q` -/
def AllGood (Q : Bytes → Int → Prop) (s : St) : Prop := ∀ p ∈ s.cache, Q p.1 p.2.val

theorem elementSize_nonneg (k : Bytes) : 0 ≤ elementSize k := by simp [elementSize]; omega

theorem present_false_iff {s : St} {k : Bytes} : present s k = false ↔ find s.cache k = none := by
  simp [present]

theorem exact_addItem {s : St} {k : Bytes} (v : Int) (ts : Nat) (h : Exact s) (hk : find s.cache k = none) :
    Exact (addItem s k v ts) := by
  have := put_absent (c := s.cache) (k := k) { val := v, ts := ts } hk
  refine ⟨?_, ?_, ?_⟩
  · simp only [addItem]; rw [this.1]
    exact List.nodup_append.mpr ⟨h.nodup, by simp, by
      intro a ha b hb; simp at hb; subst hb; intro hab; subst hab; exact (find_none_iff.mp hk) ha⟩
  · simp only [addItem]; rw [this.2.1, h.size]
  · simp only [addItem]; rw [this.2.2, h.ts]

theorem exact_removeItem {s : St} {k : Bytes} {e : Entry} (h : Exact s) (hk : find s.cache k = some e) :
    Exact (removeItem s k e.ts) := by
  have := totals_erase h.nodup hk
  refine ⟨?_, ?_, ?_⟩
  · exact List.Sublist.nodup (keys_erase_sublist _ _) h.nodup
  · simp only [removeItem]; rw [this.1, h.size]
  · simp only [removeItem]; rw [this.2, h.ts]

theorem good_addItem {Q : Bytes → Int → Prop} {s : St} {k : Bytes} {v : Int} (ts : Nat) (h : AllGood Q s) (hq : Q k v) :
    AllGood Q (addItem s k v ts) := by
  intro p hp
  rcases mem_put hp with hp | hp
  · subst hp; exact hq
  · exact h p hp

theorem good_removeItem {Q : Bytes → Int → Prop} {s : St} (k : Bytes) (ts : Nat) (h : AllGood Q s) :
    AllGood Q (removeItem s k ts) := fun p hp => h p (mem_erase hp).1

/-! ### GetValue -/

theorem exact_getValue {s : St} (ts : Nat) (k : Bytes) (h : Exact s) : Exact (getValue s ts k).1 := by
  unfold getValue
  split
  · exact h
  · rename_i e he
    split
    · exact h
    · have := put_present (c := s.cache) (k := k) { e with ts := ts } he
      refine ⟨?_, ?_, ?_⟩
      · simp only; rw [this.1]; exact h.nodup
      · simp only; rw [this.2.1]; exact h.size
      · simp only; rw [this.2.2, h.ts]

theorem good_getValue {Q : Bytes → Int → Prop} {s : St} (ts : Nat) (k : Bytes) (h : AllGood Q s) :
    AllGood Q (getValue s ts k).1 := by
  unfold getValue
  split
  · exact h
  · rename_i e he
    split
    · exact h
    · intro p hp
      rcases mem_put hp with hp | hp
      · subst hp; exact h (k, e) (find_some_mem he)
      · exact h p hp

/-- whatever GetValue returns is the value stored for exactly this string -/
theorem getValue_result {s : St} {ts : Nat} {k : Bytes} {v : Int} (h : (getValue s ts k).2 = some v) :
    ∃ e, find s.cache k = some e ∧ e.val = v := by
  unfold getValue at h
  split at h
  · cases h
  · rename_i e he
    split at h <;> (cases h; exact ⟨e, he, rfl⟩)

theorem getValue_same_fields (s : St) (ts : Nat) (k : Bytes) :
    (getValue s ts k).1.sumSize = s.sumSize ∧ (getValue s ts k).1.maxSize = s.maxSize := by
  unfold getValue
  split
  · exact ⟨rfl, rfl⟩
  · split <;> exact ⟨rfl, rfl⟩


/-! ### AddValues -/

theorem skipDup_false_fixed {s : St} {k : Bytes} (h : skipDup .fixed s k = false) : find s.cache k = none := by
  simp [skipDup] at h; exact present_false_iff.mp h

theorem exact_addAll (now : Nat) (s : St) (ps : List Pair) (h : Exact s) : Exact (addAll .fixed now s ps) := by
  induction ps generalizing s with
  | nil => exact h
  | cons p ps ih =>
    simp only [addAll]
    by_cases hd : skipDup .fixed s p.1 = true
    · simp only [hd, if_true]; exact ih s h
    · simp only [hd, Bool.false_eq_true, if_false]
      exact ih _ (exact_addItem _ _ h (skipDup_false_fixed (by simpa using hd)))

theorem exact_addFit (now : Nat) (s : St) (ps : List Pair) (h : Exact s) : Exact (addFit .fixed now s ps) := by
  induction ps generalizing s with
  | nil => exact h
  | cons p ps ih =>
    simp only [addFit]
    by_cases hd : skipDup .fixed s p.1 = true
    · simp only [hd, if_true]; exact ih s h
    · simp only [hd, Bool.false_eq_true, if_false]
      by_cases hr : noRoom s p.1 = true
      · simp only [hr, if_true]; exact h
      · simp only [hr, Bool.false_eq_true, if_false]
        exact ih _ (exact_addItem _ _ h (skipDup_false_fixed (by simpa using hd)))

theorem exact_evict (now : Nat) (ns : Int) (s : St) (ks : List Bytes) (h : Exact s) : Exact (evict now ns s ks) := by
  induction ks generalizing s with
  | nil => exact h
  | cons k ks ih =>
    simp only [evict]
    split
    · exact ih s h
    · rename_i e he
      split
      · exact h
      · split
        · exact h
        · exact ih _ (exact_removeItem h he)

theorem exact_removeVisited (now : Nat) (s : St) (ks : List Bytes) (h : Exact s) : Exact (removeVisited now s ks) := by
  induction ks generalizing s with
  | nil => exact h
  | cons k ks ih =>
    simp only [removeVisited]
    split
    · exact ih s h
    · rename_i e he
      split
      · exact ih _ (exact_removeItem h he)
      · exact ih s h

theorem exact_version {s : St} (n : Nat) (h : Exact s) : Exact { s with version := n } := ⟨h.nodup, h.size, h.ts⟩

theorem exact_addValues (s : St) (now : Nat) (pairs : List Pair) (cands : List Bytes) (h : Exact s) :
    Exact (addValues .fixed s now pairs cands) := by
  unfold addValues
  simp only
  split
  · exact h
  · split
    · exact exact_version _ (exact_addAll _ _ _ h)
    · exact exact_version _ (exact_addFit _ _ _ (exact_evict _ _ _ _ h))

/-- pairs that may be inserted: those that passed the filter of THIS call -/
theorem good_addAll {Q : Bytes → Int → Prop} (v : Variant) (now : Nat) (s : St) (ps : List Pair)
    (h : AllGood Q s) (hq : ∀ p ∈ ps, Q p.1 p.2) : AllGood Q (addAll v now s ps) := by
  induction ps generalizing s with
  | nil => exact h
  | cons p ps ih =>
    have hq' : ∀ q ∈ ps, Q q.1 q.2 := fun q hq2 => hq q (List.mem_cons_of_mem _ hq2)
    simp only [addAll]
    split
    · exact ih s h hq'
    · exact ih _ (good_addItem _ h (hq p (by simp))) hq'

theorem good_addFit {Q : Bytes → Int → Prop} (v : Variant) (now : Nat) (s : St) (ps : List Pair)
    (h : AllGood Q s) (hq : ∀ p ∈ ps, Q p.1 p.2) : AllGood Q (addFit v now s ps) := by
  induction ps generalizing s with
  | nil => exact h
  | cons p ps ih =>
    have hq' : ∀ q ∈ ps, Q q.1 q.2 := fun q hq2 => hq q (List.mem_cons_of_mem _ hq2)
    simp only [addFit]
    split
    · exact ih s h hq'
    · split
      · exact h
      · exact ih _ (good_addItem _ h (hq p (by simp))) hq'

theorem good_evict {Q : Bytes → Int → Prop} (now : Nat) (ns : Int) (s : St) (ks : List Bytes) (h : AllGood Q s) :
    AllGood Q (evict now ns s ks) := by
  induction ks generalizing s with
  | nil => exact h
  | cons k ks ih =>
    simp only [evict]
    split
    · exact ih s h
    · split
      · exact h
      · split
        · exact h
        · exact ih _ (good_removeItem _ _ h)

theorem good_removeVisited {Q : Bytes → Int → Prop} (now : Nat) (s : St) (ks : List Bytes) (h : AllGood Q s) :
    AllGood Q (removeVisited now s ks) := by
  induction ks generalizing s with
  | nil => exact h
  | cons k ks ih =>
    simp only [removeVisited]
    split
    · exact ih s h
    · split
      · exact ih _ (good_removeItem _ _ h)
      · exact ih s h

/-- what the filter loop of AddValues lets through -/
theorem acceptable_spec {s : St} {p : Pair} (h : acceptable s p = true) : p.1 ≠ [] ∧ isMarker p.2 = false := by
  simp [acceptable] at h
  exact ⟨by intro hh; simp [hh] at h, h.2⟩

theorem good_addValues {Q : Bytes → Int → Prop} (v : Variant) (s : St) (now : Nat) (pairs : List Pair) (cands : List Bytes)
    (h : AllGood Q s) (hq : ∀ p ∈ pairs, p.1 ≠ [] → isMarker p.2 = false → Q p.1 p.2) :
    AllGood Q (addValues v s now pairs cands) := by
  have hps : ∀ p ∈ pairs.filter (acceptable s), Q p.1 p.2 := by
    intro p hp
    have := List.mem_filter.mp hp
    have hs := acceptable_spec this.2
    exact hq p this.1 hs.1 hs.2
  unfold addValues
  simp only
  split
  · exact h
  · split
    · exact good_addAll v now s _ h hps
    · exact good_addFit v now _ _ (good_evict _ _ _ _ h) hps

/-! ### size bound -/

theorem sumSize_addAll_le (v : Variant) (now : Nat) (s : St) (ps : List Pair) :
    (addAll v now s ps).sumSize ≤ s.sumSize + newSize ps ∧ (addAll v now s ps).maxSize = s.maxSize := by
  induction ps generalizing s with
  | nil => simp [addAll, newSize]
  | cons p ps ih =>
    have hn : newSize (p :: ps) = elementSize p.1 + newSize ps := by simp [newSize]
    have h0 := elementSize_nonneg p.1
    simp only [addAll]
    split
    · have := ih s; exact ⟨by omega, this.2⟩
    · have := ih (addItem s p.1 p.2 now)
      simp only [addItem] at this ⊢
      exact ⟨by omega, this.2⟩

theorem sumSize_addFit_le (v : Variant) (now : Nat) (s : St) (ps : List Pair) :
    (addFit v now s ps).sumSize ≤ max s.maxSize s.sumSize ∧ (addFit v now s ps).maxSize = s.maxSize := by
  induction ps generalizing s with
  | nil => simp [addFit]; omega
  | cons p ps ih =>
    simp only [addFit]
    split
    · exact ih s
    · split
      · exact ⟨by omega, rfl⟩
      · rename_i hr
        have := ih (addItem s p.1 p.2 now)
        simp only [noRoom, decide_eq_true_eq, Int.not_lt] at hr
        simp only [addItem] at this ⊢
        exact ⟨by omega, this.2⟩

theorem sumSize_evict_le (now : Nat) (ns : Int) (s : St) (ks : List Bytes) :
    (evict now ns s ks).sumSize ≤ s.sumSize ∧ (evict now ns s ks).maxSize = s.maxSize := by
  induction ks generalizing s with
  | nil => simp [evict]
  | cons k ks ih =>
    simp only [evict]
    split
    · exact ih s
    · rename_i e he
      split
      · simp
      · split
        · simp
        · have := ih (removeItem s k e.ts)
          have h0 := elementSize_nonneg k
          simp only [removeItem] at this ⊢
          exact ⟨by omega, this.2⟩

/-- C21 (cache, size): AddValues never grows the cache beyond the configured size: afterwards
    `sumSize ≤ max maxSize (sumSize before)` — for every candidate list, in both variants of the code. -/
theorem addValues_size_bound (v : Variant) (s : St) (now : Nat) (pairs : List Pair) (cands : List Bytes) :
    (addValues v s now pairs cands).sumSize ≤ max s.maxSize s.sumSize ∧
    (addValues v s now pairs cands).maxSize = s.maxSize := by
  unfold addValues
  simp only
  split
  · exact ⟨by omega, rfl⟩
  · split
    · rename_i hf
      have := sumSize_addAll_le v now s (pairs.filter (acceptable s))
      simp only [fits, decide_eq_true_eq] at hf
      show (addAll v now s (pairs.filter (acceptable s))).sumSize ≤ _ ∧ (addAll v now s (pairs.filter (acceptable s))).maxSize = _
      exact ⟨by omega, this.2⟩
    · have h1 := sumSize_evict_le now (newSize (pairs.filter (acceptable s))) s cands
      have h2 := sumSize_addFit_le v now (evict now (newSize (pairs.filter (acceptable s))) s cands) (pairs.filter (acceptable s))
      show (addFit v now (evict now (newSize (pairs.filter (acceptable s))) s cands) (pairs.filter (acceptable s))).sumSize ≤ _ ∧
        (addFit v now (evict now (newSize (pairs.filter (acceptable s))) s cands) (pairs.filter (acceptable s))).maxSize = _
      exact ⟨by omega, by rw [h2.2, h1.2]⟩


/-! ### load -/

theorem exact_loadInsert {s : St} (it : Bytes × Entry) (h : Exact s) : Exact (loadInsert s it) := by
  unfold loadInsert
  split
  · exact h
  · rename_i hp
    have hk : find s.cache it.1 = none := present_false_iff.mp (by simpa using hp)
    have := put_absent (c := s.cache) (k := it.1) it.2 hk
    refine ⟨?_, ?_, ?_⟩
    · simp only; rw [this.1]
      exact List.nodup_append.mpr ⟨h.nodup, by simp, by
        intro a ha b hb; simp at hb; subst hb; intro hab; subst hab; exact (find_none_iff.mp hk) ha⟩
    · simp only; rw [this.2.1, h.size]
    · simp only; rw [this.2.2, h.ts]

theorem exact_loadItems (s : St) (body : Bytes) (h : Exact s) : Exact (loadItems s body).1 := by
  fun_induction loadItems s body with
  | case1 s body hb => exact h
  | case2 s body hb e he => exact h
  | case3 s body hb it rest he ih => exact ih (exact_loadInsert it h)

theorem exact_loadRest (H : Bytes → Bytes) (s : St) (prev rest : Bytes) (h : Exact s) :
    Exact (loadRest H s prev rest).1 := by
  fun_induction loadRest H s prev rest with
  | case1 s prev rest hr => exact h
  | case2 s prev rest e hr => exact h
  | case3 s prev rest body stored rest' hr hb => exact h
  | case4 s prev rest body stored rest' hr hb r hsome => exact exact_loadItems s body h
  | case5 s prev rest body stored rest' hr hb r hnone ih => exact ih (exact_loadItems s body h)

theorem exact_empty (m t : Int) (st : Chunked.St) : Exact { maxSize := m, maxTTL := t, store := st } :=
  ⟨by simp [keys], by simp [totalSize], by simp [totalTS]⟩

/-- C21 (cache, load): whatever bytes are in the file, the cache built by `load` has exact accounting -/
theorem exact_loadNew (H : Bytes → Bytes) (file : Bytes) (maxSize : Int) : Exact (loadNew H file maxSize).1 :=
  exact_loadRest H _ _ _ (exact_empty _ _ _)


/-! ## op sequences -/

inductive Op
  | add (now : Nat) (pairs : List Pair) (cands : List Bytes)
  | get (ts : Nat) (k : Bytes)
  | ttl (now : Nat) (visited : List Bytes)
  | setSizeTTL (maxSize maxTTL : Int)
  | stats
  | save (order : Cache)
  /-- restart: a fresh cache is loaded from the stored file after an arbitrary transformation `dmg` of its bytes
      (`id` = clean restart, `(·.take n)` = truncation, `(·.set p v)` = a changed byte, a constant = any file at all) -/
  | reload (dmg : Bytes → Bytes) (maxSize : Int)

def step (H : Bytes → Bytes) (v : Variant) (s : St) : Op → St
  | .add now pairs cands => addValues v s now pairs cands
  | .get ts k => (getValue s ts k).1
  | .ttl now visited => removeByTTL s now visited
  | .setSizeTTL a b => setSizeTTL s a b
  | .stats => stats s
  | .save order => (save H s order).1
  | .reload dmg m => (loadNew H (dmg s.store.file) m).1

def run (H : Bytes → Bytes) (v : Variant) (s : St) (ops : List Op) : St := ops.foldl (step H v) s

/-- an empty cache with limits `m`, `t` over an empty file -/
def init (m t : Int) : St := { maxSize := m, maxTTL := t, store := Chunked.new [] }

theorem save_cache (H : Bytes → Bytes) (s : St) (order : Cache) :
    (save H s order).1.cache = s.cache ∧ (save H s order).1.sumSize = s.sumSize ∧ (save H s order).1.sumTS = s.sumTS ∧
    (save H s order).1.maxSize = s.maxSize := by
  unfold save; split <;> simp

theorem exact_step (H : Bytes → Bytes) (s : St) (op : Op) (h : Exact s) : Exact (step H .fixed s op) := by
  cases op with
  | add now pairs cands => exact exact_addValues s now pairs cands h
  | get ts k => exact exact_getValue ts k h
  | ttl now visited => exact exact_removeVisited now s visited h
  | setSizeTTL a b => exact ⟨h.nodup, h.size, h.ts⟩
  | stats => exact ⟨h.nodup, h.size, h.ts⟩
  | save order =>
    have := save_cache H s order
    exact ⟨by simp only [step]; rw [this.1]; exact h.nodup, by simp only [step]; rw [this.1, this.2.1]; exact h.size,
      by simp only [step]; rw [this.1, this.2.2.1]; exact h.ts⟩
  | reload dmg m => exact exact_loadNew H _ m

/-- C21 (cache, accounting): for EVERY sequence of add / get / evict-by-TTL / resize / stats / save / restart operations —
    every eviction candidate list, every visit order, every write order, every damage to the file — the cache holds at
    most one entry per string, `sumSize` is exactly the sum of the element sizes and `sumTS` exactly the sum of the access
    times.  (Fixed code; `dupAdd_breaks_accounting` below shows the pinned code violates it.) -/
theorem accounting_exact (H : Bytes → Bytes) (ops : List Op) (s : St) (h : Exact s) : Exact (run H .fixed s ops) := by
  induction ops generalizing s with
  | nil => exact h
  | cons op ops ih => exact ih _ (exact_step H s op h)

theorem accounting_exact_from_init (H : Bytes → Bytes) (m t : Int) (ops : List Op) : Exact (run H .fixed (init m t) ops) :=
  accounting_exact H ops _ (exact_empty _ _ _)

theorem totals_nonneg (c : Cache) : 0 ≤ totalSize c ∧ 0 ≤ totalTS c := by
  induction c with
  | nil => simp [totalSize, totalTS]
  | cons p c ih =>
    have := elementSize_nonneg p.1
    simp only [totalSize, totalTS, List.map_cons, List.sum_cons] at ih ⊢
    constructor <;> omega

/-- the `panic("sumSize negative …")` / `panic("sumTS negative …")` states are unreachable -/
theorem sums_never_negative (H : Bytes → Bytes) (m t : Int) (ops : List Op) :
    0 ≤ (run H .fixed (init m t) ops).sumSize ∧ 0 ≤ (run H .fixed (init m t) ops).sumTS := by
  have h := accounting_exact_from_init H m t ops
  rw [h.size, h.ts]; exact totals_nonneg _

/-- operations that neither change the limit nor restart -/
def Op.plain : Op → Prop
  | .setSizeTTL _ _ => False
  | .reload _ _ => False
  | _ => True

theorem removeVisited_size (now : Nat) (s : St) (ks : List Bytes) :
    (removeVisited now s ks).sumSize ≤ s.sumSize ∧ (removeVisited now s ks).maxSize = s.maxSize := by
  induction ks generalizing s with
  | nil => simp [removeVisited]
  | cons k ks ih =>
    simp only [removeVisited]
    split
    · exact ih s
    · rename_i e he
      split
      · have := ih (removeItem s k e.ts)
        have h0 := elementSize_nonneg k
        simp only [removeItem] at this ⊢
        exact ⟨by omega, this.2⟩
      · exact ih s

theorem step_size_bound (H : Bytes → Bytes) (v : Variant) (s : St) (op : Op) (hp : op.plain) :
    (step H v s op).sumSize ≤ max s.maxSize s.sumSize ∧ (step H v s op).maxSize = s.maxSize := by
  cases op with
  | add now pairs cands => exact addValues_size_bound v s now pairs cands
  | get ts k => have := getValue_same_fields s ts k; simp only [step]; exact ⟨by omega, this.2⟩
  | ttl now visited => have := removeVisited_size now s visited; simp only [step, removeByTTL]; exact ⟨by omega, this.2⟩
  | setSizeTTL a b => exact absurd hp (by simp [Op.plain])
  | stats => simp only [step, stats]; exact ⟨by omega, trivial⟩
  | save order => have := save_cache H s order; simp only [step]; exact ⟨by omega, this.2.2.2⟩
  | reload dmg m => exact absurd hp (by simp [Op.plain])

/-- C21 (cache, size): as long as the limit is not changed, a cache that is within its configured size stays within it —
    for every op sequence, every candidate list, both variants of the code. -/
theorem size_never_exceeds (H : Bytes → Bytes) (v : Variant) (ops : List Op) (s : St) (hp : ∀ op ∈ ops, op.plain)
    (h : s.sumSize ≤ s.maxSize) :
    (run H v s ops).sumSize ≤ s.maxSize ∧ (run H v s ops).maxSize = s.maxSize := by
  induction ops generalizing s with
  | nil => exact ⟨h, rfl⟩
  | cons op ops ih =>
    have h1 := step_size_bound H v s op (hp op (by simp))
    have := ih (step H v s op) (fun o ho => hp o (List.mem_cons_of_mem _ ho)) (by omega)
    simp only [run, List.foldl_cons] at this ⊢
    exact ⟨by omega, by omega⟩

/-! ### values -/

/-- `(k, v)` may be served: the string is not empty, the value is no marker (0, mapping-flood, does-not-exist) and
    the pair was handed to AddValues -/
def GoodVal (A : List Pair) (k : Bytes) (v : Int) : Prop := k ≠ [] ∧ isMarker v = false ∧ (k, v) ∈ A

/-- all pairs ever handed to AddValues -/
def added : List Op → List Pair
  | [] => []
  | .add _ pairs _ :: ops => pairs ++ added ops
  | _ :: ops => added ops

/-- hypothesis about restarts: everything `load` accepts from the (possibly damaged) file satisfies `Q`.
    `reload_after_save_good` (below) discharges it for files written by Save and read back intact or truncated anywhere;
    `corrupt_detected` reduces the corrupted case to a hash coincidence. -/
def ReloadsGood (H : Bytes → Bytes) (v : Variant) (Q : Bytes → Int → Prop) : St → List Op → Prop
  | _, [] => True
  | s, op :: ops =>
    (match op with
     | .reload dmg m => AllGood Q (loadNew H (dmg s.store.file) m).1
     | _ => True) ∧ ReloadsGood H v Q (step H v s op) ops

theorem good_step (H : Bytes → Bytes) (v : Variant) (A : List Pair) (s : St) (op : Op) (h : AllGood (GoodVal A) s)
    (hA : ∀ now pairs cands, op = .add now pairs cands → ∀ p ∈ pairs, p ∈ A)
    (hr : ∀ dmg m, op = .reload dmg m → AllGood (GoodVal A) (loadNew H (dmg s.store.file) m).1) :
    AllGood (GoodVal A) (step H v s op) := by
  cases op with
  | add now pairs cands =>
    exact good_addValues v s now pairs cands h (fun p hp h1 h2 => ⟨h1, h2, hA now pairs cands rfl p hp⟩)
  | get ts k => exact good_getValue ts k h
  | ttl now visited => exact good_removeVisited now s visited h
  | setSizeTTL a b => exact h
  | stats => exact h
  | save order => intro p hp; simp only [step] at hp; rw [(save_cache H s order).1] at hp; exact h p hp
  | reload dmg m => exact hr dmg m rfl

theorem good_run (H : Bytes → Bytes) (v : Variant) (A : List Pair) (ops : List Op) (s : St) (h : AllGood (GoodVal A) s)
    (hA : ∀ p ∈ added ops, p ∈ A) (hr : ReloadsGood H v (GoodVal A) s ops) : AllGood (GoodVal A) (run H v s ops) := by
  induction ops generalizing s with
  | nil => exact h
  | cons op ops ih =>
    have hs : AllGood (GoodVal A) (step H v s op) := by
      apply good_step H v A s op h
      · intro now pairs cands he p hp; subst he; exact hA p (by simp [added, hp])
      · intro dmg m he; subst he; exact hr.1
    apply ih _ hs
    · intro p hp; apply hA
      cases op <;> simp [added, hp]
    · exact hr.2

/-- C21 (cache, values): after ANY op sequence from an empty cache, every cached entry — hence everything GetValue can
    return — has a non-empty string, a non-marker value, and is a (string, value) pair that some AddValues call of the
    sequence was given for exactly this string. (Apply it to a prefix of the history to see that the pair was added BEFORE.) -/
theorem cache_values_are_added (H : Bytes → Bytes) (v : Variant) (m t : Int) (ops : List Op)
    (hr : ReloadsGood H v (GoodVal (added ops)) (init m t) ops) :
    AllGood (GoodVal (added ops)) (run H v (init m t) ops) :=
  good_run H v _ ops _ (by intro p hp; simp [init] at hp) (fun _ hp => hp) hr

/-- C21 (cache, GetValue): never a value for another string, never a marker value -/
theorem get_returns_added_value (H : Bytes → Bytes) (v : Variant) (m t : Int) (ops : List Op) (ts : Nat) (k : Bytes) (x : Int)
    (hr : ReloadsGood H v (GoodVal (added ops)) (init m t) ops)
    (hg : (getValue (run H v (init m t) ops) ts k).2 = some x) :
    k ≠ [] ∧ x ≠ 0 ∧ x ≠ markerFlood ∧ x ≠ markerNotExist ∧ (k, x) ∈ added ops := by
  obtain ⟨e, he, hx⟩ := getValue_result hg
  have := cache_values_are_added H v m t ops hr (k, e) (find_some_mem he)
  subst hx
  obtain ⟨h1, h2, h3⟩ := this
  simp only [isMarker, Bool.or_eq_false_iff, beq_eq_false_iff_ne] at h2
  exact ⟨h1, h2.1.1, h2.1.2, h2.2, h3⟩




/-! ## the item codec of Save / load -/

/-- what the Go types guarantee about an entry (int32 value, uint32 access time) plus a string shorter than 2^24 bytes
    (anything longer cannot be an item of a chunk anyway) -/
structure WFItem (it : Bytes × Entry) : Prop where
  klen : it.1.length < 16777216
  vlo : -2147483648 ≤ it.2.val
  vhi : it.2.val < 2147483648
  ts32 : it.2.ts < 4294967296

theorem readU32_le4 (n : Nat) (rest : Bytes) (h : n < 4294967296) : readU32 (le 4 n ++ rest) = .ok (n, rest) := by
  have h4 : (le 4 n).length = 4 := le_length _ _
  unfold readU32
  have : ¬ ((le 4 n ++ rest).length < 4) := by simp [h4]
  simp only [this, if_false]
  rw [List.take_left' h4, List.drop_left' h4, unle_le 4 n (by omega)]

theorem int_u32_roundtrip (v : Int) (h1 : -2147483648 ≤ v) (h2 : v < 2147483648) : intOfU32 (u32OfInt v) = v := by
  unfold intOfU32 u32OfInt
  by_cases hv : 0 ≤ v
  · have : v % 4294967296 = v := Int.emod_eq_of_lt hv (by omega)
    rw [this]
    have h3 : ¬ (v.toNat ≥ 2147483648) := by omega
    simp only [h3, if_false]; omega
  · have : v % 4294967296 = v + 4294967296 := by omega
    rw [this]
    have h3 : (v + 4294967296).toNat ≥ 2147483648 := by omega
    simp only [h3, if_true]; omega

theorem paddingLen_lt (l : Nat) : paddingLen l < 4 := by unfold paddingLen; omega

theorem readStringTail_ok (k rest : Bytes) (p : Nat) :
    readStringTail (k ++ (List.replicate (paddingLen p) 0 ++ rest)) k.length p = .ok (k, rest) := by
  unfold readStringTail
  have h1 : ¬ ((k ++ (List.replicate (paddingLen p) 0 ++ rest)).length < k.length) := by simp
  have h2 : ¬ ((k ++ (List.replicate (paddingLen p) 0 ++ rest)).length < k.length + paddingLen p) := by simp
  have h3 : ((k ++ (List.replicate (paddingLen p) (0 : UInt8) ++ rest)).drop k.length).take (paddingLen p)
      = List.replicate (paddingLen p) 0 := by
    rw [List.drop_left' rfl]; exact List.take_left' (by simp)
  have h4 : (List.replicate (paddingLen p) (0 : UInt8)).any (· != 0) = false := by
    simp
  simp only [h1, h2, if_false, h3, h4, Bool.false_eq_true]
  rw [List.take_left' rfl]
  have : k ++ (List.replicate (paddingLen p) 0 ++ rest) = (k ++ List.replicate (paddingLen p) 0) ++ rest := by simp
  rw [this, List.drop_left' (by simp)]

theorem readString_tlString (k rest : Bytes) (hk : k.length < 16777216) :
    readString (tlString k ++ rest) = .ok (k, rest) := by
  unfold tlString
  by_cases h1 : k.length ≤ 253
  · simp only [h1, if_true, List.cons_append, List.append_assoc]
    unfold readString
    have : (UInt8.ofNat k.length).toNat = k.length := by simp [UInt8.toNat_ofNat']; omega
    simp only [this, h1, if_true]
    exact readStringTail_ok k rest (k.length + 1)
  · have h2 : k.length ≤ 16777215 := by omega
    simp only [h1, h2, if_false, if_true, List.cons_append, List.append_assoc]
    unfold readString
    have e254 : (254 : UInt8).toNat = 254 := rfl
    simp only [e254, show ¬ (254 ≤ 253) by omega, if_false, if_true]
    unfold readLongString
    have h3l : (le 3 k.length).length = 3 := le_length _ _
    have hl : ¬ (((254 : UInt8) :: (le 3 k.length ++ (k ++ (List.replicate (paddingLen k.length) 0 ++ rest)))).length < 1 + 3) := by
      simp [h3l]
    have hu : unle ((((254 : UInt8) :: (le 3 k.length ++ (k ++ (List.replicate (paddingLen k.length) 0 ++ rest)))).drop 1).take 3) = k.length := by
      simp only [List.drop_succ_cons, List.drop_zero]
      rw [List.take_left' h3l, unle_le 3 _ (by omega)]
    simp only [hl, if_false, hu, h1]
    have hd : ((254 : UInt8) :: (le 3 k.length ++ (k ++ (List.replicate (paddingLen k.length) 0 ++ rest)))).drop (1 + 3)
        = k ++ (List.replicate (paddingLen k.length) 0 ++ rest) := by
      rw [show 1 + 3 = 3 + 1 by rfl, List.drop_succ_cons, List.drop_left' h3l]
    rw [hd]
    exact readStringTail_ok k rest k.length

/-- decode ∘ encode = id for one element -/
theorem readItem_encItem (it : Bytes × Entry) (rest : Bytes) (h : WFItem it) :
    readItem (encItem it ++ rest) = .ok (it, rest) := by
  obtain ⟨k, e⟩ := it
  unfold readItem encItem
  simp only [List.append_assoc]
  rw [readString_tlString k _ h.klen]
  simp only
  rw [readU32_le4 _ _ (by unfold u32OfInt; have := h.vlo; have := h.vhi; omega)]
  simp only
  rw [readU32_le4 _ _ h.ts32]
  simp only [int_u32_roundtrip e.val h.vlo h.vhi]


/-! ## load = decode the chunks the reader returns -/

/-- the body of one chunk: the encodings of a group of elements -/
def encGroup (g : Cache) : Bytes := (g.map encItem).flatten

theorem loadItems_nil (s : St) : loadItems s [] = (s, none) := by
  rw [loadItems]; simp

theorem loadItems_ok {s : St} {body rest : Bytes} {it : Bytes × Entry} (hne : body.isEmpty = false)
    (h : readItem body = .ok (it, rest)) : loadItems s body = loadItems (loadInsert s it) rest := by
  rw [loadItems]
  simp only [hne, Bool.false_eq_true, if_false]
  split
  · rename_i h'; rw [h] at h'; cases h'
  · rename_i h'; rw [h] at h'; cases h'; rfl

theorem encItem_ne_nil (it : Bytes × Entry) : (encItem it).isEmpty = false := by
  have : (encItem it).length ≥ 8 := by simp [encItem, le_length]
  cases h : encItem it with
  | nil => rw [h] at this; simp at this
  | cons a l => rfl

theorem loadItems_encGroup (s : St) (g : Cache) (hwf : ∀ it ∈ g, WFItem it) :
    loadItems s (encGroup g) = (g.foldl loadInsert s, none) := by
  induction g generalizing s with
  | nil => simp [encGroup, loadItems_nil]
  | cons it g ih =>
    have e : encGroup (it :: g) = encItem it ++ encGroup g := by simp [encGroup]
    have hne : (encGroup (it :: g)).isEmpty = false := by
      rw [e]
      have := encItem_ne_nil it
      cases h : encItem it with
      | nil => rw [h] at this; simp at this
      | cons a l => rfl
    rw [loadItems_ok hne (by rw [e]; exact readItem_encItem it _ (hwf it (by simp)))]
    rw [ih _ (fun x hx => hwf x (List.mem_cons_of_mem _ hx))]
    rfl

/-- `load` as a function of what the chunk reader returns -/
def loadChunks (s : St) : List Bytes → Option Err → St × Option LoadErr
  | [], e => (s, e.map .chunk)
  | c :: cs, e =>
    if c.isEmpty then (s, none)
    else if (loadItems s c).2.isSome then loadItems s c
    else loadChunks (loadItems s c).1 cs e

theorem readAll_eof {H : Bytes → Bytes} {magic : Nat} {prev rest : Bytes}
    (h : readNext H magic prev rest = .eof) : readAll H magic prev rest = ([], none) := by
  rw [readNext_eof h]; exact readAll_nil H magic prev

/-- the loader sees the file only through the chunk reader: every statement about `readAll` (round trip, truncation,
    corruption) transfers to `load` -/
theorem loadRest_eq_loadChunks (H : Bytes → Bytes) (s : St) (prev rest : Bytes) :
    loadRest H s prev rest
      = loadChunks s (readAll H magicMappings prev rest).1 (readAll H magicMappings prev rest).2 := by
  fun_induction loadRest H s prev rest with
  | case1 s prev rest hr => rw [readAll_eof hr]; rfl
  | case2 s prev rest e hr => rw [readAll_err hr]; rfl
  | case3 s prev rest body stored rest' hr hb => rw [readAll_chunk hr]; simp [loadChunks, hb]
  | case4 s prev rest body stored rest' hr hb r hsome =>
    rw [readAll_chunk hr]
    have hb' : body.isEmpty = false := by simpa using hb
    simp only [loadChunks, hb', Bool.false_eq_true, if_false]
    simp only [r] at hsome
    simp [hsome, r]
  | case5 s prev rest body stored rest' hr hb r hnone ih =>
    rw [readAll_chunk hr]
    have hb' : body.isEmpty = false := by simpa using hb
    simp only [loadChunks, hb', Bool.false_eq_true, if_false]
    have hn : (loadItems s body).2.isSome = false := by simpa [r] using hnone
    simp only [hn, Bool.false_eq_true, if_false]
    exact ih

theorem encGroup_ne_nil {g : Cache} (h : g ≠ []) : (encGroup g).isEmpty = false := by
  cases g with
  | nil => exact absurd rfl h
  | cons it g =>
    have e : encGroup (it :: g) = encItem it ++ encGroup g := by simp [encGroup]
    rw [e]
    have := encItem_ne_nil it
    cases h : encItem it with
    | nil => rw [h] at this; simp at this
    | cons a l => rfl

theorem loadChunks_groups (s : St) (gs : List Cache) (hne : ∀ g ∈ gs, g ≠ []) (hwf : ∀ g ∈ gs, ∀ it ∈ g, WFItem it)
    (e : Option Err) : loadChunks s (gs.map encGroup) e = (gs.flatten.foldl loadInsert s, e.map .chunk) := by
  induction gs generalizing s with
  | nil => rfl
  | cons g gs ih =>
    simp only [List.map_cons, loadChunks, encGroup_ne_nil (hne g (by simp)), Bool.false_eq_true, if_false]
    rw [loadItems_encGroup s g (hwf g (by simp))]
    simp only [Option.isSome_none, Bool.false_eq_true, if_false]
    rw [ih _ (fun x hx => hne x (List.mem_cons_of_mem _ hx)) (fun x hx => hwf x (List.mem_cons_of_mem _ hx))]
    simp [List.foldl_append]

/-! ## reload -/

theorem mappings_params {H : Bytes → Bytes} (hH : ∀ x, (H x).length = 16) : Params H magicMappings :=
  ⟨hH, by decide⟩

/-- a saved file: the chunk bodies are the encodings of non-empty groups of well-formed elements -/
structure SavedAs (H : Bytes → Bytes) (file : Bytes) (gs : List Cache) : Prop where
  hlen : ∀ x, (H x).length = 16
  file_eq : file = encodeAll H magicMappings zeroHash (gs.map encGroup)
  nonempty : ∀ g ∈ gs, g ≠ []
  wf : ∀ g ∈ gs, ∀ it ∈ g, WFItem it
  small : ∀ g ∈ gs, (encGroup g).length ≤ chunkSize

/-- the state `LoadMappingsCacheSlice` starts from -/
def fresh (file : Bytes) (m : Int) : St := { maxSize := m, store := Chunked.new file }

theorem loadNew_eq (H : Bytes → Bytes) (file : Bytes) (m : Int) :
    loadNew H file m = loadChunks (fresh file m) (readAll H magicMappings zeroHash file).1 (readAll H magicMappings zeroHash file).2 :=
  loadRest_eq_loadChunks H _ _ _

/-- C21 (reload after truncation): a saved mapping file cut at ANY offset loads exactly the elements of its first k
    chunks — whole elements only, nothing damaged, nothing invented. -/
theorem load_truncated {H : Bytes → Bytes} {file : Bytes} {gs : List Cache} (hs : SavedAs H file gs) (n : Nat) (m : Int) :
    ∃ k, k ≤ gs.length ∧
      (loadNew H (file.take n) m).1 = (gs.take k).flatten.foldl loadInsert (fresh (file.take n) m) ∧
      ((loadNew H (file.take n) m).2 = none → file.take n = encodeAll H magicMappings zeroHash ((gs.take k).map encGroup)) := by
  have P := mappings_params hs.hlen
  have hb : ∀ b ∈ gs.map encGroup, b.length ≤ chunkSize := by
    intro b hb; obtain ⟨g, hg, rfl⟩ := List.mem_map.mp hb; exact hs.small g hg
  obtain ⟨k, hk, h1, h2⟩ := truncated_gives_prefix P (gs.map encGroup) hb zeroHash n
  rw [← hs.file_eq] at h1 h2
  rw [← List.map_take] at h1 h2
  refine ⟨k, by simpa using hk, ?_, ?_⟩
  · rw [loadNew_eq, h1]
    rw [loadChunks_groups _ _ (fun g hg => hs.nonempty g (List.mem_of_mem_take hg)) (fun g hg => hs.wf g (List.mem_of_mem_take hg))]
  · rw [loadNew_eq, h1]
    rw [loadChunks_groups _ _ (fun g hg => hs.nonempty g (List.mem_of_mem_take hg)) (fun g hg => hs.wf g (List.mem_of_mem_take hg))]
    intro he
    apply h2
    cases hr : (readAll H magicMappings zeroHash (List.take n file)).2 with
    | none => rfl
    | some e => rw [hr] at he; simp at he

theorem good_loadInsert {Q : Bytes → Int → Prop} {s : St} (it : Bytes × Entry) (h : AllGood Q s) (hq : Q it.1 it.2.val) :
    AllGood Q (loadInsert s it) := by
  unfold loadInsert
  split
  · exact h
  · intro p hp
    rcases mem_put hp with hp | hp
    · subst hp; exact hq
    · exact h p hp

theorem good_foldl_loadInsert {Q : Bytes → Int → Prop} (items : Cache) (s : St) (h : AllGood Q s)
    (hq : ∀ it ∈ items, Q it.1 it.2.val) : AllGood Q (items.foldl loadInsert s) := by
  induction items generalizing s with
  | nil => exact h
  | cons it items ih =>
    exact ih _ (good_loadInsert it h (hq it (by simp))) (fun x hx => hq x (List.mem_cons_of_mem _ hx))

/-- discharges `ReloadsGood` for every truncation of a saved file whose elements satisfy `Q` -/
theorem reload_truncated_good {Q : Bytes → Int → Prop} {H : Bytes → Bytes} {file : Bytes} {gs : List Cache}
    (hs : SavedAs H file gs) (hq : ∀ g ∈ gs, ∀ it ∈ g, Q it.1 it.2.val) (n : Nat) (m : Int) :
    AllGood Q (loadNew H (file.take n) m).1 := by
  obtain ⟨k, _, h1, _⟩ := load_truncated hs n m
  rw [h1]
  apply good_foldl_loadInsert
  · intro p hp; simp [fresh] at hp
  · intro it hit
    obtain ⟨g, hg, hig⟩ := List.mem_flatten.mp hit
    exact hq g (List.mem_of_mem_take hg) it hig

theorem put_absent_eq {c : Cache} {k : Bytes} (e : Entry) (h : find c k = none) : put c k e = c ++ [(k, e)] := by
  induction c with
  | nil => rfl
  | cons q c ih =>
    obtain ⟨k', e'⟩ := q
    by_cases hk : k' = k
    · simp [find, hk] at h
    · simp only [find, hk, if_false] at h
      simp [put, hk, ih h]

theorem foldl_loadInsert_nodup (items : Cache) (s : St) (hn : (keys s.cache ++ keys items).Nodup) :
    (items.foldl loadInsert s).cache = s.cache ++ items := by
  induction items generalizing s with
  | nil => simp
  | cons it items ih =>
    have hk : find s.cache it.1 = none := by
      apply find_none_iff.mpr
      intro hmem
      have := List.nodup_append.mp hn
      exact this.2.2 _ hmem _ (by simp [keys]) rfl
    have hp : present s it.1 = false := present_false_iff.mpr hk
    have e1 : (loadInsert s it).cache = s.cache ++ [it] := by
      simp only [loadInsert, hp, Bool.false_eq_true, if_false]
      exact put_absent_eq it.2 hk
    simp only [List.foldl_cons]
    rw [ih (loadInsert s it) (by rw [e1]; simpa [keys, List.append_assoc] using hn), e1]
    simp

theorem totals_perm {a b : Cache} (h : a.Perm b) : totalSize a = totalSize b ∧ totalTS a = totalTS b := by
  induction h with
  | nil => exact ⟨rfl, rfl⟩
  | cons x _ ih => simp only [totalSize, totalTS, List.map_cons, List.sum_cons] at ih ⊢; constructor <;> omega
  | swap x y l => simp only [totalSize, totalTS, List.map_cons, List.sum_cons]; constructor <;> omega
  | trans _ _ ih1 ih2 => exact ⟨ih1.1.trans ih2.1, ih1.2.trans ih2.2⟩

/-- C21 (reload, same contents): if the file holds the elements of the cache in some order (`order` is a permutation of
    the map — Go map order or the deterministic order), split into chunks in any way, then a restart loads a cache with
    exactly the same string → (value, access time) mapping and the same `sumSize` / `sumTS`. -/
theorem reload_same_contents {H : Bytes → Bytes} {file : Bytes} {gs : List Cache} (s : St) (hex : Exact s)
    (hs : SavedAs H file gs) (hperm : gs.flatten.Perm s.cache) (m : Int) :
    (loadNew H file m).2 = none ∧
    (∀ k, find (loadNew H file m).1.cache k = find s.cache k) ∧
    (loadNew H file m).1.sumSize = s.sumSize ∧ (loadNew H file m).1.sumTS = s.sumTS := by
  have P := mappings_params hs.hlen
  have hb : ∀ b ∈ gs.map encGroup, b.length ≤ chunkSize := by
    intro b hb; obtain ⟨g, hg, rfl⟩ := List.mem_map.mp hb; exact hs.small g hg
  have hrt := read_write_roundtrip P (gs.map encGroup) hb
  rw [← hs.file_eq] at hrt
  have hload : loadNew H file m = (gs.flatten.foldl loadInsert (fresh file m), none) := by
    rw [loadNew_eq, hrt, loadChunks_groups _ _ hs.nonempty hs.wf]; rfl
  have hnd : (keys gs.flatten).Nodup := by
    have : (keys gs.flatten).Perm (keys s.cache) := List.Perm.map _ hperm
    exact this.nodup_iff.mpr hex.nodup
  have hcache : (gs.flatten.foldl loadInsert (fresh file m)).cache = gs.flatten := by
    rw [foldl_loadInsert_nodup _ _ (by simpa [fresh, keys] using hnd)]; simp [fresh]
  have hex' : Exact (gs.flatten.foldl loadInsert (fresh file m)) := by
    have : Exact (loadNew H file m).1 := exact_loadNew H file m
    rw [hload] at this; exact this
  have htot := totals_perm hperm
  rw [hload]
  refine ⟨rfl, ?_, ?_, ?_⟩
  · intro k
    simp only [hcache]
    cases hf : find s.cache k with
    | none =>
      apply find_none_iff.mpr
      intro hmem
      have : k ∈ keys s.cache := (List.Perm.map _ hperm).mem_iff.mp hmem
      exact (find_none_iff.mp hf) this
    | some e =>
      exact mem_find_of_nodup hnd (hperm.mem_iff.mpr (find_some_mem hf))
  · show (gs.flatten.foldl loadInsert (fresh file m)).sumSize = s.sumSize
    rw [hex'.size, hcache, htot.1, hex.size]
  · show (gs.flatten.foldl loadInsert (fresh file m)).sumTS = s.sumTS
    rw [hex'.ts, hcache, htot.2, hex.ts]

/-! ## Save writes an encoding -/

theorem encodeAll_snoc (H : Bytes → Bytes) (m : Nat) (prev : Bytes) (xs : List Bytes) (b : Bytes) :
    encodeAll H m prev (xs ++ [b]) = encodeAll H m prev xs ++ encChunk H m (chain H m prev xs) b ∧
    chain H m prev (xs ++ [b]) = H (hashInput m (chain H m prev xs) b) := by
  induction xs generalizing prev with
  | nil => simp [encodeAll, chain]
  | cons x xs ih =>
    have := ih (H (hashInput m prev x))
    simp only [List.cons_append, encodeAll, chain, this.1, this.2, List.append_assoc]
    exact ⟨trivial, trivial⟩

theorem writeAt_take (f a d : Bytes) (off : Nat) (h1 : f.take off = a) (h2 : a.length = off) :
    (writeAt f off d).take (off + d.length) = a ++ d := by
  have hle : off ≤ f.length := by
    have := congrArg List.length h1
    rw [List.length_take, h2] at this; omega
  unfold writeAt
  have : off - f.length = 0 := by omega
  simp only [this, List.replicate_zero, List.append_nil, h1]
  rw [← List.append_assoc]
  exact List.take_left' (by simp [h2])

/-- the writer is between two elements: `done` groups are on disk (a well-formed file prefix), `cur` is pending -/
structure WInv (H : Bytes → Bytes) (done : List Cache) (cur : Cache) (st : Chunked.St) : Prop where
  magic : st.magic = magicMappings
  noErr : st.writeErr = false
  off : st.offset = (encodeAll H magicMappings zeroHash (done.map encGroup)).length
  file : st.file.take st.offset = encodeAll H magicMappings zeroHash (done.map encGroup)
  hash : st.hash = chain H magicMappings zeroHash (done.map encGroup)
  pending : st.pending = encGroup cur
  doneOK : ∀ g ∈ done, g ≠ [] ∧ (encGroup g).length ≤ chunkSize

theorem winv_flush {H : Bytes → Bytes} (hH : ∀ x, (H x).length = 16) {done : List Cache} {cur : Cache} {st : Chunked.St}
    (h : WInv H done cur st) (hne : cur ≠ []) (hsz : (encGroup cur).length ≤ chunkSize) :
    WInv H (done ++ [cur]) [] (finishChunk H false st).1 := by
  have hp : st.pending.isEmpty = false := by rw [h.pending]; exact encGroup_ne_nil hne
  have hsn := encodeAll_snoc H magicMappings zeroHash (done.map encGroup) (encGroup cur)
  have hst : (finishChunk H false st).1 =
      { st with file := writeAt st.file st.offset (encChunk H st.magic st.hash st.pending),
                hash := H (hashInput st.magic st.hash st.pending),
                offset := st.offset + (headerSize + st.pending.length + hashSize), pending := [] } := by
    unfold finishChunk
    simp [hp, h.noErr]
  rw [hst]
  have hcl := encChunk_length H st.magic st.hash st.pending hH
  have key : encChunk H st.magic st.hash st.pending
      = encChunk H magicMappings (chain H magicMappings zeroHash (done.map encGroup)) (encGroup cur) := by
    rw [h.magic, h.hash, h.pending]
  refine ⟨h.magic, h.noErr, ?_, ?_, ?_, by simp [encGroup], ?_⟩
  · simp only [List.map_append, List.map_cons, List.map_nil]
    rw [hsn.1, List.length_append, ← h.off, ← key, hcl, headerSize_val, hashSize_val]
  · simp only [List.map_append, List.map_cons, List.map_nil]
    rw [hsn.1, ← key]
    have := writeAt_take st.file _ (encChunk H st.magic st.hash st.pending) st.offset h.file h.off.symm
    rw [hcl] at this
    rw [headerSize_val, hashSize_val]; exact this
  · simp only [List.map_append, List.map_cons, List.map_nil]
    rw [hsn.2, h.magic, h.hash, h.pending]
  · intro g hg
    rcases List.mem_append.mp hg with hg | hg
    · exact h.doneOK g hg
    · simp at hg; subst hg; exact ⟨hne, hsz⟩

theorem halfChunk_val : halfChunk = 524288 := rfl

theorem winv_item {H : Bytes → Bytes} (hH : ∀ x, (H x).length = 16) {done : List Cache} {cur : Cache} {st : Chunked.St}
    (h : WInv H done cur st) (hb : (encGroup cur).length < halfChunk) (it : Bytes × Entry)
    (hit : (encItem it).length ≤ halfChunk) :
    ∃ done' cur', WInv H done' cur' (finishItem H false (encItem it) st).1 ∧ (encGroup cur').length < halfChunk ∧
      done'.flatten ++ cur' = done.flatten ++ cur ++ [it] := by
  have eg : encGroup (cur ++ [it]) = encGroup cur ++ encItem it := by simp [encGroup]
  have h1 : WInv H done (cur ++ [it]) { st with pending := st.pending ++ encItem it } :=
    ⟨h.magic, h.noErr, h.off, h.file, h.hash, by simp only; rw [h.pending, eg], h.doneOK⟩
  unfold finishItem
  simp only
  by_cases hbel : belowHalf { st with pending := st.pending ++ encItem it } = true
  · simp only [hbel, if_true]
    refine ⟨done, cur ++ [it], h1, ?_, by simp⟩
    simp only [belowHalf, decide_eq_true_eq] at hbel
    rw [eg, ← h.pending]; simpa using hbel
  · simp only [hbel, Bool.false_eq_true, if_false]
    have hlen : (encGroup (cur ++ [it])).length ≤ chunkSize := by
      rw [eg, List.length_append, chunkSize_val]; rw [halfChunk_val] at hb hit; omega
    have hof : overFull { st with pending := st.pending ++ encItem it } = false := by
      simp only [overFull, decide_eq_false_iff_not, Nat.not_lt]
      rw [h.pending, ← eg]; simpa using hlen
    simp only [hof, Bool.false_eq_true, if_false]
    refine ⟨done ++ [cur ++ [it]], [], winv_flush hH h1 (by simp) hlen, by simp [encGroup, halfChunk_val], by simp⟩

theorem winv_items {H : Bytes → Bytes} (hH : ∀ x, (H x).length = 16) (items : Cache) {done : List Cache} {cur : Cache}
    {st : Chunked.St} (h : WInv H done cur st) (hb : (encGroup cur).length < halfChunk)
    (hit : ∀ it ∈ items, (encItem it).length ≤ halfChunk) :
    ∃ done' cur', WInv H done' cur' (writeItems H st items) ∧ (encGroup cur').length < halfChunk ∧
      done'.flatten ++ cur' = done.flatten ++ cur ++ items := by
  induction items generalizing done cur st with
  | nil => exact ⟨done, cur, h, hb, by simp⟩
  | cons it items ih =>
    obtain ⟨d1, c1, h1, hb1, he1⟩ := winv_item hH h hb it (hit it (by simp))
    obtain ⟨d2, c2, h2, hb2, he2⟩ := ih h1 hb1 (fun x hx => hit x (List.mem_cons_of_mem _ hx))
    exact ⟨d2, c2, h2, hb2, by rw [he2, he1]; simp⟩

theorem winv_finish {H : Bytes → Bytes} (hH : ∀ x, (H x).length = 16) {done : List Cache} {cur : Cache} {st : Chunked.St}
    (h : WInv H done cur st) (hb : (encGroup cur).length < halfChunk) :
    ∃ gs : List Cache, gs.flatten = done.flatten ++ cur ∧
      (finishWrite H false st).1.file = encodeAll H magicMappings zeroHash (gs.map encGroup) ∧
      ∀ g ∈ gs, g ≠ [] ∧ (encGroup g).length ≤ chunkSize := by
  by_cases hc : cur = []
  · subst hc
    have hp : st.pending.isEmpty = true := by rw [h.pending]; rfl
    refine ⟨done, by simp, ?_, h.doneOK⟩
    unfold finishWrite finishChunk
    simp [hp, h.file]
  · have hsz : (encGroup cur).length ≤ chunkSize := by rw [chunkSize_val]; rw [halfChunk_val] at hb; omega
    have hf := winv_flush hH h hc hsz
    have hp : st.pending.isEmpty = false := by rw [h.pending]; exact encGroup_ne_nil hc
    refine ⟨done ++ [cur], by simp, ?_, hf.doneOK⟩
    have he : (finishChunk H false st).2 = .none := by
      unfold finishChunk; simp [hp, h.noErr]
    unfold finishWrite
    simp only [he]
    exact hf.file

/-- C21 (Save): what `Save` leaves in the file is a well-formed chunk file whose chunk bodies are the encodings of the
    elements of `order`, in that order, split into non-empty groups each smaller than the chunk limit (the split is
    where FinishItem saw half a chunk filled). -/
theorem save_writes_encoding {H : Bytes → Bytes} (hH : ∀ x, (H x).length = 16) (s : St) (order : Cache)
    (hd : dirty s = true) (hwf : ∀ it ∈ order, WFItem it) (hit : ∀ it ∈ order, (encItem it).length ≤ halfChunk) :
    ∃ gs : List Cache, gs.flatten = order ∧ SavedAs H (save H s order).1.store.file gs := by
  have h0 : WInv H [] [] (startWrite magicMappings (resetToStart s.store)) :=
    ⟨rfl, rfl, by simp [startWrite, resetToStart, encodeAll], by simp [startWrite, resetToStart, encodeAll],
      by simp [startWrite, resetToStart, chain], by simp [startWrite, encGroup], by simp⟩
  obtain ⟨d1, c1, h1, hb1, he1⟩ := winv_items hH order h0 (by simp [encGroup, halfChunk_val]) hit
  obtain ⟨gs, hg1, hg2, hg3⟩ := winv_finish hH h1 hb1
  refine ⟨gs, by rw [hg1, he1]; simp, hH, ?_, fun g hg => (hg3 g hg).1, ?_, fun g hg => (hg3 g hg).2⟩
  · unfold save; simp only [hd, Bool.not_true, Bool.false_eq_true, if_false]; exact hg2
  · intro g hg it hi
    apply hwf
    have : it ∈ gs.flatten := List.mem_flatten.mpr ⟨g, hg, hi⟩
    rw [hg1, he1] at this; simpa using this

/-- C21 (save, then restart): the headline — save a cache with exact accounting in ANY write order that enumerates
    the map, restart from the file: no load error, the same mapping, the same sums. -/
theorem save_then_reload_same {H : Bytes → Bytes} (hH : ∀ x, (H x).length = 16) (s : St) (order : Cache) (m : Int)
    (hex : Exact s) (hd : dirty s = true) (hperm : order.Perm s.cache)
    (hwf : ∀ it ∈ s.cache, WFItem it) (hit : ∀ it ∈ s.cache, (encItem it).length ≤ halfChunk) :
    (loadNew H (save H s order).1.store.file m).2 = none ∧
    (∀ k, find (loadNew H (save H s order).1.store.file m).1.cache k = find s.cache k) ∧
    (loadNew H (save H s order).1.store.file m).1.sumSize = s.sumSize ∧
    (loadNew H (save H s order).1.store.file m).1.sumTS = s.sumTS := by
  obtain ⟨gs, hg, hs⟩ := save_writes_encoding hH s order hd
    (fun it hi => hwf it (hperm.mem_iff.mp hi)) (fun it hi => hit it (hperm.mem_iff.mp hi))
  exact reload_same_contents s hex hs (by rw [hg]; exact hperm) m

/-- C21 (save, then restart from a truncated file): only entries that were in the cache at save time, whole. -/
theorem save_then_truncated_reload_subset {H : Bytes → Bytes} (hH : ∀ x, (H x).length = 16) (s : St) (order : Cache) (n : Nat) (m : Int)
    (hd : dirty s = true) (hperm : order.Perm s.cache)
    (hwf : ∀ it ∈ s.cache, WFItem it) (hit : ∀ it ∈ s.cache, (encItem it).length ≤ halfChunk) :
    ∀ p ∈ (loadNew H ((save H s order).1.store.file.take n) m).1.cache, p ∈ s.cache := by
  obtain ⟨gs, hg, hs⟩ := save_writes_encoding hH s order hd
    (fun it hi => hwf it (hperm.mem_iff.mp hi)) (fun it hi => hit it (hperm.mem_iff.mp hi))
  obtain ⟨k, _, h1, _⟩ := load_truncated hs n m
  rw [h1]
  have : ∀ (items : Cache) (st : St), (∀ q ∈ st.cache, q ∈ s.cache) → (∀ q ∈ items, q ∈ s.cache) →
      ∀ q ∈ (items.foldl loadInsert st).cache, q ∈ s.cache := by
    intro items
    induction items with
    | nil => intro st h1 _; exact h1
    | cons it items ih =>
      intro st h1 h2
      apply ih
      · intro q hq
        unfold loadInsert at hq
        split at hq
        · exact h1 q hq
        · rcases mem_put hq with hq | hq
          · subst hq; exact h2 _ (by simp)
          · exact h1 q hq
      · exact fun q hq => h2 q (List.mem_cons_of_mem _ hq)
  apply this
  · intro q hq; simp [fresh] at hq
  · intro q hq
    obtain ⟨g, hg', hq'⟩ := List.mem_flatten.mp hq
    have : q ∈ gs.flatten := List.mem_flatten.mpr ⟨g, List.mem_of_mem_take hg', hq'⟩
    rw [hg] at this; exact hperm.mem_iff.mp this



/-! ## the regenerated facts the models rely on -/

set_option maxRecDepth 100000 in
/-- `elementSizeMem` of the model agrees with the compiled Go function on the sampled lengths (regenerated on every run) -/
theorem gen_elementSizeMem_samples :
    ∀ p ∈ SH.Gen.C21.elementSizeMemSamples, elementSize (List.replicate p.1 0) = (p.2 : Int) := by decide

set_option maxRecDepth 100000 in
/-- `tlString` has the length of `basictl.StringWrite` on the sampled lengths (tiny / medium boundary, padding) -/
theorem gen_tlString_samples :
    ∀ p ∈ SH.Gen.C21.tlStringLenSamples, (tlString (List.replicate p.1 0)).length = p.2 := by decide

/-! ## witnesses and non-vacuity -/

/-- a toy 16-byte "hash": the first 16 bytes of the input, zero padded (the theorems hold for every H) -/
def toyH (x : Bytes) : Bytes := (x ++ zeroHash).take 16

theorem toy_params : Params toyH 7 :=
  ⟨by intro x; simp [toyH, zeroHash, hashSize_val], by decide⟩

example : readAll toyH 7 zeroHash (encodeAll toyH 7 zeroHash [[1, 2], [3]]) = ([[1, 2], [3]], none) :=
  read_write_roundtrip toy_params _ (by decide)

example : (encodeAll toyH 7 zeroHash [[1, 2], [3]]).length = 51 := by decide

/-- The pinned code (`Variant.dupAdd`): AddValues(10, [{"a",1},{"a",2}]) on an empty cache with room for both.
    One element, but sumSize = 66 = 2·elementSizeMem("a") and sumTS = 20 = 2·10. Replayed on the real code by the
    harness (sig=cache-accounting). -/
def dupWitness : St := addValues .dupAdd (init 1000 0) 10 [([97], 1), ([97], 2)] []

example : dupWitness.cache.length = 1 ∧ dupWitness.sumSize = 66 ∧ totalSize dupWitness.cache = 33 ∧
    dupWitness.sumTS = 20 ∧ totalTS dupWitness.cache = 10 := by decide

theorem dupAdd_breaks_accounting : ¬ Exact dupWitness := by
  intro h
  have := h.size
  revert this
  decide

/-- the fixed code on the same input (first value wins, sums exact) -/
example : (addValues .fixed (init 1000 0) 10 [([97], 1), ([97], 2)] []).cache = [([97], { val := 1, ts := 10 })] ∧
    (addValues .fixed (init 1000 0) 10 [([97], 1), ([97], 2)] []).sumSize = 33 := by decide

/-- eviction reached and the bound of `addValues_size_bound` tight: two 33-byte elements in a 66-byte cache, a third
    one arrives later, the older one goes -/
example : (run toyH .fixed (init 66 0) [.add 10 [([97], 1)] [], .add 11 [([98], 2)] [], .add 20 [([99], 3)] [[97], [98]]]).sumSize = 66 ∧
    (keys (run toyH .fixed (init 66 0) [.add 10 [([97], 1)] [], .add 11 [([98], 2)] [], .add 20 [([99], 3)] [[97], [98]]]).cache) = [[98], [99]] := by
  decide

/-- markers and empty strings are filtered -/
example : (addValues .fixed (init 1000 0) 10 [([97], 0), ([98], -1), ([99], -2), ([], 5), ([100], 7)] []).cache
    = [([100], { val := 7, ts := 10 })] := by decide


/-- discharges `ReloadsGood` for a restart from the file just saved, cut at any offset -/
theorem restart_after_save_good {Q : Bytes → Int → Prop} {H : Bytes → Bytes} (hH : ∀ x, (H x).length = 16) (s : St)
    (order : Cache) (n : Nat) (m : Int) (hq : AllGood Q s) (hd : dirty s = true) (hperm : order.Perm s.cache)
    (hwf : ∀ it ∈ s.cache, WFItem it) (hit : ∀ it ∈ s.cache, (encItem it).length ≤ halfChunk) :
    AllGood Q (loadNew H ((save H s order).1.store.file.take n) m).1 :=
  fun p hp => hq p (save_then_truncated_reload_subset hH s order n m hd hperm hwf hit p hp)

/-- a concrete cache for the hypotheses of the save / restart theorems -/
def twoState : St := addValues .fixed (init 1000 0) 10 [([97], 1), ([98, 99], -7)] []

theorem twoState_cache : twoState.cache = [([97], { val := 1, ts := 10 }), ([98, 99], { val := -7, ts := 10 })] := by decide

theorem twoState_wf : ∀ it ∈ twoState.cache, WFItem it := by
  intro it hi
  rw [twoState_cache] at hi
  simp only [List.mem_cons, List.not_mem_nil, or_false] at hi
  rcases hi with rfl | rfl <;> exact ⟨by decide, by decide, by decide, by decide⟩

theorem twoState_small : ∀ it ∈ twoState.cache, (encItem it).length ≤ halfChunk := by
  intro it hi
  rw [twoState_cache] at hi
  simp only [List.mem_cons, List.not_mem_nil, or_false] at hi
  rcases hi with rfl | rfl <;> decide

/-- non-vacuity of `save_then_reload_same`: all hypotheses hold for a concrete dirty two-element cache and the toy hash -/
example : (∀ k, find (loadNew toyH (save toyH twoState twoState.cache).1.store.file 1000).1.cache k = find twoState.cache k) :=
  (save_then_reload_same toy_params.hlen twoState twoState.cache 1000
    (exact_addValues _ _ _ _ (exact_empty _ _ _)) (by decide)
    (List.Perm.refl _) twoState_wf twoState_small).2.1

/-- the saved file of that cache: one 24-byte body, 48 bytes in all -/
example : (save toyH twoState twoState.cache).1.store.file.length = 48 := by decide

/-- `HashCoincidence` is not an empty escape clause: with a hash that ignores its input every damaged chunk passes -/
example : HashCoincidence (fun _ => zeroHash) 7 [[1]] :=
  ⟨0, by decide, le 4 7 ++ le 4 1 ++ [2] ++ zeroHash, by decide, by decide⟩


end SH.C21
