/-
  SH.Lemmas.TableWhats — getHandlerWhat (property C25, "exactly one column per requested function"): the grouping of the
  requested functions into storage queries drops nothing and keeps the order of the (sorted) request, and every query
  uses between 1 and tsValueCount selectors.
-/
import SH.Lemmas.TablePage

namespace SH.C25
open SH.Table

/-- all functions of the loop state, in order -/
def flatState (s : GroupState) : List Fn := ((s.cur :: s.done).reverse).flatMap (·.sel)

theorem flatState_step (s : GroupState) (w : Fn) : flatState (groupStep s w) = flatState s ++ [w] := by
  unfold groupStep flatState
  split
  · split <;> simp [List.flatMap_append]
  · simp [List.flatMap_append, newQuery]

theorem flatState_fold : ∀ (ws : List Fn) (s : GroupState), flatState (ws.foldl groupStep s) = flatState s ++ ws := by
  intro ws
  induction ws with
  | nil => intro s; simp
  | cons w ws ih => intro s; simp [List.foldl_cons, ih, flatState_step]

/-- the concatenation of the queries' function lists is the list that was grouped: nothing dropped, nothing
    duplicated, order kept -/
theorem groupSorted_concat (ws : List Fn) : (groupSorted ws).flatMap (·.sel) = ws := by
  cases ws with
  | nil => simp [groupSorted]
  | cons w ws =>
    have := flatState_fold ws { done := [], cur := newQuery w }
    simp only [flatState] at this
    simp only [groupSorted]
    rw [this]
    simp [newQuery]

theorem insertFn_perm (x : Fn) : ∀ l : List Fn, (insertFn x l).Perm (x :: l) := by
  intro l
  induction l with
  | nil => simp [insertFn]
  | cons y ys ih =>
    simp only [insertFn]
    split
    · exact List.Perm.refl _
    · exact (List.Perm.cons y ih).trans (List.Perm.swap x y ys)

/-- sorting the request permutes it -/
theorem sortFns_perm : ∀ l : List Fn, (sortFns l).Perm l := by
  intro l
  induction l with
  | nil => simp [sortFns]
  | cons x xs ih => simp only [sortFns]; exact (insertFn_perm x _).trans (List.Perm.cons x ih)

theorem insertFn_sorted (x : Fn) : ∀ l : List Fn, l.Pairwise (fun a b => a.digest ≤ b.digest) →
    (insertFn x l).Pairwise (fun a b => a.digest ≤ b.digest) := by
  intro l
  induction l with
  | nil => intro _; simp [insertFn]
  | cons y ys ih =>
    intro hp
    have p := List.pairwise_cons.1 hp
    simp only [insertFn]
    split
    · rename_i h
      refine List.pairwise_cons.2 ⟨?_, hp⟩
      intro z hz
      simp only [List.mem_cons] at hz
      rcases hz with rfl | hz
      · omega
      · have := p.1 z hz; omega
    · rename_i h
      refine List.pairwise_cons.2 ⟨?_, ih p.2⟩
      intro z hz
      have := (insertFn_perm x ys).mem_iff.1 hz
      simp only [List.mem_cons] at this
      rcases this with rfl | hz'
      · omega
      · exact p.1 z hz'

/-- … into ascending function codes -/
theorem sortFns_sorted : ∀ l : List Fn, (sortFns l).Pairwise (fun a b => a.digest ≤ b.digest) := by
  intro l
  induction l with
  | nil => simp [sortFns]
  | cons x xs ih => simp only [sortFns]; exact insertFn_sorted x _ ih

/-- every storage query uses at least one and at most tsValueCount (= len(tsWhat)) selectors -/
def QryOk (g : HandlerWhat) : Prop := 1 ≤ g.qry.length ∧ g.qry.length ≤ tsValueCount

theorem groupStep_qryOk (s : GroupState) (w : Fn) (h : QryOk s.cur ∧ ∀ g ∈ s.done, QryOk g) :
    QryOk (groupStep s w).cur ∧ ∀ g ∈ (groupStep s w).done, QryOk g := by
  unfold groupStep
  split
  · rename_i hlt
    split
    · refine ⟨?_, h.2⟩
      simp only [QryOk, List.length_append, List.length_singleton] at *
      omega
    · exact ⟨h.1, h.2⟩
  · refine ⟨by simp [QryOk, newQuery, tsValueCount], ?_⟩
    intro g hg
    simp only [List.mem_cons] at hg
    rcases hg with rfl | hg
    · exact h.1
    · exact h.2 g hg

theorem fold_qryOk : ∀ (ws : List Fn) (s : GroupState), (QryOk s.cur ∧ ∀ g ∈ s.done, QryOk g) →
    QryOk (ws.foldl groupStep s).cur ∧ ∀ g ∈ (ws.foldl groupStep s).done, QryOk g := by
  intro ws
  induction ws with
  | nil => intro s h; simpa using h
  | cons w ws ih => intro s h; simp only [List.foldl_cons]; exact ih _ (groupStep_qryOk s w h)

theorem groupSorted_qryOk (ws : List Fn) : ∀ g ∈ groupSorted ws, QryOk g := by
  cases ws with
  | nil => intro g hg; simp [groupSorted] at hg
  | cons w ws =>
    have := fold_qryOk ws { done := [], cur := newQuery w } ⟨by simp [QryOk, newQuery, tsValueCount], by simp⟩
    intro g hg
    simp only [groupSorted, List.mem_reverse, List.mem_cons] at hg
    rcases hg with rfl | hg
    · exact this.1
    · exact this.2 g hg

/-- the columns of the table request, query by query, are the value fields of the sorted request in order -/
theorem colsOf_flatten (request : List Fn) : (colsOf request).flatten = (sortFns request).map (·.field) := by
  have h := groupSorted_concat (sortFns request)
  simp only [colsOf, getHandlerWhat]
  rw [← List.flatMap_def]
  conv => rhs; rw [← h]
  simp only [List.flatMap_def, List.map_flatten, List.map_map]
  rfl

theorem colsOf_total (request : List Fn) : ((colsOf request).map List.length).sum = request.length := by
  have h := congrArg List.length (colsOf_flatten request)
  rw [List.length_flatten, List.length_map, (sortFns_perm request).length_eq] at h
  exact h

end SH.C25
