/-
  SH.Lemmas.DeliveryEraser — the fail-safe eraser pass (goEraseHistoric) keeps the agent invariant and never makes a
  second unaccounted for.
-/
import SH.Lemmas.Delivery
namespace SH.Delivery
open SH.Gen.C01

theorem keeps_eraserStep {P : Nat → Prop} {a : Agent} (now : Nat) (over : Bool) (h : AInv P a []) :
    Keeps P a [] (eraserStep a now over) [] := by
  unfold eraserStep
  cases hp : pop a now with
  | mk a' oc =>
    cases oc with
    | none => exact Keeps.refl h
    | some c =>
      simp only
      have hk := keeps_pop h hp
      have drop : ∀ o, Keeps P a [] { diskErase a' c.id with dropped := a'.dropped ++ [c.sec], oow := o } [] := by
        intro o
        rw [diskErase_with]
        refine hk.trans (fun h' => ?_)
        have h1 : Keeps P a' [c] { a' with dropped := a'.dropped ++ [c.sec], oow := o } [c] :=
          keeps_frame h' rfl rfl rfl rfl (fun t ht => by simp [ht]) (fun t ht => ht)
        exact h1.trans (fun h'' => keeps_diskErase (by simp [accA]) h'')
      split
      · exact drop _
      · split
        · exact drop _
        · exact hk.trans (fun h' => keeps_appendHist h')

theorem eraserStep_flights (a : Agent) (now : Nat) (over : Bool) : (eraserStep a now over).flights = a.flights := by
  unfold eraserStep
  have hpf := pop_flights a now
  cases hp : pop a now with
  | mk a' oc =>
    rw [hp] at hpf; simp only at hpf
    cases oc with
    | none => rfl
    | some c =>
      simp only
      have hA : ∀ (b : Agent) (d : Cbd), (appendHist b d).flights = b.flights := by
        intro b d; unfold appendHist; (repeat' split) <;> rfl
      (repeat' split) <;> first | (simp only [diskErase_flights, hpf]) | (rw [hA, hpf])

theorem sinv_erase {s : State} (now : Nat) (over : Bool) (h : SInv s []) : SInv (step s (.erase now over)).1 [] :=
  SInv.setAg (s := s) (a := s.ag) h (fun hA => keeps_eraserStep now over hA)
    (by rw [eraserStep_flights]; intro g hg; exact ⟨g, hg, rfl, rfl⟩)

end SH.Delivery
