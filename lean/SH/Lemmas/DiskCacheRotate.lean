import SH.Lemmas.DiskCacheErase3

namespace SH.C09
open SH.DiskCache

/-! ### PutBucket, step 1: rotation (the writing head lets go of its file) -/

theorem Inv.writing_view {cfg : Cfg} {s : Shard} {a : Abs} (inv : Inv cfg s a) {w : Nat} (hw : s.writing = some w) :
    ∃ f, a.writing = true ∧ a.new.getLast? = some f ∧ f.name = w ∧ f ∈ a.new ∧ f ∈ a.files ∧ a.wname = some f.name ∧
      ∃ o, findO s.ofiles w = some o ∧ o.refCount = a.refs f ∧ o.size = f.size cfg ∧ o.name = w := by
  have h1 := inv.writing
  rw [hw] at h1
  unfold Abs.wname at h1
  split at h1
  · rename_i hwt
    cases hl : a.new.getLast? with
    | none => rw [hl] at h1; simp at h1
    | some f =>
      rw [hl] at h1; simp at h1
      have hfn : f ∈ a.new := List.mem_of_getLast? hl
      have hff : f ∈ a.files := by simp [Abs.files, hfn]
      have hwn : a.wname = some f.name := by simp [Abs.wname, hwt, hl]
      refine ⟨f, hwt, rfl, h1.symm, hfn, hff, hwn, ?_⟩
      have h0 := inv.ofiles w
      split at h0
      · have := h0 f hff h1.symm
        have h2 : 1 ≤ a.refs f := by
          unfold Abs.refs; rw [hwn]; simp; split <;> omega
        omega
      · rename_i o ho
        obtain ⟨hn, g, hg, hgn, hrc, _, hsz, _⟩ := h0
        have : g = f := inv.name_inj hg hff (by rw [hgn, h1])
        subst this
        exact ⟨o, ho, hrc, hsz, hn⟩
  · simp at h1

theorem inv_unwrite_keep (cfg : Cfg) (s : Shard) (a : Abs) (w : Nat) (o : OFile) (inv : Inv cfg s a)
    (hw : s.writing = some w) (ho : findO s.ofiles w = some o) (hz : ¬ o.refCount - 1 = 0) :
    Inv cfg { unref s w with writing := none } { a with writing := false } := by
  obtain ⟨f, hwt, hl, hfn, hfnew, hff, hwn, o', ho', horc, hosz, hon⟩ := inv.writing_view hw
  rw [ho] at ho'; cases ho'
  subst hfn
  let a2 : Abs := { a with writing := false }
  have hfiles : a2.files = a.files := rfl
  have hb : a2.buckets cfg = a.buckets cfg := rfl
  have hrn : a2.rname = a.rname := rfl
  have hwn2 : a2.wname = none := rfl
  have hinj : ∀ g ∈ a.files, g.name = f.name → g = f := fun g hg h => inv.name_inj hg hff h
  have hrefs : ∀ g ∈ a.files, g ≠ f → a2.refs g = a.refs g := by
    intro g hg hgf
    have : f.name ≠ g.name := fun e => hgf (hinj g hg e.symm)
    simp [Abs.refs, hrn, hwn2, hwn, this]
  have hrefsf : a2.refs f = a.refs f - 1 := by
    simp only [Abs.refs, hrn, hwn2, hwn]; simp
  have hs : ({ unref s f.name with writing := none } : Shard) =
      { s with
        ofiles := mapO s.ofiles f.name (fun g => { g with refCount := g.refCount - 1 })
        writing := none } := by
    simp [unref, ho, hz]
  rw [hs]
  refine { disk := inv.disk, clock := inv.clock, lastID := inv.lastID, names := inv.names, namesLt := inv.namesLt, wf := inv.wf,
           newTl := inv.newTl, preRead := inv.preRead, newRead := inv.newRead, waitIds := inv.waitIds, curOk := inv.curOk,
           idsLe := inv.idsLe, idsNodup := inv.idsNodup, known := inv.known, ofiles := ?_, reading := inv.reading,
           writing := rfl, writingSome := ?_, waiting := inv.waiting, total := inv.total, knownSize := inv.knownSize,
           waitingSize := inv.waitingSize, present := ?_ }
  · intro name
    by_cases hn : name = f.name
    · subst hn
      rw [findO_mapO s.ofiles f.name (fun g => { g with refCount := g.refCount - 1 }) o (fun _ => rfl) ho]
      have h0 := inv.ofiles f.name
      rw [ho] at h0
      obtain ⟨_, g, hg, hgn, _, _, _, hcur⟩ := h0
      have := hinj g hg hgn; subst this
      exact ⟨hon, g, hff, rfl, by rw [hrefsf]; simp [horc], by rw [hrefsf]; omega, hosz, hcur⟩
    · rw [findO_mapO_ne s.ofiles f.name name (fun g => { g with refCount := g.refCount - 1 }) (fun _ => rfl) hn]
      have h0 := inv.ofiles name
      split
      · rename_i hnone
        rw [hnone] at h0
        intro g hg hgn
        rw [hrefs g hg (by intro e; subst e; exact hn hgn.symm)]; exact h0 g hg hgn
      · rename_i o2 hsome
        rw [hsome] at h0
        obtain ⟨ho2, g, hg, hgn, hrc, hpos, hsz, hcur⟩ := h0
        have hgf : g ≠ f := by intro e; subst e; exact hn hgn.symm
        exact ⟨ho2, g, hg, hgn, by rw [hrefs g hg hgf]; exact hrc, by rw [hrefs g hg hgf]; exact hpos, hsz, hcur⟩
  · intro h; simp [a2] at h
  · intro g hg
    have hgf : g ∈ a.files := by
      have : g ∈ a.pre ++ a.new := hg
      simp only [Abs.files, List.mem_append] at this ⊢
      rcases this with h | h
      · exact Or.inl h
      · exact Or.inr (Or.inr (Or.inr h))
    have hposf : 0 < a.refs f - 1 := by
      have h1 : 1 ≤ a.refs f := by
        unfold Abs.refs; rw [hwn]; simp; split <;> omega
      omega
    by_cases hgw : g = f
    · subst hgw; rw [hrefsf]; exact hposf
    · rw [hrefs g hgf hgw]; exact inv.present g hg


theorem live_filter_nil (cfg : Cfg) (n : Nat) : ∀ (l : List AFile), (∀ g ∈ l, g.name = n → fLive cfg g = []) →
    (l.filter (fun f => f.name != n)).flatMap (fLive cfg) = l.flatMap (fLive cfg) := by
  intro l
  induction l with
  | nil => intro _; rfl
  | cons g l ih =>
    intro h
    have ih' := ih (fun x hx => h x (by simp [hx]))
    by_cases hg : g.name = n
    · simp [List.filter_cons, hg, List.flatMap_cons, h g (by simp) hg, ih']
    · simp [List.filter_cons, hg, List.flatMap_cons, ih']

theorem inv_rotate (cfg : Cfg) (s : Shard) (a : Abs) (inv : Inv cfg s a) (len : Nat) (tr : Bool) :
    ∃ a', Inv cfg (rotateIfNeeded s len tr) a' ∧ a'.live cfg = a.live cfg ∧ a'.lastID = a.lastID := by
  unfold rotateIfNeeded
  cases hw : s.writing with
  | none => exact ⟨a, inv, rfl, rfl⟩
  | some w =>
    obtain ⟨f, hwt, hl, hfn, hfnew, hff, hwn, o, ho, horc, hosz, hon⟩ := inv.writing_view hw
    simp only [ho]
    split
    · by_cases hz : o.refCount - 1 = 0
      · -- the file had no live second left: it is deleted
        subst hfn
        have h1 : 1 ≤ a.refs f := by
          unfold Abs.refs; rw [hwn]; simp; split <;> omega
        have hrefs1 : a.refs f = 1 := by omega
        have hidc0 : idc f.recs = 0 ∧ a.rname ≠ some f.name := by
          unfold Abs.refs at hrefs1
          rw [hwn] at hrefs1
          simp only [if_true] at hrefs1
          constructor
          · split at hrefs1 <;> omega
          · intro h; rw [if_pos h] at hrefs1; omega
        have hfb : fbuckets cfg f = [] := bucketsAt_none cfg _ _ _ (idc_zero_none _ hidc0.1)
        have hs : ({ unref s f.name with writing := none } : Shard) =
            { s with
              ofiles := s.ofiles.filter (fun g => g.name != f.name)
              total := s.total - o.size
              disk := s.disk.filter (fun g => g.name != f.name)
              writing := none } := by
          simp [unref, ho, hz]
        have hkn : s.known.filter (fun c => c.id != a.lastID + 1) = s.known := by
          apply filter_id_of
          intro c hc
          have := inv.idsLe c ((inv.known c).mp hc)
          simp; omega
        have hcore := inv_drop_core cfg s { unref s f.name with writing := none } a f true (a.lastID + 1) inv
          (by simp [hfnew]) (by simpa using hwn)
          (by intro x hx; rw [hfb] at hx; simp at hx)
          (by
            intro g hg _ x hx
            have := inv.idsLe x (List.mem_flatMap.mpr ⟨g, hg, hx⟩)
            omega)
          (by rw [hs]) (by rw [hs]) (by rw [hs]) (by rw [hs]) (by rw [hs, hkn]) (by rw [hs, hfb]; simp)
          (by rw [hs]) (by rw [hs]; simp) (by rw [hs]) (by rw [hs]) (by rw [hs]; simp only; rw [hosz])
        refine ⟨_, hcore, ?_, rfl⟩
        have hcurne : ∀ g j, a.cur = some (g, j) → g.name ≠ f.name := by
          intro g j hc hn
          exact hidc0.2 (by simp [Abs.rname, hc, hn])
        have hwaitne : ∀ g ∈ a.wait, g.name ≠ f.name := by
          intro g hg hn
          have hgf : g ∈ a.files := by simp [Abs.files, hg]
          have := inv.name_inj hgf hff hn; subst this
          -- in wait and in new: names repeat
          have hnd := pairwise_lt_ne inv.names
          simp only [Abs.files, List.map_append] at hnd
          rw [List.nodup_append] at hnd
          obtain ⟨_, h2, _⟩ := hnd
          rw [List.nodup_append] at h2
          obtain ⟨_, h4, _⟩ := h2
          rw [List.nodup_append] at h4
          exact h4.2.2 g.name (List.mem_map.mpr ⟨g, hg, rfl⟩) g.name (List.mem_map.mpr ⟨g, hfnew, rfl⟩) rfl
        unfold Abs.live
        rw [Abs.files_drop { a with writing := a.writing && !true } f.name hcurne hwaitne]
        show (a.files.filter (fun g => g.name != f.name)).flatMap (fLive cfg) = _
        apply live_filter_nil
        intro g hg hgn
        have := inv.name_inj hg hff hgn; subst this
        exact liveRecs_dead cfg _ (inv.newRead g hfnew) (idc_zero_none _ hidc0.1)
      · exact ⟨_, inv_unwrite_keep cfg s a w o inv hw ho hz, rfl, rfl⟩
    · exact ⟨a, inv, rfl, rfl⟩

end SH.C09
